/-
FCP-TPA (`FDApy/preprocessing/dim_reduction/fcp_tpa.py`), as executable exact-rational
definitions.

Part 1 — the loop controller of `FCPTPA.fit` (while loop l.658-681, tolerance reset
l.694-695, loop over components l.646), exactly the coded branches, with the update
step (`_update_components`, which contains SciPy's `minimize_scalar`) and the
convergence test as ARBITRARY oracles.  No termination is built in: `run` takes fuel
and answers `none` when it runs out; `C17.terminates` proves that `2·max+2` units are
always enough.

Part 2 — the algebra after the loop: unit scaling is a parameter (the recorded
vectors), `coef` mirrors `np.einsum("ijk, i, j, k -> ...", values, *vectors)`,
`resid` the deflation `values - c * einsum("i, j, k -> ijk", *vectors)`, `scores`,
`eigenimage`, `popVar` (= `np.var`), `inverseTransform`, the normalisation option.

3-way arrays are stored as nested arrays (`T3`) and read with `rd3`; theorems talk
about `rd3 R` on `range n × range m₁ × range m₂`.
-/
import FDAModel.Core.Quadrature

namespace FDA.FCPTPA
open Finset

/-! ## 1. Loop controller -/

/-- State of the while loop of `FCPTPA.fit`: `(n_iter, tolerance, vectors_old, vectors)`. -/
structure Ctl (V : Type) where
  nIter : ℕ
  tol : ℚ
  old : V
  cur : V

variable {V : Type}

/-- One pass through the body of the while loop (l.662-681):
`vectors_old = vectors; vectors = update(vectors); n_iter += 1;`
`if n_iter > max: if adapt and n_iter < 2*max: tolerance *= 10 else: vectors_old = vectors`. -/
def body (update : V → V) (max : ℕ) (adapt : Bool) (s : Ctl V) : Ctl V :=
  let cur' := update s.cur
  let n := s.nIter + 1
  if max < n then
    if adapt && decide (n < 2 * max) then
      { nIter := n, tol := 10 * s.tol, old := s.cur, cur := cur' }
    else
      { nIter := n, tol := s.tol, old := cur', cur := cur' }
  else
    { nIter := n, tol := s.tol, old := s.cur, cur := cur' }

/-- The while loop with fuel.  `notConv old cur tol` is the loop condition
`any(norm(v - v_old)/norm(v) > tolerance …)` as an arbitrary oracle.  `none` = fuel
exhausted (the loop would still be running). -/
def run (notConv : V → V → ℚ → Bool) (update : V → V) (max : ℕ) (adapt : Bool) :
    ℕ → Ctl V → Option (Ctl V)
  | 0, _ => none
  | fuel + 1, s =>
    if notConv s.old s.cur s.tol then run notConv update max adapt fuel (body update max adapt s)
    else some s

/-- Fuel that `C17.terminates` proves sufficient. -/
def fuelFor (max : ℕ) : ℕ := 2 * max + 2

/-- Tolerance reset after the loop (l.694-695):
`if adapt_tolerance and (n_iter >= max_iteration): tolerance = tolerance_old`. -/
def resetTol (adapt : Bool) (max : ℕ) (tolOld : ℚ) (s : Ctl V) : ℚ :=
  if adapt && decide (max ≤ s.nIter) then tolOld else s.tol

/-! ### The loop constants as source-level parameters (target of the translator
`harness/c17.py:translate()` → `Generated/FcpLoop.lean`) -/

/-- Comparison operators and numeric factors of the loop as written in `FCPTPA.fit`. -/
structure LoopConsts where
  /-- `if n_iter > max_iteration` (`true`) or `>=` (`false`). -/
  maxStrict : Bool
  /-- `n_iter < f * max_iteration` (`true`) or `<=`. -/
  adaptStrict : Bool
  /-- the factor `f` (coded: 2). -/
  adaptFactor : ℕ
  /-- `tolerance = g * tolerance` (coded: 10). -/
  tolFactor : ℚ
  /-- reset test `n_iter >= max_iteration` (`true`) or `>`. -/
  resetGe : Bool
  /-- while-condition `… > tolerance` (`true`) or `>=`. -/
  condGt : Bool
  /-- the while-condition starts with `values.any() and` (repair 5419aa3; `guarded`). -/
  zeroGuard : Bool
deriving Repr, DecidableEq

/-- `body` with the constants read from the source. -/
def bodyP (c : LoopConsts) (update : V → V) (max : ℕ) (adapt : Bool) (s : Ctl V) : Ctl V :=
  let cur' := update s.cur
  let n := s.nIter + 1
  if (if c.maxStrict then decide (max < n) else decide (max ≤ n)) then
    if adapt && (if c.adaptStrict then decide (n < c.adaptFactor * max) else decide (n ≤ c.adaptFactor * max)) then
      { nIter := n, tol := c.tolFactor * s.tol, old := s.cur, cur := cur' }
    else
      { nIter := n, tol := s.tol, old := cur', cur := cur' }
  else
    { nIter := n, tol := s.tol, old := s.cur, cur := cur' }

/-- `resetTol` with the comparison read from the source. -/
def resetTolP (c : LoopConsts) (adapt : Bool) (max : ℕ) (tolOld : ℚ) (s : Ctl V) : ℚ :=
  if adapt && (if c.resetGe then decide (max ≤ s.nIter) else decide (max < s.nIter)) then tolOld else s.tol

/-- The constants the hand-written controller (`body`, `resetTol`, `Ratio.gt`) uses. -/
def codedConsts : LoopConsts :=
  { maxStrict := true, adaptStrict := true, adaptFactor := 2, tolFactor := 10, resetGe := true, condGt := true, zeroGuard := true }

/-- Start state of a component: `vectors_old = zeros_like(vectors)`, `n_iter = 0`. -/
def start (zero : V → V) (tol : ℚ) (cur : V) : Ctl V :=
  { nIter := 0, tol := tol, old := zero cur, cur := cur }

/-- The repaired while-condition (commit 5419aa3): `values.any() and any(…)` — `nz` says
whether the residual handed to the component has a non-zero entry. -/
def guarded (nz : Bool) (notConv : V → V → ℚ → Bool) : V → V → ℚ → Bool :=
  fun o c t => nz && notConv o c t

/-- Loop over the components (l.646), `nz k` = "the residual of component `k` is not exactly zero": per component the while loop, the tolerance reset,
the unit scaling (`scale`) — the oracles may depend on the component (the residual
changes).  Result: number of update calls per component, tolerance and vectors at the
end.  `none` iff some while loop ran out of fuel. -/
def fitCtl (nz : ℕ → Bool) (notConv : ℕ → V → V → ℚ → Bool) (update : ℕ → V → V) (zero scale : V → V)
    (max : ℕ) (adapt : Bool) : ℕ → ℕ → ℚ → V → Option (List ℕ × ℚ × V)
  | 0, _, tol, cur => some ([], tol, cur)
  | K + 1, k, tol, cur =>
    match run (guarded (nz k) (notConv k)) (update k) max adapt (fuelFor max) (start zero tol cur) with
    | none => none
    | some s =>
      match fitCtl nz notConv update zero scale max adapt K (k + 1)
              (resetTol adapt max tol s) (scale s.cur) with
      | none => none
      | some (ns, t, v) => some (s.nIter :: ns, t, v)

/-! ### The controller instantiated on recorded convergence ratios (what the driver runs)

The harness records, for component `k` and for the check made after `j` updates, the
value `max_i ‖v_i − v_i^old‖/‖v_i‖` computed by the code's own expression.  The
"vectors" of the instantiated controller are indices: `0` is the all-zero start value
of `vectors_old`, `j+1` the vectors after `j` updates. -/

/-- A recorded float ratio: finite, `nan` (every comparison false) or `+inf`. -/
inductive Ratio where
  | fin (q : ℚ)
  | nan
  | inf
  | missing   -- the controller asks for a check the implementation never made
deriving Repr, DecidableEq

def Ratio.gt (r : Ratio) (tol : ℚ) : Bool :=
  match r with
  | .fin q => decide (tol < q)
  | .nan => false
  | .inf => true
  | .missing => true

/-- Loop condition on recorded ratios; `old = cur` is the forced exit
(`vectors_old = vectors`: the code compares `0/‖v‖ > tolerance`, false for every
`tolerance ≥ 0`, also when the quotient is `nan`). -/
def notConvRec (ratio : ℕ → Ratio) (old cur : ℕ) (tol : ℚ) : Bool :=
  if old = cur then decide (tol < 0) else (ratio (cur - 1)).gt tol

def fitCtlRec (nz : ℕ → Bool) (ratios : ℕ → ℕ → Ratio) (max : ℕ) (adapt : Bool) (K : ℕ) (tol : ℚ) :
    Option (List ℕ × ℚ × ℕ) :=
  fitCtl nz (fun k => notConvRec (ratios k)) (fun _ v => v + 1) (fun _ => 0) (fun _ => 1)
    max adapt K 0 tol 1

/-! ## 2. Algebra -/

/-- 3-way array as stored by the driver. -/
abbrev T3 := Array (Array (Array ℚ))

def rd3 (a : T3) (i j k : ℕ) : ℚ := ((a.getD i #[]).getD j #[]).getD k 0

def tab3 (n m₁ m₂ : ℕ) (f : ℕ → ℕ → ℕ → ℚ) : T3 :=
  Array.ofFn (n := n) fun i => Array.ofFn (n := m₁) fun j => Array.ofFn (n := m₂) fun k =>
    f i.val j.val k.val

theorem rd3_tab3 {n m₁ m₂ : ℕ} (f : ℕ → ℕ → ℕ → ℚ) {i j k : ℕ} (hi : i < n) (hj : j < m₁)
    (hk : k < m₂) : rd3 (tab3 n m₁ m₂ f) i j k = f i j k := by
  simp [rd3, tab3, Array.getD, hi, hj, hk]

/-- Frobenius inner product of two 3-way arrays. -/
def ip3 (n m₁ m₂ : ℕ) (A B : ℕ → ℕ → ℕ → ℚ) : ℚ :=
  ∑ i ∈ range n, ∑ j ∈ range m₁, ∑ k ∈ range m₂, A i j k * B i j k

def dot (n : ℕ) (a b : ℕ → ℚ) : ℚ := ∑ i ∈ range n, a i * b i

/-- The three vectors of one component. -/
structure Comp where
  u : ℕ → ℚ
  v : ℕ → ℚ
  w : ℕ → ℚ

instance : Inhabited Comp := ⟨⟨fun _ => 0, fun _ => 0, fun _ => 0⟩⟩

/-- `np.einsum("i, j, k -> ijk", u, v, w)`. -/
def outer3 (T : Comp) (i j k : ℕ) : ℚ := T.u i * T.v j * T.w k

/-- `np.einsum("ijk, i, j, k -> ...", values, u, v, w)`. -/
def coef (n m₁ m₂ : ℕ) (R : ℕ → ℕ → ℕ → ℚ) (T : Comp) : ℚ := ip3 n m₁ m₂ R (outer3 T)

/-- One deflation step `values - c * einsum("i,j,k->ijk", u, v, w)` with the coded
coefficient, stored. -/
def deflate1 (n m₁ m₂ : ℕ) (R : T3) (T : Comp) : T3 :=
  let c := coef n m₁ m₂ (rd3 R) T
  tab3 n m₁ m₂ fun i j k => rd3 R i j k - c * outer3 T i j k

/-- Residual (`values`) at the start of component `k`. -/
def resid (n m₁ m₂ : ℕ) (X : T3) (T : ℕ → Comp) : ℕ → T3
  | 0 => X
  | k + 1 => deflate1 n m₁ m₂ (resid n m₁ m₂ X T k) (T k)

/-- `coefficients[k]`. -/
def coefAt (n m₁ m₂ : ℕ) (X : T3) (T : ℕ → Comp) (k : ℕ) : ℚ :=
  coef n m₁ m₂ (rd3 (resid n m₁ m₂ X T k)) (T k)

/-- `‖·‖²` of a 3-way array. -/
def energy (n m₁ m₂ : ℕ) (R : ℕ → ℕ → ℕ → ℚ) : ℚ := ip3 n m₁ m₂ R R

/-- `‖u⊗v⊗w‖²` through the three vector norms. -/
def tau (n m₁ m₂ : ℕ) (T : Comp) : ℚ := dot n T.u T.u * dot m₁ T.v T.v * dot m₂ T.w T.w

/-- `_scores = einsum("j, ij -> ij", coefficients, U)`. -/
def scores (c : ℕ → ℚ) (T : ℕ → Comp) (i k : ℕ) : ℚ := c k * (T k).u i

/-- `eigenimages = einsum("ik, jk -> kij", V, W)`. -/
def eigenimage (T : ℕ → Comp) (k j l : ℕ) : ℚ := (T k).v j * (T k).w l

/-- `np.var(x)` (population variance) of a column of length `n`. -/
def popVar (n : ℕ) (x : ℕ → ℚ) : ℚ :=
  (∑ i ∈ range n, (x i - (∑ a ∈ range n, x a) / n) ^ 2) / n

/-- `inverse_transform`: `einsum("ij, jkl -> ikl", scores, eigenfunctions.values)`. -/
def inverseTransform (K : ℕ) (S : ℕ → ℕ → ℚ) (E : ℕ → ℕ → ℕ → ℚ) (i j l : ℕ) : ℚ :=
  ∑ k ∈ range K, S i k * E k j l

/-- `DenseFunctionalData.norm(squared=True)` of one image on the grid `t₁ × t₂`. -/
def normSq2 (m₁ m₂ : ℕ) (t₁ t₂ : ℕ → ℚ) (E : ℕ → ℕ → ℚ) : ℚ :=
  integrate2 m₁ m₂ t₁ t₂ fun a b => E a b * E a b

/-- Normalisation option (l.722-729), `r k` standing for `norm_data[k]` (`r k ^ 2` is the
squared L² norm of eigenimage `k`). -/
def normImage (r : ℕ → ℚ) (E : ℕ → ℕ → ℕ → ℚ) (k j l : ℕ) : ℚ := E k j l / r k
def normScores (r : ℕ → ℚ) (S : ℕ → ℕ → ℚ) (i k : ℕ) : ℚ := S i k * r k
def normEigenvalue (r : ℕ → ℚ) (lam : ℕ → ℚ) (k : ℕ) : ℚ := lam k * r k ^ 2

/-! ### The normalisation block as source-level parameters (translator target, with the loop
constants, of `harness/c17.py:translate()` → `Generated/FcpLoop.lean`) -/

/-- What the block `if self.normalize:` of `FCPTPA.fit` (l.723-730) says, syntactically. -/
structure NormConsts where
  /-- the test is plain truthiness `if self.normalize:` (`true`); `is True` / `== True` give `false`. -/
  truthTest : Bool
  /-- `norm(squared=…)`: `true` when the SQUARED norm is requested (coded: `False`). -/
  normSquared : Bool
  /-- `use_argvals_stand` passed truthy (coded: absent = `false`, the norm on the actual grid). -/
  standGrid : Bool
  /-- eigenimages are multiplied by `norm_data ^ imagePow` (coded `/ norm_data`: `-1`). -/
  imagePow : Int
  /-- scores are multiplied by `norm_data ^ scorePow` (coded `* norm_data`: `1`). -/
  scorePow : Int
  /-- eigenvalues are multiplied by `norm_data ^ eigPow` (coded `np.power(norm_data, 2)`: `2`). -/
  eigPow : Int
deriving Repr, DecidableEq

/-- `norm_data[k]` in terms of the norm `r k`. -/
def normDatumP (c : NormConsts) (r : ℕ → ℚ) (k : ℕ) : ℚ := if c.normSquared then r k ^ 2 else r k

def normImageP (c : NormConsts) (r : ℕ → ℚ) (E : ℕ → ℕ → ℕ → ℚ) (k j l : ℕ) : ℚ :=
  E k j l * normDatumP c r k ^ c.imagePow
def normScoresP (c : NormConsts) (r : ℕ → ℚ) (S : ℕ → ℕ → ℚ) (i k : ℕ) : ℚ :=
  S i k * normDatumP c r k ^ c.scorePow
def normEigenvalueP (c : NormConsts) (r : ℕ → ℚ) (lam : ℕ → ℚ) (k : ℕ) : ℚ :=
  lam k * normDatumP c r k ^ c.eigPow

/-- The constants of the hand-written normalisation (`normImage`, `normScores`, `normEigenvalue`). -/
def codedNormConsts : NormConsts :=
  { truthTest := true, normSquared := false, standGrid := false, imagePow := -1, scorePow := 1, eigPow := 2 }

/-- `transform(data, "NumInt")`: `einsum("ikl, jkl -> ij", data, eigenfunctions)/n_points`
(`n_points = m₁·m₂` with normalisation, `1` without). -/
def transformNumInt (m₁ m₂ : ℕ) (div : ℚ) (X : ℕ → ℕ → ℕ → ℚ) (E : ℕ → ℕ → ℕ → ℚ) (i k : ℕ) : ℚ :=
  (∑ j ∈ range m₁, ∑ l ∈ range m₂, X i j l * E k j l) / div

/-! ### The first step of `_update_components` (only what the open finding
`C17-zero-residual-nan` needs; the rest of the update is an oracle) -/

/-- `np.einsum("i, j, kij -> k", v, w, data)`: right-hand side of the `u` update. -/
def powerU (m₁ m₂ : ℕ) (R : ℕ → ℕ → ℕ → ℚ) (v w : ℕ → ℚ) (i : ℕ) : ℚ :=
  ∑ j ∈ range m₁, ∑ k ∈ range m₂, v j * w k * R i j k

/-- `u = solve(I, b) / (v_cross * w_cross)` with `d = v_cross * w_cross`. -/
def updateU (m₁ m₂ : ℕ) (R : ℕ → ℕ → ℕ → ℚ) (v w : ℕ → ℚ) (d : ℚ) (i : ℕ) : ℚ :=
  powerU m₁ m₂ R v w i / d

/-- `u_cross = _compute_denominator(u, 0, 0) = uᵀu`: the `v` and `w` updates divide by it. -/
def uCross (n m₁ m₂ : ℕ) (R : ℕ → ℕ → ℕ → ℚ) (v w : ℕ → ℚ) (d : ℚ) : ℚ :=
  dot n (updateU m₁ m₂ R v w d) (updateU m₁ m₂ R v w d)

end FDA.FCPTPA
