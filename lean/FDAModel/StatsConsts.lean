/-
Bookkeeping constants of the estimators and transformations of C09 / C10, as the SOURCE writes them
(`Generated/StatsFormulas.lean`, translated on every run by `harness/c09_translate.py`) and as the
hand-written model uses them (`modelNoise`, `modelCov`, `modelTransform`), plus the formulas written
*with* the constants (`…Coded`), which `Props/C09.lean` / `Props/C10.lean` prove equal to the model.
-/
import FDAModel.Transform

namespace FDA
open Finset

/-- `utils._estimate_noise_variance` and the three `noise_variance` methods. -/
structure NoiseConsts where
  orderLo : Int          -- `order < 1`  → `ValueError`
  orderHi : Int          -- `order > 10` → `ValueError`
  guardError : String
  shortPlus : Nat        -- `len(x) < order + 1` → the curve is too short
  shortValue : Int       -- `return 0`
  windowPlus : Nat       -- `x[idx : idx + order + 1]`
  nWindowsMinus : Nat    -- `range(len(x) - order)`
  power : Nat            -- `** 2`
  reduceMean : Bool      -- `np.nanmean([...])` over the windows
  denseMeanOverCurves : Bool
  denseForwardsOrder : Bool
  dim2Value : Int        -- dimension > 1: `return 0`
  irregularStripsNaN : Bool
  irregularMeanOverCurves : Bool
  irregularForwardsOrder : Bool
  multiComponentwise : Bool
  multiForwardsOrder : Bool
  deriving DecidableEq, Repr

/-- `DenseFunctionalData.mean` / `.covariance(method_smoothing=None)`. -/
structure CovConsts where
  meanAxis : Nat          -- `self.values.mean(axis=0)`
  leftTransposed : Bool   -- `np.dot(data.values.T, data.values)`
  rightTransposed : Bool
  ddof : Nat              -- `/ (self.n_obs - 1)`
  centerDefault : Bool    -- `center: bool = True`
  symAddsTranspose : Bool -- `(cov + cov.T) / 2`
  symDivisor : Nat
  deriving DecidableEq, Repr

/-- `DenseFunctionalData.center / standardize / rescale / normalize`. -/
structure TransformConsts where
  centerSubtractsMean : Bool   -- `self.values - data_mean.values`
  stdOfInput : Bool            -- `np.std(self.values, …)`: of the INPUT, also when it is divided after centring
  stdAxis : Nat
  stdDdof : Nat
  stdDividesData : Bool        -- `np.divide(fdata.values, std, …)`
  stdGuardExact : Bool         -- `where=(std != 0)`: exact, no tolerance
  stdOutZeros : Bool           -- `out=np.zeros_like(…)`
  weightTestExactZero : Bool   -- `if weights == 0.0`
  varAxis : Nat
  varDdof : Nat
  rescaleDividesBySqrt : Bool  -- `self / np.sqrt(float(weights))`
  rescaleReturnsWeights : Bool -- `return new_data, weights`
  normalizeDividesByNorm : Bool
  normalizeForwardsOptions : Bool -- `self.norm(**kwargs)`
  deriving DecidableEq, Repr

/-- What `FDAModel/Stats.lean` (`noiseVar1E`, `noiseVar1`, `noiseVar`, `noiseVarE`) uses. -/
def modelNoise : NoiseConsts :=
  { orderLo := 1, orderHi := 10, guardError := "ValueError", shortPlus := 1, shortValue := 0, windowPlus := 1,
    nWindowsMinus := 0, power := 2, reduceMean := true, denseMeanOverCurves := true, denseForwardsOrder := true,
    dim2Value := 0, irregularStripsNaN := true, irregularMeanOverCurves := true, irregularForwardsOrder := true,
    multiComponentwise := true, multiForwardsOrder := true }

/-- What `colMean`, `covOf`, `cov`, `covImpl`, `symmetrise` use. -/
def modelCov : CovConsts :=
  { meanAxis := 0, leftTransposed := true, rightTransposed := false, ddof := 1, centerDefault := true,
    symAddsTranspose := true, symDivisor := 2 }

/-- What `center`, `standardize`, `popVar`, `rescaleWeight`, `scaleBy` use. -/
def modelTransform : TransformConsts :=
  { centerSubtractsMean := true, stdOfInput := true, stdAxis := 0, stdDdof := 0, stdDividesData := true,
    stdGuardExact := true, stdOutZeros := true, weightTestExactZero := true, varAxis := 0, varDdof := 0,
    rescaleDividesBySqrt := true, rescaleReturnsWeights := true, normalizeDividesByNorm := true,
    normalizeForwardsOptions := true }

/-! ### the formulas written with the constants -/

/-- The order guard as coded: `order < lo or order > hi`. -/
def orderRejectedCoded (c : NoiseConsts) (order : ℤ) : Prop := order < c.orderLo ∨ order > c.orderHi

/-- `_estimate_noise_variance` past the order guard, with the source's offsets. -/
def noiseVar1Coded (c : NoiseConsts) (q : ℕ) (d : ℕ → ℚ) (L : ℕ) (x : ℕ → ℚ) : ℚ :=
  if L < q + c.shortPlus then (c.shortValue : ℚ)
  else
    let n := L - q - c.nWindowsMinus
    let s := ∑ s ∈ range n, (∑ k ∈ range (q + c.windowPlus), d k * x (s + k)) ^ c.power
    if c.reduceMean then s / (n : ℚ) else s

/-- `np.dot(D.T, D) / (n_obs - ddof)` (or `np.dot(D, D.T)`, the Gram matrix of the curves, when the
transposes sit the other way round). -/
def covCoded (c : CovConsts) (N m : ℕ) (D : ℕ → ℕ → ℚ) (a b : ℕ) : ℚ :=
  (if c.leftTransposed && !c.rightTransposed then ∑ i ∈ range N, D i a * D i b
   else ∑ j ∈ range m, D a j * D b j) / ((N : ℚ) - c.ddof)

/-- `(cov + cov.T) / 2` with the source's divisor. -/
def symmetriseCoded (c : CovConsts) (M : ℕ → ℕ → ℚ) (a b : ℕ) : ℚ :=
  (M a b + (if c.symAddsTranspose then M b a else M a b)) / c.symDivisor

/-- `np.std(values, axis=0, ddof)²`. -/
def varCoded (ddof : ℕ) (N : ℕ) (X : ℕ → ℕ → ℚ) (j : ℕ) : ℚ :=
  (∑ i ∈ range N, (X i j - colMean N X j) ^ 2) / ((N : ℚ) - ddof)

/-- The guarded division of `standardize` as coded (`g` = what an un-zeroed buffer would hold; `tolGuard` =
what a non-exact guard would compare with). -/
def standardizeCoded (c : TransformConsts) (g : ℕ → ℕ → ℚ) (tolGuard : ℕ → Bool) (sd : ℕ → ℚ) (D : ℕ → ℕ → ℚ) (i j : ℕ) : ℚ :=
  let keep := if c.stdGuardExact then decide (sd j ≠ 0) else tolGuard j
  if keep then D i j / sd j else if c.stdOutZeros then 0 else g i j

/-- The divisor of `rescale`: `√w` (`r` with `r² = w`) or `w` itself. -/
def rescaleDivisorCoded (c : TransformConsts) (r w : ℚ) : ℚ := if c.rescaleDividesBySqrt then r else w

end FDA
