/-
The handful of NumPy 2-D array operations the coefficient-space methods of `BasisFunctionalData`
(`FDApy/representation/functional_data.py`) are written with, as executable definitions.  The translator
(`harness/c14_translate.py`) maps the *syntax* of the source onto these combinators one to one (no arithmetic, no
simplification of its own); what each NumPy operation means is stated here, once, and is part of the trusted base.
Arrays are `ℕ → ℕ → ℚ` read on their (symbolic) shape; the shapes are tracked by the translator (a product whose
inner dimensions differ is not translated).
-/
import FDAModel.Core.Quadrature

namespace FDA.NpM
open Finset

/-- `A @ B`, `k` = number of columns of `A` = number of rows of `B`. -/
def matmul (k : ℕ) (A B : ℕ → ℕ → ℚ) : ℕ → ℕ → ℚ := fun i j => ∑ a ∈ range k, A i a * B a j

/-- `A.T`. -/
def transpose (A : ℕ → ℕ → ℚ) : ℕ → ℕ → ℚ := fun i j => A j i

/-- `A / c` (a number). -/
def divc (A : ℕ → ℕ → ℚ) (c : ℚ) : ℕ → ℕ → ℚ := fun i j => A i j / c

/-- `np.mean(A, axis=0)` for `n` rows. -/
def meanAxis0 (n : ℕ) (A : ℕ → ℕ → ℚ) : ℕ → ℚ := fun j => (∑ i ∈ range n, A i j) / n

/-- `np.mean(A, axis=1)` for `m` columns. -/
def meanAxis1 (m : ℕ) (A : ℕ → ℕ → ℚ) : ℕ → ℚ := fun i => (∑ j ∈ range m, A i j) / m

/-- `A - v` with `v` a 1-D array broadcast along the rows (`v` indexed by the column). -/
def subRow (A : ℕ → ℕ → ℚ) (v : ℕ → ℚ) : ℕ → ℕ → ℚ := fun i j => A i j - v j

/-- `v[np.newaxis]`: one row. -/
def newaxis (v : ℕ → ℚ) : ℕ → ℕ → ℚ := fun _ j => v j

/-- `np.diag(A)` of a square array. -/
def diag (A : ℕ → ℕ → ℚ) : ℕ → ℚ := fun i => A i i

end FDA.NpM
