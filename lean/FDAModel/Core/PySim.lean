/-
A tiny abstract syntax for the bodies of `Simulation.add_noise`, `Simulation.sparsify` and
`Simulation.add_noise_and_sparsify` (import-free), the target language of the translator
`harness/c20_translate.py`, and its meaning in the state / exception monad of
`FDAModel/Simulation.lean` (the state survives a failure; every internal call is a fault point
before it starts and after it returned).

One Python statement = one constructor, in the order of the source; an attribute assignment whose
right-hand side is a computation is two steps (Python evaluates the right-hand side first):
`computeNoise; assignNoisyLocal`.
-/
import FDAModel.Simulation

namespace FDA.PySim
open FDA.Sim

/-- statements without nested blocks -/
inductive Simple where
  | checkData           -- `self._check_data()`
  | checkDim            -- `self._check_dimension()`
  | bindSources         -- `if self.random_state is None: rnorm = np.random.… else: rnorm = self.random_state.…` (no effect on the simulator)
  | computeNoise        -- evaluate `<noisy version of self.data>` (dense: `_add_noise_univariate_data(self.data, …)`, else one per component + `MultivariateFunctionalData`) into a local
  | assignNoisyLocal    -- `self.noisy_data = <that local>`
  | assignNoisyData     -- `self.noisy_data = self.data`            (a container created before it is filled)
  | computeSparse       -- evaluate `<sparse version of self.data>` into a local
  | assignSparseLocal   -- `self.sparse_data = <that local>`
  | callAddNoise        -- `self.add_noise(noise_variance=noise_variance)`
  | callSparsify        -- `self.sparsify(percentage=percentage, epsilon=epsilon)`
  | saveData            -- `tmp = self.data`
  | setDataNoisy        -- `self.data = self.noisy_data`
  | restoreData         -- `self.data = tmp`
  | swapDataNoisy       -- `self.data, self.noisy_data = self.noisy_data, self.data`
deriving DecidableEq, Repr

inductive Stmt where
  | s (x : Simple)
  | tryFinally (body fin : List Simple)   -- `try: body finally: fin`
deriving DecidableEq, Repr

/-- the arguments of the operations and the scripted draws -/
structure Params where
  repl : Bool
  r : Rat
  zs : List (List (List Rat))
  p : Rat
  e : Rat
  ss : List (List CurveScript)

/-- local variables of a method body -/
structure Locals where
  noisy : Option (Data Comp) := none
  sparse : Option (Data SComp) := none
  tmp : Option (Option (Data Comp)) := none

/-- the three method bodies, as lists of statements -/
structure Bodies where
  addNoise : List Stmt
  sparsify : List Stmt
  combined : List Stmt

/-- one simple statement; `addNoiseM` / `sparsifyM` are the meanings of the two public methods it may call -/
def execSimple (P : Params) (addNoiseM sparsifyM : M Unit) : Simple → Locals → M Locals
  | .checkData, l => do call "_check_data" checkData; pure l
  | .checkDim, l => do call "_check_dimension" checkDim; pure l
  | .bindSources, l => pure l
  | .computeNoise, l => do
    let d ← getData
    let nd ← noiseData P.r P.zs d
    pure { l with noisy := some nd }
  | .assignNoisyLocal, l =>
    match l.noisy with
    | some nd => do setNoisy nd; pure l
    | none => raise .script
  | .assignNoisyData, l => do
    let d ← getData
    setNoisy d
    pure l
  | .computeSparse, l => do
    let d ← getData
    let sd ← sparsifyData P.repl P.p P.e P.ss d
    pure { l with sparse := some sd }
  | .assignSparseLocal, l =>
    match l.sparse with
    | some sd => do setSparse sd; pure l
    | none => raise .script
  | .callAddNoise, l => do addNoiseM; pure l
  | .callSparsify, l => do sparsifyM; pure l
  | .saveData, l => do let s ← getSim; pure { l with tmp := some s.data }
  | .setDataNoisy, l => do let s ← getSim; setData s.noisy; pure l
  | .restoreData, l =>
    match l.tmp with
    | some d => do setData d; pure l
    | none => raise .script
  | .swapDataNoisy, l => fun st =>
    (.ok l, { st with sim := { st.sim with data := st.sim.noisy, noisy := st.sim.data } })

def execSimples (P : Params) (a s : M Unit) : List Simple → Locals → M Locals
  | [], l => pure l
  | x :: xs, l => do let l' ← execSimple P a s x l; execSimples P a s xs l'

/-- `try: body finally: fin` — the `finally` block runs whatever the body did, with the locals the body
reached when it stopped being unknown, the locals of the entry are used (the coded `finally` only reads
`tmp`, bound before the `try`) -/
def execStmt (P : Params) (a s : M Unit) : Stmt → Locals → M Locals
  | .s x, l => execSimple P a s x l
  | .tryFinally body fin, l => fun st =>
    match execSimples P a s body l st with
    | (r, st') =>
      match execSimples P a s fin l st' with
      | (.ok _, st'') => (r, st'')
      | (.error e, st'') => (.error e, st'')

def execBody (P : Params) (a s : M Unit) : List Stmt → Locals → M Locals
  | [], l => pure l
  | x :: xs, l => do let l' ← execStmt P a s x l; execBody P a s xs l'

/-- a body run for its effect -/
def bodyM (P : Params) (a s : M Unit) (b : List Stmt) : M Unit := do let _ ← execBody P a s b {}; pure ()

/-- the meaning of the three public methods given the generated bodies (a public method is entered
through the fault points `name` / `name:ret` when another method or the harness calls it) -/
def addNoiseM (P : Params) (B : Bodies) : M Unit := call "add_noise" (bodyM P (raise .script) (raise .script) B.addNoise)
def sparsifyM (P : Params) (B : Bodies) : M Unit := call "sparsify" (bodyM P (raise .script) (raise .script) B.sparsify)
def combinedM (P : Params) (B : Bodies) : M Unit := bodyM P (addNoiseM P B) (sparsifyM P B) B.combined

end FDA.PySim
