/-
Rational square-root brackets for the drivers (owned by the fpca builder).

`sqrtLo P q` is the largest multiple of `10⁻ᴾ` whose square is `≤ q` (`q ≥ 0`),
computed with `Nat.sqrt`.  The bracket `sqrtLo² ≤ q < (sqrtLo + 10⁻ᴾ)²` is proved
in `FDAProofs/Lemmas/SqrtQ.lean`.  The theorems of C02/C03 are stated with exact
square roots as hypotheses (`s·s = w`, over any field, in particular `ℝ`); the
drivers evaluate the same definitions over `ℚ` with these brackets (`P = 24`, far
inside the float tolerance).
-/
import Mathlib.Algebra.Order.Field.Rat

namespace FDA

/-- `⌊√(q·10^{2P})⌋ / 10^P` for `q ≥ 0` (and `0` for `q < 0`). -/
def sqrtLo (P : ℕ) (q : ℚ) : ℚ :=
  if q < 0 then 0 else
    (Nat.sqrt (q.num.toNat * 10 ^ (2 * P) / q.den) : ℚ) / (10 ^ P : ℕ)

/-- Precision used by the drivers. -/
def sqrtQ (q : ℚ) : ℚ := sqrtLo 24 q

end FDA
