/-
The few NumPy matrix / vector operations that `_local_regression` and `PSplines.predict` are written with, as
executable definitions over the numeric layer (`ℕ → ℚ`, `ℕ → ℕ → ℚ` read on ranges).  The translator
`harness/smooth_translate.py` maps the *syntax* of the source onto these combinators one to one (it does no
arithmetic); what each NumPy operation means is stated here, once, and is part of the trusted base.
-/
import FDAModel.Core.Quadrature

namespace FDA.NpLP
open Finset

/-- `A.T`. -/
def transpose (A : ℕ → ℕ → ℚ) : ℕ → ℕ → ℚ := fun a i => A i a

/-- `A * v` for a matrix `A` (rows × n) and a vector `v` of length `n`: broadcasting over the last axis. -/
def bcastRowMul (A : ℕ → ℕ → ℚ) (v : ℕ → ℚ) : ℕ → ℕ → ℚ := fun a i => A a i * v i

/-- `u * v`, element-wise. -/
def vmul (u v : ℕ → ℚ) : ℕ → ℚ := fun i => u i * v i

/-- `c * v`. -/
def vscale (c : ℚ) (v : ℕ → ℚ) : ℕ → ℚ := fun i => c * v i

/-- `v ** k`. -/
def vpow (v : ℕ → ℚ) (k : ℕ) : ℕ → ℚ := fun i => v i ^ k

/-- `np.dot(A, B)` / `A @ B` for `A` (rows × n), `B` (n × cols). -/
def dotMM (n : ℕ) (A B : ℕ → ℕ → ℚ) : ℕ → ℕ → ℚ := fun a b => ∑ i ∈ range n, A a i * B i b

/-- `np.dot(A, v)` for `A` (rows × n), `v` of length `n`. -/
def dotMV (n : ℕ) (A : ℕ → ℕ → ℚ) (v : ℕ → ℚ) : ℕ → ℚ := fun a => ∑ i ∈ range n, A a i * v i

/-- `np.dot(u, v)` / `u @ v` for vectors of length `p`. -/
def dotVV (p : ℕ) (u v : ℕ → ℚ) : ℚ := ∑ a ∈ range p, u a * v a

end FDA.NpLP
