/-
A tiny abstract syntax for the `isinstance` dispatch of Python operator methods (import-free), the
target language of the translator `harness/c12_translate.py`:

    def __op__(self, obj):
        if isinstance(obj, C1):            return self._perform_computation(self, obj, np.f)
        elif isinstance(obj, (C2, C3)):    return self._perform_computation_number(self, obj, np.f)
        else:                              raise TypeError(…)

The translator maps syntax only; what a branch *means* for an operand kind (`Operand.isInstance`, the Python
class hierarchy of the operand zoo) and how a method is routed are defined here, by hand.
-/
import FDAModel.Arith

namespace FDA.PyDispatch
open FDA.Arith

/-- Classes that may appear as second argument of `isinstance`. -/
inductive PyClass
  | functionalData | gridFunctionalData | denseFunctionalData | irregularFunctionalData
  | float | int | bool | complex | str | list | tuple | dict | ndarray
  | npNumber | npFloating | npInteger | npFloat64 | npGeneric | numbersNumber | numbersReal | object
  deriving DecidableEq, Repr

/-- The NumPy functions handed to `_perform_computation*`. -/
inductive UFunc
  | add | subtract | multiply | trueDivide | floorDivide
  deriving DecidableEq, Repr

inductive ErrClass
  | typeError | valueError | notImplementedError
  deriving DecidableEq, Repr

/-- The operator methods of `GridFunctionalData`. -/
inductive OpName
  | add | sub | mul | truediv | floordiv | radd | rsub | rmul | rtruediv | rfloordiv
  deriving DecidableEq, Repr

/-- What a branch does. -/
inductive Action
  | compute (f : UFunc)        -- `return self._perform_computation(self, obj, np.f)`
  | number (f : UFunc)         -- `return self._perform_computation_number(self, obj, np.f)`
  | raise (e : ErrClass)       -- `raise E(…)`
  | delegate (m : OpName)      -- `return self <op> obj` / `return self.__op__(obj)`
  | notImplemented             -- `return NotImplemented`
  | fallOff                    -- the method ends without `return` (returns `None`)
  deriving DecidableEq, Repr

/-- `if isinstance(obj, (c₁, …)): act`. -/
structure Branch where
  classes : List PyClass
  act : Action
  deriving DecidableEq, Repr

/-- A method: its branches in order, and what happens when none applies. -/
structure Method where
  branches : List Branch
  otherwise : Action
  deriving DecidableEq, Repr

/-- The right-hand operands the checks offer: functional data, or one of the scalar / foreign kinds. -/
inductive Operand
  | fd
  | scalar (k : SKind)
  deriving DecidableEq, Repr

/-- `isinstance(operand, cls)` — the Python / NumPy class hierarchy of the operand zoo (`bool` is an `int`,
`np.float64` is a `float`, no other NumPy scalar is an `int` or a `float`). -/
def Operand.isInstance : Operand → PyClass → Bool
  | _, .object => true
  | .fd, c => c == .functionalData || c == .gridFunctionalData
  | .scalar .pyInt, c => c == .int || c == .numbersNumber || c == .numbersReal
  | .scalar .pyBool, c => c == .int || c == .bool || c == .numbersNumber || c == .numbersReal
  | .scalar .pyFloat, c => c == .float || c == .numbersNumber || c == .numbersReal
  | .scalar .npFloat64, c => c == .float || c == .npFloat64 || c == .npFloating || c == .npNumber || c == .npGeneric ||
      c == .numbersNumber || c == .numbersReal
  | .scalar .npInt64, c => c == .npInteger || c == .npNumber || c == .npGeneric || c == .numbersNumber || c == .numbersReal
  | .scalar .npInt32, c => c == .npInteger || c == .npNumber || c == .npGeneric || c == .numbersNumber || c == .numbersReal
  | .scalar .npFloat32, c => c == .npFloating || c == .npNumber || c == .npGeneric || c == .numbersNumber || c == .numbersReal
  | .scalar .npFloat16, c => c == .npFloating || c == .npNumber || c == .npGeneric || c == .numbersNumber || c == .numbersReal
  | .scalar .npBool, c => c == .npGeneric
  | .scalar .str, c => c == .str
  | .scalar .array, c => c == .ndarray
  | .scalar .array0d, c => c == .ndarray
  | .scalar .pyList, c => c == .list
  | .scalar .pyTuple, c => c == .tuple
  | .scalar .dict, c => c == .dict
  | .scalar .complex, c => c == .complex || c == .numbersNumber
  | .scalar .fraction, c => c == .numbersNumber || c == .numbersReal
  | .scalar .decimal, c => c == .numbersNumber
  | .scalar .none, _ => false
  | .scalar .other, _ => false

/-- The action of the first branch one of whose classes the operand is an instance of. -/
def Method.route (m : Method) (o : Operand) : Action :=
  match m.branches.find? fun b => b.classes.any (o.isInstance ·) with
  | some b => b.act
  | none => m.otherwise

/-- Routing through a table of methods, following one delegation (`__rmul__`: `return self * obj`);
`none`: the method is not defined (Python then raises its own `TypeError`). -/
def resolve (tbl : OpName → Option Method) (name : OpName) (o : Operand) : Option Action :=
  match tbl name with
  | none => none
  | some m =>
    match m.route o with
    | .delegate m' => (tbl m').map fun mm => mm.route o
    | a => some a

/-- The operator of the model behind each method name. -/
def OpName.op : OpName → Op
  | .add | .radd => .add
  | .sub | .rsub => .sub
  | .mul | .rmul => .mul
  | .truediv | .rtruediv => .div
  | .floordiv | .rfloordiv => .floordiv

def ufuncOf : Op → UFunc
  | .add => .add
  | .sub => .subtract
  | .mul => .multiply
  | .div => .trueDivide
  | .floordiv => .floorDivide

def OpName.isReflected : OpName → Bool
  | .radd | .rsub | .rmul | .rtruediv | .rfloordiv => true
  | _ => false

/-- The guard of the model (`binop` / `scalarop` / `rscalarop` of `FDAModel/Arith.lean`) written as a routing:
functional data go to the compatibility-checked computation, an accepted scalar kind to the scalar computation with
the operator's own NumPy function, everything else is a `TypeError`; of the reflected methods only `__rmul__` exists. -/
def modelRoute (name : OpName) (o : Operand) : Option Action :=
  if name.isReflected && name != .rmul then none
  else match o with
    | .fd => some (.compute (ufuncOf name.op))
    | .scalar k => if k.accepted then some (.number (ufuncOf name.op)) else some (.raise .typeError)

end FDA.PyDispatch
