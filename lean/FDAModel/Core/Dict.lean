/-
Python dictionaries with integer keys as association lists (import-free).

Mirrors what `IrregularArgvals` / `IrregularValues` (`collections.UserDict`) do:
insertion order is kept, assigning to an existing key replaces the value *in
place* (the key keeps its position), a new key goes to the end.
Used by C11 (container histories) and C13 (selection / concatenation).
-/
namespace FDA.Dict

/-- A dictionary `label ↦ entry`, in insertion order. -/
abbrev D (α : Type) := List (Int × α)

variable {α β γ : Type}

/-- `d.get(k)` / `d[k]` (`none` = `KeyError`). -/
def get? : D α → Int → Option α
  | [], _ => none
  | (k', e) :: t, k => if k' = k then some e else get? t k

/-- `d[k] = e`: replace in place when the key exists, otherwise append. -/
def set : D α → Int → α → D α
  | [], k, e => [(k, e)]
  | (k', e') :: t, k, e => if k' = k then (k', e) :: t else (k', e') :: set t k e

/-- `for k, e in xs: d[k] = e`. -/
def setAll (d : D α) (xs : List (Int × α)) : D α :=
  xs.foldl (fun acc p => set acc p.1 p.2) d

/-- `dict(pairs)` / a dictionary comprehension over `pairs`. -/
def ofList (xs : List (Int × α)) : D α := setAll [] xs

/-- `list(d.keys())`. -/
def keys (d : D α) : List Int := d.map Prod.fst

/-- `list(d.values())`. -/
def vals (d : D α) : List α := d.map Prod.snd

/-- `k in d`. -/
def has (d : D α) (k : Int) : Bool := (get? d k).isSome

/-- Keys are pairwise distinct (what every Python dictionary satisfies). -/
def NodupKeys (d : D α) : Prop := (keys d).Nodup

/-- Python's `dict.__eq__` on the images of two dictionaries under `f` and `g`:
same length and every entry of the first is found, with an equal image, in the
second (order is irrelevant). -/
def eqBy [DecidableEq β] (f : α → β) (g : γ → β) (a : D α) (b : D γ) : Bool :=
  a.length == b.length &&
    a.all fun p => match get? b p.1 with
      | some e => decide (f p.2 = g e)
      | none => false

/-- Map the entries, keep keys and order. -/
def mapVals (f : α → β) (d : D α) : D β := d.map fun p => (p.1, f p.2)

/-- Shift every key by `t` (`temp + key` in `IrregularArgvals.concatenate`). -/
def shift (t : Int) (d : D α) : D α := d.map fun p => (t + p.1, p.2)

/-- Entries labelled `o, o+1, …` in order. -/
def freshFrom : Nat → List α → D α
  | _, [] => []
  | o, e :: t => ((o : Int), e) :: freshFrom (o + 1) t

/-- A dictionary built from a list of entries with labels `0, 1, …`
(how a freshly built dataset is labelled). -/
def fresh (xs : List α) : D α := freshFrom 0 xs

/-- Fresh labels `0, 1, …` in order, same entries. -/
def relabel (d : D α) : D α := fresh (vals d)

end FDA.Dict
