/-
Line protocol shared by all drivers (import-free).

One request per input line, one answer per output line.  Tokens are separated
by single spaces; a vector is `a,b,c` (empty vector: `-`), a matrix is rows
separated by `;`.  Rationals are `num/den` or `num` (den > 0).
-/
namespace FDA.Proto

def parseInt? (s : String) : Option Int :=
  s.toInt?

def parseRat? (s : String) : Option Rat :=
  match s.splitOn "/" with
  | [n] => (parseInt? n).map fun k => (k : Rat)
  | [n, d] =>
    match parseInt? n, d.toNat? with
    | some k, some m => if m = 0 then none else some (mkRat k m)
    | _, _ => none
  | _ => none

def parseVec? (s : String) : Option (List Rat) :=
  if s = "-" then some [] else (s.splitOn ",").mapM parseRat?

def parseNatVec? (s : String) : Option (List Nat) :=
  if s = "-" then some [] else (s.splitOn ",").mapM String.toNat?

def parseIntVec? (s : String) : Option (List Int) :=
  if s = "-" then some [] else (s.splitOn ",").mapM parseInt?

def parseMat? (s : String) : Option (List (List Rat)) :=
  if s = "-" then some [] else (s.splitOn ";").mapM parseVec?

def showRat (q : Rat) : String :=
  if q.den = 1 then toString q.num else toString q.num ++ "/" ++ toString q.den

def showVec (v : List Rat) : String :=
  if v.isEmpty then "-" else ",".intercalate (v.map showRat)

def showNatVec (v : List Nat) : String :=
  if v.isEmpty then "-" else ",".intercalate (v.map toString)

def showIntVec (v : List Int) : String :=
  if v.isEmpty then "-" else ",".intercalate (v.map toString)

def showMat (m : List (List Rat)) : String :=
  if m.isEmpty then "-" else ";".intercalate (m.map showVec)

def tokens (line : String) : List String :=
  (line.trimAscii.toString.splitOn " ").filter (· ≠ "")

/-- Read stdin line by line, answer each line with `f`. -/
partial def serve (f : String → String) : IO Unit := do
  let stdin ← IO.getStdin
  let stdout ← IO.getStdout
  let rec loop : IO Unit := do
    let line ← stdin.getLine
    if line.isEmpty then return ()
    let l := line.trimAscii.toString
    if l.isEmpty then loop else
    stdout.putStrLn (f l)
    loop
  loop
  stdout.flush

end FDA.Proto
