/-
A tiny abstract syntax for the bodies of the cross-validating setters (`argvals`, `values`, `argvals_stand`) of
`DenseFunctionalData` / `IrregularFunctionalData` / `GridFunctionalData` (import-free), the target language of the
translator `harness/c11_translate.py`, and its meaning on the container model `FDA.Containers`.
-/
import FDAModel.Containers

namespace FDA.PySetter
open FDA.Dict FDA.Select FDA.Containers

/-- The attributes the setters read and write. -/
inductive Field
  | argvals | values | stand
  deriving DecidableEq, Repr

/-- The classes the setters test for. -/
inductive SClass
  | denseArgvals | irregularArgvals | denseValues | irregularValues | argvals
  deriving DecidableEq, Repr

/-- One statement of a setter body (`x` is the new value). -/
inductive Stmt
  | requireClass (c : SClass)        -- `if not isinstance(x, C): raise TypeError(…)`
  | requireClassOfArgvals            -- `if not isinstance(x, type(self._argvals)): raise TypeError(…)`
  | compatWith (receiver : Field)    -- `[if hasattr(self, "…"):] self._<receiver>.compatible_with(x)`
  | requirePointsOfArgvals           -- `if x.n_points != self._argvals.n_points: raise ValueError(…)`
  | assign (f : Field)               -- `self._<f> = x`
  | normalizeStand                   -- `self._argvals_stand = self._argvals.normalization()`
  deriving DecidableEq, Repr

/-- The body of `compatible_with`. -/
inductive CompatBody
  | raiseValueErrorIfPointsDiffer     -- `if self.n_points != other.n_points: raise ValueError(…)`
  deriving DecidableEq, Repr

/-- What is offered to a setter. -/
inductive Offered
  | arg (a : ArgV)
  | val (v : ValV)
  deriving DecidableEq, Repr

def Offered.isClass : Offered → SClass → Bool
  | .arg (.dense ..), .denseArgvals => true
  | .arg (.irreg _), .irregularArgvals => true
  | .arg (.dense ..), .argvals => true
  | .arg (.irreg _), .argvals => true
  | .val (.dense ..), .denseValues => true
  | .val (.irreg _), .irregularValues => true
  | _, _ => false

/-- One statement; `.error .other`: the statement makes no sense on this object / value (never reached by the coded
setters, whose class tests come first). -/
def execStmt (x : Grid) (o : Offered) : Stmt → Except Err Grid
  | .requireClass c => if o.isClass c then .ok x else .error .typeError
  | .requireClassOfArgvals =>
    match o with
    | .arg a => match a.standShape with
      | some st => if st.sameKind x.trackedStand then .ok x else .error .typeError
      | none => .error .typeError
    | .val _ => .error .typeError
  | .compatWith .values =>
    -- `self._values.compatible_with(new_argvals)`
    match x, o with
    | .dense _ _ _ vpts _, .arg (.dense pts _) => if vpts = pts then .ok x else .error .valueError
    | .irreg _ v _, .arg (.irreg ao) => if irregCompat (ofList ao) v then .ok x else .error .valueError
    | _, _ => .error .other
  | .compatWith .argvals =>
    -- `self._argvals.compatible_with(new_values)`
    match x, o with
    | .dense pts _ _ _ _, .val (.dense _ vpts) => if pts = vpts then .ok x else .error .valueError
    | .irreg a _ _, .val (.irreg vo) => if irregCompat a (ofList vo) then .ok x else .error .valueError
    | _, _ => .error .other
  | .compatWith .stand => .error .other
  | .requirePointsOfArgvals =>
    match o with
    | .arg a => match a.standShape with
      | some st => if st.same x.trackedStand then .ok x else .error .valueError
      | none => .error .other
    | .val _ => .error .other
  | .assign .argvals =>
    match x, o with
    | .dense _ _ rows vpts st, .arg (.dense pts g) => .ok (.dense pts g rows vpts st)
    | .irreg _ v st, .arg (.irreg ao) => .ok (.irreg (ofList ao) v st)
    | _, _ => .error .other
  | .assign .values =>
    match x, o with
    | .dense pts g _ _ st, .val (.dense rows vpts) => .ok (.dense pts g rows vpts st)
    | .irreg a _ st, .val (.irreg vo) => .ok (.irreg a (ofList vo) st)
    | _, _ => .error .other
  | .assign .stand =>
    match o with
    | .arg a => match a.standShape with
      | some st => .ok (x.withStand st)
      | none => .error .other
    | .val _ => .error .other
  | .normalizeStand => .ok (x.withStand x.trackedStand)

/-- A setter body: the statements in order; the first exception ends it and the object is whatever the statements
*before* it made of it (Python does not roll back) — returned in the error case as `(error, object so far)`. -/
def exec (x : Grid) (o : Offered) : List Stmt → Except (Err × Grid) Grid
  | [] => .ok x
  | s :: rest =>
    match execStmt x o s with
    | .ok x' => exec x' o rest
    | .error e => .error (e, x)

/-- Outcome of a setter as the history model sees it: the new object, or the error — provided the object was not
touched before the error (`none`: an assignment preceded the failing check). -/
def outcome (x : Grid) (o : Offered) (prog : List Stmt) : Option (Except Err Grid) :=
  match exec x o prog with
  | .ok y => some (.ok y)
  | .error (e, y) => if y = x then some (.error e) else none

end FDA.PySetter
