/-
The handful of NumPy 1-D array operations that `FDApy/misc/utils.py` `_integration_weights` is written with, as
executable definitions.  The translator (`harness/c08.py` `translate()`) maps the *syntax* of the source onto these
combinators one to one (it does no arithmetic and no simplification of its own); what each NumPy operation means is
stated here, once, and is part of the trusted base.

A `Vec` is a length, the entries (read on `range len`) and a flag that stays `true` as long as every operation that
produced the array had compatible shapes (NumPy would raise otherwise).
-/
import FDAModel.Core.Quadrature

namespace FDA.Np

structure Vec where
  len : ℕ
  get : ℕ → ℚ
  ok : Bool

/-- `np.array([v])`. -/
def single (v : ℚ) : Vec := ⟨1, fun _ => v, true⟩

/-- `x[a:b]` for an array `x` of `n` entries and `0 ≤ a`, `0 ≤ b` (`b` is clipped to `n`; an empty slice has length 0). -/
def slice (n : ℕ) (x : ℕ → ℚ) (a b : ℕ) : Vec := ⟨min b n - a, fun k => x (a + k), true⟩

/-- `u - v` for arrays of the same length (NumPy raises, or broadcasts, otherwise: not `ok`). -/
def sub (u v : Vec) : Vec := ⟨u.len, fun k => u.get k - v.get k, u.ok && v.ok && u.len == v.len⟩

/-- `c * u`. -/
def smul (c : ℚ) (u : Vec) : Vec := ⟨u.len, fun k => c * u.get k, u.ok⟩

/-- `u / c`. -/
def divc (u : Vec) (c : ℚ) : Vec := ⟨u.len, fun k => u.get k / c, u.ok⟩

def append (u v : Vec) : Vec :=
  ⟨u.len + v.len, fun k => if k < u.len then u.get k else v.get (k - u.len), u.ok && v.ok⟩

/-- `np.concatenate((u₁, u₂, …), axis=None)`. -/
def concat : List Vec → Vec
  | [] => ⟨0, fun _ => 0, true⟩
  | u :: us => append u (concat us)

/-- `[f idx h for idx, h in enumerate(u)]`. -/
def enumMap (f : ℕ → ℚ → ℚ) (u : Vec) : Vec := ⟨u.len, fun k => f k (u.get k), u.ok⟩

end FDA.Np
