/-
Quadrature and L² geometry of FDApy, as executable exact-rational definitions.

Numeric layer convention (used by all numeric model files): a vector of length
`n` is a function `ℕ → ℚ` read on `range n`, a matrix is `ℕ → ℕ → ℚ`; sums are
`Finset.sum` over `Finset.range`.  These are computable, so the driver runs
literally the definitions the theorems are about.

Mirrors: `FDApy/misc/utils.py` `_integration_weights` ("trapz"), `np.trapz` as
used by `_integrate`, `_inner_product`; `DenseFunctionalData.norm`,
`.inner_product(noise_variance=σ²)`.
-/
import Mathlib.Algebra.BigOperators.Group.Finset.Basic
import Mathlib.Algebra.Order.Field.Rat

namespace FDA
open Finset

/-- `_integration_weights(t, "trapz")` on a grid of `n ≥ 2` points:
`½·concat([t₁-t₀], t[2:]-t[:-2], [t_{n-1}-t_{n-2}])`.  (`j - 1` is truncated
subtraction, so `j = 0` reads `t 0`.) -/
def trapzW (n : ℕ) (t : ℕ → ℚ) (j : ℕ) : ℚ :=
  (t (min (j + 1) (n - 1)) - t (j - 1)) / 2

/-- `np.trapz(y, x=t)` on `n` points: `Σ_{j<n-1} (t_{j+1}-t_j)(y_{j+1}+y_j)/2`. -/
def trapz (n : ℕ) (t y : ℕ → ℚ) : ℚ :=
  ∑ j ∈ range (n - 1), (t (j + 1) - t j) * (y (j + 1) + y j) / 2

/-- `_integrate(Y, t₁, t₂, method="trapz")` for a 2-D integrand `Y a b`
(axis 0 first with `t₁`, then the remaining axis with `t₂`). -/
def integrate2 (n₁ n₂ : ℕ) (t₁ t₂ : ℕ → ℚ) (Y : ℕ → ℕ → ℚ) : ℚ :=
  trapz n₂ t₂ (fun b => trapz n₁ t₁ (fun a => Y a b))

/-- 3-D version of `_integrate` (axis 0, then 1, then 2). -/
def integrate3 (n₁ n₂ n₃ : ℕ) (t₁ t₂ t₃ : ℕ → ℚ) (Y : ℕ → ℕ → ℕ → ℚ) : ℚ :=
  trapz n₃ t₃ (fun c => trapz n₂ t₂ (fun b => trapz n₁ t₁ (fun a => Y a b c)))

/-- `_inner_product(x, y, t, method="trapz")`, 1-D. -/
def inner (n : ℕ) (t x y : ℕ → ℚ) : ℚ := trapz n t (fun j => x j * y j)

/-- Weighted form `Σ_j w_j x_j y_j` (what `inner` is proved equal to). -/
def innerW (n : ℕ) (w x y : ℕ → ℚ) : ℚ := ∑ j ∈ range n, w j * (x j * y j)

/-- `DenseFunctionalData.norm(squared=True)` of one curve. -/
def normSq (n : ℕ) (t x : ℕ → ℚ) : ℚ := inner n t x x

/-- 2-D inner product and squared norm (product quadrature as coded). -/
def inner2 (n₁ n₂ : ℕ) (t₁ t₂ : ℕ → ℚ) (X Y : ℕ → ℕ → ℚ) : ℚ :=
  integrate2 n₁ n₂ t₁ t₂ (fun a b => X a b * Y a b)

/-- Pointwise mean of `N` curves (`DenseFunctionalData.mean` without smoothing). -/
def colMean (N : ℕ) (X : ℕ → ℕ → ℚ) (j : ℕ) : ℚ := (∑ i ∈ range N, X i j) / N

/-- `DenseFunctionalData.center` without smoothing. -/
def center (N : ℕ) (X : ℕ → ℕ → ℚ) (i j : ℕ) : ℚ := X i j - colMean N X j

/-- Closed form of the noise-uncorrected Gram matrix of centred curves. -/
def gram (N n : ℕ) (t : ℕ → ℚ) (X : ℕ → ℕ → ℚ) (i k : ℕ) : ℚ :=
  inner n t (center N X i) (center N X k)

/-- The *procedure* of `DenseFunctionalData.inner_product`: fill the upper
triangle, subtract `σ²` on the diagonal, add the transpose, halve the diagonal. -/
def gramImpl (N n : ℕ) (t : ℕ → ℚ) (X : ℕ → ℕ → ℚ) (σ2 : ℚ) (i k : ℕ) : ℚ :=
  let U : ℕ → ℕ → ℚ := fun a b =>
    (if a ≤ b then inner n t (center N X a) (center N X b) else 0) - (if a = b then σ2 else 0)
  if i = k then (U i k + U k i) / 2 else U i k + U k i

/-! Array-backed vectors for the drivers.  NB: Lean's compiler eta-expands
definitions, so a `let a := …; fun i => …` inside a `def` would rebuild the array on
every access; drivers therefore bind the arrays themselves (`let a := tabA n f`)
and read them with `rd a`. -/

def rd (a : Array ℚ) (i : ℕ) : ℚ := a.getD i 0

def rd2 (a : Array (Array ℚ)) (i j : ℕ) : ℚ := (a.getD i #[]).getD j 0

/-- Tabulate `f` on `range n` (entries evaluated once). -/
def tabA (n : ℕ) (f : ℕ → ℚ) : Array ℚ := Array.ofFn (n := n) (fun i => f i.val)

def tabA2 (n m : ℕ) (f : ℕ → ℕ → ℚ) : Array (Array ℚ) :=
  Array.ofFn (n := n) (fun i => Array.ofFn (n := m) (fun j => f i.val j.val))

def ofList (l : List ℚ) : ℕ → ℚ := rd l.toArray

def ofMat (l : List (List ℚ)) : ℕ → ℕ → ℚ := rd2 (l.map List.toArray).toArray

theorem rd_tabA {n : ℕ} (f : ℕ → ℚ) {i : ℕ} (h : i < n) : rd (tabA n f) i = f i := by
  simp [rd, tabA, Array.getD, h]

theorem rd2_tabA2 {n m : ℕ} (f : ℕ → ℕ → ℚ) {i j : ℕ} (hi : i < n) (hj : j < m) :
    rd2 (tabA2 n m f) i j = f i j := by
  simp [rd2, tabA2, Array.getD, hi, hj]

def toList (n : ℕ) (f : ℕ → ℚ) : List ℚ := (List.range n).map f

def toMat (n m : ℕ) (f : ℕ → ℕ → ℚ) : List (List ℚ) :=
  (List.range n).map fun i => (List.range m).map fun j => f i j

end FDA
