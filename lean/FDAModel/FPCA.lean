/-
Univariate FPCA of FDApy (C02, C03) as executable definitions.

The linear-algebra layer is polymorphic in the field `F`: the drivers run it at
`F = ℚ` (exact arithmetic), the theorems hold over every field / ordered field —
in particular over `ℝ`, where the square roots `s_j = √w_j`, `r_k = √l_k` that the
code takes exist.  Vectors are `ℕ → F` read on `range n`, matrices `ℕ → ℕ → F`.

Mirrors (`FDApy/preprocessing/dim_reduction/ufpca.py`, `FDApy/misc/utils.py`,
`FDApy/representation/functional_data.py`):
* `DenseFunctionalData.covariance(center=False)`            ↦ `covMat`
* `_fit_covariance`: `W^{1/2} C W^{1/2}`, `W^{-1/2} U`       ↦ `symMat`, `backTransform`
* `_compute_covariance` (Mercer sum)                        ↦ `mercer`
* `_fit_inner_product`: `Xcᵀ v / √l`, `l / n`                ↦ `gramEigfun`, `gramEigval`
* `DenseFunctionalData.rescale`: weight, `data / √weight`   ↦ `rescaleWeight`, `rescaleBy`
* `UFPCA.transform` (centre / rescale as coded)              ↦ `transformImpl` (+ `transformSpec`)
* `_transform_numerical_integration_dense`                  ↦ `scoresTrapz` (procedure), `scoresW` (weights form)
* `_transform_innpro`                                        ↦ `scoresInnPro`
* `_transform_pace_dense`                                    ↦ `paceSigma`, `scoresPace`
* `UFPCA.inverse_transform`                                  ↦ `inverseTransform`
-/
import FDAModel.Core.Quadrature
import FDAModel.Core.SqrtQ
import Mathlib.Algebra.Field.Defs

namespace FDA.FPCA
open Finset

section generic
variable {F : Type} [Field F]

/-- Weighted inner product `Σ_j w_j x_j y_j` over `m` grid points. -/
def innerWF (m : ℕ) (w x y : ℕ → F) : F := ∑ j ∈ range m, w j * (x j * y j)

/-- `np.dot(values.T, values) / (n_obs - 1)` of the (already centred) data. -/
def covMat (N : ℕ) (Xc : ℕ → ℕ → F) (i j : ℕ) : F :=
  (∑ a ∈ range N, Xc a i * Xc a j) / ((N : F) - 1)

/-- `weight_sqrt @ covariance @ weight_sqrt`, `s = √w` on the diagonal. -/
def symMat (s : ℕ → F) (C : ℕ → ℕ → F) (i j : ℕ) : F := s i * C i j * s j

/-- `(weight_invsqrt @ eigenvectors).T`: row `k` is `u_k / s`. (`U k` is solver vector `k`.) -/
def backTransform (s : ℕ → F) (U : ℕ → ℕ → F) (k j : ℕ) : F := U k j / s j

/-- `_compute_covariance`: `Φᵀ diag(λ) Φ`. -/
def mercer (K : ℕ) (lam : ℕ → F) (Phi : ℕ → ℕ → F) (i j : ℕ) : F :=
  ∑ k ∈ range K, Phi k i * lam k * Phi k j

/-- Gram matrix of `N` curves for the weights `w`. -/
def gramW (m : ℕ) (w : ℕ → F) (Xc : ℕ → ℕ → F) (i k : ℕ) : F := innerWF m w (Xc i) (Xc k)

/-- `G − σ² I`: the matrix `_fit_inner_product` hands to the solver. -/
def gramShift (G : ℕ → ℕ → F) (σ2 : F) (i k : ℕ) : F := G i k - (if i = k then σ2 else 0)

/-- `data._data_inpro.values.T @ eigenvectors / np.sqrt(eigenvalues)`, transposed:
row `k` is `Σ_i v_k(i) Xc_i / r_k`, `r_k = √l_k`. -/
def gramEigfun (N : ℕ) (Xc V : ℕ → ℕ → F) (r : ℕ → F) (k j : ℕ) : F :=
  (∑ i ∈ range N, Xc i j * V k i) / r k

/-- `eigenvalues / n_obs`. -/
def gramEigval (N : ℕ) (l : ℕ → F) (k : ℕ) : F := l k / (N : F)

/-- `self / np.sqrt(weights)` (`DenseFunctionalData.rescale`), `r = √weight`. -/
def rescaleBy (r : F) (X : ℕ → ℕ → F) (i j : ℕ) : F := X i j / r

/-- `data.center(mean=self._mean)`. -/
def centerBy (mean : ℕ → F) (X : ℕ → ℕ → F) (i j : ℕ) : F := X i j - mean j

/-- What `UFPCA.transform(data)` projects, **as coded**: the centred data, but with
`normalize=True` the *uncentred* data divided by `√weight`
(`data_new, _ = data.rescale(weights=self.weights)`). -/
def transformImpl (normalize : Bool) (mean : ℕ → F) (r : F) (X : ℕ → ℕ → F) : ℕ → ℕ → F :=
  if normalize then rescaleBy r X else centerBy mean X

/-- What the property asks for: centre, *then* rescale by the learnt weight
(this is what `fit` stores as training data). -/
def transformSpec (normalize : Bool) (mean : ℕ → F) (r : F) (X : ℕ → ℕ → F) : ℕ → ℕ → F :=
  if normalize then rescaleBy r (centerBy mean X) else centerBy mean X

/-- Scores by numerical integration, weights form: `s_ik = ⟨z_i, φ_k⟩_w`. -/
def scoresW (m : ℕ) (w : ℕ → F) (Z Phi : ℕ → ℕ → F) (i k : ℕ) : F := innerWF m w (Z i) (Phi k)

/-- `_transform_innpro`: `√(n λ_k) · v_k(i)`, `q_k = √(n λ_k)`. -/
def scoresInnPro (q : ℕ → F) (V : ℕ → ℕ → F) (i k : ℕ) : F := q k * V k i

/-- `UFPCA.inverse_transform`: `√weight · (scores Φ) + mean` (`r = √weight`; `1` without normalisation). -/
def inverseTransform (K : ℕ) (mean : ℕ → F) (r : F) (S Phi : ℕ → ℕ → F) (i j : ℕ) : F :=
  r * (∑ k ∈ range K, S i k * Phi k j) + mean j

/-- `covariance.values[0] + noise_variance * eye` of `_transform_pace_dense`. -/
def paceSigma (C : ℕ → ℕ → F) (σ2 : F) (i j : ℕ) : F := C i j + (if i = j then σ2 else 0)

/-- `eigenvalues * (data @ sigma_inv @ eigenfunctions.T)`, `Y = data @ sigma_inv`
(`Y` is characterised by `Y Σ = data`; note the plain dot product, no quadrature weights). -/
def scoresPace (m : ℕ) (lam : ℕ → F) (Y Phi : ℕ → ℕ → F) (i k : ℕ) : F :=
  lam k * ∑ j ∈ range m, Y i j * Phi k j

/-- `mfpca._transform_numerical_integration_multivariate`: the multivariate score is the sum over the `P`
components of the univariate numerical-integration scores (`np.array(scores).sum(axis=0)`); component `p`
has `m p` grid points, weights `w p`, projected data `Z p`, eigenfunction blocks `Psi p`. -/
def scoresMulti (P : ℕ) (m : ℕ → ℕ) (w : ℕ → ℕ → F) (Z Psi : ℕ → ℕ → ℕ → F) (i k : ℕ) : F :=
  ∑ p ∈ range P, scoresW (m p) (w p) (Z p) (Psi p) i k

/-- Product-space inner product of two multivariate functions `Σ_p ⟨x_p, y_p⟩_{w_p}`. -/
def innerMultiW (P : ℕ) (m : ℕ → ℕ) (w : ℕ → ℕ → F) (x y : ℕ → ℕ → F) : F :=
  ∑ p ∈ range P, innerWF (m p) (w p) (x p) (y p)

end generic

/-! ### ℚ-specific procedures (what the code literally loops over) -/

/-- `_transform_numerical_integration_dense`, 1-D: `_integrate(obs * φ_k, t, "trapz")`. -/
def scoresTrapz (m : ℕ) (t : ℕ → ℚ) (Z Phi : ℕ → ℕ → ℚ) (i k : ℕ) : ℚ :=
  trapz m t (fun j => Z i j * Phi k j)

/-- The same for 2-D data stored row-major (`j = a·m₂ + b`). -/
def scoresTrapz2 (m₁ m₂ : ℕ) (t₁ t₂ : ℕ → ℚ) (Z Phi : ℕ → ℕ → ℚ) (i k : ℕ) : ℚ :=
  integrate2 m₁ m₂ t₁ t₂ (fun a b => Z i (a * m₂ + b) * Phi k (a * m₂ + b))

/-- Product quadrature weights of a 2-D grid in row-major order. -/
def trapzW2 (m₁ m₂ : ℕ) (t₁ t₂ : ℕ → ℚ) (j : ℕ) : ℚ :=
  trapzW m₁ t₁ (j / m₂) * trapzW m₂ t₂ (j % m₂)

/-- `DenseArgvals.normalization` of one axis: `(t − t₀)/(t_last − t₀)`. -/
def standGrid (m : ℕ) (t : ℕ → ℚ) (j : ℕ) : ℚ := (t j - t 0) / (t (m - 1) - t 0)

/-- `np.var(values, axis=0)` (population variance, `ddof = 0`). -/
def varPop (N : ℕ) (X : ℕ → ℕ → ℚ) (j : ℕ) : ℚ :=
  (∑ i ∈ range N, (X i j - colMean N X j) ^ 2) / N

/-- The weight learnt by `rescale(use_argvals_stand=True)`, 1-D: the integral of the
variance function over the standardised grid. -/
def rescaleWeight (N m : ℕ) (t : ℕ → ℚ) (X : ℕ → ℕ → ℚ) : ℚ :=
  trapz m (standGrid m t) (varPop N X)

/-- 2-D version (row-major data, both axes standardised). -/
def rescaleWeight2 (N m₁ m₂ : ℕ) (t₁ t₂ : ℕ → ℚ) (X : ℕ → ℕ → ℚ) : ℚ :=
  integrate2 m₁ m₂ (standGrid m₁ t₁) (standGrid m₂ t₂) (fun a b => varPop N X (a * m₂ + b))

end FDA.FPCA
