/-
Univariate FPCA of FDApy (C02, C03) as executable definitions.

The linear-algebra layer is polymorphic in the field `F`: the drivers run it at
`F = ℚ` (exact arithmetic), the theorems hold over every field / ordered field —
in particular over `ℝ`, where the square roots `s_j = √w_j`, `r_k = √l_k` that the
code takes exist.  Vectors are `ℕ → F` read on `range n`, matrices `ℕ → ℕ → F`.

Mirrors (`FDApy/preprocessing/dim_reduction/ufpca.py`, `FDApy/misc/utils.py`,
`FDApy/representation/functional_data.py`):
* `DenseFunctionalData.covariance(center=False)`            ↦ `covMat`
* `_fit_covariance`: `W^{1/2} C W^{1/2}`, `W^{-1/2} U`       ↦ `symMat`, `backTransform`
* `_compute_covariance` (Mercer sum)                        ↦ `mercer`
* `_fit_inner_product`: `Xcᵀ v / √l`, `l / n`                ↦ `gramEigfun`, `gramEigval`
* `DenseFunctionalData.rescale`: weight, `data / √weight`   ↦ `rescaleWeight`, `rescaleBy`
* `UFPCA.transform` (centre / rescale as coded)              ↦ `transformImpl` (+ `transformSpec`)
* `_transform_numerical_integration_dense`                  ↦ `scoresTrapz` (procedure), `scoresW` (weights form)
* `_transform_innpro`                                        ↦ `scoresInnPro`
* `_transform_pace_dense`                                    ↦ `paceSigma`, `scoresPace`
* `UFPCA.inverse_transform`                                  ↦ `inverseTransform`
-/
import FDAModel.Core.Quadrature
import FDAModel.Core.SqrtQ
import Mathlib.Algebra.Field.Defs

namespace FDA.FPCA
open Finset

section generic
variable {F : Type} [Field F]

/-- Weighted inner product `Σ_j w_j x_j y_j` over `m` grid points. -/
def innerWF (m : ℕ) (w x y : ℕ → F) : F := ∑ j ∈ range m, w j * (x j * y j)

/-- `np.dot(values.T, values) / (n_obs - 1)` of the (already centred) data. -/
def covMat (N : ℕ) (Xc : ℕ → ℕ → F) (i j : ℕ) : F :=
  (∑ a ∈ range N, Xc a i * Xc a j) / ((N : F) - 1)

/-- `weight_sqrt @ covariance @ weight_sqrt`, `s = √w` on the diagonal. -/
def symMat (s : ℕ → F) (C : ℕ → ℕ → F) (i j : ℕ) : F := s i * C i j * s j

/-- `(weight_invsqrt @ eigenvectors).T`: row `k` is `u_k / s`. (`U k` is solver vector `k`.) -/
def backTransform (s : ℕ → F) (U : ℕ → ℕ → F) (k j : ℕ) : F := U k j / s j

/-- `_compute_covariance`: `Φᵀ diag(λ) Φ`. -/
def mercer (K : ℕ) (lam : ℕ → F) (Phi : ℕ → ℕ → F) (i j : ℕ) : F :=
  ∑ k ∈ range K, Phi k i * lam k * Phi k j

/-- Gram matrix of `N` curves for the weights `w`. -/
def gramW (m : ℕ) (w : ℕ → F) (Xc : ℕ → ℕ → F) (i k : ℕ) : F := innerWF m w (Xc i) (Xc k)

/-- `G − σ² I`: the matrix `_fit_inner_product` hands to the solver. -/
def gramShift (G : ℕ → ℕ → F) (σ2 : F) (i k : ℕ) : F := G i k - (if i = k then σ2 else 0)

/-- `data._data_inpro.values.T @ eigenvectors / np.sqrt(eigenvalues)`, transposed:
row `k` is `Σ_i v_k(i) Xc_i / r_k`, `r_k = √l_k`. -/
def gramEigfun (N : ℕ) (Xc V : ℕ → ℕ → F) (r : ℕ → F) (k j : ℕ) : F :=
  (∑ i ∈ range N, Xc i j * V k i) / r k

/-- `eigenvalues / n_obs`. -/
def gramEigval (N : ℕ) (l : ℕ → F) (k : ℕ) : F := l k / (N : F)

/-- `self / np.sqrt(weights)` (`DenseFunctionalData.rescale`), `r = √weight`. -/
def rescaleBy (r : F) (X : ℕ → ℕ → F) (i j : ℕ) : F := X i j / r

/-- `data.center(mean=self._mean)`. -/
def centerBy (mean : ℕ → F) (X : ℕ → ℕ → F) (i j : ℕ) : F := X i j - mean j

/-- What `UFPCA.transform(data)` projects, **as coded**: the centred data, but with
`normalize=True` the *uncentred* data divided by `√weight`
(`data_new, _ = data.rescale(weights=self.weights)`). -/
def transformImpl (normalize : Bool) (mean : ℕ → F) (r : F) (X : ℕ → ℕ → F) : ℕ → ℕ → F :=
  if normalize then rescaleBy r X else centerBy mean X

/-- What the property asks for: centre, *then* rescale by the learnt weight
(this is what `fit` stores as training data). -/
def transformSpec (normalize : Bool) (mean : ℕ → F) (r : F) (X : ℕ → ℕ → F) : ℕ → ℕ → F :=
  if normalize then rescaleBy r (centerBy mean X) else centerBy mean X

/-- Scores by numerical integration, weights form: `s_ik = ⟨z_i, φ_k⟩_w`. -/
def scoresW (m : ℕ) (w : ℕ → F) (Z Phi : ℕ → ℕ → F) (i k : ℕ) : F := innerWF m w (Z i) (Phi k)

/-- `_transform_innpro`: `√(n λ_k) · v_k(i)`, `q_k = √(n λ_k)`. -/
def scoresInnPro (q : ℕ → F) (V : ℕ → ℕ → F) (i k : ℕ) : F := q k * V k i

/-- `UFPCA.inverse_transform`: `√weight · (scores Φ) + mean` (`r = √weight`; `1` without normalisation). -/
def inverseTransform (K : ℕ) (mean : ℕ → F) (r : F) (S Phi : ℕ → ℕ → F) (i j : ℕ) : F :=
  r * (∑ k ∈ range K, S i k * Phi k j) + mean j

/-- `covariance.values[0] + noise_variance * eye` of `_transform_pace_dense`. -/
def paceSigma (C : ℕ → ℕ → F) (σ2 : F) (i j : ℕ) : F := C i j + (if i = j then σ2 else 0)

/-- `eigenvalues * (data @ sigma_inv @ eigenfunctions.T)`, `Y = data @ sigma_inv`
(`Y` is characterised by `Y Σ = data`; note the plain dot product, no quadrature weights). -/
def scoresPace (m : ℕ) (lam : ℕ → F) (Y Phi : ℕ → ℕ → F) (i k : ℕ) : F :=
  lam k * ∑ j ∈ range m, Y i j * Phi k j

/-- `mfpca._transform_numerical_integration_multivariate`: the multivariate score is the sum over the `P`
components of the univariate numerical-integration scores (`np.array(scores).sum(axis=0)`); component `p`
has `m p` grid points, weights `w p`, projected data `Z p`, eigenfunction blocks `Psi p`. -/
def scoresMulti (P : ℕ) (m : ℕ → ℕ) (w : ℕ → ℕ → F) (Z Psi : ℕ → ℕ → ℕ → F) (i k : ℕ) : F :=
  ∑ p ∈ range P, scoresW (m p) (w p) (Z p) (Psi p) i k

/-- Product-space inner product of two multivariate functions `Σ_p ⟨x_p, y_p⟩_{w_p}`. -/
def innerMultiW (P : ℕ) (m : ℕ → ℕ) (w : ℕ → ℕ → F) (x y : ℕ → ℕ → F) : F :=
  ∑ p ∈ range P, innerWF (m p) (w p) (x p) (y p)

end generic

/-! ### ℚ-specific procedures (what the code literally loops over) -/

/-- `_transform_numerical_integration_dense`, 1-D: `_integrate(obs * φ_k, t, "trapz")`. -/
def scoresTrapz (m : ℕ) (t : ℕ → ℚ) (Z Phi : ℕ → ℕ → ℚ) (i k : ℕ) : ℚ :=
  trapz m t (fun j => Z i j * Phi k j)

/-- The same for 2-D data stored row-major (`j = a·m₂ + b`). -/
def scoresTrapz2 (m₁ m₂ : ℕ) (t₁ t₂ : ℕ → ℚ) (Z Phi : ℕ → ℕ → ℚ) (i k : ℕ) : ℚ :=
  integrate2 m₁ m₂ t₁ t₂ (fun a b => Z i (a * m₂ + b) * Phi k (a * m₂ + b))

/-- Product quadrature weights of a 2-D grid in row-major order. -/
def trapzW2 (m₁ m₂ : ℕ) (t₁ t₂ : ℕ → ℚ) (j : ℕ) : ℚ :=
  trapzW m₁ t₁ (j / m₂) * trapzW m₂ t₂ (j % m₂)

/-- `DenseArgvals.normalization` of one axis: `(t − t₀)/(t_last − t₀)`. -/
def standGrid (m : ℕ) (t : ℕ → ℚ) (j : ℕ) : ℚ := (t j - t 0) / (t (m - 1) - t 0)

/-- `np.var(values, axis=0)` (population variance, `ddof = 0`). -/
def varPop (N : ℕ) (X : ℕ → ℕ → ℚ) (j : ℕ) : ℚ :=
  (∑ i ∈ range N, (X i j - colMean N X j) ^ 2) / N

/-- The weight learnt by `rescale(use_argvals_stand=True)`, 1-D: the integral of the
variance function over the standardised grid. -/
def rescaleWeight (N m : ℕ) (t : ℕ → ℚ) (X : ℕ → ℕ → ℚ) : ℚ :=
  trapz m (standGrid m t) (varPop N X)

/-- 2-D version (row-major data, both axes standardised). -/
def rescaleWeight2 (N m₁ m₂ : ℕ) (t₁ t₂ : ℕ → ℚ) (X : ℕ → ℕ → ℚ) : ℚ :=
  integrate2 m₁ m₂ (standGrid m₁ t₁) (standGrid m₂ t₂) (fun a b => varPop N X (a * m₂ + b))

/-! ### The formulas as written in the source (translator `harness/c02_translate.py`)

`Generated/UfpcaFormulas.lean` records, for `ufpca._fit_covariance`, `_fit_inner_product`,
`utils._compute_covariance`, `UFPCA.transform`, `DenseFunctionalData.rescale`,
`_transform_numerical_integration_dense`, `_transform_innpro` and `UFPCA.inverse_transform`, the operators,
powers, operand orders, transposes and subscripts found in the source text.  The `…P` functions below are the
model's formulas with those choices left open; `C02.*_src_eq_model` / `C03.*_src_eq_model` prove that with the
choices of today's source they are the functions all theorems are about. -/

/-- Which diagonal matrix stands at a place of a product: `diag(w^{1/2})`, `diag(w^{-1/2})`, or none. -/
inductive DiagKind | sqrtW | invSqrtW | one
  deriving DecidableEq, Repr

/-- How the eigenfunctions are recovered from the solver vectors `U` (columns) and a diagonal matrix `D`. -/
inductive BackForm
  | diagMatT   -- `(D @ U).T`
  | matTDiag   -- `U.T @ D`
  | diagMat    -- `D @ U`   (not transposed)
  | matDiag    -- `U @ D`
  deriving DecidableEq, Repr

structure FitConsts where
  /-- `weight_sqrt = np.diag(weight ^ sqrtPow)` -/
  sqrtPow : ℚ
  /-- `weight_invsqrt = np.diag(weight ^ invPow)` -/
  invPow : ℚ
  /-- `covariance_matrix = L @ C @ R` -/
  symLeft : DiagKind
  symRight : DiagKind
  backDiag : DiagKind
  backForm : BackForm
  /-- `_integration_weights(argvals, method="trapz")` -/
  quadTrapz : Bool
  /-- Gram route: `values.T @ eigenvectors` -/
  gramValuesT : Bool
  /-- … of the re-centred curves `data._data_inpro` -/
  gramInpro : Bool
  /-- … divided by `eigenvalues ^ gramDivPow` -/
  gramDivPow : ℚ
  /-- … and transposed when stored -/
  gramResultT : Bool
  /-- `eigenvalues / (n_obs - gramEigShift)` -/
  gramEigShift : ℕ
  /-- `_compute_covariance`: `transpose(Φ) · diag(λ ^ mercerDiagPow) · Φ` -/
  mercerLeftT : Bool
  mercerDiagPow : ℚ
  mercerRightPlain : Bool
  deriving DecidableEq, Repr

structure TransformConsts where
  /-- `data.center(mean=self._mean, …)` -/
  centerWithMean : Bool
  /-- the rescaled object is the centred `data_new` (`true`) or the uncentred `data` (`false`, as coded) -/
  rescaleCentred : Bool
  /-- `rescale(weights=self.weights)` -/
  rescaleWeights : Bool
  /-- `DenseFunctionalData.rescale`: `self / weights ^ rescaleDivPow` -/
  rescaleDivPow : ℚ
  /-- `obs * eigenfunctions.values` is what is integrated -/
  numintProduct : Bool
  numintAxesReversed : Bool
  /-- `_integrate(…, method=method)` -/
  numintMethodForwarded : Bool
  /-- `_transform_innpro`: `(f · eigenvalues) ^ innproPow * eigenvectors`, `f = n_obs - innproShift` or absent -/
  innproPow : ℚ
  innproTimesN : Bool
  innproShift : ℕ
  /-- subscripts of the `einsum` of `inverse_transform`, blanks removed -/
  einsum : String
  /-- `(self.weights ^ invPow if self.normalize else invElse) * values + self.mean.values` -/
  invPow : ℚ
  invGuardNormalize : Bool
  invElse : ℚ
  invAddMean : Bool
  deriving DecidableEq, Repr

section param
variable {F : Type} [Field F]

def diagP (k : DiagKind) (s sinv : ℕ → F) (j : ℕ) : F :=
  match k with
  | .sqrtW => s j
  | .invSqrtW => sinv j
  | .one => 1

/-- `L @ C @ R` entrywise. -/
def symMatP (c : FitConsts) (s sinv : ℕ → F) (C : ℕ → ℕ → F) (i j : ℕ) : F :=
  diagP c.symLeft s sinv i * C i j * diagP c.symRight s sinv j

/-- Entry `(k, j)` of the array of eigenfunctions as the source forms it (`U k` = solver vector `k`). -/
def backTransformP (c : FitConsts) (s sinv : ℕ → F) (U : ℕ → ℕ → F) (k j : ℕ) : F :=
  match c.backForm with
  | .diagMatT => diagP c.backDiag s sinv j * U k j
  | .matTDiag => U k j * diagP c.backDiag s sinv j
  | .diagMat => diagP c.backDiag s sinv k * U j k
  | .matDiag => U j k * diagP c.backDiag s sinv k

def gramEigfunP (c : FitConsts) (N : ℕ) (Xc V : ℕ → ℕ → F) (r l : ℕ → F) (k j : ℕ) : F :=
  (∑ i ∈ range N, (if c.gramValuesT then Xc i j else Xc j i) * V k i)
    / (if c.gramDivPow = 1 / 2 then r k else if c.gramDivPow = 1 then l k else 1)

def gramEigvalP (c : FitConsts) (N : ℕ) (l : ℕ → F) (k : ℕ) : F := l k / ((N : F) - (c.gramEigShift : F))

def mercerP (c : FitConsts) (K : ℕ) (lam r : ℕ → F) (Phi : ℕ → ℕ → F) (i j : ℕ) : F :=
  ∑ k ∈ range K, (if c.mercerLeftT then Phi k i else Phi i k)
    * (if c.mercerDiagPow = 1 then lam k else r k) * (if c.mercerRightPlain then Phi k j else Phi j k)

def transformP (c : TransformConsts) (normalize : Bool) (mean : ℕ → F) (r : F) (X : ℕ → ℕ → F) : ℕ → ℕ → F :=
  let centred := if c.centerWithMean then centerBy mean X else X
  if normalize then (if c.rescaleCentred then rescaleBy r centred else rescaleBy r X) else centred

/-- The radicand of `_transform_innpro`. -/
def innproRadicandP (c : TransformConsts) (N : ℕ) (lam : ℕ → F) (k : ℕ) : F :=
  (if c.innproTimesN then (N : F) - (c.innproShift : F) else 1) * lam k

def inverseTransformP (c : TransformConsts) (normalize : Bool) (K : ℕ) (mean : ℕ → F) (r w : F)
    (S Phi : ℕ → ℕ → F) (i j : ℕ) : F :=
  let pw : F := if c.invPow = 1 / 2 then r else w
  let scale : F := if c.invGuardNormalize then (if normalize then pw else (c.invElse : F)) else pw
  scale * (∑ k ∈ range K, S i k * Phi k j) + (if c.invAddMean then mean j else 0)

end param

/-- The choices the hand-written model makes (= those of the source this machinery was built against). -/
def codedFit : FitConsts :=
  { sqrtPow := 1 / 2, invPow := -1 / 2, symLeft := .sqrtW, symRight := .sqrtW, backDiag := .invSqrtW, backForm := .diagMatT,
    quadTrapz := true, gramValuesT := true, gramInpro := true, gramDivPow := 1 / 2, gramResultT := true, gramEigShift := 0,
    mercerLeftT := true, mercerDiagPow := 1, mercerRightPlain := true }

def codedTransform : TransformConsts :=
  { centerWithMean := true, rescaleCentred := false, rescaleWeights := true, rescaleDivPow := 1 / 2, numintProduct := true,
    numintAxesReversed := false, numintMethodForwarded := true, innproPow := 1 / 2, innproTimesN := true, innproShift := 0,
    einsum := "ij,j...->i...", invPow := 1 / 2, invGuardNormalize := true, invElse := 1, invAddMean := true }

end FDA.FPCA
