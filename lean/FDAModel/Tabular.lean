/-
C14/C15 — tabular conversions (import-free): long format of dense and irregular
data, CSV loading, the ragged encoding of irregular data.

Mirrors `DenseFunctionalData.to_long`, `IrregularFunctionalData.to_long`
(`FDApy/representation/functional_data.py`) and `read_csv`, `_read_csv_dense`,
`_read_csv_irregular` (`FDApy/misc/loader.py`).  Missing cells (`NaN`) are `none`.
-/
namespace FDA.Tab

/-- Row-major linearisation of a multi-index in an array of the given shape. -/
def lin : List Nat → List Nat → Nat
  | [], _ => 0
  | _ :: _, [] => 0
  | _ :: ss, i :: is => i * ss.prod + lin ss is

/-- `itertools.product(range m₁, range m₂, …)`: all multi-indices, last axis fastest. -/
def product : List Nat → List (List Nat)
  | [] => [[]]
  | m :: ms => (List.range m).flatMap fun a => (product ms).map (a :: ·)

/-- `DenseFunctionalData.to_long` as coded: `n_obs * sampling_points` (the list of
points repeated), `id = np.repeat(arange(n_obs), prod(n_points))`, `values.flatten()`.
Row `r` is `(id, multi-index of the point, position in the flattened values)`. -/
def toLongDense (n : Nat) (shape : List Nat) : List (Nat × List Nat × Nat) :=
  let pts := product shape
  let M := pts.length
  (List.range (n * M)).map fun r => (r / M, pts.getD (r % M) [], r)

/-- What the long table should be: every observation, every point of the grid,
with the flat position of `values[i, point]`. -/
def toLongDenseSpec (n : Nat) (shape : List Nat) : List (Nat × List Nat × Nat) :=
  (List.range n).flatMap fun i =>
    (product shape).map fun pt => (i, pt, i * shape.prod + lin shape pt)

/-- One observation of irregular data on its own product grid: shape and the
flattened values (`none` = NaN). -/
structure Obs where
  shape : List Nat
  vals : List (Option Rat)

/-- `IrregularFunctionalData.to_long`: per observation the frame of
`itertools.product(argvals)` with `id` and `values.flatten()`, concatenated, then
`dropna()`.  Row = `(id, multi-index, value)`. -/
def toLongIrr (obs : List (Nat × Obs)) : List (Nat × List Nat × Rat) :=
  obs.flatMap fun (lab, o) =>
    ((product o.shape).zip o.vals).filterMap fun (pt, v) => v.map fun y => (lab, pt, y)

/-- The tree with the label-agnostic iterator (candidate repair c13b): iteration
re-labels the observations by position before `to_long` reads the label. -/
def relabel (obs : List (Nat × Obs)) : List (Nat × Obs) :=
  obs.zipIdx.map fun p => (p.2, p.1.2)

def toLongIrrImpl (obs : List (Nat × Obs)) : List (Nat × List Nat × Rat) := toLongIrr (relabel obs)

/-- `np.diag` accepts a 1-D array (builds a matrix) or a 2-D array (extracts the diagonal)
and raises `ValueError("Input must be 1- or 2-d.")` otherwise; result shape. -/
def npDiagShape : List Nat → Option (List Nat)
  | [n] => some [n, n]
  | [n, m] => some [min n m]
  | _ => none

/-! ### The two encodings of a 1-D irregular curve -/

/-- Ragged encoding of one curve given on a common grid `g` with missing cells:
the (point, value) pairs of the observed cells, in grid order
(what `_read_csv_irregular` builds: `argvals[~isnan(row)]`, `row[~isnan(row)]`). -/
def ragged {α : Type} (g : List α) (row : List (Option Rat)) : List (α × Rat) :=
  (g.zip row).filterMap fun (x, v) => v.map fun y => (x, y)

/-! ### CSV loading -/

/-- A column label as `data.columns.astype(np.int64)` sees it: it converts to an
integer, or it does not (then the whole conversion raises `ValueError`). -/
inductive Header where
  | int (z : Int)
  | other
deriving Repr, DecidableEq

def Header.toInt? : Header → Option Int
  | .int z => some z
  | .other => none

/-- `read_csv`: integer labels are the abscissae, otherwise the column positions. -/
def abscissae (hs : List Header) : List Int :=
  match hs.mapM Header.toInt? with
  | some zs => zs
  | none => (List.range hs.length).map Int.ofNat

inductive Loaded where
  /-- `DenseFunctionalData(argvals, values)` -/
  | dense (args : List Int) (vals : List (List Rat))
  /-- `IrregularFunctionalData`: per row the kept `(abscissa, value)` pairs -/
  | irregular (rows : List (List (Int × Rat)))
deriving Repr, DecidableEq

def complete (cells : List (List (Option Rat))) : Bool :=
  cells.all fun row => row.all Option.isSome

/-- `read_csv` on the parsed table (`cells[i][j]`, `none` = missing cell). -/
def readCsv (hs : List Header) (cells : List (List (Option Rat))) : Loaded :=
  let a := abscissae hs
  if complete cells then .dense a (cells.map fun row => row.filterMap id)
  else .irregular (cells.map fun row => ragged a row)

/-! ### Writing a table (the inverse of `read_csv` on well-formed data) -/

/-- A dense dataset written as a CSV table: integer abscissae as column labels, every
value a cell. -/
def toCsvDense (args : List Int) (vals : List (List Rat)) : List Header × List (List (Option Rat)) :=
  (args.map Header.int, vals.map fun row => row.map some)

/-- One irregular observation (its `(abscissa, value)` pairs) laid on the columns `a`:
the cell of column `x` holds the value observed at `x`, or is empty. -/
def unragged (a : List Int) (row : List (Int × Rat)) : List (Option Rat) :=
  a.map fun x => row.lookup x

/-- An irregular dataset written as a CSV table over the columns `a`. -/
def toCsvIrr (a : List Int) (rows : List (List (Int × Rat))) : List Header × List (List (Option Rat)) :=
  (a.map Header.int, rows.map (unragged a))

end FDA.Tab
