/-
P-spline smoothing as FDApy does it (`FDApy/preprocessing/smoothing/psplines.py`):
the explicit penalised weighted least-squares problem (1-D: `_fit_one_dimensional`;
n-D: its Kronecker specification), `PSplines.fit` / `.predict` glue, and a
*certifying* exact linear solver for the driver.

Conventions: a basis matrix is `B : ℕ → ℕ → ℚ`, `B k i` = function `k` at observation `i`
(shape `nb × n`, as returned by `_basis_bsplines`); vectors are `ℕ → ℚ` on `range`.

Python being mirrored (1-D):

    pen_mat  = np.diff(np.eye(n_basis), n=order_penalty, axis=0)
    bwb_mat  = basis @ diag(w) @ basis.T
    pen_mat  = penalty * pen_mat.T @ pen_mat
    bwy_mat  = basis @ diag(w) @ data
    inv_mat  = pinv(bwb_mat + pen_mat)
    beta_hat = inv_mat @ bwy_mat ;  y_hat = basis.T @ beta_hat
    hat_matrix = diag(basis.T @ inv_mat @ basis @ diag(w))
-/
import FDAModel.Bases
import FDAModel.Core.Quadrature

namespace FDA.PSpline
open Finset FDA.BSpline

/-! ### The penalised normal equations -/

/-- `pen_mat.T @ pen_mat` for `pen_mat = np.diff(np.eye(nb), n=ord, axis=0)` (`nb - ord` rows). -/
def penMat (nb ord : ℕ) (k l : ℕ) : ℚ :=
  ∑ r ∈ range (nb - ord), diffMat ord r k * diffMat ord r l

/-- `basis @ diag(w) @ basis.T`. -/
def bwb (n : ℕ) (w : ℕ → ℚ) (B : ℕ → ℕ → ℚ) (k l : ℕ) : ℚ :=
  ∑ i ∈ range n, B k i * w i * B l i

/-- `basis @ diag(w) @ data`. -/
def bwy (n : ℕ) (w : ℕ → ℚ) (B : ℕ → ℕ → ℚ) (y : ℕ → ℚ) (k : ℕ) : ℚ :=
  ∑ i ∈ range n, B k i * w i * y i

/-- `bwb_mat + pen_mat` for an arbitrary penalty matrix `P` (1-D: `λ·DᵀD`; n-D: the sum of
the tensor-product penalties). -/
def normalMat (n : ℕ) (w : ℕ → ℚ) (B : ℕ → ℕ → ℚ) (P : ℕ → ℕ → ℚ) (k l : ℕ) : ℚ :=
  bwb n w B k l + P k l

/-- The 1-D penalty `penalty * pen_mat.T @ pen_mat`. -/
def pen1 (nb ord : ℕ) (lam : ℚ) (k l : ℕ) : ℚ := lam * penMat nb ord k l

/-- `β` solves the penalised normal equations `A β = b`. -/
def IsFit (nb : ℕ) (A : ℕ → ℕ → ℚ) (b β : ℕ → ℚ) : Prop :=
  ∀ k < nb, ∑ l ∈ range nb, A k l * β l = b k

/-- `X` is a right inverse of `A` on `range nb` (for a square matrix: the inverse). -/
def IsInverse (nb : ℕ) (A X : ℕ → ℕ → ℚ) : Prop :=
  ∀ k < nb, ∀ l < nb, ∑ m ∈ range nb, A k m * X m l = if k = l then 1 else 0

/-- `y_hat = basis.T @ beta_hat`; also `PSplines.predict` (1-D: `beta_hat @ basis`). -/
def fitted (nb : ℕ) (B : ℕ → ℕ → ℚ) (β : ℕ → ℚ) (i : ℕ) : ℚ :=
  ∑ k ∈ range nb, B k i * β k

/-- `inv_mat @ bwy_mat`. -/
def coefOf (nb : ℕ) (X : ℕ → ℕ → ℚ) (b : ℕ → ℚ) (k : ℕ) : ℚ :=
  ∑ l ∈ range nb, X k l * b l

/-- `diag(basis.T @ inv_mat @ basis @ diag(w))`: the leverages. -/
def hatDiag (nb : ℕ) (w : ℕ → ℚ) (B : ℕ → ℕ → ℚ) (X : ℕ → ℕ → ℚ) (i : ℕ) : ℚ :=
  (∑ k ∈ range nb, ∑ l ∈ range nb, B k i * X k l * B l i) * w i

/-- The quadratic form `vᵀ A v` on `range nb`. -/
def quadForm (nb : ℕ) (A : ℕ → ℕ → ℚ) (v : ℕ → ℚ) : ℚ :=
  ∑ k ∈ range nb, ∑ l ∈ range nb, v k * A k l * v l

/-! ### `PSplines.fit` / `.predict` in one dimension

The basis is `_basis_bsplines(x, n_segments + degree, degree, domain_min, domain_max)`;
`fit` stores the domain it used and `predict` re-uses it. -/

/-- The basis matrix built by `fit` / `predict` on the points `x`. -/
def basisOn (dmin dmax : ℚ) (nseg p : ℕ) (x : ℕ → ℚ) (k i : ℕ) : ℚ :=
  bsplineBasis dmin dmax (nseg + p) p (x i) k

/-- `PSplines.predict(x')` (1-D) with the domain stored by `fit`: `beta_hat @ basis(x')`. -/
def predict1 (dmin dmax : ℚ) (nseg p : ℕ) (β : ℕ → ℚ) (x' : ℕ → ℚ) (i : ℕ) : ℚ :=
  fitted (nseg + p) (basisOn dmin dmax nseg p x') β i

/-- Defaults of `PSplines(n_segments=10, degree=3, order_penalty=2, order_derivative=0)`. -/
def defaultNSeg : ℕ := 10
def defaultDegree : ℕ := 3
def defaultOrder : ℕ := 2

/-! ### n-D specification: Kronecker basis and tensor-product penalty (row-major) -/

/-- `B₁ ⊗ B₂` (`B₂` of shape `m₂ × n₂`): row `k₁·m₂+k₂`, column `i₁·n₂+i₂`. -/
def kronB (m₂ n₂ : ℕ) (B₁ B₂ : ℕ → ℕ → ℚ) : ℕ → ℕ → ℚ := Bases.kron m₂ n₂ B₁ B₂

/-- Kronecker coefficient vector `c₁ ⊗ c₂` (row-major, `c₂` of length `m₂`). -/
def kronVec (m₂ : ℕ) (c₁ c₂ : ℕ → ℚ) (K : ℕ) : ℚ := c₁ (K / m₂) * c₂ (K % m₂)

/-- `B₁ ⊗ B₂ ⊗ B₃` (`np.kron` folded from the left; `B₂`: `m₂ × n₂`, `B₃`: `m₃ × n₃`). -/
def kronB3 (m₂ n₂ m₃ n₃ : ℕ) (B₁ B₂ B₃ : ℕ → ℕ → ℚ) : ℕ → ℕ → ℚ :=
  kronB m₃ n₃ (kronB m₂ n₂ B₁ B₂) B₃

/-- `λ₁·P₁⊗I + λ₂·I⊗P₂` (two dimensions), entry-wise. -/
def penSpec2 (m₂ : ℕ) (l₁ l₂ : ℚ) (P₁ P₂ : ℕ → ℕ → ℚ) (K L : ℕ) : ℚ :=
  l₁ * (P₁ (K / m₂) (L / m₂) * (if K % m₂ = L % m₂ then 1 else 0))
    + l₂ * ((if K / m₂ = L / m₂ then 1 else 0) * P₂ (K % m₂) (L % m₂))

/-- `λ₁·P₁⊗I⊗I + λ₂·I⊗P₂⊗I + λ₃·I⊗I⊗P₃` (three dimensions), entry-wise. -/
def penSpec3 (m₂ m₃ : ℕ) (l₁ l₂ l₃ : ℚ) (P₁ P₂ P₃ : ℕ → ℕ → ℚ) (K L : ℕ) : ℚ :=
  let k₁ := K / (m₂ * m₃); let k₂ := K / m₃ % m₂; let k₃ := K % m₃
  let j₁ := L / (m₂ * m₃); let j₂ := L / m₃ % m₂; let j₃ := L % m₃
  let δ : ℕ → ℕ → ℚ := fun a b => if a = b then 1 else 0
  l₁ * (P₁ k₁ j₁ * δ k₂ j₂ * δ k₃ j₃) + l₂ * (δ k₁ j₁ * P₂ k₂ j₂ * δ k₃ j₃)
    + l₃ * (δ k₁ j₁ * δ k₂ j₂ * P₃ k₃ j₃)

/-! ### Certifying exact solver (driver side)

Gauss–Jordan elimination over `ℚ` on an augmented matrix; the result is only
returned after the defining relation has been re-checked exactly, so that the
soundness theorems (`certInverse_sound`, `certSolve_sound`) need not reason about
the elimination loop. -/

abbrev Mat := Array (Array ℚ)

def mget (m : Mat) (i j : ℕ) : ℚ := (m.getD i #[]).getD j 0

/-- Reduced row echelon form of an `n × (n + k)` augmented matrix; returns the matrix and
the pivot column of each pivot row. -/
def rref (n k : ℕ) (a : Mat) : Mat × Array ℕ := Id.run do
  let mut m := a
  let mut piv : Array ℕ := #[]
  let mut row := 0
  for c in [0:n] do
    if row < n then
      let mut p := n
      for r in [row:n] do
        if p == n && mget m r c != 0 then p := r
      if p != n then
        let rowp := m.getD p #[]
        let rowr := m.getD row #[]
        m := m.set! p rowr
        let pv := rowp.getD c 0
        let rown := rowp.map (· / pv)
        m := m.set! row rown
        for r in [0:n] do
          if r != row then
            let rr := m.getD r #[]
            let f := rr.getD c 0
            if f != 0 then
              m := m.set! r (Array.ofFn (n := n + k) fun j => rr.getD j.val 0 - f * rown.getD j.val 0)
        piv := piv.push c
        row := row + 1
  return (m, piv)

/-- Executable form of `IsInverse`. -/
def isInverseB (nb : ℕ) (A X : ℕ → ℕ → ℚ) : Bool :=
  (List.range nb).all fun k => (List.range nb).all fun l =>
    decide (∑ m ∈ range nb, A k m * X m l = if k = l then 1 else 0)

/-- Executable form of `IsFit`. -/
def isFitB (nb : ℕ) (A : ℕ → ℕ → ℚ) (b β : ℕ → ℚ) : Bool :=
  (List.range nb).all fun k => decide (∑ l ∈ range nb, A k l * β l = b k)

/-- Exact inverse of the `nb × nb` matrix `A` (given as an array of rows), re-checked. -/
def certInverse (nb : ℕ) (A : Mat) : Option Mat :=
  let aug : Mat := Array.ofFn (n := nb) fun i =>
    Array.ofFn (n := nb + nb) fun j => if j.val < nb then mget A i.val j.val else if j.val - nb = i.val then 1 else 0
  let r := rref nb nb aug
  if r.2.size ≠ nb then none else
  let X : Mat := r.1.map fun row => row.extract nb (nb + nb)
  if isInverseB nb (mget A) (mget X) then some X else none

/-- Some exact solution of `A β = b` (free variables `0` when `A` is singular), re-checked;
`none` when the system is inconsistent.  Also returns the rank. -/
def certSolve (nb : ℕ) (A : Mat) (b : Array ℚ) : Option (Array ℚ × ℕ) :=
  let aug : Mat := Array.ofFn (n := nb) fun i =>
    Array.ofFn (n := nb + 1) fun j => if j.val < nb then mget A i.val j.val else b.getD i.val 0
  let r := rref nb 1 aug
  let β : Array ℚ := Id.run do
    let mut β : Array ℚ := Array.replicate nb 0
    for t in [0:r.2.size] do
      β := β.set! (r.2.getD t 0) (mget r.1 t nb)
    return β
  if isFitB nb (mget A) (rd b) (rd β) then some (β, r.2.size) else none

end FDA.PSpline
