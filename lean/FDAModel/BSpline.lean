/-
B-spline bases as FDApy builds them (`FDApy/misc/basis.py::_basis_bsplines`), as
executable exact-rational definitions, plus the two specifications they are
proved equal to (`FDAProofs/Lemmas/BSpline.lean`, `FDAProofs/Props/C18.lean`):
the cardinal B-spline in truncated-power form and the Cox–de Boor recursion on
an arbitrary knot sequence.

Self-contained (no other model file is imported).  Numeric layer convention:
vectors are `ℕ → ℚ` read on `range n`, matrices `ℕ → ℕ → ℚ`.

Python being mirrored (degree `p`, `n_functions = nfun`):

    n_segments = n_functions - degree
    dx = (domain_max - domain_min) / n_segments
    knots = np.linspace(domain_min - degree*dx, domain_max + degree*dx,
                        num=n_segments + 2*degree + 1)
    p_mat = _tpower(argvals, knots, degree)       # (x - knot)**p * (x >= knot)
    d_mat = np.diff(np.eye(len(knots)), n=degree+1, axis=0) / (gamma(degree+1) * dx**degree)
    basis_mat = (-1)**(degree+1) * p_mat @ d_mat.T
    sk = knots[np.arange(n_functions) + degree + 1]
    mask[idx, :] = val < sk
    return (basis_mat * mask).T
-/
import Mathlib.Algebra.BigOperators.Group.Finset.Basic
import Mathlib.Algebra.Order.Field.Rat
import Mathlib.Data.Nat.Factorial.Basic
import Mathlib.Data.Nat.Choose.Basic

namespace FDA.BSpline
open Finset

/-- `np.linspace(start, stop, num)[j]` (`endpoint=True`): `start + j·(stop-start)/(num-1)`. -/
def linspace (start stop : ℚ) (num j : ℕ) : ℚ :=
  start + (j : ℚ) * ((stop - start) / ((num - 1 : ℕ) : ℚ))

/-- `n_segments = n_functions - degree`. -/
def nSeg (nfun p : ℕ) : ℕ := nfun - p

/-- `dx = (domain_max - domain_min) / n_segments`. -/
def dx (dmin dmax : ℚ) (nfun p : ℕ) : ℚ := (dmax - dmin) / (nSeg nfun p : ℚ)

/-- `len(knots) = n_segments + 2·degree + 1`. -/
def nKnots (nfun p : ℕ) : ℕ := nSeg nfun p + 2 * p + 1

/-- The equally spaced extended knot sequence, as coded (through `linspace`). -/
def knots (dmin dmax : ℚ) (nfun p : ℕ) (j : ℕ) : ℚ :=
  linspace (dmin - p * dx dmin dmax nfun p) (dmax + p * dx dmin dmax nfun p) (nKnots nfun p) j

/-- `_tpower`: `np.power(x - knot, p) * (x >= knot)`. -/
def tpower (x knot : ℚ) (p : ℕ) : ℚ := (x - knot) ^ p * (if knot ≤ x then 1 else 0)

/-- `np.eye`. -/
def eye (i c : ℕ) : ℚ := if i = c then 1 else 0

/-- One `np.diff(·, axis=0)`: row `i` becomes row `i+1` minus row `i`. -/
def diffRows (M : ℕ → ℕ → ℚ) : ℕ → ℕ → ℚ := fun i c => M (i + 1) c - M i c

/-- `np.diff(np.eye(K), n, axis=0)` (rows `0 … K-n-1`; the column count plays no role entry-wise). -/
def diffMat (n : ℕ) : ℕ → ℕ → ℚ := diffRows^[n] eye

/-- `d_mat`: the `(p+1)`-th difference matrix divided by `Γ(p+1)·dx^p`. -/
def dMat (dmin dmax : ℚ) (nfun p : ℕ) (j k : ℕ) : ℚ :=
  diffMat (p + 1) j k / ((p.factorial : ℚ) * dx dmin dmax nfun p ^ p)

/-- `(-1)^(p+1) · p_mat @ d_mat.T` at `(x, j)` for given knot vector and difference matrix
(the driver passes tabulated copies of `knots …` and `dMat …`). -/
def basisRawWith (K p : ℕ) (kn : ℕ → ℚ) (D : ℕ → ℕ → ℚ) (x : ℚ) (j : ℕ) : ℚ :=
  (-1) ^ (p + 1) * ∑ k ∈ range K, tpower x (kn k) p * D j k

/-- Σ|terms| of the same reduction: the scale of the float tolerance. -/
def basisScaleWith (K p : ℕ) (kn : ℕ → ℚ) (D : ℕ → ℕ → ℚ) (x : ℚ) (j : ℕ) : ℚ :=
  ∑ k ∈ range K, |tpower x (kn k) p * D j k|

/-- End-knot mask: `val < knots[j + degree + 1]`. -/
def maskWith (p : ℕ) (kn : ℕ → ℚ) (x : ℚ) (j : ℕ) : ℚ := if x < kn (j + p + 1) then 1 else 0

/-- `basis_mat * mask` for given knot vector and difference matrix. -/
def basisWith (K p : ℕ) (kn : ℕ → ℚ) (D : ℕ → ℕ → ℚ) (x : ℚ) (j : ℕ) : ℚ :=
  basisRawWith K p kn D x j * maskWith p kn x j

/-- The unmasked matrix product of `_basis_bsplines` at the point `x`, function `j`. -/
def basisRaw (dmin dmax : ℚ) (nfun p : ℕ) (x : ℚ) (j : ℕ) : ℚ :=
  basisRawWith (nKnots nfun p) p (knots dmin dmax nfun p) (dMat dmin dmax nfun p) x j

/-- `_basis_bsplines(argvals, n_functions, degree, domain_min, domain_max)[j, ·]` at the
point `x` (`0 ≤ j < n_functions`). -/
def bsplineBasis (dmin dmax : ℚ) (nfun p : ℕ) (x : ℚ) (j : ℕ) : ℚ :=
  basisWith (nKnots nfun p) p (knots dmin dmax nfun p) (dMat dmin dmax nfun p) x j

/-- The configurations the code evaluates to finite numbers: at least one segment and a
non-degenerate domain (otherwise `dx` is `0`, `inf` or `nan`). -/
def validCfg (dmin dmax : ℚ) (nfun p : ℕ) : Bool := decide (p < nfun) && decide (dmin < dmax)

/-! ### Specifications -/

/-- Cardinal B-spline of degree `p` (knots `0,1,…,p+1`) in truncated-power form:
`N_p(u) = (1/p!) Σ_{i=0}^{p+1} (-1)^i C(p+1,i) (u-i)₊^p`. -/
def cardinal (p : ℕ) (u : ℚ) : ℚ :=
  (∑ i ∈ range (p + 2), (-1) ^ i * ((p + 1).choose i : ℚ) * tpower u i p) / (p.factorial : ℚ)

/-- Cox–de Boor recursion on an arbitrary knot sequence `t`:
`B_{j,0} = 1_{[t_j, t_{j+1})}`,
`B_{j,p+1}(x) = (x-t_j)/(t_{j+p+1}-t_j)·B_{j,p}(x) + (t_{j+p+2}-x)/(t_{j+p+2}-t_{j+1})·B_{j+1,p}(x)`. -/
def coxDeBoor (t : ℕ → ℚ) : ℕ → ℕ → ℚ → ℚ
  | 0, j, x => if t j ≤ x ∧ x < t (j + 1) then 1 else 0
  | p + 1, j, x =>
      (x - t j) / (t (j + p + 1) - t j) * coxDeBoor t p j x
        + (t (j + p + 2) - x) / (t (j + p + 2) - t (j + 1)) * coxDeBoor t p (j + 1) x

/-- Equally spaced knots in closed form: `t_j = dmin + (j - p)·dx`. -/
def uniformKnot (dmin dmax : ℚ) (nfun p : ℕ) (j : ℕ) : ℚ :=
  dmin + ((j : ℚ) - p) * dx dmin dmax nfun p

end FDA.BSpline
