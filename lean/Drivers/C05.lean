import FDAModel.Core.Proto
import FDAModel.Core.Quadrature
import FDAModel.PSplines
open FDA FDA.Proto FDA.BSpline FDA.PSpline

/-! Driver of C05 (1-D part). -/

def maxAbs (l : List ℚ) : ℚ := l.foldl (fun a x => max a |x|) 0

/-- `basisOn` through the tabulated knot vector / difference matrix (`C18.driver_refinement`). -/
def basisTab (dmin dmax : ℚ) (nseg p : ℕ) (xs : Array ℚ) : Array (Array ℚ) :=
  let nfun := nseg + p
  let K := nKnots nfun p
  let kn := tabA K (knots dmin dmax nfun p)
  let D := tabA2 nfun K (dMat dmin dmax nfun p)
  tabA2 nfun xs.size fun k i => basisWith K p (rd kn) (rd2 D) (rd xs i) k

def fitReport (nb n : ℕ) (B : ℕ → ℕ → ℚ) (w y : ℕ → ℚ) (P : ℕ → ℕ → ℚ) (βimpl : ℕ → ℚ) : String :=
  let A := tabA2 nb nb (normalMat n w B P)
  let b := tabA nb (bwy n w B y)
  let resid := (List.range nb).map fun k => (∑ l ∈ Finset.range nb, rd2 A k l * βimpl l) - rd b k
  let rscale := (List.range nb).map fun k => (∑ l ∈ Finset.range nb, |rd2 A k l * βimpl l|) + |rd b k|
  let tail := showVec resid ++ " " ++ showVec rscale
  match certInverse nb A with
  | some X =>
    let β := tabA nb (coefOf nb (mget X) (rd b))
    if !isFitB nb (rd2 A) (rd b) (rd β) then "error:solver" else
    let yh := toList n (fitted nb B (rd β))
    let h := toList n (hatDiag nb w B (mget X))
    let κ := maxAbs ((toMat nb nb (rd2 A)).flatten) * maxAbs ((toMat nb nb (mget X)).flatten) * nb
    "ok " ++ showVec yh ++ " " ++ showVec (toList nb (rd β)) ++ " " ++ showVec h ++ " " ++ showRat κ ++ " " ++ tail
  | none =>
    match certSolve nb A b with
    | some (β, rank) =>
      let yh := toList n (fitted nb B (rd β))
      "singular " ++ showVec yh ++ " " ++ toString rank ++ " " ++ tail
    | none => "error:inconsistent"

def answer (l : String) : String :=
  match tokens l with
  | ["fit1", dmin, dmax, nseg, p, ord, lam, xs, ys, ws, bi] =>
    match parseRat? dmin, parseRat? dmax, nseg.toNat?, p.toNat?, ord.toNat?, parseRat? lam,
        parseVec? xs, parseVec? ys, parseVec? ws, parseVec? bi with
    | some a, some b, some nseg, some p, some ord, some lam, some xs, some ys, some ws, some bi =>
      let nb := nseg + p
      let n := xs.length
      if !validCfg a b nb p then "error:degenerate" else
      if ys.length ≠ n || ws.length ≠ n then "error:shape" else
      let B := basisTab a b nseg p xs.toArray
      let wa := ws.toArray
      let ya := ys.toArray
      let ba := bi.toArray
      fitReport nb n (rd2 B) (rd wa) (rd ya) (pen1 nb ord lam) (rd ba)
    | _, _, _, _, _, _, _, _, _, _ => "bad"
  | _ => "bad-op"

def main : IO Unit := serve answer
