import FDAModel.Core.Proto
import FDAModel.Core.Quadrature
import FDAModel.GLAM
open FDA FDA.Proto FDA.BSpline FDA.PSpline FDA.GLAM

/-! Driver of C05.  1-D: `FDA.PSpline.{normalMat, bwy, coefOf, fitted, hatDiag}`; n-D: the array
arithmetic `FDA.GLAM.{glamBWB, glamBWY, glamYhat, glamHat, penaltyND}`; the linear systems are
solved by the certifying `certInverse` / `certSolve` (exact rationals, result re-checked).
Bases are `basisWith` on tabulated knots / difference matrices (`C18.driver_refinement`). -/

def maxAbs (l : List ℚ) : ℚ := l.foldl (fun a x => max a |x|) 0

def basisTab (dmin dmax : ℚ) (nseg p : ℕ) (xs : Array ℚ) : Array (Array ℚ) :=
  let nfun := nseg + p
  let K := nKnots nfun p
  let kn := tabA K (knots dmin dmax nfun p)
  let D := tabA2 nfun K (dMat dmin dmax nfun p)
  tabA2 nfun xs.size fun k i => basisWith K p (rd kn) (rd2 D) (rd xs i) k

/-- Solve the (tabulated) normal equations exactly and report.
`yhatOf β`, `hatOf X` evaluate the model's fitted values / leverages. -/
def fitReport (M : ℕ) (A : Mat) (b : Array ℚ) (βimpl : ℕ → ℚ) (exact : Bool)
    (yhatOf : Array ℚ → List ℚ) (hatOf : Mat → List ℚ) : String :=
  let resid := (List.range M).map fun k => (∑ l ∈ Finset.range M, mget A k l * βimpl l) - rd b k
  let rscale := (List.range M).map fun k => (∑ l ∈ Finset.range M, |mget A k l * βimpl l|) + |rd b k|
  let tail := showVec resid ++ " " ++ showVec rscale
  if !exact then "resid " ++ tail else
  match certInverse M A with
  | some X =>
    let β := tabA M (coefOf M (mget X) (rd b))
    if !isFitB M (mget A) (rd b) (rd β) then "error:solver" else
    let κ := maxAbs ((toMat M M (mget A)).flatten) * maxAbs ((toMat M M (mget X)).flatten) * M
    "ok " ++ showVec (yhatOf β) ++ " " ++ showVec (toList M (rd β)) ++ " " ++ showVec (hatOf X)
      ++ " " ++ showRat κ ++ " " ++ tail
  | none =>
    match certSolve M A b with
    | some (β, rank) => "singular " ++ showVec (yhatOf β) ++ " " ++ toString rank ++ " " ++ tail
    | none => "error:inconsistent"

structure DimReq where
  dmin : ℚ
  dmax : ℚ
  nseg : ℕ
  p : ℕ
  lam : ℚ
  xs : List ℚ

def parseDims : ℕ → List String → Option (List DimReq × List String)
  | 0, rest => some ([], rest)
  | d + 1, a :: b :: s :: p :: l :: xs :: rest =>
    match parseRat? a, parseRat? b, s.toNat?, p.toNat?, parseRat? l, parseVec? xs, parseDims d rest with
    | some a, some b, some s, some p, some l, some xs, some (ds, r) => some (⟨a, b, s, p, l, xs⟩ :: ds, r)
    | _, _, _, _, _, _, _ => none
  | _, _ => none

def mkDims (rs : List DimReq) : List Dim :=
  rs.map fun r =>
    let Bt := basisTab r.dmin r.dmax r.nseg r.p r.xs.toArray
    { m := r.nseg + r.p, n := r.xs.length, B := rd2 Bt }

def answer (l : String) : String :=
  match tokens l with
  | ["fit1", dmin, dmax, nseg, p, ord, lam, xs, ys, ws, bi, mode] =>
    match parseRat? dmin, parseRat? dmax, nseg.toNat?, p.toNat?, ord.toNat?, parseRat? lam,
        parseVec? xs, parseVec? ys, parseVec? ws, parseVec? bi with
    | some a, some b, some nseg, some p, some ord, some lam, some xs, some ys, some ws, some bi =>
      let nb := nseg + p
      let n := xs.length
      if !validCfg a b nb p then "error:degenerate" else
      if ys.length ≠ n || ws.length ≠ n then "error:shape" else
      let Bt := basisTab a b nseg p xs.toArray
      let B := rd2 Bt
      let wa := ws.toArray
      let ya := ys.toArray
      let ba := bi.toArray
      let A := tabA2 nb nb (normalMat n (rd wa) B (pen1 nb ord lam))
      let bv := tabA nb (bwy n (rd wa) B (rd ya))
      fitReport nb A bv (rd ba) (mode = "exact")
        (fun β => toList n (fitted nb B (rd β)))
        (fun X => toList n (hatDiag nb (rd wa) B (mget X)))
    | _, _, _, _, _, _, _, _, _, _ => "bad"
  | "fitn" :: d :: ord :: rest =>
    match d.toNat?, ord.toNat? with
    | some d, some ord =>
      match parseDims d rest with
      | some (rs, [ys, ws, bi, mode]) =>
        match parseVec? ys, parseVec? ws, parseVec? bi with
        | some ys, some ws, some bi =>
          if rs.any (fun r => !validCfg r.dmin r.dmax (r.nseg + r.p) r.p) then "error:degenerate" else
          let dims := mkDims rs
          let N := prodN dims
          let M := prodM dims
          if ys.length ≠ N || ws.length ≠ N then "error:shape" else
          let W := ws.toArray
          let Y := ys.toArray
          let ba := bi.toArray
          let YW := tabA N fun i => rd Y i * rd W i
          let bwbA := glamBWB dims W
          let Ps := dims.map fun dd =>
            let Pt := tabA2 dd.m dd.m (penMat dd.m ord)
            (dd.m, rd2 Pt)
          let pen := penaltyND (rs.map (·.lam)) Ps
          let A := tabA2 M M fun K L => rd bwbA (K * M + L) + pen K L
          let bv := glamBWY dims YW
          fitReport M A bv (rd ba) (mode = "exact")
            (fun β => (glamYhat dims β).toList)
            (fun X => (glamHat dims (tabA (M * M) fun f => mget X (f / M) (f % M)) W).toList)
        | _, _, _ => "bad"
      | _ => "bad"
    | _, _ => "bad"
  | "pred" :: d :: rest =>
    -- PSplines.predict with the stored domains: per dim `dmin dmax nseg p 0 xs'`, then the coefficients
    match d.toNat? with
    | some d =>
      match parseDims d rest with
      | some (rs, [bi]) =>
        match parseVec? bi with
        | some bi =>
          if rs.any (fun r => !validCfg r.dmin r.dmax (r.nseg + r.p) r.p) then "error:degenerate" else
          let ba := bi.toArray
          match rs with
          | [r] =>
            let xa := r.xs.toArray
            showVec (toList r.xs.length (predict1 r.dmin r.dmax r.nseg r.p (rd ba) (rd xa)))
          | _ => showVec (glamYhat (mkDims rs) ba).toList
        | none => "bad"
      | _ => "bad"
    | none => "bad"
  | _ => "bad-op"

def main : IO Unit := serve answer
