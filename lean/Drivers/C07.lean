import FDAModel.LocalPolyIO
import FDAModel.Predict
open FDA FDA.Proto FDA.PS

/-! Driver of C07: evaluates the model's own `predict`, `predictRebuilt`, `predict2Tab` (= `predict2`), `covAtTab` (= `covAt`)
(FDAModel/Predict.lean) with the coefficients and the FIT domain supplied by the harness;
local-polynomial requests (`lp1`, `lp2`) go to the C06 front end (`lpPredict1/2`). -/

def mkFit1 (dmin dmax : ℚ) (nseg deg : ℕ) (b : List ℚ) : Fit1 :=
  let ba := b.toArray
  { dmin := dmin, dmax := dmax, nseg := nseg, deg := deg, beta := rd ba }

def answer (l : String) : String :=
  match tokens l with
  | ["ps1", a, b, ns, dg, be, q] =>
    match parseRat? a, parseRat? b, ns.toNat?, dg.toNat?, parseVec? be, parseVec? q with
    | some dmin, some dmax, some nseg, some deg, some beta, some Q =>
      if nseg = 0 ∨ dmin = dmax then "error:ValueError" else
      if beta.length ≠ nFun nseg deg then "error:ValueError" else
      let f := mkFit1 dmin dmax nseg deg beta
      showVec (predict f Q) ++ " " ++ showVec (Q.map (evalScale f))
    | _, _, _, _, _, _ => "bad"
  | ["ps1rebuilt", a, b, ns, dg, be, q] =>
    match parseRat? a, parseRat? b, ns.toNat?, dg.toNat?, parseVec? be, parseVec? q with
    | some dmin, some dmax, some nseg, some deg, some beta, some Q =>
      if nseg = 0 then "error:ValueError" else
      let f := mkFit1 dmin dmax nseg deg beta
      showVec (predictRebuilt f Q)
    | _, _, _, _, _, _ => "bad"
  | ["ps2", a1, b1, ns1, dg1, a2, b2, ns2, dg2, be, q1, q2] =>
    match parseRat? a1, parseRat? b1, ns1.toNat?, dg1.toNat?, parseRat? a2, parseRat? b2, ns2.toNat?, dg2.toNat?,
        parseMat? be, parseVec? q1, parseVec? q2 with
    | some dmin1, some dmax1, some nseg1, some deg1, some dmin2, some dmax2, some nseg2, some deg2,
        some beta, some Q1, some Q2 =>
      if nseg1 = 0 ∨ nseg2 = 0 ∨ dmin1 = dmax1 ∨ dmin2 = dmax2 then "error:ValueError" else
      if beta.length ≠ nFun nseg1 deg1 ∨ beta.any (fun r => r.length ≠ nFun nseg2 deg2) then "error:ValueError" else
      let ba := (beta.map List.toArray).toArray
      let absb := (beta.map fun r => (r.map fun v => |v|).toArray).toArray
      let f : Fit2 := { dmin1 := dmin1, dmax1 := dmax1, nseg1 := nseg1, deg1 := deg1,
                        dmin2 := dmin2, dmax2 := dmax2, nseg2 := nseg2, deg2 := deg2, beta := rd2 ba }
      let fa : Fit2 := { f with beta := rd2 absb }
      -- scale: Σ |β_ab| B_a B_b (B-splines are non-negative up to rounding) at the first query pair
      showMat (predict2Tab f Q1 Q2) ++ " " ++ showMat (predict2Tab fa Q1 Q2)
    | _, _, _, _, _, _, _, _, _, _, _ => "bad"
  | ["cov", a1, b1, ns1, dg1, a2, b2, ns2, dg2, be, q] =>
    match parseRat? a1, parseRat? b1, ns1.toNat?, dg1.toNat?, parseRat? a2, parseRat? b2, ns2.toNat?, dg2.toNat?,
        parseMat? be, parseVec? q with
    | some dmin1, some dmax1, some nseg1, some deg1, some dmin2, some dmax2, some nseg2, some deg2,
        some beta, some Q =>
      if nseg1 = 0 ∨ nseg2 = 0 ∨ dmin1 = dmax1 ∨ dmin2 = dmax2 then "error:ValueError" else
      if beta.length ≠ nFun nseg1 deg1 ∨ beta.any (fun r => r.length ≠ nFun nseg2 deg2) then "error:ValueError" else
      let ba := (beta.map List.toArray).toArray
      let absb := (beta.map fun r => (r.map fun v => |v|).toArray).toArray
      let f : Fit2 := { dmin1 := dmin1, dmax1 := dmax1, nseg1 := nseg1, deg1 := deg1,
                        dmin2 := dmin2, dmax2 := dmax2, nseg2 := nseg2, deg2 := deg2, beta := rd2 ba }
      let fa : Fit2 := { f with beta := rd2 absb }
      showMat (covAtTab f Q) ++ " " ++ showMat (covAtTab fa Q)
    | _, _, _, _, _, _, _, _, _, _ => "bad"
  | toks => FDA.LP.IO.answerTokens toks

def main : IO Unit := serve answer
