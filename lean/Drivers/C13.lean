import FDAModel.Core.Proto
import FDAModel.Select
open FDA FDA.Proto FDA.Dict FDA.Slice FDA.Select

/-!
Driver of C13: evaluates the selection / iteration / concatenation model `FDA.Select`
(and `FDA.Slice`) on datasets whose observations are opaque row identifiers.

Requests (token streams):
  slice n oint oint oint                       → `ok <positions>` | `ValueError`
  get   obj index                              → `ok <obj>` | error class
  getm  obj natvec(0/1)                        → boolean mask
  iter  comp                                   → pieces joined by ` | `
  keyed comp                                   → labels and contents of a per-observation result
  cat   tree                                   → `impl=<obj|error> spec=<obj|error>`
  comp  := D natvec | B natvec | I k (label rowid)^k     obj := U comp | M k comp^k
  index := i int | s oint oint oint | a intvec
  tree  := L obj | N k tree^k
-/

abbrev P (α : Type) := List String → Option (α × List String)

def pNat : P Nat
  | t :: ts => t.toNat?.map (·, ts)
  | [] => none

def pInt : P Int
  | t :: ts => t.toInt?.map (·, ts)
  | [] => none

def pOInt : P (Option Int)
  | "N" :: ts => some (none, ts)
  | t :: ts => t.toInt?.map (some ·, ts)
  | [] => none

def pMany {α : Type} (p : P α) : Nat → P (List α)
  | 0, ts => some ([], ts)
  | n + 1, ts =>
    match p ts with
    | none => none
    | some (a, ts) =>
      match pMany p n ts with
      | none => none
      | some (as, ts) => some (a :: as, ts)

def pCounted {α : Type} (p : P α) : P (List α) := fun ts =>
  match pNat ts with
  | none => none
  | some (n, ts) => pMany p n ts

def pEntry : P (Int × Nat) := fun ts =>
  match pInt ts with
  | none => none
  | some (l, ts) => (pNat ts).map fun (r, ts) => ((l, r), ts)

def pComp : P (Comp Nat)
  | "D" :: t :: ts => (parseNatVec? t).map fun rows => (.dense rows, ts)
  | "I" :: ts => (pCounted pEntry ts).map fun (es, ts) => (.irreg es, ts)
  | "B" :: t :: ts => (parseNatVec? t).map fun rows => (.basis rows, ts)
  | _ => none

def pObj : P (Obj Nat)
  | "U" :: ts => (pComp ts).map fun (c, ts) => (.uni c, ts)
  | "M" :: ts => (pCounted pComp ts).map fun (cs, ts) => (.multi cs, ts)
  | _ => none

def pIndex : P Index
  | "i" :: ts => (pInt ts).map fun (i, ts) => (.int i, ts)
  | "s" :: ts =>
    match pOInt ts with
    | none => none
    | some (a, ts) =>
      match pOInt ts with
      | none => none
      | some (b, ts) => (pOInt ts).map fun (c, ts) => (.slice a b c, ts)
  | "a" :: t :: ts => (parseIntVec? t).map fun v => (.arr v, ts)
  | _ => none

partial def pTree : P (Tree Nat)
  | "L" :: ts => (pObj ts).map fun (x, ts) => (.leaf x, ts)
  | "N" :: ts => (pCounted pTree ts).map fun (xs, ts) => (.node xs, ts)
  | _ => none

def showErr : Err → String
  | .typeError => "TypeError"
  | .valueError => "ValueError"
  | .indexError => "IndexError"
  | .keyError => "KeyError"
  | .notImplemented => "NotImplementedError"
  | .other => "Other"

def showComp : Comp Nat → String
  | .dense rows => "D:" ++ showNatVec rows
  | .basis rows => "B:" ++ showNatVec rows
  | .irreg d => "I:" ++ (if d.isEmpty then "-" else ",".intercalate (d.map fun p => toString p.1 ++ "/" ++ toString p.2))

def showObj : Obj Nat → String
  | .uni c => "U " ++ showComp c
  | .multi cs => "M " ++ (if cs.isEmpty then "-" else "|".intercalate (cs.map showComp))

def showRes : Except Err (Obj Nat) → String
  | .ok x => "ok " ++ showObj x
  | .error e => showErr e

def showResNoSpace : Except Err (Obj Nat) → String
  | .ok x => (showObj x).replace " " "~"
  | .error e => showErr e

def answer (l : String) : String :=
  match tokens l with
  | "slice" :: ts =>
    match pNat ts with
    | some (n, ts) =>
      match pOInt ts with
      | some (a, ts) =>
        match pOInt ts with
        | some (b, ts) =>
          match pOInt ts with
          | some (c, _) =>
            match slicePos n a b c with
            | some ps => "ok " ++ showNatVec ps
            | none => "ValueError"
          | none => "bad"
        | none => "bad"
      | none => "bad"
    | none => "bad"
  | "get" :: ts =>
    match pObj ts with
    | some (x, ts) =>
      match pIndex ts with
      | some (ix, _) => showRes (x.get ix)
      | none => "bad"
    | none => "bad"
  | "getm" :: ts =>
    match pObj ts with
    | some (x, t :: _) =>
      match parseNatVec? t with
      | some bits => showRes (x.getMask (bits.map (· != 0)))
      | none => "bad"
    | _ => "bad"
  | "iter" :: ts =>
    match pComp ts with
    | some (c, _) => " | ".intercalate (c.iter.map showComp)
    | none => "bad"
  | "keyed" :: ts =>
    match pComp ts with
    | some (.irreg d, _) =>
      match perObsKeyed (fun i (r : Nat) => (i, r)) d with
      | some r => "ok " ++ (if r.isEmpty then "-" else ",".intercalate (r.map fun p => toString p.1 ++ "/" ++ toString p.2.1 ++ "/" ++ toString p.2.2))
      | none => "KeyError"
    | _ => "bad"
  | "cat" :: ts =>
    match pTree ts with
    | some (t, _) =>
      "impl=" ++ showResNoSpace (t.eval concatObjsImpl) ++ " spec=" ++ showResNoSpace (t.eval concatObjsSpec)
    | none => "bad"
  | _ => "bad-op"

def main : IO Unit := serve answer
