import FDAModel.Core.Proto
import FDAModel.Transform
import FDAModel.CovPath
open FDA FDA.Proto

def ncols (X : List (List ℚ)) : ℕ := (X.head?.map List.length).getD 0

def arr2 (X : List (List ℚ)) : Array (Array ℚ) := (X.map List.toArray).toArray

/-- the grid, or its image in `[0,1]` (`use_argvals_stand=True`) -/
def gridOf (s : String) (n : ℕ) (ta : Array ℚ) : Array ℚ :=
  if s = "1" then tabA n (standGrid n (rd ta)) else ta

def showOptVec (v : List (Option ℚ)) : String :=
  if v.isEmpty then "-" else ",".intercalate (v.map fun o => match o with | some q => showRat q | none => "nan")

def parseOptVec? (s : String) : Option (List (Option ℚ)) :=
  if s = "-" then some [] else
    (s.splitOn ",").mapM fun tok => if tok = "nan" then some none else (parseRat? tok).map some

/-- `standardizedSq (popVar N X) D` tabulated, `D` = centred data (`c = "1"`) or raw data. -/
def stdAnswer (X : List (List ℚ)) (c : String) : String :=
  let N := X.length
  let m := ncols X
  let Xa := arr2 X
  let mean := tabA m (colMean N (rd2 Xa))
  let D := if c = "1" then tabA2 N m (fun i j => rd2 Xa i j - rd mean j) else Xa
  let var := tabA m (popVar N (rd2 Xa))
  showMat (toMat N m (standardizedSq (rd var) (rd2 D)))

def answer (l : String) : String :=
  match tokens l with
  | ["center", x] =>
    match parseMat? x with
    | some X =>
      let Xa := arr2 X
      let N := X.length
      let m := ncols X
      let mean := tabA m (colMean N (rd2 Xa))
      showMat (toMat N m fun i j => rd2 Xa i j - rd mean j)   -- `center N X`, mean tabulated
    | none => "bad"
  | ["std", x, c] =>
    match parseMat? x with
    | some X => stdAnswer X c
    | none => "bad"
  | ["grid", cs, bs] =>
    -- `to_grid`: C (N×K) times B (K×m)
    match parseMat? cs, parseMat? bs with
    | some C, some B =>
      let Ca := arr2 C
      let Ba := arr2 B
      showMat (toMat C.length (ncols B) (toGrid B.length (rd2 Ca) (rd2 Ba)))
    | _, _ => "bad"
  | ["popvar", x] =>
    match parseMat? x with
    | some X =>
      let Xa := arr2 X
      showVec (toList (ncols X) (popVar X.length (rd2 Xa)))
    | none => "bad"
  | ["weight", t, x, s] =>
    match parseVec? t, parseMat? x with
    | some ts, some X =>
      let n := ts.length
      if n ≠ ncols X then "error" else
      if s = "1" ∧ (n < 2 ∨ rd ts.toArray (n - 1) = rd ts.toArray 0) then "error" else
      let ta := gridOf s n ts.toArray
      let Xa := arr2 X
      let var := tabA n (popVar X.length (rd2 Xa))
      -- `rescaleWeight n t N X` with the variance tabulated
      showRat (trapz n (rd ta) (rd var))
    | _, _ => "bad"
  | ["weight2", t1, t2, x] =>
    match parseVec? t1, parseVec? t2, parseMat? x with
    | some a, some b, some X =>
      let n1 := a.length
      let n2 := b.length
      if n1 * n2 ≠ ncols X then "error" else
      let Xa := arr2 X
      let aa := a.toArray
      let ba := b.toArray
      let var := tabA (n1 * n2) (popVar X.length (rd2 Xa))
      showRat (integrate2 n1 n2 (rd aa) (rd ba) (fun p q => rd var (p * n2 + q)))
    | _, _, _ => "bad"
  | ["normsq", t, x, s] =>
    match parseVec? t, parseMat? x with
    | some ts, some X =>
      let n := ts.length
      if s = "1" ∧ (n < 2 ∨ rd ts.toArray (n - 1) = rd ts.toArray 0) then "error" else
      let ta := gridOf s n ts.toArray
      let Xa := arr2 X
      showVec ((List.range X.length).map fun i => normSq n (rd ta) (rd2 Xa i))
    | _, _ => "bad"
  | ["normsq2", t1, t2, x] =>
    match parseVec? t1, parseVec? t2, parseMat? x with
    | some a, some b, some X =>
      let n2 := b.length
      let Xa := arr2 X
      let aa := a.toArray
      let ba := b.toArray
      showVec ((List.range X.length).map fun i =>
        inner2 a.length n2 (rd aa) (rd ba) (fun p q => rd2 Xa i (p * n2 + q)) (fun p q => rd2 Xa i (p * n2 + q)))
    | _, _, _ => "bad"
  | ["normalize", t, x, s] =>
    -- signed squares of the normalised curves; a curve of norm zero is reported as `zero-norm`
    match parseVec? t, parseMat? x with
    | some ts, some X =>
      let n := ts.length
      if s = "1" ∧ (n < 2 ∨ rd ts.toArray (n - 1) = rd ts.toArray 0) then "error" else
      let ta := gridOf s n ts.toArray
      let Xa := arr2 X
      ";".intercalate ((List.range X.length).map fun i =>
        let nsq := normSq n (rd ta) (rd2 Xa i)
        match normalizedSq nsq (rd2 Xa i) 0 with
        | none => "zero-norm"
        | some _ => showVec ((List.range (ncols X)).map fun j => (normalizedSq nsq (rd2 Xa i) j).getD 0))
    | _, _ => "bad"
  | ["scale", x, w] =>
    -- signed squares of `X / √w`
    match parseMat? x, parseRat? w with
    | some X, some w =>
      if w ≤ 0 then "error" else
      let Xa := arr2 X
      showMat (toMat X.length (ncols X) fun i j => signedSq (rd2 Xa i j) / w)
    | _, _ => "bad"
  | ["isin", u, mu, pts, vals] =>
    match parseVec? u, parseVec? mu, parseVec? pts, parseOptVec? vals with
    | some U, some M, some P, some V =>
      if U.length ≠ M.length then "bad" else
      match centerIrregular (U.zip M) P V with
      | .ok r => "ok " ++ showOptVec r
      | .error e => "error:" ++ e
    | _, _, _, _ => "bad"
  | ["bvar", d] =>
    match d.toNat? with
    | some k =>
      match basisVarianceImpl k (fun _ => 0) with
      | .ok _ => "ok"
      | .error e => "error:" ++ e
    | none => "bad"
  | ["interp", tp, fp, us] =>
    -- `np.interp(us, tp, fp)` and the squared norm of the interpolant on the grid `us`
    match parseVec? tp, parseVec? fp, parseVec? us with
    | some T, some Fv, some U =>
      if T.length ≠ Fv.length ∨ T.isEmpty then "error" else
      let ta := T.toArray
      let fa := Fv.toArray
      let ua := U.toArray
      let v := tabA U.length fun j => interp T.length (rd ta) (rd fa) (rd ua j)
      showVec (toList U.length (rd v)) ++ " " ++ showRat (normSq U.length (rd ua) (rd v))
    | _, _, _ => "bad"
  | ["stdthr", v, sd] =>
    -- irregular standardisation with threshold 1e-12; `nan` in `sd` = sqrt of a negative variance
    match parseVec? v, parseOptVec? sd with
    | some V, some Sd =>
      let va := V.toArray
      let sa := Sd.toArray
      showVec ((List.range V.length).map (standardizeThr (1 / 1000000000000) (fun k => (sa.getD k none)) (rd va)))
    | _, _ => "bad"
  | ["mnorm", kinds] =>
    -- `MultivariateFunctionalData.normalize` on components of the given kinds (`b` = basis expansion)
    let ks := kinds.splitOn ","
    let ka := ks.toArray
    match multiNormalizeImpl ks.length (fun i => ka.getD i "" == "b") with
    | .ok _ => "ok"
    | .error e => "error:" ++ e
  | _ => "bad-op"

def main : IO Unit := serve answer
