import FDAModel.Core.Proto
import FDAModel.Alias
/-!
Driver of C16 (import-free).

  skel <name> <heap> <roots>
     heap  : `id:child,child;id:-;…`  (cells of the inputs, ids 0..n-1 in order)
     roots : `s=<id>,a0=<id>,…`       (`s` is variable 0, `a<i>` variable i+1)
  answer: `check=<true|false> alias=<r-path~input-path|…> written=<input-path|…>`
     alias   : result paths (from the returned variable) and input paths (from the roots), both in
               the heap after the call (what the harness can observe), that are the same cell
     written : input paths whose cell (buffer or fields) differs between the initial and the final heap
-/
open FDA.Proto FDA.Alias

def parseCell? (s : String) : Option (Nat × List Nat) :=
  match s.splitOn ":" with
  | [i, fs] => do
    let i ← i.toNat?
    let fs ← if fs = "-" then some [] else (fs.splitOn ",").mapM String.toNat?
    pure (i, fs)
  | _ => none

def parseRoot? (s : String) : Option (String × Nat) :=
  match s.splitOn "=" with
  | [n, i] => i.toNat?.map fun i => (n, i)
  | _ => none

/-- all (path, reference) pairs reachable through fields, up to a depth -/
def reach (h : Heap) : Nat → String → Nat → List (String × Nat)
  | 0, p, r => [(p, r)]
  | fuel + 1, p, r =>
    (p, r) :: ((h.cell r).fields.zipIdx.flatMap fun (c, i) => reach h fuel (p ++ "." ++ toString i) c)

def answer (l : String) : String :=
  match tokens l with
  | ["skel", name, heap, roots] =>
    match skelOf name, (heap.splitOn ";").mapM parseCell?, (roots.splitOn ",").mapM parseRoot? with
    | some sk, some cells, some roots =>
      let arr := cells.toArray
      let n := arr.size
      let h0 : Heap := { cell := fun r => match arr[r]? with | some (_, fs) => ⟨r, fs, []⟩ | none => ⟨0, [], []⟩, next := n }
      let args := roots.map (·.2)
      let call : Call := ⟨sk, args⟩
      let r := exec sk.body call.env h0
      let res := reach r.2 6 "r" (r.1 sk.ret)
      let ins := roots.flatMap fun (nm, i) => reach h0 6 nm i
      let insAfter := roots.flatMap fun (nm, i) => reach r.2 6 nm i
      let alias := res.flatMap fun (rp, rr) => insAfter.filterMap fun (ip, ir) => if rr = ir then some (rp ++ "~" ++ ip) else none
      let written := ins.filterMap fun (ip, ir) =>
        if (r.2.cell ir).data = (h0.cell ir).data ∧ (r.2.cell ir).fields = (h0.cell ir).fields then none else some ip
      "check=" ++ toString (freshTargets sk) ++ " alias=" ++ (if alias.isEmpty then "-" else "|".intercalate alias) ++
        " written=" ++ (if written.isEmpty then "-" else "|".intercalate written)
    | none, _, _ => "unknown-skeleton"
    | _, _, _ => "bad"
  | _ => "bad-op"

def main : IO Unit := serve answer
