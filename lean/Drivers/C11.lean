import FDAModel.Core.Proto
import FDAModel.Containers
open FDA FDA.Proto FDA.Dict FDA.Slice FDA.Select FDA.Containers

/-!
Driver of C11: replays an operation history on the container state machine
`FDA.Containers.step` and prints, after every step, the outcome class, the
whole abstract state and the observers.

Request (one line, a token stream):
  run <guard:0|1> <op> <op> …
  op   := mkD arg val | mkI arg val | mkM n recipe^n | setA arg | setV val | setS arg
        | app recipe | ext n recipe^n | ins int recipe | rem recipe | pop int | popd | clr | rev
        | gi int | gs oint oint oint | ga intvec | cat n srecipe^n | bi a<k> | bi v<k>
  arg  := da natvec nat | ia n (int natvec nat)^n | oa | ba<k>
  val  := dv natvec natvec | iv n (int natvec nat)^n | ov | bv<k>
  recipe := D arg val | I arg val        srecipe := U recipe | M n recipe^n
Answer: `<out> <state> <observers>` per step, joined by ` || `.
-/

abbrev P (α : Type) := List String → Option (α × List String)

def pNat : P Nat
  | t :: ts => t.toNat?.map (·, ts)
  | [] => none

def pInt : P Int
  | t :: ts => t.toInt?.map (·, ts)
  | [] => none

def pOInt : P (Option Int)
  | "N" :: ts => some (none, ts)
  | t :: ts => t.toInt?.map (some ·, ts)
  | [] => none

def pNatVec : P (List Nat)
  | t :: ts => (parseNatVec? t).map (·, ts)
  | [] => none

def pIntVec : P (List Int)
  | t :: ts => (parseIntVec? t).map (·, ts)
  | [] => none

/-- `n` repetitions of a parser. -/
def pMany {α : Type} (p : P α) : Nat → P (List α)
  | 0, ts => some ([], ts)
  | n + 1, ts =>
    match p ts with
    | none => none
    | some (a, ts) =>
      match pMany p n ts with
      | none => none
      | some (as, ts) => some (a :: as, ts)

def pCounted {α : Type} (p : P α) : P (List α) := fun ts =>
  match pNat ts with
  | none => none
  | some (n, ts) => pMany p n ts

def pAObs : P (Int × AObs) := fun ts =>
  match pInt ts with
  | none => none
  | some (l, ts) =>
    match pNatVec ts with
    | none => none
    | some (pts, ts) =>
      match pNat ts with
      | none => none
      | some (g, ts) => some ((l, ⟨pts, g⟩), ts)

def pVObs : P (Int × VObs) := fun ts =>
  match pInt ts with
  | none => none
  | some (l, ts) =>
    match pNatVec ts with
    | none => none
    | some (sh, ts) =>
      match pNat ts with
      | none => none
      | some (r, ts) => some ((l, ⟨sh, r⟩), ts)

def pArg : P ArgV
  | "da" :: ts =>
    match pNatVec ts with
    | none => none
    | some (pts, ts) => (pNat ts).map fun (g, ts) => (.dense pts g, ts)
  | "ia" :: ts => (pCounted pAObs ts).map fun (os, ts) => (.irreg os, ts)
  | "oa" :: ts => some (.other, ts)
  | t :: ts => if t.startsWith "ba" then some (.bad, ts) else none   -- `ba<k>`: k-th way of failing to build
  | [] => none

def pVal : P ValV
  | "dv" :: ts =>
    match pNatVec ts with
    | none => none
    | some (rows, ts) => (pNatVec ts).map fun (pts, ts) => (.dense rows pts, ts)
  | "iv" :: ts => (pCounted pVObs ts).map fun (os, ts) => (.irreg os, ts)
  | "ov" :: ts => some (.other, ts)
  | t :: ts => if t.startsWith "bv" then some (.bad, ts) else none
  | [] => none

def pRecipe : P Recipe
  | "D" :: ts =>
    match pArg ts with
    | none => none
    | some (a, ts) => (pVal ts).map fun (v, ts) => (.dense a v, ts)
  | "I" :: ts =>
    match pArg ts with
    | none => none
    | some (a, ts) => (pVal ts).map fun (v, ts) => (.irreg a v, ts)
  | _ => none

def pSRecipe : P SRecipe
  | "U" :: ts => (pRecipe ts).map fun (r, ts) => (.uni r, ts)
  | "M" :: ts => (pCounted pRecipe ts).map fun (rs, ts) => (.multi rs, ts)
  | _ => none

def pOp : P Op
  | "mkD" :: ts =>
    match pArg ts with
    | none => none
    | some (a, ts) => (pVal ts).map fun (v, ts) => (.mkDense a v, ts)
  | "mkI" :: ts =>
    match pArg ts with
    | none => none
    | some (a, ts) => (pVal ts).map fun (v, ts) => (.mkIrreg a v, ts)
  | "mkM" :: ts => (pCounted pRecipe ts).map fun (rs, ts) => (.mkMulti rs, ts)
  | "setA" :: ts => (pArg ts).map fun (a, ts) => (.setArg a, ts)
  | "setV" :: ts => (pVal ts).map fun (v, ts) => (.setVal v, ts)
  | "setS" :: ts => (pArg ts).map fun (a, ts) => (.setStand a, ts)
  | "app" :: ts => (pRecipe ts).map fun (r, ts) => (.append r, ts)
  | "ext" :: ts => (pCounted pRecipe ts).map fun (rs, ts) => (.extend rs, ts)
  | "ins" :: ts =>
    match pInt ts with
    | none => none
    | some (i, ts) => (pRecipe ts).map fun (r, ts) => (.insert i r, ts)
  | "rem" :: ts => (pRecipe ts).map fun (r, ts) => (.remove r, ts)
  | "pop" :: ts => (pInt ts).map fun (i, ts) => (.pop (some i), ts)
  | "popd" :: ts => some (.pop none, ts)
  | "clr" :: ts => some (.clear, ts)
  | "rev" :: ts => some (.reverse, ts)
  | "gi" :: ts => (pInt ts).map fun (i, ts) => (.getitem (.int i), ts)
  | "gs" :: ts =>
    match pOInt ts with
    | none => none
    | some (a, ts) =>
      match pOInt ts with
      | none => none
      | some (b, ts) => (pOInt ts).map fun (c, ts) => (.getitem (.slice a b c), ts)
  | "ga" :: ts => (pIntVec ts).map fun (v, ts) => (.getitem (.arr v), ts)
  | "cat" :: ts => (pCounted pSRecipe ts).map fun (rs, ts) => (.concat rs, ts)
  | "bi" :: t :: ts => some (.badItem (t.startsWith "v"), ts)     -- `bi a<k>` / `bi v<k>`
  | "bo" :: t :: ts => some (.badItem (t.startsWith "v"), ts)     -- the same through `d |= {k: w}`
  | _ => none

/-- Parse all operations (fuel = number of tokens). -/
def pOps : Nat → List String → Option (List Op)
  | _, [] => some []
  | 0, _ => none
  | n + 1, ts =>
    match pOp ts with
    | none => none
    | some (op, ts) => (pOps n ts).map (op :: ·)

/-! printing -/

def shp (s : List Nat) : String := if s.isEmpty then "-" else ".".intercalate (s.map toString)

def joinOr (sep : String) (xs : List String) : String := if xs.isEmpty then "-" else sep.intercalate xs

def showStand : Stand → String
  | .dense p => "D" ++ shp p
  | .irreg o => "I" ++ joinOr "," (o.map fun p => toString p.1 ++ "/" ++ shp p.2)

def showGrid : Grid → String
  | .dense pts g rows vpts st =>
    "D:a=" ++ shp pts ++ "@" ++ toString g ++ ":v=" ++ shp rows ++ "x" ++ shp vpts ++ ":s=" ++ showStand st
  | .irreg a v st =>
    "I:a=" ++ joinOr "," (a.map fun p => toString p.1 ++ "/" ++ shp p.2.pts ++ "@" ++ toString p.2.g)
      ++ ":v=" ++ joinOr "," (v.map fun p => toString p.1 ++ "/" ++ shp p.2.shape ++ "#" ++ toString p.2.r)
      ++ ":s=" ++ showStand st

def showState : State → String
  | .empty => "E"
  | .uni x => showGrid x
  | .multi cs => "M[" ++ ";".intercalate (cs.map showGrid) ++ "]"

def showONat : Option Nat → String
  | none => "err"
  | some n => toString n

def showObservers (s : State) : String :=
  match s with
  | .empty => "nobs=- ndim=- nfun=- npts=- inv=" ++ (if s.consistent then "1" else "0") ++ (if s.consistentNoStand then "1" else "0")
  | .uni x =>
    "nobs=" ++ showONat s.nObs ++ " ndim=" ++ showONat x.nDim ++ " nfun=- npts=" ++ showStand x.nPoints
      ++ " inv=" ++ (if s.consistent then "1" else "0") ++ (if s.consistentNoStand then "1" else "0")
  | .multi cs =>
    "nobs=" ++ showONat s.nObs ++ " ndim=" ++ joinOr "," (cs.map fun c => showONat c.nDim)
      ++ " nfun=" ++ showONat s.nFunctional ++ " npts=" ++ joinOr ";" (cs.map fun c => showStand c.nPoints)
      ++ " inv=" ++ (if s.consistent then "1" else "0") ++ (if s.consistentNoStand then "1" else "0")

def showOut : Out → String
  | .ok => "ok"
  | .na => "na"
  | .err .typeError => "TypeError"
  | .err .valueError => "ValueError"
  | .err .indexError => "IndexError"
  | .err .keyError => "KeyError"
  | .err .notImplemented => "NotImplementedError"
  | .err .other => "Other"

def replay (guard : Bool) : State → List Op → List String
  | _, [] => []
  | s, op :: ops =>
    let r := step guard s op
    (showOut r.2 ++ " " ++ showState r.1 ++ " " ++ showObservers r.1) :: replay guard r.1 ops

/-- FNV-1a (64 bit) of the UTF-8 bytes: the digest both sides compute in the exhaustive tier. -/
def fnv (s : String) : UInt64 :=
  s.toUTF8.foldl (fun h b => (h ^^^ b.toUInt64) * 1099511628211) 14695981039346656037

/-- All continuations of length `d` over the alphabet, in lexicographic order: digest of
(outcomes of the continuation, final state, final observers). -/
def treeDigests (guard : Bool) (alphabet : List Op) : Nat → State → String → List String
  | 0, s, outs => [toString (fnv (outs ++ " " ++ showState s ++ " " ++ ((showObservers s).splitOn " inv=").headD ""))]
  | d + 1, s, outs =>
    alphabet.flatMap fun op =>
      let r := step guard s op
      treeDigests guard alphabet d r.1 (outs ++ "," ++ showOut r.2)

def splitAt (sep : String) : List String → List String × List String
  | [] => ([], [])
  | t :: ts => if t == sep then ([], ts) else let r := splitAt sep ts; (t :: r.1, r.2)

def pXOp : P XOp
  | "xset" :: ts =>
    match pInt ts with
    | none => none
    | some (i, ts) => (pRecipe ts).map fun (r, ts) => (.setItem i r, ts)
  | "xdel" :: ts => (pInt ts).map fun (i, ts) => (.delItem i, ts)
  | "xiadd" :: ts => (pCounted pRecipe ts).map fun (rs, ts) => (.iadd rs, ts)
  | "xadd" :: ts => (pCounted pRecipe ts).map fun (rs, ts) => (.add rs, ts)
  | "xmul" :: ts => (pInt ts).map fun (k, ts) => (.mul k, ts)
  | "ximul" :: ts => (pInt ts).map fun (k, ts) => (.imul k, ts)
  | "xsort" :: ts => some (.sort, ts)
  | _ => none

def answer (l : String) : String :=
  match tokens l with
  | ["norm", t] =>
    -- `DenseArgvals.normalization` of one dimension: exact rationals
    match parseVec? t with
    | some ts => match normalizeGrid ts with
      | some r => "ok " ++ showVec r
      | none => "nan"
    | none => "bad"
  | "xop" :: g :: ts =>
    -- xop <guard> <history ops> | <one inherited list operation>: outcome and components after it
    let (pre, xt) := splitAt "|" ts
    match pOps (pre.length + 1) pre, pXOp xt with
    | some pops, some (x, _) =>
      match run (g == "1") .empty pops with
      | .multi cs =>
        match stepX cs x with
        | .ok ds => "ok " ++ showState (.multi ds) ++ " inv=" ++ (if (State.multi ds).consistent then "1" else "0")
        | .error e => showOut (.err e) ++ " " ++ showState (.multi cs) ++ " inv=" ++ (if (State.multi cs).consistent then "1" else "0")
      | _ => "na"
    | _, _ => "bad"
  | "tree" :: g :: d :: ts =>
    -- tree <guard> <depth> <prefix ops> | <alphabet ops>
    let (pre, alph) := splitAt "|" ts
    match d.toNat?, pOps (pre.length + 1) pre, pOps (alph.length + 1) alph with
    | some depth, some pops, some aops =>
      let guard := g == "1"
      let s := run guard .empty pops
      " ".intercalate (treeDigests guard aops depth s "")
    | _, _, _ => "bad"
  | "run" :: g :: ts =>
    match pOps (ts.length + 1) ts with
    | some ops => " || ".intercalate (replay (g == "1") .empty ops)
    | none => "bad"
  | _ => "bad-op"

def main : IO Unit := serve answer
