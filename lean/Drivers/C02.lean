import FDAModel.Core.Proto
import FDAModel.Core.Quadrature
import FDAModel.Eigen
import FDAModel.FPCA
open FDA FDA.Proto FDA.Eigen FDA.FPCA

/-- Selector token: `int:<k>`, `frac:<p>`, `all`, `bad`. -/
def parseSel? (s : String) : Option Sel :=
  match s.splitOn ":" with
  | ["all"] => some .all
  | ["bad"] => some .bad
  | ["int", k] => (parseInt? k).map Sel.int
  | ["frac", p] => (parseRat? p).map Sel.frac
  | _ => none

def parseRaw? (vals cols : String) : Option (List Pair) :=
  match parseVec? vals, parseMat? cols with
  | some vs, some cs => if cs.length = vs.length then some (vs.zip cs) else none
  | _, _ => none

def isSorted (t : List ℚ) : Bool :=
  match t with
  | [] => true
  | [_] => true
  | a :: b :: r => decide (a < b) && isSorted (b :: r)

def answer (l : String) : String :=
  match tokens l with
  | ["covfit", t, x, sel, vals, cols] =>
    match parseVec? t, parseMat? x, parseSel? sel, parseRaw? vals cols with
    | some ts, some X, some sl, some raw =>
      let N := X.length
      let m := ts.length
      if N < 2 || m < 2 || !isSorted ts || X.any (·.length ≠ m) || raw.any (·.2.length ≠ m) then "error:shape" else
      let ta := ts.toArray
      let Xa := (X.map List.toArray).toArray
      let mean := tabA m (colMean N (rd2 Xa))
      let Xc := tabA2 N m fun i j => rd2 Xa i j - rd mean j          -- `center N X`
      let C := tabA2 m m (covMat N (rd2 Xc))
      let s := tabA m fun j => sqrtQ (trapzW m (rd ta) j)
      let A := tabA2 m m (symMat (rd s) (rd2 C))
      match computeEigenImpl raw sl with
      | .error e => "error:" ++ e
      | .ok out =>
        let K := out.length
        let lam := (values out).toArray
        let U := ((vectors out).map List.toArray).toArray
        let Phi := tabA2 K m (backTransform (rd s) (rd2 U))
        let Mer := toMat m m (mercer K (rd lam) (rd2 Phi))
        "ok " ++ showMat (toMat m m (rd2 C)) ++ " " ++ showMat (toMat m m (rd2 A)) ++ " " ++ showVec (values out) ++ " "
          ++ showMat (toMat K m (rd2 Phi)) ++ " " ++ showMat Mer
    | _, _, _, _ => "bad"
  | ["gramfit", t, x, sig, sel, vals, cols] =>
    match parseVec? t, parseMat? x, parseRat? sig, parseSel? sel, parseRaw? vals cols with
    | some ts, some X, some σ2, some sl, some raw =>
      let N := X.length
      let m := ts.length
      if N < 1 || m < 2 || !isSorted ts || X.any (·.length ≠ m) || raw.any (·.2.length ≠ N) then "error:shape" else
      let ta := ts.toArray
      let Xa := (X.map List.toArray).toArray
      let mean := tabA m (colMean N (rd2 Xa))
      let Xc := tabA2 N m fun i j => rd2 Xa i j - rd mean j          -- `fit`: center
      let mean2 := tabA m (colMean N (rd2 Xc))
      let Xcc := tabA2 N m fun i j => rd2 Xc i j - rd mean2 j        -- `inner_product`: center again
      -- the procedure of `gramImpl` on the tabulated centred curves
      let Uu := tabA2 N N fun a b =>
        (if a ≤ b then inner m (rd ta) (rd2 Xcc a) (rd2 Xcc b) else 0) - (if a = b then σ2 else 0)
      let G := toMat N N fun i k => if i = k then (rd2 Uu i k + rd2 Uu k i) / 2 else rd2 Uu i k + rd2 Uu k i
      match computeEigenImpl raw sl with
      | .error e => "error:" ++ e
      | .ok out =>
        let K := out.length
        let lv := (values out).toArray
        let V := ((vectors out).map List.toArray).toArray
        let r := tabA K fun k => sqrtQ (rd lv k)
        let rows := (List.range K).map fun k =>
          if rd lv k = 0 then "div0"
          else showVec (toList m (gramEigfun N (rd2 Xcc) (rd2 V) (rd r) k))
        let phi := if rows.isEmpty then "-" else ";".intercalate rows
        "ok " ++ showMat G ++ " " ++ showVec (toList K (gramEigval N (rd lv))) ++ " " ++ phi
    | _, _, _, _, _ => "bad"
  | ["sqrt", q] =>
    match parseRat? q with
    | some x => if x < 0 then "error:neg" else showRat (sqrtQ x)
    | none => "bad"
  | _ => "bad-op"

def main : IO Unit := serve answer
