import FDAModel.Core.Proto
import FDAModel.FCPTPA
import FDAModel.FCPTPAUpdate
open FDA FDA.Proto FDA.FCPTPA

/-- `n` = nan, `i` = +inf, otherwise a rational. -/
def parseRatio? (s : String) : Option Ratio :=
  if s = "n" then some Ratio.nan
  else if s = "i" then some Ratio.inf
  else (parseRat? s).map Ratio.fin

def parseRatios? (s : String) : Option (List (List Ratio)) :=
  (s.splitOn ";").mapM fun c => if c = "-" then some [] else (c.splitOn ",").mapM parseRatio?

def unflat (m₁ m₂ : ℕ) (rows : Array (Array ℚ)) : T3 :=
  tab3 rows.size m₁ m₂ fun i j k => rd2 rows i (j * m₂ + k)

/-- Σ|terms| bookkeeping for the float tolerance (not part of the model): magnitude of
the fully expanded residual `|X| + Σ_{c<k} |c_c|·|T_c|`. -/
def residAbs (n m₁ m₂ : ℕ) (X : T3) (T : ℕ → Comp) (c : ℕ → ℚ) : ℕ → T3
  | 0 => tab3 n m₁ m₂ fun i j k => |rd3 X i j k|
  | k + 1 =>
    let A := residAbs n m₁ m₂ X T c k
    tab3 n m₁ m₂ fun i j l => rd3 A i j l + |c k| * |outer3 (T k) i j l|

def answer (l : String) : String :=
  match tokens l with
  | ["ctl", mx, ad, tol, k, nzs, rs] =>
    match mx.toNat?, ad.toNat?, parseRat? tol, k.toNat?, parseNatVec? nzs, parseRatios? rs with
    | some max, some a, some tol, some K, some NZ, some R =>
      let nza := NZ.toArray
      let nz : ℕ → Bool := fun c => nza.getD c 1 != 0
      let Ra := (R.map List.toArray).toArray
      let ratios : ℕ → ℕ → Ratio := fun c j => (Ra.getD c #[]).getD j Ratio.missing
      match fitCtlRec nz ratios max (a != 0) K tol with
      | none => "diverged"
      | some (ns, t, _) => "ok " ++ showNatVec ns ++ " " ++ showRat t
    | _, _, _, _, _, _ => "bad"
  | ["fit", n, m1, m2, k, x, u, v, w, pos] =>
    match n.toNat?, m1.toNat?, m2.toNat?, k.toNat?, parseMat? x, parseMat? u, parseMat? v, parseMat? w,
          parseNatVec? pos with
    | some n, some m₁, some m₂, some K, some X, some U, some V, some W, some pos =>
      if X.length ≠ n ∨ U.length ≠ K ∨ V.length ≠ K ∨ W.length ≠ K then "error:shape" else
      let Xa := unflat m₁ m₂ (X.map List.toArray).toArray
      let Ua := (U.map List.toArray).toArray
      let Va := (V.map List.toArray).toArray
      let Wa := (W.map List.toArray).toArray
      let T : ℕ → Comp := fun c => ⟨rd2 Ua c, rd2 Va c, rd2 Wa c⟩
      let Rs := (List.range (K + 1)).map fun c => resid n m₁ m₂ Xa T c
      let Rarr := Rs.toArray
      let R : ℕ → T3 := fun c => Rarr.getD c #[]
      let cs := tabA K fun c => coef n m₁ m₂ (rd3 (R c)) (T c)
      let cabs := (List.range K).map fun c =>
        ip3 n m₁ m₂ (rd3 (residAbs n m₁ m₂ Xa T (rd cs) c)) (fun i j k => |outer3 (T c) i j k|)
      let ens := (List.range (K + 1)).map fun c => energy n m₁ m₂ (rd3 (R c))
      let taus := (List.range K).map fun c => tau n m₁ m₂ (T c)
      let S := tabA2 n K (scores (rd cs) T)
      let lam := (List.range K).map fun c => popVar n (fun i => rd2 S i c)
      let rec_ := pos.map fun p =>
        inverseTransform K (rd2 S) (eigenimage T) (p / (m₁ * m₂)) ((p / m₂) % m₁) (p % m₂)
      showVec (toList K (rd cs)) ++ " " ++ showVec cabs ++ " " ++ showVec ens ++ " " ++ showVec taus
        ++ " " ++ showMat (toMat n K (rd2 S)) ++ " " ++ showVec lam ++ " " ++ showVec rec_
    | _, _, _, _, _, _, _, _, _ => "bad"
  | ["norm", t1, t2, v, w] =>
    match parseVec? t1, parseVec? t2, parseMat? v, parseMat? w with
    | some a, some b, some V, some W =>
      let aa := a.toArray
      let ba := b.toArray
      let Va := (V.map List.toArray).toArray
      let Wa := (W.map List.toArray).toArray
      let T : ℕ → Comp := fun c => ⟨fun _ => 0, rd2 Va c, rd2 Wa c⟩
      showVec ((List.range V.length).map fun c =>
        normSq2 a.length b.length (rd aa) (rd ba) (eigenimage T c))
    | _, _, _, _ => "bad"
  | ["numint", m1, m2, dv, x, e] =>
    -- x: n rows (flattened images), e: K rows (flattened eigenimages)
    match m1.toNat?, m2.toNat?, parseRat? dv, parseMat? x, parseMat? e with
    | some m₁, some m₂, some d, some X, some E =>
      if d = 0 then "error:ZeroDivision" else
      let Xa := unflat m₁ m₂ (X.map List.toArray).toArray
      let Ea := unflat m₁ m₂ (E.map List.toArray).toArray
      showMat (toMat X.length E.length (transformNumInt m₁ m₂ d (rd3 Xa) (rd3 Ea)))
    | _, _, _, _, _ => "bad"
  | ["upd", mode, n, m1, m2, al, om, dd, x, va, vb, ou] =>
    -- one `_update_vector` call: residual of the coded normal equations (I+αΩ)(d·out) = b, b from the formula
    match mode.toNat?, n.toNat?, m1.toNat?, m2.toNat?, parseRat? al, parseMat? om, parseRat? dd, parseMat? x,
          parseVec? va, parseVec? vb, parseVec? ou with
    | some mode, some n, some m₁, some m₂, some α, some Om, some d, some X, some A, some B, some O =>
      let Xa := unflat m₁ m₂ (X.map List.toArray).toArray
      let oa := (Om.map List.toArray).toArray
      let aa := A.toArray
      let ba := B.toArray
      let out := O.toArray
      let m := O.length
      let b : ℕ → ℚ :=
        if mode = 0 then powerU m₁ m₂ (rd3 Xa) (rd aa) (rd ba)
        else if mode = 1 then powerV n m₂ (rd3 Xa) (rd aa) (rd ba)
        else powerW n m₁ (rd3 Xa) (rd aa) (rd ba)
      let bt := tabA m b
      let Xabs : ℕ → ℕ → ℕ → ℚ := fun i j k => |rd3 Xa i j k|
      let aab : ℕ → ℚ := fun i => |rd aa i|
      let bab : ℕ → ℚ := fun i => |rd ba i|
      let babs := tabA m (if mode = 0 then powerU m₁ m₂ Xabs aab bab
        else if mode = 1 then powerV n m₂ Xabs aab bab else powerW n m₁ Xabs aab bab)
      let res := (List.range m).map (updateResidual m α (rd2 oa) (rd bt) d (rd out))
      let sc := (List.range m).map fun i =>
        rd babs i + ∑ k ∈ Finset.range m, |smat α (rd2 oa) i k * (d * rd out k)|
      "U " ++ showVec res ++ " " ++ showVec sc
    | _, _, _, _, _, _, _, _, _, _, _ => "bad"
  | ["den", al, om, a] =>
    match parseRat? al, parseMat? om, parseVec? a with
    | some α, some Om, some A =>
      let oa := (Om.map List.toArray).toArray
      let aa := A.toArray
      "D " ++ showRat (computeDenominator A.length α (rd2 oa) (rd aa))
    | _, _, _ => "bad"
  | _ => "bad-op"

def main : IO Unit := serve answer
