import FDAModel.Core.Proto
import FDAModel.Core.Quadrature
import FDAModel.Geometry
open FDA FDA.Proto

/-- Σ|terms| of the trapezoid sum (scale for the float tolerance). -/
def trapzAbs (n : ℕ) (t y : ℕ → ℚ) : ℚ :=
  ((List.range (n - 1)).map fun j => |(t (j + 1) - t j) * (y (j + 1) + y j) / 2|).foldl (· + ·) 0

def absF (f : ℕ → ℚ) : ℕ → ℚ := fun j => |f j|

def answer (l : String) : String :=
  match tokens l with
  | ["w", t] =>
    match parseVec? t with
    | some ts =>
      let ta := ts.toArray
      if ts.length < 2 then "error" else showVec (toList ts.length (trapzW ts.length (rd ta)))
    | none => "bad"
  | ["trapz", t, y] =>
    match parseVec? t, parseVec? y with
    | some ts, some ys =>
      let ta := ts.toArray
      let ya := ys.toArray
      if ts.length ≠ ys.length then "error" else
      showRat (trapz ts.length (rd ta) (rd ya)) ++ " " ++ showRat (trapzAbs ts.length (rd ta) (rd ya))
    | _, _ => "bad"
  | ["int2", t1, t2, y] =>
    match parseVec? t1, parseVec? t2, parseMat? y with
    | some a, some b, some Y =>
      let Ya := (Y.map List.toArray).toArray
      let aa := a.toArray
      let ba := b.toArray
      let inner := tabA b.length fun k => trapz a.length (rd aa) (fun i => rd2 Ya i k)
      let innerA := tabA b.length fun k => trapzAbs a.length (rd aa) (fun i => rd2 Ya i k)
      showRat (trapz b.length (rd ba) (rd inner)) ++ " " ++ showRat (trapzAbs b.length (rd ba) (rd innerA))
    | _, _, _ => "bad"
  | ["int3", t1, t2, t3, y] =>
    -- Y given as n1 rows, each the row-major flattening of an n2 × n3 slab
    match parseVec? t1, parseVec? t2, parseVec? t3, parseMat? y with
    | some a, some b, some c, some Y =>
      let Ya := (Y.map List.toArray).toArray
      let Yf := rd2 Ya
      let n3 := c.length
      let aa := a.toArray
      let ba := b.toArray
      let ca := c.toArray
      let v := integrate3 a.length b.length c.length (rd aa) (rd ba) (rd ca)
                 (fun i j k => Yf i (j * n3 + k))
      let va := integrate3 a.length b.length c.length (rd aa) (rd ba) (rd ca)
                 (fun i j k => |Yf i (j * n3 + k)|)
      showRat v ++ " " ++ showRat va
    | _, _, _, _ => "bad"
  | ["normsq", t, x] =>
    match parseVec? t, parseMat? x with
    | some ts, some X =>
      let Xa := (X.map List.toArray).toArray
      let ta := ts.toArray
      showVec ((List.range X.length).map fun i => normSq ts.length (rd ta) (rd2 Xa i))
    | _, _ => "bad"
  | ["gram", t, x, s] =>
    match parseVec? t, parseMat? x, parseRat? s with
    | some ts, some X, some σ2 =>
      let N := X.length
      let n := ts.length
      let Xa := (X.map List.toArray).toArray
      let ta := ts.toArray
      let mean := tabA n (colMean N (rd2 Xa))
      let Xc := tabA2 N n fun i j => rd2 Xa i j - rd mean j   -- `center N X`, tabulated
      -- the procedure of `gramImpl` on the tabulated centred curves
      let U := tabA2 N N fun a b =>
        (if a ≤ b then inner n (rd ta) (rd2 Xc a) (rd2 Xc b) else 0) - (if a = b then σ2 else 0)
      showMat (toMat N N fun i k => if i = k then (rd2 U i k + rd2 U k i) / 2 else rd2 U i k + rd2 U k i)
    | _, _, _ => "bad"
  | ["gram2", t1, t2, x, s] =>
    -- 2-D data: X has N rows, each the row-major flattening of an n1 × n2 image
    match parseVec? t1, parseVec? t2, parseMat? x, parseRat? s with
    | some a, some b, some X, some σ2 =>
      let N := X.length
      let n1 := a.length
      let n2 := b.length
      let Xa := (X.map List.toArray).toArray
      let aa := a.toArray
      let ba := b.toArray
      let mean := tabA (n1 * n2) (colMean N (rd2 Xa))
      let Xc := tabA2 N (n1 * n2) fun i j => rd2 Xa i j - rd mean j
      let G := tabA2 N N fun i k =>
        (if i ≤ k then inner2 n1 n2 (rd aa) (rd ba) (fun p q => rd2 Xc i (p * n2 + q)) (fun p q => rd2 Xc k (p * n2 + q)) else 0)
          - (if i = k then σ2 else 0)
      showMat (toMat N N fun i k => if i = k then (rd2 G i k + rd2 G k i) / 2 else rd2 G i k + rd2 G k i)
    | _, _, _, _ => "bad"
  | ["simpsonw", t] =>
    match parseVec? t with
    | some ts =>
      let ta := ts.toArray
      if ts.length < 3 then "error" else showVec (toList ts.length (simpsonW ts.length (rd ta)))
    | none => "bad"
  | ["normsq_stand", t, x] =>
    match parseVec? t, parseMat? x with
    | some ts, some X =>
      let Xa := (X.map List.toArray).toArray
      let ta := ts.toArray
      let n := ts.length
      if rd ta (n - 1) = rd ta 0 then "error:zero-range" else
      let sa := tabA n (standGrid n (rd ta))
      showVec ((List.range X.length).map fun i => normSq n (rd sa) (rd2 Xa i))
    | _, _ => "bad"
  | ["ip2d", t1, t2, x] =>
    -- N x N matrix of the 2-D inner products `inner2` between the rows of X (each row an n1 x n2 surface, row-major)
    match parseVec? t1, parseVec? t2, parseMat? x with
    | some a, some b, some X =>
      let n1 := a.length
      let n2 := b.length
      let N := X.length
      let aa := a.toArray
      let ba := b.toArray
      let Xa := (X.map List.toArray).toArray
      showMat (toMat N N fun i k =>
        inner2 n1 n2 (rd aa) (rd ba) (fun p q => rd2 Xa i (p * n2 + q)) (fun p q => rd2 Xa k (p * n2 + q)))
    | _, _, _ => "bad"
  | ["coefgram", t, phi, c] =>
    match parseVec? t, parseMat? phi, parseMat? c with
    | some ts, some Φ, some C =>
      let Φa := (Φ.map List.toArray).toArray
      let Ca := (C.map List.toArray).toArray
      let ta := ts.toArray
      let K := Φ.length
      let N := C.length
      let G := tabA2 K K (basisGram ts.length (rd ta) (rd2 Φa))
      -- `coefGram` with the basis Gram matrix tabulated
      showMat (toMat N N fun i j =>
        ((List.range K).map fun k => ((List.range K).map fun l => rd2 Ca i k * rd2 G k l * rd2 Ca j l).foldl (· + ·) 0).foldl (· + ·) 0)
    | _, _, _ => "bad"
  | _ => "bad-op"

def main : IO Unit := serve answer
