import FDAModel.Core.Proto
import FDAModel.Repr
import FDAModel.Tabular
open FDA FDA.Proto FDA.Tab

/-! Line-protocol evaluator of the C14 model (exact rationals).
Matrices: `Phi` = K rows of (flat) grid values, `C` = N rows of K coefficients. -/

def arr2 (M : List (List ℚ)) : Array (Array ℚ) := (M.map List.toArray).toArray

def showRows (rows : List (List Nat)) : String :=
  if rows.isEmpty then "-" else ";".intercalate (rows.map showNatVec)

def parseHeader (s : String) : Header :=
  if s = "x" then .other else match s.toInt? with
    | some z => .int z
    | none => .other

/-- cells: rows separated by `;`, cells by `,`, missing cell = `n`. -/
def parseCells (s : String) : Option (List (List (Option ℚ))) :=
  if s = "-" then some [] else
  (s.splitOn ";").mapM fun row =>
    (row.splitOn ",").mapM fun c => if c = "n" then some none else (parseRat? c).map some

def showPairs (l : List (Int × ℚ)) : String :=
  if l.isEmpty then "-" else ",".intercalate (l.map fun (x, y) => toString x ++ ":" ++ showRat y)

def answer (l : String) : String :=
  match tokens l with
  | ["togrid", phi, c] =>
    match parseMat? phi, parseMat? c with
    | some P, some C =>
      let K := P.length
      let m := (P.headD []).length
      let Pa := arr2 P
      let Ca := arr2 C
      showMat (toMat C.length m (toGrid K (rd2 Ca) (rd2 Pa)))
    | _, _ => "bad"
  | ["meanb", phi, c] =>
    match parseMat? phi, parseMat? c with
    | some P, some C =>
      let K := P.length
      let m := (P.headD []).length
      let Pa := arr2 P
      let Ca := arr2 C
      let mc := tabA K (colMean C.length (rd2 Ca))
      showMat (toMat 1 m (toGrid K (fun i k => meanCoef C.length (fun _ k' => rd mc k') i k) (rd2 Pa)))
    | _, _ => "bad"
  | ["centerb", phi, c] =>
    match parseMat? phi, parseMat? c with
    | some P, some C =>
      let K := P.length
      let m := (P.headD []).length
      let N := C.length
      let Pa := arr2 P
      let Ca := arr2 C
      let cc := tabA2 N K (center N (rd2 Ca))
      showMat (toMat N m (toGrid K (rd2 cc) (rd2 Pa)))
    | _, _ => "bad"
  | ["gramb", t, phi] =>
    match parseVec? t, parseMat? phi with
    | some ts, some P =>
      let K := P.length
      let ta := ts.toArray
      let Pa := arr2 P
      showMat (toMat K K (basisGramImpl ts.length (rd ta) (rd2 Pa)))
    | _, _ => "bad"
  | ["innerb", t, phi, c, cen] =>
    -- `cen = 0`: C G Cᵀ as coded; `cen = 1`: on the centred coefficients
    match parseVec? t, parseMat? phi, parseMat? c with
    | some ts, some P, some C =>
      let K := P.length
      let N := C.length
      let ta := ts.toArray
      let Pa := arr2 P
      let Ca := arr2 C
      let G := tabA2 K K (basisGramImpl ts.length (rd ta) (rd2 Pa))
      let cc := if cen = "1" then tabA2 N K (center N (rd2 Ca)) else Ca
      showMat (toMat N N (innerBasis K (rd2 G) (rd2 cc)))
    | _, _, _ => "bad"
  | ["innerb2", t1, t2, phi, c, cen] =>
    -- 2-D: Gram matrix of the basis (as coded), then C G Cᵀ (cen = 1: centred coefficients)
    match parseVec? t1, parseVec? t2, parseMat? phi, parseMat? c with
    | some a, some b, some P, some C =>
      let K := P.length
      let N := C.length
      let aa := a.toArray
      let ba := b.toArray
      let Pa := arr2 P
      let Ca := arr2 C
      let G := tabA2 K K (basisGramImpl2 a.length b.length (rd aa) (rd ba) (rd2 Pa))
      let cc := if cen = "1" then tabA2 N K (center N (rd2 Ca)) else Ca
      showMat (toMat K K (rd2 G)) ++ " " ++ showMat (toMat N N (innerBasis K (rd2 G) (rd2 cc)))
    | _, _, _, _ => "bad"
  | ["gramd2", t1, t2, phi, c] =>
    -- dense 2-D: squared norms of the evaluated surfaces and their centred Gram matrix
    match parseVec? t1, parseVec? t2, parseMat? phi, parseMat? c with
    | some a, some b, some P, some C =>
      let K := P.length
      let N := C.length
      let m₁ := a.length
      let m₂ := b.length
      let aa := a.toArray
      let ba := b.toArray
      let Pa := arr2 P
      let Ca := arr2 C
      let X := tabA2 N (m₁ * m₂) (toGrid K (rd2 Ca) (rd2 Pa))
      let Xc := tabA2 N (m₁ * m₂) (center N (rd2 X))
      showVec (toList N fun i => inner2 m₁ m₂ (rd aa) (rd ba) (fun p q => rd2 X i (p * m₂ + q)) (fun p q => rd2 X i (p * m₂ + q)))
        ++ " " ++ showMat (toMat N N fun i k =>
          inner2 m₁ m₂ (rd aa) (rd ba) (fun p q => rd2 Xc i (p * m₂ + q)) (fun p q => rd2 Xc k (p * m₂ + q)))
    | _, _, _, _ => "bad"
  | ["gramd", t, phi, c] =>
    -- dense Gram matrix (centred, noise variance 0) of the evaluated curves
    match parseVec? t, parseMat? phi, parseMat? c with
    | some ts, some P, some C =>
      let K := P.length
      let N := C.length
      let m := ts.length
      let ta := ts.toArray
      let Pa := arr2 P
      let Ca := arr2 C
      let X := tabA2 N m (toGrid K (rd2 Ca) (rd2 Pa))
      let Xc := tabA2 N m (center N (rd2 X))
      showMat (toMat N N fun i k => inner m (rd ta) (rd2 Xc i) (rd2 Xc k))
    | _, _, _ => "bad"
  | ["normd", t, phi, c] =>
    match parseVec? t, parseMat? phi, parseMat? c with
    | some ts, some P, some C =>
      let K := P.length
      let N := C.length
      let m := ts.length
      let ta := ts.toArray
      let Pa := arr2 P
      let Ca := arr2 C
      let X := tabA2 N m (toGrid K (rd2 Ca) (rd2 Pa))
      showVec (toList N fun i => normSq m (rd ta) (rd2 X i))
    | _, _, _ => "bad"
  | ["covb", phi, c] =>
    match parseMat? phi, parseMat? c with
    | some P, some C =>
      let K := P.length
      let m := (P.headD []).length
      let N := C.length
      if N = 0 then "error:ZeroDivision" else
      let Pa := arr2 P
      let Ca := arr2 C
      let S := tabA2 K K (covCoef N (rd2 Ca))
      showMat (toMat m m (contractCov K m (rd2 S) (rd2 Pa)))
    | _, _ => "bad"
  | ["covd", phi, c] =>
    match parseMat? phi, parseMat? c with
    | some P, some C =>
      let K := P.length
      let m := (P.headD []).length
      let N := C.length
      if N < 2 then "error:ZeroDivision" else
      let Pa := arr2 P
      let Ca := arr2 C
      let X := tabA2 N m (toGrid K (rd2 Ca) (rd2 Pa))
      showMat (toMat m m (covDense N (rd2 X)))
    | _, _ => "bad"
  | ["weights", t, phi, c] =>
    -- rescale weight: coefficient route, then grid route, then np.var of the evaluated curves
    match parseVec? t, parseMat? phi, parseMat? c with
    | some ts, some P, some C =>
      let K := P.length
      let m := ts.length
      let N := C.length
      if N = 0 then "error:ZeroDivision" else
      let ta := ts.toArray
      let Pa := arr2 P
      let Ca := arr2 C
      let X := tabA2 N m (toGrid K (rd2 Ca) (rd2 Pa))
      showRat (rescaleWeightBasis N K m (rd ta) (rd2 Ca) (rd2 Pa)) ++ " " ++
        showRat (rescaleWeightDense N m (rd ta) (rd2 X)) ++ " " ++ showVec (toList m (popVar N (rd2 X)))
    | _, _, _ => "bad"
  | ["kron", a, b] =>
    match parseMat? a, parseMat? b with
    | some A, some B =>
      let n₁ := A.length
      let m₁ := (A.headD []).length
      let n₂ := B.length
      let m₂ := (B.headD []).length
      let Aa := arr2 A
      let Ba := arr2 B
      showMat (toMat (n₁ * n₂) (m₁ * m₂) (kron n₂ m₂ (rd2 Aa) (rd2 Ba)))
    | _, _ => "bad"
  | ["cov2", m1, m2, phi, c, which] =>
    -- 2-D covariance().to_grid() flattened over [a, a', b, b'] (which = new | old | spec)
    match m1.toNat?, m2.toNat?, parseMat? phi, parseMat? c with
    | some m₁, some m₂, some P, some C =>
      let K := P.length
      let N := C.length
      if N = 0 then "error:ZeroDivision" else
      if which = "old" ∧ m₁ ≠ m₂ then "error:ValueError" else
      let Pa := arr2 P
      let Ca := arr2 C
      let Φ : ℕ → ℕ → ℕ → ℚ := fun k a b => rd2 Pa k (a * m₂ + b)
      let X := tabA2 N (m₁ * m₂) (toGrid K (rd2 Ca) (rd2 Pa))
      let S := tabA2 K K (covCoef N (rd2 Ca))
      let f : ℕ → ℚ := fun q =>
        let b' := q % m₂
        let b := (q / m₂) % m₂
        let a' := (q / (m₂ * m₂)) % m₁
        let a := q / (m₂ * m₂) / m₁
        if which = "spec" then
          covGrid2Spec N m₂ (rd2 X) a a' b b'
        else if which = "old" then
          ∑ r ∈ Finset.range (K * K), rd2 S (r / K) (r % K) * covBasis2Old K m₁ m₂ Φ r a a' b b'
        else contractCov2 K m₁ m₂ (rd2 S) Φ a a' b b'
      showVec (toList (m₁ * m₁ * m₂ * m₂) f)
    | _, _, _, _ => "bad"
  | ["weight2", t1, t2, phi, c] =>
    match parseVec? t1, parseVec? t2, parseMat? phi, parseMat? c with
    | some a, some b, some P, some C =>
      let K := P.length
      let N := C.length
      let m₁ := a.length
      let m₂ := b.length
      if N = 0 then "error:ZeroDivision" else
      let aa := a.toArray
      let ba := b.toArray
      let Pa := arr2 P
      let Ca := arr2 C
      let Φ : ℕ → ℕ → ℕ → ℚ := fun k a b => rd2 Pa k (a * m₂ + b)
      let S := tabA2 K K (covCoef N (rd2 Ca))
      showRat (rescaleWeight2 m₁ m₂ (rd aa) (rd ba) (contractCov2 K m₁ m₂ (rd2 S) Φ))
    | _, _, _, _ => "bad"
  | ["tolong", n, shape] =>
    match n.toNat?, parseNatVec? shape with
    | some n, some sh =>
      showRows ((toLongDense n sh).map fun (i, pt, r) => i :: r :: pt)
    | _, _ => "bad"
  | ["tolongirr", shapes, masks] =>
    -- per observation: shape `a,b` (`;`-separated), mask row of 0/1 over the flattened cells
    match (shapes.splitOn ";").mapM parseNatVec?, (masks.splitOn ";").mapM parseNatVec? with
    | some shs, some mks =>
      let obs : List (Nat × Obs) := (List.range shs.length).map fun i =>
        (i, ⟨shs.getD i [], (mks.getD i []).zipIdx.map fun (b, p) => if b = 1 then some (p : ℚ) else none⟩)
      -- value = flat position of the cell (as a rational), so rows identify cells
      showRows ((toLongIrr obs).map fun (i, pt, y) => i :: y.num.toNat :: pt)
    | _, _ => "bad"
  | ["csv", hs, cells] =>
    match parseCells cells with
    | some cs =>
      let hd := (hs.splitOn ",").map parseHeader
      match readCsv hd cs with
      | .dense a v => "dense " ++ showIntVec a ++ " " ++ showMat v
      | .irregular rows => "irregular " ++ " ".intercalate (rows.map showPairs)
    | none => "bad"
  | _ => "bad-op"

def main : IO Unit := serve answer
