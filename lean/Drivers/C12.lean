import FDAModel.Core.Proto
import FDAModel.Arith
open FDA FDA.Proto FDA.Dict FDA.Select FDA.Arith

/-!
Driver of C12: evaluates `FDA.Arith.binop / binopImpl / scalarop / rscalarop / eq / contains /
removeFirst` on exact rationals.

Request (one line, a token stream):
  bin <0|1> <op> data data        0: irregular operands zipped in order (as coded); 1: paired by label
  sc  <op> <kind> <rat> data      `data op scalar`
  rsc <op> <kind> <rat> data      `scalar op data`
  eq  data data
  in  <n> data^n data
  rem <n> data^n data
  op   := add | sub | mul | div | floordiv
  kind := int | float | bool | npfloat64 | npint64 | npfloat32 | str | array | other
  data := D <ndim> vec^ndim <nobs> vec^nobs              (rows row-major flattened)
        | I <n> (<label> <ndim> vec^ndim vec)^n           (in the order of the values dictionary)
Answer: `ok data'` (entries `num/den` or `nf` = not finite) | `error:<Class>` | `true` | `false`
      | `ok <n> data^n` (rem) | `illformed` (an array that has not the shape of its grid; never sent).
-/

abbrev P (α : Type) := List String → Option (α × List String)

def pNat : P Nat
  | t :: ts => t.toNat?.map (·, ts)
  | [] => none

def pInt : P Int
  | t :: ts => t.toInt?.map (·, ts)
  | [] => none

def pVec : P (List Rat)
  | t :: ts => (parseVec? t).map (·, ts)
  | [] => none

def pRat : P Rat
  | t :: ts => (parseRat? t).map (·, ts)
  | [] => none

def pMany {α : Type} (p : P α) : Nat → P (List α)
  | 0, ts => some ([], ts)
  | n + 1, ts =>
    match p ts with
    | none => none
    | some (a, ts) =>
      match pMany p n ts with
      | none => none
      | some (as, ts) => some (a :: as, ts)

def pCounted {α : Type} (p : P α) : P (List α) := fun ts =>
  match pNat ts with
  | none => none
  | some (n, ts) => pMany p n ts

def pObs : P (Int × (Grid × List Rat)) := fun ts =>
  match pInt ts with
  | none => none
  | some (l, ts) =>
    match pCounted pVec ts with
    | none => none
    | some (g, ts) => (pVec ts).map fun (v, ts) => ((l, (g, v)), ts)

def pData : P (Data Rat)
  | "D" :: ts =>
    match pCounted pVec ts with
    | none => none
    | some (g, ts) => (pCounted pVec ts).map fun (rows, ts) => (.dense g rows, ts)
  | "I" :: ts => (pCounted pObs ts).map fun (obs, ts) => (.irreg obs, ts)
  | _ => none

def pOp : String → Option Op
  | "add" => some .add
  | "sub" => some .sub
  | "mul" => some .mul
  | "div" => some .div
  | "floordiv" => some .floordiv
  | _ => none

def pKind : String → Option SKind
  | "int" => some .pyInt
  | "float" => some .pyFloat
  | "bool" => some .pyBool
  | "npfloat64" => some .npFloat64
  | "npint64" => some .npInt64
  | "npfloat32" => some .npFloat32
  | "str" => some .str
  | "array" => some .array
  | "other" => some .other
  | "list" => some .pyList
  | "tuple" => some .pyTuple
  | "fraction" => some .fraction
  | "decimal" => some .decimal
  | "complex" => some .complex
  | "none" => some .none
  | "dict" => some .dict
  | "npbool" => some .npBool
  | "array0d" => some .array0d
  | "npint32" => some .npInt32
  | "npfloat16" => some .npFloat16
  | _ => none

/-! printing -/

def showVal : Val → String
  | some q => showRat q
  | none => "nf"

def showVals (v : List Val) : String := if v.isEmpty then "-" else ",".intercalate (v.map showVal)

def showGridT (g : Grid) : List String := toString g.length :: g.map showVec

def showData : Data Val → String
  | .dense g rows => " ".intercalate ("D" :: showGridT g ++ toString rows.length :: rows.map showVals)
  | .irreg obs =>
    " ".intercalate ("I" :: toString obs.length ::
      (obs.map fun p => " ".intercalate (toString p.1 :: showGridT p.2.1 ++ [showVals p.2.2])))

def showErr : Err → String
  | .typeError => "error:TypeError"
  | .valueError => "error:ValueError"
  | .indexError => "error:IndexError"
  | .keyError => "error:KeyError"
  | _ => "error:Other"

def showRes : Except Err (Data Val) → String
  | .ok d => "ok " ++ showData d
  | .error e => showErr e

def wf (a : Data Rat) : Bool := decide a.WF

def answer (l : String) : String :=
  match tokens l with
  | "bin" :: flag :: op :: ts =>
    match pOp op, pData ts with
    | some o, some (a, ts) =>
      match pData ts with
      | some (b, []) =>
        if !(wf a && wf b) then "illformed"
        else showRes (if flag == "1" then binop o a b else binopImpl o a b)
      | _ => "bad"
    | _, _ => "bad"
  | "sc" :: op :: kind :: c :: ts =>
    match pOp op, pKind kind, parseRat? c, pData ts with
    | some o, some k, some c, some (a, []) => if !wf a then "illformed" else showRes (scalarop o a k c)
    | _, _, _, _ => "bad"
  | "rsc" :: op :: kind :: c :: ts =>
    match pOp op, pKind kind, parseRat? c, pData ts with
    | some o, some k, some c, some (a, []) => if !wf a then "illformed" else showRes (rscalarop o a k c)
    | _, _, _, _ => "bad"
  | "eq" :: ts =>
    match pData ts with
    | some (a, ts) =>
      match pData ts with
      | some (b, []) => if !(wf a && wf b) then "illformed" else toString (eq a b)
      | _ => "bad"
    | none => "bad"
  | "in" :: ts =>
    match pCounted pData ts with
    | some (cs, ts) =>
      match pData ts with
      | some (x, []) => if !(cs.all wf && wf x) then "illformed" else toString (contains cs x)
      | _ => "bad"
    | none => "bad"
  | "cnt" :: ts =>
    match pCounted pData ts with
    | some (cs, ts) =>
      match pData ts with
      | some (x, []) => if !(cs.all wf && wf x) then "illformed" else toString (countEq cs x)
      | _ => "bad"
    | none => "bad"
  | "idx" :: ts =>
    match pCounted pData ts with
    | some (cs, ts) =>
      match pData ts with
      | some (x, []) => if !(cs.all wf && wf x) then "illformed" else
        match indexOf cs x with
        | some k => toString k
        | none => showErr .valueError
      | _ => "bad"
    | none => "bad"
  | "rem" :: ts =>
    match pCounted pData ts with
    | some (cs, ts) =>
      match pData ts with
      | some (x, []) =>
        if !(cs.all wf && wf x) then "illformed" else
        match removeFirst cs x with
        | .ok r => " ".intercalate ("ok" :: toString r.length :: r.map fun d => showData (mapData some d))
        | .error e => showErr e
      | _ => "bad"
    | none => "bad"
  | ["xclose", v, w] =>
    -- closeness of two flattened arrays with non-finite entries (tokens `nan`, `inf`, `-inf`, rationals)
    let px (t : String) : Option XVal :=
      if t == "nan" then some .nan else if t == "inf" then some .pinf else if t == "-inf" then some .ninf
      else (parseRat? t).map .fin
    let pv (s : String) : Option (List XVal) := if s == "-" then some [] else (s.splitOn ",").mapM px
    match pv v, pv w with
    | some a, some b => toString (closeListX a b)
    | _, _ => "bad"
  | "mvadd" :: ts =>
    -- mvadd n c₁…cₙ m d₁…dₘ : `mfd + other` (list concatenation through the constructor)
    match pCounted pData ts with
    | some (cs, ts) =>
      match pCounted pData ts with
      | some (ds, []) =>
        match mvAdd cs ds with
        | .ok r => "ok " ++ toString r.length
        | .error e => showErr e
      | _ => "bad"
    | none => "bad"
  | "mvmul" :: k :: ts =>
    match k.toInt?, pCounted pData ts with
    | some k, some (cs, []) =>
      match mvMul cs k with
      | .ok r => "ok " ++ toString r.length
      | .error e => showErr e
    | _, _ => "bad"
  | "mveq" :: ts =>
    match pCounted pData ts with
    | some (cs, ts) =>
      match pCounted pData ts with
      | some (ds, []) => if !(cs.all wf && ds.all wf) then "illformed" else toString (mvEq cs ds)
      | _ => "bad"
    | none => "bad"
  | "xeq" :: ts =>
    -- exact equality (the equivalence inside `==`)
    match pData ts with
    | some (a, ts) =>
      match pData ts with
      | some (b, []) => if !(wf a && wf b) then "illformed" else toString (exactEq a b) ++ " " ++ toString (eq a b)
      | _ => "bad"
    | none => "bad"
  | _ => "bad-op"

def main : IO Unit := serve answer
