import FDAModel.LocalPolyIO
open FDA FDA.Proto

/-! Driver of C06: every request is answered by `FDA.LP.IO.answerTokens`, which evaluates the
model's own `ckernel`, `lpPredict1`, `lpPredict2`, `lpEstimate1W`, `lpEstimate2W`
(FDAModel/LocalPoly.lean) in exact arithmetic. -/

def answer (l : String) : String := FDA.LP.IO.answerTokens (tokens l)

def main : IO Unit := serve answer
