import FDAModel.Core.Proto
import FDAModel.Core.Quadrature
import FDAModel.Bases
open FDA FDA.Proto FDA.BSpline FDA.Bases

/-! Driver of C18: evaluates `FDA.BSpline.basisWith` (on tabulated copies of the model's
`knots` and `dMat`; `C18.driver_refinement`), `FDA.Bases.legendreBasis`, `simulate`,
`normalizedSqQ`, `basis2` in exact rational arithmetic; Fourier / Wiener functions with
`Float` (partial clause). -/

def showFloat (x : Float) : String :=
  if x.isNaN then "nan" else if x.isInf then "inf" else
  let me := x.frExp
  let k := (Float.scaleB me.1.abs 53).toUInt64
  (if x < 0 then "-" else "") ++ toString k ++ "p" ++ toString (me.2 - 53)

def ratToFloat (q : Rat) : Float := Float.ofInt q.num / Float.ofNat q.den

def piF : Float := 4 * Float.atan 1.0

/-- `_basis_fourier`, evaluated with `Float` in the order of operations of the code. -/
def fourierF (ts : List Rat) (n : Nat) : List (List Float) :=
  let t := ts.map ratToFloat
  let tmin := t.foldl min (t.headD 0)
  let tmax := t.foldl max (t.headD 0)
  let ptp := tmax - tmin
  let norm := Float.sqrt (2 / ptp)
  let xx := t.map fun v => (2 * piF * (v - tmin) / ptp) - piF
  (List.range n).map fun k =>
    if k = 0 then t.map fun _ => 1 / Float.sqrt ptp
    else if k % 2 = 1 then xx.map fun v => norm * Float.cos (Float.ofNat ((k + 1) / 2) * v)
    else xx.map fun v => norm * Float.sin (Float.ofNat ((k + 1) / 2) * v)

/-- `_basis_wiener`. -/
def wienerF (ts : List Rat) (n : Nat) : List (List Float) :=
  let t := ts.map ratToFloat
  (List.range n).map fun k =>
    t.map fun v => Float.sqrt 2 * Float.sin ((Float.ofNat (k + 1) - 0.5) * piF * v)

def showFMat (m : List (List Float)) : String :=
  if m.isEmpty then "-" else ";".intercalate (m.map fun r => ",".intercalate (r.map showFloat))

/-- values (n rows) and, per evaluation point, the largest Σ|terms| over the functions. -/
def bsplineTable (dmin dmax : ℚ) (nfun p : ℕ) (xs : List ℚ) : List (List ℚ) × List ℚ :=
  let K := nKnots nfun p
  let kn := tabA K (knots dmin dmax nfun p)
  let D := tabA2 nfun K (dMat dmin dmax nfun p)
  let vals := (List.range nfun).map fun j => xs.map fun x => basisWith K p (rd kn) (rd2 D) x j
  let sc := xs.map fun x =>
    ((List.range nfun).map fun j => basisScaleWith K p (rd kn) (rd2 D) x j).foldl max 0
  (vals, sc)

def dropIf (add : Bool) (m : List (List ℚ)) : List (List ℚ) := if add then m else m.drop 1

def answer (l : String) : String :=
  match tokens l with
  | ["bs", dmin, dmax, nfun, p, xs] =>
    match parseRat? dmin, parseRat? dmax, nfun.toNat?, p.toNat?, parseVec? xs with
    | some a, some b, some n, some p, some xs =>
      if !validCfg a b n p then "error:degenerate" else
      let r := bsplineTable a b n p xs
      showMat r.1 ++ " " ++ showVec r.2
    | _, _, _, _, _ => "bad"
  | ["simbs", dmin, dmax, nfun, p, add, xs] =>
    -- `_simulate_basis("bsplines", …, add_intercept)`: `simulate (bsplineFamily …) n add`
    match parseRat? dmin, parseRat? dmax, nfun.toNat?, p.toNat?, parseVec? xs with
    | some a, some b, some n, some p, some xs =>
      let addB := add = "1"
      let n' := if addB then n else n + 1
      if !validCfg a b n' p then "error:degenerate" else
      let r := bsplineTable a b n' p xs
      showMat (dropIf addB r.1) ++ " " ++ showVec r.2
    | _, _, _, _, _ => "bad"
  | ["leg", n, add, xs] =>
    match n.toNat?, parseVec? xs with
    | some n, some xs =>
      let addB := add = "1"
      let xa := xs.toArray
      showMat (toMat n xs.length (simulate (legendreFamily (rd xa)) n addB))
    | _, _ => "bad"
  | ["nsq", q, v] =>
    match parseVec? q, parseMat? v with
    | some q, some V =>
      if q.any (· == 0) then "error:zero-norm" else
      let qa := q.toArray
      let Va := (V.map List.toArray).toArray
      showMat (toMat V.length (V.headD []).length (normalizedSqQ (rd qa) (rd2 Va)))
    | _, _ => "bad"
  | ["b2", v1, v2] =>
    -- kron(V1, V2).reshape(K1*K2, m1, m2): printed as K1*K2 rows of the flattened m1*m2 images
    match parseMat? v1, parseMat? v2 with
    | some V1, some V2 =>
      let K1 := V1.length
      let K2 := V2.length
      let m1 := (V1.headD []).length
      let m2 := (V2.headD []).length
      let A := (V1.map List.toArray).toArray
      let B := (V2.map List.toArray).toArray
      showMat ((List.range (K1 * K2)).map fun f =>
        (List.range (m1 * m2)).map fun c => basis2 K2 m2 (rd2 A) (rd2 B) f (c / m2) (c % m2))
    | _, _ => "bad"
  | ["b3", v1, v2, v3] =>
    -- kron(kron(V1, V2), V3).reshape(K1*K2*K3, m1, m2, m3): rows of flattened m1*m2*m3 images
    match parseMat? v1, parseMat? v2, parseMat? v3 with
    | some V1, some V2, some V3 =>
      let K1 := V1.length
      let K2 := V2.length
      let K3 := V3.length
      let m1 := (V1.headD []).length
      let m2 := (V2.headD []).length
      let m3 := (V3.headD []).length
      let A := (V1.map List.toArray).toArray
      let B := (V2.map List.toArray).toArray
      let C := (V3.map List.toArray).toArray
      showMat ((List.range (K1 * K2 * K3)).map fun f =>
        (List.range (m1 * m2 * m3)).map fun t =>
          basis3 K2 m2 K3 m3 (rd2 A) (rd2 B) (rd2 C) f (t / (m2 * m3)) (t / m3 % m2) (t % m3))
    | _, _, _ => "bad"
  | ["fou", n, xs] =>
    match n.toNat?, parseVec? xs with
    | some n, some xs => showFMat (fourierF xs n)
    | _, _ => "bad"
  | ["wie", n, xs] =>
    match n.toNat?, parseVec? xs with
    | some n, some xs => showFMat (wienerF xs n)
    | _, _ => "bad"
  | _ => "bad-op"

def main : IO Unit := serve answer
