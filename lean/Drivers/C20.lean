import FDAModel.Core.Proto
import FDAModel.Simulation
/-!
Driver of C20 (import-free model, starts in well under a second).

request : `c20 <repl 0|1> <data> <op> <op> …`
  data  : `none` | `U~<comp>` | `M~<comp>|<comp>…`      comp = `<grid>@<vals>` (matrices)
  op    : `N~r~fail~Z`            add_noise, `r = sqrt(noise_variance)`, Z = `<mat>|<mat>…`
          `S~p~e~fail~SS`         sparsify, SS = comps `|`, curves `;`, curve = `u:m1,m2,…:a:b`
          `C~r~p~e~fail~Z~SS`     add_noise_and_sparsify
          `K~r~p~e~fail~Z~SS`     the same as coded before the repair (no `finally`)
  fail  : `-` (no fault) | `k` (k-th fault point raises) | `all` (no fault, then every k in turn);
          the ops that FOLLOW an `all` op are its tail: after the fault-free run and after every fault
          run they are executed without fault from the state that run left behind (`^`-joined to the run)
answer : one segment per op (space separated).  A run is `status!ticks!trace!data#noisy#sparse`;
         for `all` the runs are joined with `%` (first the run without fault; the fault runs print
         only the label of the failing call in the trace field).
-/
open FDA.Proto FDA.Sim

def splitOn1 (s : String) (sep : String) : List String := s.splitOn sep

def parseComp? (s : String) : Option Comp :=
  match s.splitOn "@" with
  | [g, v] => do
    let g ← parseMat? g
    let v ← parseMat? v
    pure ⟨g, v⟩
  | _ => none

def parseData? (s : String) : Option (Option (Data Comp)) :=
  if s = "none" then some none else
  match s.splitOn "~" with
  | ["U", c] => do let c ← parseComp? c; pure (some (.uni c))
  | ["M", cs] => do let cs ← (cs.splitOn "|").mapM parseComp?; pure (some (.multi cs))
  | _ => none

def parseCurve? (s : String) : Option CurveScript :=
  match s.splitOn ":" with
  | [u, m, a, b] => do
    let u ← parseRat? u
    let m ← parseVec? m
    let a ← a.toNat?
    let b ← b.toNat?
    pure ⟨u, m, (a, b)⟩
  | _ => none

def parseZ? (s : String) : Option (List (List (List Rat))) :=
  if s = "-" then some [] else (s.splitOn "|").mapM parseMat?

def parseSS? (s : String) : Option (List (List CurveScript)) :=
  if s = "-" then some [] else
  (s.splitOn "|").mapM fun c => if c = "-" then some [] else (c.splitOn ";").mapM parseCurve?

inductive Fail | none | at (k : Nat) | all

def parseFail? (s : String) : Option Fail :=
  if s = "-" then some .none else if s = "all" then some .all else s.toNat?.map .at

def showErr : Err → String
  | .noData => "error:ValueError:noData"
  | .dim => "error:ValueError:dim"
  | .population => "error:ValueError:population"
  | .script => "error:script"
  | .injected => "error:Injected"

def showOptRat : Option Rat → String
  | some q => showRat q
  | none => "nan"

def showComp (c : Comp) : String := showMat c.grid ++ "@" ++ showMat c.vals

def showSComp (c : SComp) : String :=
  showMat c.grid ++ "@" ++
    (if c.vals.isEmpty then "-" else ";".intercalate (c.vals.map fun r =>
      if r.isEmpty then "-" else ",".intercalate (r.map showOptRat)))

def showData (f : C → String) : Option (Data C) → String
  | none => "none"
  | some (.uni c) => "U~" ++ f c
  | some (.multi cs) => "M~" ++ "|".intercalate (cs.map f)

def showSim (s : Sim) : String :=
  showData showComp s.data ++ "#" ++ showData showComp s.noisy ++ "#" ++ showData showSComp s.sparse

def showRun (r : Except Err Unit × St) : String :=
  (match r.1 with | .ok _ => "ok" | .error e => showErr e) ++ "!" ++ toString r.2.sc.tick ++ "!" ++
    ",".intercalate r.2.sc.trace.reverse ++ "!" ++ showSim r.2.sim

/-- a fault run: only the label of the call that failed instead of the whole trace -/
def showRunShort (r : Except Err Unit × St) : String :=
  (match r.1 with | .ok _ => "ok" | .error e => showErr e) ++ "!" ++ toString r.2.sc.tick ++ "!" ++
    r.2.sc.trace.headD "-" ++ "!" ++ showSim r.2.sim

/-- the operations that follow (no fault), run from the state a run left behind: `^`-joined -/
def runTail (tail : List (M Unit)) (sim : Sim) : String :=
  (tail.foldl (fun (acc : String × Sim) (x : M Unit) =>
    let r := run x acc.2 none
    (acc.1 ++ "^" ++ showRunShort r, r.2.sim)) ("", sim)).1

/-- all runs of one op; returns the answer segment and the state the history continues from -/
def runOp (x : M Unit) (sim : Sim) (tail : List (M Unit)) : Fail → String × Sim
  | .none => let r := run x sim none; (showRun r, r.2.sim)
  | .at k => let r := run x sim (some k); (showRun r, r.2.sim)
  | .all =>
    let r := run x sim none
    let n := r.2.sc.tick
    ("%".intercalate ((showRun r ++ runTail tail r.2.sim) :: (List.range n).map fun k =>
      let rk := run x sim (some k)
      showRunShort rk ++ runTail tail rk.2.sim), r.2.sim)

def parseOp? (repl : Bool) (s : String) : Option (M Unit × Fail) :=
  match s.splitOn "~" with
  | ["N", r, f, z] => do
    let r ← parseRat? r; let f ← parseFail? f; let z ← parseZ? z
    pure (addNoise r z, f)
  | ["S", p, e, f, ss] => do
    let p ← parseRat? p; let e ← parseRat? e; let f ← parseFail? f; let ss ← parseSS? ss
    pure (sparsify repl p e ss, f)
  | ["C", r, p, e, f, z, ss] => do
    let r ← parseRat? r; let p ← parseRat? p; let e ← parseRat? e; let f ← parseFail? f
    let z ← parseZ? z; let ss ← parseSS? ss
    pure (combined repl r z p e ss, f)
  | ["K", r, p, e, f, z, ss] => do
    let r ← parseRat? r; let p ← parseRat? p; let e ← parseRat? e; let f ← parseFail? f
    let z ← parseZ? z; let ss ← parseSS? ss
    pure (combinedCoded repl r z p e ss, f)
  | _ => none

def answer (l : String) : String :=
  match tokens l with
  | "c20" :: repl :: d :: ops =>
    match parseData? d, ops.mapM (parseOp? (repl = "1")) with
    | some d, some ops =>
      -- the ops after an `all` op are its tail: they are run (without fault) after the fault-free run
      -- and after every fault run, from the state that run left behind
      let rec go (ops : List (M Unit × Fail)) (sim : Sim) (acc : List String) : List String :=
        match ops with
        | [] => acc.reverse
        | (x, .all) :: rest => (( runOp x sim (rest.map (·.1)) .all).1 :: acc).reverse
        | (x, f) :: rest =>
          let (s, sim') := runOp x sim [] f
          go rest sim' (s :: acc)
      " ".intercalate (go ops ({ data := d } : Sim) [])
    | _, _ => "bad"
  | _ => "bad-op"

def main : IO Unit := serve answer
