import FDAModel.Core.Proto
import FDAModel.SimulationRng
/-!
Driver of C19 (import-free).

  labels n k                      -> cluster labels
  eig <linear|quadratic|inverse> n -> eigenvalues (exact)
  kl <coef> <basis> m             -> `data` `scale`   (matrices; scale = Σ|c_k B_kj| per entry)
  bm init sd <draws>              -> standard Brownian path
  geom init <factors>             -> geometric path
  zc <cos> <sin> c0 c1 c2 <eps>   -> one Zhang–Chen curve
  grid <t>                        -> ok | error:ValueError
  trace <seeded 0|1> <before 0|1> <ownflags> <globflags> ev ev …
        generators are scripted streams: the i-th draw of a stream returns (stream, i, flag_i);
        the twins (simulators 0 and 1) start from the same own script.
        ev : `g<n>` n unrelated global draws | `o<a>:<kind>:<op>` with
             op = new-<nObs>-<nClusters>-<nPoints> | noise-<nComp> | sparse-<c1.c2…> | comb-<c1.c2…>
        answer: per op event `a:` + the draws consumed (`o<i>` own, `g<i>` global), then
                `end:<own0>,<own1>,<glob>` (stream positions).
-/
open FDA.Proto FDA.Rng

structure GenS where
  id : Nat
  pos : Nat
  flags : Array Bool

structure Draw where
  id : Nat
  pos : Nat
  flag : Bool

def nextS (g : GenS) : Draw × GenS := (⟨g.id, g.pos, g.flags.getD g.pos false⟩, { g with pos := g.pos + 1 })

def parseFlags (s : String) : Array Bool := if s = "-" then #[] else (s.toList.map (· == '1')).toArray

def parseKind? : String → Option SimKind
  | "kl" => some .kl
  | "bms" => some .brownianStandard
  | "bmg" => some .brownianGeometric
  | "bmf" => some .brownianFractional
  | "ds" => some .datasets
  | _ => none

def parseDots? (s : String) : Option (List Nat) := if s = "-" then some [] else (s.splitOn ".").mapM String.toNat?

def parseOp? (k : SimKind) (s : String) : Option Op :=
  match s.splitOn "-" with
  | ["new", n, kc, m] => do pure (.new k (← n.toNat?) (← kc.toNat?) (← m.toNat?))
  | ["noise", nc] => do pure (.addNoise (← nc.toNat?))
  | ["sparse", cs] => do pure (.sparsify (← parseDots? cs))
  | ["comb", cs] => do pure (.combined (← parseDots? cs))
  | _ => none

def parseEv? (seeded before : Bool) (s : String) : Option (Ev Draw (List Draw)) :=
  if s.startsWith "g" then (s.drop 1).toString.toNat?.map .other
  else if s.startsWith "o" then
    match (s.drop 1).toString.splitOn ":" with
    | [a, k, op] => do
      let a ← a.toNat?
      let k ← parseKind? k
      let op ← parseOp? k op
      let cfg := if before then cfgBefore seeded k else cfgTarget seeded k
      pure (.op a (opProg (fun d => d.flag) cfg op))
    | _ => none
  else none

def showDraw (d : Draw) : String := (if d.id = 0 then "g" else "o") ++ toString d.pos

def eigOf? : String → Option (Nat → Nat → Rat)
  | "linear" => some eigLinear
  | "quadratic" => some eigQuadratic
  | "inverse" => some eigInverse
  | _ => none

def absR (q : Rat) : Rat := if q < 0 then -q else q

def answer (l : String) : String :=
  match tokens l with
  | ["labels", n, k] =>
    match n.toNat?, k.toNat? with
    | some n, some k => if k = 0 then "error:ZeroDivisionError" else showNatVec (labels n k)
    | _, _ => "bad"
  | ["eig", name, n] =>
    match eigOf? name, n.toNat? with
    | some f, some n => if n < 1 then "error:ValueError" else showVec ((List.range n).map (f n))
    | none, some _ => "unmodelled"
    | _, _ => "bad"
  | ["kl", c, b, m] =>
    match parseMat? c, parseMat? b, m.toNat? with
    | some C, some B, some m =>
      showMat (klData C B m) ++ " " ++ showMat (klData (C.map (·.map absR)) (B.map (·.map absR)) m)
    | _, _, _ => "bad"
  | ["bm", i, sd, z] =>
    match parseRat? i, parseRat? sd, parseVec? z with
    | some i, some sd, some z => showVec (standardPath i sd z)
    | _, _, _ => "bad"
  | ["geom", i, f] =>
    match parseRat? i, parseVec? f with
    | some i, some f => showVec (geomPath i f)
    | _, _ => "bad"
  | ["zc", cs, sn, c0, c1, c2, ep] =>
    match parseVec? cs, parseVec? sn, parseRat? c0, parseRat? c1, parseRat? c2, parseVec? ep with
    | some cs, some sn, some c0, some c1, some c2, some ep => showVec (zhangChenRow cs sn c0 c1 c2 ep)
    | _, _, _, _, _, _ => "bad"
  | ["grid", t] =>
    match parseVec? t with
    | some t => match brownianGrid t with | .ok _ => "ok" | .error _ => "error:ValueError"
    | none => "bad"
  | "trace" :: seeded :: before :: fo :: fg :: evs =>
    match evs.mapM (parseEv? (seeded = "1") (before = "1")) with
    | some evs =>
      let w : World GenS := { glob := ⟨0, 0, parseFlags fg⟩, own := fun a => ⟨a + 1, 0, parseFlags fo⟩ }
      let r := runTrace nextS evs w
      let segs := r.1.map fun x => toString x.1 ++ ":" ++ (if x.2.isEmpty then "-" else ",".intercalate (x.2.map showDraw))
      " ".intercalate (segs ++ ["end:" ++ toString (r.2.own 0).pos ++ "," ++ toString (r.2.own 1).pos ++ "," ++ toString r.2.glob.pos])
    | none => "bad"
  | _ => "bad-op"

def main : IO Unit := serve answer
