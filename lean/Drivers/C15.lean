import FDAModel.Core.Proto
import FDAModel.Irregular
open FDA FDA.Proto FDA.Tab FDA.Irr

/-! Line-protocol evaluator of the C15 model (exact rationals).
A dataset is `g` (grid), `V` (n × m values, anything at missing cells), `M` (n × m, 1 = observed).
Every answer has the NaN-encoding result first and the ragged-encoding result second,
separated by ` | `; both are computed by the model's own definitions. -/

def mkRows (V M : List (List ℚ)) : List Row :=
  List.zipWith (fun vs ms => List.zipWith (fun v b => if b = 1 then some v else none) vs ms) V M

def showLong (l : List (ℚ × ℕ × ℚ)) : String :=
  if l.isEmpty then "-" else ";".intercalate (l.map fun (x, i, y) => showRat x ++ "," ++ toString i ++ "," ++ showRat y)

def showPairsQ (l : List (ℚ × ℚ)) : String :=
  if l.isEmpty then "-" else ",".intercalate (l.map fun (x, y) => showRat x ++ ":" ++ showRat y)

def sep (a b : String) : String := a ++ " | " ++ b

def nanCurves (g : List ℚ) (rows : List Row) : List NaNCurve := rows.map (encNaN g)
def ragCurves (g : List ℚ) (rows : List Row) : List RagCurve := rows.map (encRagged g)

def idxOfQ (g : List ℚ) (x : ℚ) : ℕ := g.idxOf x

def answer (l : String) : String :=
  match tokens l with
  | ["tolong", g, v, m] =>
    match parseVec? g, parseMat? v, parseMat? m with
    | some g, some V, some M =>
      let rows := mkRows V M
      sep (showLong (toLongNaN 0 (nanCurves g rows))) (showLong (toLongRag 0 (ragCurves g rows)))
    | _, _, _ => "bad"
  | ["npoints", g, v, m] =>
    match parseVec? g, parseMat? v, parseMat? m with
    | some g, some V, some M =>
      let rows := mkRows V M
      sep (showNatVec ((nanCurves g rows).map nPointsNaN)) (showNatVec ((ragCurves g rows).map nPointsRag))
    | _, _, _ => "bad"
  | ["lpin", g, v, m] =>
    match parseVec? g, parseMat? v, parseMat? m with
    | some g, some V, some M =>
      let rows := mkRows V M
      sep (";".intercalate ((nanCurves g rows).map fun c => showPairsQ (lpInputsNaN c)))
          (";".intercalate ((ragCurves g rows).map fun c => showPairsQ (lpInputsRag c)))
    | _, _, _ => "bad"
  | ["ps", g, v, m, b] =>
    -- B: K rows of basis values on the grid; answers per curve `A#b` (data part of the normal equations)
    match parseVec? g, parseMat? v, parseMat? m, parseMat? b with
    | some g, some V, some M, some B =>
      let rows := mkRows V M
      let K := B.length
      let Ba := (B.map List.toArray).toArray
      let Bf : ℕ → ℚ → ℚ := fun k x => rd2 Ba k (g.idxOf x)
      let one := fun (A : ℕ → ℕ → ℚ) (r : ℕ → ℚ) => showMat (toMat K K A) ++ "#" ++ showVec (toList K r)
      sep ("@".intercalate ((nanCurves g rows).map fun c => one (psMatNaN Bf c) (psRhsNaN Bf c)))
          ("@".intercalate ((ragCurves g rows).map fun c => one (psMatRag Bf c) (psRhsRag Bf c)))
    | _, _, _, _ => "bad"
  | ["interp", g, v, m, d] =>
    match parseVec? g, parseMat? v, parseMat? m, parseVec? d with
    | some g, some V, some M, some d =>
      let rows := mkRows V M
      if rows.any (fun r => r.all Option.isNone) then "error:ValueError" else
      let X1 := (nanCurves g rows).map fun c => d.map (interpNaN c)
      let X2 := (ragCurves g rows).map fun c => d.map (interpRag c)
      let n1 := (nanCurves g rows).map (normSqNaN d)
      let n2 := (ragCurves g rows).map (normSqRag d)
      sep (sep (showMat X1) (showMat X2)) (sep (showVec n1) (showVec n2))
    | _, _, _, _ => "bad"
  | ["center", g, v, m, d, mu] =>
    match parseVec? g, parseMat? v, parseMat? m, parseVec? d, parseVec? mu with
    | some g, some V, some M, some d, some mu =>
      let rows := mkRows V M
      sep (showLong (toLongNaN 0 ((nanCurves g rows).map (centerNaN d mu))))
          (showLong (toLongRag 0 ((ragCurves g rows).map (centerRag d mu))))
    | _, _, _, _, _ => "bad"
  | ["noise", g, v, m, w] =>
    match parseVec? g, parseMat? v, parseMat? m, parseVec? w with
    | some g, some V, some M, some w =>
      let rows := mkRows V M
      if rows.isEmpty then "error:ZeroDivision" else
      sep (showRat (noiseVarNaN w (nanCurves g rows))) (showRat (noiseVarRag w (ragCurves g rows)))
    | _, _, _, _ => "bad"
  | ["cov", g, v, m, d, mu] =>
    -- raw covariance on the union grid `d`; `mu = -`: center=False, else centred by `mu` first
    match parseVec? g, parseMat? v, parseMat? m, parseVec? d, parseVec? mu with
    | some g, some V, some M, some d, some mu =>
      let rows := mkRows V M
      let cn := if mu.isEmpty then nanCurves g rows else (nanCurves g rows).map (centerNaN d mu)
      let cr := if mu.isEmpty then ragCurves g rows else (ragCurves g rows).map (centerRag d mu)
      let k := d.length
      sep (sep (showMat (toMat k k (covNaN d cn))) (showMat (toMat k k (covRag d cr))))
          (showMat (toMat k k (covCount (cn.map (onGridNaN d)))))
    | _, _, _, _, _ => "bad"
  | ["gram", g, v, m, d, mu, s2] =>
    match parseVec? g, parseMat? v, parseMat? m, parseVec? d, parseVec? mu, parseRat? s2 with
    | some g, some V, some M, some d, some mu, some σ2 =>
      let rows := mkRows V M
      if rows.any (fun r => r.all Option.isNone) then "error:ValueError" else
      let n := rows.length
      -- tabulate the interpolated centred curves once (the definitions `gramNaN`/`gramRag`
      -- read exactly these values)
      let cn := (nanCurves g rows).map (centerNaN d mu)
      let cr := (ragCurves g rows).map (centerRag d mu)
      let Xn := tabA2 n d.length fun a j => interpNaN (cn.getD a ⟨[], []⟩) (d.getD j 0)
      let Xr := tabA2 n d.length fun a j => interpRag (cr.getD a []) (d.getD j 0)
      let da := d.toArray
      sep (showMat (toMat n n (gramImpl n d.length (rd da) (rd2 Xn) σ2)))
          (showMat (toMat n n (gramImpl n d.length (rd da) (rd2 Xr) σ2)))
    | _, _, _, _, _, _ => "bad"
  | ["arith", g, v, m, v2, a] =>
    match parseVec? g, parseMat? v, parseMat? m, parseMat? v2, parseRat? a with
    | some g, some V, some M, some V2, some a =>
      let rows := mkRows V M
      let rows2 := mkRows V2 M
      let n1 := nanCurves g rows
      let n2 := nanCurves g rows2
      let r1 := ragCurves g rows
      let r2 := ragCurves g rows2
      let bin := fun (f : ℚ → ℚ → ℚ) =>
        sep (showLong (toLongNaN 0 (List.zipWith (opNaN f) n1 n2))) (showLong (toLongRag 0 (List.zipWith (opRag f) r1 r2)))
      let num := fun (f : ℚ → ℚ → ℚ) =>
        sep (showLong (toLongNaN 0 (n1.map (opNumNaN f a)))) (showLong (toLongRag 0 (r1.map (opNumRag f a))))
      -- the last block divides by the SECOND value matrix with zeros replaced by 1 (the harness does the same)
      let nz := fun (c : NaNCurve) => (⟨c.pts, c.vals.map (Option.map fun y => if y = 0 then 1 else y)⟩ : NaNCurve)
      let nzr := fun (c : RagCurve) => c.map fun p => (p.1, if p.2 = 0 then (1 : ℚ) else p.2)
      let dv := sep (showLong (toLongNaN 0 (List.zipWith (opNaN (· / ·)) n1 (n2.map nz))))
                    (showLong (toLongRag 0 (List.zipWith (opRag (· / ·)) r1 (r2.map nzr))))
      sep (sep (sep (bin (· + ·)) (bin (· - ·))) (sep (sep (bin (· * ·)) (num (· * ·))) (num (· + ·)))) dv
    | _, _, _, _, _ => "bad"
  | ["fmt", g, v, m, d] =>
    -- inputs of mean(method_smoothing="PS"): `_format_data` values and weights on the points `d`
    match parseVec? g, parseMat? v, parseMat? m, parseVec? d with
    | some g, some V, some M, some d =>
      let rows := mkRows V M
      let y1 := formatData d (toLongNaN 0 (nanCurves g rows))
      let y2 := formatData d (toLongRag 0 (ragCurves g rows))
      sep (sep (showVec y1) (showVec y2)) (sep (showVec (formatWeights y1)) (showVec (formatWeights y2)))
    | _, _, _, _ => "bad"
  | ["pool", g, v, m, ap] =>
    -- the samples handed to the mean smoother (pooled long table, binned above 2000 when approx)
    match parseVec? g, parseMat? v, parseMat? m with
    | some g, some V, some M =>
      let rows := mkRows V M
      let approx := ap = "1"
      sep (showPairsQ (meanInputs approx (toLongNaN 0 (nanCurves g rows))))
          (showPairsQ (meanInputs approx (toLongRag 0 (ragCurves g rows))))
    | _, _, _ => "bad"
  | ["std", g, v, m, d, sd] =>
    -- standardize: deviations on the union grid, `n` = NaN (negative smoothed variance)
    match parseVec? g, parseMat? v, parseMat? m, parseVec? d with
    | some g, some V, some M, some d =>
      let rows := mkRows V M
      match (sd.splitOn ",").mapM (fun c => if c = "n" then some none else (parseRat? c).map some) with
      | some sdv =>
        sep (showLong (toLongNaN 0 ((nanCurves g rows).map (standardizeNaN d sdv))))
            (showLong (toLongRag 0 ((ragCurves g rows).map (standardizeRag d sdv))))
      | none => "bad"
    | _, _, _, _ => "bad"
  | ["todense", g, v, m] =>
    match parseVec? g, parseMat? v, parseMat? m with
    | some g, some V, some M =>
      let rows := mkRows V M
      sep (showVec (toDenseNaN (nanCurves g rows))) (showVec (toDenseRag (ragCurves g rows)))
    | _, _, _ => "bad"
  | _ => "bad-op"

def main : IO Unit := serve answer
