import FDAModel.Core.Proto
import FDAModel.Stats
import FDAModel.CovPath
open FDA FDA.Proto

/-- Scale for the float tolerance of one curve's noise estimate: mean over the windows
of `(Σ_k |d_k x_{s+k}|)²`. -/
def noiseAbs (q : ℕ) (d : ℕ → ℚ) (L : ℕ) (x : ℕ → ℚ) : ℚ :=
  noiseVar1 q (fun k => |d k|) L (fun k => |x k|)

def ncols (X : List (List ℚ)) : ℕ := (X.head?.map List.length).getD 0

def answer (l : String) : String :=
  match tokens l with
  | ["mean", x] =>
    match parseMat? x with
    | some X =>
      let Xa := (X.map List.toArray).toArray
      showVec (toList (ncols X) (colMean X.length (rd2 Xa)))
    | none => "bad"
  | ["cov", x, c] =>
    -- `.covariance(method_smoothing=None, center = (c = 1))`, including the final symmetrisation
    match parseMat? x with
    | some X =>
      let N := X.length
      let m := ncols X
      let Xa := (X.map List.toArray).toArray
      let mean := tabA m (colMean N (rd2 Xa))
      -- `center N X`, tabulated (`C09.cov_tabulated` joins this to `cov N 1 X`)
      let D := if c = "1" then tabA2 N m (fun i j => rd2 Xa i j - rd mean j) else Xa
      let C := tabA2 m m (covOf N 1 (rd2 D))
      showMat (toMat m m (symmetrise (rd2 C)))
    | none => "bad"
  | ["popvar", x] =>
    match parseMat? x with
    | some X =>
      let Xa := (X.map List.toArray).toArray
      showVec (toList (ncols X) (popVar X.length (rd2 Xa)))
    | none => "bad"
  | ["sym", x] =>
    match parseMat? x with
    | some M =>
      let Ma := (M.map List.toArray).toArray
      showMat (toMat M.length (ncols M) (symmetrise (rd2 Ma)))
    | none => "bad"
  | ["noise", o, x] =>
    -- rows may have different lengths (irregular data after NaN removal)
    match parseInt? o, parseMat? x with
    | some order, some X =>
      let N := X.length
      let Xa := (X.map List.toArray).toArray
      let L : ℕ → ℕ := fun i => (Xa.getD i #[]).size
      match noiseVarE order N L (rd2 Xa) with
      | .error e => "error:" ++ e
      | .ok v =>
        let q := order.toNat
        let per := (List.range N).map fun i => noiseVar1 q (dseq q) (L i) (rd2 Xa i)
        let ab := (List.range N).map fun i => noiseAbs q (dseq q) (L i) (rd2 Xa i)
        "ok " ++ showRat v ++ " " ++ showVec per ++ " " ++ showVec ab
    | _, _ => "bad"
  | ["noise1", o, x] =>
    -- `_estimate_noise_variance(x, order)` on one array (possibly empty)
    match parseInt? o, parseVec? x with
    | some order, some xs =>
      let xa := xs.toArray
      match noiseVar1E order xs.length (rd xa) with
      | .error e => "error:" ++ e
      | .ok v => "ok " ++ showRat v ++ " " ++ showRat (noiseAbs order.toNat (dseq order.toNat) xs.length (rd xa))
    | _, _ => "bad"
  | ["noisecov", pts, vh, sm] =>
    match parseVec? pts, parseVec? vh, parseVec? sm with
    | some P, some V, some S =>
      if P.length ≠ V.length ∨ P.length ≠ S.length ∨ P.length = 0 then "error" else
      let pa := P.toArray
      let va := V.toArray
      let sa := S.toArray
      let rng := P.foldl max (rd pa 0) - P.foldl min (rd pa 0)
      if rng = 0 then "error" else
      showRat (noiseFromCov P.length (rd pa) (rd va) (rd sa) rng)
    | _, _, _ => "bad"
  | ["diffseq", q] =>
    match q.toNat? with
    | some k =>
      match Generated.diffSeq k with
      | some d => showVec d
      | none => "none"
    | none => "bad"
  | ["covirr", mk, x] =>
    -- raw covariance of irregular data: `mk` = 0/1 observation masks, `x` = (centred or raw) values, both N × m
    match parseMat? mk, parseMat? x with
    | some K, some X =>
      let N := X.length
      let m := ncols X
      let Ka := (K.map List.toArray).toArray
      let Xa := (X.map List.toArray).toArray
      let C := tabA2 m m (rawCovIrr N (fun i a => rd2 Ka i a != 0) (rd2 Xa))
      showMat (toMat m m (symmetrise (rd2 C)))
    | _, _ => "bad"
  | ["long", x, mu] =>
    -- training rows of the LP covariance smoother: off-diagonal entries of XcᵀXc/(n−1), Xc = X − mu (smoothed mean)
    match parseMat? x, parseVec? mu with
    | some X, some Mu =>
      let N := X.length
      let m := ncols X
      let Xa := (X.map List.toArray).toArray
      let ma := Mu.toArray
      let D := tabA2 N m (centerSmoothed (fun _ => rd ma) N (rd2 Xa))
      let C := tabA2 m m (covOf N 1 (rd2 D))
      let rows := longFormat m (removeDiag (rd2 C))
      if rows.isEmpty then "-" else
      ";".intercalate (rows.map fun r => toString r.1 ++ "," ++ toString r.2.1 ++ "," ++ showRat r.2.2)
    | _, _ => "bad"
  | ["window", p] =>
    match p.toNat? with
    | some k => toString (roundHalfEven ((k : ℚ) / 4)) ++ " " ++ toString (roundHalfEven (3 * (k : ℚ) / 4))
    | none => "bad"
  | ["round", x] =>
    match parseRat? x with
    | some q => toString (roundHalfEven q)
    | none => "bad"
  | _ => "bad-op"

def main : IO Unit := serve answer
