import FDAModel.Core.Proto
import FDAModel.MFPCA
open FDA FDA.Proto FDA.MFPCA

/-- blocks separated by `|`, each a matrix (`-` = empty). -/
def parseBlocks? (s : String) : Option (List (List (List Rat))) :=
  (s.splitOn "|").mapM parseMat?

/-- shapes `r:c,r:c,…` -/
def parseShapes? (s : String) : Option (List (ℕ × ℕ)) :=
  if s = "-" then some [] else
  (s.splitOn ",").mapM fun t =>
    match t.splitOn ":" with
    | [a, b] => match a.toNat?, b.toNat? with
      | some x, some y => some (x, y)
      | _, _ => none
    | _ => none

def blocksFn (bs : List (List (List Rat))) : ℕ → ℕ → ℕ → ℚ :=
  let arr := (bs.map fun b => (b.map List.toArray).toArray).toArray
  fun p i j => rd2 (arr.getD p #[]) i j

def answer (l : String) : String :=
  match tokens l with
  | ["blockdiag", sh, bl] =>
    match parseShapes? sh, parseBlocks? bl with
    | some shapes, some bs =>
      if shapes.length ≠ bs.length then "error:shape" else
      let arr := (bs.map fun b => (b.map List.toArray).toArray).toArray
      let blk : ℕ → ℕ → ℕ → ℚ := fun p i j => rd2 (arr.getD p #[]) i j
      let R := (shapes.map Prod.fst).sum
      let C := (shapes.map Prod.snd).sum
      toString R ++ " " ++ toString C ++ " " ++ showMat (toMat R C (blockDiag shapes blk))
        ++ " " ++ showNatVec ((List.range shapes.length).map (rowOff shapes))
        ++ " " ++ showNatVec ((List.range shapes.length).map (colOff shapes))
    | _, _ => "bad"
  | ["fit", n, sz, xi, ub, nu, cc] =>
    match n.toNat?, parseNatVec? sz, parseMat? xi, parseBlocks? ub, parseVec? nu, parseMat? cc with
    | some N, some sizes, some Xi, some Ub, some nuL, some C =>
      let M := sizes.sum
      let K := nuL.length
      if Xi.length ≠ N ∨ Ub.length ≠ sizes.length ∨ (K ≠ 0 ∧ C.length ≠ M) then "error:shape" else
      if N < 2 then "error:ZeroDivision" else
      let xa := (Xi.map List.toArray).toArray
      let ca := (C.map List.toArray).toArray
      let na := nuL.toArray
      let barr := (Ub.map fun b => (b.map List.toArray).toArray).toArray
      let blk : ℕ → ℕ → ℕ → ℚ := fun p i j => rd2 (barr.getD p #[]) i j
      let U := tabA2 M M (blockDiag (squares sizes) blk)
      let B := tabA2 M M (gramOfFactor M (rd2 U))
      let xc := tabA2 N M (center N (rd2 xa))
      let Q := tabA2 M M (secondMoment N (rd2 xc))             -- `cov N ξ`, on the tabulated centred scores
      let Z := tabA2 M M (matMul M (rd2 B) (rd2 Q))           -- `solverMatrix`, tabulated
      let Q2 := tabA2 M M (secondMoment N (rd2 xa))
      let W := tabA2 M K (matMul M (rd2 Q2) (rd2 ca))          -- `weights`, on the tabulated moment
      let Pc := tabA2 N K (pace M (rd2 xa) (rd2 ca))
      let nsp := (List.range K).map (normSqProjOf N (rd2 Pc))  -- `normSqProj`, on the tabulated scores
      let rho2 := (List.range K).map fun m => rd na m * nsp.getD m 0              -- `rhoSq`
      let G := toMat K K (prodGramNum M (rd2 B) (rd2 W))
      let res := toMat M K fun j m => mulVec M (rd2 Z) (col (rd2 ca) m) j - rd na m * rd2 ca j m
      let means := toList M (colMean N (rd2 xa))
      showMat (toMat M M (rd2 U)) ++ " " ++ showMat (toMat M M (rd2 B)) ++ " " ++ showMat (toMat M M (rd2 Z))
        ++ " " ++ showMat (toMat M K (rd2 W)) ++ " " ++ showVec nsp ++ " " ++ showVec rho2
        ++ " " ++ showMat (toMat N K (rd2 Pc)) ++ " " ++ showMat G ++ " " ++ showMat res
        ++ " " ++ showVec means ++ " " ++ showNatVec ((List.range sizes.length).map (off sizes))
    | _, _, _, _, _, _ => "bad"
  | ["gram", t, ph] =>
    match parseVec? t, parseMat? ph with
    | some ts, some Phi =>
      let ta := ts.toArray
      let pa := (Phi.map List.toArray).toArray
      let s := Phi.length
      showMat (toMat s s (basisGram ts.length (rd ta) (rd2 pa)))
    | _, _ => "bad"
  | ["togrid", s, o, a, ph] =>
    -- a: M × K coefficient matrix (all components), block of `s` rows at offset `o`; ph: s × n
    match s.toNat?, o.toNat?, parseMat? a, parseMat? ph with
    | some s, some o, some A, some Phi =>
      let aa := (A.map List.toArray).toArray
      let pa := (Phi.map List.toArray).toArray
      let K := (A.headD []).length
      let n := (Phi.headD []).length
      showMat (toMat K n (toGrid s o (rd2 aa) (rd2 pa)))
    | _, _, _, _ => "bad"
  | ["inv", r, mean, sc, ps] =>
    match parseRat? r, parseVec? mean, parseMat? sc, parseMat? ps with
    | some r, some mean, some S, some Psi =>
      let ma := mean.toArray
      let sa := (S.map List.toArray).toArray
      let pa := (Psi.map List.toArray).toArray
      showMat (toMat S.length mean.length (inverseTransform Psi.length r (rd ma) (rd2 sa) (rd2 pa)))
    | _, _, _, _ => "bad"
  | ["gramroute", sg, vv, ts, ds] =>
    -- Gram route: σ² per component, eigenvectors N×K, grids t_1|t_2|…, curves D_1|D_2|… (each N×n_p)
    match parseVec? sg, parseMat? vv, parseBlocks? ts, parseBlocks? ds with
    | some sig, some V, some T, some D =>
      let P := D.length
      if sig.length ≠ P ∨ T.length ≠ P then "error:shape" else
      let N := (D.headD []).length
      let K := (V.headD []).length
      let sa := sig.toArray
      let va := (V.map List.toArray).toArray
      let tarr := (T.map fun b => (b.headD []).toArray).toArray
      let darr := (D.map fun b => (b.map List.toArray).toArray).toArray
      let nf : ℕ → ℕ := fun p => (tarr.getD p #[]).size
      let tf : ℕ → ℕ → ℚ := fun p => rd (tarr.getD p #[])
      let df : ℕ → ℕ → ℕ → ℚ := fun p => rd2 (darr.getD p #[])
      let G := toMat N N (gramRouteMatrix P nf tf df (rd sa))
      let nums := (List.range P).map fun p => showMat (toMat K (nf p) (gramEigenNum N (df p) (rd2 va)))
      showMat G ++ " " ++ "|".intercalate nums
    | _, _, _, _ => "bad"
  | _ => "bad-op"

def main : IO Unit := serve answer
