import FDAModel.Core.Proto
import FDAModel.Core.Quadrature
import FDAModel.FPCA
open FDA FDA.Proto FDA.FPCA

def isSorted (t : List ℚ) : Bool :=
  match t with
  | [] => true
  | [_] => true
  | a :: b :: r => decide (a < b) && isSorted (b :: r)

def arr2 (X : List (List ℚ)) : Array (Array ℚ) := (X.map List.toArray).toArray

/-- Exact Gaussian elimination `a x = b` (pivot search); `none` when singular.  Its
answer is never trusted: the caller re-checks `a x = b` exactly (certificate). -/
def solveQ (a : Array (Array ℚ)) (b : Array ℚ) : Option (Array ℚ) := Id.run do
  let n := a.size
  let mut m : Array (Array ℚ) := Array.ofFn (n := n) fun i => (a[i]!).push (b[i]!)
  for c in [0:n] do
    let mut p := c
    for r in [c:n] do
      if m[p]![c]! == 0 && m[r]![c]! != 0 then p := r
    if m[p]![c]! == 0 then return none
    let tmp := m[c]!
    m := m.set! c m[p]!
    m := m.set! p tmp
    let piv := m[c]![c]!
    let rowc := m[c]!.map (· / piv)
    m := m.set! c rowc
    for r in [0:n] do
      if r != c then
        let f := m[r]![c]!
        if f != 0 then
          let rr := m[r]!
          m := m.set! r (Array.ofFn (n := n + 1) fun j => rr[j]! - f * rowc[j]!)
  return some (m.map fun row => row[n]!)

/-- PACE scores of the rows of `Z`: `Y Σ = Z` solved exactly row by row (certificate re-checked),
then `scoresPace`. -/
def paceAnswer (lm : List ℚ) (C : List (List ℚ)) (σ2 : ℚ) (Z : List (List ℚ)) (Phi : List (List ℚ)) : String :=
  let m := C.length
  let K := lm.length
  if C.any (·.length ≠ m) || Z.any (·.length ≠ m) || Phi.length ≠ K || Phi.any (·.length ≠ m) then "error:shape" else
  let Ca := arr2 C
  let Sg := tabA2 m m (paceSigma (rd2 Ca) σ2)
  let SgT := tabA2 m m fun i j => rd2 Sg j i
  let Pa := arr2 Phi
  let la := lm.toArray
  let rows := Z.map fun z =>
    match solveQ SgT z.toArray with
    | none => none
    | some y =>
      let ok := (List.range m).all fun j =>
        ((List.range m).foldl (fun acc i => acc + rd y i * rd2 Sg i j) 0) == rd z.toArray j
      if ok then some y else none
  if rows.any (·.isNone) then "error:singular" else
  let Y := (rows.map fun o => (o.getD #[])).toArray
  showMat (toMat Z.length K (scoresPace m (rd la) (rd2 Y) (rd2 Pa)))

def bool? (s : String) : Option Bool := if s = "1" then some true else if s = "0" then some false else none

def answer (l : String) : String :=
  match tokens l with
  | ["mean", x] =>
    match parseMat? x with
    | some X =>
      let N := X.length
      if N = 0 then "error:empty" else
      let m := (X.headD []).length
      let Xa := arr2 X
      showVec (toList m (colMean N (rd2 Xa)))
    | none => "bad"
  | ["weight1", t, x] =>
    -- weight learnt by `fit(normalize=True)`: rescale of the centred data on the standardised grid
    match parseVec? t, parseMat? x with
    | some ts, some X =>
      let N := X.length
      let m := ts.length
      if N = 0 || m < 2 || !isSorted ts || X.any (·.length ≠ m) then "error:shape" else
      let ta := ts.toArray
      let Xa := arr2 X
      let mean := tabA m (colMean N (rd2 Xa))
      let Xc := tabA2 N m fun i j => rd2 Xa i j - rd mean j
      let u := tabA m (standGrid m (rd ta))
      let v := tabA m (varPop N (rd2 Xc))
      showRat (trapz m (rd u) (rd v))
    | _, _ => "bad"
  | ["weight2", t1, t2, x] =>
    match parseVec? t1, parseVec? t2, parseMat? x with
    | some a, some b, some X =>
      let N := X.length
      let m1 := a.length
      let m2 := b.length
      if N = 0 || m1 < 2 || m2 < 2 || !isSorted a || !isSorted b || X.any (·.length ≠ m1 * m2) then "error:shape" else
      let aa := a.toArray
      let ba := b.toArray
      let Xa := arr2 X
      let mean := tabA (m1 * m2) (colMean N (rd2 Xa))
      let Xc := tabA2 N (m1 * m2) fun i j => rd2 Xa i j - rd mean j
      let u1 := tabA m1 (standGrid m1 (rd aa))
      let u2 := tabA m2 (standGrid m2 (rd ba))
      let v := tabA (m1 * m2) (varPop N (rd2 Xc))
      showRat (integrate2 m1 m2 (rd u1) (rd u2) (fun p q => rd v (p * m2 + q)))
    | _, _, _ => "bad"
  | ["tr1", norm, which, t, mean, weight, x, phi] =>
    match bool? norm, parseVec? t, parseVec? mean, parseRat? weight, parseMat? x, parseMat? phi with
    | some nz, some ts, some mu, some wt, some X, some Phi =>
      let N := X.length
      let K := Phi.length
      let m := ts.length
      if m < 2 || !isSorted ts || mu.length ≠ m || X.any (·.length ≠ m) || Phi.any (·.length ≠ m) then "error:shape" else
      if wt ≤ 0 then "error:weight" else
      let ta := ts.toArray
      let ma := mu.toArray
      let Xa := arr2 X
      let Pa := arr2 Phi
      let r := sqrtQ wt
      let Z := if which = "spec" then tabA2 N m (transformSpec nz (rd ma) r (rd2 Xa))
               else tabA2 N m (transformImpl nz (rd ma) r (rd2 Xa))
      showMat (toMat N K (scoresTrapz m (rd ta) (rd2 Z) (rd2 Pa)))
    | _, _, _, _, _, _ => "bad"
  | ["tr2", norm, which, t1, t2, mean, weight, x, phi] =>
    match bool? norm, parseVec? t1, parseVec? t2, parseVec? mean, parseRat? weight, parseMat? x, parseMat? phi with
    | some nz, some a, some b, some mu, some wt, some X, some Phi =>
      let N := X.length
      let K := Phi.length
      let m1 := a.length
      let m2 := b.length
      let m := m1 * m2
      if m1 < 2 || m2 < 2 || !isSorted a || !isSorted b || mu.length ≠ m || X.any (·.length ≠ m) || Phi.any (·.length ≠ m) then "error:shape" else
      if wt ≤ 0 then "error:weight" else
      let aa := a.toArray
      let ba := b.toArray
      let ma := mu.toArray
      let Xa := arr2 X
      let Pa := arr2 Phi
      let r := sqrtQ wt
      let Z := if which = "spec" then tabA2 N m (transformSpec nz (rd ma) r (rd2 Xa))
               else tabA2 N m (transformImpl nz (rd ma) r (rd2 Xa))
      showMat (toMat N K (scoresTrapz2 m1 m2 (rd aa) (rd ba) (rd2 Z) (rd2 Pa)))
    | _, _, _, _, _, _, _ => "bad"
  | ["innpro", n, lam, v] =>
    -- `V` given as K rows (vector k = row k), each of length n
    match n.toNat?, parseVec? lam, parseMat? v with
    | some N, some lm, some V =>
      let K := lm.length
      if V.length ≠ K || V.any (·.length ≠ N) then "error:shape" else
      if lm.any (· < 0) then "error:negative" else
      let q := (lm.map fun x => sqrtQ ((N : ℚ) * x)).toArray
      let Va := arr2 V
      showMat (toMat N K (scoresInnPro (rd q) (rd2 Va)))
    | _, _, _ => "bad"
  | ["inv", mean, weight, s, phi] =>
    match parseVec? mean, parseRat? weight, parseMat? s, parseMat? phi with
    | some mu, some wt, some S, some Phi =>
      let N := S.length
      let K := Phi.length
      let m := mu.length
      if S.any (·.length ≠ K) || Phi.any (·.length ≠ m) then "error:shape" else
      if wt < 0 then "error:weight" else
      let ma := mu.toArray
      let Sa := arr2 S
      let Pa := arr2 Phi
      let r := sqrtQ wt
      showMat (toMat N m (inverseTransform K (rd ma) r (rd2 Sa) (rd2 Pa)))
    | _, _, _, _ => "bad"
  | ["pace", lam, cov, sig, z, phi] =>
    match parseVec? lam, parseMat? cov, parseRat? sig, parseMat? z, parseMat? phi with
    | some lm, some C, some σ2, some Z, some Phi => paceAnswer lm C σ2 Z Phi
    | _, _, _, _, _ => "bad"
  | ["pacez", norm, which, mean, weight, x, lam, cov, sig, phi] =>
    -- PACE of `transformImpl` / `transformSpec` of the data (normalisation inside the model, `r = √weight`)
    match bool? norm, parseVec? mean, parseRat? weight, parseMat? x, parseVec? lam, parseMat? cov, parseRat? sig, parseMat? phi with
    | some nz, some mu, some wt, some X, some lm, some C, some σ2, some Phi =>
      let m := mu.length
      if X.any (·.length ≠ m) then "error:shape" else
      if wt ≤ 0 then "error:weight" else
      let ma := mu.toArray
      let Xa := arr2 X
      let r := sqrtQ wt
      let Z := if which = "spec" then toMat X.length m (transformSpec nz (rd ma) r (rd2 Xa))
               else toMat X.length m (transformImpl nz (rd ma) r (rd2 Xa))
      paceAnswer lm C σ2 Z Phi
    | _, _, _, _, _, _, _, _ => "bad"
  | _ => "bad-op"

def main : IO Unit := serve answer
