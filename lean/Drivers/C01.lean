import FDAModel.Core.Proto
import FDAModel.Eigen
open FDA.Proto FDA.Eigen

/-- Selector token: `int:<k>`, `frac:<p>`, `all`, `bad`. -/
def parseSel? (s : String) : Option Sel :=
  match s.splitOn ":" with
  | ["all"] => some .all
  | ["bad"] => some .bad
  | ["int", k] => (parseInt? k).map Sel.int
  | ["frac", p] => (parseRat? p).map Sel.frac
  | _ => none

/-- Solver output: values `v1,…,vn` and the matching columns `c1;…;cn`
(`-` for "values only": the vectors are then empty lists). -/
def parseRaw? (vals cols : String) : Option (List Pair) :=
  match parseVec? vals with
  | none => none
  | some vs =>
    if cols = "-" then some (vs.map fun v => (v, []))
    else match parseMat? cols with
      | none => none
      | some cs => if cs.length = vs.length then some (vs.zip cs) else none

def showOut (r : Except String (List Pair)) : String :=
  match r with
  | .ok out => "ok " ++ showVec (values out) ++ " " ++ showMat (vectors out)
  | .error e => "error:" ++ e

def answer (l : String) : String :=
  match tokens l with
  | ["impl", sel, vals, cols] =>
    match parseSel? sel, parseRaw? vals cols with
    | some s, some raw => showOut (computeEigenImpl raw s) ++ " " ++ toString (nonIncreasing (values raw))
    | _, _ => "bad"
  | ["spec", sel, vals, cols] =>
    match parseSel? sel, parseRaw? vals cols with
    | some s, some raw => showOut (computeEigenSpec raw s)
    | _, _ => "bad"
  | ["evcov", sel, vals] =>
    match parseSel? sel, parseRaw? vals "-" with
    | some s, some raw =>
      match computeEigenImpl raw s with
      | .ok out => "ok " ++ showVec (eigenvaluesCov out)
      | .error e => "error:" ++ e
    | _, _ => "bad"
  | ["evgram", n, sel, vals] =>
    match n.toNat?, parseSel? sel, parseRaw? vals "-" with
    | some n, some s, some raw =>
      if n = 0 then "error:ZeroDivision" else
      match computeEigenImpl raw s with
      | .ok out => "ok " ++ showVec (eigenvaluesGram n out)
      | .error e => "error:" ++ e
    | _, _, _ => "bad"
  | _ => "bad-op"

def main : IO Unit := serve answer
