/-
Helper lemmas for `FDAModel/Bases.lean`: Bonnet's recursion, list-polynomial
evaluation, the exact integral on `[-1,1]`.
-/
import FDAModel.Bases
import Mathlib.Tactic.Ring
import Mathlib.Tactic.Linarith
import Mathlib.Tactic.FieldSimp
import Mathlib.Tactic.Positivity
import Mathlib.Algebra.Order.Field.Basic

namespace FDA.Bases

theorem legendrePair_snd (n : ℕ) (x : ℚ) : (legendrePair n x).2 = (legendrePair (n + 1) x).1 := by
  simp [legendrePair]

theorem legendre_bonnet (n : ℕ) (x : ℚ) :
    ((n : ℚ) + 2) * legendre (n + 2) x
      = (2 * (n : ℚ) + 3) * x * legendre (n + 1) x - ((n : ℚ) + 1) * legendre n x := by
  unfold legendre
  have h : (legendrePair (n + 2) x).1 = (legendrePair (n + 1) x).2 := by simp [legendrePair]
  rw [h]
  have h2 : (legendrePair (n + 1) x).2
      = ((2 * (n : ℚ) + 3) * x * (legendrePair n x).2 - ((n : ℚ) + 1) * (legendrePair n x).1)
          / ((n : ℚ) + 2) := by
    simp [legendrePair]
  rw [h2, ← legendrePair_snd n x]
  have : ((n : ℚ) + 2) ≠ 0 := by positivity
  field_simp

theorem polyEval_add : ∀ (p q : List ℚ) (x : ℚ), polyEval (polyAdd p q) x = polyEval p x + polyEval q x
  | [], q, x => by simp [polyAdd, polyEval]
  | a :: p, [], x => by simp [polyAdd, polyEval]
  | a :: p, b :: q, x => by simp [polyAdd, polyEval, polyEval_add p q x]; ring

theorem polyEval_scale (c : ℚ) : ∀ (p : List ℚ) (x : ℚ), polyEval (polyScale c p) x = c * polyEval p x
  | [], x => by simp [polyScale, polyEval]
  | a :: p, x => by
    have := polyEval_scale c p x
    simp only [polyScale, List.map_cons, polyEval] at this ⊢
    rw [this]; ring

theorem polyEval_mulX (p : List ℚ) (x : ℚ) : polyEval (polyMulX p) x = x * polyEval p x := by
  simp [polyMulX, polyEval]

theorem polyEval_mul : ∀ (p q : List ℚ) (x : ℚ), polyEval (polyMul p q) x = polyEval p x * polyEval q x
  | [], q, x => by simp [polyMul, polyEval]
  | a :: p, q, x => by
    simp only [polyMul, polyEval_add, polyEval_scale, polyEval_mulX, polyEval_mul p q x, polyEval]
    ring

theorem polyEval_coeffPair (n : ℕ) (x : ℚ) :
    polyEval (legendreCoeffPair n).1 x = (legendrePair n x).1 ∧
    polyEval (legendreCoeffPair n).2 x = (legendrePair n x).2 := by
  induction n with
  | zero => simp [legendreCoeffPair, legendrePair, polyEval]
  | succ n ih =>
    obtain ⟨h1, h2⟩ := ih
    refine ⟨by simp [legendreCoeffPair, legendrePair, h2], ?_⟩
    simp only [legendreCoeffPair, legendrePair, polyEval_scale, polyEval_add, polyEval_mulX, h1, h2]
    have : ((n : ℚ) + 2) ≠ 0 := by positivity
    field_simp
    ring

theorem polyEval_legendreCoeffs (n : ℕ) (x : ℚ) : polyEval (legendreCoeffs n) x = legendre n x :=
  (polyEval_coeffPair n x).1

theorem legendreInner_of_check (N : ℕ) (h : legendreOrthoCheck N = true) (m n : ℕ)
    (hm : m < N) (hn : n < N) :
    legendreInner m n = if m = n then 2 / (2 * (n : ℚ) + 1) else 0 := by
  unfold legendreOrthoCheck at h
  rw [List.all_eq_true] at h
  have h1 := h m (List.mem_range.mpr hm)
  rw [List.all_eq_true] at h1
  have h2 := h1 n (List.mem_range.mpr hn)
  exact of_decide_eq_true h2

theorem polyIntSymAux_replicate (k s : ℕ) :
    polyIntSymAux (List.replicate k 0 ++ [1]) s = (1 - (-1) ^ (s + k + 1)) / (((s + k : ℕ) : ℚ) + 1) := by
  induction k generalizing s with
  | zero => simp [polyIntSymAux]
  | succ k ih =>
    simp only [List.replicate_succ, List.cons_append, polyIntSymAux, zero_mul, zero_add]
    rw [ih (s + 1)]
    have : s + 1 + k = s + (k + 1) := by omega
    rw [this]

theorem polyIntSym_monomial (k : ℕ) :
    polyIntSym (List.replicate k 0 ++ [1]) = (1 - (-1) ^ (k + 1)) / ((k : ℚ) + 1) := by
  unfold polyIntSym
  rw [polyIntSymAux_replicate k 0]; simp

/-- `np.kron` index law: `kron(A,B)[i·r₂+j, a·c₂+b] = A[i,a]·B[j,b]`. -/
theorem kron_apply (r₂ c₂ : ℕ) (A B : ℕ → ℕ → ℚ) (i j a b : ℕ) (hj : j < r₂) (hb : b < c₂) :
    kron r₂ c₂ A B (i * r₂ + j) (a * c₂ + b) = A i a * B j b := by
  unfold kron
  have h1 : (i * r₂ + j) / r₂ = i := by
    rw [Nat.add_comm, Nat.add_mul_div_right _ _ (by omega), Nat.div_eq_of_lt hj]; simp
  have h2 : (i * r₂ + j) % r₂ = j := by
    rw [Nat.add_comm, Nat.add_mul_mod_self_right, Nat.mod_eq_of_lt hj]
  have h3 : (a * c₂ + b) / c₂ = a := by
    rw [Nat.add_comm, Nat.add_mul_div_right _ _ (by omega), Nat.div_eq_of_lt hb]; simp
  have h4 : (a * c₂ + b) % c₂ = b := by
    rw [Nat.add_comm, Nat.add_mul_mod_self_right, Nat.mod_eq_of_lt hb]
  rw [h1, h2, h3, h4]

end FDA.Bases
