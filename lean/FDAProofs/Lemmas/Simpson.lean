import FDAModel.Geometry
import FDAProofs.Lemmas.Quadrature

namespace FDA
open Finset

/-- On a uniform grid `t_j = a + j h` the package's Simpson weights are the composite
Simpson pattern `h/3 · (1, 4, 2, 4, …, 2, 4, 1)` (odd number of points `2k+1`). -/
theorem simpsonW_uniform (a h : ℚ) (k j : ℕ) (hk : 1 ≤ k) (hj : j < 2 * k + 1) :
    simpsonW (2 * k + 1) (fun i => a + i * h) j =
      if j = 0 ∨ j = 2 * k then h / 3 else if j % 2 = 1 then 4 * h / 3 else 2 * h / 3 := by
  unfold simpsonW
  by_cases h0 : j = 0
  · subst h0; simp
  · by_cases hl : j = 2 * k
    · subst hl
      have e1 : 2 * k + 1 - 1 = 2 * k := by omega
      have e2 : 2 * k + 1 - 2 = 2 * k - 1 := by omega
      have e3 : ((2 * k - 1 : ℕ) : ℚ) = 2 * (k : ℚ) - 1 := by
        have : 1 ≤ 2 * k := by omega
        push_cast [Nat.cast_sub this]; ring
      simp only [h0, e1, e2, if_true, if_false, or_true]
      rw [e3]; push_cast; ring
    · have hne : ¬ (j = 2 * k + 1 - 1) := by omega
      simp only [h0, hl, hne, if_false, false_or]
      have hj1 : ((j - 1 : ℕ) : ℚ) = (j : ℚ) - 1 := by
        have : 1 ≤ j := by omega
        push_cast [Nat.cast_sub this]; ring
      by_cases hodd : j % 2 = 1
      · have : (j - 1) % 2 = 0 := by omega
        simp only [this, hodd, if_true]
        push_cast [hj1]; ring
      · have : ¬ (j - 1) % 2 = 0 := by omega
        simp only [this, hodd, if_false]
        push_cast [hj1]; ring

end FDA

namespace FDA
open Finset

/-- The composite pattern as a function of `k` (number of panels) and the node `j`. -/
def simpsonPat (h : ℚ) (k j : ℕ) : ℚ :=
  if j = 0 ∨ j = 2 * k then h / 3 else if j % 2 = 1 then 4 * h / 3 else 2 * h / 3

theorem simpsonPat_sum_panels (h : ℚ) (g : ℕ → ℚ) : ∀ k, 1 ≤ k →
    ∑ j ∈ range (2 * k + 1), simpsonPat h k j * g j =
      ∑ i ∈ range k, h / 3 * (g (2 * i) + 4 * g (2 * i + 1) + g (2 * i + 2)) := by
  intro k hk
  induction k, hk using Nat.le_induction with
  | base =>
    simp [simpsonPat, Finset.sum_range_succ]
    ring
  | succ k hk ih =>
    rw [show 2 * (k + 1) + 1 = (2 * k + 1) + 1 + 1 by ring, Finset.sum_range_succ, Finset.sum_range_succ,
      Finset.sum_range_succ _ k, ← ih]
    rw [Finset.sum_range_succ _ (2 * k), Finset.sum_range_succ _ (2 * k)]
    have hlt : ∀ j ∈ range (2 * k), simpsonPat h (k + 1) j * g j = simpsonPat h k j * g j := by
      intro j hj
      rw [mem_range] at hj
      unfold simpsonPat
      have h1 : ¬ j = 2 * (k + 1) := by omega
      have h2 : ¬ j = 2 * k := by omega
      simp only [h1, h2, or_false]
    rw [Finset.sum_congr rfl hlt]
    have p1 : simpsonPat h (k + 1) (2 * k) = 2 * h / 3 := by
      unfold simpsonPat
      have h1 : ¬ (2 * k = 0 ∨ 2 * k = 2 * (k + 1)) := by omega
      have h2 : ¬ (2 * k) % 2 = 1 := by omega
      simp only [h1, h2, if_false]
    have p2 : simpsonPat h k (2 * k) = h / 3 := by unfold simpsonPat; simp
    have p3 : simpsonPat h (k + 1) (2 * k + 1) = 4 * h / 3 := by
      unfold simpsonPat
      have h1 : ¬ (2 * k + 1 = 0 ∨ 2 * k + 1 = 2 * (k + 1)) := by omega
      have h2 : (2 * k + 1) % 2 = 1 := by omega
      simp only [h1, h2, if_false, if_true]
    have p4 : simpsonPat h (k + 1) (2 * k + 1 + 1) = h / 3 := by
      unfold simpsonPat
      have h1 : 2 * k + 1 + 1 = 2 * (k + 1) := by ring
      simp [h1]
    rw [p1, p2, p3, p4]
    ring

end FDA
