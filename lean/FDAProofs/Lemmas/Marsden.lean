/-
Marsden's identity for the cardinal B-splines (every degree), its polynomial form, and the
consequence used by C05: every polynomial of degree < order ≤ degree+1 is a spline of the coded
basis whose coefficient sequence is annihilated by the order-th difference.
-/
import FDAProofs.Lemmas.BSpline
import Mathlib.Algebra.Polynomial.Roots
import Mathlib.Algebra.Polynomial.BigOperators
import Mathlib.Algebra.Polynomial.Taylor
import Mathlib.Algebra.Polynomial.HasseDeriv
import Mathlib.Algebra.Polynomial.Degree.Lemmas
import Mathlib.Data.Rat.Cast.CharZero
import Mathlib.Algebra.CharZero.Infinite
namespace FDA.BSpline
open Finset Nat

/-- Marsden coefficient `ψ_{j,p}(y) = Π_{r<p} (y − j − (r+1))`. -/
def marsdenCoef (p : ℕ) (y : ℚ) (j : ℕ) : ℚ := ∏ r ∈ range p, (y - j - ((r : ℚ) + 1))

theorem marsdenCoef_succ (p : ℕ) (y : ℚ) (j : ℕ) :
    marsdenCoef (p + 1) y j = marsdenCoef p y j * (y - j - ((p : ℚ) + 1)) := by
  unfold marsdenCoef; rw [Finset.prod_range_succ]

theorem marsdenCoef_pred (p : ℕ) (y : ℚ) (j : ℕ) (hj : 0 < j) :
    marsdenCoef (p + 1) y (j - 1) = (y - j) * marsdenCoef p y j := by
  unfold marsdenCoef
  rw [Finset.prod_range_succ']
  have hc : ((j - 1 : ℕ) : ℚ) = (j : ℚ) - 1 := by rw [Nat.cast_sub hj]; simp
  rw [hc, mul_comm]
  congr 1
  · push_cast; ring
  · apply Finset.prod_congr rfl; intro r _; push_cast; ring

/-- **Marsden's identity** on the integer knots, every degree `p ≥ 1`:
`Σ_j ψ_{j,p}(y)·N_p(u−j) = (y−u)^p` for `p ≤ u ≤ n`. -/
theorem marsden (p : ℕ) (hp : 1 ≤ p) : ∀ (n : ℕ) (u y : ℚ), (p : ℚ) ≤ u → u ≤ n →
    ∑ j ∈ range n, marsdenCoef p y j * cardinal p (u - j) = (y - u) ^ p := by
  induction p, hp using Nat.le_induction with
  | base =>
    intro n u y hlo hhi
    have h1 : ∀ j ∈ range n, marsdenCoef 1 y j * cardinal 1 (u - j)
        = (y - 1) * cardinal 1 (u - j) - (j : ℚ) * cardinal 1 (u - j) := by
      intro j _; unfold marsdenCoef; simp; ring
    rw [Finset.sum_congr rfl h1, Finset.sum_sub_distrib, ← Finset.mul_sum,
      sum_cardinal 1 n u (le_refl 1) hlo hhi, moment1_base n u (by simpa using hlo) hhi]
    ring
  | succ p hp ih =>
    intro n u y hlo hhi
    have hlo' : (p : ℚ) + 1 ≤ u := by push_cast at hlo; exact hlo
    have hp1 : ((p : ℚ) + 1) ≠ 0 := by positivity
    have hs := sbp p n hp u hlo' hhi (marsdenCoef (p + 1) y)
    have hterm : ∀ j ∈ range n,
        (marsdenCoef (p + 1) y j * (u - j) + marsdenCoef (p + 1) y (j - 1) * ((p : ℚ) + 1 - u + j))
            * cardinal p (u - j)
          = ((p : ℚ) + 1) * (y - u) * (marsdenCoef p y j * cardinal p (u - j)) := by
      intro j _
      rcases Nat.eq_zero_or_pos j with h0 | hpos
      · subst h0
        simp only [Nat.cast_zero, sub_zero]
        rw [cardinal_eq_zero_of_ge p u hlo']; ring
      · rw [marsdenCoef_succ, marsdenCoef_pred p y j hpos]; ring
    rw [Finset.sum_congr rfl hterm, ← Finset.mul_sum, ih n u y (by linarith) hhi] at hs
    have : ∑ j ∈ range n, marsdenCoef (p + 1) y j * cardinal (p + 1) (u - j)
        = (((p : ℚ) + 1) * (y - u) * (y - u) ^ p) / ((p : ℚ) + 1) := by
      rw [← hs]; field_simp
    rw [this, pow_succ]; field_simp

end FDA.BSpline

namespace FDA.BSpline
open Finset Nat Polynomial
open scoped fwdDiff

/-- `ψ_{j,p}` as a polynomial in `y`. -/
noncomputable def marsdenPoly (p j : ℕ) : ℚ[X] := ∏ r ∈ range p, (X - C ((j : ℚ) + ((r : ℚ) + 1)))

theorem marsdenPoly_eval (p j : ℕ) (y : ℚ) : (marsdenPoly p j).eval y = marsdenCoef p y j := by
  unfold marsdenPoly marsdenCoef
  rw [eval_prod]
  apply Finset.prod_congr rfl; intro r _; simp; ring

/-- Marsden's identity as an identity of polynomials in `y`. -/
theorem marsden_poly (p : ℕ) (hp : 1 ≤ p) (n : ℕ) (u : ℚ) (hlo : (p : ℚ) ≤ u) (hhi : u ≤ n) :
    ∑ j ∈ range n, C (cardinal p (u - j)) * marsdenPoly p j = (X - C u) ^ p := by
  apply Polynomial.funext
  intro y
  rw [eval_finset_sum]
  simp only [eval_mul, eval_C, marsdenPoly_eval, eval_pow, eval_sub, eval_X]
  rw [← marsden p hp n u y hlo hhi]
  apply Finset.sum_congr rfl; intro j _; ring

/-- Coefficient sequence `a_k(j) = [y^k] ψ_{j,p}(y)`. -/
noncomputable def marsdenSeq (p k : ℕ) (j : ℕ) : ℚ := (marsdenPoly p j).coeff k

theorem marsden_coeff (p : ℕ) (hp : 1 ≤ p) (n : ℕ) (u : ℚ) (hlo : (p : ℚ) ≤ u) (hhi : u ≤ n) (k : ℕ) :
    ∑ j ∈ range n, marsdenSeq p k j * cardinal p (u - j) = (-u) ^ (p - k) * (p.choose k : ℚ) := by
  have h := congrArg (fun f : ℚ[X] => f.coeff k) (marsden_poly p hp n u hlo hhi)
  simp only [finsetSum_coeff, coeff_C_mul] at h
  have e : (X - C u : ℚ[X]) = X + C (-u) := by simp [sub_eq_add_neg]
  rw [e, coeff_X_add_C_pow] at h
  rw [← h]
  apply Finset.sum_congr rfl; intro j _; unfold marsdenSeq; ring

theorem marsdenPoly_shift (p j : ℕ) : marsdenPoly p j = (marsdenPoly p 0).comp (X + C (-(j : ℚ))) := by
  unfold marsdenPoly
  rw [Polynomial.prod_comp]
  apply Finset.prod_congr rfl; intro r _
  simp only [sub_comp, X_comp, C_comp, Nat.cast_zero, zero_add]
  rw [show (C ((j : ℚ) + ((r : ℚ) + 1)) : ℚ[X]) = C (j : ℚ) + C ((r : ℚ) + 1) by rw [← C_add]]
  simp only [C_neg]; ring

theorem natDegree_marsdenPoly_le (p j : ℕ) : (marsdenPoly p j).natDegree ≤ p := by
  unfold marsdenPoly
  have h := natDegree_prod_le (range p) (fun r : ℕ => (X - C ((j : ℚ) + ((r : ℚ) + 1)) : ℚ[X]))
  refine le_trans h ?_
  have h2 : ∀ r ∈ range p, (X - C ((j : ℚ) + ((r : ℚ) + 1)) : ℚ[X]).natDegree ≤ 1 := by
    intro r _; rw [natDegree_X_sub_C]
  have h3 := Finset.sum_le_sum h2
  simpa using h3

/-- `j ↦ a_k(j)` is a polynomial in `j` of degree `≤ p − k`: it is killed by every difference of
higher order. -/
theorem iter_marsdenSeq_eq_zero (p k ord : ℕ) (h : p - k < ord) (i : ℕ) :
    (Δ_[1]^[ord] (marsdenSeq p k)) i = 0 := by
  set Q : ℚ[X] := (hasseDeriv k (marsdenPoly p 0)).comp (-X) with hQ
  have hseq : marsdenSeq p k = fun j : ℕ => Q.eval (j : ℚ) := by
    funext j
    unfold marsdenSeq
    rw [marsdenPoly_shift p j, ← taylor_apply, taylor_coeff, hQ, eval_comp]
    simp
  have hdeg : Q.natDegree < ord := by
    refine lt_of_le_of_lt ?_ h
    rw [hQ]
    refine le_trans natDegree_comp_le ?_
    have h1 : (-X : ℚ[X]).natDegree = 1 := by rw [natDegree_neg, natDegree_X]
    rw [h1, mul_one]
    exact le_trans (natDegree_hasseDeriv_le _ _) (Nat.sub_le_sub_right (natDegree_marsdenPoly_le p 0) k)
  rw [hseq, iter_eval_nat, Polynomial.fwdDiff_iter_eq_zero_of_degree_lt hdeg]
  simp

end FDA.BSpline

namespace FDA.BSpline
open Finset Nat Polynomial
open scoped fwdDiff

/-- Every polynomial of degree `< ord ≤ p+1` is, on the whole domain, a spline of the coded basis whose
coefficient sequence is annihilated by the `ord`-th difference — every degree `p ≥ 1`, every order. -/
theorem poly_is_spline (dmin dmax : ℚ) (nfun p : ℕ) (hp1 : 1 ≤ p) (hp : p < nfun) (hd : dmin < dmax)
    (q : ℚ[X]) (ord : ℕ) (hq : q.natDegree < ord) (hop : ord ≤ p + 1) :
    ∃ c : ℕ → ℚ, (∀ i, (Δ_[1]^[ord] c) i = 0) ∧
      ∀ x, dmin ≤ x → x ≤ dmax →
        ∑ j ∈ range nfun, c j * bsplineBasis dmin dmax nfun p x j = q.eval x := by
  have hh := dx_pos dmin dmax nfun p hp hd
  set h := dx dmin dmax nfun p with hdef
  set t0 := uniformKnot dmin dmax nfun p 0 with ht0
  set qt : ℚ[X] := q.comp (C t0 + C h * X) with hqt
  have hqtdeg : qt.natDegree < ord := by
    refine lt_of_le_of_lt ?_ hq
    refine le_trans natDegree_comp_le ?_
    have : (C t0 + C h * X : ℚ[X]).natDegree ≤ 1 := by
      refine le_trans (natDegree_add_le _ _) ?_
      rw [natDegree_C]
      exact max_le (by norm_num) (le_trans (natDegree_C_mul_le h X) (by rw [natDegree_X]))
    calc q.natDegree * (C t0 + C h * X : ℚ[X]).natDegree ≤ q.natDegree * 1 := Nat.mul_le_mul_left _ this
      _ = q.natDegree := mul_one _
  set κ : ℕ → ℚ := fun r => qt.coeff r * ((-1) ^ r / (p.choose r : ℚ)) with hκ
  refine ⟨fun j => ∑ r ∈ range (p + 1), κ r * marsdenSeq p (p - r) j, ?_, ?_⟩
  · intro i
    have hfun : (fun j => ∑ r ∈ range (p + 1), κ r * marsdenSeq p (p - r) j)
        = ∑ r ∈ range (p + 1), (κ r) • marsdenSeq p (p - r) := by
      funext j; simp [Finset.sum_apply]
    rw [hfun, fwdDiff_iter_finsetSum, Finset.sum_apply]
    apply Finset.sum_eq_zero
    intro r hr
    have hr' : r ≤ p := by have := mem_range.mp hr; omega
    rw [fwdDiff_iter_const_smul]
    by_cases hro : r < ord
    · have : p - (p - r) < ord := by omega
      simp [iter_marsdenSeq_eq_zero p (p - r) ord this i]
    · have : qt.coeff r = 0 := coeff_eq_zero_of_natDegree_lt (by omega)
      simp [hκ, this]
  · intro x hlo hhi
    obtain ⟨hul, huh⟩ := ucoord_range dmin dmax nfun p hp hd x hlo hhi
    set u := ucoord dmin dmax nfun p x with hu
    have hterm : ∀ j ∈ range nfun,
        (∑ r ∈ range (p + 1), κ r * marsdenSeq p (p - r) j) * bsplineBasis dmin dmax nfun p x j
          = ∑ r ∈ range (p + 1), κ r * (marsdenSeq p (p - r) j * cardinal p (u - j)) := by
      intro j hj
      rw [bsplineBasis_eq_cardinal_u dmin dmax nfun p hp hd x j (mem_range.mp hj), Finset.sum_mul]
      apply Finset.sum_congr rfl; intro r _; ring
    rw [Finset.sum_congr rfl hterm, Finset.sum_comm]
    have hr : ∀ r ∈ range (p + 1),
        ∑ j ∈ range nfun, κ r * (marsdenSeq p (p - r) j * cardinal p (u - j)) = qt.coeff r * u ^ r := by
      intro r hr
      have hr' : r ≤ p := by have := mem_range.mp hr; omega
      rw [← Finset.mul_sum, marsden_coeff p hp1 nfun u hul huh (p - r)]
      have e1 : p - (p - r) = r := by omega
      have e2 : p.choose (p - r) = p.choose r := Nat.choose_symm hr'
      have hc : (p.choose r : ℚ) ≠ 0 := by
        have := Nat.choose_pos hr'; exact_mod_cast this.ne'
      rw [e1, e2, hκ]
      simp only
      rw [neg_pow u r]
      field_simp
      have : ((-1 : ℚ) ^ r) ^ 2 = 1 := by rw [← pow_mul, mul_comm, pow_mul]; simp
      rw [this, mul_one]
    rw [Finset.sum_congr rfl hr, ← eval_eq_sum_range' (by omega : qt.natDegree < p + 1) u, hqt, eval_comp]
    congr 1
    simp only [eval_add, eval_mul, eval_C, eval_X]
    rw [hu]; unfold ucoord; rw [← hdef, ← ht0]; field_simp; ring

end FDA.BSpline
