import FDAModel.FCPTPAUpdate
import FDAProofs.Lemmas.FCPTPA
import FDAProofs.Lemmas.MFPCA

namespace FDA.FCPTPA
open Finset
open FDA.MFPCA (mulVec bil)

theorem mulVec_smat {m : ℕ} (α : ℚ) (Ω : ℕ → ℕ → ℚ) (x : ℕ → ℚ) {i : ℕ} (hi : i < m) :
    mulVec m (smat α Ω) x i = x i + α * mulVec m Ω x i := by
  unfold FDA.MFPCA.mulVec smat
  simp_rw [add_mul, Finset.sum_add_distrib]
  congr 1
  · simp [hi]
  · rw [Finset.mul_sum]; apply Finset.sum_congr rfl; intro k _; ring

theorem smat_symm {m : ℕ} (α : ℚ) (Ω : ℕ → ℕ → ℚ) (hΩ : ∀ i < m, ∀ j < m, Ω i j = Ω j i) :
    ∀ i < m, ∀ j < m, smat α Ω i j = smat α Ω j i := by
  intro i hi j hj
  unfold smat
  rw [hΩ i hi j hj]
  by_cases h : i = j
  · subst h; rfl
  · have h' : ¬ j = i := fun e => h e.symm
    simp [h, h']

theorem bil_smat (m : ℕ) (α : ℚ) (Ω : ℕ → ℕ → ℚ) (x y : ℕ → ℚ) :
    bil m (smat α Ω) x y = FDA.MFPCA.dot m x y + α * bil m Ω x y := by
  unfold FDA.MFPCA.bil
  rw [FDA.MFPCA.dot_congr_right x (fun i hi => mulVec_smat α Ω y hi)]
  have : (fun i => y i + α * mulVec m Ω y i) = fun i => y i + (fun i => α * mulVec m Ω y i) i := rfl
  rw [this, FDA.MFPCA.dot_add_right, FDA.MFPCA.dot_smul_right]

theorem computeDenominator_eq (m : ℕ) (α : ℚ) (Ω : ℕ → ℕ → ℚ) (a : ℕ → ℚ) :
    computeDenominator m α Ω a = bil m (smat α Ω) a a := by
  rw [bil_smat]
  unfold computeDenominator FDA.MFPCA.bil FDA.MFPCA.dot
  rw [Finset.mul_sum, ← Finset.sum_add_distrib]
  apply Finset.sum_congr rfl; intro i _; ring

theorem bil_sub_sub (m : ℕ) (A : ℕ → ℕ → ℚ) (x y : ℕ → ℚ) :
    bil m A (fun i => x i - y i) (fun i => x i - y i)
      = bil m A x x - bil m A x y - bil m A y x + bil m A y y := by
  have e : (fun i => x i - y i) = fun i => x i + (fun i => (-1) * y i) i := by funext i; ring
  unfold FDA.MFPCA.bil
  rw [e]
  have h : ∀ i < m, mulVec m A (fun i => x i + (fun i => (-1) * y i) i) i
      = mulVec m A x i + (fun i => (-1) * mulVec m A y i) i := by
    intro i _
    rw [FDA.MFPCA.mulVec_add, FDA.MFPCA.mulVec_smul]
  rw [FDA.MFPCA.dot_congr_right _ h, FDA.MFPCA.dot_add_left, FDA.MFPCA.dot_add_right, FDA.MFPCA.dot_add_right,
    FDA.MFPCA.dot_smul_left, FDA.MFPCA.dot_smul_right, FDA.MFPCA.dot_smul_right, FDA.MFPCA.dot_smul_left]
  ring

/-- Key identity: the block objective exceeds its value at a solution of the normal equations
by `d·(x−x*)ᵀS(x−x*)`. -/
theorem blockObjective_sub (m : ℕ) (α : ℚ) (Ω : ℕ → ℕ → ℚ) (hΩ : ∀ i < m, ∀ j < m, Ω i j = Ω j i)
    (b : ℕ → ℚ) (d : ℚ) (xs : ℕ → ℚ) (hs : IsUpdate m α Ω b d xs) (x : ℕ → ℚ) :
    blockObjective m α Ω b d x - blockObjective m α Ω b d xs
      = d * bil m (smat α Ω) (fun i => x i - xs i) (fun i => x i - xs i) := by
  have hb : ∀ z : ℕ → ℚ, FDA.MFPCA.dot m z b = d * bil m (smat α Ω) z xs := by
    intro z
    unfold FDA.MFPCA.bil
    rw [← FDA.MFPCA.dot_smul_right]
    apply FDA.MFPCA.dot_congr_right
    intro i hi
    rw [← hs i hi, FDA.MFPCA.mulVec_smul]
  have hsym : bil m (smat α Ω) xs x = bil m (smat α Ω) x xs := by
    unfold FDA.MFPCA.bil
    rw [← FDA.MFPCA.dot_mulVec_symm m _ (smat_symm α Ω hΩ), FDA.MFPCA.dot_comm]
  unfold blockObjective
  rw [hb x, hb xs, bil_sub_sub, hsym]
  ring

theorem coef_eq_dot_powerV (n m₁ m₂ : ℕ) (R : ℕ → ℕ → ℕ → ℚ) (T : Comp) :
    coef n m₁ m₂ R T = FDA.MFPCA.dot m₁ T.v (powerV n m₂ R T.u T.w) := by
  unfold coef ip3 outer3 FDA.MFPCA.dot powerV
  rw [Finset.sum_comm]
  apply Finset.sum_congr rfl; intro j _
  rw [Finset.mul_sum]
  apply Finset.sum_congr rfl; intro i _
  rw [Finset.mul_sum]
  apply Finset.sum_congr rfl; intro k _
  ring

theorem coef_eq_dot_powerW (n m₁ m₂ : ℕ) (R : ℕ → ℕ → ℕ → ℚ) (T : Comp) :
    coef n m₁ m₂ R T = FDA.MFPCA.dot m₂ T.w (powerW n m₁ R T.u T.v) := by
  unfold coef ip3 outer3 FDA.MFPCA.dot powerW
  have : ∀ i ∈ range n, ∑ j ∈ range m₁, ∑ k ∈ range m₂, R i j k * (T.u i * T.v j * T.w k)
      = ∑ k ∈ range m₂, ∑ j ∈ range m₁, R i j k * (T.u i * T.v j * T.w k) := fun i _ => Finset.sum_comm
  rw [Finset.sum_congr rfl this, Finset.sum_comm]
  apply Finset.sum_congr rfl; intro k _
  rw [Finset.mul_sum]
  apply Finset.sum_congr rfl; intro i _
  rw [Finset.mul_sum]
  apply Finset.sum_congr rfl; intro j _
  ring

theorem coef_eq_dot_powerU (n m₁ m₂ : ℕ) (R : ℕ → ℕ → ℕ → ℚ) (T : Comp) :
    coef n m₁ m₂ R T = FDA.MFPCA.dot n T.u (powerU m₁ m₂ R T.v T.w) := by
  unfold coef ip3 outer3 FDA.MFPCA.dot powerU
  apply Finset.sum_congr rfl; intro i _
  rw [Finset.mul_sum]
  apply Finset.sum_congr rfl; intro j _
  rw [Finset.mul_sum]
  apply Finset.sum_congr rfl; intro k _
  ring

end FDA.FCPTPA
