/-
Bridge between the B-spline evaluator of `FDAModel/Predict.lean` (C07) and the shared model
`FDAModel/BSpline.lean` (C18/C05, namespace `FDA.BSpline`, which mirrors `_basis_bsplines`
step by step): the two evaluators are equal; both are the cardinal B-spline on the equally
spaced knots.
-/
import FDAModel.Predict
import FDAProofs.Lemmas.BSpline
import Mathlib.Tactic.Ring
import Mathlib.Tactic.Linarith
import Mathlib.Tactic.FieldSimp

namespace FDA.PS
open Finset

theorem dx_eq (dmin dmax : ℚ) (nseg deg : ℕ) :
    dx dmin dmax nseg = FDA.BSpline.dx dmin dmax (nseg + deg) deg := by
  unfold dx FDA.BSpline.dx FDA.BSpline.nSeg
  rw [Nat.add_sub_cancel]

theorem knot_eq (dmin dmax : ℚ) (nseg deg i : ℕ) :
    knot dmin dmax nseg deg i = FDA.BSpline.uniformKnot dmin dmax (nseg + deg) deg i := by
  unfold knot FDA.BSpline.uniformKnot
  rw [dx_eq dmin dmax nseg deg]

theorem tpower_eq (x k : ℚ) (p : ℕ) : tpower x k p = FDA.BSpline.tpower x k p := by
  unfold tpower FDA.BSpline.tpower
  split_ifs <;> simp

theorem dx_pos' (dmin dmax : ℚ) (nseg : ℕ) (hn : 0 < nseg) (hd : dmin < dmax) : 0 < dx dmin dmax nseg := by
  unfold dx
  exact div_pos (by linarith) (by exact_mod_cast hn)

theorem sign_cancel (p r : ℕ) (hr : r ≤ p + 1) :
    ((-1 : ℚ)) ^ (p + 1) * (-1) ^ (p + 1 - r) = (-1) ^ r := by
  have h : p + 1 = (p + 1 - r) + r := by omega
  have e : ((-1 : ℚ)) ^ (p + 1) = (-1) ^ (p + 1 - r) * (-1) ^ r := by
    conv_lhs => rw [h, pow_add]
  rw [e]
  have : ((-1 : ℚ)) ^ (p + 1 - r) * (-1) ^ (p + 1 - r) = 1 := by
    rw [← mul_pow]; simp
  calc (-1 : ℚ) ^ (p + 1 - r) * (-1) ^ r * (-1) ^ (p + 1 - r)
      = ((-1 : ℚ) ^ (p + 1 - r) * (-1) ^ (p + 1 - r)) * (-1) ^ r := by ring
    _ = (-1) ^ r := by rw [this, one_mul]

/-- The evaluator of `Predict.lean` is the cardinal B-spline `N_deg((x − t_j)/dx)`. -/
theorem bspline_eq_cardinal (dmin dmax : ℚ) (nseg deg : ℕ) (hn : 0 < nseg) (hd : dmin < dmax) (j : ℕ) (x : ℚ) :
    bspline dmin dmax nseg deg j x =
      FDA.BSpline.cardinal deg ((x - knot dmin dmax nseg deg j) / dx dmin dmax nseg) := by
  have hh := dx_pos' dmin dmax nseg hn hd
  set h := dx dmin dmax nseg with hdef
  set u := (x - knot dmin dmax nseg deg j) / h with hu
  have hknot : ∀ r : ℕ, knot dmin dmax nseg deg (j + r) = knot dmin dmax nseg deg j + (r : ℚ) * h := by
    intro r; unfold knot; rw [← hdef]; push_cast; ring
  have hfac : ((Nat.factorial deg : ℕ) : ℚ) ≠ 0 := by exact_mod_cast Nat.factorial_ne_zero deg
  have hhp : h ^ deg ≠ 0 := pow_ne_zero _ hh.ne'
  unfold bspline
  by_cases hm : x < knot dmin dmax nseg deg (j + deg + 1)
  · rw [if_pos hm]
    unfold FDA.BSpline.cardinal
    rw [Finset.mul_sum, Finset.sum_div, Finset.sum_div]
    apply Finset.sum_congr rfl
    intro r hr
    have hr' : r ≤ deg + 1 := by have := mem_range.mp hr; omega
    rw [tpower_eq, hknot r, FDA.BSpline.tpower_scale x _ h hh r deg, ← hu]
    unfold diffCoef
    rw [← hdef]
    have hs := sign_cancel deg r hr'
    field_simp
    rw [← hs]
    ring
  · rw [if_neg hm]
    have hge : knot dmin dmax nseg deg j + ((deg + 1 : ℕ) : ℚ) * h ≤ x := by
      have := not_lt.mp hm
      rw [show j + deg + 1 = j + (deg + 1) by omega, hknot (deg + 1)] at this
      exact this
    have : (deg : ℚ) + 1 ≤ u := by
      rw [hu, le_div_iff₀ hh]
      push_cast at hge
      linarith
    rw [FDA.BSpline.cardinal_eq_zero_of_ge deg u this]

/-- **The two evaluators are equal**: the basis function `j` of a fit with `nseg` segments of degree
`deg` on `[dmin, dmax]`, as `Predict.lean` evaluates it, is `_basis_bsplines(..., n_functions =
nseg + deg, degree = deg, domain_min, domain_max)[j]` of the shared model. -/
theorem bspline_eq_shared (dmin dmax : ℚ) (nseg deg : ℕ) (hn : 0 < nseg) (hd : dmin < dmax) (j : ℕ)
    (hj : j < nseg + deg) (x : ℚ) :
    bspline dmin dmax nseg deg j x = FDA.BSpline.bsplineBasis dmin dmax (nseg + deg) deg x j := by
  have hp : deg < nseg + deg := by omega
  rw [bspline_eq_cardinal dmin dmax nseg deg hn hd j x,
    FDA.BSpline.mask_is_identity dmin dmax (nseg + deg) deg hp hd x j hj,
    FDA.BSpline.basisRaw_eq_cardinal dmin dmax (nseg + deg) deg hp hd x j hj, knot_eq, dx_eq dmin dmax nseg deg]

theorem bspline_nonneg (dmin dmax : ℚ) (nseg deg : ℕ) (hn : 0 < nseg) (hd : dmin < dmax) (j : ℕ) (x : ℚ) :
    0 ≤ bspline dmin dmax nseg deg j x := by
  rw [bspline_eq_cardinal dmin dmax nseg deg hn hd j x]
  exact FDA.BSpline.cardinal_nonneg deg _

/-- Partition of unity on the closed fit domain, every degree `≥ 1`. -/
theorem bspline_sum_one (dmin dmax : ℚ) (nseg deg : ℕ) (hn : 0 < nseg) (hd : dmin < dmax) (hdeg : 1 ≤ deg)
    (x : ℚ) (hlo : dmin ≤ x) (hhi : x ≤ dmax) :
    ∑ j ∈ range (nFun nseg deg), bspline dmin dmax nseg deg j x = 1 := by
  have hh := dx_pos' dmin dmax nseg hn hd
  set h := dx dmin dmax nseg with hdef
  set u0 := (x - knot dmin dmax nseg deg 0) / h with hu0
  have hterm : ∀ j ∈ range (nFun nseg deg), bspline dmin dmax nseg deg j x = FDA.BSpline.cardinal deg (u0 - j) := by
    intro j _
    rw [bspline_eq_cardinal dmin dmax nseg deg hn hd j x]
    congr 1
    rw [hu0]
    unfold knot
    rw [← hdef]
    field_simp
    push_cast
    ring
  rw [Finset.sum_congr rfl hterm]
  have hk0 : knot dmin dmax nseg deg 0 = dmin - (deg : ℚ) * h := by
    unfold knot; rw [← hdef]; push_cast; ring
  have hnq : (nseg : ℚ) * h = dmax - dmin := by
    rw [hdef]; unfold dx
    have : (nseg : ℚ) ≠ 0 := by exact_mod_cast hn.ne'
    field_simp
  apply FDA.BSpline.sum_cardinal deg (nFun nseg deg) u0 hdeg
  · rw [hu0, le_div_iff₀ hh, hk0]; linarith
  · rw [hu0, div_le_iff₀ hh, hk0]
    unfold nFun
    push_cast
    nlinarith

end FDA.PS
