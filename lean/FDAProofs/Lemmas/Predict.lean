/-
Helper lemmas for C07: the tabulated / GLAM forms of the two-dimensional prediction
compute the specification.
-/
import FDAModel.Predict
import Mathlib.Tactic.Ring
import Mathlib.Algebra.BigOperators.Ring.Finset
import Mathlib.Algebra.BigOperators.Group.Finset.Sigma

namespace FDA.PS
open Finset

theorem tensorEval_congr {n1 n2 : ℕ} {β : ℕ → ℕ → ℚ} {b1 b1' b2 b2' : ℕ → ℚ}
    (h1 : ∀ a, a < n1 → b1 a = b1' a) (h2 : ∀ b, b < n2 → b2 b = b2' b) :
    tensorEval n1 n2 β b1 b2 = tensorEval n1 n2 β b1' b2' := by
  unfold tensorEval
  apply Finset.sum_congr rfl
  intro a ha
  apply Finset.sum_congr rfl
  intro b hb
  rw [h1 a (mem_range.mp ha), h2 b (mem_range.mp hb)]

theorem tensorEval_tab (n1 n2 : ℕ) (β : ℕ → ℕ → ℚ) (b1 b2 : ℕ → ℚ) :
    tensorEval n1 n2 β (rd (tabA n1 b1)) (rd (tabA n2 b2)) = tensorEval n1 n2 β b1 b2 :=
  tensorEval_congr (fun _ ha => rd_tabA b1 ha) (fun _ hb => rd_tabA b2 hb)

theorem predict2Tab_eq (f : Fit2) (Q1 Q2 : List ℚ) : predict2Tab f Q1 Q2 = predict2 f Q1 Q2 := by
  unfold predict2Tab predict2 basisTab evalSpline2
  simp only [List.map_map]
  apply List.map_congr_left
  intro q1 _
  apply List.map_congr_left
  intro q2 _
  exact tensorEval_tab _ _ _ _ _

theorem covAtTab_eq (f : Fit2) (P : List ℚ) : covAtTab f P = covAt f P := by
  unfold covAtTab covAt basisTab evalSpline2
  simp only [List.zip_map', List.map_map]
  apply List.map_congr_left
  intro p _
  apply List.map_congr_left
  intro q _
  simp only [Function.comp]
  rw [tensorEval_tab, tensorEval_tab]

theorem predict2Glam_eq (f : Fit2) (Q1 Q2 : List ℚ) : predict2Glam f Q1 Q2 = predict2 f Q1 Q2 := by
  unfold predict2Glam predict2 evalSpline2 tensorEval
  apply List.map_congr_left
  intro q1 _
  apply List.map_congr_left
  intro q2 _
  simp only [Finset.mul_sum]
  rw [Finset.sum_comm]
  apply Finset.sum_congr rfl
  intro a _
  apply Finset.sum_congr rfl
  intro b _
  ring

end FDA.PS
