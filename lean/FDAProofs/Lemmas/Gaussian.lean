/-
The Gaussian kernel of `local_polynomial.py` (`_gaussian`) over the reals.
-/
import Mathlib.Analysis.SpecialFunctions.Trigonometric.Basic
import FDAModel.Generated.Kernels
import Mathlib.Analysis.SpecialFunctions.Pow.Real

namespace FDA.LP

/-- `_gaussian(u) = exp(-u²/2) / sqrt(2π)`. -/
noncomputable def gaussian (u : ℝ) : ℝ := Real.exp (-(u ^ 2) / 2) / Real.sqrt (2 * Real.pi)

/-- The Gaussian kernel as the source has it NOW: its two constants come from the generated file
(`FDAModel/Generated/Kernels.lean`, re-translated from `local_polynomial.py` on every run). -/
noncomputable def gaussianSrc (u : ℝ) : ℝ :=
  Real.exp (-(u ^ 2) / (FDA.Generated.gaussExpDiv : ℝ)) / Real.sqrt ((FDA.Generated.gaussNormCoef : ℝ) * Real.pi)

/-- The rule-of-thumb bandwidth `n^(-1/5)` over the reals (`n` = `bandwidthCount` of the entry point). -/
noncomputable def defaultBandwidth (c : ℝ) : ℝ := c ^ (-(1 / 5 : ℝ))

end FDA.LP
