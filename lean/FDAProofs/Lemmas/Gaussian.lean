/-
The Gaussian kernel of `local_polynomial.py` (`_gaussian`) over the reals.
-/
import Mathlib.Analysis.SpecialFunctions.Trigonometric.Basic

namespace FDA.LP

/-- `_gaussian(u) = exp(-u²/2) / sqrt(2π)`. -/
noncomputable def gaussian (u : ℝ) : ℝ := Real.exp (-(u ^ 2) / 2) / Real.sqrt (2 * Real.pi)

end FDA.LP
