/-
Exactness of the trapezoid rule on uniform grids for the Fourier and Wiener products: the discrete
orthonormality relations (no quadrature error) — over `ℝ`.
-/
import FDAProofs.Lemmas.TrigBases
namespace FDA.BasesReal
open Real Finset

/-- Telescoping of trapezoid sums of a cosine along an arithmetic progression of angles. -/
theorem sum_cos_trapz (φ θ : ℝ) (N : ℕ) :
    2 * sin (θ / 2) * ∑ i ∈ range N, (cos (φ + i * θ) + cos (φ + ((i : ℝ) + 1) * θ)) / 2
      = cos (θ / 2) * (sin (φ + N * θ) - sin φ) := by
  induction N with
  | zero => simp
  | succ n ih =>
    rw [Finset.sum_range_succ, mul_add, ih]
    have key1 : ∀ A B : ℝ, cos (A - B) + cos (A + B) = 2 * cos A * cos B := by
      intro A B; rw [cos_sub, cos_add]; ring
    have key2 : ∀ A B : ℝ, sin (A + B) - sin (A - B) = 2 * sin B * cos A := by
      intro A B; rw [sin_add, sin_sub]; ring
    have h1 : cos (φ + n * θ) + cos (φ + ((n : ℝ) + 1) * θ)
        = 2 * cos (φ + n * θ + θ / 2) * cos (θ / 2) := by
      rw [← key1]; congr 1 <;> congr 1 <;> ring
    have h2 : sin (φ + ((n + 1 : ℕ) : ℝ) * θ) - sin (φ + n * θ)
        = 2 * sin (θ / 2) * cos (φ + n * θ + θ / 2) := by
      rw [← key2]; congr 1 <;> congr 1 <;> push_cast <;> ring
    rw [h1]
    have : sin (φ + ((n + 1 : ℕ) : ℝ) * θ) = sin (φ + n * θ) + 2 * sin (θ / 2) * cos (φ + n * θ + θ / 2) := by
      linarith
    rw [this]; ring

theorem sum_sin_trapz (φ θ : ℝ) (N : ℕ) :
    2 * sin (θ / 2) * ∑ i ∈ range N, (sin (φ + i * θ) + sin (φ + ((i : ℝ) + 1) * θ)) / 2
      = cos (θ / 2) * (cos φ - cos (φ + N * θ)) := by
  have h := sum_cos_trapz (φ - π / 2) θ N
  have e : ∀ x : ℝ, cos (φ - π / 2 + x) = sin (φ + x) := by
    intro x
    have : φ - π / 2 + x = (φ + x) - π / 2 := by ring
    rw [this, cos_sub_pi_div_two]
  have e' : ∀ x : ℝ, sin (φ - π / 2 + x) = -cos (φ + x) := by
    intro x
    have : φ - π / 2 + x = (φ + x) - π / 2 := by ring
    rw [this, sin_sub_pi_div_two]
  simp_rw [e] at h
  rw [h, e' (N * θ)]
  have : sin (φ - π / 2) = -cos φ := by rw [sin_sub_pi_div_two]
  rw [this]; ring

theorem sin_int_frac_ne_zero (M : ℕ) (hM : 0 < M) (m : ℤ) (hm0 : m ≠ 0) (hm : |m| < (M : ℤ)) :
    sin ((m : ℝ) * π / M) ≠ 0 := by
  intro h
  obtain ⟨n, hn⟩ := Real.sin_eq_zero_iff.mp h
  have hMr : (M : ℝ) ≠ 0 := by exact_mod_cast hM.ne'
  have : (n : ℝ) * M = m := by
    have h2 : (n : ℝ) * π * M = (m : ℝ) * π := by rw [hn]; field_simp
    have := mul_right_cancel₀ pi_ne_zero (by linarith : (n : ℝ) * M * π = (m : ℝ) * π)
    exact this
  have hz : n * (M : ℤ) = m := by exact_mod_cast this
  rcases eq_or_ne n 0 with h0 | h0
  · rw [h0, zero_mul] at hz; exact hm0 hz.symm
  · have : (M : ℤ) ≤ |m| := by
      rw [← hz, abs_mul, abs_of_nonneg (Int.natCast_nonneg M)]
      have : 1 ≤ |n| := Int.one_le_abs h0
      nlinarith [Int.natCast_nonneg M]
    omega

theorem trapzU_add (a b : ℝ) (N : ℕ) (f g : ℝ → ℝ) :
    trapzU a b N (fun t => f t + g t) = trapzU a b N f + trapzU a b N g := by
  unfold trapzU; rw [← Finset.sum_add_distrib]; apply Finset.sum_congr rfl; intro i _; ring

theorem trapzU_sub (a b : ℝ) (N : ℕ) (f g : ℝ → ℝ) :
    trapzU a b N (fun t => f t - g t) = trapzU a b N f - trapzU a b N g := by
  unfold trapzU; rw [← Finset.sum_sub_distrib]; apply Finset.sum_congr rfl; intro i _; ring

theorem trapzU_const_mul (a b : ℝ) (N : ℕ) (c : ℝ) (f : ℝ → ℝ) :
    trapzU a b N (fun t => c * f t) = c * trapzU a b N f := by
  unfold trapzU; rw [Finset.mul_sum]; apply Finset.sum_congr rfl; intro i _; ring

/-- The trapezoid rule on the uniform grid with `N` intervals integrates `cos(mπt)` over `[0,1]`
EXACTLY for every integer frequency `|m| < 2N`. -/
theorem trapzU_cos_int_pi (N : ℕ) (hN : 0 < N) (m : ℤ) (hm : |m| < 2 * (N : ℤ)) :
    trapzU 0 1 N (fun t => cos ((m : ℝ) * π * t)) = if m = 0 then 1 else 0 := by
  have hNr : (N : ℝ) ≠ 0 := by exact_mod_cast hN.ne'
  unfold trapzU
  by_cases hm0 : m = 0
  · subst hm0; simp; field_simp
  · rw [if_neg hm0]
    set θ : ℝ := (m : ℝ) * π / N with hθ
    have hsum : ∑ i ∈ range N, ((1 : ℝ) - 0) / N * ((cos ((m : ℝ) * π * (0 + (i : ℝ) * ((1 - 0) / N)))
          + cos ((m : ℝ) * π * (0 + ((i : ℝ) + 1) * ((1 - 0) / N)))) / 2)
        = (1 / N) * ∑ i ∈ range N, (cos (0 + i * θ) + cos (0 + ((i : ℝ) + 1) * θ)) / 2 := by
      rw [Finset.mul_sum]
      apply Finset.sum_congr rfl; intro i _
      have e1 : (m : ℝ) * π * (0 + (i : ℝ) * ((1 - 0) / N)) = 0 + i * θ := by rw [hθ]; field_simp; ring
      have e2 : (m : ℝ) * π * (0 + ((i : ℝ) + 1) * ((1 - 0) / N)) = 0 + ((i : ℝ) + 1) * θ := by
        rw [hθ]; field_simp; ring
      rw [e1, e2]; ring
    rw [hsum]
    have hT := sum_cos_trapz 0 θ N
    have hNθ : (0 : ℝ) + N * θ = (m : ℝ) * π := by rw [hθ]; field_simp; ring
    rw [hNθ, sin_int_mul_pi, sin_zero, sub_zero, mul_zero] at hT
    have hs : sin (θ / 2) ≠ 0 := by
      have : θ / 2 = (m : ℝ) * π / ((2 * N : ℕ) : ℝ) := by rw [hθ]; push_cast; field_simp
      rw [this]
      exact sin_int_frac_ne_zero (2 * N) (by omega) m hm0 (by push_cast; exact hm)
    have : ∑ i ∈ range N, (cos (0 + i * θ) + cos (0 + ((i : ℝ) + 1) * θ)) / 2 = 0 := by
      rcases mul_eq_zero.mp hT with h | h
      · rcases mul_eq_zero.mp h with h' | h'
        · norm_num at h'
        · exact absurd h' hs
      · exact h
    rw [this, mul_zero]

/-- Discrete orthonormality of the Wiener functions: on the uniform grid `0, 1/N, …, 1` the trapezoid
rule reproduces `∫₀¹ φ_j φ_k = δ_jk` exactly (no quadrature error) for all `j + k ≤ 2N`. -/
theorem wiener_discrete_orthonormal (N j k : ℕ) (hN : 0 < N) (hj : 1 ≤ j) (hk : 1 ≤ k) (hjk : j + k ≤ 2 * N) :
    trapzU 0 1 N (fun t => wiener j t * wiener k t) = if j = k then 1 else 0 := by
  have hprod : ∀ t : ℝ, wiener j t * wiener k t
      = cos ((((j : ℤ) - (k : ℤ) : ℤ) : ℝ) * π * t) - cos ((((j : ℤ) + (k : ℤ) - 1 : ℤ) : ℝ) * π * t) := by
    intro t
    unfold wiener
    have h2 : √2 * √2 = 2 := mul_self_sqrt (by norm_num)
    have e1 : ((((j : ℤ) - (k : ℤ) : ℤ) : ℝ)) * π * t
        = ((j : ℝ) - 1 / 2) * π * t - ((k : ℝ) - 1 / 2) * π * t := by push_cast; ring
    have e2 : ((((j : ℤ) + (k : ℤ) - 1 : ℤ) : ℝ)) * π * t
        = ((j : ℝ) - 1 / 2) * π * t + ((k : ℝ) - 1 / 2) * π * t := by push_cast; ring
    rw [e1, e2, cos_sub, cos_add]
    calc √2 * sin (((j : ℝ) - 1 / 2) * π * t) * (√2 * sin (((k : ℝ) - 1 / 2) * π * t))
        = (√2 * √2) * (sin (((j : ℝ) - 1 / 2) * π * t) * sin (((k : ℝ) - 1 / 2) * π * t)) := by ring
      _ = _ := by rw [h2]; ring
  simp_rw [hprod]
  rw [trapzU_sub, trapzU_cos_int_pi N hN _ (by rw [abs_lt]; constructor <;> omega),
    trapzU_cos_int_pi N hN _ (by rw [abs_lt]; constructor <;> omega)]
  have hne : ((j : ℤ) + (k : ℤ) - 1) ≠ 0 := by omega
  rw [if_neg hne, sub_zero]
  by_cases h : j = k
  · subst h; simp
  · have : ((j : ℤ) - (k : ℤ)) ≠ 0 := by omega
    rw [if_neg this, if_neg h]
/-- Orthonormality of the Fourier functions (in the angle variable) under ANY linear functional `Λ`
that integrates `cos(zθ)`, `sin(zθ)` like the integral over a full period for the frequencies `|z| < Z`
(value `V` on the constant `1`): `Λ(g_j g_k) = δ_jk·V/L` whenever the two frequencies add up to less than `Z`. -/
theorem gF_mul_functional (Λ : (ℝ → ℝ) → ℝ)
    (hadd : ∀ f g : ℝ → ℝ, Λ (fun θ => f θ + g θ) = Λ f + Λ g)
    (hsmul : ∀ (c : ℝ) (f : ℝ → ℝ), Λ (fun θ => c * f θ) = c * Λ f)
    (Z : ℕ) (V : ℝ)
    (hcos : ∀ z : ℤ, |z| < (Z : ℤ) → Λ (fun θ => cos ((z : ℝ) * θ)) = if z = 0 then V else 0)
    (hsin : ∀ z : ℤ, |z| < (Z : ℤ) → Λ (fun θ => sin ((z : ℝ) * θ)) = 0)
    (L : ℝ) (hL : 0 < L) (j k : ℕ) (hfreq : (j + 1) / 2 + (k + 1) / 2 < Z) :
    Λ (fun θ => gF L j θ * gF L k θ) = if j = k then V / L else 0 := by
  have hs : √L * √L = L := mul_self_sqrt hL.le
  have hs2 : √(2 / L) * √(2 / L) = 2 / L := mul_self_sqrt (by positivity)
  have hsL : √L ≠ 0 := (sqrt_pos.mpr hL).ne'
  have hZ : 0 < Z := by omega
  -- products of two trigonometric factors under Λ
  have hcc : ∀ m n : ℕ, m + n < Z → Λ (fun θ => cos ((m : ℝ) * θ) * cos ((n : ℝ) * θ))
      = (1 / 2) * ((if (m : ℤ) - n = 0 then V else 0) + (if (m : ℤ) + n = 0 then V else 0)) := by
    intro m n hmn
    have : (fun θ : ℝ => cos ((m : ℝ) * θ) * cos ((n : ℝ) * θ))
        = fun θ => (1 / 2) * (cos ((((m : ℤ) - n : ℤ) : ℝ) * θ) + cos ((((m : ℤ) + n : ℤ) : ℝ) * θ)) := by
      funext θ
      have e1 : (((m : ℤ) - n : ℤ) : ℝ) * θ = (m : ℝ) * θ - (n : ℝ) * θ := by push_cast; ring
      have e2 : (((m : ℤ) + n : ℤ) : ℝ) * θ = (m : ℝ) * θ + (n : ℝ) * θ := by push_cast; ring
      rw [e1, e2, cos_sub, cos_add]; ring
    rw [this, hsmul, hadd, hcos _ (by rw [abs_lt]; constructor <;> omega),
      hcos _ (by rw [abs_lt]; constructor <;> omega)]
  have hss : ∀ m n : ℕ, m + n < Z → Λ (fun θ => sin ((m : ℝ) * θ) * sin ((n : ℝ) * θ))
      = (1 / 2) * ((if (m : ℤ) - n = 0 then V else 0) + -(if (m : ℤ) + n = 0 then V else 0)) := by
    intro m n hmn
    have : (fun θ : ℝ => sin ((m : ℝ) * θ) * sin ((n : ℝ) * θ))
        = fun θ => (1 / 2) * (cos ((((m : ℤ) - n : ℤ) : ℝ) * θ) + (-1) * cos ((((m : ℤ) + n : ℤ) : ℝ) * θ)) := by
      funext θ
      have e1 : (((m : ℤ) - n : ℤ) : ℝ) * θ = (m : ℝ) * θ - (n : ℝ) * θ := by push_cast; ring
      have e2 : (((m : ℤ) + n : ℤ) : ℝ) * θ = (m : ℝ) * θ + (n : ℝ) * θ := by push_cast; ring
      rw [e1, e2, cos_sub, cos_add]; ring
    rw [this, hsmul, hadd, hsmul, hcos _ (by rw [abs_lt]; constructor <;> omega),
      hcos _ (by rw [abs_lt]; constructor <;> omega)]
    ring
  have hsc : ∀ m n : ℕ, m + n < Z → Λ (fun θ => sin ((m : ℝ) * θ) * cos ((n : ℝ) * θ)) = 0 := by
    intro m n hmn
    have : (fun θ : ℝ => sin ((m : ℝ) * θ) * cos ((n : ℝ) * θ))
        = fun θ => (1 / 2) * (sin ((((m : ℤ) + n : ℤ) : ℝ) * θ) + sin ((((m : ℤ) - n : ℤ) : ℝ) * θ)) := by
      funext θ
      have e1 : (((m : ℤ) - n : ℤ) : ℝ) * θ = (m : ℝ) * θ - (n : ℝ) * θ := by push_cast; ring
      have e2 : (((m : ℤ) + n : ℤ) : ℝ) * θ = (m : ℝ) * θ + (n : ℝ) * θ := by push_cast; ring
      rw [e1, e2, sin_sub, sin_add]; ring
    rw [this, hsmul, hadd, hsin _ (by rw [abs_lt]; constructor <;> omega),
      hsin _ (by rw [abs_lt]; constructor <;> omega)]
    ring
  have hc1 : ∀ m : ℕ, m < Z → Λ (fun θ => cos ((m : ℝ) * θ)) = if m = 0 then V else 0 := by
    intro m hm
    have := hcos (m : ℤ) (by rw [abs_lt]; constructor <;> omega)
    simpa using this
  have hs1 : ∀ m : ℕ, m < Z → Λ (fun θ => sin ((m : ℝ) * θ)) = 0 := by
    intro m hm
    have := hsin (m : ℤ) (by rw [abs_lt]; constructor <;> omega)
    simpa using this
  have hone : Λ (fun _ => (1 : ℝ)) = V := by
    have := hc1 0 hZ
    simpa using this
  rcases Nat.eq_zero_or_pos j with hj | hj <;> rcases Nat.eq_zero_or_pos k with hk | hk
  · subst hj; subst hk
    have : (fun θ : ℝ => gF L 0 θ * gF L 0 θ) = fun _ => (1 / L) * (fun _ : ℝ => (1 : ℝ)) 0 := by
      funext θ; simp only [gF, if_true]; rw [div_mul_div_comm, one_mul, hs, mul_one]
    rw [this, hsmul (1 / L) (fun _ => (1 : ℝ)), hone]; simp; ring
  · subst hj
    have hk0 : k ≠ 0 := by omega
    rw [if_neg (Ne.symm hk0)]
    have hm : (k + 1) / 2 ≠ 0 := by omega
    by_cases hpar : k % 2 = 1
    · have : (fun θ : ℝ => gF L 0 θ * gF L k θ)
          = fun θ => (1 / √L * √(2 / L)) * cos ((((k + 1) / 2 : ℕ) : ℝ) * θ) := by
        funext θ; simp only [gF, if_true, if_neg hk0, if_pos hpar]; ring
      rw [this, hsmul, hc1 _ (by omega), if_neg hm, mul_zero]
    · have : (fun θ : ℝ => gF L 0 θ * gF L k θ)
          = fun θ => (1 / √L * √(2 / L)) * sin ((((k + 1) / 2 : ℕ) : ℝ) * θ) := by
        funext θ; simp only [gF, if_true, if_neg hk0, if_neg hpar]; ring
      rw [this, hsmul, hs1 _ (by omega), mul_zero]
  · subst hk
    have hj0 : j ≠ 0 := by omega
    rw [if_neg hj0]
    have hm : (j + 1) / 2 ≠ 0 := by omega
    by_cases hpar : j % 2 = 1
    · have : (fun θ : ℝ => gF L j θ * gF L 0 θ)
          = fun θ => (1 / √L * √(2 / L)) * cos ((((j + 1) / 2 : ℕ) : ℝ) * θ) := by
        funext θ; simp only [gF, if_true, if_neg hj0, if_pos hpar]; ring
      rw [this, hsmul, hc1 _ (by omega), if_neg hm, mul_zero]
    · have : (fun θ : ℝ => gF L j θ * gF L 0 θ)
          = fun θ => (1 / √L * √(2 / L)) * sin ((((j + 1) / 2 : ℕ) : ℝ) * θ) := by
        funext θ; simp only [gF, if_true, if_neg hj0, if_neg hpar]; ring
      rw [this, hsmul, hs1 _ (by omega), mul_zero]
  · have hj0 : j ≠ 0 := by omega
    have hk0 : k ≠ 0 := by omega
    have hmj : 1 ≤ (j + 1) / 2 := by omega
    have hmk : 1 ≤ (k + 1) / 2 := by omega
    have hplus : ¬ (((((j + 1) / 2 : ℕ)) : ℤ) + (((k + 1) / 2 : ℕ) : ℤ) = 0) := by omega
    by_cases hpj : j % 2 = 1 <;> by_cases hpk : k % 2 = 1
    · have : (fun θ : ℝ => gF L j θ * gF L k θ) = fun θ => (√(2 / L) * √(2 / L))
          * (fun θ => cos ((((j + 1) / 2 : ℕ) : ℝ) * θ) * cos ((((k + 1) / 2 : ℕ) : ℝ) * θ)) θ := by
        funext θ; simp only [gF, if_neg hj0, if_neg hk0, if_pos hpj, if_pos hpk]; ring
      rw [this, hsmul, hcc _ _ hfreq, hs2, if_neg hplus]
      by_cases h : j = k
      · subst h; simp; field_simp
      · have : ¬ ((((j + 1) / 2 : ℕ) : ℤ) - (((k + 1) / 2 : ℕ) : ℤ) = 0) := by omega
        rw [if_neg this, if_neg h]; ring
    · have : (fun θ : ℝ => gF L j θ * gF L k θ) = fun θ => (√(2 / L) * √(2 / L))
          * (fun θ => sin ((((k + 1) / 2 : ℕ) : ℝ) * θ) * cos ((((j + 1) / 2 : ℕ) : ℝ) * θ)) θ := by
        funext θ; simp only [gF, if_neg hj0, if_neg hk0, if_pos hpj, if_neg hpk]; ring
      rw [this, hsmul, hsc _ _ (by omega), mul_zero, if_neg (by omega)]
    · have : (fun θ : ℝ => gF L j θ * gF L k θ) = fun θ => (√(2 / L) * √(2 / L))
          * (fun θ => sin ((((j + 1) / 2 : ℕ) : ℝ) * θ) * cos ((((k + 1) / 2 : ℕ) : ℝ) * θ)) θ := by
        funext θ; simp only [gF, if_neg hj0, if_neg hk0, if_neg hpj, if_pos hpk]; ring
      rw [this, hsmul, hsc _ _ hfreq, mul_zero, if_neg (by omega)]
    · have : (fun θ : ℝ => gF L j θ * gF L k θ) = fun θ => (√(2 / L) * √(2 / L))
          * (fun θ => sin ((((j + 1) / 2 : ℕ) : ℝ) * θ) * sin ((((k + 1) / 2 : ℕ) : ℝ) * θ)) θ := by
        funext θ; simp only [gF, if_neg hj0, if_neg hk0, if_neg hpj, if_neg hpk]; ring
      rw [this, hsmul, hss _ _ hfreq, hs2, if_neg hplus]
      by_cases h : j = k
      · subst h; simp; field_simp
      · have : ¬ ((((j + 1) / 2 : ℕ) : ℤ) - (((k + 1) / 2 : ℕ) : ℤ) = 0) := by omega
        rw [if_neg this, if_neg h]; ring


theorem fourierAngle_grid (a b : ℝ) (hab : a < b) (N : ℕ) (hN : 0 < N) (x : ℝ) :
    fourierAngle a b (a + x * ((b - a) / N)) = -π + x * (2 * π / N) := by
  have h1 : b - a ≠ 0 := by linarith
  have h2 : (N : ℝ) ≠ 0 := by exact_mod_cast hN.ne'
  unfold fourierAngle; field_simp; ring

theorem trapzU_cos_angle (a b : ℝ) (hab : a < b) (N : ℕ) (hN : 0 < N) (z : ℤ) (hz : |z| < (N : ℤ)) :
    trapzU a b N (fun t => cos ((z : ℝ) * fourierAngle a b t)) = if z = 0 then b - a else 0 := by
  have hNr : (N : ℝ) ≠ 0 := by exact_mod_cast hN.ne'
  unfold trapzU
  by_cases hz0 : z = 0
  · subst hz0; simp; field_simp
  · rw [if_neg hz0]
    set θ : ℝ := (z : ℝ) * (2 * π / N) with hθ
    set φ : ℝ := -((z : ℝ) * π) with hφ
    have hsum : ∑ i ∈ range N, (b - a) / N * ((cos ((z : ℝ) * fourierAngle a b (a + (i : ℝ) * ((b - a) / N)))
          + cos ((z : ℝ) * fourierAngle a b (a + ((i : ℝ) + 1) * ((b - a) / N)))) / 2)
        = ((b - a) / N) * ∑ i ∈ range N, (cos (φ + i * θ) + cos (φ + ((i : ℝ) + 1) * θ)) / 2 := by
      rw [Finset.mul_sum]
      apply Finset.sum_congr rfl; intro i _
      rw [fourierAngle_grid a b hab N hN, fourierAngle_grid a b hab N hN]
      have e1 : (z : ℝ) * (-π + (i : ℝ) * (2 * π / N)) = φ + i * θ := by rw [hφ, hθ]; ring
      have e2 : (z : ℝ) * (-π + ((i : ℝ) + 1) * (2 * π / N)) = φ + ((i : ℝ) + 1) * θ := by rw [hφ, hθ]; ring
      rw [e1, e2]
    rw [hsum]
    have hT := sum_cos_trapz φ θ N
    have hNθ : φ + N * θ = (z : ℝ) * π := by rw [hφ, hθ]; field_simp; ring
    rw [hNθ, hφ, sin_neg, sin_int_mul_pi] at hT
    simp only [neg_zero, sub_zero, mul_zero] at hT
    have hs : sin (θ / 2) ≠ 0 := by
      have : θ / 2 = (z : ℝ) * π / N := by rw [hθ]; field_simp
      rw [this]
      exact sin_int_frac_ne_zero N hN z hz0 hz
    have : ∑ i ∈ range N, (cos (φ + i * θ) + cos (φ + ((i : ℝ) + 1) * θ)) / 2 = 0 := by
      rcases mul_eq_zero.mp hT with h | h
      · rcases mul_eq_zero.mp h with h' | h'
        · norm_num at h'
        · exact absurd h' hs
      · exact h
    rw [this, mul_zero]

theorem trapzU_sin_angle (a b : ℝ) (hab : a < b) (N : ℕ) (hN : 0 < N) (z : ℤ) (hz : |z| < (N : ℤ)) :
    trapzU a b N (fun t => sin ((z : ℝ) * fourierAngle a b t)) = 0 := by
  have hNr : (N : ℝ) ≠ 0 := by exact_mod_cast hN.ne'
  unfold trapzU
  by_cases hz0 : z = 0
  · subst hz0; simp
  · set θ : ℝ := (z : ℝ) * (2 * π / N) with hθ
    set φ : ℝ := -((z : ℝ) * π) with hφ
    have hsum : ∑ i ∈ range N, (b - a) / N * ((sin ((z : ℝ) * fourierAngle a b (a + (i : ℝ) * ((b - a) / N)))
          + sin ((z : ℝ) * fourierAngle a b (a + ((i : ℝ) + 1) * ((b - a) / N)))) / 2)
        = ((b - a) / N) * ∑ i ∈ range N, (sin (φ + i * θ) + sin (φ + ((i : ℝ) + 1) * θ)) / 2 := by
      rw [Finset.mul_sum]
      apply Finset.sum_congr rfl; intro i _
      rw [fourierAngle_grid a b hab N hN, fourierAngle_grid a b hab N hN]
      have e1 : (z : ℝ) * (-π + (i : ℝ) * (2 * π / N)) = φ + i * θ := by rw [hφ, hθ]; ring
      have e2 : (z : ℝ) * (-π + ((i : ℝ) + 1) * (2 * π / N)) = φ + ((i : ℝ) + 1) * θ := by rw [hφ, hθ]; ring
      rw [e1, e2]
    rw [hsum]
    have hT := sum_sin_trapz φ θ N
    have hNθ : φ + N * θ = (z : ℝ) * π := by rw [hφ, hθ]; field_simp; ring
    rw [hNθ, hφ, cos_neg, sub_self, mul_zero] at hT
    have hs : sin (θ / 2) ≠ 0 := by
      have : θ / 2 = (z : ℝ) * π / N := by rw [hθ]; field_simp
      rw [this]
      exact sin_int_frac_ne_zero N hN z hz0 hz
    have : ∑ i ∈ range N, (sin (φ + i * θ) + sin (φ + ((i : ℝ) + 1) * θ)) / 2 = 0 := by
      rcases mul_eq_zero.mp hT with h | h
      · rcases mul_eq_zero.mp h with h' | h'
        · norm_num at h'
        · exact absurd h' hs
      · exact h
    rw [this, mul_zero]

/-- Discrete orthonormality of the Fourier functions: on the uniform grid with `N` intervals spanning
`[a, b]` the trapezoid rule reproduces `∫ f_j f_k = δ_jk` EXACTLY whenever the two frequencies
`⌈j/2⌉ + ⌈k/2⌉` add up to less than `N`. -/
theorem fourier_discrete_orthonormal (a b : ℝ) (hab : a < b) (N : ℕ) (hN : 0 < N) (j k : ℕ)
    (hfreq : (j + 1) / 2 + (k + 1) / 2 < N) :
    trapzU a b N (fun t => fourier a b j t * fourier a b k t) = if j = k then 1 else 0 := by
  have hL : 0 < b - a := by linarith
  have h := gF_mul_functional (fun f => trapzU a b N (fun t => f (fourierAngle a b t)))
    (fun f g => trapzU_add a b N _ _) (fun c f => trapzU_const_mul a b N c _) N (b - a)
    (fun z hz => trapzU_cos_angle a b hab N hN z hz) (fun z hz => trapzU_sin_angle a b hab N hN z hz)
    (b - a) hL j k hfreq
  simp only [← fourier_eq_gF] at h
  rw [h]
  by_cases hjk : j = k
  · rw [if_pos hjk, if_pos hjk]; field_simp
  · rw [if_neg hjk, if_neg hjk]
end FDA.BasesReal
