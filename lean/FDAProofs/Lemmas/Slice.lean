/-
Lemmas about the Python slice / range model `FDA.Slice` (helper lemmas for C13).
-/
import FDAModel.Slice
import Mathlib.Data.List.Nodup
import Mathlib.Data.List.Range
import Mathlib.Tactic.Linarith
import Mathlib.Tactic.Ring

namespace FDA.Slice

/-- Bounds of `slice.indices(n)` (CPython's `PySlice_AdjustIndices`). -/
theorem sliceIndices_bounds {n : Nat} {a b c : Option Int} {s e st : Int}
    (h : sliceIndices n a b c = some (s, e, st)) :
    st ≠ 0 ∧ (0 < st → 0 ≤ s ∧ s ≤ n ∧ 0 ≤ e ∧ e ≤ n) ∧
      (st < 0 → -1 ≤ s ∧ s ≤ (n : Int) - 1 ∧ -1 ≤ e ∧ e ≤ (n : Int) - 1) := by
  unfold sliceIndices at h
  simp only at h
  split at h
  · cases h
  · rename_i hst
    simp only [Option.some.injEq, Prod.mk.injEq] at h
    obtain ⟨hs, he, hst'⟩ := h
    subst hst'
    refine ⟨hst, ?_, ?_⟩
    · intro hpos
      subst hs; subst he
      cases a <;> cases b <;> simp only <;> (repeat' split) <;> omega
    · intro hneg
      subst hs; subst he
      cases a <;> cases b <;> simp only <;> (repeat' split) <;> omega

theorem sliceIndices_none_iff (n : Nat) (a b c : Option Int) :
    sliceIndices n a b c = none ↔ c = some 0 := by
  unfold sliceIndices
  simp only
  constructor
  · intro h
    split at h
    · rename_i h0
      cases c with
      | none => simp at h0
      | some v => simp at h0; rw [h0]
    · cases h
  · intro h; subst h; simp

/-- `i < len(range(s, e, st))` iff the `i`-th term is still before `e` (positive step). -/
theorem lt_rangeLen_pos {s e st : Int} (hst : 0 < st) (i : Nat) :
    i < rangeLen s e st ↔ s + (i : Int) * st < e := by
  unfold rangeLen
  simp only [hst, if_true]
  split
  · rename_i hse
    have h0 : 0 ≤ (e - s - 1) / st := Int.ediv_nonneg (by omega) (le_of_lt hst)
    have : (i : Int) < ((e - s - 1) / st + 1) ↔ (i : Int) * st ≤ e - s - 1 := by
      rw [Int.lt_add_one_iff, Int.le_ediv_iff_mul_le hst]
    constructor
    · intro h
      have h' : (i : Int) < ((e - s - 1) / st + 1) := by omega
      have := this.1 h'
      omega
    · intro h
      have h' : (i : Int) * st ≤ e - s - 1 := by omega
      have := this.2 h'
      omega
  · rename_i hse
    constructor
    · intro h; omega
    · intro h
      have : 0 ≤ (i : Int) * st := Int.mul_nonneg (Int.natCast_nonneg i) (le_of_lt hst)
      omega

/-- The same for a negative step. -/
theorem lt_rangeLen_neg {s e st : Int} (hst : st < 0) (i : Nat) :
    i < rangeLen s e st ↔ e < s + (i : Int) * st := by
  unfold rangeLen
  have hn : ¬ st > 0 := by omega
  simp only [hn, if_false]
  have hpos : 0 < -st := by omega
  split
  · rename_i hse
    have h0 : 0 ≤ (s - e - 1) / (-st) := Int.ediv_nonneg (by omega) (le_of_lt hpos)
    have : (i : Int) < ((s - e - 1) / (-st) + 1) ↔ (i : Int) * (-st) ≤ s - e - 1 := by
      rw [Int.lt_add_one_iff, Int.le_ediv_iff_mul_le hpos]
    have hm : (i : Int) * (-st) = -((i : Int) * st) := Int.mul_neg _ _
    constructor
    · intro h
      have h' : (i : Int) < ((s - e - 1) / (-st) + 1) := by omega
      have := this.1 h'
      omega
    · intro h
      have h' : (i : Int) * (-st) ≤ s - e - 1 := by omega
      have := this.2 h'
      omega
  · rename_i hse
    constructor
    · intro h; omega
    · intro h
      have : 0 ≤ (i : Int) * (-st) := Int.mul_nonneg (Int.natCast_nonneg i) (le_of_lt hpos)
      have hm : (i : Int) * (-st) = -((i : Int) * st) := Int.mul_neg _ _
      omega

theorem mem_rangeList {s e st x : Int} :
    x ∈ rangeList s e st ↔ ∃ i : Nat, i < rangeLen s e st ∧ x = s + (i : Int) * st := by
  unfold rangeList
  simp only [List.mem_map, List.mem_range]
  constructor
  · rintro ⟨i, hi, rfl⟩; exact ⟨i, hi, rfl⟩
  · rintro ⟨i, hi, rfl⟩; exact ⟨i, hi, rfl⟩

theorem length_rangeList (s e st : Int) : (rangeList s e st).length = rangeLen s e st := by
  simp [rangeList]

theorem getElem_rangeList {s e st : Int} {i : Nat} (h : i < (rangeList s e st).length) :
    (rangeList s e st)[i] = s + (i : Int) * st := by
  simp [rangeList]

/-- Every position a slice selects exists. -/
theorem slicePos_lt {n : Nat} {a b c : Option Int} {ps : List Nat} (h : slicePos n a b c = some ps) :
    ∀ p ∈ ps, p < n := by
  unfold slicePos at h
  cases hsi : sliceIndices n a b c with
  | none => simp [hsi] at h
  | some t =>
    obtain ⟨s, e, st⟩ := t
    simp only [hsi, Option.map_some, Option.some.injEq] at h
    subst h
    obtain ⟨h0, hp, hn⟩ := sliceIndices_bounds hsi
    intro p hp'
    obtain ⟨x, hx, rfl⟩ := List.mem_map.1 hp'
    obtain ⟨i, hi, rfl⟩ := mem_rangeList.1 hx
    rcases lt_or_gt_of_ne h0 with hneg | hpos
    · have hb := hn hneg
      have := (lt_rangeLen_neg hneg i).1 hi
      have h2 : (i : Int) * st ≤ 0 := Int.mul_nonpos_of_nonneg_of_nonpos (Int.natCast_nonneg i) (le_of_lt hneg)
      omega
    · have hb := hp hpos
      have := (lt_rangeLen_pos hpos i).1 hi
      have h2 : 0 ≤ (i : Int) * st := Int.mul_nonneg (Int.natCast_nonneg i) (le_of_lt hpos)
      omega

/-- A slice never selects a position twice. -/
theorem slicePos_nodup {n : Nat} {a b c : Option Int} {ps : List Nat} (h : slicePos n a b c = some ps) :
    ps.Nodup := by
  unfold slicePos at h
  cases hsi : sliceIndices n a b c with
  | none => simp [hsi] at h
  | some t =>
    obtain ⟨s, e, st⟩ := t
    simp only [hsi, Option.map_some, Option.some.injEq] at h
    subst h
    obtain ⟨h0, hp, hn⟩ := sliceIndices_bounds hsi
    unfold rangeList
    rw [List.map_map]
    apply List.Nodup.map_on _ List.nodup_range
    intro i hi j hj hij
    simp only [Function.comp, List.mem_range] at hi hj hij
    have hnonneg : ∀ k : Nat, k < rangeLen s e st → 0 ≤ s + (k : Int) * st := by
      intro k hk
      rcases lt_or_gt_of_ne h0 with hneg | hpos
      · have hb := hn hneg
        have := (lt_rangeLen_neg hneg k).1 hk
        omega
      · have hb := hp hpos
        have h2 : 0 ≤ (k : Int) * st := Int.mul_nonneg (Int.natCast_nonneg k) (le_of_lt hpos)
        omega
    have hi' := hnonneg i hi
    have hj' := hnonneg j hj
    have heq : s + (i : Int) * st = s + (j : Int) * st := by omega
    have : (i : Int) * st = (j : Int) * st := by omega
    have := Int.eq_of_mul_eq_mul_right h0 this
    exact_mod_cast this

theorem intPos_lt {n : Nat} {i : Int} {p : Nat} (h : intPos n i = some p) : p < n := by
  unfold intPos at h
  split at h
  · split at h
    · cases h; omega
    · cases h
  · split at h
    · cases h; omega
    · cases h

theorem mapM_some_forall {α β : Type} {f : α → Option β} {l : List α} {r : List β} (h : l.mapM f = some r) :
    r.length = l.length ∧ ∀ j (hj : j < l.length) (hj' : j < r.length), f l[j] = some r[j] := by
  induction l generalizing r with
  | nil => simp at h; subst h; simp
  | cons a t ih =>
    rw [List.mapM_cons] at h
    cases hfa : f a with
    | none => simp [hfa] at h
    | some b =>
      cases ht : t.mapM f with
      | none => simp [hfa, ht] at h
      | some bs =>
        simp [hfa, ht] at h
        subst h
        obtain ⟨hl, hall⟩ := ih ht
        refine ⟨by simp [hl], ?_⟩
        intro j hj hj'
        cases j with
        | zero => simpa using hfa
        | succ j => simpa using hall j (by simpa using hj) (by simpa using hj')

theorem arrPos_lt {n : Nat} {idx : List Int} {ps : List Nat} (h : arrPos n idx = some ps) :
    ∀ p ∈ ps, p < n := by
  unfold arrPos at h
  obtain ⟨hl, hall⟩ := mapM_some_forall h
  intro p hp
  obtain ⟨j, hj, rfl⟩ := List.getElem_of_mem hp
  exact intPos_lt (hall j (by omega) hj)

/-- Every position produced by resolving any index exists. -/
theorem resolve_positions_lt {n : Nat} {ix : Index} {ps : List Nat}
    (h : (resolve n ix).positions = some ps) : ∀ p ∈ ps, p < n := by
  cases ix with
  | int i =>
    simp only [resolve] at h
    cases hi : intPos n i with
    | none => simp [hi, Sel.positions] at h
    | some p =>
      simp only [hi, Sel.positions, Option.some.injEq] at h
      subst h
      intro q hq; simp at hq; subst hq; exact intPos_lt hi
  | slice a b c =>
    simp only [resolve] at h
    cases hs : slicePos n a b c with
    | none => simp [hs, Sel.positions] at h
    | some qs =>
      simp only [hs, Sel.positions, Option.some.injEq] at h
      subst h; exact slicePos_lt hs
  | arr idx =>
    simp only [resolve] at h
    cases hs : arrPos n idx with
    | none => simp [hs, Sel.positions] at h
    | some qs =>
      simp only [hs, Sel.positions, Option.some.injEq] at h
      subst h; exact arrPos_lt hs

theorem rangeLen_all (n : Nat) : rangeLen 0 (n : Int) 1 = n := by
  unfold rangeLen
  simp only [show (1 : Int) > 0 by decide, if_true]
  split
  · simp only [Int.sub_zero, Int.ediv_one]; omega
  · omega

theorem rangeLen_rev (n : Nat) : rangeLen ((n : Int) - 1) (-1) (-1) = n := by
  unfold rangeLen
  simp only [show ¬ ((-1 : Int) > 0) by decide, if_false]
  split
  · simp only [Int.neg_neg, Int.ediv_one]; omega
  · omega

end FDA.Slice
