/-
Helper lemmas for the sample estimators (`FDAModel/Stats.lean`), used by
`Props/C09.lean` and `Props/C10.lean`.
-/
import FDAModel.Stats
import FDAProofs.Lemmas.Quadrature
import Mathlib.Tactic.IntervalCases
import Mathlib.Tactic.NormNum
import Mathlib.Algebra.Order.Chebyshev
import Mathlib.Data.Rat.Floor

namespace FDA
open Finset

theorem colMean_perm (N : ℕ) (X : ℕ → ℕ → ℚ) (σ : ℕ → ℕ)
    (hσ : Set.BijOn σ (range N : Set ℕ) (range N : Set ℕ)) (j : ℕ) :
    colMean N (fun a => X (σ a)) j = colMean N X j := by
  unfold colMean
  congr 1
  exact Finset.sum_nbij σ (fun _ ha => hσ.mapsTo ha) (fun _ ha _ hb h => hσ.injOn ha hb h)
    (fun _ hb => hσ.surjOn hb) (fun _ _ => rfl)

theorem sum_perm (N : ℕ) (f : ℕ → ℚ) (σ : ℕ → ℕ)
    (hσ : Set.BijOn σ (range N : Set ℕ) (range N : Set ℕ)) :
    ∑ i ∈ range N, f (σ i) = ∑ i ∈ range N, f i :=
  Finset.sum_nbij σ (fun _ ha => hσ.mapsTo ha) (fun _ ha _ hb h => hσ.injOn ha hb h)
    (fun _ hb => hσ.surjOn hb) (fun _ _ => rfl)

theorem colMean_mul (N : ℕ) (X : ℕ → ℕ → ℚ) (hN : 0 < N) (j : ℕ) :
    (N : ℚ) * colMean N X j = ∑ i ∈ range N, X i j := by
  unfold colMean
  have : (N : ℚ) ≠ 0 := by exact_mod_cast hN.ne'
  field_simp

theorem sum_center (N : ℕ) (X : ℕ → ℕ → ℚ) (hN : 0 < N) (j : ℕ) :
    ∑ i ∈ range N, center N X i j = 0 := by
  unfold center
  rw [Finset.sum_sub_distrib, Finset.sum_const, card_range, nsmul_eq_mul, colMean_mul N X hN]
  ring

/-- `Σ_i Xc_ia Xc_ib = Σ_i X_ia X_ib − N m_a m_b`. -/
theorem sum_center_mul (N : ℕ) (X : ℕ → ℕ → ℚ) (hN : 0 < N) (a b : ℕ) :
    ∑ i ∈ range N, center N X i a * center N X i b =
      ∑ i ∈ range N, X i a * X i b - N * colMean N X a * colMean N X b := by
  have ha := colMean_mul N X hN a
  have hb := colMean_mul N X hN b
  have : ∀ i, center N X i a * center N X i b =
      X i a * X i b - colMean N X b * X i a - colMean N X a * X i b + colMean N X a * colMean N X b := by
    intro i; unfold center; ring
  simp_rw [this]
  rw [Finset.sum_add_distrib, Finset.sum_sub_distrib, Finset.sum_sub_distrib, ← Finset.mul_sum,
    ← Finset.mul_sum, Finset.sum_const, card_range, nsmul_eq_mul, ← ha, ← hb]
  ring

theorem window_shift (q : ℕ) (d x : ℕ → ℚ) (c : ℚ) (s : ℕ) :
    window q d (fun k => x k + c) s = window q d x s + c * ∑ k ∈ range (q + 1), d k := by
  unfold window
  rw [Finset.mul_sum, ← Finset.sum_add_distrib]
  apply Finset.sum_congr rfl; intro k _; ring

theorem window_smul (q : ℕ) (d x : ℕ → ℚ) (a : ℚ) (s : ℕ) :
    window q d (fun k => a * x k) s = a * window q d x s := by
  unfold window
  rw [Finset.mul_sum]
  apply Finset.sum_congr rfl; intro k _; ring

theorem noiseVar1_of_le {q L : ℕ} (d x : ℕ → ℚ) (h : q + 1 ≤ L) :
    noiseVar1 q d L x = (∑ s ∈ range (L - q), window q d x s ^ 2) / ((L - q : ℕ) : ℚ) := by
  unfold noiseVar1
  rw [if_neg (by omega)]

theorem noiseVar1_shift_exact {q L : ℕ} (d x : ℕ → ℚ) (c : ℚ) (h : q + 1 ≤ L) :
    noiseVar1 q d L (fun k => x k + c) =
      noiseVar1 q d L x + 2 * c * (∑ k ∈ range (q + 1), d k) * windowMean q d L x
        + c ^ 2 * (∑ k ∈ range (q + 1), d k) ^ 2 := by
  rw [noiseVar1_of_le d _ h, noiseVar1_of_le d x h]
  unfold windowMean
  have hn : (((L - q : ℕ)) : ℚ) ≠ 0 := by
    have : 0 < L - q := by omega
    exact_mod_cast this.ne'
  simp_rw [window_shift]
  set S := ∑ k ∈ range (q + 1), d k
  have : ∀ s, (window q d x s + c * S) ^ 2 = window q d x s ^ 2 + 2 * c * S * window q d x s + c ^ 2 * S ^ 2 := by
    intro s; ring
  simp_rw [this]
  rw [Finset.sum_add_distrib, Finset.sum_add_distrib, ← Finset.mul_sum, Finset.sum_const, card_range,
    nsmul_eq_mul]
  field_simp

theorem windowMean_sq_le {q L : ℕ} (d x : ℕ → ℚ) (h : q + 1 ≤ L) :
    windowMean q d L x ^ 2 ≤ noiseVar1 q d L x := by
  rw [noiseVar1_of_le d x h]
  unfold windowMean
  have hn : (0 : ℚ) < ((L - q : ℕ) : ℚ) := by
    have : 0 < L - q := by omega
    exact_mod_cast this
  have key := sq_sum_le_card_mul_sum_sq (s := range (L - q)) (f := fun s => window q d x s)
  rw [card_range] at key
  rw [div_pow, div_le_div_iff₀ (by positivity) hn]
  nlinarith [key]

theorem list_sum_map_range (N : ℕ) (f : ℕ → ℚ) :
    ((List.range N).map f).sum = ∑ i ∈ range N, f i := by
  induction N with
  | zero => simp
  | succ n ih =>
    rw [List.range_succ, List.map_append, List.sum_append, ih, Finset.sum_range_succ]; simp

/-! general facts about the sample covariance (used by `Props/C09.lean` and `Props/C10.lean`) -/

theorem mean_affine (N : ℕ) (X : ℕ → ℕ → ℚ) (a : ℚ) (c : ℕ → ℚ) (hN : 0 < N) (j : ℕ) :
    colMean N (fun i j => a * X i j + c j) j = a * colMean N X j + c j := by
  unfold colMean
  have : (N : ℚ) ≠ 0 := by exact_mod_cast hN.ne'
  rw [Finset.sum_add_distrib, ← Finset.mul_sum, Finset.sum_const, card_range, nsmul_eq_mul]
  field_simp

theorem cov_quadratic_form (N ddof m : ℕ) (X : ℕ → ℕ → ℚ) (v : ℕ → ℚ) :
    ∑ a ∈ range m, ∑ b ∈ range m, v a * v b * cov N ddof X a b =
      (∑ i ∈ range N, (∑ a ∈ range m, v a * center N X i a) ^ 2) / ((N : ℚ) - ddof) := by
  unfold cov covOf
  have : ∀ i, (∑ a ∈ range m, v a * center N X i a) ^ 2 =
      ∑ a ∈ range m, ∑ b ∈ range m, v a * v b * (center N X i a * center N X i b) := by
    intro i
    rw [sq, Finset.sum_mul_sum]
    apply Finset.sum_congr rfl; intro a _
    apply Finset.sum_congr rfl; intro b _
    ring
  simp_rw [this, Finset.sum_div, Finset.mul_sum, mul_div_assoc']
  conv_rhs => rw [Finset.sum_comm]
  apply Finset.sum_congr rfl; intro a _
  conv_rhs => rw [Finset.sum_comm]

theorem cov_affine (N ddof : ℕ) (X : ℕ → ℕ → ℚ) (s : ℚ) (c : ℕ → ℚ) (hN : 0 < N) (a b : ℕ) :
    cov N ddof (fun i j => s * X i j + c j) a b = s ^ 2 * cov N ddof X a b := by
  unfold cov covOf center
  simp only [mean_affine N X s c hN]
  rw [mul_div_assoc', Finset.mul_sum]
  congr 1
  apply Finset.sum_congr rfl; intro i _; ring

theorem cov_diag (N : ℕ) (X : ℕ → ℕ → ℚ) (j : ℕ) :
    popVar N X j = cov N 0 X j j ∧ (∀ ddof, ddof < N → 0 ≤ cov N ddof X j j) := by
  constructor
  · unfold popVar cov covOf center
    simp only [Nat.cast_zero, sub_zero]
    congr 1
    apply Finset.sum_congr rfl; intro i _; ring
  · intro ddof h
    unfold cov covOf
    apply div_nonneg
    · exact Finset.sum_nonneg fun i _ => mul_self_nonneg _
    · have : (ddof : ℚ) < N := by exact_mod_cast h
      linarith

/-! rounding half to even (`np.round`) stays within 1/2 of its argument -/

theorem floor_le' (x : ℚ) : ((x.floor : ℤ) : ℚ) ≤ x := Rat.le_floor_iff.mp le_rfl
theorem lt_floor_add_one' (x : ℚ) : x < ((x.floor : ℤ) : ℚ) + 1 := by
  by_contra h
  have h' : ((x.floor + 1 : ℤ) : ℚ) ≤ x := by push_cast; linarith [not_lt.mp h]
  have := Rat.le_floor_iff.mpr h'
  omega
theorem roundHalfEven_near (x : ℚ) (hx : 0 ≤ x) :
    (roundHalfEven x : ℚ) ≤ x + 1 / 2 ∧ x - 1 / 2 ≤ (roundHalfEven x : ℚ) := by
  have h0 : 0 ≤ x.floor := Rat.le_floor_iff.mpr (by simpa using hx)
  have hf : ((x.floor.toNat : ℕ) : ℚ) = ((x.floor : ℤ) : ℚ) := by
    have : ((x.floor.toNat : ℕ) : ℤ) = x.floor := Int.toNat_of_nonneg h0
    exact_mod_cast this
  have h1 := floor_le' x
  have h2 := lt_floor_add_one' x
  unfold roundHalfEven
  simp only
  rw [hf]
  split_ifs <;> (constructor <;> push_cast <;> (try rw [hf]) <;> linarith)


end FDA
