/-
Lemmas about the Python-dictionary model `FDA.Dict` (helper lemmas for C11 / C13).
-/
import FDAModel.Core.Dict
import Mathlib.Data.List.Perm.Subperm
import Mathlib.Data.List.Nodup

namespace FDA.Dict

variable {α β γ : Type}

@[simp] theorem get?_nil (k : Int) : get? ([] : D α) k = none := rfl

theorem get?_cons (k' : Int) (e : α) (t : D α) (k : Int) :
    get? ((k', e) :: t) k = if k' = k then some e else get? t k := rfl

theorem keys_cons (p : Int × α) (t : D α) : keys (p :: t) = p.1 :: keys t := rfl

@[simp] theorem keys_nil : keys ([] : D α) = [] := rfl

theorem get?_isSome_iff_mem_keys (d : D α) (k : Int) : (get? d k).isSome ↔ k ∈ keys d := by
  induction d with
  | nil => simp
  | cons p t ih =>
    obtain ⟨k', e⟩ := p
    rw [get?_cons, keys_cons]
    by_cases h : k' = k
    · simp [h]
    · simp only [h, if_false, ih, List.mem_cons]
      constructor
      · intro hm; exact Or.inr hm
      · rintro (hk | hm)
        · exact absurd hk.symm h
        · exact hm

theorem get?_eq_none_iff (d : D α) (k : Int) : get? d k = none ↔ k ∉ keys d := by
  rw [← get?_isSome_iff_mem_keys]
  cases get? d k <;> simp

theorem mem_of_get? {d : D α} {k : Int} {e : α} (h : get? d k = some e) : (k, e) ∈ d := by
  induction d with
  | nil => simp at h
  | cons p t ih =>
    obtain ⟨k', e'⟩ := p
    rw [get?_cons] at h
    by_cases hk : k' = k
    · simp only [hk, if_true, Option.some.injEq] at h
      subst hk; subst h; exact List.mem_cons_self
    · simp only [hk, if_false] at h
      exact List.mem_cons_of_mem _ (ih h)

theorem get?_of_mem {d : D α} (hn : NodupKeys d) {k : Int} {e : α} (h : (k, e) ∈ d) :
    get? d k = some e := by
  induction d with
  | nil => simp at h
  | cons p t ih =>
    obtain ⟨k', e'⟩ := p
    unfold NodupKeys at hn
    rw [keys_cons, List.nodup_cons] at hn
    rw [get?_cons]
    rcases List.mem_cons.1 h with heq | hm
    · cases heq; simp
    · have hk : k ∈ keys t := List.mem_map.2 ⟨(k, e), hm, rfl⟩
      have : k' ≠ k := by
        intro hh; subst hh; exact hn.1 hk
      simp only [this, if_false]
      exact ih hn.2 hm

/-! ### `set` -/

theorem get?_set (d : D α) (k : Int) (e : α) (j : Int) :
    get? (set d k e) j = if k = j then some e else get? d j := by
  induction d with
  | nil => simp [set, get?_cons]
  | cons p t ih =>
    obtain ⟨k', e'⟩ := p
    unfold set
    by_cases h : k' = k
    · subst h
      simp only [if_true, get?_cons]
      by_cases hj : k' = j <;> simp [hj]
    · simp only [h, if_false, get?_cons, ih]
      by_cases hj : k' = j
      · subst hj
        have : ¬ k = k' := fun hh => h hh.symm
        simp [this]
      · simp [hj]

theorem keys_set (d : D α) (k : Int) (e : α) :
    keys (set d k e) = if k ∈ keys d then keys d else keys d ++ [k] := by
  induction d with
  | nil => simp [set, keys]
  | cons p t ih =>
    obtain ⟨k', e'⟩ := p
    unfold set
    by_cases h : k' = k
    · subst h; simp [keys]
    · simp only [h, if_false, keys_cons, ih, List.mem_cons]
      have hne : ¬ k = k' := fun hh => h hh.symm
      by_cases hm : k ∈ keys t
      · simp [hm]
      · simp [hm, hne]

theorem nodupKeys_set {d : D α} (h : NodupKeys d) (k : Int) (e : α) : NodupKeys (set d k e) := by
  unfold NodupKeys at *
  rw [keys_set]
  by_cases hm : k ∈ keys d
  · simp [hm, h]
  · simp only [hm, if_false]
    rw [List.nodup_append]
    refine ⟨h, List.nodup_singleton k, ?_⟩
    intro a ha b hb
    simp only [List.mem_singleton] at hb
    subst hb
    intro hab; subst hab; exact hm ha

theorem length_set (d : D α) (k : Int) (e : α) :
    (set d k e).length = if k ∈ keys d then d.length else d.length + 1 := by
  have := congrArg List.length (keys_set d k e)
  simp only [keys, List.length_map] at this
  rw [this]
  by_cases hm : k ∈ List.map Prod.fst d <;> simp [hm, keys]

/-! ### `setAll` / `ofList` -/

theorem setAll_nil (d : D α) : setAll d [] = d := rfl

theorem setAll_cons (d : D α) (p : Int × α) (xs : List (Int × α)) :
    setAll d (p :: xs) = setAll (set d p.1 p.2) xs := rfl

theorem nodupKeys_setAll {d : D α} (h : NodupKeys d) (xs : List (Int × α)) : NodupKeys (setAll d xs) := by
  induction xs generalizing d with
  | nil => exact h
  | cons p xs ih => rw [setAll_cons]; exact ih (nodupKeys_set h _ _)

theorem nodupKeys_nil : NodupKeys ([] : D α) := List.nodup_nil

theorem nodupKeys_ofList (xs : List (Int × α)) : NodupKeys (ofList xs) :=
  nodupKeys_setAll nodupKeys_nil xs

/-- The last binding of `k` in a list of assignments. -/
def lastGet? : List (Int × α) → Int → Option α
  | [], _ => none
  | (k', e) :: t, k => match lastGet? t k with
    | some x => some x
    | none => if k' = k then some e else none

theorem get?_setAll (d : D α) (xs : List (Int × α)) (j : Int) :
    get? (setAll d xs) j = match lastGet? xs j with
      | some e => some e
      | none => get? d j := by
  induction xs generalizing d with
  | nil => simp [setAll_nil, lastGet?]
  | cons p xs ih =>
    obtain ⟨k, e⟩ := p
    rw [setAll_cons, ih, lastGet?]
    cases h : lastGet? xs j with
    | some x => simp
    | none =>
      simp only [get?_set]
      by_cases hk : k = j <;> simp [hk]

theorem lastGet?_eq_get?_of_nodup {xs : D α} (h : NodupKeys xs) (j : Int) :
    lastGet? xs j = get? xs j := by
  induction xs with
  | nil => rfl
  | cons p t ih =>
    obtain ⟨k, e⟩ := p
    unfold NodupKeys at h
    rw [keys_cons, List.nodup_cons] at h
    rw [lastGet?, get?_cons, ih h.2]
    by_cases hk : k = j
    · subst hk
      have : get? t k = none := (get?_eq_none_iff t k).2 h.1
      simp [this]
    · simp only [hk, if_false]
      cases get? t j <;> rfl

/-- On a list with distinct keys `ofList` is the identity. -/
theorem get?_ofList_of_nodup {xs : D α} (h : NodupKeys xs) (j : Int) :
    get? (ofList xs) j = get? xs j := by
  unfold ofList
  rw [get?_setAll, lastGet?_eq_get?_of_nodup h]
  cases get? xs j <;> simp

/-! ### `mapVals`, `shift` -/

theorem keys_mapVals (f : α → β) (d : D α) : keys (mapVals f d) = keys d := by
  simp [keys, mapVals, List.map_map, Function.comp_def]

theorem get?_mapVals (f : α → β) (d : D α) (k : Int) : get? (mapVals f d) k = (get? d k).map f := by
  induction d with
  | nil => rfl
  | cons p t ih =>
    obtain ⟨k', e⟩ := p
    simp only [mapVals, List.map_cons, get?_cons] at *
    by_cases h : k' = k <;> simp [h, ih]

theorem nodupKeys_mapVals {d : D α} (f : α → β) (h : NodupKeys d) : NodupKeys (mapVals f d) := by
  unfold NodupKeys; rw [keys_mapVals]; exact h

theorem length_mapVals (f : α → β) (d : D α) : (mapVals f d).length = d.length := by
  simp [mapVals]

/-! ### `eqBy` (Python's `dict.__eq__`) -/

theorem eqBy_iff [DecidableEq β] (f : α → β) (g : γ → β) (a : D α) (b : D γ) :
    eqBy f g a b = true ↔
      a.length = b.length ∧ ∀ p ∈ a, (get? b p.1).map g = some (f p.2) := by
  unfold eqBy
  simp only [Bool.and_eq_true, beq_iff_eq, List.all_eq_true]
  constructor
  · rintro ⟨hl, h⟩
    refine ⟨hl, fun p hp => ?_⟩
    have := h p hp
    cases hg : get? b p.1 with
    | none => simp [hg] at this
    | some e => simp only [hg, decide_eq_true_eq] at this; simp [this]
  · rintro ⟨hl, h⟩
    refine ⟨hl, fun p hp => ?_⟩
    have := h p hp
    cases hg : get? b p.1 with
    | none => simp [hg] at this
    | some e => simp only [hg, Option.map_some, Option.some.injEq] at this; simp [this]

/-- Reflexivity of the dictionary comparison (needs distinct keys). -/
theorem eqBy_self [DecidableEq β] (f : α → β) {a : D α} (h : NodupKeys a) : eqBy f f a a = true := by
  rw [eqBy_iff]
  refine ⟨rfl, fun p hp => ?_⟩
  rw [get?_of_mem h (show (p.1, p.2) ∈ a from hp)]
  rfl

/-- The pigeonhole step: equal lengths, distinct keys and `keys a ⊆ keys b` give `keys b ⊆ keys a`. -/
theorem keys_subset_of_length_eq {a : D α} {b : D γ} (ha : NodupKeys a) (hl : a.length = b.length)
    (hsub : ∀ k ∈ keys a, k ∈ keys b) : ∀ k ∈ keys b, k ∈ keys a := by
  have hsp : (keys a).Subperm (keys b) := List.subperm_of_subset ha hsub
  have hlen : (keys b).length ≤ (keys a).length := by simp [keys, hl]
  have hperm := hsp.perm_of_length_le hlen
  intro k hk
  exact hperm.symm.subset hk

/-- Meaning of an accepted compatibility check: the two dictionaries agree key by key. -/
theorem eqBy_lookup [DecidableEq β] {f : α → β} {g : γ → β} {a : D α} {b : D γ}
    (ha : NodupKeys a) (h : eqBy f g a b = true) (k : Int) :
    (get? a k).map f = (get? b k).map g := by
  rw [eqBy_iff] at h
  obtain ⟨hl, hall⟩ := h
  cases hak : get? a k with
  | some e =>
    have := hall (k, e) (mem_of_get? hak)
    simp [this]
  | none =>
    have hna : k ∉ keys a := (get?_eq_none_iff a k).1 hak
    have hsub : ∀ j ∈ keys a, j ∈ keys b := by
      intro j hj
      obtain ⟨p, hp, rfl⟩ := List.mem_map.1 hj
      have := hall p hp
      rw [← get?_isSome_iff_mem_keys]
      cases hg : get? b p.1 with
      | none => simp [hg] at this
      | some _ => rfl
    have hnb : k ∉ keys b := fun hkb => hna (keys_subset_of_length_eq ha hl hsub k hkb)
    rw [(get?_eq_none_iff b k).2 hnb]
    rfl

end FDA.Dict
