import FDAModel.Core.SqrtQ
import Mathlib.Algebra.Order.Field.Basic
import Mathlib.Data.Nat.Sqrt
import Mathlib.Data.Rat.Lemmas
import Mathlib.Tactic.Ring
import Mathlib.Tactic.Linarith
import Mathlib.Tactic.FieldSimp
import Mathlib.Tactic.Positivity

/-! The bracket of the drivers' rational square root. -/
namespace FDA

theorem sqrtLo_bracket (P : ℕ) (q : ℚ) (hq : 0 ≤ q) :
    0 ≤ sqrtLo P q ∧ sqrtLo P q ^ 2 ≤ q ∧ q < (sqrtLo P q + 1 / (10 ^ P : ℕ)) ^ 2 := by
  unfold sqrtLo
  rw [if_neg (not_lt.2 hq)]
  set n := q.num.toNat with hn
  set d := q.den with hd
  set T := 10 ^ (2 * P) with hT
  set k := n * T / d with hk
  set r := Nat.sqrt k with hr
  have hdpos : 0 < d := q.den_pos
  have hTsq : (T : ℚ) = ((10 ^ P : ℕ) : ℚ) ^ 2 := by
    rw [hT]; push_cast; ring
  have hPpos : (0 : ℚ) < ((10 ^ P : ℕ) : ℚ) := by positivity
  have hqeq : q = (n : ℚ) / (d : ℚ) := by
    have hnum : (q.num : ℚ) = (n : ℚ) := by
      have : 0 ≤ q.num := Rat.num_nonneg.2 hq
      rw [hn]
      exact_mod_cast (Int.toNat_of_nonneg this).symm
    have := Rat.num_div_den q
    rw [hnum] at this
    exact this.symm
  have hdq : (0 : ℚ) < (d : ℚ) := by exact_mod_cast hdpos
  -- k ≤ nT/d < k+1
  have hk1 : (k : ℚ) * d ≤ n * T := by
    have : k * d ≤ n * T := Nat.div_mul_le_self _ _
    exact_mod_cast this
  have hk2 : (n : ℚ) * T < ((k : ℚ) + 1) * d := by
    have : n * T < (k + 1) * d := by
      rw [hk]
      exact (Nat.div_lt_iff_lt_mul hdpos).1 (Nat.lt_succ_self (n * T / d))
    exact_mod_cast this
  have hr1 : (r : ℚ) ^ 2 ≤ k := by
    have : r * r ≤ k := Nat.sqrt_le k
    have : ((r * r : ℕ) : ℚ) ≤ (k : ℚ) := by exact_mod_cast this
    rw [pow_two]; exact_mod_cast this
  have hr2 : (k : ℚ) + 1 ≤ ((r : ℚ) + 1) ^ 2 := by
    have : k < (r + 1) * (r + 1) := Nat.lt_succ_sqrt k
    have : k + 1 ≤ (r + 1) * (r + 1) := this
    have : ((k + 1 : ℕ) : ℚ) ≤ (((r + 1) * (r + 1) : ℕ) : ℚ) := by exact_mod_cast this
    rw [pow_two]; exact_mod_cast this
  refine ⟨by positivity, ?_, ?_⟩
  · rw [div_pow, div_le_iff₀ (by positivity), hqeq, div_mul_eq_mul_div, le_div_iff₀ hdq, ← hTsq]
    calc (r : ℚ) ^ 2 * d ≤ k * d := by nlinarith
      _ ≤ n * T := hk1
  · have : (r : ℚ) / ((10 ^ P : ℕ) : ℚ) + 1 / ((10 ^ P : ℕ) : ℚ) = ((r : ℚ) + 1) / ((10 ^ P : ℕ) : ℚ) := by ring
    rw [this, div_pow, lt_div_iff₀ (by positivity), hqeq, div_mul_eq_mul_div, div_lt_iff₀ hdq, ← hTsq]
    calc (n : ℚ) * T < (k + 1) * d := hk2
      _ ≤ ((r : ℚ) + 1) ^ 2 * d := by nlinarith

end FDA
