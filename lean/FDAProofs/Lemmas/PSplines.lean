/-
Helper lemmas for `FDAModel/PSplines.lean`: algebra of the penalised normal
equations, positive semi-definiteness, right inverse ⇒ left inverse (through
`Matrix`), soundness of the certifying solver, polynomial sequences in the null
space of the difference penalty.
-/
import FDAModel.PSplines
import FDAProofs.Lemmas.BSpline
import Mathlib.Algebra.BigOperators.Ring.Finset
import Mathlib.Algebra.Order.BigOperators.Ring.Finset
import Mathlib.Algebra.BigOperators.Fin
import Mathlib.LinearAlgebra.Matrix.NonsingularInverse
import Mathlib.Tactic.Ring
import Mathlib.Tactic.Linarith
import Mathlib.Tactic.Positivity

namespace FDA.PSpline
open Finset FDA.BSpline

/-! ### Quadratic forms -/

theorem quadForm_bwb (nb n : ℕ) (w : ℕ → ℚ) (B : ℕ → ℕ → ℚ) (v : ℕ → ℚ) :
    quadForm nb (bwb n w B) v = ∑ i ∈ range n, w i * (∑ k ∈ range nb, B k i * v k) ^ 2 := by
  unfold quadForm bwb
  have : ∀ i, w i * (∑ k ∈ range nb, B k i * v k) ^ 2
      = ∑ k ∈ range nb, ∑ l ∈ range nb, v k * (B k i * w i * B l i) * v l := by
    intro i
    rw [sq, Finset.sum_mul_sum, Finset.mul_sum]
    apply Finset.sum_congr rfl; intro k _
    rw [Finset.mul_sum]
    apply Finset.sum_congr rfl; intro l _
    ring
  simp_rw [this]
  symm
  rw [Finset.sum_comm]
  apply Finset.sum_congr rfl; intro k _
  rw [Finset.sum_comm]
  apply Finset.sum_congr rfl; intro l _
  rw [Finset.mul_sum, Finset.sum_mul]

theorem quadForm_add (nb : ℕ) (A P : ℕ → ℕ → ℚ) (v : ℕ → ℚ) :
    quadForm nb (fun k l => A k l + P k l) v = quadForm nb A v + quadForm nb P v := by
  unfold quadForm
  rw [← Finset.sum_add_distrib]
  apply Finset.sum_congr rfl; intro k _
  rw [← Finset.sum_add_distrib]
  apply Finset.sum_congr rfl; intro l _
  ring

theorem quadForm_penMat (nb ord : ℕ) (v : ℕ → ℚ) :
    quadForm nb (penMat nb ord) v
      = ∑ r ∈ range (nb - ord), (∑ k ∈ range nb, diffMat ord r k * v k) ^ 2 := by
  unfold quadForm penMat
  have : ∀ r, (∑ k ∈ range nb, diffMat ord r k * v k) ^ 2
      = ∑ k ∈ range nb, ∑ l ∈ range nb, v k * (diffMat ord r k * diffMat ord r l) * v l := by
    intro r
    rw [sq, Finset.sum_mul_sum]
    apply Finset.sum_congr rfl; intro k _
    apply Finset.sum_congr rfl; intro l _
    ring
  simp_rw [this]
  symm
  rw [Finset.sum_comm]
  apply Finset.sum_congr rfl; intro k _
  rw [Finset.sum_comm]
  apply Finset.sum_congr rfl; intro l _
  rw [Finset.mul_sum, Finset.sum_mul]

theorem quadForm_pen1_nonneg (nb ord : ℕ) (lam : ℚ) (hl : 0 ≤ lam) (v : ℕ → ℚ) :
    0 ≤ quadForm nb (pen1 nb ord lam) v := by
  have : quadForm nb (pen1 nb ord lam) v = lam * quadForm nb (penMat nb ord) v := by
    unfold quadForm pen1
    rw [Finset.mul_sum]; apply Finset.sum_congr rfl; intro k _
    rw [Finset.mul_sum]; apply Finset.sum_congr rfl; intro l _
    ring
  rw [this, quadForm_penMat]
  exact mul_nonneg hl (Finset.sum_nonneg fun r _ => sq_nonneg _)

/-- `vᵀ A v = v · (A v)`. -/
theorem quadForm_eq_dot (nb : ℕ) (A : ℕ → ℕ → ℚ) (v : ℕ → ℚ) :
    quadForm nb A v = ∑ k ∈ range nb, v k * ∑ l ∈ range nb, A k l * v l := by
  unfold quadForm
  apply Finset.sum_congr rfl; intro k _
  rw [Finset.mul_sum]
  apply Finset.sum_congr rfl; intro l _
  ring

/-! ### Right inverse ⇒ left inverse -/

def toMatrix (nb : ℕ) (A : ℕ → ℕ → ℚ) : Matrix (Fin nb) (Fin nb) ℚ := fun i j => A i.val j.val

theorem isInverse_iff (nb : ℕ) (A X : ℕ → ℕ → ℚ) :
    IsInverse nb A X ↔ toMatrix nb A * toMatrix nb X = 1 := by
  unfold IsInverse
  constructor
  · intro h
    ext i j
    rw [Matrix.mul_apply, Matrix.one_apply]
    have := h i.val i.isLt j.val j.isLt
    rw [← Fin.sum_univ_eq_sum_range (fun m => A i.val m * X m j.val) nb] at this
    simp only [toMatrix, this, Fin.ext_iff]
  · intro h k hk l hl
    have := congrFun (congrFun h ⟨k, hk⟩) ⟨l, hl⟩
    rw [Matrix.mul_apply, Matrix.one_apply] at this
    rw [← Fin.sum_univ_eq_sum_range (fun m => A k m * X m l) nb]
    simpa [toMatrix, Fin.ext_iff] using this

theorem isInverse_comm (nb : ℕ) (A X : ℕ → ℕ → ℚ) (h : IsInverse nb A X) : IsInverse nb X A := by
  rw [isInverse_iff] at h ⊢
  exact mul_eq_one_comm.mp h

/-- With an inverse at hand the normal equations have exactly one solution. -/
theorem isFit_unique (nb : ℕ) (A X : ℕ → ℕ → ℚ) (b β : ℕ → ℚ)
    (hX : IsInverse nb A X) (hβ : IsFit nb A b β) : ∀ k < nb, β k = coefOf nb X b k := by
  intro k hk
  have hXA := isInverse_comm nb A X hX
  unfold coefOf
  calc β k = ∑ m ∈ range nb, (if k = m then 1 else 0) * β m := by
        rw [Finset.sum_eq_single k]
        · simp
        · intro m _ hm; simp [Ne.symm hm]
        · intro h; exact absurd (mem_range.mpr hk) h
    _ = ∑ m ∈ range nb, (∑ l ∈ range nb, X k l * A l m) * β m := by
        apply Finset.sum_congr rfl; intro m hm
        rw [hXA k hk m (mem_range.mp hm)]
    _ = ∑ l ∈ range nb, X k l * ∑ m ∈ range nb, A l m * β m := by
        simp_rw [Finset.sum_mul, Finset.mul_sum]
        rw [Finset.sum_comm]
        apply Finset.sum_congr rfl; intro l _
        apply Finset.sum_congr rfl; intro m _
        ring
    _ = ∑ l ∈ range nb, X k l * b l := by
        apply Finset.sum_congr rfl; intro l hl
        rw [hβ l (mem_range.mp hl)]

theorem coefOf_isFit (nb : ℕ) (A X : ℕ → ℕ → ℚ) (b : ℕ → ℚ) (hX : IsInverse nb A X) :
    IsFit nb A b (coefOf nb X b) := by
  intro k hk
  unfold coefOf
  calc ∑ l ∈ range nb, A k l * ∑ m ∈ range nb, X l m * b m
      = ∑ m ∈ range nb, (∑ l ∈ range nb, A k l * X l m) * b m := by
        simp_rw [Finset.sum_mul, Finset.mul_sum]
        rw [Finset.sum_comm]
        apply Finset.sum_congr rfl; intro m _
        apply Finset.sum_congr rfl; intro l _
        ring
    _ = ∑ m ∈ range nb, (if k = m then 1 else 0) * b m := by
        apply Finset.sum_congr rfl; intro m hm
        rw [hX k hk m (mem_range.mp hm)]
    _ = b k := by
        rw [Finset.sum_eq_single k]
        · simp
        · intro m _ hm; simp [Ne.symm hm]
        · intro h; exact absurd (mem_range.mpr hk) h

/-! ### Soundness of the certifying solver -/

theorem isInverseB_sound (nb : ℕ) (A X : ℕ → ℕ → ℚ) (h : isInverseB nb A X = true) :
    IsInverse nb A X := by
  unfold isInverseB at h
  rw [List.all_eq_true] at h
  intro k hk l hl
  have h1 := h k (List.mem_range.mpr hk)
  rw [List.all_eq_true] at h1
  exact of_decide_eq_true (h1 l (List.mem_range.mpr hl))

theorem isFitB_sound (nb : ℕ) (A : ℕ → ℕ → ℚ) (b β : ℕ → ℚ) (h : isFitB nb A b β = true) :
    IsFit nb A b β := by
  unfold isFitB at h
  rw [List.all_eq_true] at h
  intro k hk
  exact of_decide_eq_true (h k (List.mem_range.mpr hk))

/-! ### Polynomial coefficient sequences are annihilated by the difference penalty -/

open scoped fwdDiff in
open Polynomial in
theorem iter_pow_nat_eq_zero (j n : ℕ) (h : j < n) (r : ℕ) :
    (Δ_[1]^[n] (fun l : ℕ => (l : ℚ) ^ j)) r = 0 := by
  have e : (fun l : ℕ => (l : ℚ) ^ j) = fun l : ℕ => ((X : ℚ[X]) ^ j).eval (l : ℚ) := by
    funext l; simp
  rw [e, iter_eval_nat]
  have := Polynomial.fwdDiff_iter_eq_zero_of_degree_lt (P := (X : ℚ[X]) ^ j) (n := n)
    (by rw [natDegree_X_pow]; exact h)
  rw [this]; simp

end FDA.PSpline
