/-
The exact term-by-term integral of `FDAModel/Bases.lean` (`polyIntSym`) is the Riemann integral
over `[-1, 1]` of the real polynomial with the same coefficients.
-/
import FDAProofs.Lemmas.Bases
import Mathlib.Analysis.SpecialFunctions.Integrals.Basic
namespace FDA.Bases
open intervalIntegral

/-- Evaluation of a rational coefficient list at a real point. -/
noncomputable def polyEvalR : List ℚ → ℝ → ℝ
  | [], _ => 0
  | a :: p, x => (a : ℝ) + x * polyEvalR p x

theorem polyEvalR_continuous : ∀ c : List ℚ, Continuous (polyEvalR c)
  | [] => by
    show Continuous fun _ : ℝ => (0 : ℝ)
    exact continuous_const
  | a :: p => by
    have := polyEvalR_continuous p
    show Continuous fun x => (a : ℝ) + x * polyEvalR p x
    fun_prop

theorem polyEvalR_cast (c : List ℚ) (x : ℚ) : polyEvalR c (x : ℝ) = ((polyEval c x : ℚ) : ℝ) := by
  induction c with
  | nil => simp [polyEvalR, polyEval]
  | cons a p ih => simp [polyEvalR, polyEval, ih]

theorem polyEvalR_add : ∀ (p q : List ℚ) (x : ℝ), polyEvalR (polyAdd p q) x = polyEvalR p x + polyEvalR q x
  | [], q, x => by simp [polyAdd, polyEvalR]
  | a :: p, [], x => by simp [polyAdd, polyEvalR]
  | a :: p, b :: q, x => by simp [polyAdd, polyEvalR, polyEvalR_add p q x]; ring

theorem polyEvalR_scale (c : ℚ) : ∀ (p : List ℚ) (x : ℝ), polyEvalR (polyScale c p) x = (c : ℝ) * polyEvalR p x
  | [], x => by simp [polyScale, polyEvalR]
  | a :: p, x => by
    have := polyEvalR_scale c p x
    simp only [polyScale, List.map_cons, polyEvalR] at this ⊢
    rw [this]; push_cast; ring

theorem polyEvalR_mul : ∀ (p q : List ℚ) (x : ℝ), polyEvalR (polyMul p q) x = polyEvalR p x * polyEvalR q x
  | [], q, x => by simp [polyMul, polyEvalR]
  | a :: p, q, x => by
    simp only [polyMul, polyEvalR_add, polyEvalR_scale, polyMulX, polyEvalR_mul p q x, polyEvalR]
    ring

/-- The term-by-term formula is the integral: `∫_{-1}^{1} x^k·P(x) dx = polyIntSymAux P k`. -/
theorem integral_polyEvalR_aux : ∀ (c : List ℚ) (k : ℕ),
    ∫ x in (-1:ℝ)..1, x ^ k * polyEvalR c x = ((polyIntSymAux c k : ℚ) : ℝ)
  | [], k => by simp [polyEvalR, polyIntSymAux]
  | a :: p, k => by
    have ih := integral_polyEvalR_aux p (k + 1)
    have hsplit : ∀ x : ℝ, x ^ k * polyEvalR (a :: p) x = (a : ℝ) * x ^ k + x ^ (k + 1) * polyEvalR p x := by
      intro x; simp only [polyEvalR]; ring
    simp_rw [hsplit]
    have hc := polyEvalR_continuous p
    rw [intervalIntegral.integral_add (Continuous.intervalIntegrable (by fun_prop) _ _)
      (Continuous.intervalIntegrable (by fun_prop) _ _), intervalIntegral.integral_const_mul, integral_pow, ih]
    simp only [polyIntSymAux]
    push_cast
    ring

theorem integral_polyEvalR (c : List ℚ) :
    ∫ x in (-1:ℝ)..1, polyEvalR c x = ((polyIntSym c : ℚ) : ℝ) := by
  have := integral_polyEvalR_aux c 0
  simpa [polyIntSym] using this

end FDA.Bases
