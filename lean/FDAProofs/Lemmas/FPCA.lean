import FDAModel.FPCA
import FDAProofs.Lemmas.Quadrature
import Mathlib.Data.Matrix.Mul
import Mathlib.LinearAlgebra.Matrix.NonsingularInverse
import Mathlib.Algebra.BigOperators.Fin
import Mathlib.Algebra.BigOperators.Intervals
import Mathlib.Algebra.Order.Field.Basic
import Mathlib.Tactic.Ring
import Mathlib.Tactic.Linarith
import Mathlib.Tactic.FieldSimp

/-! Helper lemmas for C02 / C03 (UFPCA algebra over an arbitrary field). -/
namespace FDA.FPCA
open Finset

section generic
variable {F : Type} [Field F]

/-- A square matrix with orthonormal rows has orthonormal columns
(`U Uᵀ = 1 → Uᵀ U = 1`), in the `ℕ → ℕ → F` / `range m` representation. -/
theorem cols_orthonormal_of_rows (m : ℕ) (U : ℕ → ℕ → F)
    (h : ∀ a < m, ∀ b < m, ∑ j ∈ range m, U a j * U b j = if a = b then 1 else 0) :
    ∀ i < m, ∀ j < m, ∑ k ∈ range m, U k i * U k j = if i = j then 1 else 0 := by
  classical
  let M : Matrix (Fin m) (Fin m) F := Matrix.of fun a j => U a j
  have h1 : M * M.transpose = 1 := by
    ext a b
    rw [Matrix.mul_apply]
    simp only [Matrix.transpose_apply, Matrix.one_apply, M, Matrix.of_apply]
    have := h a a.2 b b.2
    rw [Finset.sum_range] at this
    rw [this]
    simp [Fin.ext_iff]
  have h2 : M.transpose * M = 1 := mul_eq_one_comm.1 h1
  intro i hi j hj
  have := congrFun (congrFun h2 ⟨i, hi⟩) ⟨j, hj⟩
  rw [Matrix.mul_apply] at this
  simp only [Matrix.transpose_apply, Matrix.one_apply, M, Matrix.of_apply] at this
  rw [Finset.sum_range]
  rw [this]
  simp [Fin.ext_iff]

/-- Spectral decomposition from a complete orthonormal eigen-system:
`A = Σ_k λ_k u_k u_kᵀ`. -/
theorem spectral_of_complete (m : ℕ) (A : ℕ → ℕ → F) (U : ℕ → ℕ → F) (lam : ℕ → F)
    (hrows : ∀ a < m, ∀ b < m, ∑ j ∈ range m, U a j * U b j = if a = b then 1 else 0)
    (heig : ∀ k < m, ∀ i < m, ∑ j ∈ range m, A i j * U k j = lam k * U k i) :
    ∀ i < m, ∀ j < m, A i j = ∑ k ∈ range m, lam k * U k i * U k j := by
  classical
  have hcols := cols_orthonormal_of_rows m U hrows
  intro i hi j hj
  calc A i j = ∑ j' ∈ range m, A i j' * (if j' = j then 1 else 0) := by
        simp [Finset.sum_ite_eq', hj]
    _ = ∑ j' ∈ range m, A i j' * ∑ k ∈ range m, U k j' * U k j := by
        apply Finset.sum_congr rfl
        intro j' hj'
        rw [hcols j' (mem_range.1 hj') j hj]
    _ = ∑ k ∈ range m, (∑ j' ∈ range m, A i j' * U k j') * U k j := by
        simp_rw [Finset.mul_sum, Finset.sum_mul]
        rw [Finset.sum_comm]
        apply Finset.sum_congr rfl; intro k _
        apply Finset.sum_congr rfl; intro j' _
        ring
    _ = ∑ k ∈ range m, lam k * U k i * U k j := by
        apply Finset.sum_congr rfl
        intro k hk
        rw [heig k (mem_range.1 hk) i hi]

/-- `Σ_j w_j z_j φ_k(j)` with `φ_k = Xcᵀ v_k / r_k` is a row of the Gram matrix applied to `v_k`. -/
theorem innerWF_gramEigfun (m N : ℕ) (w : ℕ → F) (Xc V : ℕ → ℕ → F) (r : ℕ → F) (z : ℕ → F) (k : ℕ) :
    innerWF m w z (gramEigfun N Xc V r k) =
      (∑ i ∈ range N, innerWF m w z (Xc i) * V k i) / r k := by
  unfold innerWF gramEigfun
  calc ∑ j ∈ range m, w j * (z j * ((∑ i ∈ range N, Xc i j * V k i) / r k))
      = ∑ j ∈ range m, ∑ i ∈ range N, w j * (z j * Xc i j) * V k i / r k := by
        apply Finset.sum_congr rfl; intro j _
        rw [Finset.sum_div, Finset.mul_sum, Finset.mul_sum]
        apply Finset.sum_congr rfl; intro i _
        ring
    _ = ∑ i ∈ range N, ∑ j ∈ range m, w j * (z j * Xc i j) * V k i / r k := Finset.sum_comm
    _ = (∑ i ∈ range N, (∑ j ∈ range m, w j * (z j * Xc i j)) * V k i) / r k := by
        rw [Finset.sum_div]
        apply Finset.sum_congr rfl; intro i _
        rw [Finset.sum_mul, Finset.sum_div]

theorem innerWF_comm (m : ℕ) (w x y : ℕ → F) : innerWF m w x y = innerWF m w y x := by
  unfold innerWF; apply Finset.sum_congr rfl; intro j _; ring

/-- `⟨(Σ_i c_i X_i)/d, y⟩_w = (Σ_i c_i ⟨X_i, y⟩_w)/d`. -/
theorem innerWF_linear_comb (m N : ℕ) (w : ℕ → F) (c : ℕ → F) (X : ℕ → ℕ → F) (d : F) (y : ℕ → F) :
    innerWF m w (fun j' => (∑ i ∈ range N, c i * X i j') / d) y
      = (∑ i ∈ range N, c i * innerWF m w (X i) y) / d := by
  unfold innerWF
  calc ∑ j ∈ range m, w j * ((∑ i ∈ range N, c i * X i j) / d * y j)
      = ∑ j ∈ range m, ∑ i ∈ range N, c i * (w j * (X i j * y j)) / d := by
        apply Finset.sum_congr rfl; intro j _
        rw [Finset.sum_div, Finset.sum_mul, Finset.mul_sum]
        apply Finset.sum_congr rfl; intro i _
        ring
    _ = ∑ i ∈ range N, ∑ j ∈ range m, c i * (w j * (X i j * y j)) / d := Finset.sum_comm
    _ = (∑ i ∈ range N, c i * ∑ j ∈ range m, w j * (X i j * y j)) / d := by
        rw [Finset.sum_div]
        apply Finset.sum_congr rfl; intro i _
        rw [Finset.mul_sum, Finset.sum_div]

/-- Gram route: from `(G − σ²I) v_k = l'_k v_k` the projection of curve `i` on `φ_k` is
`(l'_k + σ²) v_k(i) / r_k`. -/
theorem gram_proj (m N : ℕ) (w : ℕ → F) (Xc V : ℕ → ℕ → F) (r l' : ℕ → F) (σ2 : F) (k : ℕ)
    (heig : ∀ i < N, ∑ i' ∈ range N, gramShift (gramW m w Xc) σ2 i i' * V k i' = l' k * V k i) :
    ∀ i < N, innerWF m w (Xc i) (gramEigfun N Xc V r k) = (l' k + σ2) * V k i / r k := by
  classical
  intro i hi
  have h := heig i hi
  unfold gramShift at h
  have e : ∑ i' ∈ range N, (gramW m w Xc i i' - if i = i' then σ2 else 0) * V k i'
      = ∑ i' ∈ range N, gramW m w Xc i i' * V k i' - σ2 * V k i := by
    simp_rw [sub_mul, Finset.sum_sub_distrib, ite_mul, zero_mul]
    rw [Finset.sum_ite_eq, if_pos (mem_range.2 hi)]
  rw [e] at h
  rw [innerWF_gramEigfun]
  have : ∑ i' ∈ range N, innerWF m w (Xc i) (Xc i') * V k i' = ∑ i' ∈ range N, gramW m w Xc i i' * V k i' := rfl
  rw [this]
  congr 1
  rw [add_mul, ← h]; ring

end generic

/-- The trapezoid inner product in weights form (`m ≥ 2`). -/
theorem inner_eq_innerWF (m : ℕ) (t x y : ℕ → ℚ) (hm : 2 ≤ m) :
    inner m t x y = innerWF m (trapzW m t) x y := by
  unfold inner innerWF
  rw [FDA.trapz_eq_weights m t _ hm]

theorem gram_symm' (N n : ℕ) (t : ℕ → ℚ) (X : ℕ → ℕ → ℚ) (i k : ℕ) :
    gram N n t X i k = gram N n t X k i := by
  unfold gram inner; congr 1; funext j; ring

/-- The code's procedure (upper triangle, minus `σ²` on the diagonal, plus the transpose,
diagonal halved) computes `G − σ² I` (same statement as `C08.gramImpl_eq`, re-proved here
so that C02/C03 do not depend on another property's file). -/
theorem gramImpl_eq (N n : ℕ) (t : ℕ → ℚ) (X : ℕ → ℕ → ℚ) (σ2 : ℚ) (i k : ℕ) :
    gramImpl N n t X σ2 i k = gram N n t X i k - (if i = k then σ2 else 0) := by
  unfold gramImpl
  by_cases h : i = k
  · subst h; simp [gram]
  · rcases Nat.lt_or_gt_of_ne h with hlt | hgt
    · have h1 : i ≤ k := hlt.le
      have h2 : ¬ k ≤ i := by omega
      have h3 : ¬ k = i := fun e => h e.symm
      simp [h, h1, h2, h3, gram]
    · have h1 : ¬ i ≤ k := by omega
      have h2 : k ≤ i := hgt.le
      have h3 : ¬ k = i := fun e => h e.symm
      simp [h, h1, h2, h3]
      exact gram_symm' N n t X k i

end FDA.FPCA

namespace FDA.FPCA
open Finset

/-- Row-major flattening of a double sum: `Σ_{j<m₁m₂} f (j/m₂) (j%m₂) = Σ_a Σ_b f a b`. -/
theorem sum_flat (m₁ m₂ : ℕ) (f : ℕ → ℕ → ℚ) :
    ∑ j ∈ range (m₁ * m₂), f (j / m₂) (j % m₂) = ∑ a ∈ range m₁, ∑ b ∈ range m₂, f a b := by
  rcases Nat.eq_zero_or_pos m₂ with h0 | hpos
  · subst h0; simp
  induction m₁ with
  | zero => simp
  | succ n ih =>
    rw [Nat.succ_mul, Finset.sum_range_add, ih, Finset.sum_range_succ]
    congr 1
    apply Finset.sum_congr rfl
    intro b hb
    have hb := mem_range.1 hb
    have h1 : (n * m₂ + b) / m₂ = n := by
      rw [Nat.mul_comm, Nat.mul_add_div hpos, Nat.div_eq_of_lt hb, Nat.add_zero]
    have h2 : (n * m₂ + b) % m₂ = b := by
      rw [Nat.mul_comm, Nat.mul_add_mod, Nat.mod_eq_of_lt hb]
    rw [h1, h2]

/-- 2-D scores by nested `np.trapz` are the flat weighted sums with the product weights. -/
theorem scoresTrapz2_eq_scoresW (m₁ m₂ : ℕ) (h₁ : 2 ≤ m₁) (h₂ : 2 ≤ m₂) (t₁ t₂ : ℕ → ℚ)
    (Z Phi : ℕ → ℕ → ℚ) (i k : ℕ) :
    scoresTrapz2 m₁ m₂ t₁ t₂ Z Phi i k = scoresW (m₁ * m₂) (trapzW2 m₁ m₂ t₁ t₂) Z Phi i k := by
  unfold scoresTrapz2 scoresW innerWF integrate2
  rw [FDA.trapz_eq_weights m₂ t₂ _ h₂]
  simp_rw [FDA.trapz_eq_weights m₁ t₁ _ h₁]
  have hpos : 0 < m₂ := by omega
  have key : ∀ j ∈ range (m₁ * m₂), trapzW2 m₁ m₂ t₁ t₂ j * (Z i j * Phi k j)
      = (fun a b => trapzW m₁ t₁ a * trapzW m₂ t₂ b * (Z i (a * m₂ + b) * Phi k (a * m₂ + b))) (j / m₂) (j % m₂) := by
    intro j _
    have : j / m₂ * m₂ + j % m₂ = j := by rw [Nat.mul_comm]; exact Nat.div_add_mod j m₂
    simp only [trapzW2, this]
  rw [Finset.sum_congr rfl key,
    sum_flat m₁ m₂ (fun a b => trapzW m₁ t₁ a * trapzW m₂ t₂ b * (Z i (a * m₂ + b) * Phi k (a * m₂ + b))),
    Finset.sum_comm]
  apply Finset.sum_congr rfl; intro b _
  rw [Finset.mul_sum]
  apply Finset.sum_congr rfl; intro a _
  ring

theorem scoresTrapz_eq_scoresW (m : ℕ) (hm : 2 ≤ m) (t : ℕ → ℚ) (Z Phi : ℕ → ℕ → ℚ) (i k : ℕ) :
    scoresTrapz m t Z Phi i k = scoresW m (trapzW m t) Z Phi i k := by
  unfold scoresTrapz scoresW innerWF
  rw [FDA.trapz_eq_weights m t _ hm]

end FDA.FPCA
