import FDAModel.Core.Quadrature
import Mathlib.Tactic.Ring
import Mathlib.Tactic.Linarith
import Mathlib.Tactic.FieldSimp
import Mathlib.Algebra.BigOperators.Ring.Finset
import Mathlib.Algebra.Order.BigOperators.Ring.Finset
import Mathlib.Algebra.BigOperators.Field

namespace FDA
open Finset

theorem trapz_succ (n : ℕ) (t y : ℕ → ℚ) :
    trapz (n + 2) t y = trapz (n + 1) t y + (t (n + 1) - t n) * (y (n + 1) + y n) / 2 := by
  simp [trapz, Finset.sum_range_succ]

theorem trapzW_lt {n j : ℕ} (t : ℕ → ℚ) (h : j + 1 < n) :
    trapzW (n + 1) t j = trapzW n t j := by
  unfold trapzW
  have h1 : min (j + 1) (n + 1 - 1) = j + 1 := by omega
  have h2 : min (j + 1) (n - 1) = j + 1 := by omega
  rw [h1, h2]

/-- The quadrature `np.trapz` agrees with the package's own trapezoid weights. -/
theorem trapz_eq_weights : ∀ (n : ℕ) (t y : ℕ → ℚ), 2 ≤ n →
    trapz n t y = ∑ j ∈ range n, trapzW n t j * y j := by
  intro n t y hn
  obtain ⟨m, rfl⟩ : ∃ m, n = m + 2 := ⟨n - 2, by omega⟩
  clear hn
  induction m with
  | zero =>
    simp [trapz, trapzW, Finset.sum_range_succ]
    ring
  | succ m ih =>
    rw [trapz_succ, ih]
    rw [Finset.sum_range_succ (fun j => trapzW (m + 1 + 2) t j * y j)]
    rw [Finset.sum_range_succ (fun j => trapzW (m + 1 + 2) t j * y j) (m + 1)]
    rw [Finset.sum_range_succ (fun j => trapzW (m + 2) t j * y j) (m + 1)]
    have hlt : ∀ j ∈ range (m + 1), trapzW (m + 1 + 2) t j * y j = trapzW (m + 2) t j * y j := by
      intro j hj
      rw [mem_range] at hj
      rw [show m + 1 + 2 = (m + 2) + 1 from rfl, trapzW_lt t (by omega)]
    rw [Finset.sum_congr rfl hlt]
    have e1 : trapzW (m + 1 + 2) t (m + 1) = (t (m + 2) - t m) / 2 := by
      unfold trapzW
      have : min (m + 1 + 1) (m + 1 + 2 - 1) = m + 2 := by omega
      rw [this]; rfl
    have e2 : trapzW (m + 1 + 2) t (m + 2) = (t (m + 2) - t (m + 1)) / 2 := by
      unfold trapzW
      have : min (m + 2 + 1) (m + 1 + 2 - 1) = m + 2 := by omega
      rw [this]; rfl
    have e3 : trapzW (m + 2) t (m + 1) = (t (m + 1) - t m) / 2 := by
      unfold trapzW
      have : min (m + 1 + 1) (m + 2 - 1) = m + 1 := by omega
      rw [this]; rfl
    rw [e1, e2, e3]
    ring

theorem trapzW_nonneg {n : ℕ} {t : ℕ → ℚ} (hmono : ∀ i j, i ≤ j → t i ≤ t j) (j : ℕ)
    (hj : j < n) : 0 ≤ trapzW n t j := by
  unfold trapzW
  have : t (j - 1) ≤ t (min (j + 1) (n - 1)) := hmono _ _ (by omega)
  linarith

theorem trapzW_pos {n : ℕ} {t : ℕ → ℚ} (hmono : ∀ i j, i < j → t i < t j) (hn : 2 ≤ n) (j : ℕ)
    (hj : j < n) : 0 < trapzW n t j := by
  unfold trapzW
  have : t (j - 1) < t (min (j + 1) (n - 1)) := hmono _ _ (by omega)
  linarith

/-! The three shapes of a trapezoid weight on `m + 2` points (no `min`, no truncated subtraction). -/
theorem trapzW_first (m : ℕ) (x : ℕ → ℚ) : trapzW (m + 2) x 0 = (x 1 - x 0) / 2 := by
  have : min (0 + 1) (m + 2 - 1) = 1 := by omega
  unfold trapzW; rw [this]

theorem trapzW_mid (m k : ℕ) (x : ℕ → ℚ) (hk : k < m) : trapzW (m + 2) x (k + 1) = (x (k + 2) - x k) / 2 := by
  have : min (k + 1 + 1) (m + 2 - 1) = k + 2 := by omega
  unfold trapzW; rw [this]; simp

theorem trapzW_last (m : ℕ) (x : ℕ → ℚ) : trapzW (m + 2) x (m + 1) = (x (m + 1) - x m) / 2 := by
  have : min (m + 1 + 1) (m + 2 - 1) = m + 1 := by omega
  unfold trapzW; rw [this]; simp

end FDA
