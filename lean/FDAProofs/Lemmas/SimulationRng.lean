/-
Helper lemmas for C19: worlds, programs that only use their own generator,
list facts for the cluster labels.
-/
import FDAModel.SimulationRng
import Mathlib.Tactic.Linarith
import Mathlib.Tactic.Ring
import Mathlib.Tactic.Positivity
import Mathlib.Tactic.FieldSimp
import Mathlib.Algebra.Order.Field.Basic

namespace FDA.Rng

variable {G D O O' : Type}

@[ext] theorem World.ext' {w w' : World G} (h1 : w.glob = w'.glob) (h2 : w.own = w'.own) : w = w' := by
  cases w; cases w'; simp_all

theorem setOwn_self (w : World G) (a : Nat) : setOwn w a (w.own a) = w := by
  refine World.ext' (by rfl) ?_
  funext b
  unfold setOwn
  by_cases h : b = a
  · simp [h]
  · simp [h]

theorem setOwn_setOwn (w : World G) (a : Nat) (g g' : G) : setOwn (setOwn w a g) a g' = setOwn w a g' := by
  refine World.ext' (by rfl) ?_
  funext b
  unfold setOwn
  by_cases h : b = a <;> simp [h]

@[simp] theorem setOwn_own_same (w : World G) (a : Nat) (g : G) : (setOwn w a g).own a = g := by
  simp [setOwn]

theorem setOwn_own_ne (w : World G) {a b : Nat} (g : G) (h : b ≠ a) : (setOwn w a g).own b = w.own b := by
  simp [setOwn, h]

@[simp] theorem setOwn_glob (w : World G) (a : Nat) (g : G) : (setOwn w a g).glob = w.glob := rfl

/-- A program whose draws all use the simulator's own generator behaves in the world exactly as
on that generator alone: the same output, the own generator advanced, nothing else touched. -/
theorem run_allOwn (next : G → D × G) (a : Nat) {p : Prog D O} (h : AllOwn p) :
    ∀ w : World G, p.run next a w = ((p.runOwn next (w.own a)).1, setOwn w a (p.runOwn next (w.own a)).2) := by
  induction h with
  | ret o => intro w; simp [Prog.run, Prog.runOwn, setOwn_self]
  | draw k _ ih =>
    intro w
    simp only [Prog.run, Prog.runOwn]
    rw [ih]
    simp [setOwn_setOwn]

/-- a program of another simulator never touches the generator of simulator `a` -/
theorem run_own_other (next : G → D × G) {a b : Nat} (hab : b ≠ a) (p : Prog D O) :
    ∀ w : World G, (p.run next b w).2.own a = w.own a := by
  induction p with
  | ret o => intro w; rfl
  | draw s k ih =>
    intro w
    cases s with
    | own =>
      simp only [Prog.run]
      rw [ih]
      exact setOwn_own_ne w _ (Ne.symm hab)
    | global =>
      simp only [Prog.run]
      rw [ih]

theorem outputsOf_cons_same (a : Nat) (o : O) (l : List (Nat × O)) :
    outputsOf a ((a, o) :: l) = o :: outputsOf a l := by
  simp [outputsOf]

theorem outputsOf_cons_ne {a b : Nat} (h : b ≠ a) (o : O) (l : List (Nat × O)) :
    outputsOf a ((b, o) :: l) = outputsOf a l := by
  simp [outputsOf, h]

/-- Joint invariant behind non-interference. -/
theorem trace_invariant (next : G → D × G) (a : Nat) :
    ∀ (tr : List (Ev D O)) (w : World G), (∀ p ∈ opsOf a tr, AllOwn p) →
      outputsOf a (runTrace next tr w).1 = (runSeq next (opsOf a tr) (w.own a)).1 ∧
      (runTrace next tr w).2.own a = (runSeq next (opsOf a tr) (w.own a)).2
  | [], w, _ => by simp [runTrace, opsOf, runSeq, outputsOf]
  | .op b p :: tr, w, h => by
    by_cases hb : b = a
    · subst hb
      have hp : AllOwn p := h p (by simp [opsOf])
      have hrest : ∀ q ∈ opsOf b tr, AllOwn q := fun q hq => h q (by simp [opsOf, hq])
      have hr := run_allOwn next b hp w
      have ih := trace_invariant next b tr (p.run next b w).2 hrest
      simp only [runTrace, opsOf, if_true, runSeq]
      rw [outputsOf_cons_same]
      rw [hr] at ih ⊢
      simp only [setOwn_own_same] at ih
      exact ⟨by rw [ih.1], ih.2⟩
    · have hrest : ∀ q ∈ opsOf a tr, AllOwn q := fun q hq => h q (by simp [opsOf, hb, hq])
      have ih := trace_invariant next a tr (p.run next b w).2 hrest
      rw [run_own_other next hb p w] at ih
      simp only [runTrace, opsOf, hb, if_false]
      rw [outputsOf_cons_ne hb]
      exact ih
  | .other n :: tr, w, h => by
    have hrest : ∀ q ∈ opsOf a tr, AllOwn q := fun q hq => h q (by simpa [opsOf] using hq)
    have ih := trace_invariant next a tr { w with glob := drainGlobal next n w.glob } hrest
    simpa [runTrace, opsOf] using ih

/-! ### the programs of the operations only use the source they are given -/

theorem allOwn_bind {p : Prog D O} {f : O → Prog D O'} (hp : AllOwn p) (hf : ∀ o, AllOwn (f o)) :
    AllOwn (p.bind f) := by
  induction hp with
  | ret o => exact hf o
  | draw k _ ih => exact AllOwn.draw _ ih

theorem allOwn_map {p : Prog D O} (f : O → O') (hp : AllOwn p) : AllOwn (p.map f) :=
  allOwn_bind hp fun _ => AllOwn.ret _

theorem allOwn_drawN : ∀ n : Nat, AllOwn (drawN (D := D) .own n)
  | 0 => AllOwn.ret _
  | n + 1 => AllOwn.draw _ fun _ => allOwn_map _ (allOwn_drawN n)

theorem allOwn_curveProg (needs : D → Bool) : AllOwn (curveProg needs .own) := by
  refine AllOwn.draw _ fun m => ?_
  by_cases h : needs m
  · simp only [h, if_true]; exact AllOwn.draw _ fun _ => AllOwn.ret _
  · simp only [h]; exact AllOwn.ret _

theorem allOwn_curvesProg (needs : D → Bool) : ∀ n : Nat, AllOwn (curvesProg needs .own n)
  | 0 => AllOwn.ret _
  | n + 1 => allOwn_bind (allOwn_curveProg needs) fun _ => allOwn_map _ (allOwn_curvesProg needs n)

theorem allOwn_sparsifyCompProg (needs : D → Bool) (n : Nat) : AllOwn (sparsifyCompProg needs .own n) :=
  AllOwn.draw _ fun _ => allOwn_map _ (allOwn_curvesProg needs n)

theorem allOwn_sparsifyProg (needs : D → Bool) : ∀ cs : List Nat, AllOwn (sparsifyProg needs .own cs)
  | [] => AllOwn.ret _
  | n :: ns => allOwn_bind (allOwn_sparsifyCompProg needs n) fun _ => allOwn_map _ (allOwn_sparsifyProg needs ns)

/-! ### list facts for the labels -/

theorem sum_map_range_sizes (c r : Nat) : ∀ k : Nat,
    ((List.range k).map fun g => c + (if g < r then 1 else 0)).sum = k * c + min r k
  | 0 => by simp
  | k + 1 => by
    rw [List.range_succ, List.map_append, List.sum_append, sum_map_range_sizes c r k]
    simp only [List.map_cons, List.map_nil, List.sum_cons, List.sum_nil, Nat.add_zero]
    rw [Nat.succ_mul]
    by_cases h : k < r
    · simp only [h, if_true]; omega
    · simp only [h, if_false]; omega

theorem sum_map_range_indicator (f : Nat → Nat) (g : Nat) : ∀ k : Nat,
    ((List.range k).map fun g' => if g' = g then f g' else 0).sum = if g < k then f g else 0
  | 0 => by simp
  | k + 1 => by
    rw [List.range_succ, List.map_append, List.sum_append, sum_map_range_indicator f g k]
    simp only [List.map_cons, List.map_nil, List.sum_cons, List.sum_nil, Nat.add_zero]
    by_cases h1 : g < k
    · have : k ≠ g := by omega
      simp [h1, this]; omega
    · by_cases h2 : k = g
      · subst h2; simp
      · have : ¬ g < k + 1 := by omega
        simp [h1, h2, this]

end FDA.Rng
