import FDAModel.Tabular
import Mathlib.Data.List.Range
import Mathlib.Data.List.Nodup
import Mathlib.Data.List.Forall2
import Mathlib.Tactic.Ring
import Mathlib.Tactic.Linarith

/-! Helper lemmas for the tabular conversions (C14, C15). -/
namespace FDA.Tab

theorem range_mul_flatMap (m P : ℕ) :
    List.range (m * P) = (List.range m).flatMap fun a => (List.range P).map (a * P + ·) := by
  induction m with
  | zero => simp
  | succ m ih =>
    rw [Nat.succ_mul, List.range_add, ih, List.range_succ, List.flatMap_append]
    simp

/-- `itertools.product` enumerates the multi-indices in row-major order: the `p`-th
point has linear index `p`. -/
theorem product_map_lin (shape : List ℕ) :
    (product shape).map (lin shape) = List.range shape.prod := by
  induction shape with
  | nil => simp [product, lin]
  | cons m ms ih =>
    simp only [product, List.prod_cons, List.map_flatMap, List.map_map]
    rw [range_mul_flatMap]
    congr 1
    funext a
    have : (lin (m :: ms) ∘ fun x => a :: x) = (fun p => a * ms.prod + p) ∘ lin ms := by
      funext x; simp [lin]
    rw [this, ← List.map_map, ih]

theorem product_length (shape : List ℕ) : (product shape).length = shape.prod := by
  have := congrArg List.length (product_map_lin shape)
  simpa using this

theorem product_nodup (shape : List ℕ) : (product shape).Nodup := by
  have h : ((product shape).map (lin shape)).Nodup := by
    rw [product_map_lin]; exact List.nodup_range
  exact List.Nodup.of_map _ h

theorem lin_getElem (shape : List ℕ) (p : ℕ) (hp : p < (product shape).length) :
    lin shape ((product shape)[p]) = p := by
  have h := product_map_lin shape
  have h1 : ((product shape).map (lin shape))[p]'(by simpa using hp) = lin shape ((product shape)[p]) := by
    simp
  rw [← h1]
  simp [h]

/-- The points of the product grid are exactly the in-range multi-indices. -/
theorem mem_product_iff (shape pt : List ℕ) :
    pt ∈ product shape ↔ List.Forall₂ (· < ·) pt shape := by
  induction shape generalizing pt with
  | nil =>
    simp only [product, List.mem_singleton]
    constructor
    · rintro rfl; exact List.Forall₂.nil
    · intro h; cases h; rfl
  | cons m ms ih =>
    simp only [product, List.mem_flatMap, List.mem_range, List.mem_map]
    constructor
    · rintro ⟨a, ha, pt', hpt', rfl⟩
      exact List.Forall₂.cons ha ((ih pt').mp hpt')
    · intro h
      cases h with
      | cons ha hr => exact ⟨_, ha, _, (ih _).mpr hr, rfl⟩

/-- The table the code builds (points repeated, ids by `np.repeat`, values flattened)
is the table "for every observation, for every point, its value". -/
theorem toLongDense_eq_spec (n : ℕ) (shape : List ℕ) :
    toLongDense n shape = toLongDenseSpec n shape := by
  unfold toLongDense toLongDenseSpec
  simp only []
  rw [range_mul_flatMap, List.map_flatMap]
  apply List.flatMap_congr
  intro a _
  rw [List.map_map]
  apply List.ext_getElem
  · simp
  · intro p h1 h2
    have hp : p < (product shape).length := by simpa using h1
    have hM : 0 < (product shape).length := by omega
    have e1 : (a * (product shape).length + p) / (product shape).length = a := by
      rw [Nat.add_comm, Nat.add_mul_div_right _ _ hM, Nat.div_eq_of_lt hp]; simp
    have e2 : (a * (product shape).length + p) % (product shape).length = p := by
      rw [Nat.add_comm, Nat.add_mul_mod_self_right, Nat.mod_eq_of_lt hp]
    simp only [List.getElem_map, List.getElem_range, Function.comp]
    rw [e1, e2, lin_getElem shape p hp]
    have hl := product_length shape
    simp only [List.getD_eq_getElem?_getD, hl, List.getElem?_eq_getElem hp, Option.getD_some]

theorem toLongDense_positions (n : ℕ) (shape : List ℕ) :
    (toLongDense n shape).map (fun r => r.2.2) = List.range (n * shape.prod) := by
  unfold toLongDense
  simp only [List.map_map, product_length]
  exact List.map_id _

/-! ### filterMap / ragged -/

theorem length_filterMap_some {α β γ : Type} (f : α → β → γ) (l : List (α × Option β)) :
    (l.filterMap fun p => p.2.map (f p.1)).length = l.countP (fun p => p.2.isSome) := by
  induction l with
  | nil => rfl
  | cons p l ih =>
    obtain ⟨x, v⟩ := p
    cases v with
    | none => simpa [List.filterMap_cons] using ih
    | some y => simp [ih]

theorem mem_ragged {α : Type} (g : List α) (row : List (Option ℚ)) (x : α) (y : ℚ) :
    (x, y) ∈ ragged g row ↔ (x, some y) ∈ g.zip row := by
  unfold ragged
  simp only [List.mem_filterMap]
  constructor
  · rintro ⟨⟨x', v⟩, hm, h⟩
    cases v with
    | none => simp at h
    | some y' =>
      simp only [Option.map_some, Option.some.injEq, Prod.mk.injEq] at h
      obtain ⟨rfl, rfl⟩ := h
      exact hm
  · intro h
    exact ⟨(x, some y), h, rfl⟩

/-- On a complete row the ragged encoding is the row itself on the whole grid. -/
theorem ragged_complete {α : Type} (g : List α) (xs : List ℚ) :
    ragged g (xs.map some) = g.zip xs := by
  unfold ragged
  induction g generalizing xs with
  | nil => simp
  | cons a g ih =>
    cases xs with
    | nil => simp
    | cons x xs => simp [ih]

theorem ragged_fst_sublist {α : Type} (g : List α) (row : List (Option ℚ)) :
    ((ragged g row).map Prod.fst).Sublist g := by
  unfold ragged
  induction g generalizing row with
  | nil => simp
  | cons a g ih =>
    cases row with
    | nil => simp
    | cons v row =>
      cases v with
      | none =>
        simp only [List.zip_cons_cons, List.filterMap_cons, Option.map_none]
        exact (ih row).cons a
      | some y =>
        simp only [List.zip_cons_cons, List.filterMap_cons, Option.map_some, List.map_cons]
        exact (ih row).cons_cons a

/-! ### CSV -/

theorem mapM_toInt_int (zs : List Int) : (zs.map Header.int).mapM Header.toInt? = some zs := by
  induction zs with
  | nil => rfl
  | cons z zs ih => simp [List.mapM_cons, Header.toInt?, ih]

theorem mapM_toInt_other (hs : List Header) (h : Header.other ∈ hs) :
    hs.mapM Header.toInt? = none := by
  induction hs with
  | nil => cases h
  | cons a hs ih =>
    cases a with
    | other => simp [List.mapM_cons, Header.toInt?]
    | int z =>
      have : Header.other ∈ hs := by
        rcases List.mem_cons.mp h with h | h
        · cases h
        · exact h
      simp [List.mapM_cons, Header.toInt?, ih this]

theorem mapM_toInt_length (hs : List Header) (zs : List Int) (h : hs.mapM Header.toInt? = some zs) :
    zs.length = hs.length := by
  induction hs generalizing zs with
  | nil => simp at h; subst h; rfl
  | cons a hs ih =>
    cases a with
    | other => simp [List.mapM_cons, Header.toInt?] at h
    | int z =>
      simp only [List.mapM_cons, Header.toInt?, Option.pure_def, Option.bind_eq_bind,
        Option.bind_some] at h
      cases hh : hs.mapM Header.toInt? with
      | none => simp [hh] at h
      | some zs' =>
        simp [hh] at h
        subst h
        simp [ih zs' hh]

theorem ragged_all_none (a : List Int) : ragged a (a.map fun _ => (none : Option ℚ)) = [] := by
  induction a with
  | nil => simp [ragged]
  | cons x a ih => simpa [ragged] using ih

theorem ragged_unragged (a : List Int) (row : List (Int × ℚ)) (hnd : a.Nodup)
    (hsub : (row.map Prod.fst).Sublist a) : ragged a (unragged a row) = row := by
  induction a generalizing row with
  | nil =>
    have : row = [] := by
      cases row with
      | nil => rfl
      | cons p r => simp at hsub
    subst this; simp [ragged, unragged]
  | cons x a ih =>
    have hx : x ∉ a := (List.nodup_cons.mp hnd).1
    have hnd' := (List.nodup_cons.mp hnd).2
    cases row with
    | nil =>
      have := ragged_all_none (x :: a)
      simpa [unragged] using this
    | cons p row =>
      obtain ⟨k, y⟩ := p
      simp only [List.map_cons] at hsub
      by_cases hk : k = x
      · subst hk
        have hsub' : (row.map Prod.fst).Sublist a := by
          cases hsub with
          | cons _ h => exact absurd (h.subset (by simp)) hx
          | cons_cons _ h => exact h
        have hrest : a.map (fun z => ((k, y) :: row).lookup z) = a.map fun z => row.lookup z := by
          apply List.map_congr_left
          intro z hz
          have hne : z ≠ k := fun h => hx (h ▸ hz)
          have hb : (z == k) = false := by simpa using hne
          simp [List.lookup_cons, hb]
        unfold unragged
        simp only [List.map_cons, List.lookup_cons_self]
        rw [hrest]
        have := ih row hnd' hsub'
        unfold unragged at this
        simp [ragged] at this ⊢
        exact this
      · have hsub' : ((k :: row.map Prod.fst)).Sublist a := by
          cases hsub with
          | cons _ h => exact h
          | cons_cons _ h => exact absurd rfl hk
        have hxk : x ∉ (k :: row.map Prod.fst) := fun h => hx (hsub'.subset h)
        have hlook : ((k, y) :: row).lookup x = none := by
          rw [List.lookup_eq_none_iff]
          intro p hp
          have : p.1 ∈ (k :: row.map Prod.fst) := by
            rcases List.mem_cons.mp hp with rfl | hp
            · simp
            · exact List.mem_cons_of_mem _ (List.mem_map.mpr ⟨p, hp, rfl⟩)
          have hne : x ≠ p.1 := fun h => hxk (h ▸ this)
          simpa using hne
        have := ih ((k, y) :: row) hnd' (by simpa using hsub')
        unfold unragged at this ⊢
        simp only [List.map_cons, hlook]
        simp [ragged] at this ⊢
        exact this

theorem ragged_length_of_all_some {α : Type} (g : List α) (row : List (Option ℚ))
    (hlen : row.length = g.length) (h : ∀ v ∈ row, v.isSome = true) :
    (ragged g row).length = g.length := by
  induction g generalizing row with
  | nil => simp [ragged]
  | cons a g ih =>
    cases row with
    | nil => simp at hlen
    | cons v row =>
      have hv := h v (by simp)
      cases v with
      | none => simp at hv
      | some y =>
        have := ih row (by simpa using hlen) (fun v hv => h v (List.mem_cons_of_mem _ hv))
        simp [ragged] at this ⊢
        exact this

end FDA.Tab
