/-
Helper lemmas for C12 (`FDAModel/Arith.lean`): zipping rows, the compatibility guard,
pairing irregular observations by label, closeness.
-/
import FDAModel.Arith
import FDAProofs.Lemmas.Dict
import Mathlib.Tactic.Ring
import Mathlib.Tactic.Linarith
import Mathlib.Tactic.NormNum
import Mathlib.Tactic.FieldSimp
import Mathlib.Data.Rat.Defs
import Mathlib.Data.Rat.Floor
import Mathlib.Algebra.Order.AbsoluteValue.Basic

namespace FDA.Arith

theorem omap_id {γ : Type} (o : Option γ) : Option.map id o = o := by cases o <;> rfl
open FDA.Dict FDA.Select

variable {α β γ δ : Type}

/-! ### rows -/

/-- Entry `(i, j)` of a list of rows. -/
def entry (rows : List (List α)) (i j : Nat) : Option α := (rows[i]?).bind (·[j]?)

/-- Two lists of rows have the same shape. -/
def SameShape (r : List (List α)) (r' : List (List β)) : Prop :=
  List.Forall₂ (fun v w => v.length = w.length) r r'

theorem zipWith_zipWith_left (f : γ → β → δ) (g : α → β → γ) :
    ∀ (v : List α) (w : List β), v.length = w.length →
      List.zipWith f (List.zipWith g v w) w = List.zipWith (fun a b => f (g a b) b) v w
  | [], _, _ => by simp
  | _ :: _, [], h => by simp at h
  | a :: v, b :: w, h => by
    simp only [List.zipWith_cons_cons, List.cons.injEq, true_and]
    exact zipWith_zipWith_left f g v w (by simpa using h)

theorem zipWith_fst (f : α → β → α) (hf : ∀ a b, f a b = a) :
    ∀ (v : List α) (w : List β), v.length = w.length → List.zipWith f v w = v
  | [], _, _ => by simp
  | _ :: _, [], h => by simp at h
  | a :: v, b :: w, h => by
    simp only [List.zipWith_cons_cons, hf, List.cons.injEq, true_and]
    exact zipWith_fst f hf v w (by simpa using h)

theorem zipWith_comm' (f : α → α → β) (hf : ∀ a b, f a b = f b a) (v w : List α) :
    List.zipWith f v w = List.zipWith f w v := by
  rw [List.zipWith_comm]; congr 1; funext a b; exact hf b a

theorem sameShape_of_length {g : Nat} :
    ∀ {r : List (List α)} {r' : List (List β)}, r.length = r'.length →
      (∀ v ∈ r, v.length = g) → (∀ w ∈ r', w.length = g) → SameShape r r'
  | [], [], _, _, _ => List.Forall₂.nil
  | [], _ :: _, h, _, _ => by simp at h
  | _ :: _, [], h, _, _ => by simp at h
  | v :: r, w :: r', h, h1, h2 => by
    refine List.Forall₂.cons ?_ (sameShape_of_length (g := g) (by simpa using h) ?_ ?_)
    · rw [h1 v List.mem_cons_self, h2 w List.mem_cons_self]
    · exact fun u hu => h1 u (List.mem_cons_of_mem _ hu)
    · exact fun u hu => h2 u (List.mem_cons_of_mem _ hu)

theorem zipRows_length (f : α → β → γ) (r : List (List α)) (r' : List (List β)) :
    (zipRows f r r').length = min r.length r'.length := by
  simp [zipRows]

/-- Chaining two entry-wise operations on rows of the same shape. -/
theorem zipRows_zipRows_left (f : γ → β → δ) (g : α → β → γ) {r : List (List α)} {r' : List (List β)}
    (h : SameShape r r') :
    zipRows f (zipRows g r r') r' = zipRows (fun a b => f (g a b) b) r r' := by
  induction h with
  | nil => rfl
  | cons hl _ ih =>
    simp only [zipRows, List.zipWith_cons_cons, List.cons.injEq] at ih ⊢
    exact ⟨zipWith_zipWith_left f g _ _ hl, ih⟩

theorem zipRows_fst (f : α → β → α) (hf : ∀ a b, f a b = a) {r : List (List α)} {r' : List (List β)}
    (h : SameShape r r') : zipRows f r r' = r := by
  induction h with
  | nil => rfl
  | cons hl _ ih =>
    simp only [zipRows, List.zipWith_cons_cons, List.cons.injEq] at ih ⊢
    exact ⟨zipWith_fst f hf _ _ hl, ih⟩

theorem zipRows_comm (f : α → α → β) (hf : ∀ a b, f a b = f b a) (r r' : List (List α)) :
    zipRows f r r' = zipRows f r' r := by
  unfold zipRows
  rw [List.zipWith_comm]; congr 1; funext v w; exact zipWith_comm' f hf w v

theorem zipRows_map (f : α → β → γ) (h : γ → δ) (r : List (List α)) (r' : List (List β)) :
    (zipRows f r r').map (List.map h) = zipRows (fun a b => h (f a b)) r r' := by
  unfold zipRows
  rw [List.map_zipWith]; congr 1; funext v w; exact List.map_zipWith

theorem zipRows_map_args {α' β' : Type} (f : α' → β' → γ) (h : α → α') (k : β → β')
    (r : List (List α)) (r' : List (List β)) :
    zipRows f (r.map (List.map h)) (r'.map (List.map k)) = zipRows (fun a b => f (h a) (k b)) r r' := by
  unfold zipRows
  rw [List.zipWith_map]; congr 1; funext v w; exact List.zipWith_map

/-- Entry `(i, j)` of an entry-wise combination. -/
theorem entry_zipRows (f : α → β → γ) (r : List (List α)) (r' : List (List β)) (i j : Nat) :
    entry (zipRows f r r') i j =
      match entry r i j, entry r' i j with
      | some a, some b => some (f a b)
      | _, _ => none := by
  unfold entry zipRows
  rw [List.getElem?_zipWith]
  cases hr : r[i]? with
  | none => simp
  | some v =>
    cases hr' : r'[i]? with
    | none => cases hv : v[j]? <;> simp [hv]
    | some w =>
      simp only [Option.bind_some, List.getElem?_zipWith]
      cases v[j]? <;> cases w[j]? <;> rfl

theorem entry_map (h : α → β) (r : List (List α)) (i j : Nat) :
    entry (r.map (List.map h)) i j = (entry r i j).map h := by
  unfold entry
  cases hr : r[i]? with
  | none => simp [hr]
  | some v => simp [hr]

/-! ### the guard -/

theorem combine_dense (bl : Bool) (f : α → β → γ) (g g' : Grid) (r : List (List α)) (r' : List (List β)) :
    combine bl f (.dense g r) (.dense g' r') =
      if r.length = r'.length ∧ g = g' then .ok (.dense g (zipRows f r r')) else .error .valueError := by
  unfold combine
  by_cases h1 : r.length = r'.length
  · by_cases h2 : g = g'
    · subst h2; simp [h1]
    · by_cases h3 : g.length = g'.length <;> simp [h1, h2, h3]
  · simp [h1]

theorem combine_mixed (bl : Bool) (f : α → β → γ) (g : Grid) (r : List (List α)) (y : D (Grid × List β)) :
    combine bl f (.dense g r) (.irreg y) = .error .typeError := rfl

theorem combine_mixed' (bl : Bool) (f : α → β → γ) (x : D (Grid × List α)) (g : Grid) (r : List (List β)) :
    combine bl f (.irreg x) (.dense g r) = .error .typeError := rfl

theorem combine_irreg (bl : Bool) (f : α → β → γ) (x : D (Grid × List α)) (y : D (Grid × List β)) :
    combine bl f (.irreg x) (.irreg y) =
      if x.length ≠ y.length then .error .valueError
      else match dimOf x, dimOf y with
        | some d, some d' =>
          if d ≠ d' then .error .valueError
          else if sameGrids x y = false then .error .valueError
          else if bl then
            match pairLabel f x y with
            | some r => .ok (.irreg r)
            | none => .error .keyError
          else
            match pairZip f x y with
            | some r => .ok (.irreg r)
            | none => .error .valueError
        | _, _ => .error .other := rfl

/-- The part of the irregular guard that passes. -/
def IrregOK (x : D (Grid × List α)) (y : D (Grid × List β)) : Prop :=
  x.length = y.length ∧ (∃ d, dimOf x = some d ∧ dimOf y = some d) ∧ sameGrids x y = true

theorem combine_irreg_of_ok (bl : Bool) (f : α → β → γ) {x : D (Grid × List α)} {y : D (Grid × List β)}
    (h : IrregOK x y) :
    combine bl f (.irreg x) (.irreg y) =
      if bl then
        (match pairLabel f x y with
          | some r => .ok (.irreg r)
          | none => .error .keyError)
      else
        (match pairZip f x y with
          | some r => .ok (.irreg r)
          | none => .error .valueError) := by
  obtain ⟨hl, ⟨d, hx, hy⟩, hg⟩ := h
  unfold combine
  simp only [hl, ne_eq, not_true_eq_false, if_false, hx, hy, hg, Bool.true_eq_false]
  cases bl <;> rfl

theorem combine_irreg_ok_iff (bl : Bool) (f : α → β → γ) {x : D (Grid × List α)} {y : D (Grid × List β)}
    {d : Data γ} (h : combine bl f (.irreg x) (.irreg y) = .ok d) : IrregOK x y := by
  unfold combine at h
  by_cases hl : x.length = y.length
  · simp only [hl, ne_eq, not_true_eq_false, if_false] at h
    cases hx : dimOf x with
    | none => simp [hx] at h
    | some dx =>
      cases hy : dimOf y with
      | none => simp [hx, hy] at h
      | some dy =>
        simp only [hx, hy] at h
        by_cases hd : dx = dy
        · subst hd
          by_cases hg : sameGrids x y = true
          · exact ⟨hl, ⟨dx, hx, hy⟩, hg⟩
          · simp [hg] at h
        · simp [hd] at h
  · simp [hl] at h

/-! ### pairing by label -/

theorem pairLabel_cons (f : α → β → γ) (p : Int × Grid × List α) (t : D (Grid × List α)) (y : D (Grid × List β)) :
    pairLabel f (p :: t) y =
      match get? y p.1, pairLabel f t y with
      | some q, some r => some ((p.1, (p.2.1, List.zipWith f p.2.2 q.2)) :: r)
      | _, _ => none := rfl

/-- The pairing succeeds as soon as every label of the left operand is a label of the right one. -/
theorem pairLabel_isSome (f : α → β → γ) {x : D (Grid × List α)} {y : D (Grid × List β)}
    (h : ∀ p ∈ x, (get? y p.1).isSome) : (pairLabel f x y).isSome := by
  induction x with
  | nil => rfl
  | cons p t ih =>
    rw [pairLabel_cons]
    have hp := h p List.mem_cons_self
    have ht := ih fun q hq => h q (List.mem_cons_of_mem _ hq)
    cases hg : get? y p.1 with
    | none => simp [hg] at hp
    | some q =>
      cases hr : pairLabel f t y with
      | none => simp [hr] at ht
      | some r => rfl

theorem sameGrids_iff (x : D (Grid × List α)) (y : D (Grid × List β)) :
    sameGrids x y = true ↔ x.length = y.length ∧ ∀ p ∈ x, (get? y p.1).map (·.1) = some p.2.1 := by
  unfold sameGrids; rw [eqBy_iff]

theorem sameGrids_get {x : D (Grid × List α)} {y : D (Grid × List β)} (h : sameGrids x y = true)
    {p : Int × Grid × List α} (hp : p ∈ x) : ∃ q, get? y p.1 = some q ∧ q.1 = p.2.1 := by
  have := ((sameGrids_iff x y).1 h).2 p hp
  cases hg : get? y p.1 with
  | none => simp [hg] at this
  | some q => exact ⟨q, rfl, by simpa [hg] using this⟩

theorem pairLabel_of_sameGrids (f : α → β → γ) {x : D (Grid × List α)} {y : D (Grid × List β)}
    (h : sameGrids x y = true) : ∃ r, pairLabel f x y = some r := by
  have := pairLabel_isSome f (x := x) (y := y) fun p hp => by
    obtain ⟨q, hq, _⟩ := sameGrids_get h hp; simp [hq]
  exact Option.isSome_iff_exists.1 this

/-- Labels and their order come from the left operand. -/
theorem keys_pairLabel (f : α → β → γ) {x : D (Grid × List α)} {y : D (Grid × List β)} {r : D (Grid × List γ)}
    (h : pairLabel f x y = some r) : keys r = keys x := by
  induction x generalizing r with
  | nil => simp only [pairLabel, Option.some.injEq] at h; subst h; rfl
  | cons p t ih =>
    rw [pairLabel_cons] at h
    cases hg : get? y p.1 with
    | none => simp [hg] at h
    | some q =>
      cases hr : pairLabel f t y with
      | none => simp [hg, hr] at h
      | some r' =>
        simp only [hg, hr, Option.some.injEq] at h
        subst h
        simp [keys_cons, ih hr]

/-- Observation `l` of the result: grid of the left operand, values combined with the observation
labelled `l` of the right operand. -/
theorem get?_pairLabel (f : α → β → γ) {x : D (Grid × List α)} {y : D (Grid × List β)} {r : D (Grid × List γ)}
    (h : pairLabel f x y = some r) (l : Int) :
    get? r l = (get? x l).bind fun p => (get? y l).map fun q => (p.1, List.zipWith f p.2 q.2) := by
  induction x generalizing r with
  | nil => simp only [pairLabel, Option.some.injEq] at h; subst h; rfl
  | cons p t ih =>
    rw [pairLabel_cons] at h
    cases hg : get? y p.1 with
    | none => simp [hg] at h
    | some q =>
      cases hr : pairLabel f t y with
      | none => simp [hg, hr] at h
      | some r' =>
        simp only [hg, hr, Option.some.injEq] at h
        subst h
        obtain ⟨k, e⟩ := p
        rw [get?_cons, get?_cons]
        by_cases hk : k = l
        · subst hk; simp [hg]
        · simp only [hk, if_false]; exact ih hr

/-- The pairing only looks at the right operand through `get?`. -/
theorem pairLabel_congr (f : α → β → γ) {x : D (Grid × List α)} {y y' : D (Grid × List β)}
    (h : ∀ p ∈ x, get? y p.1 = get? y' p.1) : pairLabel f x y = pairLabel f x y' := by
  induction x with
  | nil => rfl
  | cons p t ih =>
    rw [pairLabel_cons, pairLabel_cons, h p List.mem_cons_self, ih fun q hq => h q (List.mem_cons_of_mem _ hq)]

/-! ### `mapData` against the guard and the pairing -/

theorem dimOf_mapVals (h : α → β) (x : D (Grid × List α)) :
    dimOf (mapVals (fun e => (e.1, e.2.map h)) x) = dimOf x := by
  cases x <;> rfl

theorem sameGrids_mapVals {α' β' : Type} (h : α → α') (k : β → β') (x : D (Grid × List α)) (y : D (Grid × List β)) :
    sameGrids (mapVals (fun e => (e.1, e.2.map h)) x) (mapVals (fun e => (e.1, e.2.map k)) y) = sameGrids x y := by
  have key : ∀ b, (sameGrids (mapVals (fun e => (e.1, e.2.map h)) x) (mapVals (fun e => (e.1, e.2.map k)) y) = b)
      ↔ (sameGrids x y = b) := by
    intro b
    cases b with
    | true =>
      rw [sameGrids_iff, sameGrids_iff, length_mapVals, length_mapVals]
      refine and_congr_right fun _ => ?_
      constructor
      · intro hh p hp
        have := hh (p.1, (p.2.1, p.2.2.map h)) (List.mem_map.2 ⟨p, hp, rfl⟩)
        rw [get?_mapVals] at this
        cases hg : get? y p.1 with
        | none => simp [hg] at this
        | some q => simpa [hg] using this
      · intro hh p hp
        obtain ⟨p0, hp0, rfl⟩ := List.mem_map.1 hp
        have := hh p0 hp0
        rw [get?_mapVals]
        cases hg : get? y p0.1 with
        | none => simp [hg] at this
        | some q => simpa [hg] using this
    | false =>
      rw [← Bool.not_eq_true, ← Bool.not_eq_true]
      apply not_congr
      rw [sameGrids_iff, sameGrids_iff, length_mapVals, length_mapVals]
      refine and_congr_right fun _ => ?_
      constructor
      · intro hh p hp
        have := hh (p.1, (p.2.1, p.2.2.map h)) (List.mem_map.2 ⟨p, hp, rfl⟩)
        rw [get?_mapVals] at this
        cases hg : get? y p.1 with
        | none => simp [hg] at this
        | some q => simpa [hg] using this
      · intro hh p hp
        obtain ⟨p0, hp0, rfl⟩ := List.mem_map.1 hp
        have := hh p0 hp0
        rw [get?_mapVals]
        cases hg : get? y p0.1 with
        | none => simp [hg] at this
        | some q => simpa [hg] using this
  exact (key _).2 rfl

theorem pairLabel_map {δ : Type} (f : α → β → γ) (h : γ → δ) (x : D (Grid × List α)) (y : D (Grid × List β)) :
    (pairLabel f x y).map (mapVals fun e => (e.1, e.2.map h)) = pairLabel (fun a b => h (f a b)) x y := by
  induction x with
  | nil => rfl
  | cons p t ih =>
    rw [pairLabel_cons, pairLabel_cons, ← ih]
    cases get? y p.1 with
    | none => rfl
    | some q =>
      cases pairLabel f t y with
      | none => rfl
      | some r => simp [mapVals, List.map_zipWith]

theorem pairLabel_map_args {α' β' : Type} (f : α' → β' → γ) (h : α → α') (k : β → β')
    (x : D (Grid × List α)) (y : D (Grid × List β)) :
    pairLabel f (mapVals (fun e => (e.1, e.2.map h)) x) (mapVals (fun e => (e.1, e.2.map k)) y) =
      pairLabel (fun a b => f (h a) (k b)) x y := by
  induction x with
  | nil => rfl
  | cons p t ih =>
    have : mapVals (fun e : Grid × List α => (e.1, e.2.map h)) (p :: t) =
        (p.1, (p.2.1, p.2.2.map h)) :: mapVals (fun e => (e.1, e.2.map h)) t := rfl
    rw [this, pairLabel_cons, pairLabel_cons, ih, get?_mapVals]
    cases get? y p.1 with
    | none => rfl
    | some q =>
      cases pairLabel (fun a b => f (h a) (k b)) t y with
      | none => rfl
      | some r => simp [List.zipWith_map]

/-- Post-composing the entry operation = mapping the result (by-label pairing). -/
theorem combine_map {δ : Type} (f : α → β → γ) (h : γ → δ) (a : Data α) (b : Data β) :
    (combine true f a b).map (mapData h) = combine true (fun x y => h (f x y)) a b := by
  cases a with
  | dense g r =>
    cases b with
    | dense g' r' =>
      rw [combine_dense, combine_dense]
      by_cases hc : r.length = r'.length ∧ g = g'
      · simp only [hc, and_self, if_true, Except.map, mapData, zipRows_map]
      · simp only [hc, if_false, Except.map]
    | irreg y => rfl
  | irreg x =>
    cases b with
    | dense g' r' => rfl
    | irreg y =>
      unfold combine
      by_cases hl : x.length = y.length
      · simp only [hl, ne_eq, not_true_eq_false, if_false]
        cases dimOf x with
        | none => rfl
        | some dx =>
          cases dimOf y with
          | none => rfl
          | some dy =>
            by_cases hd : dx = dy
            · by_cases hg : sameGrids x y = true
              · simp only [hd, hg, not_true_eq_false, if_false, Bool.true_eq_false, if_true]
                rw [← pairLabel_map f h]
                cases pairLabel f x y <;> rfl
              · simp only [Bool.not_eq_true] at hg
                simp [hd, hg, Except.map]
            · simp [hd, Except.map]
      · simp [hl, Except.map]

/-- Pre-composing the entry operation = mapping the operands. -/
theorem combine_map_args {α' β' : Type} (f : α' → β' → γ) (h : α → α') (k : β → β') (a : Data α) (b : Data β) :
    combine true f (mapData h a) (mapData k b) = combine true (fun x y => f (h x) (k y)) a b := by
  cases a with
  | dense g r =>
    cases b with
    | dense g' r' =>
      simp only [mapData]
      rw [combine_dense, combine_dense, zipRows_map_args]
      simp
    | irreg y => rfl
  | irreg x =>
    cases b with
    | dense g' r' => rfl
    | irreg y =>
      simp only [mapData]
      rw [combine_irreg, combine_irreg, length_mapVals, length_mapVals, dimOf_mapVals, dimOf_mapVals,
        sameGrids_mapVals, pairLabel_map_args]
      simp only [↓reduceIte]

theorem mapData_id (a : Data α) : mapData (fun x => x) a = a := by
  cases a with
  | dense g r => simp [mapData]
  | irreg x =>
    simp only [mapData, mapVals]
    congr 1
    induction x with
    | nil => rfl
    | cons p t ih => simp

theorem mapData_congr {f g : α → β} (h : ∀ x, f x = g x) (a : Data α) : mapData f a = mapData g a := by
  have : f = g := funext h
  rw [this]

theorem mapData_mapData (f : α → β) (g : β → γ) (a : Data α) : mapData g (mapData f a) = mapData (fun x => g (f x)) a := by
  cases a with
  | dense gr r => simp [mapData, Function.comp_def]
  | irreg x => simp [mapData, mapVals, Function.comp_def]

theorem combine_congr_fun (bl : Bool) {f g : α → β → γ} (h : ∀ x y, f x y = g x y) (a : Data α) (b : Data β) :
    combine bl f a b = combine bl g a b := by
  have : f = g := funext fun x => funext (h x)
  rw [this]

/-! ### well-formed operands -/

theorem wf_dense {g : Grid} {r : List (List α)} : (Data.dense g r).WF ↔ ∀ v ∈ r, v.length = gridSize g := Iff.rfl

theorem wf_irreg {x : D (Grid × List α)} :
    (Data.irreg x).WF ↔ NodupKeys x ∧ ∀ p ∈ x, p.2.2.length = gridSize p.2.1 := Iff.rfl

theorem wf_mapData (h : α → β) {a : Data α} (ha : a.WF) : (mapData h a).WF := by
  cases a with
  | dense g r =>
    intro v hv
    obtain ⟨v0, hv0, rfl⟩ := List.mem_map.1 hv
    simpa using ha v0 hv0
  | irreg x =>
    refine ⟨nodupKeys_mapVals _ ha.1, fun p hp => ?_⟩
    obtain ⟨p0, hp0, rfl⟩ := List.mem_map.1 hp
    simpa using ha.2 p0 hp0

/-- Observations with the same label have arrays of the same size (same grids, both well formed). -/
theorem length_eq_of_sameGrids {x : D (Grid × List α)} {y : D (Grid × List β)}
    (hx : (Data.irreg x).WF) (hy : (Data.irreg y).WF) (hg : sameGrids x y = true)
    {p : Int × Grid × List α} (hp : p ∈ x) {q : Grid × List β} (hq : get? y p.1 = some q) :
    p.2.2.length = q.2.length := by
  obtain ⟨q', hq', hgrid⟩ := sameGrids_get hg hp
  rw [hq] at hq'
  cases hq'
  rw [hx.2 p hp, ← hgrid]
  exact (hy.2 (p.1, q) (mem_of_get? hq)).symm

/-! ### chaining by-label pairings (the identities) -/

/-- `(x ∘ y) ∘' y` by label, when paired observations have equally long arrays. -/
theorem pairLabel_pairLabel_left {δ : Type} (f : γ → β → δ) (g : α → β → γ)
    {x : D (Grid × List α)} {y : D (Grid × List β)} {s : D (Grid × List γ)}
    (hlen : ∀ p ∈ x, ∀ q, get? y p.1 = some q → p.2.2.length = q.2.length)
    (hs : pairLabel g x y = some s) :
    pairLabel f s y = pairLabel (fun a b => f (g a b) b) x y := by
  induction x generalizing s with
  | nil => simp only [pairLabel, Option.some.injEq] at hs; subst hs; rfl
  | cons p t ih =>
    rw [pairLabel_cons] at hs
    cases hg : get? y p.1 with
    | none => simp [hg] at hs
    | some q =>
      cases hr : pairLabel g t y with
      | none => simp [hg, hr] at hs
      | some r' =>
        simp only [hg, hr, Option.some.injEq] at hs
        subst hs
        rw [pairLabel_cons, pairLabel_cons]
        simp only [hg]
        rw [ih (fun p' hp' => hlen p' (List.mem_cons_of_mem _ hp')) hr]
        have hz := zipWith_zipWith_left f g _ _ (hlen p List.mem_cons_self q hg)
        cases pairLabel (fun a b => f (g a b) b) t y with
        | none => rfl
        | some r => simp only [hz]

theorem pairLabel_fst (f : α → β → α) (hf : ∀ a b, f a b = a)
    {x : D (Grid × List α)} {y : D (Grid × List β)}
    (hlen : ∀ p ∈ x, ∀ q, get? y p.1 = some q → p.2.2.length = q.2.length)
    (hsome : ∀ p ∈ x, (get? y p.1).isSome) :
    pairLabel f x y = some x := by
  induction x with
  | nil => rfl
  | cons p t ih =>
    rw [pairLabel_cons, ih (fun p' hp' => hlen p' (List.mem_cons_of_mem _ hp'))
      (fun p' hp' => hsome p' (List.mem_cons_of_mem _ hp'))]
    have hp := hsome p List.mem_cons_self
    cases hg : get? y p.1 with
    | none => simp [hg] at hp
    | some q => simp [zipWith_fst f hf _ _ (hlen p List.mem_cons_self q hg)]

theorem dimOf_pairLabel (f : α → β → γ) {x : D (Grid × List α)} {y : D (Grid × List β)} {s : D (Grid × List γ)}
    (hs : pairLabel f x y = some s) : dimOf s = dimOf x := by
  cases x with
  | nil => simp only [pairLabel, Option.some.injEq] at hs; subst hs; rfl
  | cons p t =>
    rw [pairLabel_cons] at hs
    cases hg : get? y p.1 with
    | none => simp [hg] at hs
    | some q =>
      cases hr : pairLabel f t y with
      | none => simp [hg, hr] at hs
      | some r' => simp only [hg, hr, Option.some.injEq] at hs; subst hs; rfl

theorem length_pairLabel (f : α → β → γ) {x : D (Grid × List α)} {y : D (Grid × List β)} {s : D (Grid × List γ)}
    (hs : pairLabel f x y = some s) : s.length = x.length := by
  have := congrArg List.length (keys_pairLabel f hs)
  simpa [keys] using this

/-- The result of a by-label pairing lives on the left operand's grids. -/
theorem sameGrids_pairLabel (f : α → β → γ) {x : D (Grid × List α)} {y : D (Grid × List β)} {s : D (Grid × List γ)}
    (hs : pairLabel f x y = some s) (hg : sameGrids x y = true) : sameGrids s y = true := by
  rw [sameGrids_iff] at hg ⊢
  refine ⟨(length_pairLabel f hs).trans hg.1, fun p hp => ?_⟩
  have hget := get?_pairLabel f hs p.1
  have hmem : get? s p.1 ≠ none := by
    rw [Ne, get?_eq_none_iff]; exact fun hn => hn (List.mem_map.2 ⟨p, hp, rfl⟩)
  -- every entry of `s` with label `l` carries the grid of `x`'s entry with label `l`
  have key : ∀ p ∈ s, ∃ p0 ∈ x, p0.1 = p.1 ∧ p0.2.1 = p.2.1 := by
    clear hget hmem hp p hg
    induction x generalizing s with
    | nil => simp only [pairLabel, Option.some.injEq] at hs; subst hs; simp
    | cons p0 t ih =>
      rw [pairLabel_cons] at hs
      cases hg' : get? y p0.1 with
      | none => simp [hg'] at hs
      | some q =>
        cases hr : pairLabel f t y with
        | none => simp [hg', hr] at hs
        | some r' =>
          simp only [hg', hr, Option.some.injEq] at hs
          subst hs
          intro p hp
          rcases List.mem_cons.1 hp with rfl | hp
          · exact ⟨p0, List.mem_cons_self, rfl, rfl⟩
          · obtain ⟨p1, hp1, h1, h2⟩ := ih hr p hp
            exact ⟨p1, List.mem_cons_of_mem _ hp1, h1, h2⟩
  obtain ⟨p0, hp0, h1, h2⟩ := key p hp
  rw [← h1, ← h2]
  exact hg.2 p0 hp0

/-! ### the code's pairing (zip in order) against the pairing by label -/

theorem pairZip_eq_pairLabel (f : α → β → γ) :
    ∀ {x : D (Grid × List α)} {y : D (Grid × List β)}, keys x = keys y → NodupKeys y →
      (∀ p ∈ x, ∀ q, get? y p.1 = some q → p.2.2.length = q.2.length) →
      pairZip f x y = pairLabel f x y
  | [], [], _, _, _ => rfl
  | [], _ :: _, h, _, _ => by simp [keys] at h
  | _ :: _, [], h, _, _ => by simp [keys] at h
  | p :: t, q :: u, hk, hn, hlen => by
    obtain ⟨k, e⟩ := q
    simp only [keys, List.map_cons, List.cons.injEq] at hk
    obtain ⟨hk1, hk2⟩ := hk
    have hn' : k ∉ keys u ∧ NodupKeys u := by
      unfold NodupKeys at hn; rw [keys_cons, List.nodup_cons] at hn; exact hn
    have hget : get? ((k, e) :: u) p.1 = some e := by rw [get?_cons]; simp [hk1]
    have hl := hlen p List.mem_cons_self e hget
    have hcongr : pairLabel f t ((k, e) :: u) = pairLabel f t u := by
      apply pairLabel_congr
      intro p' hp'
      rw [get?_cons]
      have : k ≠ p'.1 := by
        intro hkp
        apply hn'.1
        have : p'.1 ∈ keys t := List.mem_map.2 ⟨p', hp', rfl⟩
        rw [hkp]; exact (show keys t = keys u from hk2) ▸ this
      simp [this]
    have ih := pairZip_eq_pairLabel f (x := t) (y := u) hk2 hn'.2 (by
      intro p' hp' q' hq'
      apply hlen p' (List.mem_cons_of_mem _ hp') q'
      rw [get?_cons]
      have : k ≠ p'.1 := by
        intro hkp
        apply hn'.1
        have : p'.1 ∈ keys t := List.mem_map.2 ⟨p', hp', rfl⟩
        rw [hkp]; exact (show keys t = keys u from hk2) ▸ this
      simp [this, hq'])
    rw [pairLabel_cons, hget, hcongr, ← ih]
    simp only [pairZip, hl, if_true]
    cases pairZip f t u <;> rfl

/-! ### closeness -/

theorem absQ_eq_abs (x : ℚ) : absQ x = |x| := by
  unfold absQ
  split
  · next h => rw [abs_of_neg h]
  · next h => rw [abs_of_nonneg (not_lt.1 h)]

theorem close_iff_Close (a b : ℚ) : close a b = true ↔ Close a b := by
  unfold close Close; exact decide_eq_true_iff

theorem Close_iff (a b : ℚ) : Close a b ↔ |a - b| ≤ 1 / 100000000 + 1 / 100000 * |b| := by
  unfold Close atol rtol; rw [absQ_eq_abs, absQ_eq_abs]

theorem Close_refl (a : ℚ) : Close a a := by
  rw [Close_iff, sub_self, abs_zero]
  have := abs_nonneg a
  positivity

theorem closeList_iff : ∀ v w : List ℚ, closeList v w = true ↔ CloseList v w
  | [], [] => by simp [closeList, CloseList]
  | [], _ :: _ => by simp [closeList, CloseList]
  | _ :: _, [] => by simp [closeList, CloseList]
  | a :: v, b :: w => by
    rw [closeList, Bool.and_eq_true, closeList_iff v w, close_iff_Close]
    unfold CloseList
    constructor
    · rintro ⟨hab, hl, h⟩
      refine ⟨by simp [hl], fun i hi hi' => ?_⟩
      cases i with
      | zero => simpa using hab
      | succ i => simpa using h i (by simpa using hi) (by simpa using hi')
    · rintro ⟨hl, h⟩
      refine ⟨?_, by simpa using hl, fun i hi hi' => ?_⟩
      · exact h 0 (by simp) (by simp)
      · exact h (i + 1) (by simpa using hi) (by simpa using hi')

theorem closeRows_iff : ∀ r s : List (List ℚ), closeRows r s = true ↔ CloseRows r s
  | [], [] => by simp [closeRows, CloseRows]
  | [], _ :: _ => by simp [closeRows, CloseRows]
  | _ :: _, [] => by simp [closeRows, CloseRows]
  | a :: v, b :: w => by
    rw [closeRows, Bool.and_eq_true, closeRows_iff v w, closeList_iff]
    unfold CloseRows
    constructor
    · rintro ⟨hab, hl, h⟩
      refine ⟨by simp [hl], fun i hi hi' => ?_⟩
      cases i with
      | zero => simpa using hab
      | succ i => simpa using h i (by simpa using hi) (by simpa using hi')
    · rintro ⟨hl, h⟩
      refine ⟨?_, by simpa using hl, fun i hi hi' => ?_⟩
      · exact h 0 (by simp) (by simp)
      · exact h (i + 1) (by simpa using hi) (by simpa using hi')

theorem CloseList_refl (v : List ℚ) : CloseList v v := ⟨rfl, fun _ _ _ => Close_refl _⟩

theorem CloseRows_refl (r : List (List ℚ)) : CloseRows r r := ⟨rfl, fun _ _ _ => CloseList_refl _⟩

theorem closeObs_iff (x y : D (Grid × List ℚ)) :
    closeObs x y = true ↔ ∀ p ∈ x, ∃ q, get? y p.1 = some q ∧ CloseList p.2.2 q.2 := by
  unfold closeObs
  rw [List.all_eq_true]
  refine forall₂_congr fun p _ => ?_
  cases hg : get? y p.1 with
  | none => simp
  | some q => simp [closeList_iff]

/-- `eq` decides exactly the specification. -/
theorem eq_iff_eqSpec (a b : Data ℚ) : eq a b = true ↔ eqSpec a b := by
  cases a with
  | dense g r =>
    cases b with
    | dense g' r' => simp [eq, eqSpec, closeRows_iff]
    | irreg y => simp [eq, eqSpec]
  | irreg x =>
    cases b with
    | dense g' r' => simp [eq, eqSpec]
    | irreg y =>
      simp only [eq, eqSpec, Bool.and_eq_true, sameGrids_iff, closeObs_iff]
      constructor
      · rintro ⟨⟨hl, hg⟩, hc⟩
        refine ⟨hl, fun p hp => ?_⟩
        obtain ⟨q, hq, hcl⟩ := hc p hp
        refine ⟨q, hq, ?_, hcl⟩
        simpa [hq] using hg p hp
      · rintro ⟨hl, h⟩
        refine ⟨⟨hl, fun p hp => ?_⟩, fun p hp => ?_⟩
        · obtain ⟨q, hq, hgr, _⟩ := h p hp
          simp [hq, hgr]
        · obtain ⟨q, hq, _, hcl⟩ := h p hp
          exact ⟨q, hq, hcl⟩

theorem eqSpec_refl {a : Data ℚ} (ha : a.WF) : eqSpec a a := by
  cases a with
  | dense g r => exact ⟨rfl, CloseRows_refl r⟩
  | irreg x =>
    refine ⟨rfl, fun p hp => ⟨p.2, get?_of_mem ha.1 (show (p.1, p.2) ∈ x from hp), rfl, CloseList_refl _⟩⟩

/-! ### membership -/

theorem contains_iff (cs : List (Data ℚ)) (x : Data ℚ) :
    contains cs x = true ↔ ∃ c ∈ cs, eq c x = true := by
  unfold contains; rw [List.any_eq_true]

theorem removeFirst_cons (c : Data ℚ) (cs : List (Data ℚ)) (x : Data ℚ) :
    removeFirst (c :: cs) x =
      if eq c x then .ok cs
      else match removeFirst cs x with
        | .ok r => .ok (c :: r)
        | .error e => .error e := rfl

theorem removeFirst_ok_iff (cs : List (Data ℚ)) (x : Data ℚ) (r : List (Data ℚ)) :
    removeFirst cs x = .ok r ↔
      ∃ pre c post, cs = pre ++ c :: post ∧ (∀ d ∈ pre, eq d x = false) ∧ eq c x = true ∧ r = pre ++ post := by
  induction cs generalizing r with
  | nil => simp [removeFirst]
  | cons c cs ih =>
    rw [removeFirst_cons]
    by_cases hc : eq c x = true
    · simp only [hc, if_true, Except.ok.injEq]
      constructor
      · rintro rfl; exact ⟨[], c, cs, rfl, by simp, hc, rfl⟩
      · rintro ⟨pre, c', post, h1, h2, h3, h4⟩
        cases pre with
        | nil => simp only [List.nil_append, List.cons.injEq] at h1; rw [h4, h1.2]; rfl
        | cons d pre =>
          simp only [List.cons_append, List.cons.injEq] at h1
          have := h2 d List.mem_cons_self
          rw [← h1.1, hc] at this; cases this
    · simp only [hc, Bool.false_eq_true, if_false]
      constructor
      · intro h
        cases hr : removeFirst cs x with
        | error e => simp [hr] at h
        | ok r' =>
          simp only [hr, Except.ok.injEq] at h
          obtain ⟨pre, c', post, h1, h2, h3, h4⟩ := (ih r').1 hr
          refine ⟨c :: pre, c', post, by simp [h1], ?_, h3, by simp [← h, h4]⟩
          intro d hd
          rcases List.mem_cons.1 hd with rfl | hd
          · simpa using hc
          · exact h2 d hd
      · rintro ⟨pre, c', post, h1, h2, h3, h4⟩
        cases pre with
        | nil =>
          simp only [List.nil_append, List.cons.injEq] at h1
          rw [← h1.1] at h3; exact absurd h3 hc
        | cons d pre =>
          simp only [List.cons_append, List.cons.injEq] at h1
          have hr : removeFirst cs x = .ok (pre ++ post) :=
            (ih _).2 ⟨pre, c', post, h1.2, fun e he => h2 e (List.mem_cons_of_mem _ he), h3, rfl⟩
          simp [hr, h4, h1.1]

theorem removeFirst_error_iff (cs : List (Data ℚ)) (x : Data ℚ) (e : Err) :
    removeFirst cs x = .error e ↔ e = .valueError ∧ contains cs x = false := by
  induction cs with
  | nil => simp [removeFirst, contains]; exact eq_comm
  | cons c cs ih =>
    rw [removeFirst_cons]
    by_cases hc : eq c x = true
    · simp [hc, contains]
    · simp only [hc, Bool.false_eq_true, if_false]
      cases hr : removeFirst cs x with
      | ok r' =>
        have : ¬ (e = .valueError ∧ contains cs x = false) := by
          rw [← ih]; simp [hr]
        simp only [reduceCtorEq, false_iff]
        intro h
        apply this
        refine ⟨h.1, ?_⟩
        have h2 := h.2
        simp only [contains, List.any_cons, Bool.or_eq_false_iff] at h2
        exact h2.2
      | error e' =>
        simp only [Except.error.injEq]
        rw [hr] at ih
        simp only [Except.error.injEq] at ih
        rw [ih]
        simp only [contains, List.any_cons, Bool.or_eq_false_iff]
        simp only [Bool.not_eq_true] at hc
        simp [hc]

end FDA.Arith
