/-
Helper lemmas for C20: a small program logic for the monad `FDA.Sim.M`
(state survives failures), frame lemmas (`Pres`), success specifications
(`Ret`, inversion lemmas) and list facts about masks.
-/
import FDAModel.Simulation
import Mathlib.Tactic.Linarith
import Mathlib.Tactic.Ring

namespace FDA.Sim

/-! ### unfolding the monad -/

@[simp] theorem pure_apply (a : α) (st : St) : (pure a : M α) st = (.ok a, st) := rfl

theorem bind_ok {x : M α} {f : α → M β} {st st' : St} {a : α} (h : x st = (.ok a, st')) :
    (x >>= f) st = f a st' := by
  show M.bind x f st = _
  unfold M.bind
  rw [h]

theorem bind_err {x : M α} {f : α → M β} {st st' : St} {e : Err} (h : x st = (.error e, st')) :
    (x >>= f) st = (.error e, st') := by
  show M.bind x f st = _
  unfold M.bind
  rw [h]

theorem bind_ok_inv {x : M α} {f : α → M β} {st st'' : St} {b : β}
    (h : (x >>= f) st = (.ok b, st'')) : ∃ a st', x st = (.ok a, st') ∧ f a st' = (.ok b, st'') := by
  rcases hx : x st with ⟨r, st'⟩
  cases r with
  | ok a => rw [bind_ok hx] at h; exact ⟨a, st', rfl, h⟩
  | error e => rw [bind_err hx] at h; cases h

/-- the result of a bind is an error iff the first part fails or the continuation does -/
theorem bind_cases (x : M α) (f : α → M β) (st : St) :
    (∃ a st', x st = (.ok a, st') ∧ (x >>= f) st = f a st') ∨
    (∃ e st', x st = (.error e, st') ∧ (x >>= f) st = (.error e, st')) := by
  rcases hx : x st with ⟨r, st'⟩
  cases r with
  | ok a => exact .inl ⟨a, st', rfl, bind_ok hx⟩
  | error e => exact .inr ⟨e, st', rfl, bind_err hx⟩

theorem tick_sim (l : String) (st : St) : (tick l st).2.sim = st.sim := by
  unfold tick; split <;> rfl

theorem tick_ok_inv {l : String} {st st' : St} {u : Unit} (h : tick l st = (.ok u, st')) :
    st'.sim = st.sim := by
  have := tick_sim l st; rw [h] at this; exact this

theorem tick_nofault {l : String} {st : St} (h : st.sc.failAt = none) :
    tick l st = (.ok (), { st with sc := { st.sc with tick := st.sc.tick + 1, trace := l :: st.sc.trace } }) := by
  unfold tick; simp [h]

theorem call_ok_inv {l : String} {x : M α} {st st'' : St} {a : α} (h : call l x st = (.ok a, st'')) :
    ∃ st1 st2, st1.sim = st.sim ∧ x st1 = (.ok a, st2) ∧ st''.sim = st2.sim := by
  unfold call at h
  obtain ⟨u, st1, h1, h⟩ := bind_ok_inv h
  obtain ⟨a', st2, h2, h⟩ := bind_ok_inv h
  obtain ⟨u', st3, h3, h⟩ := bind_ok_inv h
  simp only [pure_apply, Prod.mk.injEq, Except.ok.injEq] at h
  obtain ⟨ha, hs⟩ := h
  subst ha; subst hs
  exact ⟨st1, st2, tick_ok_inv h1, h2, tick_ok_inv h3⟩

/-! ### frame lemmas: a projection of the simulator that an operation never changes,
whatever its outcome -/

def Pres (π : Sim → β) (x : M α) : Prop := ∀ st, π (x st).2.sim = π st.sim

theorem Pres.pure {π : Sim → β} (a : α) : Pres π (pure a : M α) := fun _ => rfl
theorem Pres.raise {π : Sim → β} (e : Err) : Pres π (raise e : M α) := fun _ => rfl
theorem Pres.tick {π : Sim → β} (l : String) : Pres π (tick l) := fun st => by rw [tick_sim]

theorem Pres.bind {π : Sim → β} {x : M α} {f : α → M γ} (hx : Pres π x) (hf : ∀ a, Pres π (f a)) :
    Pres π (x >>= f) := by
  intro st
  rcases bind_cases x f st with ⟨a, st', h1, h2⟩ | ⟨e, st', h1, h2⟩
  · rw [h2, hf a st']; have := hx st; rw [h1] at this; exact this
  · rw [h2]; have := hx st; rw [h1] at this; exact this

theorem Pres.call {π : Sim → β} {x : M α} (l : String) (hx : Pres π x) : Pres π (call l x) := by
  unfold FDA.Sim.call
  exact Pres.bind (Pres.tick _) fun _ => Pres.bind hx fun a => Pres.bind (Pres.tick _) fun _ => Pres.pure a

theorem Pres.guardS {π : Sim → β} (b : Bool) : Pres π (guardS b) := by
  unfold FDA.Sim.guardS; split
  · exact Pres.pure _
  · exact Pres.raise _

theorem Pres.checkData {π : Sim → β} : Pres π checkData := by
  intro st; unfold FDA.Sim.checkData; split <;> rfl

theorem Pres.checkDim {π : Sim → β} : Pres π checkDim := by
  intro st; unfold FDA.Sim.checkDim; split
  · rfl
  · split <;> rfl

theorem Pres.getData {π : Sim → β} : Pres π getData := by
  intro st; unfold FDA.Sim.getData; split <;> rfl

theorem Pres.getSim {π : Sim → β} : Pres π getSim := fun _ => rfl

theorem Pres.noiseComp {π : Sim → β} (r : Rat) (c : Comp) (z : List (List Rat)) : Pres π (noiseComp r c z) := by
  unfold FDA.Sim.noiseComp
  exact Pres.call _ (Pres.bind (Pres.call _ (Pres.guardS _)) fun _ =>
    Pres.bind (Pres.call _ (Pres.pure _)) fun _ =>
    Pres.bind (Pres.call _ (Pres.pure _)) fun _ => Pres.call _ (Pres.pure _))

theorem Pres.noiseComps {π : Sim → β} (r : Rat) :
    ∀ (cs : List Comp) (zs : List (List (List Rat))), Pres π (noiseComps r cs zs)
  | [], _ => by unfold FDA.Sim.noiseComps; exact Pres.pure _
  | _ :: _, [] => by unfold FDA.Sim.noiseComps; exact Pres.raise _
  | c :: cs, z :: zs => by
    unfold FDA.Sim.noiseComps
    exact Pres.bind (Pres.noiseComp r c z) fun _ => Pres.bind (Pres.noiseComps r cs zs) fun _ => Pres.pure _

theorem Pres.noiseData {π : Sim → β} (r : Rat) (zs : List (List (List Rat))) (d : Data Comp) :
    Pres π (noiseData r zs d) := by
  cases d with
  | uni c =>
    simp only [FDA.Sim.noiseData]
    split
    · exact Pres.bind (Pres.noiseComp r c _) fun _ => Pres.pure _
    · exact Pres.raise _
  | multi cs =>
    simp only [FDA.Sim.noiseData]
    exact Pres.bind (Pres.noiseComps r cs zs) fun _ => Pres.call _ (Pres.pure _)

theorem Pres.fallbackMask {π : Sim → β} (repl : Bool) (n : Nat) (m0 : List Bool) (pair : Nat × Nat) :
    Pres π (fallbackMask repl n m0 pair) := by
  unfold FDA.Sim.fallbackMask
  split
  · refine Pres.call _ ?_
    split
    · split
      · exact Pres.pure _
      · exact Pres.raise _
    · split
      · exact Pres.raise _
      · split
        · exact Pres.pure _
        · exact Pres.raise _
  · exact Pres.pure _

theorem Pres.sparsifyCurve {π : Sim → β} (repl : Bool) (n : Nat) (p e : Rat) (row : List Rat) (s : CurveScript) :
    Pres π (sparsifyCurve repl n p e row s) := by
  unfold FDA.Sim.sparsifyCurve
  exact Pres.bind (Pres.call _ (Pres.guardS _)) fun _ => Pres.bind (Pres.fallbackMask _ _ _ _) fun _ => Pres.pure _

theorem Pres.sparsifyCurves {π : Sim → β} (repl : Bool) (n : Nat) (p e : Rat) :
    ∀ (rows : List (List Rat)) (ss : List CurveScript), Pres π (sparsifyCurves repl n p e rows ss)
  | [], _ => by unfold FDA.Sim.sparsifyCurves; exact Pres.pure _
  | _ :: _, [] => by unfold FDA.Sim.sparsifyCurves; exact Pres.raise _
  | row :: rows, s :: ss => by
    unfold FDA.Sim.sparsifyCurves
    exact Pres.bind (Pres.sparsifyCurve repl n p e row s) fun _ =>
      Pres.bind (Pres.sparsifyCurves repl n p e rows ss) fun _ => Pres.pure _

theorem Pres.sparsifyComp {π : Sim → β} (repl : Bool) (p e : Rat) (c : Comp) (s : List CurveScript) :
    Pres π (sparsifyComp repl p e c s) := by
  unfold FDA.Sim.sparsifyComp
  exact Pres.call _ (Pres.bind (Pres.call _ (Pres.guardS _)) fun _ =>
    Pres.bind (Pres.sparsifyCurves repl _ p e _ _) fun _ =>
    Pres.bind (Pres.call _ (Pres.pure _)) fun _ =>
    Pres.bind (Pres.call _ (Pres.pure _)) fun _ => Pres.call _ (Pres.pure _))

theorem Pres.sparsifyComps {π : Sim → β} (repl : Bool) (p e : Rat) :
    ∀ (cs : List Comp) (ss : List (List CurveScript)), Pres π (sparsifyComps repl p e cs ss)
  | [], _ => by unfold FDA.Sim.sparsifyComps; exact Pres.pure _
  | _ :: _, [] => by unfold FDA.Sim.sparsifyComps; exact Pres.raise _
  | c :: cs, s :: ss => by
    unfold FDA.Sim.sparsifyComps
    exact Pres.bind (Pres.sparsifyComp repl p e c s) fun _ =>
      Pres.bind (Pres.sparsifyComps repl p e cs ss) fun _ => Pres.pure _

theorem Pres.sparsifyData {π : Sim → β} (repl : Bool) (p e : Rat) (ss : List (List CurveScript)) (d : Data Comp) :
    Pres π (sparsifyData repl p e ss d) := by
  cases d with
  | uni c =>
    simp only [FDA.Sim.sparsifyData]
    split
    · exact Pres.bind (Pres.sparsifyComp repl p e c _) fun _ => Pres.pure _
    · exact Pres.raise _
  | multi cs =>
    simp only [FDA.Sim.sparsifyData]
    exact Pres.bind (Pres.sparsifyComps repl p e cs ss) fun _ => Pres.call _ (Pres.pure _)

/-- `add_noise` assigns `noisy_data` only: any projection that ignores `noisy` is preserved. -/
theorem Pres.addNoise {π : Sim → β} (hπ : ∀ s d, π { s with noisy := some d } = π s)
    (r : Rat) (zs : List (List (List Rat))) : Pres π (addNoise r zs) := by
  unfold FDA.Sim.addNoise
  refine Pres.call _ (Pres.bind (Pres.call _ Pres.checkData) fun _ => Pres.bind Pres.getData fun d =>
    Pres.bind (Pres.noiseData r zs d) fun nd => ?_)
  intro st; exact hπ st.sim nd

/-- `sparsify` assigns `sparse_data` only. -/
theorem Pres.sparsify {π : Sim → β} (hπ : ∀ s d, π { s with sparse := some d } = π s)
    (repl : Bool) (p e : Rat) (ss : List (List CurveScript)) : Pres π (sparsify repl p e ss) := by
  unfold FDA.Sim.sparsify
  refine Pres.call _ (Pres.bind (Pres.call _ Pres.checkData) fun _ =>
    Pres.bind (Pres.call _ Pres.checkDim) fun _ => Pres.bind Pres.getData fun d =>
    Pres.bind (Pres.sparsifyData repl p e ss d) fun sd => ?_)
  intro st; exact hπ st.sim sd

/-! ### success specifications of computations that do not touch the simulator -/

/-- If `x` succeeds it returns a value satisfying `P` and leaves the simulator as it was. -/
def Ret (x : M α) (P : α → Prop) : Prop := ∀ st a st', x st = (.ok a, st') → P a ∧ st'.sim = st.sim

theorem Ret.pure {P : α → Prop} {a : α} (h : P a) : Ret (pure a : M α) P := by
  intro st a' st' hh
  simp only [pure_apply, Prod.mk.injEq, Except.ok.injEq] at hh
  obtain ⟨rfl, rfl⟩ := hh
  exact ⟨h, rfl⟩

theorem Ret.raise {P : α → Prop} (e : Err) : Ret (raise e : M α) P := by
  intro st a st' hh; cases hh

theorem Ret.bind {x : M α} {f : α → M β} {P : α → Prop} {Q : β → Prop}
    (hx : Ret x P) (hf : ∀ a, P a → Ret (f a) Q) : Ret (x >>= f) Q := by
  intro st b st'' h
  obtain ⟨a, st', h1, h2⟩ := bind_ok_inv h
  obtain ⟨pa, hs⟩ := hx st a st' h1
  obtain ⟨qb, hs'⟩ := hf a pa st' b st'' h2
  exact ⟨qb, hs'.trans hs⟩

theorem Ret.tick (l : String) : Ret (tick l) (fun _ => True) := by
  intro st u st' h; exact ⟨trivial, tick_ok_inv h⟩

theorem Ret.call {x : M α} {P : α → Prop} (l : String) (hx : Ret x P) : Ret (call l x) P := by
  unfold FDA.Sim.call
  exact Ret.bind (Ret.tick _) fun _ _ => Ret.bind hx fun a pa => Ret.bind (Ret.tick _) fun _ _ => Ret.pure pa

theorem Ret.guardS (b : Bool) : Ret (guardS b) (fun _ => b = true) := by
  unfold FDA.Sim.guardS
  cases b
  · exact Ret.raise _
  · exact Ret.pure rfl

theorem Ret.mono {x : M α} {P Q : α → Prop} (hx : Ret x P) (h : ∀ a, P a → Q a) : Ret x Q :=
  fun st a st' hh => ⟨h a (hx st a st' hh).1, (hx st a st' hh).2⟩

/-! ### pure specifications of the payloads -/

def noiseCompPure (r : Rat) (c : Comp) (z : List (List Rat)) : Comp := ⟨c.grid, addScaled r c.vals z⟩

def noisePure (r : Rat) (zs : List (List (List Rat))) : Data Comp → Data Comp
  | .uni c => .uni (noiseCompPure r c (zs.headD []))
  | .multi cs => .multi (List.zipWith (noiseCompPure r) cs zs)

/-- the draws fit the dataset (what the scripted source checks) -/
def noiseFits (zs : List (List (List Rat))) : Data Comp → Prop
  | .uni c => ∃ z, zs = [z] ∧ sameShape c.vals z = true
  | .multi cs => cs.length ≤ zs.length ∧ ∀ (i : Nat) (c : Comp) (z : List (List Rat)), cs[i]? = some c → zs[i]? = some z → sameShape c.vals z = true

theorem Ret.noiseComp (r : Rat) (c : Comp) (z : List (List Rat)) :
    Ret (noiseComp r c z) (fun c' => c' = noiseCompPure r c z ∧ sameShape c.vals z = true) := by
  unfold FDA.Sim.noiseComp
  refine Ret.call _ (Ret.bind (Ret.call _ (Ret.guardS _)) fun _ hs => ?_)
  refine Ret.bind (Ret.call _ (Ret.pure (P := fun g => g = c.grid) rfl)) fun g hg => ?_
  refine Ret.bind (Ret.call _ (Ret.pure (P := fun v => v = addScaled r c.vals z) rfl)) fun v hv => ?_
  subst hg; subst hv
  exact Ret.call _ (Ret.pure ⟨rfl, hs⟩)

theorem Ret.noiseComps (r : Rat) :
    ∀ (cs : List Comp) (zs : List (List (List Rat))),
      Ret (noiseComps r cs zs) (fun cs' => cs' = List.zipWith (noiseCompPure r) cs zs ∧ cs.length ≤ zs.length ∧
        ∀ (i : Nat) (c : Comp) (z : List (List Rat)), cs[i]? = some c → zs[i]? = some z → sameShape c.vals z = true)
  | [], _ => by
    unfold FDA.Sim.noiseComps
    exact Ret.pure ⟨by simp, by simp, by simp⟩
  | _ :: _, [] => by unfold FDA.Sim.noiseComps; exact Ret.raise _
  | c :: cs, z :: zs => by
    unfold FDA.Sim.noiseComps
    refine Ret.bind (Ret.noiseComp r c z) fun c' hc => Ret.bind (Ret.noiseComps r cs zs) fun cs' hcs => Ret.pure ?_
    obtain ⟨rfl, hsh⟩ := hc
    obtain ⟨rfl, hlen, hall⟩ := hcs
    refine ⟨by simp, by simpa using hlen, ?_⟩
    intro i c0 z0 h1 h2
    cases i with
    | zero => simp at h1 h2; subst h1; subst h2; exact hsh
    | succ i => simp at h1 h2; exact hall i c0 z0 h1 h2

theorem Ret.noiseData (r : Rat) (zs : List (List (List Rat))) (d : Data Comp) :
    Ret (noiseData r zs d) (fun d' => d' = noisePure r zs d ∧ noiseFits zs d) := by
  cases d with
  | uni c =>
    simp only [FDA.Sim.noiseData]
    split
    · rename_i z
      refine Ret.bind (Ret.noiseComp r c z) fun c' hc => Ret.pure ?_
      obtain ⟨rfl, hsh⟩ := hc
      exact ⟨by simp [noisePure], z, rfl, hsh⟩
    · exact Ret.raise _
  | multi cs =>
    simp only [FDA.Sim.noiseData]
    refine Ret.bind (Ret.noiseComps r cs zs) fun cs' hcs => Ret.call _ (Ret.pure ?_)
    obtain ⟨rfl, hlen, hall⟩ := hcs
    exact ⟨rfl, hlen, hall⟩

/-! ### sparsification payload -/

def sparseRowPure (p e : Rat) (row : List Rat) (s : CurveScript) : List (Option Rat) :=
  applyMask (finalMask (percOf p e s.u) s.m s.pair) row

def sparseCompPure (p e : Rat) (c : Comp) (ss : List CurveScript) : SComp :=
  ⟨c.grid, List.zipWith (sparseRowPure p e) c.vals ss⟩

def sparsePure (p e : Rat) (sss : List (List CurveScript)) : Data Comp → Data SComp
  | .uni c => .uni (sparseCompPure p e c (sss.headD []))
  | .multi cs => .multi (List.zipWith (sparseCompPure p e) cs sss)

/-- validity of the scripted draws of one curve with `n` sampling points -/
def curveFits (n : Nat) (p e : Rat) (row : List Rat) (s : CurveScript) : Prop :=
  s.m.length = n ∧ row.length = n ∧
    (countTrue (maskOf (percOf p e s.u) s.m) < 2 → 2 ≤ n ∧ s.pair.1 < n ∧ s.pair.2 < n - 1)

theorem Ret.fallbackMask (n : Nat) (m0 : List Bool) (pair : Nat × Nat) :
    Ret (fallbackMask false n m0 pair) (fun m =>
      m = (if countTrue m0 < 2 then setPair m0 (pairIdx pair) else m0) ∧
      (countTrue m0 < 2 → 2 ≤ n ∧ pair.1 < n ∧ pair.2 < n - 1)) := by
  unfold FDA.Sim.fallbackMask
  by_cases hc : countTrue m0 < 2
  · rw [if_pos hc]
    refine Ret.call _ ?_
    rw [if_neg (by simp)]
    by_cases hn : n < 2
    · rw [if_pos hn]; exact Ret.raise _
    · rw [if_neg hn]
      by_cases hp : pair.1 < n ∧ pair.2 < n - 1
      · rw [if_pos hp]
        exact Ret.pure ⟨by rw [if_pos hc], fun _ => ⟨by omega, hp.1, hp.2⟩⟩
      · rw [if_neg hp]; exact Ret.raise _
  · rw [if_neg hc]
    exact Ret.pure ⟨by rw [if_neg hc], fun h => absurd h hc⟩

theorem Ret.sparsifyCurve (n : Nat) (p e : Rat) (row : List Rat) (s : CurveScript) :
    Ret (sparsifyCurve false n p e row s) (fun r' => r' = sparseRowPure p e row s ∧ curveFits n p e row s) := by
  unfold FDA.Sim.sparsifyCurve
  refine Ret.bind (Ret.call _ (Ret.guardS _)) fun _ hg => ?_
  simp only [Bool.and_eq_true, beq_iff_eq] at hg
  refine Ret.bind (Ret.fallbackMask n _ s.pair) fun m hm => ?_
  obtain ⟨rfl, hfit⟩ := hm
  exact Ret.pure ⟨rfl, hg.1, hg.2, hfit⟩

theorem Ret.sparsifyCurves (n : Nat) (p e : Rat) :
    ∀ (rows : List (List Rat)) (ss : List CurveScript),
      Ret (sparsifyCurves false n p e rows ss) (fun rs => rs = List.zipWith (sparseRowPure p e) rows ss ∧
        rows.length ≤ ss.length ∧ ∀ (i : Nat) (row : List Rat) (s : CurveScript), rows[i]? = some row → ss[i]? = some s → curveFits n p e row s)
  | [], _ => by
    unfold FDA.Sim.sparsifyCurves
    exact Ret.pure ⟨by simp, by simp, by simp⟩
  | _ :: _, [] => by unfold FDA.Sim.sparsifyCurves; exact Ret.raise _
  | row :: rows, s :: ss => by
    unfold FDA.Sim.sparsifyCurves
    refine Ret.bind (Ret.sparsifyCurve n p e row s) fun r' hr =>
      Ret.bind (Ret.sparsifyCurves n p e rows ss) fun rs' hrs => Ret.pure ?_
    obtain ⟨rfl, hf⟩ := hr
    obtain ⟨rfl, hlen, hall⟩ := hrs
    refine ⟨by simp, by simpa using hlen, ?_⟩
    intro i c0 z0 h1 h2
    cases i with
    | zero => simp at h1 h2; subst h1; subst h2; exact hf
    | succ i => simp at h1 h2; exact hall i c0 z0 h1 h2

/-- the scripted draws fit one component -/
def compFits (p e : Rat) (c : Comp) (ss : List CurveScript) : Prop :=
  ss.length = c.vals.length ∧ ∀ (i : Nat) (row : List Rat) (s : CurveScript), c.vals[i]? = some row → ss[i]? = some s → curveFits c.nPoints p e row s

theorem Ret.sparsifyComp (p e : Rat) (c : Comp) (ss : List CurveScript) :
    Ret (sparsifyComp false p e c ss) (fun c' => c' = sparseCompPure p e c ss ∧ compFits p e c ss) := by
  unfold FDA.Sim.sparsifyComp
  refine Ret.call _ (Ret.bind (Ret.call _ (Ret.guardS _)) fun _ hg => ?_)
  simp only [beq_iff_eq] at hg
  refine Ret.bind (Ret.sparsifyCurves c.nPoints p e c.vals ss) fun rows hrows => ?_
  obtain ⟨rfl, _, hall⟩ := hrows
  refine Ret.bind (Ret.call _ (Ret.pure (P := fun g => g = c.grid) rfl)) fun g hgr => ?_
  refine Ret.bind (Ret.call _ (Ret.pure (P := fun v => v = List.zipWith (sparseRowPure p e) c.vals ss) rfl)) fun v hv => ?_
  subst hgr; subst hv
  exact Ret.call _ (Ret.pure ⟨rfl, hg, hall⟩)

def sparseFits (p e : Rat) (sss : List (List CurveScript)) : Data Comp → Prop
  | .uni c => ∃ ss, sss = [ss] ∧ compFits p e c ss
  | .multi cs => cs.length ≤ sss.length ∧ ∀ (i : Nat) (c : Comp) (ss : List CurveScript), cs[i]? = some c → sss[i]? = some ss → compFits p e c ss

theorem Ret.sparsifyComps (p e : Rat) :
    ∀ (cs : List Comp) (sss : List (List CurveScript)),
      Ret (sparsifyComps false p e cs sss) (fun cs' => cs' = List.zipWith (sparseCompPure p e) cs sss ∧
        cs.length ≤ sss.length ∧ ∀ (i : Nat) (c : Comp) (ss : List CurveScript), cs[i]? = some c → sss[i]? = some ss → compFits p e c ss)
  | [], _ => by
    unfold FDA.Sim.sparsifyComps
    exact Ret.pure ⟨by simp, by simp, by simp⟩
  | _ :: _, [] => by unfold FDA.Sim.sparsifyComps; exact Ret.raise _
  | c :: cs, s :: sss => by
    unfold FDA.Sim.sparsifyComps
    refine Ret.bind (Ret.sparsifyComp p e c s) fun c' hc =>
      Ret.bind (Ret.sparsifyComps p e cs sss) fun cs' hcs => Ret.pure ?_
    obtain ⟨rfl, hf⟩ := hc
    obtain ⟨rfl, hlen, hall⟩ := hcs
    refine ⟨by simp, by simpa using hlen, ?_⟩
    intro i c0 z0 h1 h2
    cases i with
    | zero => simp at h1 h2; subst h1; subst h2; exact hf
    | succ i => simp at h1 h2; exact hall i c0 z0 h1 h2

theorem Ret.sparsifyData (p e : Rat) (sss : List (List CurveScript)) (d : Data Comp) :
    Ret (sparsifyData false p e sss d) (fun d' => d' = sparsePure p e sss d ∧ sparseFits p e sss d) := by
  cases d with
  | uni c =>
    simp only [FDA.Sim.sparsifyData]
    split
    · rename_i s
      refine Ret.bind (Ret.sparsifyComp p e c s) fun c' hc => Ret.pure ?_
      obtain ⟨rfl, hf⟩ := hc
      exact ⟨by simp [sparsePure], s, rfl, hf⟩
    · exact Ret.raise _
  | multi cs =>
    simp only [FDA.Sim.sparsifyData]
    refine Ret.bind (Ret.sparsifyComps p e cs sss) fun cs' hcs => Ret.call _ (Ret.pure ?_)
    obtain ⟨rfl, hlen, hall⟩ := hcs
    exact ⟨rfl, hlen, hall⟩

/-! ### list facts -/

theorem one_le_count_of_getElem? {l : List Bool} {i : Nat} (h : l[i]? = some true) : 1 ≤ l.count true := by
  have : true ∈ l := List.mem_of_getElem? h
  exact List.count_pos_iff.mpr this

theorem two_le_count_of_two {l : List Bool} : ∀ {i j : Nat}, i < j → l[i]? = some true → l[j]? = some true →
    2 ≤ l.count true := by
  induction l with
  | nil => intro i j _ hi _; simp at hi
  | cons b t ih =>
    intro i j hij hi hj
    cases j with
    | zero => omega
    | succ j =>
      cases i with
      | zero =>
        simp at hi hj
        subst hi
        have := one_le_count_of_getElem? hj
        rw [List.count_cons_self]; omega
      | succ i =>
        simp at hi hj
        have := ih (by omega) hi hj
        have h2 : t.count true ≤ (b :: t).count true := by simp [List.count_cons]
        omega

theorem setPair_get_left {m : List Bool} {i j : Nat} (hi : i < m.length) :
    (setPair m (i, j))[i]? = some true := by
  unfold setPair
  by_cases h : i = j
  · subst h; simp [hi]
  · have h1 : i < ((m.set i true).set j true).length := by simpa using hi
    rw [List.getElem?_eq_getElem h1, List.getElem_set_ne (fun hh => h hh.symm)]
    simp

theorem setPair_get_right {m : List Bool} {i j : Nat} (hj : j < m.length) :
    (setPair m (i, j))[j]? = some true := by
  unfold setPair
  simp [hj]

theorem two_le_count_setPair {m : List Bool} {i j : Nat} (hi : i < m.length) (hj : j < m.length) (hij : i ≠ j) :
    2 ≤ countTrue (setPair m (i, j)) := by
  unfold countTrue
  rcases Nat.lt_or_gt_of_ne hij with h | h
  · exact two_le_count_of_two h (setPair_get_left hi) (setPair_get_right hj)
  · exact two_le_count_of_two h (setPair_get_right hj) (setPair_get_left hi)

theorem pairIdx_ne (pr : Nat × Nat) : (pairIdx pr).1 ≠ (pairIdx pr).2 := by
  unfold pairIdx
  by_cases h : pr.2 < pr.1
  · simp [h]; omega
  · simp [h]; omega

theorem pairIdx_lt {n : Nat} {pr : Nat × Nat} (ha : pr.1 < n) (hb : pr.2 < n - 1) :
    (pairIdx pr).1 < n ∧ (pairIdx pr).2 < n := by
  unfold pairIdx
  by_cases h : pr.2 < pr.1
  · simp [h]; omega
  · simp [h]; omega

theorem setPair_length (m : List Bool) (ij : Nat × Nat) : (setPair m ij).length = m.length := by
  unfold setPair; simp

theorem maskOf_length (perc : Rat) (us : List Rat) : (maskOf perc us).length = us.length := by
  unfold maskOf; simp

theorem finalMask_length (perc : Rat) (mu : List Rat) (pr : Nat × Nat) :
    (finalMask perc mu pr).length = mu.length := by
  unfold finalMask
  by_cases h : countTrue (maskOf perc mu) < 2
  · simp [h, setPair_length, maskOf_length]
  · simp [h, maskOf_length]

theorem applyMask_length {m : List Bool} {row : List Rat} (h : m.length = row.length) :
    (applyMask m row).length = row.length := by
  unfold applyMask; simp [h]

theorem applyMask_get (m : List Bool) (row : List Rat) (j : Nat) :
    (applyMask m row)[j]? =
      match m[j]?, row[j]? with
      | some b, some x => some (if b then some x else none)
      | _, _ => none := by
  unfold applyMask
  rw [List.getElem?_zipWith]
  cases m[j]? <;> cases row[j]? <;> rfl

/-- the number of non-missing samples of a sparsified curve is the number of `true` in the mask -/
theorem count_kept : ∀ (m : List Bool) (row : List Rat), m.length = row.length →
    ((applyMask m row).filter Option.isSome).length = countTrue m
  | [], [], _ => by simp [applyMask, countTrue]
  | [], _ :: _, h => by simp at h
  | _ :: _, [], h => by simp at h
  | b :: m, x :: row, h => by
    have ih := count_kept m row (by simpa using h)
    unfold applyMask countTrue at *
    cases b <;> simp [List.count_cons, ih]

end FDA.Sim

namespace FDA.Sim

/-- entry `(i, j)` of a list of rows, `none` outside -/
def entry (X : List (List α)) (i j : Nat) : Option α :=
  match X[i]? with
  | some row => row[j]?
  | none => none

theorem entry_addScaled (r : Rat) (X Z : List (List Rat)) (i j : Nat) (x z : Rat)
    (hx : entry X i j = some x) (hz : entry Z i j = some z) :
    entry (addScaled r X Z) i j = some (x + r * z) := by
  unfold entry addScaled at *
  rw [List.getElem?_zipWith]
  cases hX : X[i]? with
  | none => simp [hX] at hx
  | some xr =>
    cases hZ : Z[i]? with
    | none => simp [hZ] at hz
    | some zr =>
      simp only [hX, hZ] at hx hz ⊢
      simp [List.getElem?_zipWith, hx, hz]

theorem sameShape_cons (x z : List Rat) (X Z : List (List Rat)) :
    sameShape (x :: X) (z :: Z) = (x.length == z.length && sameShape X Z) := by
  unfold sameShape
  simp only [List.length_cons, List.zipWith_cons_cons, List.all_cons, id]
  cases h1 : (x.length == z.length) <;> cases h2 : (X.length == Z.length) <;> simp_all

theorem zipWith_fst {α β : Type} : ∀ (x : List α) (z : List β), x.length = z.length →
    List.zipWith (fun a _ => a) x z = x
  | [], [], _ => rfl
  | [], _ :: _, h => by simp at h
  | _ :: _, [], h => by simp at h
  | a :: x, b :: z, h => by
    rw [List.zipWith_cons_cons, zipWith_fst x z (by simpa using h)]

theorem addScaled_zero : ∀ (X Z : List (List Rat)), sameShape X Z = true → addScaled 0 X Z = X
  | [], [], _ => by simp [addScaled]
  | [], _ :: _, h => by simp [sameShape] at h
  | _ :: _, [], h => by simp [sameShape] at h
  | x :: X, z :: Z, h => by
    rw [sameShape_cons] at h
    simp only [Bool.and_eq_true, beq_iff_eq] at h
    have ih := addScaled_zero X Z h.2
    unfold addScaled at ih ⊢
    simp only [Rat.zero_mul, Rat.add_zero] at ih ⊢
    rw [List.zipWith_cons_cons, ih, zipWith_fst x z h.1]

theorem sameShape_addScaled (r : Rat) : ∀ (X Z : List (List Rat)), sameShape X Z = true →
    sameShape X (addScaled r X Z) = true
  | [], [], _ => by simp [addScaled, sameShape]
  | [], _ :: _, h => by simp [sameShape] at h
  | _ :: _, [], h => by simp [sameShape] at h
  | x :: X, z :: Z, h => by
    rw [sameShape_cons] at h
    simp only [Bool.and_eq_true, beq_iff_eq] at h
    have ih := sameShape_addScaled r X Z h.2
    unfold addScaled at ih ⊢
    rw [List.zipWith_cons_cons, sameShape_cons]
    simp [ih, h.1]

/-- `getData` succeeds exactly on a simulator that has data, and changes nothing -/
theorem getData_ok_inv {st st' : St} {d : Data Comp} (h : getData st = (.ok d, st')) :
    st.sim.data = some d ∧ st' = st := by
  unfold getData at h
  split at h
  · cases h
  · rename_i d' hd
    simp only [Prod.mk.injEq, Except.ok.injEq] at h
    exact ⟨by rw [hd, h.1], h.2.symm⟩

theorem checkDim_ok_inv {st st' : St} {u : Unit} (h : checkDim st = (.ok u, st')) :
    ∀ d, st.sim.data = some d → dimTooLarge d = false := by
  intro d hd
  unfold checkDim at h
  rw [hd] at h
  simp only at h
  by_cases hh : dimTooLarge d = true
  · rw [if_pos hh] at h; cases h
  · simpa using hh

theorem tryFinally_setData_data (x : M α) (tmp : Option (Data Comp)) (st : St) :
    ((tryFinally x (setData tmp)) st).2.sim.data = tmp := by
  unfold tryFinally setData
  rcases x st with ⟨r, st'⟩
  rfl

theorem tryFinally_setData_ok_inv {x : M α} {tmp : Option (Data Comp)} {st st'' : St} {a : α}
    (h : (tryFinally x (setData tmp)) st = (.ok a, st'')) :
    ∃ st', x st = (.ok a, st') ∧ st''.sim = { st'.sim with data := tmp } := by
  unfold tryFinally setData at h
  rcases hx : x st with ⟨r, st'⟩
  rw [hx] at h
  simp only [Prod.mk.injEq] at h
  obtain ⟨h1, h2⟩ := h
  subst h1; subst h2
  exact ⟨st', rfl, rfl⟩

end FDA.Sim

namespace FDA.Sim

/-! ### no spurious faults: without a scheduled fault (`failAt = none`) an operation never ends
with the injected error, and the schedule stays empty -/

def NoInj (x : M α) : Prop :=
  ∀ st, st.sc.failAt = none → (x st).1 ≠ .error .injected ∧ (x st).2.sc.failAt = none

theorem NoInj.pure (a : α) : NoInj (pure a : M α) := fun st h => ⟨by simp, h⟩

theorem NoInj.raise (e : Err) (he : e ≠ .injected) : NoInj (raise e : M α) := by
  intro st h
  refine ⟨?_, h⟩
  unfold FDA.Sim.raise
  intro hh
  cases hh
  exact he rfl

theorem NoInj.tick (l : String) : NoInj (tick l) := by
  intro st h
  rw [tick_nofault h]
  exact ⟨by simp, h⟩

theorem NoInj.bind {x : M α} {f : α → M γ} (hx : NoInj x) (hf : ∀ a, NoInj (f a)) : NoInj (x >>= f) := by
  intro st h
  rcases bind_cases x f st with ⟨a, st', h1, h2⟩ | ⟨e, st', h1, h2⟩
  · have := hx st h
    rw [h1] at this
    rw [h2]
    exact hf a st' this.2
  · have := hx st h
    rw [h1] at this
    rw [h2]
    refine ⟨?_, this.2⟩
    intro hh
    apply this.1
    simp only [Prod.mk.injEq, Except.error.injEq] at hh ⊢
    exact hh

theorem NoInj.call {x : M α} (l : String) (hx : NoInj x) : NoInj (call l x) := by
  unfold FDA.Sim.call
  exact NoInj.bind (NoInj.tick _) fun _ => NoInj.bind hx fun a => NoInj.bind (NoInj.tick _) fun _ => NoInj.pure a

theorem NoInj.guardS (b : Bool) : NoInj (guardS b) := by
  unfold FDA.Sim.guardS; split
  · exact NoInj.pure _
  · exact NoInj.raise _ (by decide)

theorem NoInj.checkData : NoInj checkData := by
  intro st h; unfold FDA.Sim.checkData; split
  · exact ⟨by simp, h⟩
  · exact ⟨by simp, h⟩

theorem NoInj.checkDim : NoInj checkDim := by
  intro st h; unfold FDA.Sim.checkDim; split
  · exact ⟨by simp, h⟩
  · split
    · exact ⟨by simp, h⟩
    · exact ⟨by simp, h⟩

theorem NoInj.getData : NoInj getData := by
  intro st h; unfold FDA.Sim.getData; split
  · exact ⟨by simp, h⟩
  · exact ⟨by simp, h⟩

theorem NoInj.getSim : NoInj getSim := fun st h => ⟨by simp [FDA.Sim.getSim], h⟩
theorem NoInj.setNoisy (d : Data Comp) : NoInj (setNoisy d) := fun st h => ⟨by simp [FDA.Sim.setNoisy], h⟩
theorem NoInj.setSparse (d : Data SComp) : NoInj (setSparse d) := fun st h => ⟨by simp [FDA.Sim.setSparse], h⟩
theorem NoInj.setData (d : Option (Data Comp)) : NoInj (setData d) := fun st h => ⟨by simp [FDA.Sim.setData], h⟩

theorem NoInj.tryFinally {x : M α} {fin : M Unit} (hx : NoInj x) (hfin : NoInj fin) : NoInj (tryFinally x fin) := by
  intro st h
  unfold FDA.Sim.tryFinally
  have h1 := hx st h
  rcases hxs : x st with ⟨r, st'⟩
  rw [hxs] at h1
  have h2 := hfin st' h1.2
  rcases hfs : fin st' with ⟨r2, st''⟩
  rw [hfs] at h2
  simp only [hfs]
  cases r2 with
  | ok u => exact ⟨h1.1, h2.2⟩
  | error e =>
    refine ⟨?_, h2.2⟩
    intro hh
    apply h2.1
    simp only [Except.error.injEq] at hh ⊢
    exact hh

theorem NoInj.noiseComp (r : Rat) (c : Comp) (z : List (List Rat)) : NoInj (noiseComp r c z) := by
  unfold FDA.Sim.noiseComp
  exact NoInj.call _ (NoInj.bind (NoInj.call _ (NoInj.guardS _)) fun _ =>
    NoInj.bind (NoInj.call _ (NoInj.pure _)) fun _ =>
    NoInj.bind (NoInj.call _ (NoInj.pure _)) fun _ => NoInj.call _ (NoInj.pure _))

theorem NoInj.noiseComps (r : Rat) :
    ∀ (cs : List Comp) (zs : List (List (List Rat))), NoInj (noiseComps r cs zs)
  | [], _ => by unfold FDA.Sim.noiseComps; exact NoInj.pure _
  | _ :: _, [] => by unfold FDA.Sim.noiseComps; exact NoInj.raise _ (by decide)
  | c :: cs, z :: zs => by
    unfold FDA.Sim.noiseComps
    exact NoInj.bind (NoInj.noiseComp r c z) fun _ => NoInj.bind (NoInj.noiseComps r cs zs) fun _ => NoInj.pure _

theorem NoInj.noiseData (r : Rat) (zs : List (List (List Rat))) (d : Data Comp) :
    NoInj (noiseData r zs d) := by
  cases d with
  | uni c =>
    simp only [FDA.Sim.noiseData]
    split
    · exact NoInj.bind (NoInj.noiseComp r c _) fun _ => NoInj.pure _
    · exact NoInj.raise _ (by decide)
  | multi cs =>
    simp only [FDA.Sim.noiseData]
    exact NoInj.bind (NoInj.noiseComps r cs zs) fun _ => NoInj.call _ (NoInj.pure _)

theorem NoInj.fallbackMask (repl : Bool) (n : Nat) (m0 : List Bool) (pair : Nat × Nat) :
    NoInj (fallbackMask repl n m0 pair) := by
  unfold FDA.Sim.fallbackMask
  split
  · refine NoInj.call _ ?_
    split
    · split
      · exact NoInj.pure _
      · exact NoInj.raise _ (by decide)
    · split
      · exact NoInj.raise _ (by decide)
      · split
        · exact NoInj.pure _
        · exact NoInj.raise _ (by decide)
  · exact NoInj.pure _

theorem NoInj.sparsifyCurve (repl : Bool) (n : Nat) (p e : Rat) (row : List Rat) (s : CurveScript) :
    NoInj (sparsifyCurve repl n p e row s) := by
  unfold FDA.Sim.sparsifyCurve
  exact NoInj.bind (NoInj.call _ (NoInj.guardS _)) fun _ => NoInj.bind (NoInj.fallbackMask _ _ _ _) fun _ => NoInj.pure _

theorem NoInj.sparsifyCurves (repl : Bool) (n : Nat) (p e : Rat) :
    ∀ (rows : List (List Rat)) (ss : List CurveScript), NoInj (sparsifyCurves repl n p e rows ss)
  | [], _ => by unfold FDA.Sim.sparsifyCurves; exact NoInj.pure _
  | _ :: _, [] => by unfold FDA.Sim.sparsifyCurves; exact NoInj.raise _ (by decide)
  | row :: rows, s :: ss => by
    unfold FDA.Sim.sparsifyCurves
    exact NoInj.bind (NoInj.sparsifyCurve repl n p e row s) fun _ =>
      NoInj.bind (NoInj.sparsifyCurves repl n p e rows ss) fun _ => NoInj.pure _

theorem NoInj.sparsifyComp (repl : Bool) (p e : Rat) (c : Comp) (s : List CurveScript) :
    NoInj (sparsifyComp repl p e c s) := by
  unfold FDA.Sim.sparsifyComp
  exact NoInj.call _ (NoInj.bind (NoInj.call _ (NoInj.guardS _)) fun _ =>
    NoInj.bind (NoInj.sparsifyCurves repl _ p e _ _) fun _ =>
    NoInj.bind (NoInj.call _ (NoInj.pure _)) fun _ =>
    NoInj.bind (NoInj.call _ (NoInj.pure _)) fun _ => NoInj.call _ (NoInj.pure _))

theorem NoInj.sparsifyComps (repl : Bool) (p e : Rat) :
    ∀ (cs : List Comp) (ss : List (List CurveScript)), NoInj (sparsifyComps repl p e cs ss)
  | [], _ => by unfold FDA.Sim.sparsifyComps; exact NoInj.pure _
  | _ :: _, [] => by unfold FDA.Sim.sparsifyComps; exact NoInj.raise _ (by decide)
  | c :: cs, s :: ss => by
    unfold FDA.Sim.sparsifyComps
    exact NoInj.bind (NoInj.sparsifyComp repl p e c s) fun _ =>
      NoInj.bind (NoInj.sparsifyComps repl p e cs ss) fun _ => NoInj.pure _

theorem NoInj.sparsifyData (repl : Bool) (p e : Rat) (ss : List (List CurveScript)) (d : Data Comp) :
    NoInj (sparsifyData repl p e ss d) := by
  cases d with
  | uni c =>
    simp only [FDA.Sim.sparsifyData]
    split
    · exact NoInj.bind (NoInj.sparsifyComp repl p e c _) fun _ => NoInj.pure _
    · exact NoInj.raise _ (by decide)
  | multi cs =>
    simp only [FDA.Sim.sparsifyData]
    exact NoInj.bind (NoInj.sparsifyComps repl p e cs ss) fun _ => NoInj.call _ (NoInj.pure _)


theorem NoInj.addNoise (r : Rat) (zs : List (List (List Rat))) : NoInj (addNoise r zs) := by
  unfold FDA.Sim.addNoise
  exact NoInj.call _ (NoInj.bind (NoInj.call _ NoInj.checkData) fun _ => NoInj.bind NoInj.getData fun d =>
    NoInj.bind (NoInj.noiseData r zs d) fun nd => NoInj.setNoisy nd)

theorem NoInj.sparsify (repl : Bool) (p e : Rat) (ss : List (List CurveScript)) : NoInj (sparsify repl p e ss) := by
  unfold FDA.Sim.sparsify
  exact NoInj.call _ (NoInj.bind (NoInj.call _ NoInj.checkData) fun _ =>
    NoInj.bind (NoInj.call _ NoInj.checkDim) fun _ => NoInj.bind NoInj.getData fun d =>
    NoInj.bind (NoInj.sparsifyData repl p e ss d) fun sd => NoInj.setSparse sd)

theorem NoInj.combined (repl : Bool) (r : Rat) (zs : List (List (List Rat))) (p e : Rat)
    (ss : List (List CurveScript)) : NoInj (combined repl r zs p e ss) := by
  unfold FDA.Sim.combined
  exact NoInj.bind (NoInj.addNoise r zs) fun _ => NoInj.bind NoInj.getSim fun s =>
    NoInj.bind (NoInj.setData _) fun _ => NoInj.tryFinally (NoInj.sparsify repl p e ss) (NoInj.setData _)

end FDA.Sim

namespace FDA.Sim

/-! ### monad laws of `M` (used to normalise the generated method bodies) -/

theorem M_pure_bind (a : α) (f : α → M β) : (pure a >>= f) = f a := rfl

theorem M_bind_pure (x : M α) : (x >>= fun a => pure a) = x := by
  funext st
  rcases bind_cases x (fun a => (pure a : M α)) st with ⟨a, st', h1, h2⟩ | ⟨e, st', h1, h2⟩
  · rw [h2, h1]; rfl
  · rw [h2, h1]

theorem M_bind_assoc (x : M α) (f : α → M β) (g : β → M γ) :
    ((x >>= f) >>= g) = (x >>= fun a => f a >>= g) := by
  funext st
  rcases bind_cases x f st with ⟨a, st', h1, h2⟩ | ⟨e, st', h1, h2⟩
  · rw [bind_ok h1]
    rcases bind_cases (f a) g st' with ⟨b, st'', h3, h4⟩ | ⟨e, st'', h3, h4⟩
    · rw [bind_ok (x := x >>= f) (by rw [h2]; exact h3), h4]
    · rw [bind_err (x := x >>= f) (by rw [h2]; exact h3), h4]
  · rw [bind_err h1, bind_err (x := x >>= f) h2]

end FDA.Sim
