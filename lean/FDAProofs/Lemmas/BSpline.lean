/-
Helper lemmas for the B-spline model (`FDAModel/BSpline.lean`): the coded
difference-matrix product is an iterated forward difference of truncated powers,
which in knot-index coordinates is the cardinal B-spline; support, recurrence,
non-negativity, partition of unity and the Cox–de Boor recursion of the latter.
-/
import FDAModel.BSpline
import Mathlib.Algebra.Group.ForwardDiff
import Mathlib.Algebra.BigOperators.Field
import Mathlib.Algebra.Order.Field.Basic
import Mathlib.Tactic.Ring
import Mathlib.Tactic.Linarith
import Mathlib.Tactic.FieldSimp
import Mathlib.Tactic.LinearCombination
import Mathlib.Tactic.Positivity

namespace FDA.BSpline
open Finset Nat
open scoped fwdDiff

/-! ### The difference matrix acts as an iterated forward difference -/

theorem diffMat_succ (n : ℕ) (j k : ℕ) :
    diffMat (n + 1) j k = diffMat n (j + 1) k - diffMat n j k := by
  unfold diffMat
  rw [Function.iterate_succ_apply']
  rfl

theorem sum_mul_diffMat (K : ℕ) (f : ℕ → ℚ) (n : ℕ) :
    ∀ j, j + n < K → ∑ k ∈ range K, f k * diffMat n j k = (Δ_[1]^[n] f) j := by
  induction n with
  | zero =>
    intro j hj
    simp only [diffMat, Function.iterate_zero, id_eq, eye]
    rw [Finset.sum_eq_single j]
    · simp
    · intro b _ hb; simp [Ne.symm hb]
    · intro h; exact absurd (mem_range.2 (by omega)) h
  | succ n ih =>
    intro j hj
    simp_rw [diffMat_succ, mul_sub, Finset.sum_sub_distrib]
    rw [ih (j + 1) (by omega), ih j (by omega), Function.iterate_succ_apply']
    simp [fwdDiff]

/-- Entries of the difference matrix vanish left of the diagonal … -/
theorem diffMat_eq_zero_of_lt (n : ℕ) : ∀ j k, k < j → diffMat n j k = 0 := by
  induction n with
  | zero => intro j k h; simp [diffMat, eye]; omega
  | succ n ih => intro j k h; rw [diffMat_succ, ih _ _ (by omega), ih _ _ h]; simp

/-- … and beyond the `n`-th super-diagonal (banded: row `j` has `n+1` non-zero entries). -/
theorem diffMat_eq_zero_of_gt (n : ℕ) : ∀ j k, j + n < k → diffMat n j k = 0 := by
  induction n with
  | zero => intro j k h; simp [diffMat, eye]; omega
  | succ n ih => intro j k h; rw [diffMat_succ, ih _ _ (by omega), ih _ _ (by omega)]; simp

/-! ### Truncated powers in knot-index coordinates -/

/-- `T p u i = (u - i)^p · 1[i ≤ u]`: the truncated powers at the integer knots. -/
def T (p : ℕ) (u : ℚ) (i : ℕ) : ℚ := tpower u (i : ℚ) p

/-- Un-normalised cardinal B-spline number `j` in index coordinates. -/
def DB (p : ℕ) (u : ℚ) (j : ℕ) : ℚ := (-1) ^ (p + 1) * (Δ_[1]^[p + 1] (T p u)) j

theorem T_succ (p : ℕ) (u : ℚ) (i : ℕ) : T (p + 1) u i = (u - i) * T p u i := by
  unfold T tpower; ring

theorem T_shift (p : ℕ) (u : ℚ) (j i : ℕ) : T p (u - j) i = T p u (i + j) := by
  unfold T tpower
  have h1 : u - (j : ℚ) - (i : ℚ) = u - ((i + j : ℕ) : ℚ) := by push_cast; ring
  have h2 : ((i : ℚ) ≤ u - j) ↔ (((i + j : ℕ) : ℚ) ≤ u) := by
    push_cast; constructor <;> intro h <;> linarith
  rw [h1]; simp only [h2]

theorem iter_T_shift (p n : ℕ) (u : ℚ) (j i : ℕ) :
    (Δ_[1]^[n] (T p (u - j))) i = (Δ_[1]^[n] (T p u)) (i + j) := by
  have : T p (u - j) = fun r => T p u (r + j) := by funext r; exact T_shift p u j r
  rw [this, fwdDiff_iter_comp_add]

theorem DB_shift (p : ℕ) (u : ℚ) (j : ℕ) : DB p u j = DB p (u - j) 0 := by
  unfold DB; rw [iter_T_shift]; simp

theorem iter_succ_apply (f : ℕ → ℚ) (n i : ℕ) :
    (Δ_[1]^[n + 1] f) i = (Δ_[1]^[n] f) (i + 1) - (Δ_[1]^[n] f) i := by
  rw [Function.iterate_succ_apply']; simp [fwdDiff]

/-- Leibniz rule for the iterated difference of `(u - i)·a(i)`. -/
theorem iter_linear_mul (a : ℕ → ℚ) (u : ℚ) (n : ℕ) : ∀ i : ℕ,
    (Δ_[1]^[n + 1] (fun r : ℕ => (u - r) * a r)) i
      = (u - ((i + n + 1 : ℕ) : ℚ)) * (Δ_[1]^[n + 1] a) i - ((n + 1 : ℕ) : ℚ) * (Δ_[1]^[n] a) i := by
  induction n with
  | zero =>
    intro i
    rw [iter_succ_apply, iter_succ_apply a 0 i]
    simp only [Function.iterate_zero, id_eq]
    push_cast; ring
  | succ n ih =>
    intro i
    rw [iter_succ_apply _ (n + 1) i, ih (i + 1), ih i, iter_succ_apply a (n + 1) i,
      iter_succ_apply a n i]
    push_cast; ring

/-- The B-spline recurrence (uniform knots), un-normalised:
`DB_{p+1}(u) = u·DB_p(u) + (p+2-u)·DB_p(u-1)`. -/
theorem DB_recurrence (p : ℕ) (u : ℚ) :
    DB (p + 1) u 0 = u * DB p u 0 + ((p : ℚ) + 2 - u) * DB p u 1 := by
  unfold DB
  have hT : T (p + 1) u = fun r : ℕ => (u - r) * T p u r := by funext r; exact T_succ p u r
  rw [hT, iter_linear_mul (T p u) u (p + 1) 0, iter_succ_apply (T p u) (p + 1) 0]
  push_cast
  have e : ((-1 : ℚ)) ^ (p + 1 + 1) = -((-1) ^ (p + 1)) := by rw [pow_succ]; ring
  rw [e]; ring

/-! ### Polynomial differences (all truncations active) -/

open Polynomial in
theorem iter_eval_nat (P : ℚ[X]) (n j : ℕ) :
    (Δ_[1]^[n] (fun i : ℕ => P.eval (i : ℚ))) j = (Δ_[1]^[n] P.eval) (j : ℚ) := by
  rw [fwdDiff_iter_eq_sum_shift, fwdDiff_iter_eq_sum_shift]
  apply Finset.sum_congr rfl
  intro k _
  simp

open Polynomial in
theorem poly_facts (u : ℚ) (p : ℕ) :
    ((C u - X : ℚ[X]) ^ p).natDegree = p ∧ ((C u - X : ℚ[X]) ^ p).leadingCoeff = (-1) ^ p := by
  have h1 : (C u - X : ℚ[X]) = -(X - C u) := by ring
  have hd : (C u - X : ℚ[X]).natDegree = 1 := by rw [h1, natDegree_neg, natDegree_X_sub_C]
  have hl : (C u - X : ℚ[X]).leadingCoeff = -1 := by
    rw [h1, leadingCoeff_neg, leadingCoeff_X_sub_C]
  constructor
  · rw [natDegree_pow, hd, mul_one]
  · rw [leadingCoeff_pow, hl]

/-- If every truncation met by the difference stencil is active, `T` may be replaced by the
polynomial `(u - i)^p`. -/
theorem iter_T_eq_poly (p n : ℕ) (u : ℚ) (j : ℕ) (h : ((j + n : ℕ) : ℚ) ≤ u) :
    (Δ_[1]^[n] (T p u)) j = (Δ_[1]^[n] (fun i : ℕ => (u - (i : ℚ)) ^ p)) j := by
  rw [fwdDiff_iter_eq_sum_shift, fwdDiff_iter_eq_sum_shift]
  apply Finset.sum_congr rfl
  intro k hk
  have hk' : k ≤ n := by have := mem_range.1 hk; omega
  congr 1
  unfold T tpower
  have : (((j + k • 1 : ℕ)) : ℚ) ≤ u := by
    refine le_trans ?_ h
    have : j + k • 1 ≤ j + n := by simp; omega
    exact_mod_cast this
  rw [if_pos this, mul_one]

open Polynomial in
theorem iter_pow_top (p : ℕ) (u : ℚ) (j : ℕ) :
    (Δ_[1]^[p] (fun i : ℕ => (u - (i : ℚ)) ^ p)) j = (-1) ^ p * (p ! : ℚ) := by
  obtain ⟨hd, hl⟩ := poly_facts u p
  have key := Polynomial.fwdDiff_iter_degree_eq_factorial ((C u - X : ℚ[X]) ^ p)
  rw [hd, hl] at key
  have e : (fun i : ℕ => (u - (i : ℚ)) ^ p) = fun i : ℕ => ((C u - X : ℚ[X]) ^ p).eval (i : ℚ) := by
    funext i; simp
  rw [e, iter_eval_nat, key]
  simp

open Polynomial in
theorem iter_pow_zero (p : ℕ) (u : ℚ) (j : ℕ) :
    (Δ_[1]^[p + 1] (fun i : ℕ => (u - (i : ℚ)) ^ p)) j = 0 := by
  obtain ⟨hd, _⟩ := poly_facts u p
  have key := Polynomial.fwdDiff_iter_eq_zero_of_degree_lt (P := (C u - X : ℚ[X]) ^ p) (n := p + 1)
    (by rw [hd]; omega)
  have e : (fun i : ℕ => (u - (i : ℚ)) ^ p) = fun i : ℕ => ((C u - X : ℚ[X]) ^ p).eval (i : ℚ) := by
    funext i; simp
  rw [e, iter_eval_nat, key]
  simp

/-! ### Support -/

theorem T_eq_zero_of_lt (p : ℕ) (u : ℚ) (i : ℕ) (h : u < i) : T p u i = 0 := by
  unfold T tpower; simp [not_le.mpr h]

theorem iter_T_eq_zero_of_lt (p n : ℕ) (u : ℚ) (j : ℕ) (h : u < j) :
    (Δ_[1]^[n] (T p u)) j = 0 := by
  rw [fwdDiff_iter_eq_sum_shift]
  apply Finset.sum_eq_zero
  intro k _
  rw [T_eq_zero_of_lt]; · simp
  refine lt_of_lt_of_le h ?_
  have : j ≤ j + k • 1 := by omega
  exact_mod_cast this

theorem DB_eq_zero_of_lt (p : ℕ) (u : ℚ) (j : ℕ) (h : u < j) : DB p u j = 0 := by
  unfold DB; rw [iter_T_eq_zero_of_lt p _ u j h]; simp

theorem DB_eq_zero_of_ge (p : ℕ) (u : ℚ) (j : ℕ) (h : ((j + p + 1 : ℕ) : ℚ) ≤ u) : DB p u j = 0 := by
  unfold DB
  rw [iter_T_eq_poly p (p + 1) u j (by simpa [Nat.add_assoc] using h), iter_pow_zero]; simp

/-- At a point `u ≤ n` the `p`-th difference anchored at knot `n` vanishes (`p ≥ 1`: the only
possibly active truncated power is `(u - n)^p = 0`). -/
theorem iter_at_top (p n : ℕ) (u : ℚ) (hp : 1 ≤ p) (hu : u ≤ n) :
    (Δ_[1]^[p] (T p u)) n = 0 := by
  rw [fwdDiff_iter_eq_sum_shift]
  apply Finset.sum_eq_zero
  intro k _
  have : T p u (n + k • 1) = 0 := by
    unfold T tpower
    by_cases hk : (((n + k • 1 : ℕ)) : ℚ) ≤ u
    · have hle : (n : ℚ) ≤ ((n + k • 1 : ℕ) : ℚ) := by
        have : n ≤ n + k • 1 := by omega
        exact_mod_cast this
      have : u - ((n + k • 1 : ℕ) : ℚ) = 0 := by linarith
      rw [this, zero_pow (by omega)]; simp
    · rw [if_neg hk, mul_zero]
  rw [this]; simp

theorem iter_at_bottom (p : ℕ) (u : ℚ) (hu : (p : ℚ) ≤ u) :
    (Δ_[1]^[p] (T p u)) 0 = (-1) ^ p * (p ! : ℚ) := by
  rw [iter_T_eq_poly p p u 0 (by simpa using hu), iter_pow_top]

/-- Σ_{j<n} DB_p(u; j) = p! for `p ≤ u ≤ n`, every degree `p ≥ 1`. -/
theorem sum_DB (p n : ℕ) (u : ℚ) (hp : 1 ≤ p) (hlo : (p : ℚ) ≤ u) (hhi : u ≤ n) :
    ∑ j ∈ range n, DB p u j = (p ! : ℚ) := by
  unfold DB
  rw [← Finset.mul_sum]
  have hsucc : ∀ j, (Δ_[1]^[p + 1] (T p u)) j = (Δ_[1]^[p] (T p u)) (j + 1) - (Δ_[1]^[p] (T p u)) j :=
    fun j => iter_succ_apply _ p j
  simp_rw [hsucc]
  rw [Finset.sum_range_sub, iter_at_top p n u hp hhi, iter_at_bottom p u hlo]
  have : ((-1 : ℚ)) ^ (p + 1) * (0 - (-1) ^ p * (p ! : ℚ)) = ((-1) ^ p * (-1) ^ p) * (p ! : ℚ) := by
    rw [pow_succ]; ring
  rw [this, ← mul_pow]; simp

/-! ### The cardinal B-spline -/

theorem cardinal_eq_DB (p : ℕ) (u : ℚ) : cardinal p u = DB p u 0 / (p ! : ℚ) := by
  unfold cardinal DB
  congr 1
  rw [fwdDiff_iter_eq_sum_shift, Finset.mul_sum]
  apply Finset.sum_congr rfl
  intro k hk
  have hk' : k ≤ p + 1 := by have := mem_range.1 hk; omega
  unfold T
  simp only [zero_add, smul_eq_mul, mul_one, zsmul_eq_mul, Int.cast_mul, Int.cast_pow,
    Int.cast_neg, Int.cast_one, Int.cast_natCast]
  have e : ((-1 : ℚ)) ^ (p + 1) * (-1) ^ (p + 1 - k) = (-1) ^ k := by
    rw [← pow_add]
    have : p + 1 + (p + 1 - k) = 2 * (p + 1 - k) + k := by omega
    rw [this, pow_add, pow_mul]; simp
  rw [← e]; ring

theorem cardinal_shift (p : ℕ) (u : ℚ) (j : ℕ) : cardinal p (u - j) = DB p u j / (p ! : ℚ) := by
  rw [cardinal_eq_DB, ← DB_shift]

theorem factorial_pos_q (p : ℕ) : (0 : ℚ) < (p ! : ℚ) := by exact_mod_cast Nat.factorial_pos p

theorem cardinal_eq_zero_of_neg (p : ℕ) (u : ℚ) (h : u < 0) : cardinal p u = 0 := by
  rw [cardinal_eq_DB, DB_eq_zero_of_lt p u 0 (by simpa using h)]; simp

theorem cardinal_eq_zero_of_ge (p : ℕ) (u : ℚ) (h : (p : ℚ) + 1 ≤ u) : cardinal p u = 0 := by
  rw [cardinal_eq_DB, DB_eq_zero_of_ge p u 0 (by push_cast; linarith)]; simp

/-- `(p+1)·N_{p+1}(u) = u·N_p(u) + (p+2-u)·N_p(u-1)`. -/
theorem cardinal_recurrence (p : ℕ) (u : ℚ) :
    cardinal (p + 1) u
      = (u * cardinal p u + ((p : ℚ) + 2 - u) * cardinal p (u - 1)) / ((p : ℚ) + 1) := by
  have h1 : cardinal p (u - 1) = DB p u 1 / (p ! : ℚ) := by
    have := cardinal_shift p u 1; simpa using this
  rw [cardinal_eq_DB (p + 1), cardinal_eq_DB p, h1, DB_recurrence, Nat.factorial_succ]
  have hf := (factorial_pos_q p).ne'
  have hp : ((p : ℚ) + 1) ≠ 0 := by positivity
  push_cast
  field_simp

theorem cardinal_zero (u : ℚ) :
    cardinal 0 u = if 0 ≤ u ∧ u < 1 then 1 else 0 := by
  unfold cardinal tpower
  simp only [zero_add, Finset.sum_range_succ, Finset.sum_range_zero, Nat.factorial_zero,
    Nat.cast_one, div_one, pow_zero, pow_one, Nat.choose_zero_right, Nat.choose_self,
    Nat.cast_zero, one_mul]
  by_cases h0 : (0 : ℚ) ≤ u <;> by_cases h1 : (1 : ℚ) ≤ u <;> simp [h0, h1, not_lt.mpr, not_le.mp] <;>
    linarith

theorem cardinal_nonneg (p : ℕ) : ∀ u : ℚ, 0 ≤ cardinal p u := by
  induction p with
  | zero => intro u; rw [cardinal_zero]; split <;> norm_num
  | succ p ih =>
    intro u
    rw [cardinal_recurrence]
    have hp : (0 : ℚ) < (p : ℚ) + 1 := by positivity
    apply div_nonneg _ hp.le
    by_cases h0 : u < 0
    · rw [cardinal_eq_zero_of_neg p u h0, cardinal_eq_zero_of_neg p (u - 1) (by linarith)]; simp
    · by_cases h1 : (p : ℚ) + 2 ≤ u
      · rw [cardinal_eq_zero_of_ge p u (by linarith), cardinal_eq_zero_of_ge p (u - 1) (by linarith)]
        simp
      · have h0' : 0 ≤ u := not_lt.mp h0
        have h1' : 0 ≤ (p : ℚ) + 2 - u := by linarith [not_le.mp h1]
        exact add_nonneg (mul_nonneg h0' (ih u)) (mul_nonneg h1' (ih (u - 1)))

theorem sum_cardinal (p n : ℕ) (u : ℚ) (hp : 1 ≤ p) (hlo : (p : ℚ) ≤ u) (hhi : u ≤ n) :
    ∑ j ∈ range n, cardinal p (u - j) = 1 := by
  simp_rw [cardinal_shift]
  rw [← Finset.sum_div, sum_DB p n u hp hlo hhi]
  exact div_self (factorial_pos_q p).ne'

/-! ### From the coded matrix product to the cardinal B-spline -/

theorem nSeg_add (nfun p : ℕ) (h : p < nfun) : nSeg nfun p + p = nfun := by
  unfold nSeg; omega

theorem nSeg_pos (nfun p : ℕ) (h : p < nfun) : (0 : ℚ) < (nSeg nfun p : ℚ) := by
  have : 0 < nSeg nfun p := by unfold nSeg; omega
  exact_mod_cast this

theorem dx_pos (dmin dmax : ℚ) (nfun p : ℕ) (hp : p < nfun) (hd : dmin < dmax) :
    0 < dx dmin dmax nfun p := by
  unfold dx; exact div_pos (by linarith) (nSeg_pos nfun p hp)

/-- In exact arithmetic the `linspace` knots are `dmin + (j - p)·dx`. -/
theorem knots_eq (dmin dmax : ℚ) (nfun p : ℕ) (hp : p < nfun) (j : ℕ) :
    knots dmin dmax nfun p j = uniformKnot dmin dmax nfun p j := by
  unfold knots uniformKnot linspace nKnots
  have hs := (nSeg_pos nfun p hp).ne'
  have hnum : (((nSeg nfun p + 2 * p + 1 - 1 : ℕ)) : ℚ) = (nSeg nfun p : ℚ) + 2 * p := by
    rw [Nat.add_sub_cancel]; push_cast; ring
  rw [hnum]
  have hden : (nSeg nfun p : ℚ) + 2 * p ≠ 0 := by
    have := nSeg_pos nfun p hp
    have : (0 : ℚ) ≤ (p : ℚ) := Nat.cast_nonneg p
    linarith
  have hdx : dmax - dmin = (nSeg nfun p : ℚ) * dx dmin dmax nfun p := by
    unfold dx; field_simp
  have : dmax + ↑p * dx dmin dmax nfun p - (dmin - ↑p * dx dmin dmax nfun p)
      = ((nSeg nfun p : ℚ) + 2 * p) * dx dmin dmax nfun p := by
    linear_combination hdx
  rw [this, mul_div_cancel_left₀ _ hden]
  ring

theorem tpower_scale (x t0 h : ℚ) (hh : 0 < h) (k p : ℕ) :
    tpower x (t0 + k * h) p = h ^ p * tpower ((x - t0) / h) (k : ℚ) p := by
  unfold tpower
  have e1 : x - (t0 + k * h) = h * ((x - t0) / h - k) := by field_simp; ring
  have e2 : (t0 + (k : ℚ) * h ≤ x) ↔ ((k : ℚ) ≤ (x - t0) / h) := by
    rw [le_div_iff₀ hh]; constructor <;> intro hx <;> linarith
  rw [e1, mul_pow]
  simp only [e2]
  ring

theorem uniformKnot_eq (dmin dmax : ℚ) (nfun p k : ℕ) :
    uniformKnot dmin dmax nfun p k
      = uniformKnot dmin dmax nfun p 0 + (k : ℚ) * dx dmin dmax nfun p := by
  unfold uniformKnot; push_cast; ring

/-- The coded matrix product `(-1)^(p+1)·p_mat @ d_mat.T` equals the cardinal B-spline
`N_p((x - t_j)/dx)` on the equally spaced knots. -/
theorem basisRaw_eq_cardinal (dmin dmax : ℚ) (nfun p : ℕ) (hp : p < nfun) (hd : dmin < dmax)
    (x : ℚ) (j : ℕ) (hj : j < nfun) :
    basisRaw dmin dmax nfun p x j
      = cardinal p ((x - uniformKnot dmin dmax nfun p j) / dx dmin dmax nfun p) := by
  have hh := dx_pos dmin dmax nfun p hp hd
  set h := dx dmin dmax nfun p with hdef
  set t0 := uniformKnot dmin dmax nfun p 0 with ht0
  set u0 := (x - t0) / h with hu0
  have hf : (fun k : ℕ => tpower x (knots dmin dmax nfun p k) p) = fun k => h ^ p * T p u0 k := by
    funext k
    rw [knots_eq dmin dmax nfun p hp, uniformKnot_eq, tpower_scale x t0 h hh k p]
    rfl
  have hK : j + (p + 1) < nKnots nfun p := by
    have := nSeg_add nfun p hp; unfold nKnots; omega
  unfold basisRaw basisRawWith dMat
  simp_rw [← hdef, mul_div_assoc']
  rw [← Finset.sum_div, sum_mul_diffMat (nKnots nfun p) _ (p + 1) j hK, hf]
  have hsm : (fun k : ℕ => h ^ p * T p u0 k) = (h ^ p) • T p u0 := by funext k; simp
  rw [hsm, fwdDiff_iter_const_smul]
  have harg : (x - uniformKnot dmin dmax nfun p j) / h = u0 - j := by
    rw [uniformKnot_eq dmin dmax nfun p j, ← ht0, ← hdef, hu0]; field_simp; ring
  rw [harg, cardinal_shift]
  unfold DB
  have hhp : h ^ p ≠ 0 := pow_ne_zero _ hh.ne'
  have hfac := (factorial_pos_q p).ne'
  simp only [Pi.smul_apply, smul_eq_mul]
  field_simp

/-! ### Cox–de Boor on equally spaced knots -/

theorem coxDeBoor_uniform (t0 h : ℚ) (hh : 0 < h) (t : ℕ → ℚ) (ht : ∀ j : ℕ, t j = t0 + j * h) :
    ∀ (p j : ℕ) (x : ℚ), coxDeBoor t p j x = cardinal p ((x - t j) / h) := by
  intro p
  induction p with
  | zero =>
    intro j x
    rw [cardinal_zero]
    simp only [coxDeBoor]
    have e1 : (0 ≤ (x - t j) / h) ↔ (t j ≤ x) := by
      rw [le_div_iff₀ hh]; constructor <;> intro hx <;> linarith
    have e2 : ((x - t j) / h < 1) ↔ (x < t (j + 1)) := by
      rw [div_lt_iff₀ hh, ht (j + 1), ht j]; push_cast; constructor <;> intro hx <;> linarith
    simp only [e1, e2]
  | succ p ih =>
    intro j x
    simp only [coxDeBoor]
    rw [ih j x, ih (j + 1) x, cardinal_recurrence]
    have a1 : (x - t (j + 1)) / h = (x - t j) / h - 1 := by
      rw [ht (j + 1), ht j]; push_cast; field_simp; ring
    have hp : ((p : ℚ) + 1) ≠ 0 := by positivity
    have hh' := hh.ne'
    have d1 : t (j + p + 1) - t j = ((p : ℚ) + 1) * h := by
      rw [ht (j + p + 1), ht j]; push_cast; ring
    have d2 : t (j + p + 2) - t (j + 1) = ((p : ℚ) + 1) * h := by
      rw [ht (j + p + 2), ht (j + 1)]; push_cast; ring
    have d3 : t (j + p + 2) - x = ((p : ℚ) + 2) * h - (x - t j) := by
      rw [ht (j + p + 2), ht j]; push_cast; ring
    have c1 : (x - t j) / (t (j + p + 1) - t j) = ((x - t j) / h) / ((p : ℚ) + 1) := by
      rw [d1]; field_simp
    have c2 : (t (j + p + 2) - x) / (t (j + p + 2) - t (j + 1))
        = ((p : ℚ) + 2 - (x - t j) / h) / ((p : ℚ) + 1) := by
      rw [d2, d3]; field_simp
    rw [a1, c1, c2]
    field_simp


/-! ### Mask, and the coded basis as a cardinal B-spline -/

theorem mask_is_identity (dmin dmax : ℚ) (nfun p : ℕ) (hp : p < nfun) (hd : dmin < dmax)
    (x : ℚ) (j : ℕ) (hj : j < nfun) :
    bsplineBasis dmin dmax nfun p x j = basisRaw dmin dmax nfun p x j := by
  unfold bsplineBasis basisWith maskWith
  change basisRaw dmin dmax nfun p x j * _ = _
  split
  · simp
  · rename_i hx
    have hh := dx_pos dmin dmax nfun p hp hd
    rw [basisRaw_eq_cardinal dmin dmax nfun p hp hd x j hj, cardinal_eq_zero_of_ge]; · simp
    rw [knots_eq dmin dmax nfun p hp] at hx
    have hx := not_lt.mp hx
    rw [le_div_iff₀ hh]
    unfold uniformKnot at hx ⊢
    push_cast at hx
    linarith

theorem bsplineBasis_eq_cardinal (dmin dmax : ℚ) (nfun p : ℕ) (hp : p < nfun) (hd : dmin < dmax)
    (x : ℚ) (j : ℕ) (hj : j < nfun) :
    bsplineBasis dmin dmax nfun p x j
      = cardinal p ((x - uniformKnot dmin dmax nfun p j) / dx dmin dmax nfun p) := by
  rw [mask_is_identity dmin dmax nfun p hp hd x j hj, basisRaw_eq_cardinal dmin dmax nfun p hp hd x j hj]

/-- Knot-index coordinate of a point: `u = (x − t₀)/dx`; the domain is `p ≤ u ≤ nfun`. -/
def ucoord (dmin dmax : ℚ) (nfun p : ℕ) (x : ℚ) : ℚ :=
  (x - uniformKnot dmin dmax nfun p 0) / dx dmin dmax nfun p

theorem bsplineBasis_eq_cardinal_u (dmin dmax : ℚ) (nfun p : ℕ) (hp : p < nfun) (hd : dmin < dmax)
    (x : ℚ) (j : ℕ) (hj : j < nfun) :
    bsplineBasis dmin dmax nfun p x j = cardinal p (ucoord dmin dmax nfun p x - j) := by
  rw [bsplineBasis_eq_cardinal dmin dmax nfun p hp hd x j hj]
  have hh := dx_pos dmin dmax nfun p hp hd
  congr 1
  unfold ucoord
  rw [uniformKnot_eq dmin dmax nfun p j]; field_simp; ring

theorem ucoord_range (dmin dmax : ℚ) (nfun p : ℕ) (hp : p < nfun) (hd : dmin < dmax)
    (x : ℚ) (hlo : dmin ≤ x) (hhi : x ≤ dmax) :
    (p : ℚ) ≤ ucoord dmin dmax nfun p x ∧ ucoord dmin dmax nfun p x ≤ nfun := by
  have hh := dx_pos dmin dmax nfun p hp hd
  have hs := nSeg_pos nfun p hp
  have hwidth : dmax - dmin = (nSeg nfun p : ℚ) * dx dmin dmax nfun p := by
    unfold dx; field_simp
  have hu : ucoord dmin dmax nfun p x = (x - dmin) / dx dmin dmax nfun p + p := by
    unfold ucoord uniformKnot; field_simp; push_cast; ring
  rw [hu]
  constructor
  · have : 0 ≤ (x - dmin) / dx dmin dmax nfun p := div_nonneg (by linarith) hh.le
    linarith
  · have h1 : (x - dmin) / dx dmin dmax nfun p ≤ (nSeg nfun p : ℚ) := by
      rw [div_le_iff₀ hh]; linarith
    have h2 : ((nSeg nfun p + p : ℕ) : ℚ) = (nfun : ℚ) := by rw [nSeg_add nfun p hp]
    push_cast at h2
    linarith

/-! ### Moments of the cardinal B-splines (polynomial reproduction) -/

theorem cardinal_at_zero (p : ℕ) (hp : 1 ≤ p) : cardinal p 0 = 0 := by
  obtain ⟨q, rfl⟩ : ∃ q, p = q + 1 := ⟨p - 1, by omega⟩
  rw [cardinal_recurrence, cardinal_eq_zero_of_neg q (0 - 1) (by norm_num)]
  simp

/-- Summation by parts with the B-spline recurrence: for `p ≥ 1` and `p+1 ≤ u ≤ n`,
`(p+1)·Σ_j c_j N_{p+1}(u-j) = Σ_j (c_j (u-j) + c_{j-1} (p+1-u+j))·N_p(u-j)`. -/
theorem sbp (p n : ℕ) (hp : 1 ≤ p) (u : ℚ) (hlo : (p : ℚ) + 1 ≤ u) (hhi : u ≤ n) (c : ℕ → ℚ) :
    ((p : ℚ) + 1) * ∑ j ∈ range n, c j * cardinal (p + 1) (u - j)
      = ∑ j ∈ range n, (c j * (u - j) + c (j - 1) * ((p : ℚ) + 1 - u + j)) * cardinal p (u - j) := by
  have hp1 : ((p : ℚ) + 1) ≠ 0 := by positivity
  have h1 : ∀ j, ((p : ℚ) + 1) * (c j * cardinal (p + 1) (u - j))
      = c j * (u - j) * cardinal p (u - j) + c j * ((p : ℚ) + 2 - (u - j)) * cardinal p (u - (j + 1 : ℕ)) := by
    intro j
    rw [cardinal_recurrence]
    have : u - (j : ℚ) - 1 = u - ((j + 1 : ℕ) : ℚ) := by push_cast; ring
    rw [this]; field_simp
  rw [Finset.mul_sum, Finset.sum_congr rfl (fun j _ => h1 j), Finset.sum_add_distrib]
  -- shift the second sum
  set F : ℕ → ℚ := fun j => c (j - 1) * ((p : ℚ) + 1 - u + j) * cardinal p (u - j) with hF
  have hshift : ∑ j ∈ range n, c j * ((p : ℚ) + 2 - (u - j)) * cardinal p (u - (j + 1 : ℕ))
      = ∑ j ∈ range n, F (j + 1) := by
    apply Finset.sum_congr rfl; intro j _
    rw [hF]; simp only [Nat.add_sub_cancel]; push_cast; ring
  have hF0 : F 0 = 0 := by
    rw [hF]; simp only [Nat.cast_zero, sub_zero]
    rw [cardinal_eq_zero_of_ge p u hlo]; ring
  have hFn : F n = 0 := by
    rw [hF]; simp only
    rcases lt_or_eq_of_le hhi with h | h
    · rw [cardinal_eq_zero_of_neg p (u - n) (by linarith)]; ring
    · rw [h, sub_self, cardinal_at_zero p hp]; ring
  have hsum : ∑ j ∈ range n, F (j + 1) = ∑ j ∈ range n, F j := by
    have e1 := Finset.sum_range_succ' F n
    have e2 := Finset.sum_range_succ F n
    rw [hF0, add_zero] at e1
    rw [hFn, add_zero] at e2
    rw [← e1, e2]
  rw [hshift, hsum, ← Finset.sum_add_distrib]
  apply Finset.sum_congr rfl; intro j _
  rw [hF]; ring

/-- Abel summation: `Σ_{j<n} j·(G(j+1) − G(j)) = n·G(n) − Σ_{j<n} G(j+1)`. -/
theorem abel (G : ℕ → ℚ) (n : ℕ) :
    ∑ j ∈ range n, (j : ℚ) * (G (j + 1) - G j) = n * G n - ∑ j ∈ range n, G (j + 1) := by
  induction n with
  | zero => simp
  | succ n ih => rw [Finset.sum_range_succ, ih, Finset.sum_range_succ]; push_cast; ring


theorem moment1_base (n : ℕ) (u : ℚ) (hlo : 1 ≤ u) (hhi : u ≤ n) :
    ∑ j ∈ range n, (j : ℚ) * cardinal 1 (u - j) = u - 1 := by
  have hc : ∀ j : ℕ, cardinal 1 (u - j)
      = (Δ_[1]^[1] (T 1 u)) (j + 1) - (Δ_[1]^[1] (T 1 u)) j := by
    intro j
    rw [cardinal_shift, DB, iter_succ_apply (T 1 u) 1 j]
    simp
  simp_rw [hc]
  rw [abel (Δ_[1]^[1] (T 1 u)) n]
  have htop := iter_at_top 1 n u (le_refl 1) hhi
  rw [htop, mul_zero, zero_sub]
  have hG : ∀ j, (Δ_[1]^[1] (T 1 u)) (j + 1) = T 1 u (j + 1 + 1) - T 1 u (j + 1) := by
    intro j; simp [fwdDiff]
  simp_rw [hG]
  rw [Finset.sum_range_sub (fun j => T 1 u (j + 1)) n]
  have h1 : T 1 u (n + 1) = 0 := by
    apply T_eq_zero_of_lt; push_cast; linarith
  have h2 : T 1 u (0 + 1) = u - 1 := by
    unfold T tpower; simp [hlo]
  rw [h1, h2]; ring

/-- First moment: `Σ_j j·N_p(u−j) = u − (p+1)/2` on `[p, n]`, every degree `p ≥ 1`. -/
theorem moment1 (p : ℕ) (hp : 1 ≤ p) : ∀ (n : ℕ) (u : ℚ), (p : ℚ) ≤ u → u ≤ n →
    ∑ j ∈ range n, (j : ℚ) * cardinal p (u - j) = u - ((p : ℚ) + 1) / 2 := by
  induction p, hp using Nat.le_induction with
  | base => intro n u hlo hhi; rw [moment1_base n u (by simpa using hlo) hhi]; norm_num
  | succ p hp ih =>
    intro n u hlo hhi
    have hlo' : (p : ℚ) + 1 ≤ u := by push_cast at hlo; exact hlo
    have hp1 : ((p : ℚ) + 1) ≠ 0 := by positivity
    have hs := sbp p n hp u hlo' hhi (fun j => (j : ℚ))
    have hterm : ∀ j ∈ range n,
        ((j : ℚ) * (u - j) + ((j - 1 : ℕ) : ℚ) * ((p : ℚ) + 1 - u + j)) * cardinal p (u - j)
          = (p : ℚ) * ((j : ℚ) * cardinal p (u - j)) + (u - p - 1) * cardinal p (u - j) := by
      intro j _
      rcases Nat.eq_zero_or_pos j with h0 | hpos
      · subst h0
        simp only [Nat.cast_zero, sub_zero]
        rw [cardinal_eq_zero_of_ge p u hlo']; ring
      · have : ((j - 1 : ℕ) : ℚ) = (j : ℚ) - 1 := by
          rw [Nat.cast_sub hpos]; simp
        rw [this]; ring
    rw [Finset.sum_congr rfl hterm, Finset.sum_add_distrib, ← Finset.mul_sum, ← Finset.mul_sum,
      ih n u (by linarith) hhi, sum_cardinal p n u hp (by linarith) hhi] at hs
    have : ∑ j ∈ range n, (j : ℚ) * cardinal (p + 1) (u - j)
        = ((p : ℚ) * (u - ((p : ℚ) + 1) / 2) + (u - p - 1) * 1) / ((p : ℚ) + 1) := by
      rw [← hs]; field_simp
    rw [this]; push_cast; field_simp; ring

/-- Second moment: `Σ_j j²·N_p(u−j) = (u − (p+1)/2)² + (p+1)/12` on `[p, n]`, every degree `p ≥ 2`. -/
theorem moment2 (p : ℕ) : ∀ (n : ℕ) (u : ℚ), ((p + 2 : ℕ) : ℚ) ≤ u → u ≤ n →
    ∑ j ∈ range n, (j : ℚ) ^ 2 * cardinal (p + 2) (u - j)
      = (u - (((p + 2 : ℕ) : ℚ) + 1) / 2) ^ 2 + (((p + 2 : ℕ) : ℚ) + 1) / 12 := by
  induction p with
  | zero =>
    intro n u hlo hhi
    have hlo' : ((1 : ℕ) : ℚ) + 1 ≤ u := by push_cast at hlo ⊢; linarith
    have hs := sbp 1 n (le_refl 1) u hlo' hhi (fun j => (j : ℚ) ^ 2)
    have hterm : ∀ j ∈ range n,
        ((j : ℚ) ^ 2 * (u - j) + ((j - 1 : ℕ) : ℚ) ^ 2 * (((1 : ℕ) : ℚ) + 1 - u + j)) * cardinal 1 (u - j)
          = (2 * u - 3) * ((j : ℚ) * cardinal 1 (u - j)) + (2 - u) * cardinal 1 (u - j) := by
      intro j _
      rcases Nat.eq_zero_or_pos j with h0 | hpos
      · subst h0
        simp only [Nat.cast_zero, sub_zero]
        rw [cardinal_eq_zero_of_ge 1 u hlo']; ring
      · have : ((j - 1 : ℕ) : ℚ) = (j : ℚ) - 1 := by rw [Nat.cast_sub hpos]; simp
        rw [this]; push_cast; ring
    rw [Finset.sum_congr rfl hterm, Finset.sum_add_distrib, ← Finset.mul_sum, ← Finset.mul_sum,
      moment1 1 (le_refl 1) n u (by push_cast at hlo' ⊢; linarith) hhi,
      sum_cardinal 1 n u (le_refl 1) (by push_cast at hlo' ⊢; linarith) hhi] at hs
    have : ∑ j ∈ range n, (j : ℚ) ^ 2 * cardinal (0 + 2) (u - j)
        = ((2 * u - 3) * (u - (((1 : ℕ) : ℚ) + 1) / 2) + (2 - u) * 1) / (((1 : ℕ) : ℚ) + 1) := by
      rw [← hs]; field_simp
    rw [this]; push_cast; field_simp; ring
  | succ p ih =>
    intro n u hlo hhi
    have hq : 1 ≤ p + 2 := by omega
    have hlo' : (((p + 2 : ℕ)) : ℚ) + 1 ≤ u := by push_cast at hlo ⊢; linarith
    have hq1 : ((((p + 2 : ℕ)) : ℚ) + 1) ≠ 0 := by positivity
    have hs := sbp (p + 2) n hq u hlo' hhi (fun j => (j : ℚ) ^ 2)
    have hterm : ∀ j ∈ range n,
        ((j : ℚ) ^ 2 * (u - j) + ((j - 1 : ℕ) : ℚ) ^ 2 * ((((p + 2 : ℕ)) : ℚ) + 1 - u + j))
            * cardinal (p + 2) (u - j)
          = ((p : ℚ) + 1) * ((j : ℚ) ^ 2 * cardinal (p + 2) (u - j))
            + (2 * u - 2 * p - 5) * ((j : ℚ) * cardinal (p + 2) (u - j))
            + ((p : ℚ) + 3 - u) * cardinal (p + 2) (u - j) := by
      intro j _
      rcases Nat.eq_zero_or_pos j with h0 | hpos
      · subst h0
        simp only [Nat.cast_zero, sub_zero]
        rw [cardinal_eq_zero_of_ge (p + 2) u hlo']; ring
      · have : ((j - 1 : ℕ) : ℚ) = (j : ℚ) - 1 := by rw [Nat.cast_sub hpos]; simp
        rw [this]; push_cast; ring
    rw [Finset.sum_congr rfl hterm, Finset.sum_add_distrib, Finset.sum_add_distrib, ← Finset.mul_sum,
      ← Finset.mul_sum, ← Finset.mul_sum, ih n u (by push_cast at hlo ⊢; linarith) hhi,
      moment1 (p + 2) hq n u (by push_cast at hlo ⊢; linarith) hhi,
      sum_cardinal (p + 2) n u hq (by push_cast at hlo ⊢; linarith) hhi] at hs
    have : ∑ j ∈ range n, (j : ℚ) ^ 2 * cardinal (p + 1 + 2) (u - j)
        = (((p : ℚ) + 1) * ((u - (((p + 2 : ℕ) : ℚ) + 1) / 2) ^ 2 + (((p + 2 : ℕ) : ℚ) + 1) / 12)
            + (2 * u - 2 * p - 5) * (u - (((p + 2 : ℕ) : ℚ) + 1) / 2) + ((p : ℚ) + 3 - u) * 1)
          / ((((p + 2 : ℕ)) : ℚ) + 1) := by
      rw [← hs]; field_simp
    rw [this]; push_cast; field_simp; ring


/-- B-spline expansions with polynomial coefficients `a₀ + a₁ j + a₂ j²` are polynomials of the
same degree on the domain (degree `≥ 1`; `≥ 2` when `a₂ ≠ 0`). -/
theorem spline_moments (dmin dmax : ℚ) (nfun p : ℕ) (hp1 : 1 ≤ p) (hp : p < nfun) (hd : dmin < dmax)
    (x : ℚ) (hlo : dmin ≤ x) (hhi : x ≤ dmax) (a0 a1 a2 : ℚ) (h2 : a2 = 0 ∨ 2 ≤ p) :
    ∑ j ∈ range nfun, (a0 + a1 * j + a2 * (j : ℚ) ^ 2) * bsplineBasis dmin dmax nfun p x j
      = a0 + a1 * (ucoord dmin dmax nfun p x - ((p : ℚ) + 1) / 2)
        + a2 * ((ucoord dmin dmax nfun p x - ((p : ℚ) + 1) / 2) ^ 2 + ((p : ℚ) + 1) / 12) := by
  obtain ⟨hul, huh⟩ := ucoord_range dmin dmax nfun p hp hd x hlo hhi
  set u := ucoord dmin dmax nfun p x with hu
  have hterm : ∀ j ∈ range nfun, (a0 + a1 * j + a2 * (j : ℚ) ^ 2) * bsplineBasis dmin dmax nfun p x j
      = a0 * cardinal p (u - j) + a1 * ((j : ℚ) * cardinal p (u - j))
        + a2 * ((j : ℚ) ^ 2 * cardinal p (u - j)) := by
    intro j hj
    rw [bsplineBasis_eq_cardinal_u dmin dmax nfun p hp hd x j (mem_range.mp hj)]; ring
  rw [Finset.sum_congr rfl hterm, Finset.sum_add_distrib, Finset.sum_add_distrib, ← Finset.mul_sum,
    ← Finset.mul_sum, ← Finset.mul_sum, sum_cardinal p nfun u hp1 hul huh, moment1 p hp1 nfun u hul huh]
  rcases h2 with h0 | h2
  · rw [h0]; ring
  · obtain ⟨q, rfl⟩ : ∃ q, p = q + 2 := ⟨p - 2, by omega⟩
    rw [moment2 q nfun u hul huh]; push_cast; ring

end FDA.BSpline
