import FDAModel.Eigen
import Mathlib.Data.List.Sort
import Mathlib.Data.List.Perm.Basic
import Mathlib.Algebra.Order.Field.Rat
import Mathlib.Algebra.Order.Field.Basic
import Mathlib.Algebra.BigOperators.Group.List.Basic
import Mathlib.Tactic.Ring
import Mathlib.Tactic.Linarith
import Mathlib.Tactic.FieldSimp

/-! Helper lemmas for C01 (eigen post-processing). -/
namespace FDA.Eigen

theorem clip_nonneg (x : ℚ) : 0 ≤ clip x := by
  unfold clip; split <;> linarith

theorem clip_of_nonneg {x : ℚ} (h : 0 ≤ x) : clip x = x := by
  unfold clip; rw [if_neg (not_lt.mpr h)]

theorem clip_of_neg {x : ℚ} (h : x < 0) : clip x = 0 := by
  unfold clip; rw [if_pos h]

theorem clip_mono {a b : ℚ} (h : a ≤ b) : clip a ≤ clip b := by
  unfold clip; split <;> split <;> linarith

theorem values_clipPairs (l : List Pair) : values (clipPairs l) = (values l).map clip := by
  simp [values, clipPairs, List.map_map, Function.comp_def]

theorem vectors_clipPairs (l : List Pair) : vectors (clipPairs l) = vectors l := by
  simp [vectors, clipPairs, List.map_map, Function.comp_def]

theorem length_clipPairs (l : List Pair) : (clipPairs l).length = l.length := by
  simp [clipPairs]

/-- `pyTake` always is a `take`. -/
def pyIdx (k : Int) (n : Nat) : Nat := if 0 ≤ k then k.toNat else n - (-k).toNat

theorem pyTake_eq_take {α : Type} (k : Int) (l : List α) : pyTake k l = l.take (pyIdx k l.length) := by
  unfold pyTake pyIdx; split <;> rfl

theorem pyTake_nonneg {α : Type} (k : Nat) (l : List α) : pyTake (k : Int) l = l.take k := by
  simp [pyTake]

theorem pyTake_prefix {α : Type} (k : Int) (l : List α) : pyTake k l <+: l := by
  rw [pyTake_eq_take]; exact List.take_prefix _ _

theorem values_pyTake (k : Int) (l : List Pair) : values (pyTake k l) = pyTake k (values l) := by
  simp [pyTake_eq_take, values, List.map_take]

/-! ### sorting -/

theorem sortDesc_perm (raw : List Pair) : (sortDesc raw).Perm raw :=
  List.mergeSort_perm _ _

theorem sortDesc_sorted (raw : List Pair) : (sortDesc raw).Pairwise (fun a b => b.1 ≤ a.1) := by
  have := List.pairwise_mergeSort (le := fun (a b : Pair) => decide (b.1 ≤ a.1))
    (by intro a b c; simp only [decide_eq_true_eq]; intro h1 h2; exact le_trans h2 h1)
    (by intro a b; simp only [Bool.or_eq_true, decide_eq_true_eq]; exact le_total b.1 a.1) raw
  unfold sortDesc
  simpa using this

theorem values_sortDesc_sorted (raw : List Pair) : (values (sortDesc raw)).Pairwise (fun a b => b ≤ a) := by
  unfold values
  rw [List.pairwise_map]
  exact sortDesc_sorted raw

theorem sortDesc_of_sorted {raw : List Pair} (h : (values raw).Pairwise (fun a b => b ≤ a)) :
    sortDesc raw = raw := by
  unfold sortDesc
  apply List.mergeSort_of_pairwise
  unfold values at h
  rw [List.pairwise_map] at h
  exact h.imp (fun hab => by simpa using hab)

theorem length_sortDesc (raw : List Pair) : (sortDesc raw).length = raw.length :=
  (sortDesc_perm raw).length_eq

/-- Two non-increasing lists with the same multiset of entries are equal. -/
theorem eq_of_perm_of_sorted {l₁ l₂ : List ℚ} (hp : l₁.Perm l₂)
    (h₁ : l₁.Pairwise (fun a b => b ≤ a)) (h₂ : l₂.Pairwise (fun a b => b ≤ a)) : l₁ = l₂ :=
  List.Perm.eq_of_pairwise (fun _ _ _ _ hab hba => le_antisymm hba hab) h₁ h₂ hp

theorem clip_sorted {l : List ℚ} (h : l.Pairwise (fun a b => b ≤ a)) :
    (l.map clip).Pairwise (fun a b => b ≤ a) := by
  rw [List.pairwise_map]
  exact h.imp (fun hab => clip_mono hab)

/-! ### cumulative sums -/

theorem length_cumsumFrom (a : ℚ) (l : List ℚ) : (cumsumFrom a l).length = l.length := by
  induction l generalizing a with
  | nil => rfl
  | cons x xs ih => simp [cumsumFrom, ih]

theorem getElem_cumsumFrom (a : ℚ) (l : List ℚ) (i : ℕ) (h : i < (cumsumFrom a l).length) :
    (cumsumFrom a l)[i] = a + (l.take (i + 1)).sum := by
  induction l generalizing a i with
  | nil => simp [cumsumFrom] at h
  | cons x xs ih =>
    cases i with
    | zero => simp [cumsumFrom]
    | succ j =>
      simp only [cumsumFrom, List.getElem_cons_succ]
      rw [ih]
      simp [List.take_succ_cons, List.sum_cons]
      ring

theorem cumsumFrom_sorted (a : ℚ) (l : List ℚ) (h : ∀ x ∈ l, 0 ≤ x) :
    (cumsumFrom a l).Pairwise (· ≤ ·) ∧ ∀ c ∈ cumsumFrom a l, a ≤ c := by
  induction l generalizing a with
  | nil => simp [cumsumFrom]
  | cons x xs ih =>
    have hx : 0 ≤ x := h x (List.mem_cons_self)
    obtain ⟨h1, h2⟩ := ih (a + x) (fun y hy => h y (List.mem_cons_of_mem _ hy))
    constructor
    · simp only [cumsumFrom, List.pairwise_cons]
      exact ⟨fun c hc => h2 c hc, h1⟩
    · intro c hc
      simp only [cumsumFrom, List.mem_cons] at hc
      rcases hc with rfl | hc
      · linarith
      · have := h2 c hc; linarith

/-- On a non-decreasing list the entries satisfying a downward-closed predicate
form a prefix: entry `i` satisfies it iff `i <` their number. -/
theorem filter_prefix_of_sorted (P : ℚ → Bool) (hP : ∀ a b, a ≤ b → P b = true → P a = true) :
    ∀ (cs : List ℚ), cs.Pairwise (· ≤ ·) → ∀ i (h : i < cs.length),
      (i < (cs.filter P).length ↔ P cs[i] = true) := by
  intro cs
  induction cs with
  | nil => intro _ i h; simp at h
  | cons c t ih =>
    intro hs i h
    rw [List.pairwise_cons] at hs
    by_cases hc : P c = true
    · rw [List.filter_cons_of_pos hc]
      cases i with
      | zero => simp [hc]
      | succ j =>
        simp only [List.length_cons, Nat.add_lt_add_iff_right, List.getElem_cons_succ]
        exact ih hs.2 j (by simpa using h)
    · have hnone : t.filter P = [] := by
        rw [List.filter_eq_nil_iff]
        intro y hy hPy
        exact hc (hP c y (hs.1 y hy) hPy)
      rw [List.filter_cons_of_neg hc, hnone]
      simp only [List.length_nil, Nat.not_lt_zero, false_iff]
      cases i with
      | zero => simpa using hc
      | succ j =>
        simp only [List.getElem_cons_succ]
        intro hPy
        exact hc (hP c _ (hs.1 _ (List.getElem_mem _)) hPy)

theorem computeEigenImpl_def (raw : List Pair) (sel : Sel) :
    computeEigenImpl raw sel =
      match selectNpc (values (clipPairs raw)) sel with
      | .ok npc => .ok (pyTake npc (clipPairs raw))
      | .error e => .error e := rfl

/-- Value-level view of the coded post-processing: what `computeEigenImpl`
does to the list of values (the vectors only follow). -/
def implValues (vals : List ℚ) (sel : Sel) : Except String (List ℚ) :=
  match selectNpc (vals.map clip) sel with
  | .ok npc => .ok (pyTake npc (vals.map clip))
  | .error e => .error e

theorem impl_values (raw : List Pair) (sel : Sel) :
    (computeEigenImpl raw sel).map values = implValues (values raw) sel := by
  rw [computeEigenImpl_def]
  unfold implValues
  rw [values_clipPairs]
  cases selectNpc ((values raw).map clip) sel with
  | error e => rfl
  | ok npc =>
    show Except.ok (values (pyTake npc (clipPairs raw))) = _
    rw [values_pyTake, values_clipPairs]

end FDA.Eigen
