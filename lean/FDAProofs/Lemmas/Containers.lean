/-
Helper lemmas for C11: the invariant as a `Prop`, what constructors / setters /
list operations do to it.
-/
import FDAModel.Containers
import FDAProofs.Lemmas.Dict
import Mathlib.Tactic.Linarith
import Mathlib.Tactic.FieldSimp
import Mathlib.Algebra.Order.Field.Basic

namespace FDA.Containers
open FDA.Dict FDA.Slice FDA.Select

/-! ### The invariant -/

/-- Dictionaries of an irregular object have distinct keys (true of every Python dictionary). -/
def Grid.KeysNodup : Grid → Prop
  | .dense .. => True
  | .irreg a v _ => NodupKeys a ∧ NodupKeys v

/-- One grid object is consistent: sampling points and values agree on the number of
points in every dimension, standardised sampling points track the sampling points. -/
def GridInv (x : Grid) : Prop := x.pointsAgree = true ∧ x.standTracks = true ∧ x.KeysNodup

/-- The same without the clause on the standardised points. -/
def GridInvNoStand (x : Grid) : Prop := x.pointsAgree = true ∧ x.KeysNodup

/-- All components have the same number of observations. -/
def SameNobs (cs : List Grid) : Prop := ∀ c ∈ cs, ∀ c' ∈ cs, c.nObs = c'.nObs

/-- A predicate on grid objects lifted to states (all components + same number of observations). -/
def StateP (P : Grid → Prop) : State → Prop
  | .empty => True
  | .uni x => P x
  | .multi cs => (∀ c ∈ cs, P c) ∧ SameNobs cs

/-- The consistency invariant of the property. -/
def StateInv : State → Prop := StateP GridInv

/-- The same without the clause on the standardised points. -/
def StateInvNoStand : State → Prop := StateP GridInvNoStand

theorem GridInv.noStand {x : Grid} (h : GridInv x) : GridInvNoStand x := ⟨h.1, h.2.2⟩

theorem StateP.mono {P Q : Grid → Prop} (hPQ : ∀ x, P x → Q x) {s : State} (h : StateP P s) : StateP Q s := by
  cases s with
  | empty => trivial
  | uni x => exact hPQ x h
  | multi cs => exact ⟨fun c hc => hPQ c (h.1 c hc), h.2⟩

theorem StateInv.noStand {s : State} (h : StateInv s) : StateInvNoStand s :=
  StateP.mono (fun _ hx => GridInv.noStand hx) h

/-! ### `allEq` / `sameNobs` -/

theorem allEq_iff {α : Type} [DecidableEq α] (l : List α) : allEq l = true ↔ ∀ a ∈ l, ∀ b ∈ l, a = b := by
  cases l with
  | nil => simp [allEq]
  | cons c cs =>
    simp only [allEq, List.all_eq_true, decide_eq_true_eq, List.mem_cons]
    constructor
    · intro h a ha b hb
      rcases ha with rfl | ha <;> rcases hb with rfl | hb
      · rfl
      · exact (h b hb).symm
      · exact h a ha
      · rw [h a ha, h b hb]
    · intro h x hx; exact h x (Or.inr hx) c (Or.inl rfl)

theorem sameNobs_iff (cs : List Grid) : sameNobs cs = true ↔ SameNobs cs := by
  unfold sameNobs SameNobs
  rw [allEq_iff]
  constructor
  · intro h c hc c' hc'
    exact h _ (List.mem_map.2 ⟨c, hc, rfl⟩) _ (List.mem_map.2 ⟨c', hc', rfl⟩)
  · intro h a ha b hb
    obtain ⟨c, hc, rfl⟩ := List.mem_map.1 ha
    obtain ⟨c', hc', rfl⟩ := List.mem_map.1 hb
    exact h c hc c' hc'

theorem SameNobs.subset {cs ds : List Grid} (h : SameNobs cs) (hs : ∀ d ∈ ds, d ∈ cs) : SameNobs ds :=
  fun c hc c' hc' => h c (hs c hc) c' (hs c' hc')

/-! ### `Stand.same` is reflexive on dictionaries with distinct keys -/

theorem Stand.sameKind_self (s : Stand) : s.sameKind s = true := by cases s <;> rfl

theorem standTracks_of_stand_eq {x : Grid} (hk : x.KeysNodup) (h : x.stand = x.trackedStand) :
    x.standTracks = true := by
  unfold Grid.standTracks
  rw [h, Stand.sameKind_self, Bool.true_and]
  cases x with
  | dense pts g rows vpts st => simp [Grid.trackedStand, standOfDense, Stand.same]
  | irreg a v st =>
    simp only [Grid.trackedStand, standOfIrreg, Stand.same]
    exact eqBy_self id (nodupKeys_mapVals _ hk.1)

/-! ### Constructors establish the invariant -/

theorem mkDense_inv {a : ArgV} {v : ValV} {x : Grid} (h : mkDense a v = .ok x) : GridInv x := by
  unfold mkDense at h
  split at h
  · split at h
    · rename_i hv
      cases h
      refine ⟨by simp [Grid.pointsAgree, hv], ?_, trivial⟩
      exact standTracks_of_stand_eq trivial rfl
    · cases h
  · cases h

theorem mkIrreg_inv {a : ArgV} {v : ValV} {x : Grid} (h : mkIrreg a v = .ok x) : GridInv x := by
  unfold mkIrreg at h
  split at h
  · simp only at h
    split at h
    · rename_i ao vo hc
      cases h
      have hk : Grid.KeysNodup (.irreg (ofList ao) (ofList vo) (standOfIrreg (ofList ao))) :=
        ⟨nodupKeys_ofList _, nodupKeys_ofList _⟩
      exact ⟨hc, standTracks_of_stand_eq hk rfl, hk⟩
    · cases h
  · cases h

theorem build_inv {r : Recipe} {x : Grid} (h : build r = .ok x) : GridInv x := by
  cases r with
  | dense a v => exact mkDense_inv h
  | irreg a v => exact mkIrreg_inv h

theorem buildAll_inv {rs : List Recipe} {cs : List Grid} (h : buildAll rs = .ok cs) :
    ∀ c ∈ cs, GridInv c := by
  induction rs generalizing cs with
  | nil => simp only [buildAll] at h; cases h; simp
  | cons r rs ih =>
    simp only [buildAll] at h
    split at h
    · cases h
    · rename_i g hg
      split at h
      · cases h
      · rename_i gs hgs
        cases h
        intro c hc
        rcases List.mem_cons.1 hc with rfl | hc
        · exact build_inv hg
        · exact ih hgs c hc

/-! ### Setters -/

theorem setArg_inv {x y : Grid} {a : ArgV} (hx : GridInvNoStand x) (h : setArg x a = .ok y) : GridInv y := by
  unfold setArg at h
  split at h
  · split at h
    · rename_i hv
      cases h
      exact ⟨by simp [Grid.pointsAgree, hv], standTracks_of_stand_eq trivial rfl, trivial⟩
    · cases h
  · simp only at h
    split at h
    · rename_i a0 v0 st0 ao hc
      cases h
      have hk : Grid.KeysNodup (.irreg (ofList ao) v0 (standOfIrreg (ofList ao))) :=
        ⟨nodupKeys_ofList _, hx.2.2⟩
      exact ⟨hc, standTracks_of_stand_eq hk rfl, hk⟩
    · cases h
  · cases h

theorem setVal_inv {x y : Grid} {v : ValV} (hx : GridInv x) (h : setVal x v = .ok y) : GridInv y := by
  unfold setVal at h
  split at h
  · split at h
    · rename_i pts g r0 vp0 st rows vpts hv
      cases h
      obtain ⟨h1, h2, _⟩ := hx
      refine ⟨by simp [Grid.pointsAgree, hv], ?_, trivial⟩
      simpa [Grid.standTracks, Grid.stand, Grid.trackedStand] using h2
    · cases h
  · simp only at h
    split at h
    · rename_i a v0 st vo hc
      cases h
      obtain ⟨h1, h2, h3⟩ := hx
      refine ⟨hc, ?_, ⟨h3.1, nodupKeys_ofList _⟩⟩
      simpa [Grid.standTracks, Grid.stand, Grid.trackedStand] using h2
    · cases h
  · cases h

theorem setVal_invNoStand {x y : Grid} {v : ValV} (hx : GridInvNoStand x) (h : setVal x v = .ok y) :
    GridInvNoStand y := by
  unfold setVal at h
  split at h
  · split at h
    · rename_i hv
      cases h
      exact ⟨by simp [Grid.pointsAgree, hv], trivial⟩
    · cases h
  · simp only at h
    split at h
    · rename_i hc
      cases h
      exact ⟨hc, ⟨hx.2.1, nodupKeys_ofList _⟩⟩
    · cases h
  · cases h

theorem withStand_pointsAgree (x : Grid) (st : Stand) : (x.withStand st).pointsAgree = x.pointsAgree := by
  cases x <;> rfl

theorem withStand_keysNodup (x : Grid) (st : Stand) : (x.withStand st).KeysNodup ↔ x.KeysNodup := by
  cases x <;> exact Iff.rfl

theorem withStand_tracked (x : Grid) (st : Stand) : (x.withStand st).trackedStand = x.trackedStand := by
  cases x <;> rfl

theorem withStand_stand (x : Grid) (st : Stand) : (x.withStand st).stand = st := by
  cases x <;> rfl

theorem setStand_true_inv {x y : Grid} {a : ArgV} (hx : GridInvNoStand x) (h : setStand true x a = .ok y) :
    GridInv y := by
  unfold setStand at h
  split at h
  · cases h
  · rename_i st _
    simp only [if_true] at h
    split at h
    · cases h
    · rename_i hk
      split at h
      · cases h
      · rename_i hs
        cases h
        refine ⟨by rw [withStand_pointsAgree]; exact hx.1, ?_, (withStand_keysNodup _ _).2 hx.2⟩
        unfold Grid.standTracks
        rw [withStand_stand, withStand_tracked]
        simp only [Bool.not_eq_true, Bool.not_eq_false] at hk hs
        simp [hk, hs]

theorem setStand_invNoStand {g : Bool} {x y : Grid} {a : ArgV} (hx : GridInvNoStand x)
    (h : setStand g x a = .ok y) : GridInvNoStand y := by
  unfold setStand at h
  split at h
  · cases h
  · rename_i st _
    have key : ∀ z, z = x.withStand st → GridInvNoStand z := by
      intro z hz; subst hz
      exact ⟨by rw [withStand_pointsAgree]; exact hx.1, (withStand_keysNodup _ _).2 hx.2⟩
    split at h
    · split at h
      · cases h
      · split at h
        · cases h
        · cases h; exact key _ rfl
    · cases h; exact key _ rfl

/-! ### Selection and concatenation go through the constructors -/

theorem getitem_inv {x y : Grid} {ix : Index} (h : x.getitem ix = .ok y) : GridInv y := by
  unfold Grid.getitem at h
  split at h
  · split at h
    · cases h
    · exact mkDense_inv h
  · split at h
    · cases h
    · split at h
      · exact mkIrreg_inv h
      · cases h
      · cases h

theorem getAll_inv {ix : Index} {cs ds : List Grid} (h : getAll ix cs = .ok ds) : ∀ d ∈ ds, GridInv d := by
  induction cs generalizing ds with
  | nil => simp only [getAll] at h; cases h; simp
  | cons c cs ih =>
    simp only [getAll] at h
    split at h
    · cases h
    · rename_i g hg
      split at h
      · cases h
      · rename_i gs hgs
        cases h
        intro d hd
        rcases List.mem_cons.1 hd with rfl | hd
        · exact getitem_inv hg
        · exact ih hgs d hd

theorem concatGrids_inv {xs : List Grid} {y : Grid} (h : concatGrids xs = .ok y) : GridInv y := by
  unfold concatGrids at h
  split at h
  · cases h
  · split at h
    · cases h
    · split at h
      · cases h
      · split at h
        · cases h
        · split at h
          · cases h
          · split at h
            · cases h
            · exact mkDense_inv h
  · split at h
    · cases h
    · split at h
      · cases h
      · split at h
        · cases h
        · exact mkIrreg_inv h

theorem concatComps_inv {cols : List (List Grid)} {cs : List Grid} (h : concatComps cols = .ok cs) :
    ∀ c ∈ cs, GridInv c := by
  induction cols generalizing cs with
  | nil => simp only [concatComps] at h; cases h; simp
  | cons col cols ih =>
    simp only [concatComps] at h
    split at h
    · cases h
    · rename_i g hg
      split at h
      · cases h
      · rename_i gs hgs
        cases h
        intro c hc
        rcases List.mem_cons.1 hc with rfl | hc
        · exact concatGrids_inv hg
        · exact ih hgs c hc

theorem mkMulti_ok {cs ds : List Grid} (h : mkMulti cs = .ok ds) : ds = cs ∧ SameNobs cs := by
  unfold mkMulti at h
  split at h
  · rename_i hs; cases h; exact ⟨rfl, (sameNobs_iff _).1 hs⟩
  · cases h

theorem concatMulti_inv {objs : List (List Grid)} {cs : List Grid} (h : concatMulti objs = .ok cs) :
    (∀ c ∈ cs, GridInv c) ∧ SameNobs cs := by
  unfold concatMulti at h
  split at h
  · cases h
  · split at h
    · cases h
    · split at h
      · cases h
      · rename_i ds hds
        obtain ⟨rfl, hs⟩ := mkMulti_ok h
        exact ⟨concatComps_inv hds, hs⟩

/-! ### Python list operations -/

theorem mem_insertIdx_sub {α : Type} {l : List α} {i : Nat} {c a : α} (h : a ∈ l.insertIdx i c) : a ∈ c :: l := by
  by_cases hi : i ≤ l.length
  · exact ((List.mem_insertIdx hi).1 h).elim (fun e => e ▸ List.mem_cons_self) (fun m => List.mem_cons_of_mem _ m)
  · rw [List.insertIdx_of_length_lt (by omega)] at h; exact List.mem_cons_of_mem _ h

theorem mem_eraseIdx_sub {α : Type} {l : List α} {k : Nat} {a : α} (h : a ∈ l.eraseIdx k) : a ∈ l :=
  (List.eraseIdx_sublist l k).subset h

theorem insertPos_le (n : Nat) (i : Int) : insertPos n i ≤ n := by
  unfold insertPos
  split
  · split
    · omega
    · omega
  · split
    · omega
    · omega

theorem intPos_lt {n : Nat} {i : Int} {p : Nat} (h : intPos n i = some p) : p < n := by
  unfold intPos at h
  split at h
  · split at h
    · cases h; omega
    · cases h
  · split at h
    · cases h; omega
    · cases h

theorem findSame_spec {c : Grid} {cs : List Grid} {k : Nat} (h : findSame c cs = some k) :
    ∃ hk : k < cs.length, (cs[k]).same c = true ∧ ∀ j (hj : j < k), (cs[j]'(by omega)).same c = false := by
  induction cs generalizing k with
  | nil => simp [findSame] at h
  | cons x t ih =>
    unfold findSame at h
    split at h
    · rename_i hx
      cases h
      exact ⟨by simp, by simpa using hx, by intro j hj; omega⟩
    · rename_i hx
      cases hf : findSame c t with
      | none => simp [hf] at h
      | some k' =>
        simp only [hf, Option.map_some, Option.some.injEq] at h
        subst h
        obtain ⟨hk, h1, h2⟩ := ih hf
        refine ⟨by simp; omega, by simpa using h1, ?_⟩
        intro j hj
        cases j with
        | zero => simpa using hx
        | succ j => simpa using h2 j (by omega)

theorem findSame_none {c : Grid} {cs : List Grid} (h : findSame c cs = none) : ∀ x ∈ cs, x.same c = false := by
  induction cs with
  | nil => simp
  | cons x t ih =>
    unfold findSame at h
    split at h
    · cases h
    · rename_i hx
      cases hf : findSame c t with
      | some k => simp [hf] at h
      | none =>
        intro y hy
        rcases List.mem_cons.1 hy with rfl | hy
        · simpa using hx
        · exact ih hf y hy

/-! ### `settle` -/

theorem settle_fst_of_ok {s s' : State} {r : Except Err State} (h : r = .ok s') : (settle s r).1 = s' := by
  subst h; rfl

theorem settle_cases (s : State) (r : Except Err State) :
    (∃ s', r = .ok s' ∧ settle s r = (s', .ok)) ∨ (∃ e, r = .error e ∧ settle s r = (s, .err e)) := by
  cases r with
  | ok s' => exact Or.inl ⟨s', rfl, rfl⟩
  | error e => exact Or.inr ⟨e, rfl, rfl⟩

theorem settle_inv {P : State → Prop} {s : State} {r : Except Err State} (hs : P s)
    (h : ∀ s', r = .ok s' → P s') : P (settle s r).1 := by
  rcases settle_cases s r with ⟨s', hr, he⟩ | ⟨e, hr, he⟩
  · rw [he]; exact h s' hr
  · rw [he]; exact hs

theorem settle_unchanged {s : State} {r : Except Err State} (h : (settle s r).2 ≠ .ok) : (settle s r).1 = s := by
  cases r with
  | ok s' => simp [settle] at h
  | error e => rfl

/-- The generic preservation argument: a predicate on grid objects that every consistent object
satisfies and that the three setters preserve is preserved by every operation. -/
theorem step_preserves (g : Bool) (P : Grid → Prop)
    (hP : ∀ x, GridInv x → P x)
    (hA : ∀ x y a, P x → setArg x a = .ok y → P y)
    (hV : ∀ x y v, P x → setVal x v = .ok y → P y)
    (hS : ∀ x y a, P x → setStand g x a = .ok y → P y)
    (s : State) (op : Op) (h : StateP P s) : StateP P (step g s op).1 := by
  unfold step
  cases op with
  | mkDense a v =>
    apply settle_inv (P := StateP P) h
    intro s' hs'
    cases hm : mkDense a v with
    | error e => rw [hm] at hs'; cases hs'
    | ok x => rw [hm] at hs'; cases hs'; exact hP _ (mkDense_inv hm)
  | mkIrreg a v =>
    apply settle_inv (P := StateP P) h
    intro s' hs'
    cases hm : mkIrreg a v with
    | error e => rw [hm] at hs'; cases hs'
    | ok x => rw [hm] at hs'; cases hs'; exact hP _ (mkIrreg_inv hm)
  | mkMulti rs =>
    apply settle_inv (P := StateP P) h
    intro s' hs'
    cases hb : buildAll rs with
    | error e => rw [hb] at hs'; cases hs'
    | ok cs =>
      rw [hb] at hs'
      cases hm : mkMulti cs with
      | error e => simp [hm] at hs'; cases hs'
      | ok ds =>
        simp only [hm] at hs'
        cases hs'
        obtain ⟨rfl, hsn⟩ := mkMulti_ok hm
        exact ⟨fun c hc => hP c (buildAll_inv hb c hc), hsn⟩
  | setArg a =>
    cases s with
    | uni x =>
      apply settle_inv (P := StateP P) h
      intro s' hs'
      cases hm : setArg x a with
      | error e => rw [hm] at hs'; cases hs'
      | ok y => rw [hm] at hs'; cases hs'; exact hA _ _ _ h hm
    | empty => exact h
    | multi cs => exact h
  | setVal v =>
    cases s with
    | uni x =>
      apply settle_inv (P := StateP P) h
      intro s' hs'
      cases hm : setVal x v with
      | error e => rw [hm] at hs'; cases hs'
      | ok y => rw [hm] at hs'; cases hs'; exact hV _ _ _ h hm
    | empty => exact h
    | multi cs => exact h
  | setStand a =>
    cases s with
    | uni x =>
      apply settle_inv (P := StateP P) h
      intro s' hs'
      cases hm : setStand g x a with
      | error e => rw [hm] at hs'; cases hs'
      | ok y => rw [hm] at hs'; cases hs'; exact hS _ _ _ h hm
    | empty => exact h
    | multi cs => exact h
  | append r =>
    cases s with
    | multi cs =>
      apply settle_inv (P := StateP P) h
      intro s' hs'
      cases hb : build r with
      | error e => rw [hb] at hs'; cases hs'
      | ok c =>
        rw [hb] at hs'
        simp only at hs'
        split at hs'
        · cases hs'
          exact ⟨by intro d hd; simp at hd; subst hd; exact hP _ (build_inv hb),
                 by intro d hd d' hd'; simp at hd hd'; subst hd; subst hd'; rfl⟩
        · split at hs'
          · rename_i hsn
            cases hs'
            refine ⟨?_, (sameNobs_iff _).1 hsn⟩
            intro d hd
            rcases List.mem_append.1 hd with hd | hd
            · exact h.1 d hd
            · simp at hd; subst hd; exact hP _ (build_inv hb)
          · cases hs'
    | empty => exact h
    | uni x => exact h
  | extend rs =>
    cases s with
    | multi cs =>
      apply settle_inv (P := StateP P) h
      intro s' hs'
      cases hb : buildAll rs with
      | error e => rw [hb] at hs'; cases hs'
      | ok ds =>
        rw [hb] at hs'
        simp only at hs'
        split at hs'
        · rename_i hsn
          cases hs'
          refine ⟨?_, (sameNobs_iff _).1 hsn⟩
          intro d hd
          rcases List.mem_append.1 hd with hd | hd
          · exact h.1 d hd
          · exact hP _ (buildAll_inv hb d hd)
        · cases hs'
    | empty => exact h
    | uni x => exact h
  | insert i r =>
    cases s with
    | multi cs =>
      apply settle_inv (P := StateP P) h
      intro s' hs'
      cases hb : build r with
      | error e => rw [hb] at hs'; cases hs'
      | ok c =>
        rw [hb] at hs'
        simp only at hs'
        split at hs'
        · rename_i hsn
          cases hs'
          have hsub : ∀ d ∈ cs.insertIdx (insertPos cs.length i) c, d ∈ cs ++ [c] := by
            intro d hd
            have := mem_insertIdx_sub hd
            rcases List.mem_cons.1 this with rfl | hm
            · simp
            · exact List.mem_append_left _ hm
          refine ⟨?_, ((sameNobs_iff _).1 hsn).subset hsub⟩
          intro d hd
          rcases List.mem_append.1 (hsub d hd) with hd | hd
          · exact h.1 d hd
          · simp at hd; subst hd; exact hP _ (build_inv hb)
        · cases hs'
    | empty => exact h
    | uni x => exact h
  | remove r =>
    cases s with
    | multi cs =>
      apply settle_inv (P := StateP P) h
      intro s' hs'
      cases hb : build r with
      | error e => rw [hb] at hs'; cases hs'
      | ok c =>
        rw [hb] at hs'
        simp only at hs'
        split at hs'
        · cases hs'
          exact ⟨fun d hd => h.1 d (mem_eraseIdx_sub hd), h.2.subset fun d hd => mem_eraseIdx_sub hd⟩
        · cases hs'
    | empty => exact h
    | uni x => exact h
  | pop i =>
    cases s with
    | multi cs =>
      apply settle_inv (P := StateP P) h
      intro s' hs'
      split at hs'
      · cases hs'
        exact ⟨fun d hd => h.1 d (mem_eraseIdx_sub hd), h.2.subset fun d hd => mem_eraseIdx_sub hd⟩
      · cases hs'
    | empty => exact h
    | uni x => exact h
  | clear =>
    cases s with
    | multi cs => exact ⟨by simp, by intro c hc; simp at hc⟩
    | empty => exact h
    | uni x => exact h
  | reverse =>
    cases s with
    | multi cs =>
      exact ⟨fun d hd => h.1 d (List.mem_reverse.1 hd), h.2.subset fun d hd => List.mem_reverse.1 hd⟩
    | empty => exact h
    | uni x => exact h
  | getitem ix =>
    cases s with
    | uni x =>
      apply settle_inv (P := StateP P) h
      intro s' hs'
      cases hm : x.getitem ix with
      | error e => rw [hm] at hs'; cases hs'
      | ok y => rw [hm] at hs'; cases hs'; exact hP _ (getitem_inv hm)
    | multi cs =>
      apply settle_inv (P := StateP P) h
      intro s' hs'
      cases hg : getAll ix cs with
      | error e => rw [hg] at hs'; cases hs'
      | ok ds =>
        rw [hg] at hs'
        cases hm : mkMulti ds with
        | error e => simp [hm] at hs'; cases hs'
        | ok es =>
          simp only [hm] at hs'
          cases hs'
          obtain ⟨rfl, hsn⟩ := mkMulti_ok hm
          exact ⟨fun c hc => hP c (getAll_inv hg c hc), hsn⟩
    | empty => exact h
  | badItem onValues =>
    cases s with
    | empty => exact h
    | multi cs => exact h
    | uni x =>
      simp only
      split
      · exact h
      · exact h
  | concat others =>
    cases s with
    | empty => exact h
    | uni x =>
      apply settle_inv (P := StateP P) h
      intro s' hs'
      cases hb : buildSAll others with
      | error e => rw [hb] at hs'; cases hs'
      | ok ss =>
        rw [hb] at hs'
        simp only at hs'
        split at hs'
        · cases hs'
        · rename_i gs _
          cases hm : concatGrids (x :: gs) with
          | error e => rw [hm] at hs'; cases hs'
          | ok y => rw [hm] at hs'; cases hs'; exact hP _ (concatGrids_inv hm)
    | multi cs =>
      apply settle_inv (P := StateP P) h
      intro s' hs'
      cases hb : buildSAll others with
      | error e => rw [hb] at hs'; cases hs'
      | ok ss =>
        rw [hb] at hs'
        simp only at hs'
        split at hs'
        · cases hs'
        · rename_i ms _
          cases hm : concatMulti (cs :: ms) with
          | error e => rw [hm] at hs'; cases hs'
          | ok y =>
            rw [hm] at hs'; cases hs'
            exact ⟨fun c hc => hP c ((concatMulti_inv hm).1 c hc), (concatMulti_inv hm).2⟩

/-! ### minimum / maximum by folding -/

theorem foldl_pickMin_le (t : List ℚ) (a : ℚ) : t.foldl pickMin a ≤ a ∧ ∀ x ∈ t, t.foldl pickMin a ≤ x := by
  induction t generalizing a with
  | nil => simp
  | cons b t ih =>
    simp only [List.foldl_cons, List.mem_cons]
    obtain ⟨h1, h2⟩ := ih (pickMin a b)
    have hp : pickMin a b ≤ a ∧ pickMin a b ≤ b := by
      unfold pickMin; split <;> constructor <;> linarith
    refine ⟨le_trans h1 hp.1, ?_⟩
    rintro x (rfl | hx)
    · exact le_trans h1 hp.2
    · exact h2 x hx

theorem foldl_pickMin_mem (t : List ℚ) (a : ℚ) : t.foldl pickMin a ∈ a :: t := by
  induction t generalizing a with
  | nil => simp
  | cons b t ih =>
    simp only [List.foldl_cons]
    have := ih (pickMin a b)
    rcases List.mem_cons.1 this with h | h
    · rw [h]; unfold pickMin; split <;> simp
    · exact List.mem_cons_of_mem _ (List.mem_cons_of_mem _ h)

theorem foldl_pickMax_ge (t : List ℚ) (a : ℚ) : a ≤ t.foldl pickMax a ∧ ∀ x ∈ t, x ≤ t.foldl pickMax a := by
  induction t generalizing a with
  | nil => simp
  | cons b t ih =>
    simp only [List.foldl_cons, List.mem_cons]
    obtain ⟨h1, h2⟩ := ih (pickMax a b)
    have hp : a ≤ pickMax a b ∧ b ≤ pickMax a b := by
      unfold pickMax; split <;> constructor <;> linarith
    refine ⟨le_trans hp.1 h1, ?_⟩
    rintro x (rfl | hx)
    · exact le_trans hp.2 h1
    · exact h2 x hx

theorem foldl_pickMax_mem (t : List ℚ) (a : ℚ) : t.foldl pickMax a ∈ a :: t := by
  induction t generalizing a with
  | nil => simp
  | cons b t ih =>
    simp only [List.foldl_cons]
    have := ih (pickMax a b)
    rcases List.mem_cons.1 this with h | h
    · rw [h]; unfold pickMax; split <;> simp
    · exact List.mem_cons_of_mem _ (List.mem_cons_of_mem _ h)

/-- What `normalizeGrid` returns: the affine image under the true minimum and maximum. -/
theorem normalizeGrid_spec {t s : List ℚ} (h : normalizeGrid t = some s) :
    ∃ lo hi, lo ∈ t ∧ hi ∈ t ∧ lo < hi ∧ (∀ x ∈ t, lo ≤ x ∧ x ≤ hi) ∧ s = t.map fun x => (x - lo) / (hi - lo) := by
  unfold normalizeGrid at h
  cases t with
  | nil => simp [listMin] at h
  | cons a r =>
    simp only [listMin, listMax] at h
    split at h
    · cases h
    · rename_i hne
      cases h
      have hmin := foldl_pickMin_le r a
      have hmax := foldl_pickMax_ge r a
      refine ⟨_, _, foldl_pickMin_mem r a, foldl_pickMax_mem r a, ?_, ?_, rfl⟩
      · have : r.foldl pickMin a ≤ r.foldl pickMax a := le_trans hmin.1 hmax.1
        exact lt_of_le_of_ne this (fun e => hne e.symm)
      · intro x hx
        rcases List.mem_cons.1 hx with rfl | hx
        · exact ⟨hmin.1, hmax.1⟩
        · exact ⟨hmin.2 x hx, hmax.2 x hx⟩

/-! ### The plain Python list the multivariate object is compared with -/

def exceptToOption {α : Type} : Except Err α → Option α
  | .ok a => some a
  | .error _ => none

/-- What a plain Python list (no guards) does under a list operation; `none`: the
operation is not a list operation, or its argument cannot be built / found. -/
def plainStep (cs : List Grid) : Op → Option (List Grid)
  | .append r => (exceptToOption (build r)).map fun c => cs ++ [c]
  | .extend rs => (exceptToOption (buildAll rs)).map fun ds => cs ++ ds
  | .insert i r => (exceptToOption (build r)).map fun c => cs.insertIdx (insertPos cs.length i) c
  | .pop i => (intPos cs.length (i.getD (-1))).map cs.eraseIdx
  | .remove r => (exceptToOption (build r)).bind fun c => (findSame c cs).map cs.eraseIdx
  | .clear => some []
  | .reverse => some cs.reverse
  | _ => none

def Op.isListOp : Op → Bool
  | .append _ | .extend _ | .insert _ _ | .pop _ | .remove _ | .clear | .reverse => true
  | _ => false

end FDA.Containers
