/-
Helper lemmas for C16: soundness of the freshness check of aliasing skeletons.
-/
import FDAModel.Alias
import Mathlib.Tactic.Linarith

namespace FDA.Alias

/-- two cells agree up to their cache slots -/
def Same (c c' : Cell) : Prop := c.data = c'.data ∧ c.fields = c'.fields

theorem Same.refl (c : Cell) : Same c c := ⟨rfl, rfl⟩
theorem Same.trans {a b c : Cell} (h1 : Same a b) (h2 : Same b c) : Same a c :=
  ⟨h1.1.trans h2.1, h1.2.trans h2.2⟩

/-- invariant: variables recorded as fresh point at or above the initial heap frontier `n0` -/
def FreshOK (fresh : List Nat) (e : Env) (n0 : Nat) : Prop := ∀ v ∈ fresh, n0 ≤ e v

theorem freshOK_cons {fresh : List Nat} {e : Env} {n0 d r : Nat} (hf : FreshOK fresh e n0) (hr : n0 ≤ r) :
    FreshOK (d :: fresh) (upd e d r) n0 := by
  intro v hv
  simp only [List.mem_cons] at hv
  by_cases hvd : v = d
  · simp [upd, hvd]; exact hr
  · rcases hv with h1 | h1
    · exact absurd h1 hvd
    · simp [upd, hvd]; exact hf v h1

theorem freshOK_filter {fresh : List Nat} {e : Env} {n0 d r : Nat} (hf : FreshOK fresh e n0) :
    FreshOK (fresh.filter (· != d)) (upd e d r) n0 := by
  intro v hv
  have hv' := List.mem_filter.1 hv
  have hvd : v ≠ d := by simpa using hv'.2
  simp [upd, hvd]; exact hf v hv'.1

theorem halloc_cell_lt (h : Heap) (c : Cell) {r : Nat} (hr : r < h.next) : (halloc h c).cell r = h.cell r := by
  have : r ≠ h.next := by omega
  simp [halloc, this]

theorem hupd_cell_ne (h : Heap) (c : Cell) {r o : Nat} (hr : r ≠ o) : (hupd h o c).cell r = h.cell r := by
  simp [hupd, hr]

@[simp] theorem hupd_next (h : Heap) (o : Nat) (c : Cell) : (hupd h o c).next = h.next := rfl
@[simp] theorem halloc_next (h : Heap) (c : Cell) : (halloc h c).next = h.next + 1 := rfl

/-- one statement never lowers the allocation frontier -/
theorem exec1_next (s : Stmt) (e : Env) (h : Heap) : h.next ≤ (exec1 s e h).2.next := by
  cases s <;> simp [exec1]

theorem exec_next : ∀ (prog : List Stmt) (e : Env) (h : Heap), h.next ≤ (exec prog e h).2.next
  | [], _, _ => Nat.le_refl _
  | s :: ss, e, h => Nat.le_trans (exec1_next s e h) (exec_next ss _ _)

/-- Soundness of the discipline: a program that passes `check` leaves the buffer and the fields
of every cell that existed before the call (`r < n0`) exactly as they were. -/
theorem check_sound (prog : List Stmt) :
    ∀ (fresh : List Nat) (e : Env) (h : Heap) (n0 : Nat),
      check prog fresh = true → FreshOK fresh e n0 → n0 ≤ h.next →
      ∀ r, r < n0 → Same ((exec prog e h).2.cell r) (h.cell r) := by
  induction prog with
  | nil => intro fresh e h n0 _ _ _ r _; exact Same.refl _
  | cons s ss ih =>
    intro fresh e h n0 hc hf hn r hr
    cases s with
    | alloc d =>
      simp only [check] at hc
      simp only [exec, exec1]
      have := ih (d :: fresh) _ (halloc h ⟨0, [], []⟩) n0 hc (freshOK_cons hf hn) (by simp; omega) r hr
      rw [halloc_cell_lt h _ (by omega)] at this
      exact this
    | copyDict d s =>
      simp only [check] at hc
      simp only [exec, exec1]
      have := ih (d :: fresh) _ (halloc h ⟨(h.cell (e s)).data, (h.cell (e s)).fields, []⟩) n0 hc
        (freshOK_cons hf hn) (by simp; omega) r hr
      rw [halloc_cell_lt h _ (by omega)] at this
      exact this
    | concat d s t =>
      simp only [check] at hc
      simp only [exec, exec1]
      have := ih (d :: fresh) _ (halloc h ⟨0, (h.cell (e s)).fields ++ (h.cell (e t)).fields, []⟩) n0 hc
        (freshOK_cons hf hn) (by simp; omega) r hr
      rw [halloc_cell_lt h _ (by omega)] at this
      exact this
    | select d s idx =>
      simp only [check] at hc
      simp only [exec, exec1]
      have := ih (d :: fresh) _ (halloc h ⟨0, idx.filterMap fun i => (h.cell (e s)).fields[i]?, []⟩) n0 hc
        (freshOK_cons hf hn) (by simp; omega) r hr
      rw [halloc_cell_lt h _ (by omega)] at this
      exact this
    | load d s f =>
      simp only [check] at hc
      simp only [exec, exec1]
      exact ih _ _ h n0 hc (freshOK_filter hf) hn r hr
    | loadCache d s f =>
      simp only [check] at hc
      simp only [exec, exec1]
      exact ih _ _ h n0 hc (freshOK_filter hf) hn r hr
    | move d s =>
      simp only [check] at hc
      simp only [exec, exec1]
      by_cases hs : fresh.contains s = true
      · simp only [hs, if_true] at hc
        exact ih _ _ h n0 hc (freshOK_cons hf (hf s (by simpa using hs))) hn r hr
      · simp only [hs, Bool.false_eq_true, if_false] at hc
        exact ih _ _ h n0 hc (freshOK_filter hf) hn r hr
    | setFields o fs =>
      simp only [check, Bool.and_eq_true] at hc
      simp only [exec, exec1]
      have ho : n0 ≤ e o := hf o (by simpa using hc.1)
      have := ih fresh e (hupd h (e o) { (h.cell (e o)) with fields := fs.map e }) n0 hc.2 hf (by simpa using hn) r hr
      rw [hupd_cell_ne h _ (by omega)] at this
      exact this
    | writeData o v =>
      simp only [check, Bool.and_eq_true] at hc
      simp only [exec, exec1]
      have ho : n0 ≤ e o := hf o (by simpa using hc.1)
      have := ih fresh e (hupd h (e o) { (h.cell (e o)) with data := v }) n0 hc.2 hf (by simpa using hn) r hr
      rw [hupd_cell_ne h _ (by omega)] at this
      exact this
    | popKey o f =>
      simp only [check, Bool.and_eq_true] at hc
      simp only [exec, exec1]
      have ho : n0 ≤ e o := hf o (by simpa using hc.1)
      have := ih fresh e (hupd h (e o) { (h.cell (e o)) with fields := (h.cell (e o)).fields.eraseIdx f }) n0 hc.2 hf
        (by simpa using hn) r hr
      rw [hupd_cell_ne h _ (by omega)] at this
      exact this
    | setCache o fs =>
      simp only [check] at hc
      simp only [exec, exec1]
      have := ih fresh e (hupd h (e o) { (h.cell (e o)) with cache := fs.map e }) n0 hc hf (by simpa using hn) r hr
      refine Same.trans this ?_
      by_cases hro : r = e o
      · subst hro; simp [hupd, Same]
      · rw [hupd_cell_ne h _ hro]; exact Same.refl _

/-- Every in-place write of a checked program goes to a cell allocated inside the call: no
reference written is below the frontier `n0` — in particular none is a view of an input. -/
theorem writes_fresh (prog : List Stmt) :
    ∀ (fresh : List Nat) (e : Env) (h : Heap) (n0 : Nat),
      check prog fresh = true → FreshOK fresh e n0 → n0 ≤ h.next →
      ∀ r ∈ writes prog e h, n0 ≤ r := by
  induction prog with
  | nil => intro fresh e h n0 _ _ _ r hr; simp [writes] at hr
  | cons s ss ih =>
    intro fresh e h n0 hc hf hn r hr
    cases s with
    | alloc d =>
      simp only [check] at hc
      simp only [writes, exec1, List.nil_append] at hr
      exact ih (d :: fresh) _ _ n0 hc (freshOK_cons hf hn) (by simp; omega) r hr
    | copyDict d s =>
      simp only [check] at hc
      simp only [writes, exec1, List.nil_append] at hr
      exact ih (d :: fresh) _ _ n0 hc (freshOK_cons hf hn) (by simp; omega) r hr
    | concat d s t =>
      simp only [check] at hc
      simp only [writes, exec1, List.nil_append] at hr
      exact ih (d :: fresh) _ _ n0 hc (freshOK_cons hf hn) (by simp; omega) r hr
    | select d s idx =>
      simp only [check] at hc
      simp only [writes, exec1, List.nil_append] at hr
      exact ih (d :: fresh) _ _ n0 hc (freshOK_cons hf hn) (by simp; omega) r hr
    | load d s f =>
      simp only [check] at hc
      simp only [writes, exec1, List.nil_append] at hr
      exact ih _ _ h n0 hc (freshOK_filter hf) hn r hr
    | loadCache d s f =>
      simp only [check] at hc
      simp only [writes, exec1, List.nil_append] at hr
      exact ih _ _ h n0 hc (freshOK_filter hf) hn r hr
    | move d s =>
      simp only [check] at hc
      simp only [writes, exec1, List.nil_append] at hr
      by_cases hs : fresh.contains s = true
      · simp only [hs, if_true] at hc
        exact ih _ _ h n0 hc (freshOK_cons hf (hf s (by simpa using hs))) hn r hr
      · simp only [hs, Bool.false_eq_true, if_false] at hc
        exact ih _ _ h n0 hc (freshOK_filter hf) hn r hr
    | setFields o fs =>
      simp only [check, Bool.and_eq_true] at hc
      simp only [writes, exec1, List.cons_append, List.nil_append, List.mem_cons] at hr
      rcases hr with rfl | hr
      · exact hf o (by simpa using hc.1)
      · exact ih fresh e _ n0 hc.2 hf (by simpa using hn) r hr
    | writeData o v =>
      simp only [check, Bool.and_eq_true] at hc
      simp only [writes, exec1, List.cons_append, List.nil_append, List.mem_cons] at hr
      rcases hr with rfl | hr
      · exact hf o (by simpa using hc.1)
      · exact ih fresh e _ n0 hc.2 hf (by simpa using hn) r hr
    | popKey o f =>
      simp only [check, Bool.and_eq_true] at hc
      simp only [writes, exec1, List.cons_append, List.nil_append, List.mem_cons] at hr
      rcases hr with rfl | hr
      · exact hf o (by simpa using hc.1)
      · exact ih fresh e _ n0 hc.2 hf (by simpa using hn) r hr
    | setCache o fs =>
      simp only [check] at hc
      simp only [writes, exec1, List.nil_append] at hr
      exact ih fresh e _ n0 hc hf (by simpa using hn) r hr

/-- two heaps that agree on every cell up to the caches, with the same frontier -/
def HeapSame (h h' : Heap) : Prop := h.next = h'.next ∧ ∀ r, Same (h.cell r) (h'.cell r)

theorem heapSame_halloc {h h' : Heap} (hs : HeapSame h h') {c c' : Cell} (hc : Same c c') :
    HeapSame (halloc h c) (halloc h' c') := by
  refine ⟨by simp [hs.1], fun r => ?_⟩
  unfold halloc
  simp only [hs.1]
  by_cases hr : r = h'.next
  · simp [hr]; exact hc
  · simp [hr]; exact hs.2 r

theorem heapSame_hupd {h h' : Heap} (hs : HeapSame h h') (o : Nat) {c c' : Cell} (hc : Same c c') :
    HeapSame (hupd h o c) (hupd h' o c') := by
  refine ⟨hs.1, fun r => ?_⟩
  unfold hupd
  by_cases hr : r = o
  · simp [hr]; exact hc
  · simp [hr]; exact hs.2 r

/-- A program that reads no cache slot computes the same references and the same heap (up to
caches) from two heaps that differ only in their caches: its result cannot depend on what
earlier calls stored in the caches. -/
theorem exec_cache_independent (prog : List Stmt) :
    ∀ (e : Env) (h h' : Heap), readsCache prog = false → HeapSame h h' →
      (exec prog e h).1 = (exec prog e h').1 ∧ HeapSame (exec prog e h).2 (exec prog e h').2 := by
  induction prog with
  | nil => intro e h h' _ hs; exact ⟨rfl, hs⟩
  | cons s ss ih =>
    intro e h h' hr hs
    cases s with
    | alloc d =>
      simp only [exec, exec1, hs.1]
      exact ih _ _ _ (by simpa [readsCache] using hr) (heapSame_halloc hs (Same.refl _))
    | copyDict d s =>
      simp only [exec, exec1, hs.1]
      have := hs.2 (e s)
      exact ih _ _ _ (by simpa [readsCache] using hr) (heapSame_halloc hs ⟨this.1, this.2⟩)
    | concat d s t =>
      simp only [exec, exec1, hs.1]
      have h1 := hs.2 (e s)
      have h2 := hs.2 (e t)
      exact ih _ _ _ (by simpa [readsCache] using hr) (heapSame_halloc hs ⟨rfl, by simp [h1.2, h2.2]⟩)
    | select d s idx =>
      simp only [exec, exec1, hs.1]
      have h1 := hs.2 (e s)
      exact ih _ _ _ (by simpa [readsCache] using hr) (heapSame_halloc hs ⟨rfl, by simp [h1.2]⟩)
    | load d s f =>
      simp only [exec, exec1, (hs.2 (e s)).2]
      exact ih _ _ _ (by simpa [readsCache] using hr) hs
    | loadCache d s f => simp [readsCache] at hr
    | move d s =>
      simp only [exec, exec1]
      exact ih _ _ _ (by simpa [readsCache] using hr) hs
    | setFields o fs =>
      simp only [exec, exec1]
      exact ih _ _ _ (by simpa [readsCache] using hr) (heapSame_hupd hs _ ⟨(hs.2 (e o)).1, rfl⟩)
    | writeData o v =>
      simp only [exec, exec1]
      exact ih _ _ _ (by simpa [readsCache] using hr) (heapSame_hupd hs _ ⟨rfl, (hs.2 (e o)).2⟩)
    | popKey o f =>
      simp only [exec, exec1]
      exact ih _ _ _ (by simpa [readsCache] using hr)
        (heapSame_hupd hs _ ⟨(hs.2 (e o)).1, by simp [(hs.2 (e o)).2]⟩)
    | setCache o fs =>
      simp only [exec, exec1]
      exact ih _ _ _ (by simpa [readsCache] using hr) (heapSame_hupd hs _ ⟨(hs.2 (e o)).1, (hs.2 (e o)).2⟩)

end FDA.Alias
