/-
Lemmas about selection / iteration / concatenation (`FDA.Select`), helper lemmas for C13.
-/
import FDAModel.Select
import FDAProofs.Lemmas.Dict
import FDAProofs.Lemmas.Slice

namespace FDA.Select
open FDA.Dict FDA.Slice

variable {α β : Type}

/-! ### `pick` -/

theorem pick_nil (l : List α) : pick l [] = [] := rfl

theorem pick_cons_of_lt {l : List α} {p : Nat} (ps : List Nat) (h : p < l.length) :
    pick l (p :: ps) = l[p] :: pick l ps := by
  simp [pick, List.getElem?_eq_getElem h]

/-- Picking positions that exist loses nothing: the result lists, in order, the entries at
those positions. -/
theorem pick_map_some {l : List α} {ps : List Nat} (h : ∀ p ∈ ps, p < l.length) :
    (pick l ps).map some = ps.map fun p => l[p]? := by
  induction ps with
  | nil => rfl
  | cons p ps ih =>
    have hp : p < l.length := h p List.mem_cons_self
    rw [pick_cons_of_lt ps hp, List.map_cons, List.map_cons, ih (fun q hq => h q (List.mem_cons_of_mem _ hq)),
      List.getElem?_eq_getElem hp]

theorem length_pick {l : List α} {ps : List Nat} (h : ∀ p ∈ ps, p < l.length) :
    (pick l ps).length = ps.length := by
  have := congrArg List.length (pick_map_some h)
  simpa using this

theorem mem_pick {l : List α} {ps : List Nat} {x : α} (hx : x ∈ pick l ps) :
    ∃ p ∈ ps, ∃ hp : p < l.length, l[p] = x := by
  unfold pick at hx
  obtain ⟨p, hp, hpx⟩ := List.mem_filterMap.1 hx
  have : p < l.length := by
    by_contra hlt
    rw [List.getElem?_eq_none (by omega)] at hpx
    cases hpx
  rw [List.getElem?_eq_getElem this] at hpx
  exact ⟨p, hp, this, Option.some.inj hpx⟩

theorem pick_map (f : α → β) (l : List α) (ps : List Nat) : pick (l.map f) ps = (pick l ps).map f := by
  unfold pick
  induction ps with
  | nil => rfl
  | cons p ps ih =>
    simp only [List.filterMap_cons, List.getElem?_map]
    cases l[p]? with
    | none => simpa using ih
    | some x => simpa using ih

/-- Distinct positions of a list without repetitions give distinct entries. -/
theorem nodup_pick {l : List α} {ps : List Nat} (hl : l.Nodup) (hps : ps.Nodup) (h : ∀ p ∈ ps, p < l.length) :
    (pick l ps).Nodup := by
  induction ps with
  | nil => exact List.nodup_nil
  | cons p ps ih =>
    have hp : p < l.length := h p List.mem_cons_self
    rw [pick_cons_of_lt ps hp, List.nodup_cons]
    rw [List.nodup_cons] at hps
    refine ⟨?_, ih hps.2 (fun q hq => h q (List.mem_cons_of_mem _ hq))⟩
    intro hmem
    obtain ⟨q, hq, hql, heq⟩ := mem_pick hmem
    have : q = p := (List.Nodup.getElem_inj_iff hl).1 heq
    subst this
    exact hps.1 hq

theorem keys_pick (d : D α) (ps : List Nat) : keys (pick d ps) = pick (keys d) ps := by
  unfold keys; rw [pick_map]

theorem pick_range (l : List α) : pick l (List.range l.length) = l := by
  apply List.ext_getElem?
  intro i
  have hlt : ∀ p ∈ List.range l.length, p < l.length := fun p hp => List.mem_range.1 hp
  have h := congrArg (fun x => x[i]?) (pick_map_some hlt)
  simp only [List.getElem?_map] at h
  by_cases hi : i < l.length
  · have h1 : i < (pick l (List.range l.length)).length := by rw [length_pick hlt]; simpa using hi
    rw [List.getElem?_eq_getElem h1] at h ⊢
    simp only [Option.map_some, List.getElem?_range hi, List.getElem?_eq_getElem hi] at h
    rw [List.getElem?_eq_getElem hi]
    exact Option.some.inj h
  · have h1 : ¬ i < (pick l (List.range l.length)).length := by rw [length_pick hlt]; simpa using hi
    rw [List.getElem?_eq_none (by omega), List.getElem?_eq_none (by omega)]

theorem pick_reverse (l : List α) (ps : List Nat) : pick l ps.reverse = (pick l ps).reverse := by
  unfold pick
  rw [List.filterMap_reverse]

theorem pick_eq_filterMap_range (l : List α) (f : Nat → Nat) (k : Nat) :
    pick l ((List.range k).map f) = (List.range k).filterMap fun i => l[f i]? := by
  unfold pick
  rw [List.filterMap_map]
  rfl

/-- Positions `s, s+1, …, s+k-1` of a list are `(l.drop s).take k`. -/
theorem pick_consecutive (l : List α) (s k : Nat) (h : s + k ≤ l.length) :
    pick l ((List.range k).map (s + ·)) = (l.drop s).take k := by
  apply List.ext_getElem?
  intro i
  have hlt : ∀ p ∈ (List.range k).map (s + ·), p < l.length := by
    intro p hp
    obtain ⟨j, hj, rfl⟩ := List.mem_map.1 hp
    have := List.mem_range.1 hj
    omega
  have hm := congrArg (fun x => x[i]?) (pick_map_some hlt)
  simp only [List.getElem?_map] at hm
  by_cases hi : i < k
  · have h1 : i < (pick l ((List.range k).map (s + ·))).length := by rw [length_pick hlt]; simpa using hi
    rw [List.getElem?_eq_getElem h1] at hm ⊢
    simp only [Option.map_some, List.getElem?_range hi] at hm
    rw [List.getElem?_take_of_lt hi, List.getElem?_drop]
    exact Option.some.inj hm
  · have h1 : ¬ i < (pick l ((List.range k).map (s + ·))).length := by rw [length_pick hlt]; simpa using hi
    rw [List.getElem?_eq_none (by omega), List.getElem?_eq_none]
    simp only [List.length_take, List.length_drop]
    omega

theorem maskPosFrom_lt (o : Nat) (mask : List Bool) : ∀ p ∈ maskPosFrom o mask, o ≤ p ∧ p < o + mask.length := by
  induction mask generalizing o with
  | nil => intro p hp; simp [maskPosFrom] at hp
  | cons b t ih =>
    intro p hp
    unfold maskPosFrom at hp
    cases b with
    | true =>
      simp only [if_true, List.mem_cons] at hp
      rcases hp with rfl | hp
      · simp
      · have := ih (o + 1) p hp; simp only [List.length_cons]; omega
    | false =>
      simp only [Bool.false_eq_true, if_false] at hp
      have := ih (o + 1) p hp; simp only [List.length_cons]; omega

theorem maskPosFrom_pick (o : Nat) (pre l : List α) (mask : List Bool) (ho : pre.length = o) (hl : mask.length = l.length) :
    pick (pre ++ l) (maskPosFrom o mask) = (l.zip mask).filterMap fun p => if p.2 then some p.1 else none := by
  induction mask generalizing o pre l with
  | nil =>
    cases l with
    | nil => rfl
    | cons _ _ => simp at hl
  | cons b t ih =>
    cases l with
    | nil => simp at hl
    | cons x xs =>
      have hl' : t.length = xs.length := by simpa using hl
      have hrec := ih (o + 1) (pre ++ [x]) xs (by simp [ho]) hl'
      rw [List.append_assoc, List.singleton_append] at hrec
      unfold maskPosFrom
      cases b with
      | true =>
        simp only [if_true, List.zip_cons_cons, List.filterMap_cons]
        have hx : o < (pre ++ x :: xs).length := by simp [ho]
        rw [pick_cons_of_lt _ hx, hrec]
        have : (pre ++ x :: xs)[o] = x := by
          rw [List.getElem_append_right (by omega)]; simp [ho]
        rw [this]
      | false =>
        simp only [Bool.false_eq_true, if_false, List.zip_cons_cons, List.filterMap_cons]
        exact hrec

/-! ### `set` / `setAll` on fresh keys, `ofList` on distinct keys -/

theorem set_of_not_mem {d : D α} {k : Int} (e : α) (h : k ∉ keys d) : set d k e = d ++ [(k, e)] := by
  induction d with
  | nil => rfl
  | cons p t ih =>
    obtain ⟨k', e'⟩ := p
    rw [keys_cons, List.mem_cons, not_or] at h
    have hne : ¬ k' = k := fun hh => h.1 hh.symm
    simp only [Dict.set, hne, if_false, ih h.2, List.cons_append]

theorem keys_append (a b : D α) : keys (a ++ b) = keys a ++ keys b := by simp [keys]

/-- Assigning entries with distinct keys that are all new appends them. -/
theorem setAll_of_disjoint {d : D α} {xs : D α} (hx : NodupKeys xs) (hd : ∀ k ∈ keys xs, k ∉ keys d) :
    setAll d xs = d ++ xs := by
  induction xs generalizing d with
  | nil => simp [setAll_nil]
  | cons p xs ih =>
    obtain ⟨k, e⟩ := p
    unfold NodupKeys at hx
    rw [keys_cons, List.nodup_cons] at hx
    rw [setAll_cons, set_of_not_mem e (hd k (by simp [keys_cons]))]
    rw [ih hx.2]
    · simp
    · intro j hj
      rw [keys_append]
      simp only [keys, List.map_cons, List.map_nil, List.mem_append, List.mem_singleton, not_or]
      refine ⟨hd j (by rw [keys_cons]; exact List.mem_cons_of_mem _ hj), ?_⟩
      intro hjk; subst hjk; exact hx.1 hj

theorem ofList_of_nodup {xs : D α} (h : NodupKeys xs) : ofList xs = xs := by
  unfold ofList
  rw [setAll_of_disjoint h (by intro k _; simp)]
  rfl

/-! ### `lookupAll` -/

theorem lookupAll_pick {d : D α} (hd : NodupKeys d) {ps : List Nat} (h : ∀ p ∈ ps, p < d.length) :
    lookupAll d (pick (keys d) ps) = some (pick d ps) := by
  induction ps with
  | nil => rfl
  | cons p ps ih =>
    have hp : p < d.length := h p List.mem_cons_self
    have hpk : p < (keys d).length := by simpa [keys] using hp
    rw [pick_cons_of_lt ps hpk, pick_cons_of_lt ps hp]
    unfold lookupAll at ih ⊢
    rw [List.mapM_cons, ih (fun q hq => h q (List.mem_cons_of_mem _ hq))]
    have hk : (keys d)[p] = (d[p]).1 := by simp [keys]
    have hg : get? d (keys d)[p] = some (d[p]).2 := by
      rw [hk]
      exact get?_of_mem hd (show ((d[p]).1, (d[p]).2) ∈ d from List.getElem_mem hp)
    rw [hg, hk]
    rfl

/-! ### iteration -/

theorem iterIrregFrom_length (o : Nat) (d : D α) : (iterIrregFrom o d).length = d.length := by
  induction d generalizing o with
  | nil => rfl
  | cons p t ih => obtain ⟨k, e⟩ := p; simp [iterIrregFrom, ih]

theorem iterIrregFrom_getElem (o : Nat) (d : D α) (i : Nat) (hi : i < (iterIrregFrom o d).length)
    (hi' : i < d.length) : (iterIrregFrom o d)[i] = [(((o + i : Nat) : Int), (d[i]).2)] := by
  induction d generalizing o i with
  | nil => simp at hi'
  | cons p t ih =>
    obtain ⟨k, e⟩ := p
    cases i with
    | zero => simp [iterIrregFrom]
    | succ i =>
      simp only [iterIrregFrom, List.getElem_cons_succ]
      rw [ih (o + 1) i (by simpa [iterIrregFrom] using hi) (by simpa using hi')]
      congr 2
      omega

theorem iterIrregFrom_vals (o : Nat) (d : D α) : ((iterIrregFrom o d).map vals).flatten = vals d := by
  induction d generalizing o with
  | nil => rfl
  | cons p t ih =>
    obtain ⟨k, e⟩ := p
    simp only [iterIrregFrom, List.map_cons, List.flatten_cons, ih]
    simp [vals]

/-! ### fresh labelling -/

theorem freshFrom_length (o : Nat) (xs : List α) : (freshFrom o xs).length = xs.length := by
  induction xs generalizing o with
  | nil => rfl
  | cons e t ih => simp [freshFrom, ih]

theorem vals_freshFrom (o : Nat) (xs : List α) : vals (freshFrom o xs) = xs := by
  induction xs generalizing o with
  | nil => rfl
  | cons e t ih => simp only [freshFrom, vals, List.map_cons] at *; rw [ih]

theorem keys_freshFrom (o : Nat) (xs : List α) :
    keys (freshFrom o xs) = (List.range xs.length).map fun (i : Nat) => ((o + i : Nat) : Int) := by
  induction xs generalizing o with
  | nil => rfl
  | cons e t ih =>
    simp only [freshFrom, keys_cons, ih, List.length_cons, List.range_succ_eq_map, List.map_cons, List.map_map]
    congr 1
    simp
    intro a _
    omega

theorem freshFrom_append (o : Nat) (xs ys : List α) :
    freshFrom o (xs ++ ys) = freshFrom o xs ++ freshFrom (o + xs.length) ys := by
  induction xs generalizing o with
  | nil => simp [freshFrom]
  | cons e t ih =>
    simp only [List.cons_append, freshFrom, ih, List.length_cons]
    rw [show o + 1 + t.length = o + (t.length + 1) by omega]

theorem vals_fresh (xs : List α) : vals (fresh xs) = xs := vals_freshFrom 0 xs

theorem keys_fresh (xs : List α) : keys (fresh xs) = (List.range xs.length).map fun (i : Nat) => (i : Int) := by
  unfold fresh; rw [keys_freshFrom]; simp

theorem canonical_fresh (xs : List α) : Canonical (fresh xs) := by
  unfold Canonical
  rw [keys_fresh]
  unfold fresh
  rw [freshFrom_length]

theorem eq_zip_keys_vals (d : D α) : d = (keys d).zip (vals d) := by
  induction d with
  | nil => rfl
  | cons p t ih => simp only [keys, vals, List.map_cons, List.zip_cons_cons] at *; rw [← ih]

/-- A canonically labelled dictionary is the fresh labelling of its own content. -/
theorem canonical_eq_fresh {d : D α} (h : Canonical d) : d = fresh (vals d) := by
  have hf := canonical_fresh (vals d)
  have hk : keys d = keys (fresh (vals d)) := by
    rw [h, hf]
    have : (fresh (vals d)).length = d.length := by unfold fresh; rw [freshFrom_length]; simp [vals]
    rw [this]
  calc d = (keys d).zip (vals d) := eq_zip_keys_vals d
    _ = (keys (fresh (vals d))).zip (vals (fresh (vals d))) := by rw [← hk, vals_fresh]
    _ = fresh (vals d) := (eq_zip_keys_vals _).symm

/-! ### concatenation as coded, on canonically labelled pieces -/

theorem keys_shift (t : Int) (d : D α) : keys (shift t d) = (keys d).map (t + ·) := by
  simp [keys, shift, List.map_map, Function.comp_def]

theorem vals_shift (t : Int) (d : D α) : vals (shift t d) = vals d := by
  simp [vals, shift, List.map_map, Function.comp_def]

theorem shift_fresh (n : Nat) (xs : List α) : shift (n : Int) (fresh xs) = freshFrom n xs := by
  unfold fresh
  suffices ∀ o, shift (n : Int) (freshFrom o xs) = freshFrom (n + o) xs from by simpa using this 0
  induction xs with
  | nil => intro o; rfl
  | cons e t ih =>
    intro o
    simp only [freshFrom, shift, List.map_cons] at *
    rw [ih (o + 1)]
    congr 2

theorem nodupKeys_freshFrom (o : Nat) (xs : List α) : NodupKeys (freshFrom o xs) := by
  unfold NodupKeys
  rw [keys_freshFrom]
  apply List.Nodup.map_on _ List.nodup_range
  intro i _ j _ h
  have : (o + i : Nat) = (o + j : Nat) := by exact_mod_cast h
  omega

theorem mem_keys_freshFrom {o : Nat} {xs : List α} {k : Int} (h : k ∈ keys (freshFrom o xs)) :
    (o : Int) ≤ k ∧ k < (o + xs.length : Nat) := by
  rw [keys_freshFrom] at h
  obtain ⟨i, hi, rfl⟩ := List.mem_map.1 h
  rw [List.mem_range] at hi
  constructor
  · exact_mod_cast Nat.le_add_right o i
  · exact_mod_cast Nat.add_lt_add_left hi o

/-- The fold of `concatImpl` over canonically labelled pieces keeps a freshly labelled accumulator. -/
theorem concatImpl_fold_canonical (acc : List α) (pieces : List (D α)) (h : ∀ d ∈ pieces, Canonical d) :
    pieces.foldl (fun a d => setAll a (shift (a.length : Int) d)) (fresh acc)
      = fresh (acc ++ (pieces.map vals).flatten) := by
  induction pieces generalizing acc with
  | nil => simp
  | cons d ds ih =>
    simp only [List.foldl_cons, List.map_cons, List.flatten_cons]
    have hd : d = fresh (vals d) := canonical_eq_fresh (h d List.mem_cons_self)
    have hlen : (fresh acc).length = acc.length := by unfold fresh; rw [freshFrom_length]
    have hstep : setAll (fresh acc) (shift ((fresh acc).length : Int) d) = fresh (acc ++ vals d) := by
      rw [hlen, hd, shift_fresh, vals_fresh]
      rw [setAll_of_disjoint (nodupKeys_freshFrom _ _)]
      · unfold fresh; rw [freshFrom_append]; simp
      · intro k hk hk'
        have h1 := mem_keys_freshFrom hk
        have h2 := mem_keys_freshFrom (o := 0) (by simpa [fresh] using hk')
        omega
    rw [hstep, ih (acc ++ vals d) (fun e he => h e (List.mem_cons_of_mem _ he))]
    simp

end FDA.Select
