/-
Index lemmas for the GLAM array arithmetic (`FDAModel/GLAM.lean`): row-major
`lin`/`unlin`, the rotated H-transform, the reshape→transpose→reshape sandwich, and the
entry-wise closed forms of the 2-D pipelines of `_fit_n_dimensional`.
-/
import FDAModel.GLAM
import FDAProofs.Lemmas.PSplines
import FDAProofs.Lemmas.Bases
import Mathlib.Tactic.Ring
import Mathlib.Tactic.Linarith
import Mathlib.Algebra.BigOperators.Ring.Finset
import Mathlib.Algebra.BigOperators.Intervals

namespace FDA.GLAM
open Finset FDA.PSpline

inductive InRange : List ℕ → List ℕ → Prop
  | nil : InRange [] []
  | cons {s i ss is} : i < s → InRange ss is → InRange (s :: ss) (i :: is)

theorem lin_lt : ∀ {shape idx}, InRange shape idx → lin shape idx < shape.prod := by
  intro shape idx h
  induction h with
  | nil => simp [lin]
  | @cons s i ss is hi _ ih =>
    simp only [lin, List.prod_cons]
    calc i * ss.prod + lin ss is < i * ss.prod + ss.prod := by omega
      _ = (i + 1) * ss.prod := by ring
      _ ≤ s * ss.prod := Nat.mul_le_mul_right _ hi

theorem unlin_lin : ∀ {shape idx}, InRange shape idx → unlin shape (lin shape idx) = idx := by
  intro shape idx h
  induction h with
  | nil => simp [lin, unlin]
  | @cons s i ss is hi hr ih =>
    have hlt := lin_lt hr
    have hpos : 0 < ss.prod := by omega
    simp only [lin, unlin]
    have h1 : (i * ss.prod + lin ss is) / ss.prod = i := by
      rw [Nat.add_comm, Nat.add_mul_div_right _ _ hpos, Nat.div_eq_of_lt hlt]; simp
    have h2 : (i * ss.prod + lin ss is) % ss.prod = lin ss is := by
      rw [Nat.add_comm, Nat.add_mul_mod_self_right, Nat.mod_eq_of_lt hlt]
    rw [h1, h2, ih]

theorem divmod_lin (n r i : ℕ) (hi : i < n) : (r * n + i) % n = i ∧ (r * n + i) / n = r := by
  constructor
  · rw [Nat.add_comm, Nat.add_mul_mod_self_right, Nat.mod_eq_of_lt hi]
  · rw [Nat.add_comm, Nat.add_mul_div_right _ _ (by omega), Nat.div_eq_of_lt hi]; simp

theorem rd_rotatedH (n m R : ℕ) (x : ℕ → ℕ → ℚ) (y : Array ℚ) (r i : ℕ) (hr : r < R) (hi : i < n) :
    rd (rotatedH n m R x y) (r * n + i) = ∑ k ∈ range m, x i k * rd y (k * R + r) := by
  unfold rotatedH
  have hb : r * n + i < R * n := by
    calc r * n + i < r * n + n := by omega
      _ = (r + 1) * n := by ring
      _ ≤ R * n := Nat.mul_le_mul_right _ hr
  rw [rd_tabA _ hb]
  obtain ⟨h1, h2⟩ := divmod_lin n r i hi
  simp only [h1, h2]

theorem rd_transposeA_0213 (s0 s1 s2 s3 : ℕ) (a : Array ℚ) (i j k l : ℕ)
    (hi : i < s0) (hj : j < s2) (hk : k < s1) (hl : l < s3) :
    rd (transposeA [s0, s1, s2, s3] [0, 2, 1, 3] a) (lin [s0, s2, s1, s3] [i, j, k, l])
      = rd a (lin [s0, s1, s2, s3] [i, k, j, l]) := by
  have hr : InRange [s0, s2, s1, s3] [i, j, k, l] := .cons hi (.cons hj (.cons hk (.cons hl .nil)))
  have hlt := lin_lt hr
  have hprod : [s0, s2, s1, s3].prod = [s0, s1, s2, s3].prod := by
    simp only [List.prod_cons, List.prod_nil]; ring
  unfold transposeA
  simp only [List.map, List.getD_cons_zero, List.getD_cons_succ]
  rw [rd_tabA _ (by rw [← hprod]; exact hlt)]
  rw [unlin_lin hr]
  simp [List.range, List.range.loop, List.idxOf, List.findIdx_cons]

theorem sum_range_mul (n1 n2 : ℕ) (g : ℕ → ℚ) :
    ∑ I ∈ range (n1 * n2), g I = ∑ i1 ∈ range n1, ∑ i2 ∈ range n2, g (i1 * n2 + i2) := by
  induction n1 with
  | zero => simp
  | succ n ih =>
    rw [Nat.succ_mul, Finset.sum_range_add, ih, Finset.sum_range_succ]


theorem lt_mul_of (m k l : ℕ) (hk : k < m) (hl : l < m) : k * m + l < m * m := by
  calc k * m + l < k * m + m := by omega
    _ = (k + 1) * m := by ring
    _ ≤ m * m := Nat.mul_le_mul_right _ hk

theorem lt_mul_of' (m1 m2 k l : ℕ) (hk : k < m1) (hl : l < m2) : k * m2 + l < m1 * m2 := by
  calc k * m2 + l < k * m2 + m2 := by omega
    _ = (k + 1) * m2 := by ring
    _ ≤ m1 * m2 := Nat.mul_le_mul_right _ hk

theorem tensorRow_apply (d : Dim) (i k l : ℕ) (hl : l < d.m) :
    tensorRow d i (k * d.m + l) = d.B k i * d.B l i := by
  unfold tensorRow rowTensor
  obtain ⟨h1, h2⟩ := divmod_lin d.m k l hl
  rw [h1, h2]

theorem createPermutation_2_2 : createPermutation 2 (0 + 1 + 1) = [0, 2, 1, 3] := by decide

theorem glam_bwb_2d (d1 d2 : Dim) (W : Array ℚ) (hn1 : 0 < d1.n) (hn2 : 0 < d2.n)
    (k1 l1 k2 l2 : ℕ) (hk1 : k1 < d1.m) (hl1 : l1 < d1.m) (hk2 : k2 < d2.m) (hl2 : l2 < d2.m) :
    rd (glamBWB [d1, d2] W) ((k1 * d2.m + k2) * (d1.m * d2.m) + (l1 * d2.m + l2))
      = ∑ i1 ∈ range d1.n, ∑ i2 ∈ range d2.n,
          d1.B k1 i1 * d1.B l1 i1 * (d2.B k2 i2 * d2.B l2 i2) * rd W (i1 * d2.n + i2) := by
  have hidx : (k1 * d2.m + k2) * (d1.m * d2.m) + (l1 * d2.m + l2)
      = lin [d1.m, d2.m, d1.m, d2.m] [k1, k2, l1, l2] := by
    simp only [lin, List.prod_cons, List.prod_nil]; ring
  have hidx2 : lin [d1.m, d1.m, d2.m, d2.m] [k1, l1, k2, l2]
      = (k1 * d1.m + l1) * (d2.m * d2.m) + (k2 * d2.m + l2) := by
    simp only [lin, List.prod_cons, List.prod_nil]; ring
  unfold glamBWB
  simp only [repeat2, List.flatMap_cons, List.flatMap_nil, List.length_cons, List.length_nil,
    List.cons_append, List.nil_append, List.append_nil, createPermutation_2_2]
  rw [hidx, rd_transposeA_0213 d1.m d1.m d2.m d2.m _ k1 k2 l1 l2 hk1 hk2 hl1 hl2, hidx2]
  simp only [chain, List.foldl_cons, List.foldl_nil, prodN, List.map_cons, List.map_nil,
    List.prod_cons, List.prod_nil, mul_one]
  have hR1 : d1.n * d2.n / d1.n = d2.n := Nat.mul_div_cancel_left _ hn1
  have hR2 : d2.n * (d1.m * d1.m) / d2.n = d1.m * d1.m := Nat.mul_div_cancel_left _ hn2
  rw [hR1, hR2]
  rw [rd_rotatedH _ _ _ _ _ _ _ (lt_mul_of d1.m k1 l1 hk1 hl1) (lt_mul_of d2.m k2 l2 hk2 hl2)]
  rw [Finset.sum_comm]
  apply Finset.sum_congr rfl; intro i2 hi2
  rw [rd_rotatedH _ _ _ _ _ _ _ (mem_range.mp hi2) (lt_mul_of d1.m k1 l1 hk1 hl1), Finset.mul_sum]
  apply Finset.sum_congr rfl; intro i1 _
  rw [tensorRow_apply d2 i2 k2 l2 hl2, tensorRow_apply d1 i1 k1 l1 hl1]
  ring


theorem glam_bwy_2d (d1 d2 : Dim) (YW : Array ℚ) (hn1 : 0 < d1.n) (hn2 : 0 < d2.n)
    (k1 k2 : ℕ) (hk1 : k1 < d1.m) (hk2 : k2 < d2.m) :
    rd (glamBWY [d1, d2] YW) (k1 * d2.m + k2)
      = ∑ i1 ∈ range d1.n, ∑ i2 ∈ range d2.n, d1.B k1 i1 * d2.B k2 i2 * rd YW (i1 * d2.n + i2) := by
  unfold glamBWY
  simp only [chain, List.foldl_cons, List.foldl_nil, prodN, List.map_cons, List.map_nil,
    List.prod_cons, List.prod_nil, mul_one]
  have hR1 : d1.n * d2.n / d1.n = d2.n := Nat.mul_div_cancel_left _ hn1
  have hR2 : d2.n * d1.m / d2.n = d1.m := Nat.mul_div_cancel_left _ hn2
  rw [hR1, hR2, rd_rotatedH _ _ _ _ _ _ _ hk1 hk2, Finset.sum_comm]
  apply Finset.sum_congr rfl; intro i2 hi2
  rw [rd_rotatedH _ _ _ _ _ _ _ (mem_range.mp hi2) hk1, Finset.mul_sum]
  apply Finset.sum_congr rfl; intro i1 _
  ring

theorem glam_yhat_2d (d1 d2 : Dim) (β : Array ℚ) (hm1 : 0 < d1.m) (hm2 : 0 < d2.m)
    (i1 i2 : ℕ) (hi1 : i1 < d1.n) (hi2 : i2 < d2.n) :
    rd (glamYhat [d1, d2] β) (i1 * d2.n + i2)
      = ∑ k1 ∈ range d1.m, ∑ k2 ∈ range d2.m, d1.B k1 i1 * d2.B k2 i2 * rd β (k1 * d2.m + k2) := by
  unfold glamYhat
  simp only [chain, List.foldl_cons, List.foldl_nil, prodM, List.map_cons, List.map_nil,
    List.prod_cons, List.prod_nil, mul_one]
  have hR1 : d1.m * d2.m / d1.m = d2.m := Nat.mul_div_cancel_left _ hm1
  have hR2 : d2.m * d1.n / d2.m = d1.n := Nat.mul_div_cancel_left _ hm2
  rw [hR1, hR2, rd_rotatedH _ _ _ _ _ _ _ hi1 hi2, Finset.sum_comm]
  apply Finset.sum_congr rfl; intro k2 hk2
  rw [rd_rotatedH _ _ _ _ _ _ _ (mem_range.mp hk2) hi1, Finset.mul_sum]
  apply Finset.sum_congr rfl; intro k1 _
  ring

theorem createPermutation_2_2' : createPermutation (0 + 1 + 1) 2 = [0, 2, 1, 3] := by decide

theorem glam_hat_2d (d1 d2 : Dim) (X W : Array ℚ) (hm1 : 0 < d1.m) (hm2 : 0 < d2.m)
    (i1 i2 : ℕ) (hi1 : i1 < d1.n) (hi2 : i2 < d2.n) :
    rd (glamHat [d1, d2] X W) (i1 * d2.n + i2)
      = rd W (i1 * d2.n + i2) *
        ∑ k1 ∈ range d1.m, ∑ l1 ∈ range d1.m, ∑ k2 ∈ range d2.m, ∑ l2 ∈ range d2.m,
          d1.B k1 i1 * d1.B l1 i1 * (d2.B k2 i2 * d2.B l2 i2)
            * rd X ((k1 * d2.m + k2) * (d1.m * d2.m) + (l1 * d2.m + l2)) := by
  unfold glamHat
  have hb : i1 * d2.n + i2 < prodN [d1, d2] := by
    simp only [prodN, List.map_cons, List.map_nil, List.prod_cons, List.prod_nil, mul_one]
    exact lt_mul_of' d1.n d2.n i1 i2 hi1 hi2
  rw [rd_tabA _ hb]
  congr 1
  simp only [tile2, chain, List.foldl_cons, List.foldl_nil, prodM, List.map_cons, List.map_nil,
    List.prod_cons, List.prod_nil, mul_one, List.length_cons, List.length_nil, List.cons_append,
    List.nil_append, createPermutation_2_2']
  have hR1 : d1.m * d2.m * (d1.m * d2.m) / (d1.m * d1.m) = d2.m * d2.m := by
    have : d1.m * d2.m * (d1.m * d2.m) = (d1.m * d1.m) * (d2.m * d2.m) := by ring
    rw [this]; exact Nat.mul_div_cancel_left _ (Nat.mul_pos hm1 hm1)
  have hR2 : d2.m * d2.m * d1.n / (d2.m * d2.m) = d1.n := Nat.mul_div_cancel_left _ (Nat.mul_pos hm2 hm2)
  rw [hR1, hR2, rd_rotatedH _ _ _ _ _ _ _ hi1 hi2]
  -- Σ_c T2[i2,c] · a1[c·n1 + i1]
  rw [sum_range_mul]
  -- bring the sums over (k2,l2) inside those over (k1,l1)
  have inner : ∀ k2 ∈ range d2.m, ∀ l2 ∈ range d2.m,
      tensorRow d2 i2 (k2 * d2.m + l2) *
        rd (rotatedH d1.n (d1.m * d1.m) (d2.m * d2.m) (fun i a => tensorRow d1 i a)
          (transposeA [d1.m, d2.m, d1.m, d2.m] [0, 2, 1, 3] X)) ((k2 * d2.m + l2) * d1.n + i1)
      = ∑ k1 ∈ range d1.m, ∑ l1 ∈ range d1.m, d1.B k1 i1 * d1.B l1 i1 * (d2.B k2 i2 * d2.B l2 i2)
            * rd X ((k1 * d2.m + k2) * (d1.m * d2.m) + (l1 * d2.m + l2)) := by
    intro k2 hk2 l2 hl2
    have hk2 := mem_range.mp hk2
    have hl2 := mem_range.mp hl2
    rw [rd_rotatedH _ _ _ _ _ _ _ (lt_mul_of d2.m k2 l2 hk2 hl2) hi1, sum_range_mul, Finset.mul_sum]
    apply Finset.sum_congr rfl; intro k1 hk1
    rw [Finset.mul_sum]
    apply Finset.sum_congr rfl; intro l1 hl1
    have hk1 := mem_range.mp hk1
    have hl1 := mem_range.mp hl1
    have hidx : (k1 * d1.m + l1) * (d2.m * d2.m) + (k2 * d2.m + l2)
        = lin [d1.m, d1.m, d2.m, d2.m] [k1, l1, k2, l2] := by
      simp only [lin, List.prod_cons, List.prod_nil]; ring
    have hidx2 : lin [d1.m, d2.m, d1.m, d2.m] [k1, k2, l1, l2]
        = (k1 * d2.m + k2) * (d1.m * d2.m) + (l1 * d2.m + l2) := by
      simp only [lin, List.prod_cons, List.prod_nil]; ring
    rw [hidx, rd_transposeA_0213 d1.m d2.m d1.m d2.m X k1 l1 k2 l2 hk1 hl1 hk2 hl2, hidx2,
      tensorRow_apply d2 i2 k2 l2 hl2, tensorRow_apply d1 i1 k1 l1 hl1]
    ring
  rw [Finset.sum_congr rfl (fun k2 hk2 => Finset.sum_congr rfl (fun l2 hl2 => inner k2 hk2 l2 hl2))]
  -- reorder Σ_k2 Σ_l2 Σ_k1 Σ_l1 → Σ_k1 Σ_l1 Σ_k2 Σ_l2
  have step1 : ∀ k2 ∈ range d2.m,
      (∑ l2 ∈ range d2.m, ∑ k1 ∈ range d1.m, ∑ l1 ∈ range d1.m,
        d1.B k1 i1 * d1.B l1 i1 * (d2.B k2 i2 * d2.B l2 i2)
          * rd X ((k1 * d2.m + k2) * (d1.m * d2.m) + (l1 * d2.m + l2)))
      = ∑ k1 ∈ range d1.m, ∑ l1 ∈ range d1.m, ∑ l2 ∈ range d2.m,
        d1.B k1 i1 * d1.B l1 i1 * (d2.B k2 i2 * d2.B l2 i2)
          * rd X ((k1 * d2.m + k2) * (d1.m * d2.m) + (l1 * d2.m + l2)) := by
    intro k2 _
    rw [Finset.sum_comm]
    apply Finset.sum_congr rfl; intro k1 _
    rw [Finset.sum_comm]
  rw [Finset.sum_congr rfl step1, Finset.sum_comm]
  apply Finset.sum_congr rfl; intro k1 _
  rw [Finset.sum_comm]

/-! ### Three dimensions -/

theorem rd_transposeA_024135 (s0 s1 s2 s3 s4 s5 : ℕ) (a : Array ℚ) (i0 i1 i2 i3 i4 i5 : ℕ)
    (h0 : i0 < s0) (h1 : i1 < s2) (h2 : i2 < s4) (h3 : i3 < s1) (h4 : i4 < s3) (h5 : i5 < s5) :
    rd (transposeA [s0, s1, s2, s3, s4, s5] [0, 2, 4, 1, 3, 5] a)
        (lin [s0, s2, s4, s1, s3, s5] [i0, i1, i2, i3, i4, i5])
      = rd a (lin [s0, s1, s2, s3, s4, s5] [i0, i3, i1, i4, i2, i5]) := by
  have hr : InRange [s0, s2, s4, s1, s3, s5] [i0, i1, i2, i3, i4, i5] :=
    .cons h0 (.cons h1 (.cons h2 (.cons h3 (.cons h4 (.cons h5 .nil)))))
  have hlt := lin_lt hr
  have hprod : [s0, s2, s4, s1, s3, s5].prod = [s0, s1, s2, s3, s4, s5].prod := by
    simp only [List.prod_cons, List.prod_nil]; ring
  unfold transposeA
  simp only [List.map, List.getD_cons_zero, List.getD_cons_succ]
  rw [rd_tabA _ (by rw [← hprod]; exact hlt)]
  rw [unlin_lin hr]
  simp [List.range, List.range.loop, List.idxOf, List.findIdx_cons]

theorem rd_transposeA_031425 (s0 s1 s2 s3 s4 s5 : ℕ) (a : Array ℚ) (i0 i1 i2 i3 i4 i5 : ℕ)
    (h0 : i0 < s0) (h1 : i1 < s3) (h2 : i2 < s1) (h3 : i3 < s4) (h4 : i4 < s2) (h5 : i5 < s5) :
    rd (transposeA [s0, s1, s2, s3, s4, s5] [0, 3, 1, 4, 2, 5] a)
        (lin [s0, s3, s1, s4, s2, s5] [i0, i1, i2, i3, i4, i5])
      = rd a (lin [s0, s1, s2, s3, s4, s5] [i0, i2, i4, i1, i3, i5]) := by
  have hr : InRange [s0, s3, s1, s4, s2, s5] [i0, i1, i2, i3, i4, i5] :=
    .cons h0 (.cons h1 (.cons h2 (.cons h3 (.cons h4 (.cons h5 .nil)))))
  have hlt := lin_lt hr
  have hprod : [s0, s3, s1, s4, s2, s5].prod = [s0, s1, s2, s3, s4, s5].prod := by
    simp only [List.prod_cons, List.prod_nil]; ring
  unfold transposeA
  simp only [List.map, List.getD_cons_zero, List.getD_cons_succ]
  rw [rd_tabA _ (by rw [← hprod]; exact hlt)]
  rw [unlin_lin hr]
  simp [List.range, List.range.loop, List.idxOf, List.findIdx_cons]

theorem createPermutation_2_3 : createPermutation 2 (0 + 1 + 1 + 1) = [0, 2, 4, 1, 3, 5] := by decide
theorem createPermutation_3_2 : createPermutation (0 + 1 + 1 + 1) 2 = [0, 3, 1, 4, 2, 5] := by decide

theorem lt_mul3 (a b c i j k : ℕ) (hi : i < a) (hj : j < b) (hk : k < c) :
    (i * b + j) * c + k < a * b * c :=
  lt_mul_of' (a * b) c (i * b + j) k (lt_mul_of' a b i j hi hj) hk


theorem sum_comm3 (A B C : Finset ℕ) (f : ℕ → ℕ → ℕ → ℚ) :
    ∑ a ∈ A, ∑ b ∈ B, ∑ c ∈ C, f a b c = ∑ c ∈ C, ∑ b ∈ B, ∑ a ∈ A, f a b c := by
  have : ∀ a ∈ A, ∑ b ∈ B, ∑ c ∈ C, f a b c = ∑ c ∈ C, ∑ b ∈ B, f a b c := fun a _ => Finset.sum_comm
  rw [Finset.sum_congr rfl this, Finset.sum_comm]
  apply Finset.sum_congr rfl; intro c _
  rw [Finset.sum_comm]

theorem glam_bwb_3d (d1 d2 d3 : Dim) (W : Array ℚ) (hn1 : 0 < d1.n) (hn2 : 0 < d2.n) (hn3 : 0 < d3.n)
    (k1 l1 k2 l2 k3 l3 : ℕ) (hk1 : k1 < d1.m) (hl1 : l1 < d1.m) (hk2 : k2 < d2.m) (hl2 : l2 < d2.m)
    (hk3 : k3 < d3.m) (hl3 : l3 < d3.m) :
    rd (glamBWB [d1, d2, d3] W)
        (((k1 * d2.m + k2) * d3.m + k3) * (d1.m * d2.m * d3.m) + ((l1 * d2.m + l2) * d3.m + l3))
      = ∑ i1 ∈ range d1.n, ∑ i2 ∈ range d2.n, ∑ i3 ∈ range d3.n,
          d1.B k1 i1 * d1.B l1 i1 * (d2.B k2 i2 * d2.B l2 i2) * (d3.B k3 i3 * d3.B l3 i3)
            * rd W ((i1 * d2.n + i2) * d3.n + i3) := by
  have hidx : ((k1 * d2.m + k2) * d3.m + k3) * (d1.m * d2.m * d3.m) + ((l1 * d2.m + l2) * d3.m + l3)
      = lin [d1.m, d2.m, d3.m, d1.m, d2.m, d3.m] [k1, k2, k3, l1, l2, l3] := by
    simp only [lin, List.prod_cons, List.prod_nil]; ring
  have hidx2 : lin [d1.m, d1.m, d2.m, d2.m, d3.m, d3.m] [k1, l1, k2, l2, k3, l3]
      = ((k1 * d1.m + l1) * (d2.m * d2.m) + (k2 * d2.m + l2)) * (d3.m * d3.m) + (k3 * d3.m + l3) := by
    simp only [lin, List.prod_cons, List.prod_nil]; ring
  unfold glamBWB
  simp only [repeat2, List.flatMap_cons, List.flatMap_nil, List.length_cons, List.length_nil,
    List.cons_append, List.nil_append, List.append_nil, createPermutation_2_3]
  rw [hidx, rd_transposeA_024135 d1.m d1.m d2.m d2.m d3.m d3.m _ k1 k2 k3 l1 l2 l3 hk1 hk2 hk3 hl1 hl2 hl3,
    hidx2]
  simp only [chain, List.foldl_cons, List.foldl_nil, prodN, List.map_cons, List.map_nil,
    List.prod_cons, List.prod_nil, mul_one]
  have hR1 : d1.n * (d2.n * d3.n) / d1.n = d2.n * d3.n := Nat.mul_div_cancel_left _ hn1
  have hR2 : d2.n * d3.n * (d1.m * d1.m) / d2.n = d3.n * (d1.m * d1.m) := by
    rw [Nat.mul_assoc]; exact Nat.mul_div_cancel_left _ hn2
  have hR3 : d3.n * (d1.m * d1.m) * (d2.m * d2.m) / d3.n = d1.m * d1.m * (d2.m * d2.m) := by
    rw [Nat.mul_assoc]; exact Nat.mul_div_cancel_left _ hn3
  rw [hR1, hR2, hR3]
  have ha := lt_mul_of d1.m k1 l1 hk1 hl1
  have hc := lt_mul_of d2.m k2 l2 hk2 hl2
  have he := lt_mul_of d3.m k3 l3 hk3 hl3
  rw [rd_rotatedH _ _ _ _ _ _ _ (lt_mul_of' (d1.m * d1.m) (d2.m * d2.m) _ _ ha hc) he]
  rw [sum_comm3]
  apply Finset.sum_congr rfl; intro i3 hi3
  have e3 : i3 * (d1.m * d1.m * (d2.m * d2.m)) + ((k1 * d1.m + l1) * (d2.m * d2.m) + (k2 * d2.m + l2))
      = (i3 * (d1.m * d1.m) + (k1 * d1.m + l1)) * (d2.m * d2.m) + (k2 * d2.m + l2) := by ring
  rw [e3, rd_rotatedH _ _ _ _ _ _ _ (lt_mul_of' d3.n (d1.m * d1.m) i3 _ (mem_range.mp hi3) ha) hc,
    Finset.mul_sum]
  apply Finset.sum_congr rfl; intro i2 hi2
  have e2 : i2 * (d3.n * (d1.m * d1.m)) + (i3 * (d1.m * d1.m) + (k1 * d1.m + l1))
      = (i2 * d3.n + i3) * (d1.m * d1.m) + (k1 * d1.m + l1) := by ring
  rw [e2, rd_rotatedH _ _ _ _ _ _ _ (lt_mul_of' d2.n d3.n i2 i3 (mem_range.mp hi2) (mem_range.mp hi3)) ha,
    Finset.mul_sum, Finset.mul_sum]
  apply Finset.sum_congr rfl; intro i1 _
  have e1 : i1 * (d2.n * d3.n) + (i2 * d3.n + i3) = (i1 * d2.n + i2) * d3.n + i3 := by ring
  rw [e1, tensorRow_apply d3 i3 k3 l3 hl3, tensorRow_apply d2 i2 k2 l2 hl2, tensorRow_apply d1 i1 k1 l1 hl1]
  ring


theorem glam_bwy_3d (d1 d2 d3 : Dim) (YW : Array ℚ) (hn1 : 0 < d1.n) (hn2 : 0 < d2.n) (hn3 : 0 < d3.n)
    (k1 k2 k3 : ℕ) (hk1 : k1 < d1.m) (hk2 : k2 < d2.m) (hk3 : k3 < d3.m) :
    rd (glamBWY [d1, d2, d3] YW) ((k1 * d2.m + k2) * d3.m + k3)
      = ∑ i1 ∈ range d1.n, ∑ i2 ∈ range d2.n, ∑ i3 ∈ range d3.n,
          d1.B k1 i1 * d2.B k2 i2 * d3.B k3 i3 * rd YW ((i1 * d2.n + i2) * d3.n + i3) := by
  unfold glamBWY
  simp only [chain, List.foldl_cons, List.foldl_nil, prodN, List.map_cons, List.map_nil,
    List.prod_cons, List.prod_nil, mul_one]
  have hR1 : d1.n * (d2.n * d3.n) / d1.n = d2.n * d3.n := Nat.mul_div_cancel_left _ hn1
  have hR2 : d2.n * d3.n * d1.m / d2.n = d3.n * d1.m := by
    rw [Nat.mul_assoc]; exact Nat.mul_div_cancel_left _ hn2
  have hR3 : d3.n * d1.m * d2.m / d3.n = d1.m * d2.m := by
    rw [Nat.mul_assoc]; exact Nat.mul_div_cancel_left _ hn3
  rw [hR1, hR2, hR3, rd_rotatedH _ _ _ _ _ _ _ (lt_mul_of' d1.m d2.m k1 k2 hk1 hk2) hk3, sum_comm3]
  apply Finset.sum_congr rfl; intro i3 hi3
  have e3 : i3 * (d1.m * d2.m) + (k1 * d2.m + k2) = (i3 * d1.m + k1) * d2.m + k2 := by ring
  rw [e3, rd_rotatedH _ _ _ _ _ _ _ (lt_mul_of' d3.n d1.m i3 k1 (mem_range.mp hi3) hk1) hk2, Finset.mul_sum]
  apply Finset.sum_congr rfl; intro i2 hi2
  have e2 : i2 * (d3.n * d1.m) + (i3 * d1.m + k1) = (i2 * d3.n + i3) * d1.m + k1 := by ring
  rw [e2, rd_rotatedH _ _ _ _ _ _ _ (lt_mul_of' d2.n d3.n i2 i3 (mem_range.mp hi2) (mem_range.mp hi3)) hk1,
    Finset.mul_sum, Finset.mul_sum]
  apply Finset.sum_congr rfl; intro i1 _
  have e1 : i1 * (d2.n * d3.n) + (i2 * d3.n + i3) = (i1 * d2.n + i2) * d3.n + i3 := by ring
  rw [e1]; ring

theorem glam_yhat_3d (d1 d2 d3 : Dim) (β : Array ℚ) (hm1 : 0 < d1.m) (hm2 : 0 < d2.m) (hm3 : 0 < d3.m)
    (i1 i2 i3 : ℕ) (hi1 : i1 < d1.n) (hi2 : i2 < d2.n) (hi3 : i3 < d3.n) :
    rd (glamYhat [d1, d2, d3] β) ((i1 * d2.n + i2) * d3.n + i3)
      = ∑ k1 ∈ range d1.m, ∑ k2 ∈ range d2.m, ∑ k3 ∈ range d3.m,
          d1.B k1 i1 * d2.B k2 i2 * d3.B k3 i3 * rd β ((k1 * d2.m + k2) * d3.m + k3) := by
  unfold glamYhat
  simp only [chain, List.foldl_cons, List.foldl_nil, prodM, List.map_cons, List.map_nil,
    List.prod_cons, List.prod_nil, mul_one]
  have hR1 : d1.m * (d2.m * d3.m) / d1.m = d2.m * d3.m := Nat.mul_div_cancel_left _ hm1
  have hR2 : d2.m * d3.m * d1.n / d2.m = d3.m * d1.n := by
    rw [Nat.mul_assoc]; exact Nat.mul_div_cancel_left _ hm2
  have hR3 : d3.m * d1.n * d2.n / d3.m = d1.n * d2.n := by
    rw [Nat.mul_assoc]; exact Nat.mul_div_cancel_left _ hm3
  rw [hR1, hR2, hR3, rd_rotatedH _ _ _ _ _ _ _ (lt_mul_of' d1.n d2.n i1 i2 hi1 hi2) hi3, sum_comm3]
  apply Finset.sum_congr rfl; intro k3 hk3
  have e3 : k3 * (d1.n * d2.n) + (i1 * d2.n + i2) = (k3 * d1.n + i1) * d2.n + i2 := by ring
  rw [e3, rd_rotatedH _ _ _ _ _ _ _ (lt_mul_of' d3.m d1.n k3 i1 (mem_range.mp hk3) hi1) hi2, Finset.mul_sum]
  apply Finset.sum_congr rfl; intro k2 hk2
  have e2 : k2 * (d3.m * d1.n) + (k3 * d1.n + i1) = (k2 * d3.m + k3) * d1.n + i1 := by ring
  rw [e2, rd_rotatedH _ _ _ _ _ _ _ (lt_mul_of' d2.m d3.m k2 k3 (mem_range.mp hk2) (mem_range.mp hk3)) hi1,
    Finset.mul_sum, Finset.mul_sum]
  apply Finset.sum_congr rfl; intro k1 _
  have e1 : k1 * (d2.m * d3.m) + (k2 * d3.m + k3) = (k1 * d2.m + k2) * d3.m + k3 := by ring
  rw [e1]; ring

theorem glam_hat_3d (d1 d2 d3 : Dim) (X W : Array ℚ) (hm1 : 0 < d1.m) (hm2 : 0 < d2.m) (hm3 : 0 < d3.m)
    (i1 i2 i3 : ℕ) (hi1 : i1 < d1.n) (hi2 : i2 < d2.n) (hi3 : i3 < d3.n) :
    rd (glamHat [d1, d2, d3] X W) ((i1 * d2.n + i2) * d3.n + i3)
      = rd W ((i1 * d2.n + i2) * d3.n + i3) *
        ∑ k3 ∈ range d3.m, ∑ l3 ∈ range d3.m, ∑ k2 ∈ range d2.m, ∑ l2 ∈ range d2.m,
        ∑ k1 ∈ range d1.m, ∑ l1 ∈ range d1.m,
          d1.B k1 i1 * d1.B l1 i1 * (d2.B k2 i2 * d2.B l2 i2) * (d3.B k3 i3 * d3.B l3 i3)
            * rd X (((k1 * d2.m + k2) * d3.m + k3) * (d1.m * d2.m * d3.m) + ((l1 * d2.m + l2) * d3.m + l3)) := by
  unfold glamHat
  have hb : (i1 * d2.n + i2) * d3.n + i3 < prodN [d1, d2, d3] := by
    simp only [prodN, List.map_cons, List.map_nil, List.prod_cons, List.prod_nil, mul_one]
    rw [← Nat.mul_assoc]
    exact lt_mul3 d1.n d2.n d3.n i1 i2 i3 hi1 hi2 hi3
  rw [rd_tabA _ hb]
  congr 1
  simp only [tile2, chain, List.foldl_cons, List.foldl_nil, prodM, List.map_cons, List.map_nil,
    List.prod_cons, List.prod_nil, mul_one, List.length_cons, List.length_nil, List.cons_append,
    List.nil_append, createPermutation_3_2]
  have hR1 : d1.m * (d2.m * d3.m) * (d1.m * (d2.m * d3.m)) / (d1.m * d1.m)
      = d2.m * d2.m * (d3.m * d3.m) := by
    have : d1.m * (d2.m * d3.m) * (d1.m * (d2.m * d3.m)) = (d1.m * d1.m) * (d2.m * d2.m * (d3.m * d3.m)) := by
      ring
    rw [this]; exact Nat.mul_div_cancel_left _ (Nat.mul_pos hm1 hm1)
  have hR2 : d2.m * d2.m * (d3.m * d3.m) * d1.n / (d2.m * d2.m) = d3.m * d3.m * d1.n := by
    rw [Nat.mul_assoc]; exact Nat.mul_div_cancel_left _ (Nat.mul_pos hm2 hm2)
  have hR3 : d3.m * d3.m * d1.n * d2.n / (d3.m * d3.m) = d1.n * d2.n := by
    rw [Nat.mul_assoc]; exact Nat.mul_div_cancel_left _ (Nat.mul_pos hm3 hm3)
  rw [hR1, hR2, hR3, rd_rotatedH _ _ _ _ _ _ _ (lt_mul_of' d1.n d2.n i1 i2 hi1 hi2) hi3, sum_range_mul]
  apply Finset.sum_congr rfl; intro k3 hk3
  apply Finset.sum_congr rfl; intro l3 hl3
  have hk3 := mem_range.mp hk3
  have hl3 := mem_range.mp hl3
  have he := lt_mul_of d3.m k3 l3 hk3 hl3
  have e3 : (k3 * d3.m + l3) * (d1.n * d2.n) + (i1 * d2.n + i2)
      = ((k3 * d3.m + l3) * d1.n + i1) * d2.n + i2 := by ring
  rw [e3, rd_rotatedH _ _ _ _ _ _ _ (lt_mul_of' (d3.m * d3.m) d1.n _ i1 he hi1) hi2, sum_range_mul,
    Finset.mul_sum]
  apply Finset.sum_congr rfl; intro k2 hk2
  rw [Finset.mul_sum]
  apply Finset.sum_congr rfl; intro l2 hl2
  have hk2 := mem_range.mp hk2
  have hl2 := mem_range.mp hl2
  have hc := lt_mul_of d2.m k2 l2 hk2 hl2
  have e2 : (k2 * d2.m + l2) * (d3.m * d3.m * d1.n) + ((k3 * d3.m + l3) * d1.n + i1)
      = ((k2 * d2.m + l2) * (d3.m * d3.m) + (k3 * d3.m + l3)) * d1.n + i1 := by ring
  rw [e2, rd_rotatedH _ _ _ _ _ _ _ (lt_mul_of' (d2.m * d2.m) (d3.m * d3.m) _ _ hc he) hi1, sum_range_mul,
    Finset.mul_sum, Finset.mul_sum]
  apply Finset.sum_congr rfl; intro k1 hk1
  rw [Finset.mul_sum, Finset.mul_sum]
  apply Finset.sum_congr rfl; intro l1 hl1
  have hk1 := mem_range.mp hk1
  have hl1 := mem_range.mp hl1
  have hidx : (k1 * d1.m + l1) * (d2.m * d2.m * (d3.m * d3.m)) + ((k2 * d2.m + l2) * (d3.m * d3.m) + (k3 * d3.m + l3))
      = lin [d1.m, d1.m, d2.m, d2.m, d3.m, d3.m] [k1, l1, k2, l2, k3, l3] := by
    simp only [lin, List.prod_cons, List.prod_nil]; ring
  have hidx2 : lin [d1.m, d2.m, d3.m, d1.m, d2.m, d3.m] [k1, k2, k3, l1, l2, l3]
      = ((k1 * d2.m + k2) * d3.m + k3) * (d1.m * d2.m * d3.m) + ((l1 * d2.m + l2) * d3.m + l3) := by
    simp only [lin, List.prod_cons, List.prod_nil]; ring
  rw [hidx, rd_transposeA_031425 d1.m d2.m d3.m d1.m d2.m d3.m X k1 l1 k2 l2 k3 l3 hk1 hl1 hk2 hl2 hk3 hl3,
    hidx2, tensorRow_apply d3 i3 k3 l3 hl3, tensorRow_apply d2 i2 k2 l2 hl2, tensorRow_apply d1 i1 k1 l1 hl1]
  ring

/-! ### Kronecker index bookkeeping, tensor-product penalty -/

theorem kronB3_apply (d1 d2 d3 : Dim) (k1 k2 k3 i1 i2 i3 : ℕ) (hk2 : k2 < d2.m) (hk3 : k3 < d3.m)
    (hi2 : i2 < d2.n) (hi3 : i3 < d3.n) :
    kronB3 d2.m d2.n d3.m d3.n d1.B d2.B d3.B ((k1 * d2.m + k2) * d3.m + k3) ((i1 * d2.n + i2) * d3.n + i3)
      = d1.B k1 i1 * d2.B k2 i2 * d3.B k3 i3 := by
  unfold kronB3 kronB
  rw [Bases.kron_apply _ _ _ _ (k1 * d2.m + k2) k3 (i1 * d2.n + i2) i3 hk3 hi3,
    Bases.kron_apply _ _ _ _ k1 k2 i1 i2 hk2 hi2]

theorem sum_range_mul3 (n1 n2 n3 : ℕ) (g : ℕ → ℚ) :
    ∑ I ∈ range (n1 * n2 * n3), g I
      = ∑ i1 ∈ range n1, ∑ i2 ∈ range n2, ∑ i3 ∈ range n3, g ((i1 * n2 + i2) * n3 + i3) := by
  rw [sum_range_mul (n1 * n2) n3, sum_range_mul n1 n2]

theorem interleave (A a : ℕ) (g : ℕ → ℕ → ℚ) :
    ∑ K ∈ range (A * a), ∑ L ∈ range (A * a), g K L
      = ∑ k ∈ range a, ∑ l ∈ range a, ∑ K' ∈ range A, ∑ L' ∈ range A, g (K' * a + k) (L' * a + l) := by
  rw [sum_range_mul]
  simp_rw [sum_range_mul A a]
  rw [Finset.sum_comm]
  apply Finset.sum_congr rfl; intro k _
  have : ∀ K' ∈ range A, ∑ L' ∈ range A, ∑ l ∈ range a, g (K' * a + k) (L' * a + l)
      = ∑ l ∈ range a, ∑ L' ∈ range A, g (K' * a + k) (L' * a + l) := fun K' _ => Finset.sum_comm
  rw [Finset.sum_congr rfl this, Finset.sum_comm]

/-- `vᵀ(λ₁·P₁⊗I + λ₂·I⊗P₂)v = λ₁ Σ_{k₂} v[:,k₂]ᵀP₁v[:,k₂] + λ₂ Σ_{k₁} v[k₁,:]ᵀP₂v[k₁,:]`. -/
theorem quadForm_penSpec2 (m1 m2 : ℕ) (la lb : ℚ) (P1 P2 : ℕ → ℕ → ℚ) (v : ℕ → ℚ) :
    quadForm (m1 * m2) (penSpec2 m2 la lb P1 P2) v
      = la * ∑ k2 ∈ range m2, quadForm m1 P1 (fun k1 => v (k1 * m2 + k2))
        + lb * ∑ k1 ∈ range m1, quadForm m2 P2 (fun k2 => v (k1 * m2 + k2)) := by
  unfold quadForm
  rw [interleave m1 m2 (fun K L => v K * penSpec2 m2 la lb P1 P2 K L * v L)]
  have hterm : ∀ k2 ∈ range m2, ∀ l2 ∈ range m2, ∀ k1 ∈ range m1, ∀ l1' ∈ range m1,
      v (k1 * m2 + k2) * penSpec2 m2 la lb P1 P2 (k1 * m2 + k2) (l1' * m2 + l2) * v (l1' * m2 + l2)
      = la * (if k2 = l2 then v (k1 * m2 + k2) * P1 k1 l1' * v (l1' * m2 + l2) else 0)
        + lb * (if k1 = l1' then v (k1 * m2 + k2) * P2 k2 l2 * v (l1' * m2 + l2) else 0) := by
    intro k2 hk2 l2 hl2 k1 _ l1' _
    obtain ⟨a1, a2⟩ := divmod_lin m2 k1 k2 (mem_range.mp hk2)
    obtain ⟨b1, b2⟩ := divmod_lin m2 l1' l2 (mem_range.mp hl2)
    unfold penSpec2
    rw [a1, a2, b1, b2]
    by_cases h2 : k2 = l2 <;> by_cases h1 : k1 = l1' <;> simp [h1, h2] <;> ring
  rw [Finset.sum_congr rfl fun k2 hk2 => Finset.sum_congr rfl fun l2 hl2 =>
    Finset.sum_congr rfl fun k1 hk1 => Finset.sum_congr rfl fun l1' hl1' => hterm k2 hk2 l2 hl2 k1 hk1 l1' hl1']
  simp_rw [Finset.sum_add_distrib, ← Finset.mul_sum]
  congr 1
  · congr 1
    apply Finset.sum_congr rfl; intro k2 hk2
    rw [Finset.sum_eq_single k2]
    · simp
    · intro l2 _ hne
      apply Finset.sum_eq_zero; intro k1 _
      apply Finset.sum_eq_zero; intro l1' _
      simp [Ne.symm hne]
    · intro h; exact absurd hk2 h
  · congr 1
    rw [Finset.sum_comm]
    have : ∀ l2 ∈ range m2, (∑ k2 ∈ range m2, ∑ k1 ∈ range m1, ∑ l1' ∈ range m1,
        if k1 = l1' then v (k1 * m2 + k2) * P2 k2 l2 * v (l1' * m2 + l2) else 0)
        = ∑ k2 ∈ range m2, ∑ k1 ∈ range m1, v (k1 * m2 + k2) * P2 k2 l2 * v (k1 * m2 + l2) := by
      intro l2 _
      apply Finset.sum_congr rfl; intro k2 _
      apply Finset.sum_congr rfl; intro k1 hk1
      rw [Finset.sum_eq_single k1]
      · simp
      · intro b _ hne; simp [Ne.symm hne]
      · intro h; exact absurd hk1 h
    rw [Finset.sum_congr rfl this]
    -- Σ_l2 Σ_k2 Σ_k1 → Σ_k1 Σ_k2 Σ_l2
    rw [sum_comm3]

theorem penSpec2_psd (m1 m2 : ℕ) (la lb : ℚ) (P1 P2 : ℕ → ℕ → ℚ) (hl1 : 0 ≤ la) (hl2 : 0 ≤ lb)
    (h1 : ∀ v, 0 ≤ quadForm m1 P1 v) (h2 : ∀ v, 0 ≤ quadForm m2 P2 v) (v : ℕ → ℚ) :
    0 ≤ quadForm (m1 * m2) (penSpec2 m2 la lb P1 P2) v := by
  rw [quadForm_penSpec2]
  exact add_nonneg (mul_nonneg hl1 (Finset.sum_nonneg fun k2 _ => h1 _))
    (mul_nonneg hl2 (Finset.sum_nonneg fun k1 _ => h2 _))

theorem eq_iff_divmod (m a b : ℕ) (hm : 0 < m) : a = b ↔ (a / m = b / m ∧ a % m = b % m) := by
  constructor
  · rintro rfl; exact ⟨rfl, rfl⟩
  · rintro ⟨h1, h2⟩
    rw [← Nat.div_add_mod a m, ← Nat.div_add_mod b m, h1, h2]

/-- The 3-D tensor penalty is the 2-D construction applied to `P₁` and the 2-D penalty of the
last two dimensions. -/
theorem penSpec3_eq (m2 m3 : ℕ) (hm3 : 0 < m3) (la lb lc : ℚ) (P1 P2 P3 : ℕ → ℕ → ℚ) (K L : ℕ) :
    penSpec3 m2 m3 la lb lc P1 P2 P3 K L
      = penSpec2 (m2 * m3) la 1 P1 (penSpec2 m3 lb lc P2 P3) K L := by
  unfold penSpec3 penSpec2
  simp only []
  have d1 : K % (m2 * m3) / m3 = K / m3 % m2 := by rw [Nat.mul_comm m2 m3]; exact Nat.mod_mul_right_div_self K m3 m2
  have d2 : L % (m2 * m3) / m3 = L / m3 % m2 := by rw [Nat.mul_comm m2 m3]; exact Nat.mod_mul_right_div_self L m3 m2
  have r1 : K % (m2 * m3) % m3 = K % m3 := by rw [Nat.mul_comm m2 m3]; exact Nat.mod_mul_right_mod K m3 m2
  have r2 : L % (m2 * m3) % m3 = L % m3 := by rw [Nat.mul_comm m2 m3]; exact Nat.mod_mul_right_mod L m3 m2
  rw [d1, d2, r1, r2]
  have hδ : (if K % (m2 * m3) = L % (m2 * m3) then (1 : ℚ) else 0)
      = (if K / m3 % m2 = L / m3 % m2 then 1 else 0) * (if K % m3 = L % m3 then 1 else 0) := by
    have := eq_iff_divmod m3 (K % (m2 * m3)) (L % (m2 * m3)) hm3
    rw [d1, d2, r1, r2] at this
    by_cases h : K % (m2 * m3) = L % (m2 * m3)
    · rw [if_pos h, if_pos (this.mp h).1, if_pos (this.mp h).2]; ring
    · rw [if_neg h]
      by_cases ha : K / m3 % m2 = L / m3 % m2
      · by_cases hb : K % m3 = L % m3
        · exact absurd (this.mpr ⟨ha, hb⟩) h
        · rw [if_neg hb]; ring
      · rw [if_neg ha]; ring
  rw [hδ]
  ring

theorem penSpec3_psd (m1 m2 m3 : ℕ) (hm3 : 0 < m3) (la lb lc : ℚ) (P1 P2 P3 : ℕ → ℕ → ℚ)
    (ha : 0 ≤ la) (hb : 0 ≤ lb) (hc : 0 ≤ lc)
    (h1 : ∀ v, 0 ≤ quadForm m1 P1 v) (h2 : ∀ v, 0 ≤ quadForm m2 P2 v) (h3 : ∀ v, 0 ≤ quadForm m3 P3 v)
    (v : ℕ → ℚ) :
    0 ≤ quadForm (m1 * m2 * m3) (penSpec3 m2 m3 la lb lc P1 P2 P3) v := by
  have : penSpec3 m2 m3 la lb lc P1 P2 P3 = penSpec2 (m2 * m3) la 1 P1 (penSpec2 m3 lb lc P2 P3) := by
    funext K L; exact penSpec3_eq m2 m3 hm3 la lb lc P1 P2 P3 K L
  rw [this, Nat.mul_assoc]
  exact penSpec2_psd m1 (m2 * m3) la 1 P1 _ ha (by norm_num) h1
    (fun u => penSpec2_psd m2 m3 lb lc P2 P3 hb hc h2 h3 u) v

theorem kron_fitted (m1 m2 n2 : ℕ) (B1 B2 : ℕ → ℕ → ℚ) (c1 c2 : ℕ → ℚ) (i1 i2 : ℕ) (hi2 : i2 < n2) :
    fitted (m1 * m2) (kronB m2 n2 B1 B2) (kronVec m2 c1 c2) (i1 * n2 + i2)
      = fitted m1 B1 c1 i1 * fitted m2 B2 c2 i2 := by
  unfold fitted kronB kronVec
  rw [sum_range_mul, Finset.sum_mul_sum]
  apply Finset.sum_congr rfl; intro k1 _
  apply Finset.sum_congr rfl; intro k2 hk2
  obtain ⟨a1, a2⟩ := divmod_lin m2 k1 k2 (mem_range.mp hk2)
  rw [Bases.kron_apply _ _ _ _ k1 k2 i1 i2 (mem_range.mp hk2) hi2, a1, a2]
  ring

theorem penSpec2_null (m1 m2 : ℕ) (la lb : ℚ) (P1 P2 : ℕ → ℕ → ℚ) (c1 c2 : ℕ → ℚ)
    (h1 : ∀ k < m1, ∑ l ∈ range m1, P1 k l * c1 l = 0)
    (h2 : ∀ k < m2, ∑ l ∈ range m2, P2 k l * c2 l = 0) (hm2 : 0 < m2)
    (K : ℕ) (hK : K < m1 * m2) :
    ∑ L ∈ range (m1 * m2), penSpec2 m2 la lb P1 P2 K L * kronVec m2 c1 c2 L = 0 := by
  have hk1 : K / m2 < m1 := Nat.div_lt_of_lt_mul (by rw [Nat.mul_comm]; exact hK)
  have hk2 : K % m2 < m2 := Nat.mod_lt _ hm2
  rw [sum_range_mul]
  have hterm : ∀ l1 ∈ range m1, ∀ l2 ∈ range m2,
      penSpec2 m2 la lb P1 P2 K (l1 * m2 + l2) * kronVec m2 c1 c2 (l1 * m2 + l2)
        = la * ((P1 (K / m2) l1 * c1 l1) * (if K % m2 = l2 then c2 l2 else 0))
          + lb * ((if K / m2 = l1 then c1 l1 else 0) * (P2 (K % m2) l2 * c2 l2)) := by
    intro l1 _ l2 hl2
    obtain ⟨a1, a2⟩ := divmod_lin m2 l1 l2 (mem_range.mp hl2)
    unfold penSpec2 kronVec
    rw [a1, a2]
    by_cases e2 : K % m2 = l2 <;> by_cases e1 : K / m2 = l1 <;> simp [e1, e2] <;> ring
  rw [Finset.sum_congr rfl fun l1 h => Finset.sum_congr rfl fun l2 h' => hterm l1 h l2 h']
  simp_rw [Finset.sum_add_distrib, ← Finset.mul_sum]
  rw [← Finset.sum_mul, ← Finset.sum_mul, h1 _ hk1, h2 _ hk2]
  ring

end FDA.GLAM
