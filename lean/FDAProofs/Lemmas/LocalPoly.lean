/-
Helper lemmas for C06/C07: the certified solve really solves, the estimator depends
on its inputs only through the normal equations.
-/
import FDAModel.LocalPoly
import Mathlib.Tactic.Ring
import Mathlib.Tactic.Linarith
import Mathlib.Tactic.FieldSimp
import Mathlib.Algebra.BigOperators.Ring.Finset
import Mathlib.Algebra.Order.BigOperators.Ring.Finset
import Mathlib.Algebra.BigOperators.Field
import Mathlib.Algebra.BigOperators.Group.Finset.Sigma
import Mathlib.Data.Nat.Choose.Sum

namespace FDA.LP
open Finset

/-- `δ_{ab}`-sums collapse. -/
theorem sum_delta_left (p : ℕ) (f : ℕ → ℚ) {a : ℕ} (ha : a < p) :
    ∑ c ∈ range p, (if a = c then 1 else 0) * f c = f a := by
  rw [Finset.sum_eq_single a]
  · simp
  · intro c _ hc; simp [Ne.symm hc]
  · intro h; exact absurd (mem_range.mpr ha) h

/-- What `isInverse` checks. -/
def TwoSidedInv (p : ℕ) (N X : ℕ → ℕ → ℚ) : Prop :=
  (∀ a, a < p → ∀ b, b < p → ∑ c ∈ range p, N a c * X c b = if a = b then 1 else 0) ∧
  (∀ a, a < p → ∀ b, b < p → ∑ c ∈ range p, X a c * N c b = if a = b then 1 else 0)

theorem isInverse_spec {p : ℕ} {N X : ℕ → ℕ → ℚ} (h : isInverse p N X = true) :
    TwoSidedInv p N X := by
  unfold isInverse at h
  rw [List.all_eq_true] at h
  constructor
  · intro a ha b hb
    have h1 := h a (List.mem_range.mpr ha)
    rw [List.all_eq_true] at h1
    have h2 := h1 b (List.mem_range.mpr hb)
    rw [Bool.and_eq_true] at h2
    exact of_decide_eq_true h2.1
  · intro a ha b hb
    have h1 := h a (List.mem_range.mpr ha)
    rw [List.all_eq_true] at h1
    have h2 := h1 b (List.mem_range.mpr hb)
    rw [Bool.and_eq_true] at h2
    exact of_decide_eq_true h2.2

/-- With a right inverse, `X r` solves the system. -/
theorem isSol_of_inverse {p : ℕ} {N X : ℕ → ℕ → ℚ} {r β : ℕ → ℚ} (h : TwoSidedInv p N X)
    (hβ : ∀ a, a < p → β a = ∑ b ∈ range p, X a b * r b) : IsSol p N r β := by
  intro a ha
  have : ∑ b ∈ range p, N a b * β b = ∑ b ∈ range p, N a b * ∑ c ∈ range p, X b c * r c := by
    apply Finset.sum_congr rfl
    intro b hb
    rw [hβ b (mem_range.mp hb)]
  rw [this]
  simp_rw [Finset.mul_sum]
  rw [Finset.sum_comm]
  have : ∀ c ∈ range p, ∑ b ∈ range p, N a b * (X b c * r c) = (if a = c then 1 else 0) * r c := by
    intro c hc
    rw [← h.1 a ha c (mem_range.mp hc), Finset.sum_mul]
    apply Finset.sum_congr rfl
    intro b _; ring
  rw [Finset.sum_congr rfl this]
  exact sum_delta_left p r ha

/-- With a left inverse, every solution is `X r`. -/
theorem sol_unique_of_inverse {p : ℕ} {N X : ℕ → ℕ → ℚ} {r β : ℕ → ℚ} (h : TwoSidedInv p N X)
    (hs : IsSol p N r β) : ∀ a, a < p → β a = ∑ b ∈ range p, X a b * r b := by
  intro a ha
  have h1 : ∑ c ∈ range p, X a c * r c = ∑ c ∈ range p, X a c * ∑ b ∈ range p, N c b * β b := by
    apply Finset.sum_congr rfl
    intro c hc
    rw [hs c (mem_range.mp hc)]
  rw [h1]
  simp_rw [Finset.mul_sum]
  rw [Finset.sum_comm]
  have : ∀ b ∈ range p, ∑ c ∈ range p, X a c * (N c b * β b) = (if a = b then 1 else 0) * β b := by
    intro b hb
    rw [← h.2 a ha b (mem_range.mp hb), Finset.sum_mul]
    apply Finset.sum_congr rfl
    intro c _; ring
  rw [Finset.sum_congr rfl this]
  exact (sum_delta_left p β ha).symm

theorem tabA_congr {n : ℕ} {f g : ℕ → ℚ} (h : ∀ i, i < n → f i = g i) : tabA n f = tabA n g := by
  unfold tabA
  congr 1
  funext i
  exact h i.val i.isLt

theorem tabA2_congr {n m : ℕ} {f g : ℕ → ℕ → ℚ} (h : ∀ i, i < n → ∀ j, j < m → f i j = g i j) :
    tabA2 n m f = tabA2 n m g := by
  unfold tabA2
  congr 1
  funext i
  congr 1
  funext j
  exact h i.val i.isLt j.val j.isLt

/-- The certified solve sees `N` and `r` only on the leading block. -/
theorem certSolve_congr {p : ℕ} {N N' : ℕ → ℕ → ℚ} {r r' : ℕ → ℚ}
    (hN : ∀ a, a < p → ∀ b, b < p → N a b = N' a b) (hr : ∀ a, a < p → r a = r' a) :
    certSolve p N r = certSolve p N' r' := by
  unfold certSolve
  rw [tabA2_congr hN, tabA_congr hr]

/-- Whether the certified solve succeeds depends on the matrix only. -/
theorem certSolve_isSome_rhs (p : ℕ) (N : ℕ → ℕ → ℚ) (r r' : ℕ → ℚ) :
    (certSolve p N r).isSome = (certSolve p N r').isSome := by
  unfold certSolve
  dsimp only
  cases gaussInverse p (tabA2 p p N) with
  | none => rfl
  | some X =>
    by_cases h : isInverse p (rd2 (tabA2 p p N)) (rd2 X) = true
    · simp [h]
    · simp [h]

/-- **Soundness of the certified solve**: an answer is a solution, and the only one. -/
theorem certSolve_spec {p : ℕ} {N : ℕ → ℕ → ℚ} {r : ℕ → ℚ} {β : Array ℚ}
    (h : certSolve p N r = some β) :
    IsSol p N r (rd β) ∧ ∀ β', IsSol p N r β' → ∀ a, a < p → β' a = rd β a := by
  unfold certSolve at h
  dsimp only at h
  cases hg : gaussInverse p (tabA2 p p N) with
  | none => rw [hg] at h; simp at h
  | some X =>
    rw [hg] at h
    by_cases hi : isInverse p (rd2 (tabA2 p p N)) (rd2 X) = true
    · simp only [hi, if_true, Option.some.injEq] at h
      have hinv0 := isInverse_spec hi
      have hinv : TwoSidedInv p N (rd2 X) := by
        constructor
        · intro a ha b hb
          rw [← hinv0.1 a ha b hb]
          apply Finset.sum_congr rfl
          intro c hc
          rw [rd2_tabA2 N ha (mem_range.mp hc)]
        · intro a ha b hb
          rw [← hinv0.2 a ha b hb]
          apply Finset.sum_congr rfl
          intro c hc
          rw [rd2_tabA2 N (mem_range.mp hc) hb]
      have hβ : ∀ a, a < p → rd β a = ∑ b ∈ range p, rd2 X a b * r b := by
        intro a ha
        rw [← h, rd_tabA _ ha]
        apply Finset.sum_congr rfl
        intro b hb
        rw [rd_tabA r (mem_range.mp hb)]
      refine ⟨isSol_of_inverse hinv hβ, ?_⟩
      intro β' hs a ha
      rw [sol_unique_of_inverse hinv hs a ha, hβ a ha]
    · simp [hi] at h

theorem normalMat_tab (n p : ℕ) (w : ℕ → ℚ) (D : ℕ → ℕ → ℚ) {a b : ℕ} (ha : a < p) (hb : b < p) :
    normalMat n (rd (tabA n w)) (rd2 (tabA2 n p D)) a b = normalMat n w D a b := by
  unfold normalMat
  apply Finset.sum_congr rfl
  intro i hi
  have hi := mem_range.mp hi
  rw [rd_tabA w hi, rd2_tabA2 D hi ha, rd2_tabA2 D hi hb]

theorem normalRhs_tab (n p : ℕ) (w : ℕ → ℚ) (D : ℕ → ℕ → ℚ) (y : ℕ → ℚ) {a : ℕ} (ha : a < p) :
    normalRhs n (rd (tabA n w)) (rd2 (tabA2 n p D)) y a = normalRhs n w D y a := by
  unfold normalRhs
  apply Finset.sum_congr rfl
  intro i hi
  have hi := mem_range.mp hi
  rw [rd_tabA w hi, rd2_tabA2 D hi ha]

/-- The tabulation inside `lpEstimate` is transparent. -/
theorem lpEstimate_eq (n p : ℕ) (w : ℕ → ℚ) (D : ℕ → ℕ → ℚ) (y : ℕ → ℚ) :
    lpEstimate n p w D y =
      (certSolve p (normalMat n w D) (normalRhs n w D y)).map fun β => est p unit0 (rd β) := by
  unfold lpEstimate
  have := certSolve_congr (p := p)
    (N := normalMat n (rd (tabA n w)) (rd2 (tabA2 n p D))) (N' := normalMat n w D)
    (r := normalRhs n (rd (tabA n w)) (rd2 (tabA2 n p D)) y) (r' := normalRhs n w D y)
    (fun a ha b hb => normalMat_tab n p w D ha hb) (fun a ha => normalRhs_tab n p w D y ha)
  simp only [this]
  cases certSolve p (normalMat n w D) (normalRhs n w D y) <;> rfl

/-- The estimator depends on the data only through the normal equations. -/
theorem lpEstimate_congr {n n' p : ℕ} {w w' : ℕ → ℚ} {D D' : ℕ → ℕ → ℚ} {y y' : ℕ → ℚ}
    (hN : ∀ a, a < p → ∀ b, b < p → normalMat n w D a b = normalMat n' w' D' a b)
    (hr : ∀ a, a < p → normalRhs n w D y a = normalRhs n' w' D' y' a) :
    lpEstimate n p w D y = lpEstimate n' p w' D' y' := by
  rw [lpEstimate_eq, lpEstimate_eq, certSolve_congr hN hr]

theorem est_unit0 {p : ℕ} (hp : 0 < p) (β : ℕ → ℚ) : est p unit0 β = β 0 := by
  unfold est unit0
  rw [Finset.sum_eq_single 0]
  · simp
  · intro a _ ha; simp [ha]
  · intro h; exact absurd (mem_range.mpr hp) h

/-- **What an answer of the estimator means**: it is the intercept of the unique
solution of the weighted normal equations. -/
theorem lpEstimate_spec {n p : ℕ} {w : ℕ → ℚ} {D : ℕ → ℕ → ℚ} {y : ℕ → ℚ} {v : ℚ} (hp : 0 < p)
    (h : lpEstimate n p w D y = some v) :
    ∃ β : ℕ → ℚ, IsSol p (normalMat n w D) (normalRhs n w D y) β ∧ v = β 0 ∧
      ∀ β', IsSol p (normalMat n w D) (normalRhs n w D y) β' → ∀ a, a < p → β' a = β a := by
  rw [lpEstimate_eq] at h
  cases hc : certSolve p (normalMat n w D) (normalRhs n w D y) with
  | none => rw [hc] at h; simp at h
  | some β =>
    rw [hc] at h
    simp only [Option.map_some, Option.some.injEq] at h
    obtain ⟨hs, hu⟩ := certSolve_spec hc
    exact ⟨rd β, hs, by rw [← h, est_unit0 hp], hu⟩

/-- Success of the estimator does not depend on the responses. -/
theorem lpEstimate_isSome_resp (n p : ℕ) (w : ℕ → ℚ) (D : ℕ → ℕ → ℚ) (y y' : ℕ → ℚ) :
    (lpEstimate n p w D y).isSome = (lpEstimate n p w D y').isSome := by
  rw [lpEstimate_eq, lpEstimate_eq, Option.isSome_map, Option.isSome_map]
  exact certSolve_isSome_rhs p _ _ _

/-- If any solution `β` of the normal equations is known and the estimator answers,
the answer is `β 0`. -/
theorem lpEstimate_eq_of_sol {n p : ℕ} {w : ℕ → ℚ} {D : ℕ → ℕ → ℚ} {y : ℕ → ℚ} {v : ℚ} {β : ℕ → ℚ}
    (hp : 0 < p) (h : lpEstimate n p w D y = some v)
    (hs : IsSol p (normalMat n w D) (normalRhs n w D y) β) : v = β 0 := by
  obtain ⟨β₀, _, hv, hu⟩ := lpEstimate_spec hp h
  rw [hv, hu β hs 0 hp]

theorem normalMat_mulVec (n p : ℕ) (w : ℕ → ℚ) (D : ℕ → ℕ → ℚ) (β : ℕ → ℚ) (a : ℕ) :
    ∑ b ∈ range p, normalMat n w D a b * β b =
      ∑ i ∈ range n, D i a * w i * ∑ b ∈ range p, D i b * β b := by
  unfold normalMat
  simp_rw [Finset.sum_mul]
  rw [Finset.sum_comm]
  apply Finset.sum_congr rfl
  intro i _
  rw [Finset.mul_sum]
  apply Finset.sum_congr rfl
  intro b _
  ring

/-- Normal equations in residual form. -/
theorem isSol_iff (n p : ℕ) (w : ℕ → ℚ) (D : ℕ → ℕ → ℚ) (y β : ℕ → ℚ) :
    IsSol p (normalMat n w D) (normalRhs n w D y) β ↔
      ∀ a, a < p → ∑ i ∈ range n, D i a * w i * (∑ b ∈ range p, D i b * β b) =
        ∑ i ∈ range n, D i a * w i * y i := by
  unfold IsSol
  constructor
  · intro h a ha
    rw [← normalMat_mulVec]
    exact h a ha
  · intro h a ha
    rw [normalMat_mulVec]
    exact h a ha

theorem normalRhs_linear (n : ℕ) (w : ℕ → ℚ) (D : ℕ → ℕ → ℚ) (y₁ y₂ : ℕ → ℚ) (a b : ℚ) (c : ℕ) :
    normalRhs n w D (fun i => a * y₁ i + b * y₂ i) c =
      a * normalRhs n w D y₁ c + b * normalRhs n w D y₂ c := by
  unfold normalRhs
  rw [Finset.mul_sum, Finset.mul_sum, ← Finset.sum_add_distrib]
  apply Finset.sum_congr rfl
  intro i _
  ring

/-- Pointwise equal weights, design and responses give the same estimate. -/
theorem lpEstimate_congr_pt {n p : ℕ} {w w' : ℕ → ℚ} {D D' : ℕ → ℕ → ℚ} {y y' : ℕ → ℚ}
    (hw : ∀ i, i < n → w i = w' i) (hD : ∀ i, i < n → ∀ a, a < p → D i a = D' i a)
    (hy : ∀ i, i < n → y i = y' i) : lpEstimate n p w D y = lpEstimate n p w' D' y' := by
  apply lpEstimate_congr
  · intro a ha b hb
    unfold normalMat
    apply Finset.sum_congr rfl
    intro i hi
    have hi := mem_range.mp hi
    rw [hw i hi, hD i hi a ha, hD i hi b hb]
  · intro a ha
    unfold normalRhs
    apply Finset.sum_congr rfl
    intro i hi
    have hi := mem_range.mp hi
    rw [hw i hi, hD i hi a ha, hy i hi]

/-- Taylor coefficients of the bivariate polynomial `Σ c_{k₁k₂} x₁^{k₁} x₂^{k₂}` about
`(x01, x02)` in units of `h`, indexed like the columns of `design2`. -/
def taylor2 (d : ℕ) (c : ℕ → ℕ → ℚ) (h x01 x02 : ℚ) (a : ℕ) : ℚ :=
  let e := (monos2 d).getD a (0, 0)
  h ^ (e.1 + e.2) * ∑ k1 ∈ range (d + 1), ∑ k2 ∈ range (d + 1 - k1),
    c k1 k2 * (Nat.choose k1 e.1 : ℚ) * (Nat.choose k2 e.2 : ℚ) * x01 ^ (k1 - e.1) * x02 ^ (k2 - e.2)


theorem sum_range_getD {α : Type} (l : List α) (f : α → ℚ) (dflt : α) :
    ∑ a ∈ range l.length, f (l.getD a dflt) = (l.map f).sum := by
  induction l with
  | nil => simp
  | cons x l ih =>
    rw [List.length_cons, Finset.sum_range_succ', List.map_cons, List.sum_cons, ← ih, add_comm]
    simp [List.getD]

/-- Sum over the column indices of the bivariate design = sum over the exponent pairs. -/
theorem sum_columns_eq_sum_monos (d : ℕ) (f : ℕ × ℕ → ℚ) (hnd : (monos2 d).Nodup) :
    ∑ a ∈ range (monos2 d).length, f ((monos2 d).getD a (0, 0)) = ∑ e ∈ (monos2 d).toFinset, f e := by
  rw [sum_range_getD, List.sum_toFinset f hnd]

/-- Taylor coefficient of `x₁^k₁ x₂^k₂` on the centred monomial `z₁^e₁ z₂^e₂` (`x = h z + x₀`). -/
def taylorCoef (h x01 x02 : ℚ) (e k : ℕ × ℕ) : ℚ :=
  (Nat.choose k.1 e.1 : ℚ) * (Nat.choose k.2 e.2 : ℚ) * h ^ (e.1 + e.2) * x01 ^ (k.1 - e.1) * x02 ^ (k.2 - e.2)

end FDA.LP
