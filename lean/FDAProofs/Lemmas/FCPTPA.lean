import FDAModel.FCPTPA
import Mathlib.Tactic.Ring
import Mathlib.Tactic.Linarith
import Mathlib.Tactic.FieldSimp
import Mathlib.Algebra.BigOperators.Ring.Finset
import Mathlib.Algebra.Order.BigOperators.Ring.Finset
import Mathlib.Algebra.BigOperators.Field

namespace FDA.FCPTPA
open Finset

variable {V : Type}

/-! ## controller -/

@[simp] theorem body_nIter (update : V → V) (max : ℕ) (adapt : Bool) (s : Ctl V) :
    (body update max adapt s).nIter = s.nIter + 1 := by
  simp only [body]; split_ifs <;> rfl

theorem body_tol (update : V → V) (max : ℕ) (adapt : Bool) (s : Ctl V) :
    (body update max adapt s).tol = s.tol ∨
      ((body update max adapt s).tol = 10 * s.tol ∧ adapt = true ∧ max < s.nIter + 1 ∧ s.nIter + 1 < 2 * max) := by
  simp only [body]
  split_ifs with h1 h2
  · right
    simp only [Bool.and_eq_true, decide_eq_true_eq] at h2
    exact ⟨rfl, h2.1, h1, h2.2⟩
  · left; rfl
  · left; rfl

theorem body_tol_nonneg (update : V → V) (max : ℕ) (adapt : Bool) (s : Ctl V) (h : 0 ≤ s.tol) :
    0 ≤ (body update max adapt s).tol := by
  rcases body_tol update max adapt s with h1 | ⟨h1, _⟩ <;> rw [h1] <;> linarith

theorem run_succ_of_some (notConv : V → V → ℚ → Bool) (update : V → V) (max : ℕ) (adapt : Bool) :
    ∀ (fuel : ℕ) (s r : Ctl V), run notConv update max adapt fuel s = some r →
      run notConv update max adapt (fuel + 1) s = some r := by
  intro fuel
  induction fuel with
  | zero => intro s r h; simp [run] at h
  | succ f ih =>
    intro s r h
    rw [run] at h ⊢
    by_cases hc : notConv s.old s.cur s.tol = true
    · simp only [hc, if_true] at h ⊢; exact ih _ _ h
    · simp only [hc] at h ⊢; exact h

theorem run_add_of_some (notConv : V → V → ℚ → Bool) (update : V → V) (max : ℕ) (adapt : Bool)
    (fuel d : ℕ) (s r : Ctl V) (h : run notConv update max adapt fuel s = some r) :
    run notConv update max adapt (fuel + d) s = some r := by
  induction d with
  | zero => exact h
  | succ d ih => exact run_succ_of_some notConv update max adapt _ _ _ ih

/-- Invariants carried through the loop. -/
theorem run_invariant (notConv : V → V → ℚ → Bool) (update : V → V) (max : ℕ) (adapt : Bool)
    (P : Ctl V → Prop)
    (hstep : ∀ s, P s → notConv s.old s.cur s.tol = true → P (body update max adapt s)) :
    ∀ (fuel : ℕ) (s r : Ctl V), P s → run notConv update max adapt fuel s = some r → P r := by
  intro fuel
  induction fuel with
  | zero => intro s r _ h; simp [run] at h
  | succ f ih =>
    intro s r hs h
    rw [run] at h
    by_cases hc : notConv s.old s.cur s.tol = true
    · simp only [hc, if_true] at h; exact ih _ _ (hstep s hs hc) h
    · simp only [hc] at h
      cases h; exact hs

/-- On exit the loop condition is false. -/
theorem run_exit (notConv : V → V → ℚ → Bool) (update : V → V) (max : ℕ) (adapt : Bool) :
    ∀ (fuel : ℕ) (s r : Ctl V), run notConv update max adapt fuel s = some r →
      notConv r.old r.cur r.tol = false := by
  intro fuel
  induction fuel with
  | zero => intro s r h; simp [run] at h
  | succ f ih =>
    intro s r h
    rw [run] at h
    by_cases hc : notConv s.old s.cur s.tol = true
    · simp only [hc, if_true] at h; exact ih _ _ h
    · simp only [hc] at h
      cases h; simpa using hc

/-- Core of the termination proof: from a state that is either forced (`old = cur`) or
still inside the iteration budget, enough fuel yields a result within `2·max+1`. -/
theorem run_terminates_aux (notConv : V → V → ℚ → Bool) (update : V → V) (max : ℕ) (adapt : Bool)
    (hrefl : ∀ v tol, 0 ≤ tol → notConv v v tol = false) :
    ∀ (fuel : ℕ) (s : Ctl V), 0 ≤ s.tol →
      ((s.old = s.cur ∧ s.nIter ≤ 2 * max + 1 ∧ 1 ≤ fuel) ∨
       ((s.nIter ≤ max ∨ (adapt = true ∧ s.nIter < 2 * max)) ∧ 2 * max + 2 ≤ s.nIter + fuel)) →
      ∃ r, run notConv update max adapt fuel s = some r ∧ r.nIter ≤ 2 * max + 1 ∧
        s.nIter ≤ r.nIter ∧ 0 ≤ r.tol := by
  intro fuel
  induction fuel with
  | zero =>
    intro s _ h
    rcases h with ⟨_, _, h⟩ | ⟨h1, h2⟩
    · omega
    · rcases h1 with h1 | ⟨_, h1⟩ <;> omega
  | succ f ih =>
    intro s htol h
    rw [run]
    by_cases hc : notConv s.old s.cur s.tol = true
    · simp only [hc, if_true]
      rcases h with ⟨he, _, _⟩ | ⟨h1, h2⟩
      · rw [he, hrefl _ _ htol] at hc; cases hc
      · have hb := body_tol_nonneg update max adapt s htol
        have key : ((body update max adapt s).old = (body update max adapt s).cur ∧
              (body update max adapt s).nIter ≤ 2 * max + 1 ∧ 1 ≤ f) ∨
            (((body update max adapt s).nIter ≤ max ∨
              (adapt = true ∧ (body update max adapt s).nIter < 2 * max)) ∧
              2 * max + 2 ≤ (body update max adapt s).nIter + f) := by
          simp only [body]
          split_ifs with g1 g2
          · right
            simp only [Bool.and_eq_true, decide_eq_true_eq] at g2
            exact ⟨Or.inr ⟨g2.1, g2.2⟩, by simp only; omega⟩
          · left
            refine ⟨rfl, ?_, ?_⟩
            · rcases h1 with h1 | ⟨_, h1⟩ <;> simp only <;> omega
            · rcases h1 with h1 | ⟨_, h1⟩ <;> omega
          · right
            exact ⟨Or.inl (by simp only; omega), by simp only; omega⟩
        obtain ⟨r, hr, b1, b2, b3⟩ := ih _ hb key
        refine ⟨r, hr, b1, ?_, b3⟩
        rw [body_nIter] at b2; omega
    · simp only [hc]
      refine ⟨s, rfl, ?_, le_refl _, htol⟩
      rcases h with ⟨_, h, _⟩ | ⟨h1, _⟩
      · exact h
      · rcases h1 with h1 | ⟨_, h1⟩ <;> omega

/-- Exact count when the convergence test never succeeds on distinct vectors: the loop
runs to the forced exit at `N` (characterised by `hcont`/`hstop`). -/
theorem run_worst_aux (notConv : V → V → ℚ → Bool) (update : V → V) (max : ℕ) (adapt : Bool)
    (hne : ∀ o c t, o ≠ c → notConv o c t = true)
    (hrefl : ∀ v tol, 0 ≤ tol → notConv v v tol = false)
    (hupd : ∀ v, update v ≠ v) (N : ℕ)
    (hcont : ∀ n, n + 1 < N → (n + 1 ≤ max ∨ (adapt = true ∧ n + 1 < 2 * max)))
    (hstop : ∀ n, n + 1 = N → max < n + 1 ∧ ¬ (adapt = true ∧ n + 1 < 2 * max)) :
    ∀ (fuel : ℕ) (s : Ctl V), 0 ≤ s.tol →
      ((s.old = s.cur ∧ s.nIter = N ∧ 1 ≤ fuel) ∨
       (s.old ≠ s.cur ∧ s.nIter < N ∧ N + 1 ≤ s.nIter + fuel)) →
      ∃ r, run notConv update max adapt fuel s = some r ∧ r.nIter = N := by
  intro fuel
  induction fuel with
  | zero =>
    intro s _ h
    rcases h with ⟨_, _, h⟩ | ⟨_, h1, h2⟩ <;> omega
  | succ f ih =>
    intro s htol h
    rw [run]
    rcases h with ⟨he, hn, _⟩ | ⟨hd, hn, hf⟩
    · have : notConv s.old s.cur s.tol = false := by rw [he]; exact hrefl _ _ htol
      simp only [this]
      exact ⟨s, by simp, hn⟩
    · have hc : notConv s.old s.cur s.tol = true := hne _ _ _ hd
      simp only [hc, if_true]
      have hb := body_tol_nonneg update max adapt s htol
      apply ih _ hb
      by_cases hlast : s.nIter + 1 = N
      · left
        obtain ⟨g1, g2⟩ := hstop _ hlast
        have g2' : (adapt && decide (s.nIter + 1 < 2 * max)) = false := by
          rw [Bool.eq_false_iff]; intro hh
          simp only [Bool.and_eq_true, decide_eq_true_eq] at hh
          exact g2 hh
        simp only [body, g1, if_true, g2']
        refine ⟨rfl, hlast, by omega⟩
      · right
        have hlt : s.nIter + 1 < N := by omega
        refine ⟨?_, by rw [body_nIter]; exact hlt, by rw [body_nIter]; omega⟩
        simp only [body]
        split_ifs with g1 g2
        · exact fun h => hupd _ h.symm
        · exfalso
          rcases hcont _ hlt with h1 | ⟨h1, h2⟩
          · omega
          · apply g2; simp only [Bool.and_eq_true, decide_eq_true_eq]; exact ⟨h1, h2⟩
        · exact fun h => hupd _ h.symm

/-- Tolerance invariant: the tolerance differs from the initial one only after an
adaptation, which needs `adapt` and `n_iter > max`. -/
def TolInv (tol0 : ℚ) (max : ℕ) (adapt : Bool) (s : Ctl V) : Prop :=
  s.tol = tol0 ∨ (adapt = true ∧ max < s.nIter)

theorem tolInv_body (update : V → V) (tol0 : ℚ) (max : ℕ) (adapt : Bool) (s : Ctl V)
    (h : TolInv tol0 max adapt s) : TolInv tol0 max adapt (body update max adapt s) := by
  unfold TolInv at *
  rcases h with h | ⟨ha, hn⟩
  · rcases body_tol update max adapt s with h1 | ⟨_, ha, hm, _⟩
    · left; rw [h1, h]
    · right; exact ⟨ha, by rw [body_nIter]; exact hm⟩
  · right; exact ⟨ha, by rw [body_nIter]; omega⟩

theorem resetTol_of_inv (tol0 : ℚ) (max : ℕ) (adapt : Bool) (s : Ctl V)
    (h : TolInv tol0 max adapt s) : resetTol adapt max tol0 s = tol0 := by
  unfold resetTol
  rcases h with h | ⟨ha, hn⟩
  · split_ifs <;> simp [h]
  · have : (adapt && decide (max ≤ s.nIter)) = true := by
      simp only [Bool.and_eq_true, decide_eq_true_eq]; exact ⟨ha, by omega⟩
    simp [this]

/-! ## algebra -/

theorem ip3_congr_left {n m₁ m₂ : ℕ} {A A' : ℕ → ℕ → ℕ → ℚ} (B : ℕ → ℕ → ℕ → ℚ)
    (h : ∀ i < n, ∀ j < m₁, ∀ k < m₂, A i j k = A' i j k) : ip3 n m₁ m₂ A B = ip3 n m₁ m₂ A' B := by
  unfold ip3
  apply Finset.sum_congr rfl; intro i hi
  apply Finset.sum_congr rfl; intro j hj
  apply Finset.sum_congr rfl; intro k hk
  rw [h i (mem_range.mp hi) j (mem_range.mp hj) k (mem_range.mp hk)]

theorem ip3_comm (n m₁ m₂ : ℕ) (A B : ℕ → ℕ → ℕ → ℚ) : ip3 n m₁ m₂ A B = ip3 n m₁ m₂ B A := by
  unfold ip3
  apply Finset.sum_congr rfl; intro i _
  apply Finset.sum_congr rfl; intro j _
  apply Finset.sum_congr rfl; intro k _
  ring

theorem ip3_congr {n m₁ m₂ : ℕ} {A A' B B' : ℕ → ℕ → ℕ → ℚ}
    (hA : ∀ i < n, ∀ j < m₁, ∀ k < m₂, A i j k = A' i j k)
    (hB : ∀ i < n, ∀ j < m₁, ∀ k < m₂, B i j k = B' i j k) :
    ip3 n m₁ m₂ A B = ip3 n m₁ m₂ A' B' := by
  rw [ip3_congr_left B hA, ip3_comm, ip3_congr_left A' hB, ip3_comm]

theorem ip3_lin_left (n m₁ m₂ : ℕ) (A B C : ℕ → ℕ → ℕ → ℚ) (a b : ℚ) :
    ip3 n m₁ m₂ (fun i j k => a * A i j k + b * B i j k) C
      = a * ip3 n m₁ m₂ A C + b * ip3 n m₁ m₂ B C := by
  unfold ip3
  simp only [Finset.mul_sum, ← Finset.sum_add_distrib]
  apply Finset.sum_congr rfl; intro i _
  apply Finset.sum_congr rfl; intro j _
  apply Finset.sum_congr rfl; intro k _
  ring

theorem ip3_lin_right (n m₁ m₂ : ℕ) (A B C : ℕ → ℕ → ℕ → ℚ) (a b : ℚ) :
    ip3 n m₁ m₂ C (fun i j k => a * A i j k + b * B i j k)
      = a * ip3 n m₁ m₂ C A + b * ip3 n m₁ m₂ C B := by
  rw [ip3_comm, ip3_lin_left, ip3_comm n m₁ m₂ A, ip3_comm n m₁ m₂ B]

/-- `‖R − a·T‖² = ‖R‖² − 2a⟨R,T⟩ + a²‖T‖²`. -/
theorem energy_sub_smul (n m₁ m₂ : ℕ) (R T : ℕ → ℕ → ℕ → ℚ) (a : ℚ) :
    energy n m₁ m₂ (fun i j k => R i j k - a * T i j k)
      = energy n m₁ m₂ R - 2 * a * ip3 n m₁ m₂ R T + a ^ 2 * ip3 n m₁ m₂ T T := by
  unfold energy
  have e : (fun i j k => R i j k - a * T i j k) = fun i j k => 1 * R i j k + (-a) * T i j k := by
    funext i j k; ring
  rw [e, ip3_lin_left, ip3_lin_right, ip3_lin_right, ip3_comm n m₁ m₂ T R]
  ring

theorem energy_nonneg (n m₁ m₂ : ℕ) (R : ℕ → ℕ → ℕ → ℚ) : 0 ≤ energy n m₁ m₂ R := by
  unfold energy ip3
  apply Finset.sum_nonneg; intro i _
  apply Finset.sum_nonneg; intro j _
  apply Finset.sum_nonneg; intro k _
  exact mul_self_nonneg _

/-- The squared norm of a rank-one tensor factorises. -/
theorem ip3_outer3_self (n m₁ m₂ : ℕ) (T : Comp) :
    ip3 n m₁ m₂ (outer3 T) (outer3 T) = tau n m₁ m₂ T := by
  unfold ip3 outer3 tau dot
  have h : ∀ i j k, T.u i * T.v j * T.w k * (T.u i * T.v j * T.w k)
      = (T.u i * T.u i) * ((T.v j * T.v j) * (T.w k * T.w k)) := by intro i j k; ring
  simp_rw [h, ← Finset.mul_sum, ← Finset.sum_mul]
  ring

theorem rd3_deflate1 {n m₁ m₂ : ℕ} (R : T3) (T : Comp) {i j k : ℕ} (hi : i < n) (hj : j < m₁)
    (hk : k < m₂) :
    rd3 (deflate1 n m₁ m₂ R T) i j k = rd3 R i j k - coef n m₁ m₂ (rd3 R) T * outer3 T i j k := by
  unfold deflate1
  rw [rd3_tab3 _ hi hj hk]

/-- General energy step (no unit-norm assumption): `‖R'‖² = ‖R‖² − c²(2 − τ)`. -/
theorem energy_deflate1 (n m₁ m₂ : ℕ) (R : T3) (T : Comp) :
    energy n m₁ m₂ (rd3 (deflate1 n m₁ m₂ R T))
      = energy n m₁ m₂ (rd3 R) - coef n m₁ m₂ (rd3 R) T ^ 2 * (2 - tau n m₁ m₂ T) := by
  have h : energy n m₁ m₂ (rd3 (deflate1 n m₁ m₂ R T))
      = energy n m₁ m₂ (fun i j k => rd3 R i j k - coef n m₁ m₂ (rd3 R) T * outer3 T i j k) := by
    unfold energy
    exact ip3_congr (fun i hi j hj k hk => rd3_deflate1 R T hi hj hk)
      (fun i hi j hj k hk => rd3_deflate1 R T hi hj hk)
  rw [h, energy_sub_smul, ip3_outer3_self]
  unfold coef
  ring

theorem coef_deflate1 (n m₁ m₂ : ℕ) (R : T3) (T : Comp) :
    coef n m₁ m₂ (rd3 (deflate1 n m₁ m₂ R T)) T
      = coef n m₁ m₂ (rd3 R) T * (1 - tau n m₁ m₂ T) := by
  have h : coef n m₁ m₂ (rd3 (deflate1 n m₁ m₂ R T)) T
      = ip3 n m₁ m₂ (fun i j k => 1 * rd3 R i j k + (-(coef n m₁ m₂ (rd3 R) T)) * outer3 T i j k) (outer3 T) := by
    unfold coef
    apply ip3_congr_left
    intro i hi j hj k hk
    rw [rd3_deflate1 R T hi hj hk]; unfold coef; ring
  rw [h, ip3_lin_left, ip3_outer3_self]
  unfold coef
  ring

theorem sum_resid (n m₁ m₂ : ℕ) (X : T3) (T : ℕ → Comp) (K : ℕ) {i j l : ℕ} (hi : i < n)
    (hj : j < m₁) (hl : l < m₂) :
    rd3 (resid n m₁ m₂ X T K) i j l
      = rd3 X i j l - ∑ k ∈ range K, coefAt n m₁ m₂ X T k * outer3 (T k) i j l := by
  induction K with
  | zero => simp [resid]
  | succ K ih =>
    rw [resid, rd3_deflate1 _ _ hi hj hl, ih, Finset.sum_range_succ]
    unfold coefAt
    ring

theorem popVar_mul (n : ℕ) (x : ℕ → ℚ) (a : ℚ) :
    popVar n (fun i => x i * a) = popVar n x * a ^ 2 := by
  unfold popVar
  have h : ∑ i ∈ range n, x i * a = (∑ i ∈ range n, x i) * a := (Finset.sum_mul _ _ _).symm
  have e : ∑ i ∈ range n, (x i * a - (∑ i ∈ range n, x i * a) / (n : ℚ)) ^ 2
      = (∑ i ∈ range n, (x i - (∑ i ∈ range n, x i) / (n : ℚ)) ^ 2) * a ^ 2 := by
    rw [Finset.sum_mul]
    apply Finset.sum_congr rfl; intro i _
    rw [h]; ring
  rw [e]; ring

theorem trapz_smul (n : ℕ) (t y : ℕ → ℚ) (c : ℚ) :
    trapz n t (fun j => c * y j) = c * trapz n t y := by
  unfold trapz
  rw [Finset.mul_sum]
  apply Finset.sum_congr rfl; intro j _
  ring

theorem integrate2_smul (n₁ n₂ : ℕ) (t₁ t₂ : ℕ → ℚ) (Y : ℕ → ℕ → ℚ) (c : ℚ) :
    integrate2 n₁ n₂ t₁ t₂ (fun a b => c * Y a b) = c * integrate2 n₁ n₂ t₁ t₂ Y := by
  unfold integrate2
  simp_rw [trapz_smul]

end FDA.FCPTPA
