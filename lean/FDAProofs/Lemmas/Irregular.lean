import FDAModel.Irregular
import FDAProofs.Lemmas.Tabular
import Mathlib.Tactic.Ring
import Mathlib.Tactic.Linarith
import Mathlib.Tactic.FieldSimp
import Mathlib.Algebra.Order.Field.Rat
import Mathlib.Algebra.BigOperators.Group.List.Basic
import Mathlib.Data.List.Sort

/-! Helper lemmas for C15 (irregular data in two encodings). -/
namespace FDA.Irr
open FDA.Tab


theorem rg_none' {α : Type} (a : α) (g : List α) (row : Row) :
    ragged (a :: g) (none :: row) = ragged g row := by
  simp [ragged]

theorem rg_some' {α : Type} (a : α) (g : List α) (y : ℚ) (row : Row) :
    ragged (a :: g) (some y :: row) = (a, y) :: ragged g row := by
  simp [ragged]

theorem ragged_nil_left {α : Type} (row : Row) : ragged ([] : List α) row = [] := by
  simp [ragged]

theorem ragged_nil_right {α : Type} (g : List α) : ragged g [] = [] := by
  simp [ragged]

/-- to_long of one curve -/
theorem toLong_curve (g : List ℚ) (r : Row) (i : ℕ) :
    ((g.zip r).filterMap fun (x, v) => v.map fun y => (x, i, y)) =
      (ragged g r).map fun (x, y) => (x, i, y) := by
  unfold ragged
  rw [List.map_filterMap]
  congr 1
  funext p
  obtain ⟨x, v⟩ := p
  cases v <;> rfl

theorem toLong_enc (g : List ℚ) (rows : List Row) (i : ℕ) :
    toLongNaN i (rows.map (encNaN g)) = toLongRag i (rows.map (encRagged g)) := by
  induction rows generalizing i with
  | nil => rfl
  | cons r rows ih =>
    simp only [List.map_cons, toLongNaN, toLongRag, encNaN, encRagged]
    rw [toLong_curve, ih]

theorem ps_mat_enc (B : ℕ → ℚ → ℚ) (g : List ℚ) (r : Row) (k l : ℕ) :
    psMatNaN B (encNaN g r) k l = psMatRag B (encRagged g r) k l := by
  unfold psMatNaN psMatRag encNaN encRagged
  simp only
  induction g generalizing r with
  | nil => simp [ragged]
  | cons a g ih =>
    cases r with
    | nil => simp [ragged]
    | cons v r =>
      cases v with
      | none =>
        rw [rg_none']
        simp only [List.zip_cons_cons, List.map_cons, List.sum_cons]
        rw [ih r]; simp [psW]
      | some y =>
        rw [rg_some']
        simp only [List.zip_cons_cons, List.map_cons, List.sum_cons]
        rw [ih r]; simp [psW]

theorem ps_rhs_enc (B : ℕ → ℚ → ℚ) (g : List ℚ) (r : Row) (k : ℕ) :
    psRhsNaN B (encNaN g r) k = psRhsRag B (encRagged g r) k := by
  unfold psRhsNaN psRhsRag encNaN encRagged
  simp only
  induction g generalizing r with
  | nil => simp [ragged]
  | cons a g ih =>
    cases r with
    | nil => simp [ragged]
    | cons v r =>
      cases v with
      | none =>
        rw [rg_none']
        simp only [List.zip_cons_cons, List.map_cons, List.sum_cons]
        rw [ih r]; simp [psW]
      | some y =>
        rw [rg_some']
        simp only [List.zip_cons_cons, List.map_cons, List.sum_cons]
        rw [ih r]; simp [psW]


theorem rg_none {a : ℚ} {g : List ℚ} {row : Row} : ragged (a :: g) (none :: row) = ragged g row := by
  simp [ragged]
theorem rg_some {a : ℚ} {g : List ℚ} {y : ℚ} {row : Row} :
    ragged (a :: g) (some y :: row) = (a, y) :: ragged g row := by
  simp [ragged]


/-- `np.interp` returns the sample value at a sample point (strictly increasing abscissae). -/
theorem interp_at_sample : ∀ (c : List (ℚ × ℚ)), (c.map Prod.fst).Pairwise (· < ·) →
    ∀ x y, (x, y) ∈ c → interp c x = y
  | [], _, x, y, h => by cases h
  | [(x0, y0)], _, x, y, h => by
    simp only [List.mem_singleton, Prod.mk.injEq] at h
    obtain ⟨rfl, rfl⟩ := h
    rfl
  | (x0, y0) :: (x1, y1) :: rest, hs, x, y, h => by
    have hs' : (((x1, y1) :: rest).map Prod.fst).Pairwise (· < ·) := by
      simp only [List.map_cons] at hs ⊢
      exact (List.pairwise_cons.mp hs).2
    have h01 : x0 < x1 := by
      simp only [List.map_cons] at hs
      exact (List.pairwise_cons.mp hs).1 x1 (by simp)
    unfold interp
    rcases List.mem_cons.mp h with h | h
    · simp only [Prod.mk.injEq] at h
      obtain ⟨rfl, rfl⟩ := h
      simp
    · have hx1 : x1 ≤ x := by
        rcases List.mem_cons.mp h with h | h
        · simp only [Prod.mk.injEq] at h; exact le_of_eq h.1.symm
        · simp only [List.map_cons] at hs'
          have := (List.pairwise_cons.mp hs').1 x (List.mem_map.mpr ⟨(x, y), h, rfl⟩)
          exact le_of_lt this
      have hx0 : ¬ x ≤ x0 := by intro hh; linarith
      rw [if_neg hx0]
      by_cases hle : x ≤ x1
      · have hxe : x = x1 := le_antisymm hle hx1
        subst hxe
        have hy : y = y1 := by
          rcases List.mem_cons.mp h with h | h
          · simp only [Prod.mk.injEq] at h; exact h.2
          · exfalso
            simp only [List.map_cons] at hs'
            have := (List.pairwise_cons.mp hs').1 x (List.mem_map.mpr ⟨(x, y), h, rfl⟩)
            exact lt_irrefl _ this
        subst hy
        rw [if_pos le_rfl]
        have hne : x - x0 ≠ 0 := by intro hh; linarith
        field_simp
        ring
      · rw [if_neg hle]
        exact interp_at_sample _ hs' x y h

/-- `a[mask]` with an all-true mask is `a`. -/
theorem select_all_true (μ : List ℚ) : ∀ (d : List ℚ), d.length = μ.length →
    select (d.map fun _ => true) μ = μ := by
  induction μ with
  | nil => intro d h; cases d <;> simp_all [select]
  | cons m μ ih =>
    intro d h
    cases d with
    | nil => simp at h
    | cons x d =>
      simp only [List.map_cons, select]
      rw [ih d (by simpa using h)]

theorem isin_self_of_subset (d P : List ℚ) (h : ∀ x ∈ d, x ∈ P) : isin d P = d.map fun _ => true := by
  unfold isin
  apply List.map_congr_left
  intro x hx
  simp [h x hx]

/-- Decoding lemma: the ragged curve, placed back on the grid through the `np.isin`
mask, is the original row.  Generalised over the list `P` that the mask tests against. -/
theorem scatter_ragged (g : List ℚ) (r : Row) (P : List ℚ) (hlen : r.length = g.length)
    (hnd : g.Nodup) (hP : ∀ x ∈ g, x ∈ P ↔ x ∈ (ragged g r).map Prod.fst) :
    scatter (isin g P) ((ragged g r).map Prod.snd) = r := by
  induction g generalizing r with
  | nil =>
    cases r with
    | nil => simp [isin, scatter]
    | cons v r => simp at hlen
  | cons a g ih =>
    cases r with
    | nil => simp at hlen
    | cons v r =>
      have hnd' := (List.nodup_cons.mp hnd).2
      have ha : a ∉ g := (List.nodup_cons.mp hnd).1
      have hsub := ragged_fst_sublist g r
      have ha' : a ∉ (ragged g r).map Prod.fst := fun h => ha (hsub.subset h)
      have hlen' : r.length = g.length := by simpa using hlen
      cases v with
      | none =>
        have hPa : a ∉ P := by
          intro h
          have := (hP a (by simp)).mp h
          rw [rg_none] at this
          exact ha' this
        have hP' : ∀ x ∈ g, x ∈ P ↔ x ∈ (ragged g r).map Prod.fst := by
          intro x hx
          have := hP x (List.mem_cons_of_mem _ hx)
          rw [rg_none] at this
          exact this
        unfold isin at *
        simp only [List.map_cons, hPa, decide_false]
        rw [rg_none]
        simp only [scatter]
        rw [ih r hlen' hnd' hP']
      | some y =>
        have hPa : a ∈ P := by
          apply (hP a (by simp)).mpr
          rw [rg_some]
          simp
        have hP' : ∀ x ∈ g, x ∈ P ↔ x ∈ (ragged g r).map Prod.fst := by
          intro x hx
          have := hP x (List.mem_cons_of_mem _ hx)
          rw [rg_some] at this
          simp only [List.map_cons, List.mem_cons] at this
          have hne : x ≠ a := fun h => ha (h ▸ hx)
          constructor
          · intro h
            rcases this.mp h with h | h
            · exact absurd h hne
            · exact h
          · intro h; exact this.mpr (Or.inr h)
        unfold isin at *
        simp only [List.map_cons, hPa, decide_true]
        rw [rg_some]
        simp only [List.map_cons, scatter]
        rw [ih r hlen' hnd' hP']



/-- Centring: generalised over the list `P`/`Q` the masks test against. -/
theorem center_ragged (g : List ℚ) (r : Row) (μ : List ℚ) (P Q : List ℚ)
    (hlen : r.length = g.length) (hμ : μ.length = g.length) (hnd : g.Nodup)
    (hP : ∀ x ∈ g, x ∈ P) (hQ : ∀ x ∈ g, x ∈ Q ↔ x ∈ (ragged g r).map Prod.fst) :
    ragged g (List.zipWith (fun v m => v.map (· - m)) r (select (isin g P) μ)) =
      List.zipWith (fun p m => (p.1, p.2 - m)) (ragged g r) (select (isin g Q) μ) := by
  induction g generalizing r μ with
  | nil =>
    cases r with
    | nil => simp [ragged]
    | cons v r => simp at hlen
  | cons a g ih =>
    cases r with
    | nil => simp at hlen
    | cons v r =>
      cases μ with
      | nil => simp at hμ
      | cons m μ =>
        have hnd' := (List.nodup_cons.mp hnd).2
        have ha : a ∉ g := (List.nodup_cons.mp hnd).1
        have hsub := ragged_fst_sublist g r
        have ha' : a ∉ (ragged g r).map Prod.fst := fun h => ha (hsub.subset h)
        have hlen' : r.length = g.length := by simpa using hlen
        have hμ' : μ.length = g.length := by simpa using hμ
        have hPa : a ∈ P := hP a (by simp)
        have hP' : ∀ x ∈ g, x ∈ P := fun x hx => hP x (List.mem_cons_of_mem _ hx)
        cases v with
        | none =>
          have hQa : a ∉ Q := by
            intro h
            have := (hQ a (by simp)).mp h
            rw [rg_none] at this
            exact ha' this
          have hQ' : ∀ x ∈ g, x ∈ Q ↔ x ∈ (ragged g r).map Prod.fst := by
            intro x hx
            have := hQ x (List.mem_cons_of_mem _ hx)
            rw [rg_none] at this
            exact this
          have e1 : isin (a :: g) P = true :: isin g P := by simp [isin, hPa]
          have e2 : isin (a :: g) Q = false :: isin g Q := by simp [isin, hQa]
          rw [e1, e2]
          simp only [select, List.zipWith_cons_cons, Option.map_none]
          rw [rg_none, rg_none]
          exact ih r μ hlen' hμ' hnd' hP' hQ'
        | some y =>
          have hQa : a ∈ Q := by
            apply (hQ a (by simp)).mpr
            rw [rg_some]; simp
          have hQ' : ∀ x ∈ g, x ∈ Q ↔ x ∈ (ragged g r).map Prod.fst := by
            intro x hx
            have := hQ x (List.mem_cons_of_mem _ hx)
            rw [rg_some] at this
            simp only [List.map_cons, List.mem_cons] at this
            have hne : x ≠ a := fun h => ha (h ▸ hx)
            constructor
            · intro h
              rcases this.mp h with h | h
              · exact absurd h hne
              · exact h
            · intro h; exact this.mpr (Or.inr h)
          have e1 : isin (a :: g) P = true :: isin g P := by simp [isin, hPa]
          have e2 : isin (a :: g) Q = true :: isin g Q := by simp [isin, hQa]
          rw [e1, e2]
          simp only [select, List.zipWith_cons_cons, Option.map_some]
          rw [rg_some, rg_some]
          simp only [List.zipWith_cons_cons]
          rw [ih r μ hlen' hμ' hnd' hP' hQ']

/-- The positional mask logic of `center`/`standardize` for ANY cell operation that keeps a
missing sample missing and turns a number into a number. -/
theorem cell_ragged {β : Type} (F : Option ℚ → β → Option ℚ) (f : ℚ → β → ℚ)
    (hFn : ∀ s, F none s = none) (hFs : ∀ x s, F (some x) s = some (f x s))
    (g : List ℚ) (r : Row) (μ : List β) (P Q : List ℚ)
    (hlen : r.length = g.length) (hμ : μ.length = g.length) (hnd : g.Nodup)
    (hP : ∀ x ∈ g, x ∈ P) (hQ : ∀ x ∈ g, x ∈ Q ↔ x ∈ (ragged g r).map Prod.fst) :
    ragged g (List.zipWith F r (select (isin g P) μ)) =
      List.zipWith (fun p m => (p.1, f p.2 m)) (ragged g r) (select (isin g Q) μ) := by
  induction g generalizing r μ with
  | nil =>
    cases r with
    | nil => simp [ragged]
    | cons v r => simp at hlen
  | cons a g ih =>
    cases r with
    | nil => simp at hlen
    | cons v r =>
      cases μ with
      | nil => simp at hμ
      | cons m μ =>
        have hnd' := (List.nodup_cons.mp hnd).2
        have ha : a ∉ g := (List.nodup_cons.mp hnd).1
        have hsub := ragged_fst_sublist g r
        have ha' : a ∉ (ragged g r).map Prod.fst := fun h => ha (hsub.subset h)
        have hlen' : r.length = g.length := by simpa using hlen
        have hμ' : μ.length = g.length := by simpa using hμ
        have hPa : a ∈ P := hP a (by simp)
        have hP' : ∀ x ∈ g, x ∈ P := fun x hx => hP x (List.mem_cons_of_mem _ hx)
        cases v with
        | none =>
          have hQa : a ∉ Q := by
            intro h
            have := (hQ a (by simp)).mp h
            rw [rg_none] at this
            exact ha' this
          have hQ' : ∀ x ∈ g, x ∈ Q ↔ x ∈ (ragged g r).map Prod.fst := by
            intro x hx
            have := hQ x (List.mem_cons_of_mem _ hx)
            rw [rg_none] at this
            exact this
          have e1 : isin (a :: g) P = true :: isin g P := by simp [isin, hPa]
          have e2 : isin (a :: g) Q = false :: isin g Q := by simp [isin, hQa]
          rw [e1, e2]
          simp only [select, List.zipWith_cons_cons, hFn]
          rw [rg_none, rg_none]
          exact ih r μ hlen' hμ' hnd' hP' hQ'
        | some y =>
          have hQa : a ∈ Q := by
            apply (hQ a (by simp)).mpr
            rw [rg_some]; simp
          have hQ' : ∀ x ∈ g, x ∈ Q ↔ x ∈ (ragged g r).map Prod.fst := by
            intro x hx
            have := hQ x (List.mem_cons_of_mem _ hx)
            rw [rg_some] at this
            simp only [List.map_cons, List.mem_cons] at this
            have hne : x ≠ a := fun h => ha (h ▸ hx)
            constructor
            · intro h
              rcases this.mp h with h | h
              · exact absurd h hne
              · exact h
            · intro h; exact this.mpr (Or.inr h)
          have e1 : isin (a :: g) P = true :: isin g P := by simp [isin, hPa]
          have e2 : isin (a :: g) Q = true :: isin g Q := by simp [isin, hQa]
          rw [e1, e2]
          simp only [select, List.zipWith_cons_cons, hFs]
          rw [rg_some, rg_some]
          simp only [List.zipWith_cons_cons]
          rw [ih r μ hlen' hμ' hnd' hP' hQ']


/-- values of the ragged encoding = the non-missing values of the row -/
theorem ragged_snd (g : List ℚ) (r : Row) (h : r.length ≤ g.length) :
    (ragged g r).map Prod.snd = r.filterMap id := by
  induction g generalizing r with
  | nil =>
    cases r with
    | nil => simp [ragged]
    | cons v r => simp at h
  | cons a g ih =>
    cases r with
    | nil => simp [ragged]
    | cons v r =>
      have h' : r.length ≤ g.length := by simpa using h
      cases v with
      | none => rw [rg_none]; simpa using ih r h'
      | some y => rw [rg_some]; simpa using ih r h'

/-- arithmetic between two curves with the same missingness pattern -/
theorem op_ragged (f : ℚ → ℚ → ℚ) (g : List ℚ) (r s : Row)
    (hpat : r.map Option.isSome = s.map Option.isSome) :
    ragged g (List.zipWith (fun u v => match u, v with
      | some x, some y => some (f x y)
      | _, _ => none) r s) =
    List.zipWith (fun p q => (p.1, f p.2 q.2)) (ragged g r) (ragged g s) := by
  induction g generalizing r s with
  | nil => simp [ragged]
  | cons a g ih =>
    cases r with
    | nil => simp [ragged]
    | cons u r =>
      cases s with
      | nil => simp at hpat
      | cons v s =>
        simp only [List.map_cons, List.cons.injEq] at hpat
        obtain ⟨huv, hrs⟩ := hpat
        cases u with
        | none =>
          cases v with
          | none =>
            simp only [List.zipWith_cons_cons]
            rw [rg_none, rg_none, rg_none]
            exact ih r s hrs
          | some y => simp at huv
        | some x =>
          cases v with
          | none => simp at huv
          | some y =>
            simp only [List.zipWith_cons_cons]
            rw [rg_some, rg_some, rg_some]
            simp only [List.zipWith_cons_cons]
            rw [ih r s hrs]

theorem opnum_ragged (f : ℚ → ℚ → ℚ) (a : ℚ) (g : List ℚ) (r : Row) :
    ragged g (r.map (Option.map (f · a))) = (ragged g r).map fun p => (p.1, f p.2 a) := by
  induction g generalizing r with
  | nil => simp [ragged]
  | cons x g ih =>
    cases r with
    | nil => simp [ragged]
    | cons v r =>
      cases v with
      | none => simp only [List.map_cons, Option.map_none]; rw [rg_none, rg_none]; exact ih r
      | some y =>
        simp only [List.map_cons, Option.map_some]
        rw [rg_some, rg_some]
        simp only [List.map_cons]
        rw [ih r]

/-! ### np.unique -/

theorem mem_insertU (x y : ℚ) (l : List ℚ) : y ∈ insertU x l ↔ y = x ∨ y ∈ l := by
  induction l with
  | nil => simp [insertU]
  | cons z l ih =>
    unfold insertU
    by_cases h1 : x < z
    · simp [h1]
    · by_cases h2 : x = z
      · subst h2; simp
      · simp only [h1, h2, if_false, List.mem_cons, ih]
        constructor
        · rintro (h | h | h)
          · exact Or.inr (Or.inl h)
          · exact Or.inl h
          · exact Or.inr (Or.inr h)
        · rintro (h | h | h)
          · exact Or.inr (Or.inl h)
          · exact Or.inl h
          · exact Or.inr (Or.inr h)

theorem sorted_insertU (x : ℚ) (l : List ℚ) (h : l.Pairwise (· < ·)) :
    (insertU x l).Pairwise (· < ·) := by
  induction l with
  | nil => simp [insertU]
  | cons z l ih =>
    have hz := (List.pairwise_cons.mp h).1
    have hl := (List.pairwise_cons.mp h).2
    unfold insertU
    by_cases h1 : x < z
    · simp only [h1, if_true]
      refine List.pairwise_cons.mpr ⟨?_, h⟩
      intro y hy
      rcases List.mem_cons.mp hy with rfl | hy
      · exact h1
      · exact lt_trans h1 (hz y hy)
    · by_cases h2 : x = z
      · simp [h2, h]
      · simp only [h1, h2, if_false]
        refine List.pairwise_cons.mpr ⟨?_, ih hl⟩
        intro y hy
        rcases (mem_insertU x y l).mp hy with rfl | hy
        · exact lt_of_le_of_ne (not_lt.mp h1) (Ne.symm h2)
        · exact hz y hy

theorem mem_unique (y : ℚ) (l : List ℚ) : y ∈ unique l ↔ y ∈ l := by
  induction l with
  | nil => simp [unique]
  | cons x l ih =>
    show y ∈ insertU x (unique l) ↔ _
    rw [mem_insertU, ih]; simp

theorem sorted_unique (l : List ℚ) : (unique l).Pairwise (· < ·) := by
  induction l with
  | nil => simp [unique]
  | cons x l ih => exact sorted_insertU x _ ih

/-- two strictly increasing lists with the same members are equal -/
theorem eq_of_sorted_of_mem : ∀ (l₁ l₂ : List ℚ), l₁.Pairwise (· < ·) → l₂.Pairwise (· < ·) →
    (∀ x, x ∈ l₁ ↔ x ∈ l₂) → l₁ = l₂
  | [], [], _, _, _ => rfl
  | [], b :: l₂, _, _, h => by have := (h b).mpr (by simp); simp at this
  | a :: l₁, [], _, _, h => by have := (h a).mp (by simp); simp at this
  | a :: l₁, b :: l₂, h₁, h₂, h => by
    have ha := (List.pairwise_cons.mp h₁).1
    have hb := (List.pairwise_cons.mp h₂).1
    have hab : a = b := by
      have m1 : a ∈ b :: l₂ := (h a).mp (by simp)
      have m2 : b ∈ a :: l₁ := (h b).mpr (by simp)
      rcases List.mem_cons.mp m1 with h1 | h1
      · exact h1
      · rcases List.mem_cons.mp m2 with h2 | h2
        · exact h2.symm
        · have := hb a h1; have := ha b h2; exfalso; linarith
    subst hab
    congr 1
    apply eq_of_sorted_of_mem l₁ l₂ (List.pairwise_cons.mp h₁).2 (List.pairwise_cons.mp h₂).2
    intro x
    constructor
    · intro hx
      have := (h x).mp (List.mem_cons_of_mem _ hx)
      rcases List.mem_cons.mp this with rfl | h'
      · have := ha x hx; exact absurd this (lt_irrefl _)
      · exact h'
    · intro hx
      have := (h x).mpr (List.mem_cons_of_mem _ hx)
      rcases List.mem_cons.mp this with rfl | h'
      · have := hb x hx; exact absurd this (lt_irrefl _)
      · exact h'

theorem unique_eq_of_mem (g l : List ℚ) (hg : g.Pairwise (· < ·)) (h : ∀ x, x ∈ l ↔ x ∈ g) :
    unique l = g :=
  eq_of_sorted_of_mem _ _ (sorted_unique l) hg (fun x => by rw [mem_unique, h])


end FDA.Irr

namespace FDA.Irr
open FDA.Tab

theorem nanDot_none_of_mem : ∀ (ws : List ℚ) (ys : List (Option ℚ)), ys.length ≤ ws.length →
    none ∈ ys → nanDot ws ys = none
  | _, [], _, h => by cases h
  | [], _ :: _, hl, _ => by simp at hl
  | w :: ws, none :: ys, _, _ => by simp [nanDot]
  | w :: ws, some y :: ys, hl, h => by
    have hl' : ys.length ≤ ws.length := by simpa using hl
    have h' : none ∈ ys := by
      rcases List.mem_cons.mp h with h | h
      · cases h
      · exact h
    simp [nanDot, nanDot_none_of_mem ws ys hl' h']

theorem nanDot_isSome : ∀ (ws : List ℚ) (ys : List ℚ), (nanDot ws (ys.map some)).isSome = true
  | [], [] => by simp [nanDot]
  | [], _ :: _ => by simp [nanDot]
  | _ :: _, [] => by simp [nanDot]
  | w :: ws, y :: ys => by
    have := nanDot_isSome ws ys
    simp only [List.map_cons, nanDot, Option.isSome_map]
    exact this

theorem getD_map_some (xs : List ℚ) (j : ℕ) (h : j < xs.length) :
    (xs.map some).getD j none = some (xs.getD j 0) := by
  simp [List.getD_eq_getElem?_getD, h]

theorem center_shift (N : ℕ) (hN : 0 < N) (X : ℕ → ℕ → ℚ) (μ : ℕ → ℚ) (i j : ℕ) :
    center N (fun i j => X i j - μ j) i j = center N X i j := by
  unfold center colMean
  rw [Finset.sum_sub_distrib, Finset.sum_const, Finset.card_range, nsmul_eq_mul]
  have : (N : ℚ) ≠ 0 := by exact_mod_cast hN.ne'
  field_simp
  ring

theorem interp_linear : ∀ (c : List (ℚ × ℚ × ℚ)) (a b x : ℚ),
    interp (c.map fun p => (p.1, a * p.2.1 + b * p.2.2)) x =
      a * interp (c.map fun p => (p.1, p.2.1)) x + b * interp (c.map fun p => (p.1, p.2.2)) x
  | [], a, b, x => by simp [interp]
  | [p], a, b, x => by simp [interp]
  | p :: q :: rest, a, b, x => by
    have ih := interp_linear (q :: rest) a b x
    simp only [List.map_cons] at ih ⊢
    unfold interp
    by_cases h0 : x ≤ p.1
    · simp [h0]
    · by_cases h1 : x ≤ q.1
      · simp only [h0, h1, if_false, if_true]; ring
      · simp only [h0, h1, if_false]
        exact ih

theorem filter_key_singleton : ∀ (l : List (ℚ × ℕ × ℚ)), (l.map fun r => r.1).Pairwise (· < ·) →
    ∀ r ∈ l, l.filter (fun q => q.1 = r.1) = [r]
  | [], _, r, h => by cases h
  | p :: l, hs, r, h => by
    simp only [List.map_cons] at hs
    have hp := (List.pairwise_cons.mp hs).1
    have hl := (List.pairwise_cons.mp hs).2
    rcases List.mem_cons.mp h with rfl | hr
    · have : l.filter (fun q => q.1 = r.1) = [] := by
        apply List.filter_eq_nil_iff.mpr
        intro q hq
        have := hp q.1 (List.mem_map.mpr ⟨q, hq, rfl⟩)
        simp only [decide_eq_true_eq]
        intro h; rw [h] at this; exact lt_irrefl _ this
      simp [this]
    · have hne : ¬ p.1 = r.1 := by
        have := hp r.1 (List.mem_map.mpr ⟨r, hr, rfl⟩)
        intro h; rw [h] at this; exact lt_irrefl _ this
      simp only [List.filter_cons, hne, decide_false]
      exact filter_key_singleton l hl r hr

theorem binned_of_sorted (long : List (ℚ × ℕ × ℚ)) (hs : (long.map fun r => r.1).Pairwise (· < ·)) :
    binned long = long.map fun r => (r.1, r.2.2) := by
  unfold binned
  rw [unique_eq_of_mem _ _ hs (fun _ => Iff.rfl), List.map_map]
  apply List.map_congr_left
  intro r hr
  simp only [Function.comp]
  rw [filter_key_singleton long hs r hr]
  simp

theorem sum_map_range (n : ℕ) (f : ℕ → ℚ) :
    ((List.range n).map f).sum = ∑ i ∈ Finset.range n, f i := by
  induction n with
  | zero => simp
  | succ n ih => rw [List.range_succ, List.map_append, List.sum_append, ih, Finset.sum_range_succ]; simp

end FDA.Irr
