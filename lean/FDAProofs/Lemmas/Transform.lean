/-
Helper lemmas for `FDAModel/Transform.lean` (C10).
-/
import FDAModel.Transform
import FDAProofs.Lemmas.Stats

namespace FDA
open Finset

theorem colMean_center (N : ℕ) (X : ℕ → ℕ → ℚ) (hN : 0 < N) (j : ℕ) :
    colMean N (center N X) j = 0 := by
  unfold colMean
  rw [sum_center N X hN j, zero_div]

theorem colMean_div (N : ℕ) (X : ℕ → ℕ → ℚ) (r : ℕ → ℚ) (j : ℕ) :
    colMean N (fun i j => X i j / r j) j = colMean N X j / r j := by
  unfold colMean
  rw [← Finset.sum_div]
  ring

theorem popVar_center (N : ℕ) (X : ℕ → ℕ → ℚ) (hN : 0 < N) (j : ℕ) :
    popVar N (center N X) j = popVar N X j := by
  unfold popVar
  simp only [colMean_center N X hN, sub_zero]
  rfl

theorem popVar_div (N : ℕ) (X : ℕ → ℕ → ℚ) (r : ℕ → ℚ) (j : ℕ) :
    popVar N (fun i j => X i j / r j) j = popVar N X j / r j ^ 2 := by
  unfold popVar
  simp only [colMean_div]
  have : ∀ i, (X i j / r j - colMean N X j / r j) ^ 2 = (X i j - colMean N X j) ^ 2 / r j ^ 2 := by
    intro i; rw [← sub_div, div_pow]
  simp_rw [this]
  rw [← Finset.sum_div, div_right_comm]

theorem popVar_nonneg (N : ℕ) (X : ℕ → ℕ → ℚ) (j : ℕ) : 0 ≤ popVar N X j := by
  unfold popVar
  exact div_nonneg (Finset.sum_nonneg fun i _ => sq_nonneg _) (Nat.cast_nonneg _)

/-- A vanishing population variance means every curve sits at the mean. -/
theorem popVar_eq_zero (N : ℕ) (X : ℕ → ℕ → ℚ) (hN : 0 < N) (j : ℕ) (h : popVar N X j = 0) :
    ∀ i ∈ range N, X i j = colMean N X j := by
  unfold popVar at h
  have hN' : (N : ℚ) ≠ 0 := by exact_mod_cast hN.ne'
  have h0 : ∑ i ∈ range N, (X i j - colMean N X j) ^ 2 = 0 := by
    rcases div_eq_zero_iff.mp h with h | h
    · exact h
    · exact absurd h hN'
  intro i hi
  have := (Finset.sum_eq_zero_iff_of_nonneg (fun i _ => sq_nonneg (X i j - colMean N X j))).mp h0 i hi
  have := pow_eq_zero_iff (n := 2) (by norm_num) |>.mp this
  linarith

theorem trapz_congr (n : ℕ) (t y z : ℕ → ℚ) (h : ∀ j < n, y j = z j) : trapz n t y = trapz n t z := by
  unfold trapz
  apply Finset.sum_congr rfl
  intro j hj
  rw [mem_range] at hj
  rw [h j (by omega), h (j + 1) (by omega)]

theorem trapz_smul (n : ℕ) (t y : ℕ → ℚ) (a : ℚ) :
    trapz n t (fun j => a * y j) = a * trapz n t y := by
  unfold trapz
  rw [Finset.mul_sum]
  apply Finset.sum_congr rfl; intro j _; ring

theorem trapz_sum' (n N : ℕ) (t : ℕ → ℚ) (f : ℕ → ℕ → ℚ) :
    trapz n t (fun j => ∑ i ∈ range N, f i j) = ∑ i ∈ range N, trapz n t (f i) := by
  unfold trapz
  rw [Finset.sum_comm]
  apply Finset.sum_congr rfl; intro j _
  rw [← Finset.sum_add_distrib, Finset.mul_sum, Finset.sum_div]

theorem signedSq_div (v r : ℚ) (hr : 0 < r) : signedSq (v / r) = signedSq v / r ^ 2 := by
  unfold signedSq
  rw [abs_div, abs_of_pos hr]
  field_simp

end FDA
