import FDAModel.Repr
import FDAProofs.Lemmas.Quadrature

/-! Helper lemmas for C14 (numeric layer). -/
namespace FDA
open Finset

theorem trapz_congr {n : ℕ} {t f g : ℕ → ℚ} (h : ∀ j, j < n → f j = g j) :
    trapz n t f = trapz n t g := by
  unfold trapz
  apply Finset.sum_congr rfl
  intro j hj
  rw [mem_range] at hj
  rw [h j (by omega), h (j + 1) (by omega)]

theorem trapz_smul' (n : ℕ) (t x : ℕ → ℚ) (a : ℚ) :
    trapz n t (fun j => a * x j) = a * trapz n t x := by
  unfold trapz
  rw [Finset.mul_sum]
  apply Finset.sum_congr rfl; intro j _; ring

theorem trapz_sum' (n N : ℕ) (t : ℕ → ℚ) (f : ℕ → ℕ → ℚ) :
    trapz n t (fun j => ∑ i ∈ range N, f i j) = ∑ i ∈ range N, trapz n t (f i) := by
  unfold trapz
  rw [Finset.sum_comm]
  apply Finset.sum_congr rfl; intro j _
  rw [← Finset.sum_add_distrib, Finset.mul_sum, Finset.sum_div]

theorem trapz_div (n : ℕ) (t x : ℕ → ℚ) (a : ℚ) :
    trapz n t (fun j => x j / a) = trapz n t x / a := by
  have := trapz_smul' n t x a⁻¹
  simp only [div_eq_mul_inv]
  rw [mul_comm (trapz n t x)]
  rw [← this]
  congr 1; funext j; ring

/-- Sum over `range (n * K)` of a function of `(r / K, r % K)` is the double sum. -/
theorem sum_range_mul_div_mod (n K : ℕ) (f : ℕ → ℕ → ℚ) :
    ∑ r ∈ range (n * K), f (r / K) (r % K) = ∑ k ∈ range n, ∑ l ∈ range K, f k l := by
  induction n with
  | zero => simp
  | succ n ih =>
    rw [Nat.succ_mul, Finset.sum_range_add, ih, Finset.sum_range_succ]
    congr 1
    apply Finset.sum_congr rfl
    intro x hx
    rw [mem_range] at hx
    have hK : 0 < K := by omega
    have h1 : (n * K + x) / K = n := by
      rw [Nat.add_comm, Nat.add_mul_div_right _ _ hK, Nat.div_eq_of_lt hx]; simp
    have h2 : (n * K + x) % K = x := by
      rw [Nat.add_comm, Nat.add_mul_mod_self_right, Nat.mod_eq_of_lt hx]
    rw [h1, h2]

theorem div_mod_of_lt {x y m : ℕ} (hy : y < m) : (x * m + y) / m = x ∧ (x * m + y) % m = y := by
  have hm : 0 < m := by omega
  constructor
  · rw [Nat.add_comm, Nat.add_mul_div_right _ _ hm, Nat.div_eq_of_lt hy]; simp
  · rw [Nat.add_comm, Nat.add_mul_mod_self_right, Nat.mod_eq_of_lt hy]

theorem mul_add_lt_mul {b b' m : ℕ} (hb : b < m) (hb' : b' < m) : b * m + b' < m * m := by
  calc b * m + b' < b * m + m := by omega
    _ = (b + 1) * m := by ring
    _ ≤ m * m := Nat.mul_le_mul_right _ hb

/-- `toGrid` is additive and homogeneous in the coefficients. -/
theorem toGrid_sub (K : ℕ) (c d Φ : ℕ → ℕ → ℚ) (i j : ℕ) :
    toGrid K (fun i k => c i k - d i k) Φ i j = toGrid K c Φ i j - toGrid K d Φ i j := by
  unfold toGrid
  rw [← Finset.sum_sub_distrib]
  apply Finset.sum_congr rfl; intro k _; ring

theorem toGrid_congr {K : ℕ} {c d Φ : ℕ → ℕ → ℚ} {i : ℕ} (h : ∀ k, k < K → c i k = d i k) (j : ℕ) :
    toGrid K c Φ i j = toGrid K d Φ i j := by
  unfold toGrid
  apply Finset.sum_congr rfl; intro k hk
  rw [h k (mem_range.mp hk)]

/-- Evaluating the mean coefficients gives the mean curve. -/
theorem toGrid_colMean (N K : ℕ) (c Φ : ℕ → ℕ → ℚ) (j : ℕ) :
    ∑ k ∈ range K, colMean N c k * Φ k j = colMean N (toGrid K c Φ) j := by
  unfold colMean toGrid
  rw [Finset.sum_comm, Finset.sum_div]
  apply Finset.sum_congr rfl; intro k _
  rw [div_mul_eq_mul_div, Finset.sum_mul]

theorem toGrid_center (N K : ℕ) (c Φ : ℕ → ℕ → ℚ) (i j : ℕ) :
    toGrid K (center N c) Φ i j = center N (toGrid K c Φ) i j := by
  have h := toGrid_sub K c (fun _ k => colMean N c k) Φ i j
  unfold center
  rw [show (fun i k => c i k - colMean N c k) = fun i k => c i k - (fun _ k => colMean N c k) i k from rfl]
  rw [h, ← toGrid_colMean N K c Φ j]
  rfl

/-- The trapezoid inner product of two evaluated curves is the bilinear form of
the Gram matrix of the basis. -/
theorem inner_toGrid (K m : ℕ) (t : ℕ → ℚ) (c d Φ : ℕ → ℕ → ℚ) (i l : ℕ) :
    inner m t (toGrid K c Φ i) (toGrid K d Φ l) =
      ∑ a ∈ range K, ∑ b ∈ range K, c i a * basisGram m t Φ a b * d l b := by
  unfold inner basisGram inner toGrid
  have : (fun j => (∑ k ∈ range K, c i k * Φ k j) * (∑ k ∈ range K, d l k * Φ k j))
       = fun j => ∑ a ∈ range K, ∑ b ∈ range K, (c i a * d l b) * (Φ a j * Φ b j) := by
    funext j
    rw [Finset.sum_mul_sum]
    apply Finset.sum_congr rfl; intro a _
    apply Finset.sum_congr rfl; intro b _
    ring
  rw [this, trapz_sum']
  apply Finset.sum_congr rfl; intro a _
  rw [trapz_sum']
  apply Finset.sum_congr rfl; intro b _
  rw [trapz_smul']
  ring

/-- `np.kron(A, B)[i*n₂ + j, a*m₂ + b] = A[i, a] * B[j, b]`. -/
theorem kron_apply (n₂ m₂ : ℕ) (A B : ℕ → ℕ → ℚ) (i j a b : ℕ) (hj : j < n₂) (hb : b < m₂) :
    kron n₂ m₂ A B (i * n₂ + j) (a * m₂ + b) = A i a * B j b := by
  unfold kron
  rw [(div_mod_of_lt hj).1, (div_mod_of_lt hj).2, (div_mod_of_lt hb).1, (div_mod_of_lt hb).2]

/-- Contraction of a `K × K` coefficient matrix with `np.kron(Φ, Φ)` at `[j, j']`. -/
theorem contractCov_eq (K m : ℕ) (S Φ : ℕ → ℕ → ℚ) (j j' : ℕ) (hj' : j' < m) :
    contractCov K m S Φ j j' = ∑ k ∈ range K, ∑ l ∈ range K, S k l * (Φ k j * Φ l j') := by
  unfold contractCov
  rw [← sum_range_mul_div_mod K K (fun k l => S k l * (Φ k j * Φ l j'))]
  apply Finset.sum_congr rfl
  intro r _
  unfold kron
  rw [(div_mod_of_lt hj').1, (div_mod_of_lt hj').2]

/-- The covariance of the coefficients, evaluated on the grid, is the (`/n`)
covariance of the evaluated curves. -/
theorem covBasisGrid_eq (N K m : ℕ) (c Φ : ℕ → ℕ → ℚ) (j j' : ℕ) (hj' : j' < m) :
    covBasisGrid N K m c Φ j j' =
      (∑ i ∈ range N, center N (toGrid K c Φ) i j * center N (toGrid K c Φ) i j') / N := by
  unfold covBasisGrid
  rw [contractCov_eq K m _ Φ j j' hj']
  unfold covCoef
  simp_rw [← toGrid_center N K c Φ]
  unfold toGrid
  rw [Finset.sum_div]
  simp_rw [div_mul_eq_mul_div, Finset.sum_mul]
  simp_rw [← Finset.sum_div]
  congr 1
  rw [Finset.sum_comm]
  rw [show (∑ y ∈ range K, ∑ x ∈ range K, ∑ i ∈ range N, center N c i x * center N c i y * (Φ x j * Φ y j'))
      = ∑ y ∈ range K, ∑ i ∈ range N, ∑ x ∈ range K, center N c i x * center N c i y * (Φ x j * Φ y j') from
      Finset.sum_congr rfl (fun y _ => Finset.sum_comm)]
  rw [Finset.sum_comm]
  apply Finset.sum_congr rfl; intro i _
  simp_rw [Finset.mul_sum]
  rw [Finset.sum_comm]
  apply Finset.sum_congr rfl; intro x _
  apply Finset.sum_congr rfl; intro y _
  ring

theorem integrate2_sum (m₁ m₂ N : ℕ) (t₁ t₂ : ℕ → ℚ) (f : ℕ → ℕ → ℕ → ℚ) :
    integrate2 m₁ m₂ t₁ t₂ (fun a b => ∑ i ∈ range N, f i a b) =
      ∑ i ∈ range N, integrate2 m₁ m₂ t₁ t₂ (f i) := by
  unfold integrate2
  simp_rw [trapz_sum']

theorem integrate2_smul (m₁ m₂ : ℕ) (t₁ t₂ : ℕ → ℚ) (f : ℕ → ℕ → ℚ) (c : ℚ) :
    integrate2 m₁ m₂ t₁ t₂ (fun a b => c * f a b) = c * integrate2 m₁ m₂ t₁ t₂ f := by
  unfold integrate2
  simp_rw [trapz_smul']

/-- 2-D: the product-quadrature inner product of two evaluated surfaces is the bilinear
form of the 2-D Gram matrix of the basis. -/
theorem inner2_toGrid (K m₁ m₂ : ℕ) (t₁ t₂ : ℕ → ℚ) (c d Φ : ℕ → ℕ → ℚ) (i l : ℕ) :
    inner2 m₁ m₂ t₁ t₂ (fun a b => toGrid K c Φ i (a * m₂ + b)) (fun a b => toGrid K d Φ l (a * m₂ + b)) =
      ∑ x ∈ range K, ∑ y ∈ range K, c i x * basisGram2 m₁ m₂ t₁ t₂ Φ x y * d l y := by
  unfold inner2 basisGram2 inner2 toGrid
  have : (fun a b => (∑ k ∈ range K, c i k * Φ k (a * m₂ + b)) * (∑ k ∈ range K, d l k * Φ k (a * m₂ + b)))
       = fun a b => ∑ x ∈ range K, ∑ y ∈ range K, (c i x * d l y) * (Φ x (a * m₂ + b) * Φ y (a * m₂ + b)) := by
    funext a b
    rw [Finset.sum_mul_sum]
    apply Finset.sum_congr rfl; intro x _
    apply Finset.sum_congr rfl; intro y _
    ring
  rw [this, integrate2_sum]
  apply Finset.sum_congr rfl; intro x _
  rw [integrate2_sum]
  apply Finset.sum_congr rfl; intro y _
  rw [integrate2_smul]
  ring

end FDA
