/-
Orthonormality of the Wiener and Fourier functions over `ℝ` (continuous statement, interval
integrals).  The quadrature error of a discrete grid is NOT part of these statements.
-/
import FDAModel.BasesReal
import Mathlib.Analysis.SpecialFunctions.Integrals.Basic

namespace FDA.BasesReal
open Real intervalIntegral

/-- `∫₀¹ cos(mπt) dt = 1` if `m = 0`, else `0` (integer `m`). -/
theorem integral_cos_int_pi (m : ℤ) :
    ∫ t in (0:ℝ)..1, cos ((m : ℝ) * π * t) = if m = 0 then 1 else 0 := by
  by_cases hm : m = 0
  · subst hm; simp
  · rw [if_neg hm]
    have hc : ((m : ℝ) * π) ≠ 0 := mul_ne_zero (by exact_mod_cast hm) pi_ne_zero
    have := intervalIntegral.integral_comp_mul_left (a := (0:ℝ)) (b := 1) (fun x => cos x) hc
    simp only [mul_zero, mul_one] at this
    rw [this, integral_cos, sin_zero, sub_zero, sin_int_mul_pi]
    simp

theorem wiener_orthonormal (j k : ℕ) (hj : 1 ≤ j) (hk : 1 ≤ k) :
    ∫ t in (0:ℝ)..1, wiener j t * wiener k t = if j = k then 1 else 0 := by
  have hprod : ∀ t : ℝ, wiener j t * wiener k t
      = cos ((((j : ℤ) - (k : ℤ) : ℤ) : ℝ) * π * t) - cos ((((j : ℤ) + (k : ℤ) - 1 : ℤ) : ℝ) * π * t) := by
    intro t
    unfold wiener
    have h2 : √2 * √2 = 2 := mul_self_sqrt (by norm_num)
    have e1 : ((((j : ℤ) - (k : ℤ) : ℤ) : ℝ)) * π * t
        = ((j : ℝ) - 1 / 2) * π * t - ((k : ℝ) - 1 / 2) * π * t := by push_cast; ring
    have e2 : ((((j : ℤ) + (k : ℤ) - 1 : ℤ) : ℝ)) * π * t
        = ((j : ℝ) - 1 / 2) * π * t + ((k : ℝ) - 1 / 2) * π * t := by push_cast; ring
    rw [e1, e2, cos_sub, cos_add]
    calc √2 * sin (((j : ℝ) - 1 / 2) * π * t) * (√2 * sin (((k : ℝ) - 1 / 2) * π * t))
        = (√2 * √2) * (sin (((j : ℝ) - 1 / 2) * π * t) * sin (((k : ℝ) - 1 / 2) * π * t)) := by ring
      _ = _ := by rw [h2]; ring
  simp_rw [hprod]
  rw [intervalIntegral.integral_sub (Continuous.intervalIntegrable (by fun_prop) _ _)
    (Continuous.intervalIntegrable (by fun_prop) _ _), integral_cos_int_pi, integral_cos_int_pi]
  have hne : ((j : ℤ) + (k : ℤ) - 1) ≠ 0 := by omega
  rw [if_neg hne, sub_zero]
  by_cases h : j = k
  · subst h; simp
  · have : ((j : ℤ) - (k : ℤ)) ≠ 0 := by omega
    rw [if_neg this, if_neg h]

/-! ### Fourier -/

/-- `∫_{-π}^{π} cos(zθ) dθ = 2π` if `z = 0`, else `0`. -/
theorem integral_cos_int (z : ℤ) :
    ∫ θ in (-π)..π, cos ((z : ℝ) * θ) = if z = 0 then 2 * π else 0 := by
  by_cases hz : z = 0
  · subst hz; simp; ring
  · rw [if_neg hz]
    have hc : (z : ℝ) ≠ 0 := by exact_mod_cast hz
    rw [intervalIntegral.integral_comp_mul_left (fun x => cos x) hc, integral_cos]
    have : (z : ℝ) * -π = -((z : ℝ) * π) := by ring
    rw [this, sin_neg, sin_int_mul_pi]; simp

/-- `∫_{-π}^{π} sin(zθ) dθ = 0`. -/
theorem integral_sin_int (z : ℤ) : ∫ θ in (-π)..π, sin ((z : ℝ) * θ) = 0 := by
  by_cases hz : z = 0
  · subst hz; simp
  · have hc : (z : ℝ) ≠ 0 := by exact_mod_cast hz
    rw [intervalIntegral.integral_comp_mul_left (fun x => sin x) hc, integral_sin]
    have : (z : ℝ) * -π = -((z : ℝ) * π) := by ring
    rw [this, cos_neg]; simp

theorem integral_cos_cos (m n : ℕ) (hm : 1 ≤ m) (hn : 1 ≤ n) :
    ∫ θ in (-π)..π, cos ((m : ℝ) * θ) * cos ((n : ℝ) * θ) = if m = n then π else 0 := by
  have h : ∀ θ : ℝ, cos ((m : ℝ) * θ) * cos ((n : ℝ) * θ)
      = (cos ((((m : ℤ) - n : ℤ) : ℝ) * θ) + cos ((((m : ℤ) + n : ℤ) : ℝ) * θ)) / 2 := by
    intro θ
    have e1 : (((m : ℤ) - n : ℤ) : ℝ) * θ = (m : ℝ) * θ - (n : ℝ) * θ := by push_cast; ring
    have e2 : (((m : ℤ) + n : ℤ) : ℝ) * θ = (m : ℝ) * θ + (n : ℝ) * θ := by push_cast; ring
    rw [e1, e2, cos_sub, cos_add]; ring
  simp_rw [h]
  rw [intervalIntegral.integral_div, intervalIntegral.integral_add
    (Continuous.intervalIntegrable (by fun_prop) _ _) (Continuous.intervalIntegrable (by fun_prop) _ _),
    integral_cos_int, integral_cos_int]
  have hne : ((m : ℤ) + n) ≠ 0 := by omega
  rw [if_neg hne]
  by_cases hmn : m = n
  · subst hmn; simp
  · have : ((m : ℤ) - n) ≠ 0 := by omega
    rw [if_neg this, if_neg hmn]; simp

theorem integral_sin_sin (m n : ℕ) (hm : 1 ≤ m) (hn : 1 ≤ n) :
    ∫ θ in (-π)..π, sin ((m : ℝ) * θ) * sin ((n : ℝ) * θ) = if m = n then π else 0 := by
  have h : ∀ θ : ℝ, sin ((m : ℝ) * θ) * sin ((n : ℝ) * θ)
      = (cos ((((m : ℤ) - n : ℤ) : ℝ) * θ) - cos ((((m : ℤ) + n : ℤ) : ℝ) * θ)) / 2 := by
    intro θ
    have e1 : (((m : ℤ) - n : ℤ) : ℝ) * θ = (m : ℝ) * θ - (n : ℝ) * θ := by push_cast; ring
    have e2 : (((m : ℤ) + n : ℤ) : ℝ) * θ = (m : ℝ) * θ + (n : ℝ) * θ := by push_cast; ring
    rw [e1, e2, cos_sub, cos_add]; ring
  simp_rw [h]
  rw [intervalIntegral.integral_div, intervalIntegral.integral_sub
    (Continuous.intervalIntegrable (by fun_prop) _ _) (Continuous.intervalIntegrable (by fun_prop) _ _),
    integral_cos_int, integral_cos_int]
  have hne : ((m : ℤ) + n) ≠ 0 := by omega
  rw [if_neg hne]
  by_cases hmn : m = n
  · subst hmn; simp
  · have : ((m : ℤ) - n) ≠ 0 := by omega
    rw [if_neg this, if_neg hmn]; simp

theorem integral_sin_cos (m n : ℕ) :
    ∫ θ in (-π)..π, sin ((m : ℝ) * θ) * cos ((n : ℝ) * θ) = 0 := by
  have h : ∀ θ : ℝ, sin ((m : ℝ) * θ) * cos ((n : ℝ) * θ)
      = (sin ((((m : ℤ) + n : ℤ) : ℝ) * θ) + sin ((((m : ℤ) - n : ℤ) : ℝ) * θ)) / 2 := by
    intro θ
    have e1 : (((m : ℤ) - n : ℤ) : ℝ) * θ = (m : ℝ) * θ - (n : ℝ) * θ := by push_cast; ring
    have e2 : (((m : ℤ) + n : ℤ) : ℝ) * θ = (m : ℝ) * θ + (n : ℝ) * θ := by push_cast; ring
    rw [e1, e2, sin_sub, sin_add]; ring
  simp_rw [h]
  rw [intervalIntegral.integral_div, intervalIntegral.integral_add
    (Continuous.intervalIntegrable (by fun_prop) _ _) (Continuous.intervalIntegrable (by fun_prop) _ _),
    integral_sin_int, integral_sin_int]
  simp

/-- The Fourier functions in the angle variable `θ = fourierAngle a b t`. -/
noncomputable def gF (L : ℝ) (k : ℕ) (θ : ℝ) : ℝ :=
  if k = 0 then 1 / √L
  else if k % 2 = 1 then √(2 / L) * cos ((((k + 1) / 2 : ℕ) : ℝ) * θ)
  else √(2 / L) * sin ((((k + 1) / 2 : ℕ) : ℝ) * θ)

theorem fourier_eq_gF (a b : ℝ) (k : ℕ) (t : ℝ) :
    fourier a b k t = gF (b - a) k (fourierAngle a b t) := rfl

theorem gF_continuous (L : ℝ) (k : ℕ) : Continuous (gF L k) := by
  unfold gF
  split
  · exact continuous_const
  · split <;> fun_prop

theorem integral_gF_mul (L : ℝ) (hL : 0 < L) (j k : ℕ) :
    ∫ θ in (-π)..π, gF L j θ * gF L k θ = if j = k then 2 * π / L else 0 := by
  have hs : √L * √L = L := mul_self_sqrt hL.le
  have hs2 : √(2 / L) * √(2 / L) = 2 / L := mul_self_sqrt (by positivity)
  have hsL : √L ≠ 0 := (sqrt_pos.mpr hL).ne'
  rcases Nat.eq_zero_or_pos j with hj | hj <;> rcases Nat.eq_zero_or_pos k with hk | hk
  · subst hj; subst hk
    simp only [gF, if_true]
    rw [intervalIntegral.integral_const]
    simp only [sub_neg_eq_add, smul_eq_mul]
    field_simp
    have hs' : √L ^ 2 = L := by rw [sq]; exact hs
    rw [hs']; ring
  · subst hj
    have hk0 : k ≠ 0 := by omega
    rw [if_neg (Ne.symm hk0)]
    have hm : ((((k + 1) / 2 : ℕ) : ℤ)) ≠ 0 := by
      have : 1 ≤ (k + 1) / 2 := by omega
      omega
    by_cases hpar : k % 2 = 1
    · have : ∀ θ, gF L 0 θ * gF L k θ
          = (1 / √L * √(2 / L)) * cos (((((k + 1) / 2 : ℕ) : ℤ) : ℝ) * θ) := by
        intro θ; simp only [gF, if_true, if_neg hk0, if_pos hpar]; rw [Int.cast_natCast]; ring
      simp_rw [this]
      rw [intervalIntegral.integral_const_mul, integral_cos_int, if_neg hm, mul_zero]
    · have : ∀ θ, gF L 0 θ * gF L k θ
          = (1 / √L * √(2 / L)) * sin (((((k + 1) / 2 : ℕ) : ℤ) : ℝ) * θ) := by
        intro θ; simp only [gF, if_true, if_neg hk0, if_neg hpar]; rw [Int.cast_natCast]; ring
      simp_rw [this]
      rw [intervalIntegral.integral_const_mul, integral_sin_int, mul_zero]
  · subst hk
    have hj0 : j ≠ 0 := by omega
    rw [if_neg hj0]
    have hm : ((((j + 1) / 2 : ℕ) : ℤ)) ≠ 0 := by
      have : 1 ≤ (j + 1) / 2 := by omega
      omega
    by_cases hpar : j % 2 = 1
    · have : ∀ θ, gF L j θ * gF L 0 θ
          = (1 / √L * √(2 / L)) * cos (((((j + 1) / 2 : ℕ) : ℤ) : ℝ) * θ) := by
        intro θ; simp only [gF, if_true, if_neg hj0, if_pos hpar]; rw [Int.cast_natCast]; ring
      simp_rw [this]
      rw [intervalIntegral.integral_const_mul, integral_cos_int, if_neg hm, mul_zero]
    · have : ∀ θ, gF L j θ * gF L 0 θ
          = (1 / √L * √(2 / L)) * sin (((((j + 1) / 2 : ℕ) : ℤ) : ℝ) * θ) := by
        intro θ; simp only [gF, if_true, if_neg hj0, if_neg hpar]; rw [Int.cast_natCast]; ring
      simp_rw [this]
      rw [intervalIntegral.integral_const_mul, integral_sin_int, mul_zero]
  · have hj0 : j ≠ 0 := by omega
    have hk0 : k ≠ 0 := by omega
    have hmj : 1 ≤ (j + 1) / 2 := by omega
    have hmk : 1 ≤ (k + 1) / 2 := by omega
    by_cases hpj : j % 2 = 1 <;> by_cases hpk : k % 2 = 1
    · have : ∀ θ, gF L j θ * gF L k θ
          = (√(2 / L) * √(2 / L)) * (cos ((((j + 1) / 2 : ℕ) : ℝ) * θ) * cos ((((k + 1) / 2 : ℕ) : ℝ) * θ)) := by
        intro θ; simp only [gF, if_neg hj0, if_neg hk0, if_pos hpj, if_pos hpk]; ring
      simp_rw [this]
      rw [intervalIntegral.integral_const_mul, integral_cos_cos _ _ hmj hmk, hs2]
      by_cases h : j = k
      · subst h; simp; ring
      · have : (j + 1) / 2 ≠ (k + 1) / 2 := by omega
        rw [if_neg this, if_neg h, mul_zero]
    · have : ∀ θ, gF L j θ * gF L k θ
          = (√(2 / L) * √(2 / L)) * (sin ((((k + 1) / 2 : ℕ) : ℝ) * θ) * cos ((((j + 1) / 2 : ℕ) : ℝ) * θ)) := by
        intro θ; simp only [gF, if_neg hj0, if_neg hk0, if_pos hpj, if_neg hpk]; ring
      simp_rw [this]
      rw [intervalIntegral.integral_const_mul, integral_sin_cos, mul_zero, if_neg (by omega)]
    · have : ∀ θ, gF L j θ * gF L k θ
          = (√(2 / L) * √(2 / L)) * (sin ((((j + 1) / 2 : ℕ) : ℝ) * θ) * cos ((((k + 1) / 2 : ℕ) : ℝ) * θ)) := by
        intro θ; simp only [gF, if_neg hj0, if_neg hk0, if_neg hpj, if_pos hpk]; ring
      simp_rw [this]
      rw [intervalIntegral.integral_const_mul, integral_sin_cos, mul_zero, if_neg (by omega)]
    · have : ∀ θ, gF L j θ * gF L k θ
          = (√(2 / L) * √(2 / L)) * (sin ((((j + 1) / 2 : ℕ) : ℝ) * θ) * sin ((((k + 1) / 2 : ℕ) : ℝ) * θ)) := by
        intro θ; simp only [gF, if_neg hj0, if_neg hk0, if_neg hpj, if_neg hpk]; ring
      simp_rw [this]
      rw [intervalIntegral.integral_const_mul, integral_sin_sin _ _ hmj hmk, hs2]
      by_cases h : j = k
      · subst h; simp; ring
      · have : (j + 1) / 2 ≠ (k + 1) / 2 := by omega
        rw [if_neg this, if_neg h, mul_zero]

theorem fourier_orthonormal (a b : ℝ) (hab : a < b) (j k : ℕ) :
    ∫ t in a..b, fourier a b j t * fourier a b k t = if j = k then 1 else 0 := by
  have hL : 0 < b - a := by linarith
  have hc : (2 * π / (b - a)) ≠ 0 := by positivity
  have hang : ∀ t, fourierAngle a b t = (2 * π / (b - a)) * t + (-(2 * π * a / (b - a)) - π) := by
    intro t; unfold fourierAngle; field_simp; ring
  simp_rw [fourier_eq_gF, hang]
  rw [intervalIntegral.integral_comp_mul_add (fun θ => gF (b - a) j θ * gF (b - a) k θ) hc]
  have e1 : 2 * π / (b - a) * a + (-(2 * π * a / (b - a)) - π) = -π := by field_simp; ring
  have e2 : 2 * π / (b - a) * b + (-(2 * π * a / (b - a)) - π) = π := by field_simp; ring
  rw [e1, e2, integral_gF_mul (b - a) hL j k]
  by_cases h : j = k
  · rw [if_pos h, if_pos h]; simp only [smul_eq_mul]; field_simp
  · rw [if_neg h, if_neg h]; simp

end FDA.BasesReal
