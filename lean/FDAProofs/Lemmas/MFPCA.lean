import FDAModel.MFPCA
import Mathlib.Tactic.Ring
import Mathlib.Tactic.Linarith
import Mathlib.Tactic.FieldSimp
import Mathlib.Algebra.BigOperators.Ring.Finset
import Mathlib.Algebra.BigOperators.Field
import Mathlib.Algebra.Order.BigOperators.Ring.Finset

namespace FDA.MFPCA
open Finset

/-! ## dense algebra on `range` -/

theorem dot_comm (M : ℕ) (x y : ℕ → ℚ) : dot M x y = dot M y x := by
  unfold dot; apply Finset.sum_congr rfl; intro i _; ring

theorem dot_congr_left {M : ℕ} {x x' : ℕ → ℚ} (y : ℕ → ℚ) (h : ∀ i < M, x i = x' i) :
    dot M x y = dot M x' y := by
  unfold dot; apply Finset.sum_congr rfl; intro i hi; rw [h i (mem_range.mp hi)]

theorem dot_congr_right {M : ℕ} (x : ℕ → ℚ) {y y' : ℕ → ℚ} (h : ∀ i < M, y i = y' i) :
    dot M x y = dot M x y' := by
  rw [dot_comm, dot_congr_left x h, dot_comm]

theorem dot_smul_right (M : ℕ) (x y : ℕ → ℚ) (a : ℚ) :
    dot M x (fun i => a * y i) = a * dot M x y := by
  unfold dot; rw [Finset.mul_sum]; apply Finset.sum_congr rfl; intro i _; ring

theorem dot_smul_left (M : ℕ) (x y : ℕ → ℚ) (a : ℚ) :
    dot M (fun i => a * x i) y = a * dot M x y := by
  rw [dot_comm, dot_smul_right, dot_comm]

theorem mulVec_congr {M : ℕ} (A : ℕ → ℕ → ℚ) {x x' : ℕ → ℚ} (h : ∀ i < M, x i = x' i) (i : ℕ) :
    mulVec M A x i = mulVec M A x' i := by
  unfold mulVec; apply Finset.sum_congr rfl; intro k hk; rw [h k (mem_range.mp hk)]

theorem mulVec_congr_mat {M : ℕ} {A A' : ℕ → ℕ → ℚ} (x : ℕ → ℚ) {i : ℕ}
    (h : ∀ k < M, A i k = A' i k) : mulVec M A x i = mulVec M A' x i := by
  unfold mulVec; apply Finset.sum_congr rfl; intro k hk; rw [h k (mem_range.mp hk)]

/-- `(A B) x = A (B x)`. -/
theorem mulVec_matMul (M : ℕ) (A B : ℕ → ℕ → ℚ) (x : ℕ → ℚ) (i : ℕ) :
    mulVec M (matMul M A B) x i = mulVec M A (mulVec M B x) i := by
  unfold mulVec matMul
  simp_rw [Finset.sum_mul, Finset.mul_sum]
  rw [Finset.sum_comm]
  apply Finset.sum_congr rfl; intro k _
  apply Finset.sum_congr rfl; intro l _
  ring

/-- For a matrix that is symmetric on `range M`: `⟨A x, y⟩ = ⟨x, A y⟩`. -/
theorem dot_mulVec_symm (M : ℕ) (A : ℕ → ℕ → ℚ) (hA : ∀ i < M, ∀ j < M, A i j = A j i)
    (x y : ℕ → ℚ) : dot M (mulVec M A x) y = dot M x (mulVec M A y) := by
  unfold dot mulVec
  simp_rw [Finset.sum_mul, Finset.mul_sum]
  rw [Finset.sum_comm]
  apply Finset.sum_congr rfl; intro k hk
  apply Finset.sum_congr rfl; intro l hl
  rw [hA l (mem_range.mp hl) k (mem_range.mp hk)]
  ring

theorem col_matMul (M : ℕ) (S c : ℕ → ℕ → ℚ) (m j : ℕ) :
    col (matMul M S c) m j = mulVec M S (col c m) j := rfl

/-- Eigenvectors of `B·Q` (both symmetric on `range M`) for distinct eigenvalues are
`Q`-orthogonal. -/
theorem q_orthogonal (M : ℕ) (B Q : ℕ → ℕ → ℚ)
    (hB : ∀ i < M, ∀ j < M, B i j = B j i) (hQ : ∀ i < M, ∀ j < M, Q i j = Q j i)
    (c d : ℕ → ℚ) (ν μ : ℚ)
    (hc : ∀ i < M, mulVec M (matMul M B Q) c i = ν * c i)
    (hd : ∀ i < M, mulVec M (matMul M B Q) d i = μ * d i) (hne : ν ≠ μ) :
    bil M Q c d = 0 := by
  have h1 : dot M (mulVec M Q c) (mulVec M (matMul M B Q) d) = μ * bil M Q c d := by
    rw [dot_congr_right _ hd, dot_smul_right, dot_mulVec_symm M Q hQ]; rfl
  have h2 : dot M (mulVec M Q c) (mulVec M (matMul M B Q) d) = ν * bil M Q c d := by
    have e : ∀ i < M, mulVec M (matMul M B Q) d i = mulVec M B (mulVec M Q d) i :=
      fun i _ => mulVec_matMul M B Q d i
    rw [dot_congr_right _ e, ← dot_mulVec_symm M B hB]
    have e2 : ∀ i < M, mulVec M B (mulVec M Q c) i = ν * c i := by
      intro i hi; rw [← mulVec_matMul]; exact hc i hi
    rw [dot_congr_left _ e2, dot_smul_left]; rfl
  have : (ν - μ) * bil M Q c d = 0 := by linarith
  rcases mul_eq_zero.1 this with h | h
  · exact absurd (sub_eq_zero.1 h) hne
  · exact h

/-! ## moments -/

theorem secondMoment_symm (N : ℕ) (ξ : ℕ → ℕ → ℚ) (j k : ℕ) :
    secondMoment N ξ j k = secondMoment N ξ k j := by
  unfold secondMoment; congr 1; apply Finset.sum_congr rfl; intro i _; ring

theorem cov_symm (N : ℕ) (ξ : ℕ → ℕ → ℚ) (j k : ℕ) : cov N ξ j k = cov N ξ k j :=
  secondMoment_symm N _ j k

/-- With column-centred scores the uncentred second moment IS the covariance. -/
theorem secondMoment_eq_cov_of_centred (N M : ℕ) (ξ : ℕ → ℕ → ℚ)
    (h : ∀ j < M, colMean N ξ j = 0) {j k : ℕ} (hj : j < M) (hk : k < M) :
    secondMoment N ξ j k = cov N ξ j k := by
  unfold cov secondMoment center
  rw [h j hj, h k hk]; simp

/-- `Σ_i (X c_m)_i (X c_l)_i/(N−1) = c_mᵀ S c_l` with `S` the second moment of `X`. -/
theorem secondMoment_pace (M N : ℕ) (X c : ℕ → ℕ → ℚ) (m l : ℕ) :
    secondMoment N (pace M X c) m l = bil M (secondMoment N X) (col c m) (col c l) := by
  unfold secondMoment pace bil dot mulVec col
  rw [eq_comm]
  calc ∑ j ∈ range M, c j m * ∑ k ∈ range M, (∑ i ∈ range N, X i j * X i k) / ((N : ℚ) - 1) * c k l
      = (∑ j ∈ range M, ∑ k ∈ range M, ∑ i ∈ range N, c j m * (X i j * X i k) * c k l) / ((N : ℚ) - 1) := by
        rw [Finset.sum_div]
        apply Finset.sum_congr rfl; intro j _
        rw [Finset.mul_sum, Finset.sum_div]
        apply Finset.sum_congr rfl; intro k _
        rw [Finset.sum_div, Finset.sum_div, Finset.sum_mul, Finset.mul_sum]
        apply Finset.sum_congr rfl; intro i _
        ring
    _ = (∑ i ∈ range N, (∑ k ∈ range M, X i k * c k m) * ∑ k ∈ range M, X i k * c k l) / ((N : ℚ) - 1) := by
        congr 1
        have h : ∀ j ∈ range M, ∑ k ∈ range M, ∑ i ∈ range N, c j m * (X i j * X i k) * c k l
            = ∑ i ∈ range N, ∑ k ∈ range M, c j m * (X i j * X i k) * c k l := fun j _ => Finset.sum_comm
        rw [Finset.sum_congr rfl h, Finset.sum_comm]
        apply Finset.sum_congr rfl; intro i _
        rw [Finset.sum_mul_sum]
        apply Finset.sum_congr rfl; intro j _
        apply Finset.sum_congr rfl; intro k _
        ring

/-- `UᵀU` is symmetric. -/
theorem gramOfFactor_symm (M : ℕ) (U : ℕ → ℕ → ℚ) (i j : ℕ) :
    gramOfFactor M U i j = gramOfFactor M U j i := by
  unfold gramOfFactor matMul tr
  apply Finset.sum_congr rfl; intro k _; ring

theorem bil_congr_mat {M : ℕ} {A A' : ℕ → ℕ → ℚ} (x y : ℕ → ℚ)
    (h : ∀ i < M, ∀ k < M, A i k = A' i k) : bil M A x y = bil M A' x y := by
  unfold bil
  apply dot_congr_right
  intro i hi
  exact mulVec_congr_mat y (h i hi)

theorem normSqProj_eq_bil (M N : ℕ) (ξ c : ℕ → ℕ → ℚ) (m : ℕ) :
    normSqProj M N ξ c m = bil M (secondMoment N ξ) (col c m) (col c m) :=
  secondMoment_pace M N ξ c m m

/-- Numerator of the product-space Gram matrix when the scores are column-centred and
`c_l` is an eigenvector: `W_mᵀ B W_l = ν_l · c_mᵀ Q c_l`. -/
theorem prodGram_eq (M N : ℕ) (U ξ c : ℕ → ℕ → ℚ) (ν : ℕ → ℚ)
    (hcent : ∀ j < M, colMean N ξ j = 0) (m l : ℕ)
    (hl : ∀ i < M, mulVec M (solverMatrix M N U ξ) (col c l) i = ν l * c i l) :
    prodGramNum M (gramOfFactor M U) (weights M N ξ c) m l
      = ν l * bil M (cov N ξ) (col c m) (col c l) := by
  have hW : ∀ (a : ℕ), ∀ j < M, col (weights M N ξ c) a j = mulVec M (cov N ξ) (col c a) j := by
    intro a j hj
    show mulVec M (secondMoment N ξ) (col c a) j = _
    exact mulVec_congr_mat _ (fun k hk => secondMoment_eq_cov_of_centred N M ξ hcent hj hk)
  unfold prodGramNum bil
  rw [dot_congr_left _ (hW m)]
  have h2 : ∀ i < M, mulVec M (gramOfFactor M U) (col (weights M N ξ c) l) i = ν l * col c l i := by
    intro i hi
    rw [mulVec_congr (gramOfFactor M U) (hW l) i, ← mulVec_matMul]
    exact hl i hi
  rw [dot_congr_right _ h2, dot_smul_right,
    dot_mulVec_symm M (cov N ξ) (fun i _ j _ => cov_symm N ξ i j)]

/-! ## `_block_diag` -/

theorem rowOff_zero (shapes : List (ℕ × ℕ)) : rowOff shapes 0 = 0 := by simp [rowOff]
theorem colOff_zero (shapes : List (ℕ × ℕ)) : colOff shapes 0 = 0 := by simp [colOff]

theorem rowOff_cons_succ (rr cc : ℕ) (rest : List (ℕ × ℕ)) (p : ℕ) :
    rowOff ((rr, cc) :: rest) (p + 1) = rr + rowOff rest p := by simp [rowOff]

theorem colOff_cons_succ (rr cc : ℕ) (rest : List (ℕ × ℕ)) (p : ℕ) :
    colOff ((rr, cc) :: rest) (p + 1) = cc + colOff rest p := by simp [colOff]

/-- Entry `(a, b)` of block `p` lands at `(rowOff p + a, colOff p + b)`. -/
theorem blockDiag_block : ∀ (shapes : List (ℕ × ℕ)) (blk : ℕ → ℕ → ℕ → ℚ) (p rr cc a b : ℕ),
    shapes[p]? = some (rr, cc) → a < rr → b < cc →
    blockDiag shapes blk (rowOff shapes p + a) (colOff shapes p + b) = blk p a b := by
  intro shapes
  induction shapes with
  | nil => intro blk p rr cc a b h; simp at h
  | cons hd rest ih =>
    intro blk p rr cc a b h ha hb
    obtain ⟨r0, c0⟩ := hd
    cases p with
    | zero =>
      simp only [List.getElem?_cons_zero, Option.some.injEq, Prod.mk.injEq] at h
      obtain ⟨rfl, rfl⟩ := h
      simp [blockDiag, rowOff_zero, colOff_zero, ha, hb]
    | succ q =>
      simp only [List.getElem?_cons_succ] at h
      rw [rowOff_cons_succ, colOff_cons_succ]
      have h1 : ¬ (r0 + rowOff rest q + a < r0) := by omega
      have h2 : ¬ (c0 + colOff rest q + b < c0) := by omega
      simp only [blockDiag, h1, h2, if_false]
      have e1 : r0 + rowOff rest q + a - r0 = rowOff rest q + a := by omega
      have e2 : c0 + colOff rest q + b - c0 = colOff rest q + b := by omega
      rw [e1, e2]
      exact ih (fun p => blk (p + 1)) q rr cc a b h ha hb

/-- Every non-zero entry of the assembly lies inside one of the diagonal blocks. -/
theorem blockDiag_support : ∀ (shapes : List (ℕ × ℕ)) (blk : ℕ → ℕ → ℕ → ℚ) (i j : ℕ),
    blockDiag shapes blk i j ≠ 0 →
    ∃ p rr cc, shapes[p]? = some (rr, cc) ∧ rowOff shapes p ≤ i ∧ i < rowOff shapes p + rr ∧
      colOff shapes p ≤ j ∧ j < colOff shapes p + cc := by
  intro shapes
  induction shapes with
  | nil => intro blk i j h; simp [blockDiag] at h
  | cons hd rest ih =>
    intro blk i j h
    obtain ⟨r0, c0⟩ := hd
    simp only [blockDiag] at h
    by_cases hi : i < r0
    · by_cases hj : j < c0
      · exact ⟨0, r0, c0, by simp, by simp [rowOff_zero], by simp [rowOff_zero, hi], by simp [colOff_zero],
          by simp [colOff_zero, hj]⟩
      · simp [hi, hj] at h
    · by_cases hj : j < c0
      · simp [hi, hj] at h
      · simp only [hi, hj, if_false] at h
        obtain ⟨p, rr, cc, hp, h1, h2, h3, h4⟩ := ih _ _ _ h
        refine ⟨p + 1, rr, cc, by simpa using hp, ?_, ?_, ?_, ?_⟩
        · rw [rowOff_cons_succ]; omega
        · rw [rowOff_cons_succ]; omega
        · rw [colOff_cons_succ]; omega
        · rw [colOff_cons_succ]; omega

/-! ## linear maps of centred data -/

theorem colMean_lin (N n : ℕ) (A : ℕ → ℕ → ℚ) (x : ℕ → ℕ → ℚ) (j : ℕ) :
    colMean N (fun i j => ∑ t ∈ range n, A j t * x i t) j = ∑ t ∈ range n, A j t * colMean N x t := by
  unfold colMean
  rw [Finset.sum_comm, Finset.sum_div]
  apply Finset.sum_congr rfl; intro t _
  rw [← Finset.mul_sum, mul_div_assoc]

theorem colMean_pace (M N : ℕ) (ξ c : ℕ → ℕ → ℚ) (m : ℕ) :
    colMean N (pace M ξ c) m = ∑ k ∈ range M, colMean N ξ k * c k m := by
  unfold colMean pace
  rw [Finset.sum_comm, Finset.sum_div]
  apply Finset.sum_congr rfl; intro k _
  rw [← Finset.sum_mul]; ring

theorem center_pace (M N : ℕ) (ξ c : ℕ → ℕ → ℚ) (i m : ℕ) :
    center N (pace M ξ c) i m = pace M (center N ξ) c i m := by
  unfold center
  rw [colMean_pace]
  unfold pace
  rw [← Finset.sum_sub_distrib]
  apply Finset.sum_congr rfl; intro k _; ring

/-- Sample covariance of two columns of `ξ c` is `c_mᵀ cov(ξ) c_l`. -/
theorem cov_pace (M N : ℕ) (ξ c : ℕ → ℕ → ℚ) (m l : ℕ) :
    cov N (pace M ξ c) m l = bil M (cov N ξ) (col c m) (col c l) := by
  unfold cov
  rw [← secondMoment_pace]
  unfold secondMoment
  congr 1
  apply Finset.sum_congr rfl; intro i _
  rw [center_pace, center_pace]

/-! ## permutations of the stacked index -/

theorem sum_range_perm (M : ℕ) (σ : Equiv.Perm ℕ) (hσ : ∀ i, σ i < M ↔ i < M) (f : ℕ → ℚ) :
    ∑ k ∈ range M, f (σ k) = ∑ k ∈ range M, f k :=
  Finset.sum_equiv σ (by intro i; simp [hσ]) (by intro i _; rfl)

theorem mulVec_perm (M : ℕ) (σ : Equiv.Perm ℕ) (hσ : ∀ i, σ i < M ↔ i < M) (Z : ℕ → ℕ → ℚ)
    (x : ℕ → ℚ) (i : ℕ) :
    mulVec M (fun a b => Z (σ a) (σ b)) (fun k => x (σ k)) i = mulVec M Z x (σ i) := by
  unfold mulVec
  exact sum_range_perm M σ hσ (fun k => Z (σ i) k * x k)

theorem matMul_perm (M : ℕ) (σ : Equiv.Perm ℕ) (hσ : ∀ i, σ i < M ↔ i < M) (A B : ℕ → ℕ → ℚ)
    (i j : ℕ) :
    matMul M (fun a b => A (σ a) (σ b)) (fun a b => B (σ a) (σ b)) i j = matMul M A B (σ i) (σ j) := by
  unfold matMul
  exact sum_range_perm M σ hσ (fun k => A (σ i) k * B k (σ j))

/-! ## functions on grids -/

theorem trapz_sum (n s : ℕ) (t : ℕ → ℚ) (f : ℕ → ℕ → ℚ) :
    trapz n t (fun j => ∑ k ∈ range s, f k j) = ∑ k ∈ range s, trapz n t (f k) := by
  unfold trapz
  rw [Finset.sum_comm]
  apply Finset.sum_congr rfl; intro j _
  rw [← Finset.sum_add_distrib, Finset.mul_sum, Finset.sum_div]

theorem trapz_smul (n : ℕ) (t y : ℕ → ℚ) (c : ℚ) :
    trapz n t (fun j => c * y j) = c * trapz n t y := by
  unfold trapz
  rw [Finset.mul_sum]
  apply Finset.sum_congr rfl; intro j _
  ring

/-- The L² inner product of two linear combinations of basis functions is the bilinear
form of their coefficients in the basis Gram matrix. -/
theorem inner_lincomb (n s : ℕ) (t : ℕ → ℚ) (φ : ℕ → ℕ → ℚ) (a b : ℕ → ℚ) :
    inner n t (fun u => ∑ j ∈ range s, a j * φ j u) (fun u => ∑ k ∈ range s, b k * φ k u)
      = bil s (basisGram n t φ) a b := by
  unfold inner bil dot mulVec basisGram inner
  have h : (fun u => (∑ j ∈ range s, a j * φ j u) * ∑ k ∈ range s, b k * φ k u)
      = fun u => ∑ j ∈ range s, ∑ k ∈ range s, (a j * b k) * (φ j u * φ k u) := by
    funext u
    rw [Finset.sum_mul_sum]
    apply Finset.sum_congr rfl; intro j _
    apply Finset.sum_congr rfl; intro k _
    ring
  rw [h, trapz_sum]
  apply Finset.sum_congr rfl; intro j _
  rw [trapz_sum, Finset.mul_sum]
  apply Finset.sum_congr rfl; intro k _
  rw [trapz_smul]; ring

theorem off_zero (sizes : List ℕ) : off sizes 0 = 0 := by simp [off]
theorem off_cons_succ (s : ℕ) (rest : List ℕ) (p : ℕ) : off (s :: rest) (p + 1) = s + off rest p := by
  simp [off]

theorem blockDiag_squares_cons (s : ℕ) (rest : List ℕ) (G : ℕ → ℕ → ℕ → ℚ) (i k : ℕ) :
    blockDiag (squares (s :: rest)) G i k
      = if i < s then (if k < s then G 0 i k else 0)
        else if k < s then 0 else blockDiag (squares rest) (fun p => G (p + 1)) (i - s) (k - s) := by
  simp [squares, blockDiag]

/-- The bilinear form of a block-diagonal matrix is the sum of the bilinear forms of its
blocks on the corresponding slices of the vectors. -/
theorem bil_blockDiag : ∀ (sizes : List ℕ) (G : ℕ → ℕ → ℕ → ℚ) (x y : ℕ → ℚ),
    bil sizes.sum (blockDiag (squares sizes) G) x y
      = ∑ p ∈ range sizes.length, bil (sizes.getD p 0) (G p)
          (fun j => x (off sizes p + j)) (fun j => y (off sizes p + j)) := by
  intro sizes
  induction sizes with
  | nil => intro G x y; simp [bil, dot]
  | cons s rest ih =>
    intro G x y
    rw [List.sum_cons, List.length_cons, Finset.sum_range_succ']
    have hrest : ∑ p ∈ range rest.length, bil ((s :: rest).getD (p + 1) 0) (G (p + 1))
          (fun j => x (off (s :: rest) (p + 1) + j)) (fun j => y (off (s :: rest) (p + 1) + j))
        = bil rest.sum (blockDiag (squares rest) (fun p => G (p + 1))) (fun j => x (s + j)) (fun j => y (s + j)) := by
      rw [ih]
      apply Finset.sum_congr rfl; intro p _
      simp only [List.getD_cons_succ, off_cons_succ, Nat.add_assoc]
    rw [hrest]
    simp only [List.getD_cons_zero, off_zero, Nat.zero_add]
    unfold bil dot mulVec
    rw [Finset.sum_range_add, add_comm]
    congr 1
    · apply Finset.sum_congr rfl; intro i hi
      congr 1
      rw [Finset.sum_range_add]
      have h1 : ∑ k ∈ range s, blockDiag (squares (s :: rest)) G (s + i) k * y k = 0 := by
        apply Finset.sum_eq_zero; intro k hk
        have hk' := mem_range.mp hk
        rw [blockDiag_squares_cons]
        have : ¬ (s + i < s) := by omega
        simp [this, hk']
      rw [h1, zero_add]
      apply Finset.sum_congr rfl; intro k _
      rw [blockDiag_squares_cons]
      have a1 : ¬ (s + i < s) := by omega
      have a2 : ¬ (s + k < s) := by omega
      simp [a1, a2]
    · apply Finset.sum_congr rfl; intro i hi
      have hi' := mem_range.mp hi
      congr 1
      rw [Finset.sum_range_add]
      have h1 : ∑ k ∈ range rest.sum, blockDiag (squares (s :: rest)) G i (s + k) * y (s + k) = 0 := by
        apply Finset.sum_eq_zero; intro k _
        rw [blockDiag_squares_cons]
        have : ¬ (s + k < s) := by omega
        simp [hi', this]
      rw [h1, add_zero]
      apply Finset.sum_congr rfl; intro k hk
      have hk' := mem_range.mp hk
      rw [blockDiag_squares_cons]
      simp [hi', hk']

theorem dot_add_left (M : ℕ) (x x' y : ℕ → ℚ) :
    dot M (fun i => x i + x' i) y = dot M x y + dot M x' y := by
  unfold dot; rw [← Finset.sum_add_distrib]; apply Finset.sum_congr rfl; intro i _; ring

theorem dot_add_right (M : ℕ) (x y y' : ℕ → ℚ) :
    dot M x (fun i => y i + y' i) = dot M x y + dot M x y' := by
  rw [dot_comm, dot_add_left, dot_comm M y, dot_comm M y']

theorem mulVec_add (M : ℕ) (A : ℕ → ℕ → ℚ) (x x' : ℕ → ℚ) (i : ℕ) :
    mulVec M A (fun k => x k + x' k) i = mulVec M A x i + mulVec M A x' i := by
  unfold mulVec; rw [← Finset.sum_add_distrib]; apply Finset.sum_congr rfl; intro k _; ring

theorem mulVec_smul (M : ℕ) (A : ℕ → ℕ → ℚ) (x : ℕ → ℚ) (a : ℚ) (i : ℕ) :
    mulVec M A (fun k => a * x k) i = a * mulVec M A x i := by
  unfold mulVec; rw [Finset.mul_sum]; apply Finset.sum_congr rfl; intro k _; ring

/-- The uncentred second moment is the covariance plus `N/(N−1)` times the outer product of the
column means. -/
theorem secondMoment_eq_cov_add (N : ℕ) (hN : 2 ≤ N) (ξ : ℕ → ℕ → ℚ) (j k : ℕ) :
    secondMoment N ξ j k
      = cov N ξ j k + (N : ℚ) / ((N : ℚ) - 1) * (colMean N ξ j * colMean N ξ k) := by
  have hN' : (2 : ℚ) ≤ N := by exact_mod_cast hN
  have h1 : (N : ℚ) - 1 ≠ 0 := by linarith
  have h0 : (N : ℚ) ≠ 0 := by linarith
  have hs : ∀ a, ∑ i ∈ range N, ξ i a = N * colMean N ξ a := by
    intro a; unfold colMean; field_simp
  unfold cov secondMoment center
  have e : ∑ i ∈ range N, (ξ i j - colMean N ξ j) * (ξ i k - colMean N ξ k)
      = ∑ i ∈ range N, ξ i j * ξ i k - N * (colMean N ξ j * colMean N ξ k) := by
    have : ∀ i, (ξ i j - colMean N ξ j) * (ξ i k - colMean N ξ k)
        = ξ i j * ξ i k - colMean N ξ k * ξ i j - colMean N ξ j * ξ i k + colMean N ξ j * colMean N ξ k := by
      intro i; ring
    simp_rw [this, Finset.sum_add_distrib, Finset.sum_sub_distrib, ← Finset.mul_sum, hs]
    simp only [Finset.sum_const, Finset.card_range, nsmul_eq_mul]
    ring
  rw [e]
  field_simp
  ring

/-- **What the centring defect explains.**  If `(ν_m, c_m)`, `(ν_l, c_l)` are right eigenpairs of the
matrix handed to the solver (no centring assumed), the numerator of the product-space Gram matrix of
the coded weights is
`ν_l c_mᵀQc_l + κ(μ·c_m)(μ·c_l)(ν_m + ν_l) + κ²(μ·c_m)(μ·c_l) μᵀBμ` with `μ` the column means of the
univariate scores and `κ = N/(N−1)`. -/
theorem prodGram_uncentred (M N : ℕ) (hN : 2 ≤ N) (U ξ c : ℕ → ℕ → ℚ) (ν : ℕ → ℚ) (m l : ℕ)
    (hm : ∀ i < M, mulVec M (solverMatrix M N U ξ) (col c m) i = ν m * c i m)
    (hl : ∀ i < M, mulVec M (solverMatrix M N U ξ) (col c l) i = ν l * c i l) :
    prodGramNum M (gramOfFactor M U) (weights M N ξ c) m l
      = ν l * bil M (cov N ξ) (col c m) (col c l)
        + (N : ℚ) / ((N : ℚ) - 1) * (dot M (colMean N ξ) (col c m) * dot M (colMean N ξ) (col c l)) * (ν m + ν l)
        + ((N : ℚ) / ((N : ℚ) - 1)) ^ 2 * (dot M (colMean N ξ) (col c m) * dot M (colMean N ξ) (col c l))
            * bil M (gramOfFactor M U) (colMean N ξ) (colMean N ξ) := by
  set κ : ℚ := (N : ℚ) / ((N : ℚ) - 1) with hκ
  set μ := colMean N ξ with hμ
  set B := gramOfFactor M U with hBdef
  set Q := cov N ξ with hQdef
  have hB : ∀ i < M, ∀ j < M, B i j = B j i := fun i _ j _ => gramOfFactor_symm M U i j
  have hQ : ∀ i < M, ∀ j < M, Q i j = Q j i := fun i _ j _ => cov_symm N ξ i j
  -- columns of the weights
  have hW : ∀ a j, col (weights M N ξ c) a j
      = mulVec M Q (col c a) j + κ * dot M μ (col c a) * μ j := by
    intro a j
    show mulVec M (secondMoment N ξ) (col c a) j = _
    unfold mulVec dot
    rw [Finset.mul_sum, Finset.sum_mul, ← Finset.sum_add_distrib]
    apply Finset.sum_congr rfl; intro k _
    rw [secondMoment_eq_cov_add N hN]
    ring
  have hBQ : ∀ a, (∀ i < M, mulVec M (solverMatrix M N U ξ) (col c a) i = ν a * c i a) →
      ∀ i < M, mulVec M B (mulVec M Q (col c a)) i = ν a * col c a i := by
    intro a ha i hi
    rw [← mulVec_matMul]; exact ha i hi
  unfold prodGramNum bil
  have e1 : ∀ i < M, mulVec M B (col (weights M N ξ c) l) i
      = ν l * col c l i + κ * dot M μ (col c l) * mulVec M B μ i := by
    intro i hi
    have : mulVec M B (col (weights M N ξ c) l) i
        = mulVec M B (fun j => mulVec M Q (col c l) j + (κ * dot M μ (col c l)) * μ j) i :=
      mulVec_congr B (fun j _ => hW l j) i
    rw [this, mulVec_add, mulVec_smul, hBQ l hl i hi]
  rw [dot_congr_right _ e1, dot_congr_left _ (fun j _ => hW m j)]
  rw [dot_add_left, dot_add_right, dot_add_right]
  -- the four terms
  have t1 : dot M (mulVec M Q (col c m)) (fun i => ν l * col c l i) = ν l * dot M (col c m) (mulVec M Q (col c l)) := by
    rw [dot_smul_right, dot_mulVec_symm M Q hQ]
  have t2 : dot M (mulVec M Q (col c m)) (fun i => κ * dot M μ (col c l) * mulVec M B μ i)
      = κ * dot M μ (col c l) * (ν m * dot M μ (col c m)) := by
    rw [dot_smul_right]
    congr 1
    rw [dot_comm, dot_mulVec_symm M B hB, dot_congr_right _ (hBQ m hm), dot_smul_right]
  have t3 : dot M (fun j => κ * dot M μ (col c m) * μ j) (fun i => ν l * col c l i)
      = κ * dot M μ (col c m) * (ν l * dot M μ (col c l)) := by
    rw [dot_smul_left, dot_smul_right]
  have t4 : dot M (fun j => κ * dot M μ (col c m) * μ j) (fun i => κ * dot M μ (col c l) * mulVec M B μ i)
      = κ * dot M μ (col c m) * (κ * dot M μ (col c l) * dot M μ (mulVec M B μ)) := by
    rw [dot_smul_left, dot_smul_right]
  rw [t1, t2, t3, t4]
  ring

theorem inner_sum_right (n s : ℕ) (t x : ℕ → ℚ) (φ : ℕ → ℕ → ℚ) (b : ℕ → ℚ) :
    inner n t x (fun u => ∑ k ∈ range s, b k * φ k u) = ∑ k ∈ range s, b k * inner n t x (φ k) := by
  unfold inner
  have h : (fun j => x j * ∑ k ∈ range s, b k * φ k j) = fun j => ∑ k ∈ range s, b k * (x j * φ k j) := by
    funext j; rw [Finset.mul_sum]; apply Finset.sum_congr rfl; intro k _; ring
  rw [h, trapz_sum]
  apply Finset.sum_congr rfl; intro k _
  rw [trapz_smul]

theorem inner_comm' (n : ℕ) (t x y : ℕ → ℚ) : inner n t x y = inner n t y x := by
  unfold inner; congr 1; funext j; ring

theorem inner_sum_left (n s : ℕ) (t y : ℕ → ℚ) (φ : ℕ → ℕ → ℚ) (a : ℕ → ℚ) :
    inner n t (fun u => ∑ k ∈ range s, a k * φ k u) y = ∑ k ∈ range s, a k * inner n t (φ k) y := by
  rw [inner_comm', inner_sum_right]
  apply Finset.sum_congr rfl; intro k _; rw [inner_comm']

/-- Product-space inner product of the Gram-route numerators = bilinear form of the SUM of the
(uncentred-by-σ) component Gram matrices. -/
theorem prodInner_gramEigenNum (P N : ℕ) (n : ℕ → ℕ) (t : ℕ → ℕ → ℚ) (D : ℕ → ℕ → ℕ → ℚ)
    (v : ℕ → ℕ → ℚ) (k m : ℕ) :
    prodInner P n t (fun p => gramEigenNum N (D p) v k) (fun p => gramEigenNum N (D p) v m)
      = ∑ p ∈ range P, bil N (basisGram (n p) (t p) (D p)) (col v k) (col v m) := by
  unfold prodInner
  apply Finset.sum_congr rfl; intro p _
  exact inner_lincomb (n p) N (t p) (D p) (col v k) (col v m)

theorem bil_sum (P N : ℕ) (A : ℕ → ℕ → ℕ → ℚ) (x y : ℕ → ℚ) :
    bil N (fun i k => ∑ p ∈ range P, A p i k) x y = ∑ p ∈ range P, bil N (A p) x y := by
  unfold bil dot mulVec
  conv_rhs => rw [Finset.sum_comm]
  apply Finset.sum_congr rfl; intro i _
  rw [← Finset.mul_sum]; congr 1
  rw [Finset.sum_comm]
  apply Finset.sum_congr rfl; intro k _
  rw [Finset.sum_mul]

/-- The sum of the component Gram matrices is the matrix handed to the solver plus the total noise
shift on the diagonal. -/
theorem bil_gramRoute (P N : ℕ) (n : ℕ → ℕ) (t : ℕ → ℕ → ℚ) (D : ℕ → ℕ → ℕ → ℚ) (σ2 : ℕ → ℚ)
    (x y : ℕ → ℚ) :
    ∑ p ∈ range P, bil N (basisGram (n p) (t p) (D p)) x y
      = bil N (gramRouteMatrix P n t D σ2) x y + (∑ p ∈ range P, σ2 p) * dot N x y := by
  rw [← bil_sum]
  unfold gramRouteMatrix bil dot mulVec
  rw [Finset.mul_sum, ← Finset.sum_add_distrib]
  apply Finset.sum_congr rfl; intro i hi
  have hS : (∑ p ∈ range P, σ2 p) * y i = ∑ k ∈ range N, (if i = k then ∑ p ∈ range P, σ2 p else 0) * y k := by
    simp [Finset.sum_ite_eq, mem_range.mp hi]
  have hk : ∑ k ∈ range N, (∑ p ∈ range P, basisGram (n p) (t p) (D p) i k) * y k
      = ∑ k ∈ range N, (∑ p ∈ range P, (basisGram (n p) (t p) (D p) i k - if i = k then σ2 p else 0)) * y k
        + (∑ p ∈ range P, σ2 p) * y i := by
    rw [hS, ← Finset.sum_add_distrib]
    apply Finset.sum_congr rfl; intro k _
    rw [← add_mul]
    congr 1
    rw [Finset.sum_sub_distrib]
    by_cases h : i = k
    · simp [h]
    · simp [h]
  simp only []
  rw [hk]; ring

end FDA.MFPCA
