/-
C04 — MFPCA: orthonormal product-space eigenfunctions and coherent scores.
Only property theorems and non-vacuity examples; helper lemmas are in
`FDAProofs/Lemmas/MFPCA.lean`, the model in `FDAModel/MFPCA.lean`.
-/
import FDAProofs.Lemmas.MFPCA
import FDAModel.Generated.MfpcaBlocks
import Mathlib.Tactic.IntervalCases
import Mathlib.Tactic.NormNum

namespace C04
open FDA FDA.MFPCA Finset

/-! ## Orthonormality in the product space -/

/-- Eigenvectors of the (non-symmetric) matrix `B·Q` handed to the solver, for distinct
eigenvalues, are `Q`-orthogonal (`B`, `Q` symmetric; any size). -/
theorem q_orthogonal (M : ℕ) (B Q : ℕ → ℕ → ℚ)
    (hB : ∀ i < M, ∀ j < M, B i j = B j i) (hQ : ∀ i < M, ∀ j < M, Q i j = Q j i)
    (c d : ℕ → ℚ) (ν μ : ℚ)
    (hc : ∀ i < M, mulVec M (matMul M B Q) c i = ν * c i)
    (hd : ∀ i < M, mulVec M (matMul M B Q) d i = μ * d i) (hne : ν ≠ μ) :
    bil M Q c d = 0 :=
  FDA.MFPCA.q_orthogonal M B Q hB hQ c d ν μ hc hd hne

example : bil 2 (fun i j => if i = j then (1 : ℚ) else 0) (fun i => if i = 0 then 1 else 0)
    (fun i => if i = 1 then 1 else 0) = 0 :=
  q_orthogonal 2 (fun i j => if i = j then (if i = 0 then 2 else 3) else 0)
    (fun i j => if i = j then 1 else 0) (by intro i _ j _; by_cases h : i = j <;> simp [h, eq_comm])
    (by intro i _ j _; by_cases h : i = j <;> simp [h, eq_comm]) _ _ 2 3
    (by intro i hi; interval_cases i <;> simp [mulVec, matMul, Finset.sum_range_succ])
    (by intro i hi; interval_cases i <;> simp [mulVec, matMul, Finset.sum_range_succ])
    (by norm_num)

/-- The statement the property makes about the coded eigenfunction coefficients, root-free:
for every stacked score matrix, Cholesky factor and solver output satisfying the eigen-equation
with pairwise distinct positive eigenvalues, `W_mᵀ B W_l = 0` for `m ≠ l` and
`W_mᵀ B W_m = ν_m · ‖ξ c_m‖²/(N−1)` (then `a_m = W_m/ρ_m`, `ρ_m² =` that number, are
orthonormal for `B`, i.e. the eigenfunctions are orthonormal in the product space). -/
def full_statement : Prop :=
  ∀ (M N K : ℕ) (U ξ c : ℕ → ℕ → ℚ) (ν : ℕ → ℚ),
    (∀ m < K, ∀ i < M, mulVec M (solverMatrix M N U ξ) (col c m) i = ν m * c i m) →
    (∀ m < K, 0 < ν m) → (∀ m < K, ∀ l < K, m ≠ l → ν m ≠ ν l) →
    ∀ m < K, ∀ l < K, prodGramNum M (gramOfFactor M U) (weights M N ξ c) m l
      = if m = l then rhoSq M N ξ c ν m else 0

/-- **Orthonormality, proved part**: the full statement holds whenever the univariate
scores are column-centred (any sizes, any number of components; positivity of the
eigenvalues is not even needed for the root-free form). -/
theorem orthonormal_product_partial (M N K : ℕ) (U ξ c : ℕ → ℕ → ℚ) (ν : ℕ → ℚ)
    (hcent : ∀ j < M, colMean N ξ j = 0)
    (heig : ∀ m < K, ∀ i < M, mulVec M (solverMatrix M N U ξ) (col c m) i = ν m * c i m)
    (hdist : ∀ m < K, ∀ l < K, m ≠ l → ν m ≠ ν l) :
    ∀ m < K, ∀ l < K, prodGramNum M (gramOfFactor M U) (weights M N ξ c) m l
      = if m = l then rhoSq M N ξ c ν m else 0 := by
  intro m hm l hl
  rw [prodGram_eq M N U ξ c ν hcent m l (heig l hl)]
  by_cases h : m = l
  · subst h
    simp only [if_true]
    unfold rhoSq
    rw [normSqProj_eq_bil]
    congr 1
    exact (bil_congr_mat _ _ (fun i hi k hk => secondMoment_eq_cov_of_centred N M ξ hcent hi hk)).symm
  · simp only [h, if_false]
    have := FDA.MFPCA.q_orthogonal M (gramOfFactor M U) (cov N ξ)
      (fun i _ j _ => gramOfFactor_symm M U i j) (fun i _ j _ => cov_symm N ξ i j)
      (col c m) (col c l) (ν m) (ν l) (heig m hm) (heig l hl) (hdist m hm l hl h)
    rw [this]; ring

/-- With the roots `ρ_m` (`ρ_m² = ν_m·‖ξ c_m‖²/(N−1)`, non-zero) the coded coefficients
`a_m = W_m/ρ_m` are orthonormal for the block-diagonal Gram matrix `B` of the univariate
bases: `a_mᵀ B a_l = δ_ml`. -/
theorem orthonormal_coefficients_partial (M N K : ℕ) (U ξ c : ℕ → ℕ → ℚ) (ν ρ : ℕ → ℚ)
    (hcent : ∀ j < M, colMean N ξ j = 0)
    (heig : ∀ m < K, ∀ i < M, mulVec M (solverMatrix M N U ξ) (col c m) i = ν m * c i m)
    (hdist : ∀ m < K, ∀ l < K, m ≠ l → ν m ≠ ν l)
    (hρ : ∀ m < K, ρ m ^ 2 = rhoSq M N ξ c ν m) (hρ0 : ∀ m < K, ρ m ≠ 0) :
    ∀ m < K, ∀ l < K,
      bil M (gramOfFactor M U) (col (eigenCoef ρ (weights M N ξ c)) m)
        (col (eigenCoef ρ (weights M N ξ c)) l) = if m = l then 1 else 0 := by
  intro m hm l hl
  have key := orthonormal_product_partial M N K U ξ c ν hcent heig hdist m hm l hl
  have e : bil M (gramOfFactor M U) (col (eigenCoef ρ (weights M N ξ c)) m)
      (col (eigenCoef ρ (weights M N ξ c)) l)
      = prodGramNum M (gramOfFactor M U) (weights M N ξ c) m l / (ρ m * ρ l) := by
    unfold prodGramNum bil dot mulVec col eigenCoef
    rw [Finset.sum_div]
    apply Finset.sum_congr rfl; intro j _
    rw [Finset.mul_sum, Finset.mul_sum, Finset.sum_div]
    apply Finset.sum_congr rfl; intro k _
    have := hρ0 m hm; have := hρ0 l hl
    field_simp
  rw [e, key]
  by_cases h : m = l
  · subst h
    simp only [if_true]
    rw [← hρ m hm]; have := hρ0 m hm; field_simp
  · simp [h]

/-- **The code violates the full statement**: one component, one basis function
(`B = 1`), two observations with scores `1, 3` (column mean `2`): the solver matrix is
`cov = 2`, eigenpair `(2, 1)`, but `W = 10`, so `WᵀBW = 100 ≠ 2·10`. -/
theorem counterexample : ¬ full_statement := by
  intro h
  have := h 1 2 1 (fun _ _ => 1) (fun i _ => if i = 0 then 1 else 3) (fun _ _ => 1) (fun _ => 2)
    (by intro m _ i hi; interval_cases i
        simp [mulVec, solverMatrix, matMul, gramOfFactor, tr, cov, secondMoment, center, colMean, col,
          Finset.sum_range_succ]
        norm_num)
    (by intro m _; norm_num) (by intro m hm l hl hne; omega) 0 (by norm_num) 0 (by norm_num)
  simp [prodGramNum, bil, dot, mulVec, col, weights, matMul, secondMoment, gramOfFactor, tr, rhoSq,
    normSqProj, normSqProjOf, pace, Finset.sum_range_succ] at this
  norm_num at this

/-- **What the open centring finding explains, exactly.**  Without any centring assumption, if
`(ν_m, c_m)` and `(ν_l, c_l)` are RIGHT eigenpairs of the matrix handed to the solver, the numerator
of the product-space Gram matrix of the coded weights is
`ν_l c_mᵀQc_l + κ(μ·c_m)(μ·c_l)(ν_m + ν_l) + κ²(μ·c_m)(μ·c_l) μᵀBμ` (`μ` = column means of the
univariate scores, `κ = N/(N−1)`).  The oracle uses this to refuse the cause flag
`univariate_scores_not_centred` for any orthonormality defect the column means do not account for
(e.g. left instead of right eigenvectors). -/
theorem defect_explained_by_means (M N : ℕ) (hN : 2 ≤ N) (U ξ c : ℕ → ℕ → ℚ) (ν : ℕ → ℚ) (m l : ℕ)
    (hm : ∀ i < M, mulVec M (solverMatrix M N U ξ) (col c m) i = ν m * c i m)
    (hl : ∀ i < M, mulVec M (solverMatrix M N U ξ) (col c l) i = ν l * c i l) :
    prodGramNum M (gramOfFactor M U) (weights M N ξ c) m l
      = ν l * bil M (cov N ξ) (col c m) (col c l)
        + (N : ℚ) / ((N : ℚ) - 1) * (dot M (colMean N ξ) (col c m) * dot M (colMean N ξ) (col c l)) * (ν m + ν l)
        + ((N : ℚ) / ((N : ℚ) - 1)) ^ 2 * (dot M (colMean N ξ) (col c m) * dot M (colMean N ξ) (col c l))
            * bil M (gramOfFactor M U) (colMean N ξ) (colMean N ξ) :=
  prodGram_uncentred M N hN U ξ c ν m l hm hl

/-- The uncentred second moment used for the weights is the covariance plus `N/(N−1)·μμᵀ`. -/
theorem second_moment_decomposition (N : ℕ) (hN : 2 ≤ N) (ξ : ℕ → ℕ → ℚ) (j k : ℕ) :
    secondMoment N ξ j k
      = cov N ξ j k + (N : ℚ) / ((N : ℚ) - 1) * (colMean N ξ j * colMean N ξ k) :=
  secondMoment_eq_cov_add N hN ξ j k

example : secondMoment 2 (fun i _ => if i = 0 then 1 else 3) 0 0
    = cov 2 (fun i _ => if i = 0 then 1 else 3) 0 0 + (2 : ℚ) / (2 - 1) * (colMean 2 (fun i _ => if i = 0 then 1 else 3) 0 * colMean 2 (fun i _ => if i = 0 then 1 else 3) 0) := by
  have := second_moment_decomposition 2 (le_refl 2) (fun i _ => if i = 0 then (1 : ℚ) else 3) 0 0
  simpa using this

/-- The matrix `cholesky_matrix.T @ cholesky_matrix` is symmetric and positive
semi-definite whatever the captured factor is: `xᵀ(UᵀU)x = ‖Ux‖² ≥ 0` (so the product-space
form used above is a genuine semi-inner product). -/
theorem gram_of_factor_psd (M : ℕ) (U : ℕ → ℕ → ℚ) (x : ℕ → ℚ) :
    bil M (gramOfFactor M U) x x = dot M (mulVec M U x) (mulVec M U x) ∧
      0 ≤ bil M (gramOfFactor M U) x x := by
  have adj : ∀ y : ℕ → ℚ, dot M x (mulVec M (tr U) y) = dot M (mulVec M U x) y := by
    intro y
    unfold dot mulVec tr
    simp_rw [Finset.mul_sum, Finset.sum_mul]
    rw [Finset.sum_comm]
    apply Finset.sum_congr rfl; intro k _
    apply Finset.sum_congr rfl; intro i _
    ring
  have h : bil M (gramOfFactor M U) x x = dot M (mulVec M U x) (mulVec M U x) := by
    unfold bil gramOfFactor
    rw [dot_congr_right _ (fun i _ => mulVec_matMul M (tr U) U x i), adj]
  refine ⟨h, ?_⟩
  rw [h]
  unfold dot
  exact Finset.sum_nonneg (fun i _ => mul_self_nonneg _)

/-- The normalisation divisor is a sum of squares: `‖ξ c_m‖²/(N−1) ≥ 0` for `N ≥ 2`, and it
equals `c_mᵀ Q̃ c_m` with `Q̃` the UNcentred second moment (what the code uses for the
eigenfunction weights — the covariance `Q` only when the scores are centred). -/
theorem normSqProj_spec (M N : ℕ) (hN : 2 ≤ N) (ξ c : ℕ → ℕ → ℚ) (m : ℕ) :
    0 ≤ normSqProj M N ξ c m ∧
      normSqProj M N ξ c m = bil M (secondMoment N ξ) (col c m) (col c m) := by
  refine ⟨?_, normSqProj_eq_bil M N ξ c m⟩
  unfold normSqProj normSqProjOf
  apply div_nonneg
  · exact Finset.sum_nonneg (fun i _ => mul_self_nonneg _)
  · have : (2 : ℚ) ≤ N := by exact_mod_cast hN
    linarith

/-! ## Block assembly -/

/-- **Block assembly**: entry `(a, b)` of block `p` is found at row `rowOff p + a`, column
`colOff p + b` — arbitrary, different, also rectangular block shapes. -/
theorem blockDiag_spec (shapes : List (ℕ × ℕ)) (blk : ℕ → ℕ → ℕ → ℚ) (p rr cc a b : ℕ)
    (hp : shapes[p]? = some (rr, cc)) (ha : a < rr) (hb : b < cc) :
    blockDiag shapes blk (rowOff shapes p + a) (colOff shapes p + b) = blk p a b :=
  blockDiag_block shapes blk p rr cc a b hp ha hb

example : blockDiag [(1, 2), (2, 1)] (fun p a b => (p : ℚ) * 10 + a + b) (1 + 1) (2 + 0) = 11 := by
  have := blockDiag_spec [(1, 2), (2, 1)] (fun p a b => (p : ℚ) * 10 + a + b) 1 2 1 1 0 rfl (by norm_num) (by norm_num)
  norm_num [rowOff, colOff] at this ⊢
  exact this

/-- … and every entry outside the diagonal blocks is zero: a non-zero entry has its row and
its column in the ranges of one and the same block. -/
theorem blockDiag_off_block_zero (shapes : List (ℕ × ℕ)) (blk : ℕ → ℕ → ℕ → ℚ) (i j : ℕ)
    (h : ∀ p rr cc, shapes[p]? = some (rr, cc) →
      ¬ (rowOff shapes p ≤ i ∧ i < rowOff shapes p + rr ∧ colOff shapes p ≤ j ∧ j < colOff shapes p + cc)) :
    blockDiag shapes blk i j = 0 := by
  by_contra hne
  obtain ⟨p, rr, cc, hp, h1, h2, h3, h4⟩ := blockDiag_support shapes blk i j hne
  exact h p rr cc hp ⟨h1, h2, h3, h4⟩

example : blockDiag [(1, 2), (2, 1)] (fun _ _ _ => 7) 0 2 = 0 := by
  simp [blockDiag]

/-- **The product-space inner product is the block-diagonal bilinear form.**  For
functions given in every component as linear combinations of that component's basis
functions on its own grid (different sizes, grids, domains), `Σ_p ⟨f_p, g_p⟩ = aᵀ B b`
with `B` the block-diagonal assembly of the basis Gram matrices and `a`, `b` the stacked
coefficients. -/
theorem product_inner_eq_bilinear (sizes : List ℕ) (n : ℕ → ℕ) (t : ℕ → ℕ → ℚ)
    (φ : ℕ → ℕ → ℕ → ℚ) (a b : ℕ → ℚ) :
    prodInner sizes.length n t
        (fun p u => ∑ j ∈ range (sizes.getD p 0), a (off sizes p + j) * φ p j u)
        (fun p u => ∑ j ∈ range (sizes.getD p 0), b (off sizes p + j) * φ p j u)
      = bil sizes.sum (blockDiag (squares sizes) fun p => basisGram (n p) (t p) (φ p)) a b := by
  rw [bil_blockDiag]
  unfold prodInner
  apply Finset.sum_congr rfl; intro p _
  exact inner_lincomb (n p) (sizes.getD p 0) (t p) (φ p) _ _

/-! ## Scores -/

/-- **Centred scores**: a linear univariate decomposition (`ξ_ij = Σ_t A_jt x_it`) of
column-centred data has column-centred scores — the hypothesis of
`orthonormal_product_partial` is met by such expansions. -/
theorem centred_scores (N n : ℕ) (A x : ℕ → ℕ → ℚ) (hx : ∀ t < n, colMean N x t = 0) (j : ℕ) :
    colMean N (fun i j => ∑ t ∈ range n, A j t * x i t) j = 0 := by
  rw [colMean_lin]
  apply Finset.sum_eq_zero; intro t ht
  rw [hx t (mem_range.mp ht)]; ring

example : colMean 2 (fun i j => ∑ t ∈ range 1, ((j : ℚ) + 1) * (if i = 0 then 1 else -1)) 3 = 0 :=
  centred_scores 2 1 (fun j _ => (j : ℚ) + 1) (fun i _ => if i = 0 then 1 else -1)
    (by intro t _; simp [colMean, Finset.sum_range_succ]) 3

/-- PACE scores of column-centred univariate scores are column-centred. -/
theorem pace_centred (M N : ℕ) (ξ c : ℕ → ℕ → ℚ) (h : ∀ k < M, colMean N ξ k = 0) (m : ℕ) :
    colMean N (pace M ξ c) m = 0 := by
  rw [colMean_pace]
  apply Finset.sum_eq_zero; intro k hk
  rw [h k (mem_range.mp hk)]; ring

/-- The sample covariance of two PACE score columns is `c_mᵀ cov(ξ) c_l` (any scores, any
vectors). -/
theorem pace_covariance (M N : ℕ) (ξ c : ℕ → ℕ → ℚ) (m l : ℕ) :
    cov N (pace M ξ c) m l = bil M (cov N ξ) (col c m) (col c l) :=
  cov_pace M N ξ c m l

/-- **PACE scores** with orthonormal univariate bases (univariate FPCA expansions:
`UᵀU = I`, so the matrix handed to the solver is the score covariance itself): for
orthonormal eigenvectors the scores are uncorrelated and their sample variances are the
eigenvalues. -/
theorem pace_scores (M N K : ℕ) (U ξ c : ℕ → ℕ → ℚ) (ν : ℕ → ℚ)
    (hI : ∀ i < M, ∀ j < M, gramOfFactor M U i j = if i = j then 1 else 0)
    (heig : ∀ m < K, ∀ i < M, mulVec M (solverMatrix M N U ξ) (col c m) i = ν m * c i m)
    (hon : ∀ m < K, ∀ l < K, dot M (col c m) (col c l) = if m = l then 1 else 0) :
    ∀ m < K, ∀ l < K, cov N (pace M ξ c) m l = if m = l then ν m else 0 := by
  intro m hm l hl
  rw [cov_pace]
  unfold bil
  have hQ : ∀ i < M, mulVec M (cov N ξ) (col c l) i = ν l * col c l i := by
    intro i hi
    show _ = ν l * c i l
    have hid : ∀ (y : ℕ → ℚ), mulVec M (gramOfFactor M U) y i = y i := by
      intro y
      unfold mulVec
      have : ∀ k ∈ range M, gramOfFactor M U i k * y k = if i = k then y k else 0 := by
        intro k hk
        rw [hI i hi k (mem_range.mp hk)]
        split_ifs <;> simp
      rw [Finset.sum_congr rfl this]
      simp [hi]
    rw [← heig l hl i hi]
    unfold solverMatrix
    rw [mulVec_matMul, hid]
  rw [dot_congr_right _ hQ, dot_smul_right, hon m hm l hl]
  by_cases h : m = l
  · subst h; simp
  · simp [h]

/-! ## inverse_transform -/

/-- **inverse_transform, per component**: the values returned for component `p` are the
mean plus `√weight` times a function of the span of that component's own basis, sampled on
that component's grid, with coefficients `S·aᵀ` (scores times eigenfunction coefficients). -/
theorem inverse_transform_basis (K s o : ℕ) (r : ℚ) (mean : ℕ → ℚ) (S a φ : ℕ → ℕ → ℚ) (i t : ℕ) :
    inverseTransform K r mean S (toGrid s o a φ) i t
      = mean t + r * ∑ j ∈ range s, (∑ m ∈ range K, S i m * a (o + j) m) * φ j t := by
  unfold inverseTransform toGrid
  rw [add_comm]
  congr 2
  simp_rw [Finset.mul_sum, Finset.sum_mul]
  rw [Finset.sum_comm]
  apply Finset.sum_congr rfl; intro j _
  apply Finset.sum_congr rfl; intro m _
  ring

/-- inverse_transform is affine in the scores, with the mean as offset. -/
theorem inverse_transform_affine (K : ℕ) (r : ℚ) (mean : ℕ → ℚ) (S S' ψ : ℕ → ℕ → ℚ) (α β : ℚ) (i t : ℕ) :
    inverseTransform K r mean (fun i m => α * S i m + β * S' i m) ψ i t
      = α * inverseTransform K r mean S ψ i t + β * inverseTransform K r mean S' ψ i t
        + (1 - α - β) * mean t := by
  unfold inverseTransform
  have : ∑ m ∈ range K, (α * S i m + β * S' i m) * ψ m t
      = α * ∑ m ∈ range K, S i m * ψ m t + β * ∑ m ∈ range K, S' i m * ψ m t := by
    rw [Finset.mul_sum, Finset.mul_sum, ← Finset.sum_add_distrib]
    apply Finset.sum_congr rfl; intro m _; ring
  rw [this]; ring

/-- With `r² = weight` the scaling of `inverse_transform` undoes the rescaling by
`1/√weight` applied before the fit: `(inverse − mean)² = weight · (Σ_m s_m ψ_m)²`. -/
theorem inverse_transform_weight (K : ℕ) (r w : ℚ) (hr : r ^ 2 = w) (mean : ℕ → ℚ) (S ψ : ℕ → ℕ → ℚ) (i t : ℕ) :
    (inverseTransform K r mean S ψ i t - mean t) ^ 2 = w * (∑ m ∈ range K, S i m * ψ m t) ^ 2 := by
  unfold inverseTransform
  rw [← hr]; ring

example : (inverseTransform 1 3 (fun _ => 1) (fun _ _ => 2) (fun _ _ => 5) 0 0 - 1) ^ 2 = 9 * (∑ m ∈ range 1, (2 : ℚ) * 5) ^ 2 :=
  inverse_transform_weight 1 3 9 (by norm_num) _ _ _ 0 0

/-! ## Permutation of the components

Listing the components in another order permutes the stacked coefficient index by a (block)
permutation `σ` of `range M`: `ξ'_{ik} = ξ_{i σ(k)}`, `B'_{jk} = B_{σ(j) σ(k)}`. -/

/-- The matrix handed to the solver is conjugated by the permutation. -/
theorem permutation_solver_matrix (M N : ℕ) (σ : Equiv.Perm ℕ) (hσ : ∀ i, σ i < M ↔ i < M)
    (B ξ : ℕ → ℕ → ℚ) (i j : ℕ) :
    matMul M (fun a b => B (σ a) (σ b)) (cov N fun i k => ξ i (σ k)) i j
      = matMul M B (cov N ξ) (σ i) (σ j) := by
  have : (cov N fun i k => ξ i (σ k)) = fun a b => cov N ξ (σ a) (σ b) := rfl
  rw [this]
  exact matMul_perm M σ hσ B (cov N ξ) i j

/-- **Permutation, eigenpairs**: `(ν, c∘σ)` is an eigenpair of the conjugated matrix whenever
`(ν, c)` is one of the original matrix: eigenvalues are unchanged, eigenvectors (hence the
eigenfunction components) are permuted. -/
theorem permutation_eigen (M : ℕ) (σ : Equiv.Perm ℕ) (hσ : ∀ i, σ i < M ↔ i < M) (Z : ℕ → ℕ → ℚ)
    (c : ℕ → ℚ) (ν : ℚ) (h : ∀ i < M, mulVec M Z c i = ν * c i) :
    ∀ i < M, mulVec M (fun a b => Z (σ a) (σ b)) (fun k => c (σ k)) i = ν * c (σ i) := by
  intro i hi
  rw [mulVec_perm M σ hσ]
  exact h (σ i) ((hσ i).mpr hi)

/-- **Permutation, scores**: the PACE scores are unchanged. -/
theorem permutation_scores (M : ℕ) (σ : Equiv.Perm ℕ) (hσ : ∀ i, σ i < M ↔ i < M) (ξ c : ℕ → ℕ → ℚ)
    (i m : ℕ) : pace M (fun i k => ξ i (σ k)) (fun k m => c (σ k) m) i m = pace M ξ c i m := by
  unfold pace
  exact sum_range_perm M σ hσ (fun k => ξ i k * c k m)

example : pace 2 (fun i k => ((Equiv.swap 0 1) k : ℚ) + i) (fun k _ => ((Equiv.swap 0 1) k : ℚ)) 3 0
    = pace 2 (fun i k => (k : ℚ) + i) (fun k _ => (k : ℚ)) 3 0 :=
  permutation_scores 2 (Equiv.swap 0 1)
    (by intro i; by_cases h0 : i = 0
        · subst h0; simp
        · by_cases h1 : i = 1
          · subst h1; simp
          · rw [Equiv.swap_apply_of_ne_of_ne h0 h1])
    (fun i k => (k : ℚ) + i) (fun k _ => (k : ℚ)) 3 0

/-! ## Gram (inner-product) route -/

/-- The matrix handed to the solver on the Gram route is symmetric. -/
theorem gram_route_symm (P : ℕ) (n : ℕ → ℕ) (t : ℕ → ℕ → ℚ) (D : ℕ → ℕ → ℕ → ℚ) (σ2 : ℕ → ℚ) (i k : ℕ) :
    gramRouteMatrix P n t D σ2 i k = gramRouteMatrix P n t D σ2 k i := by
  unfold gramRouteMatrix
  apply Finset.sum_congr rfl; intro p _
  have : basisGram (n p) (t p) (D p) i k = basisGram (n p) (t p) (D p) k i := inner_comm' _ _ _ _
  rw [this]
  by_cases h : i = k
  · subst h; rfl
  · have h' : ¬ k = i := fun e => h e.symm
    simp [h, h']

/-- **Product-space orthonormality on the Gram route.**  If `v_k`, `v_m` are orthonormal
eigenvectors (`G′v = l v`) of the matrix handed to the solver, the eigenfunction numerators
`D_pᵀv` satisfy `Σ_p ⟨D_pᵀv_k, D_pᵀv_m⟩ = (l_m + Σ_p σ_p²)·δ_km`: after division by `√l` the
eigenfunctions are orthogonal, with squared norm `(l + σ²)/l` — exactly `1` in the noise-free
case (no distinct-eigenvalue hypothesis). -/
theorem gram_route_orthonormal (P N : ℕ) (n : ℕ → ℕ) (t : ℕ → ℕ → ℚ) (D : ℕ → ℕ → ℕ → ℚ) (σ2 : ℕ → ℚ)
    (v : ℕ → ℕ → ℚ) (l : ℕ → ℚ) (k m : ℕ)
    (hm : ∀ i < N, mulVec N (gramRouteMatrix P n t D σ2) (col v m) i = l m * v i m)
    (hon : dot N (col v k) (col v m) = if k = m then 1 else 0) :
    prodInner P n t (fun p => gramEigenNum N (D p) v k) (fun p => gramEigenNum N (D p) v m)
      = if k = m then l m + ∑ p ∈ range P, σ2 p else 0 := by
  rw [prodInner_gramEigenNum, bil_gramRoute P N n t D σ2]
  unfold bil
  have e : (fun i => l m * v i m) = fun i => l m * col v m i := rfl
  rw [dot_congr_right _ hm, e, dot_smul_right, hon]
  by_cases h : k = m <;> simp [h]

/-- Noise-free case with the roots `ρ_k² = l_k ≠ 0`: the coded eigenfunctions are orthonormal
in the product space. -/
theorem gram_route_orthonormal_noise_free (P N : ℕ) (n : ℕ → ℕ) (t : ℕ → ℕ → ℚ) (D : ℕ → ℕ → ℕ → ℚ)
    (v : ℕ → ℕ → ℚ) (l ρ : ℕ → ℚ) (k m : ℕ)
    (hm : ∀ i < N, mulVec N (gramRouteMatrix P n t D fun _ => 0) (col v m) i = l m * v i m)
    (hon : dot N (col v k) (col v m) = if k = m then 1 else 0)
    (hρk : ρ k ≠ 0) (hρm : ρ m ≠ 0) (hρ : ρ m ^ 2 = l m) :
    prodInner P n t (fun p => gramEigenfunction N ρ (D p) v k) (fun p => gramEigenfunction N ρ (D p) v m)
      = if k = m then 1 else 0 := by
  have key := gram_route_orthonormal P N n t D (fun _ => 0) v l k m hm hon
  have e : prodInner P n t (fun p => gramEigenfunction N ρ (D p) v k) (fun p => gramEigenfunction N ρ (D p) v m)
      = prodInner P n t (fun p => gramEigenNum N (D p) v k) (fun p => gramEigenNum N (D p) v m) / (ρ k * ρ m) := by
    unfold prodInner
    rw [Finset.sum_div]
    apply Finset.sum_congr rfl; intro p _
    unfold gramEigenfunction inner trapz
    rw [Finset.sum_div]
    apply Finset.sum_congr rfl; intro j _
    field_simp
  rw [e, key]
  by_cases h : k = m
  · subst h
    simp only [if_true, Finset.sum_const_zero, add_zero]
    rw [← hρ]; field_simp
  · simp [h]

/-- **NumInt scores of the training curves = InnPro scores** (noise-free Gram route):
`Σ_p ⟨D_p[i], ψ_k^{(p)}⟩ = √l_k · v_ik`. -/
theorem gram_route_numint_eq_innpro (P N : ℕ) (n : ℕ → ℕ) (t : ℕ → ℕ → ℚ) (D : ℕ → ℕ → ℕ → ℚ)
    (v : ℕ → ℕ → ℚ) (l ρ : ℕ → ℚ) (k i : ℕ) (hi : i < N)
    (hk : ∀ i < N, mulVec N (gramRouteMatrix P n t D fun _ => 0) (col v k) i = l k * v i k)
    (hρ0 : ρ k ≠ 0) (hρ : ρ k ^ 2 = l k) :
    numIntScore P n t (fun p => D p i) (fun p => gramEigenfunction N ρ (D p) v) k
      = innProScores ρ v i k := by
  unfold numIntScore prodInner innProScores
  have h1 : ∀ p ∈ range P, inner (n p) (t p) (D p i) (gramEigenfunction N ρ (D p) v k)
      = (∑ j ∈ range N, basisGram (n p) (t p) (D p) i j * v j k) / ρ k := by
    intro p _
    have e : gramEigenfunction N ρ (D p) v k = fun u => ∑ j ∈ range N, (v j k / ρ k) * D p j u := by
      funext u; unfold gramEigenfunction gramEigenNum
      rw [Finset.sum_div]; apply Finset.sum_congr rfl; intro j _; ring
    rw [e, inner_sum_right, Finset.sum_div]
    apply Finset.sum_congr rfl; intro j _
    unfold basisGram; ring
  rw [Finset.sum_congr rfl h1, ← Finset.sum_div, Finset.sum_comm]
  have h2 : ∑ j ∈ range N, ∑ p ∈ range P, basisGram (n p) (t p) (D p) i j * v j k
      = mulVec N (gramRouteMatrix P n t D fun _ => 0) (col v k) i := by
    unfold mulVec gramRouteMatrix col
    apply Finset.sum_congr rfl; intro j _
    rw [Finset.sum_mul]
    apply Finset.sum_congr rfl; intro p _
    simp
  rw [h2, hk i hi, ← hρ]
  field_simp

/-- Sample second moments of the InnPro scores are the reported eigenvalues `l/n`:
`(1/N) Σ_i s_ik s_im = (l_k/N)·δ_km` for orthonormal eigenvectors. -/
theorem gram_route_score_moments (N : ℕ) (v : ℕ → ℕ → ℚ) (l ρ : ℕ → ℚ) (k m : ℕ)
    (hon : dot N (col v k) (col v m) = if k = m then 1 else 0) (hρ : ρ k ^ 2 = l k) :
    (∑ i ∈ range N, innProScores ρ v i k * innProScores ρ v i m) / N
      = if k = m then gramEigenvalue N l k else 0 := by
  have : ∑ i ∈ range N, innProScores ρ v i k * innProScores ρ v i m = ρ k * ρ m * dot N (col v k) (col v m) := by
    unfold innProScores dot col
    rw [Finset.mul_sum]; apply Finset.sum_congr rfl; intro i _; ring
  rw [this, hon]
  by_cases h : k = m
  · subst h; unfold gramEigenvalue; rw [← hρ]; simp only [if_true]; ring
  · simp [h]

/-- **Permutation on the Gram route is exact**: the matrix handed to the solver is a sum over the
components, so any reordering `π` of the components leaves it — hence eigenvalues and scores —
unchanged (no distinct-eigenvalue hypothesis, no sign ambiguity beyond the solver's). -/
theorem gram_route_permutation (P : ℕ) (π : Equiv.Perm ℕ) (hπ : ∀ p, π p < P ↔ p < P) (n : ℕ → ℕ)
    (t : ℕ → ℕ → ℚ) (D : ℕ → ℕ → ℕ → ℚ) (σ2 : ℕ → ℚ) (i k : ℕ) :
    gramRouteMatrix P (fun p => n (π p)) (fun p => t (π p)) (fun p => D (π p)) (fun p => σ2 (π p)) i k
      = gramRouteMatrix P n t D σ2 i k := by
  unfold gramRouteMatrix
  exact sum_range_perm P π hπ (fun p => basisGram (n p) (t p) (D p) i k - if i = k then σ2 p else 0)

/-! ## NumInt scores and round trips in the product space -/

/-- **NumInt scores of an expansion**: for eigenfunctions that are orthonormal in the product space,
the NumInt scores of `Σ_k a_k ψ_k` (component-wise, each on its own grid) are the `a_m`. -/
theorem numint_of_expansion (P K : ℕ) (n : ℕ → ℕ) (t : ℕ → ℕ → ℚ) (ψ : ℕ → ℕ → ℕ → ℚ) (a : ℕ → ℚ) (m : ℕ)
    (hm : m < K)
    (hon : ∀ k < K, prodInner P n t (fun p => ψ p k) (fun p => ψ p m) = if k = m then 1 else 0) :
    numIntScore P n t (fun p u => ∑ k ∈ range K, a k * ψ p k u) ψ m = a m := by
  unfold numIntScore prodInner
  have h : ∀ p ∈ range P, inner (n p) (t p) (fun u => ∑ k ∈ range K, a k * ψ p k u) (ψ p m)
      = ∑ k ∈ range K, a k * inner (n p) (t p) (ψ p k) (ψ p m) := fun p _ => inner_sum_left _ _ _ _ _ _
  rw [Finset.sum_congr rfl h, Finset.sum_comm]
  have h2 : ∀ k ∈ range K, ∑ p ∈ range P, a k * inner (n p) (t p) (ψ p k) (ψ p m)
      = a k * if k = m then 1 else 0 := by
    intro k hk
    rw [← Finset.mul_sum]
    congr 1
    exact hon k (mem_range.mp hk)
  rw [Finset.sum_congr rfl h2]
  simp [hm]

/-- **Round trip with normalisation, end to end.**  If the centred curve rescaled by `1/r`
(`r² = weight ≠ 0`, the rescaling `fit` applies with `normalize=True`) is the expansion
`Σ_m s_m ψ_m` of its scores, `inverse_transform` gives the curve back: mean `+ r·Σ_m s_m ψ_m`. -/
theorem normalize_roundtrip (K : ℕ) (r : ℚ) (hr : r ≠ 0) (mean x : ℕ → ℚ) (S ψ : ℕ → ℕ → ℚ) (i t : ℕ)
    (hx : (x t - mean t) / r = ∑ m ∈ range K, S i m * ψ m t) :
    inverseTransform K r mean S ψ i t = x t := by
  unfold inverseTransform
  rw [← hx]; field_simp; ring

example : inverseTransform 1 2 (fun _ => 1) (fun _ _ => 3) (fun _ _ => 1) 0 0 = 7 :=
  normalize_roundtrip 1 2 (by norm_num) (fun _ => 1) (fun _ => 7) _ _ 0 0 (by norm_num)

/-! ## Tie to the source: the bookkeeping of `mfpca.py` re-parsed on every run -/

/-- **The source's bookkeeping is the model's**: `ddof = 1` in both moments, transposed Cholesky
factors, `(C.T @ C) @ cov`, cumulated sizes starting at `0`, `start = cum[idx]`, `end = cum[idx+1]`,
row slice, both normalisation factors, `√weight` / `1` in `inverse_transform` — as re-parsed from
`mfpca.py` on this run (`harness/c04_translate.py`).  An off-by-one slice, swapped `start`/`end`, a
dropped factor, `weight` for `√weight`, another `ddof` or product order break this proof. -/
theorem source_blocks : FDA.Generated.mfpcaBlocks = codedBlockConsts := by
  decide

/-- With the coded constants the slice of component `p` is `[off p, off p + size_p)` — the offset
and size `toGrid`, `blockDiag_spec`, `bil_blockDiag`, `product_inner_eq_bilinear` use. -/
theorem coded_block_range : ∀ (sizes : List ℕ) (p : ℕ), p < sizes.length →
    blockRangeP codedBlockConsts sizes p = (off sizes p, off sizes p + sizes.getD p 0) := by
  intro sizes
  induction sizes with
  | nil => intro p hp; simp at hp
  | cons s rest ih =>
    intro p hp
    cases p with
    | zero => simp [blockRangeP, cumP, codedBlockConsts, off]
    | succ q =>
      have hq : q < rest.length := by simpa using hp
      have := ih q hq
      simp only [blockRangeP, cumP, codedBlockConsts, off, Nat.zero_add, Nat.add_zero, Prod.mk.injEq] at this ⊢
      obtain ⟨_, h2⟩ := this
      refine ⟨trivial, ?_⟩
      simp only [List.take_succ_cons, List.sum_cons, List.getD_cons_succ]
      omega

/-- The slices tile the stacked index: the first starts at `0`, each starts where the previous
ends, the last ends at the total number of coefficients. -/
theorem coded_blocks_tile (sizes : List ℕ) :
    (blockRangeP codedBlockConsts sizes 0).1 = 0 ∧
      (∀ p, (blockRangeP codedBlockConsts sizes p).2 = (blockRangeP codedBlockConsts sizes (p + 1)).1) ∧
      (sizes ≠ [] → (blockRangeP codedBlockConsts sizes (sizes.length - 1)).2 = sizes.sum) := by
  refine ⟨by simp [blockRangeP, cumP, codedBlockConsts], fun p => by simp [blockRangeP, cumP, codedBlockConsts], ?_⟩
  intro h
  have : sizes.length - 1 + 1 = sizes.length := by
    have := List.length_pos_iff.mpr h; omega
  simp [blockRangeP, cumP, codedBlockConsts, this]

/-- With the coded constants the parametrised solver matrix, divisor and back-scaling are the
ones all theorems above are about (`solverMatrix`, `rhoSq`, `r² = weight` / `1`). -/
theorem coded_bookkeeping (M N : ℕ) (U ξ c : ℕ → ℕ → ℚ) (ν : ℕ → ℚ) (m : ℕ) (w : ℚ) :
    solverMatrixP codedBlockConsts M N U ξ = solverMatrix M N U ξ ∧
      rhoSqP codedBlockConsts M N ξ c ν m = rhoSq M N ξ c ν m ∧
      backScaleSqP codedBlockConsts true w = w ∧ backScaleSqP codedBlockConsts false w = 1 := by
  refine ⟨?_, ?_, by simp [backScaleSqP, codedBlockConsts], by simp [backScaleSqP, codedBlockConsts]⟩
  · have hQ : secondMomentD 1 N (center N ξ) = secondMoment N (center N ξ) := by
      funext j k; simp [secondMomentD, secondMoment]
    funext i j
    simp [solverMatrixP, solverMatrix, codedBlockConsts, gramOfFactor, cov, hQ]
  · simp [rhoSqP, rhoSq, codedBlockConsts, normSqProj, normSqProjOf]

end C04
