/-
C05 — the P-spline fit is the explicit penalised weighted least-squares solution,
in one and in several dimensions.

Only property theorems and non-vacuity examples live here; helper lemmas are in
`FDAProofs/Lemmas/{PSplines,GLAM,BSpline}.lean`.  The theorems are about
`FDA.PSpline.*` (normal equations, fit relation, leverages; what `Drivers/C05.lean`
evaluates for 1-D) and `FDA.GLAM.*` (the array arithmetic the driver evaluates for 2-D
and 3-D); the `glam_*` theorems join the two for every basis size.
-/
import FDAProofs.Lemmas.PSplines
import FDAProofs.Lemmas.GLAM
import FDAProofs.Lemmas.Bases
import FDAProofs.Lemmas.Marsden
import FDAModel.Generated.PSplineFormulas

namespace C05
open FDA FDA.BSpline FDA.PSpline FDA.GLAM Finset Polynomial
open scoped fwdDiff

/-! ## Consequences of the normal equations (any dimension: `B` may be a Kronecker basis) -/

/-- The smoother is linear in the responses: the right-hand side `B W y` is linear in `y`, hence
linear combinations of fits are fits of the linear combinations, and so are the fitted values. -/
theorem linear (nb n : ℕ) (w : ℕ → ℚ) (B P : ℕ → ℕ → ℚ) (y₁ y₂ β₁ β₂ : ℕ → ℚ) (a c : ℚ)
    (h₁ : IsFit nb (normalMat n w B P) (bwy n w B y₁) β₁)
    (h₂ : IsFit nb (normalMat n w B P) (bwy n w B y₂) β₂) :
    IsFit nb (normalMat n w B P) (bwy n w B (fun i => a * y₁ i + c * y₂ i))
        (fun k => a * β₁ k + c * β₂ k)
      ∧ ∀ i, fitted nb B (fun k => a * β₁ k + c * β₂ k) i
          = a * fitted nb B β₁ i + c * fitted nb B β₂ i := by
  constructor
  · intro k hk
    have e1 : ∑ l ∈ range nb, normalMat n w B P k l * (a * β₁ l + c * β₂ l)
        = a * ∑ l ∈ range nb, normalMat n w B P k l * β₁ l
          + c * ∑ l ∈ range nb, normalMat n w B P k l * β₂ l := by
      rw [Finset.mul_sum, Finset.mul_sum, ← Finset.sum_add_distrib]
      apply Finset.sum_congr rfl; intro l _; ring
    rw [e1, h₁ k hk, h₂ k hk]
    unfold bwy
    rw [Finset.mul_sum, Finset.mul_sum, ← Finset.sum_add_distrib]
    apply Finset.sum_congr rfl; intro i _; ring
  · intro i
    unfold fitted
    rw [Finset.mul_sum, Finset.mul_sum, ← Finset.sum_add_distrib]
    apply Finset.sum_congr rfl; intro k _; ring

/-- Coefficients are unique as soon as the normal matrix has an inverse … -/
theorem fit_unique (nb : ℕ) (A X : ℕ → ℕ → ℚ) (b β : ℕ → ℚ)
    (hX : IsInverse nb A X) (hβ : IsFit nb A b β) : ∀ k < nb, β k = coefOf nb X b k :=
  isFit_unique nb A X b β hX hβ

/-- … and then `inv_mat @ bwy_mat` (what the code computes) is the solution. -/
theorem explicit_solution (nb : ℕ) (A X : ℕ → ℕ → ℚ) (b : ℕ → ℚ) (hX : IsInverse nb A X) :
    IsFit nb A b (coefOf nb X b) :=
  coefOf_isFit nb A X b hX

example : IsFit 2 (fun k l => if k = l then 2 else 0) (fun k => (k : ℚ) + 1)
    (coefOf 2 (fun k l => if k = l then 1 / 2 else 0) (fun k => (k : ℚ) + 1)) :=
  explicit_solution 2 _ _ _ (by
    intro k hk l hl
    rcases (by omega : k = 0 ∨ k = 1) with rfl | rfl <;>
      rcases (by omega : l = 0 ∨ l = 1) with rfl | rfl <;> simp [Finset.sum_range_succ])

/-- Zero-weight observations are ignored: the normal matrix does not involve the responses at
all, and the right-hand side does not change when responses with weight `0` change. -/
theorem zero_weight_ignored (n : ℕ) (w : ℕ → ℚ) (B : ℕ → ℕ → ℚ) (y y' : ℕ → ℚ)
    (h : ∀ i < n, w i ≠ 0 → y i = y' i) (k : ℕ) :
    bwy n w B y k = bwy n w B y' k := by
  unfold bwy
  apply Finset.sum_congr rfl
  intro i hi
  by_cases hw : w i = 0
  · rw [hw]; ring
  · rw [h i (mem_range.mp hi) hw]

/-- Even the *location* of a zero-weight observation is irrelevant: changing the basis column
of such an observation changes neither the normal matrix nor the right-hand side. -/
theorem zero_weight_location_ignored (n : ℕ) (w : ℕ → ℚ) (B B' P : ℕ → ℕ → ℚ) (y : ℕ → ℚ)
    (h : ∀ i < n, w i ≠ 0 → ∀ k, B k i = B' k i) (k l : ℕ) :
    normalMat n w B P k l = normalMat n w B' P k l ∧ bwy n w B y k = bwy n w B' y k := by
  unfold normalMat bwb bwy
  constructor
  · congr 1
    apply Finset.sum_congr rfl
    intro i hi
    by_cases hw : w i = 0
    · rw [hw]; ring
    · rw [h i (mem_range.mp hi) hw k, h i (mem_range.mp hi) hw l]
  · apply Finset.sum_congr rfl
    intro i hi
    by_cases hw : w i = 0
    · rw [hw]; ring
    · rw [h i (mem_range.mp hi) hw k]

/-- Scaling law of the penalised criterion: multiplying ALL weights and the penalty matrix by the same
constant `c ≠ 0` leaves the set of solutions unchanged — constant weights `w ≡ c` are the unweighted
problem with penalty `λ/c`, NOT the unweighted problem with penalty `λ`. -/
theorem weights_penalty_scaling (nb n : ℕ) (w : ℕ → ℚ) (B P : ℕ → ℕ → ℚ) (y β : ℕ → ℚ) (c : ℚ) (hc : c ≠ 0) :
    IsFit nb (normalMat n (fun i => c * w i) B (fun k l => c * P k l)) (bwy n (fun i => c * w i) B y) β
      ↔ IsFit nb (normalMat n w B P) (bwy n w B y) β := by
  have hA : ∀ k l, normalMat n (fun i => c * w i) B (fun k l => c * P k l) k l = c * normalMat n w B P k l := by
    intro k l
    unfold normalMat bwb
    rw [mul_add, Finset.mul_sum]
    congr 1
    apply Finset.sum_congr rfl; intro i _; ring
  have hb : ∀ k, bwy n (fun i => c * w i) B y k = c * bwy n w B y k := by
    intro k
    unfold bwy
    rw [Finset.mul_sum]
    apply Finset.sum_congr rfl; intro i _; ring
  unfold IsFit
  constructor
  · intro h k hk
    have := h k hk
    simp_rw [hA, hb, mul_assoc] at this
    rw [← Finset.mul_sum] at this
    exact mul_left_cancel₀ hc this
  · intro h k hk
    simp_rw [hA, hb, mul_assoc]
    rw [← Finset.mul_sum, h k hk]

/-- The hat diagonal is invariant under the same scaling (inverse `X/c`, weights `c·w`). -/
theorem hat_scaling (nb : ℕ) (w : ℕ → ℚ) (B X : ℕ → ℕ → ℚ) (c : ℚ) (hc : c ≠ 0) (i : ℕ) :
    hatDiag nb (fun i => c * w i) B (fun k l => X k l / c) i = hatDiag nb w B X i := by
  unfold hatDiag
  have : ∀ k l, B k i * (X k l / c) * B l i = (B k i * X k l * B l i) / c := by intro k l; ring
  simp_rw [this, ← Finset.sum_div]
  field_simp

example : IsFit 1 (normalMat 1 (fun i => 7 * (fun _ => (1 : ℚ)) i) (fun _ _ => 1) (fun k l => 7 * (fun _ _ => (2 : ℚ)) k l))
    (bwy 1 (fun i => 7 * (fun _ => (1 : ℚ)) i) (fun _ _ => 1) (fun _ => 3)) (fun _ => 1) :=
  (weights_penalty_scaling 1 1 (fun _ => 1) (fun _ _ => 1) (fun _ _ => 2) (fun _ => 3) (fun _ => 1) 7 (by norm_num)).mpr
    (by intro k hk; simp [normalMat, bwb, bwy]; norm_num)

/-- Whatever the penalty parameter(s), a coefficient vector in the null space of the penalty
matrix is reproduced: if `P c = 0` and the responses are `y = Bᵀc` then `c` solves the
penalised normal equations. -/
theorem reproduces_null_space (nb n : ℕ) (w : ℕ → ℚ) (B P : ℕ → ℕ → ℚ) (c : ℕ → ℚ)
    (hP : ∀ k < nb, ∑ l ∈ range nb, P k l * c l = 0) :
    IsFit nb (normalMat n w B P) (bwy n w B (fitted nb B c)) c := by
  intro k hk
  unfold normalMat
  simp_rw [add_mul]
  rw [Finset.sum_add_distrib, hP k hk, add_zero]
  unfold bwb bwy fitted
  simp_rw [Finset.sum_mul, Finset.mul_sum]
  rw [Finset.sum_comm]
  apply Finset.sum_congr rfl; intro i _
  apply Finset.sum_congr rfl; intro l _
  ring

/-- A coefficient sequence annihilated by the difference matrix is annihilated by the 1-D
penalty `λ·DᵀD`, for every `λ`. -/
theorem difference_null_space (nb ord : ℕ) (lam : ℚ) (c : ℕ → ℚ)
    (hD : ∀ r < nb - ord, ∑ l ∈ range nb, diffMat ord r l * c l = 0) (k : ℕ) :
    ∑ l ∈ range nb, pen1 nb ord lam k l * c l = 0 := by
  unfold pen1 penMat
  have : ∀ l, lam * (∑ r ∈ range (nb - ord), diffMat ord r k * diffMat ord r l) * c l
      = ∑ r ∈ range (nb - ord), lam * diffMat ord r k * (diffMat ord r l * c l) := by
    intro l
    rw [Finset.mul_sum, Finset.sum_mul]
    apply Finset.sum_congr rfl; intro r _; ring
  simp_rw [this]
  rw [Finset.sum_comm]
  apply Finset.sum_eq_zero
  intro r hr
  rw [← Finset.mul_sum, hD r (mem_range.mp hr), mul_zero]

/-- Polynomial coefficient sequences of degree below the penalty order are annihilated by the
difference matrix — every order, every basis size. -/
theorem poly_coeffs_annihilated (nb ord : ℕ) (a : ℕ → ℚ) (r : ℕ) (hr : r < nb - ord) :
    ∑ l ∈ range nb, diffMat ord r l * (∑ j ∈ range ord, a j * (l : ℚ) ^ j) = 0 := by
  have h1 : ∑ l ∈ range nb, diffMat ord r l * (∑ j ∈ range ord, a j * (l : ℚ) ^ j)
      = ∑ j ∈ range ord, a j * ∑ l ∈ range nb, (l : ℚ) ^ j * diffMat ord r l := by
    simp_rw [Finset.mul_sum]
    rw [Finset.sum_comm]
    apply Finset.sum_congr rfl; intro j _
    apply Finset.sum_congr rfl; intro l _
    ring
  rw [h1]
  apply Finset.sum_eq_zero
  intro j hj
  rw [sum_mul_diffMat nb (fun l : ℕ => (l : ℚ) ^ j) ord r (by omega),
    iter_pow_nat_eq_zero j ord (mem_range.mp hj) r, mul_zero]

/-- Polynomial trends below the penalty order are reproduced whatever the penalty (1-D): if
the responses are the spline with coefficients `c_l = Σ_{j<ord} a_j l^j` then these
coefficients solve the normal equations for every `λ`. -/
theorem reproduces_polynomial_coefficients (nb n ord : ℕ) (lam : ℚ) (w : ℕ → ℚ) (B : ℕ → ℕ → ℚ)
    (a : ℕ → ℚ) :
    IsFit nb (normalMat n w B (pen1 nb ord lam))
      (bwy n w B (fitted nb B (fun l => ∑ j ∈ range ord, a j * (l : ℚ) ^ j)))
      (fun l => ∑ j ∈ range ord, a j * (l : ℚ) ^ j) :=
  reproduces_null_space nb n w B _ _ fun k _ =>
    difference_null_space nb ord lam _ (fun r hr => poly_coeffs_annihilated nb ord a r hr) k

/-- Fitted values are unique wherever the weight is positive, even when the coefficients are
not (singular normal matrix, e.g. zero weights): two solutions of the normal equations give
the same fitted value at every observation with `w_i > 0`. -/
theorem yhat_unique_on_support (nb n : ℕ) (w : ℕ → ℚ) (B P : ℕ → ℕ → ℚ) (b β β' : ℕ → ℚ)
    (hw : ∀ i < n, 0 ≤ w i) (hP : ∀ v, 0 ≤ quadForm nb P v)
    (h : IsFit nb (normalMat n w B P) b β) (h' : IsFit nb (normalMat n w B P) b β')
    (i : ℕ) (hi : i < n) (hwi : 0 < w i) :
    fitted nb B β i = fitted nb B β' i := by
  set δ : ℕ → ℚ := fun k => β k - β' k with hδ
  have hAδ : ∀ k < nb, ∑ l ∈ range nb, normalMat n w B P k l * δ l = 0 := by
    intro k hk
    have : ∑ l ∈ range nb, normalMat n w B P k l * δ l
        = ∑ l ∈ range nb, normalMat n w B P k l * β l - ∑ l ∈ range nb, normalMat n w B P k l * β' l := by
      rw [← Finset.sum_sub_distrib]; apply Finset.sum_congr rfl; intro l _; rw [hδ]; ring
    rw [this, h k hk, h' k hk, sub_self]
  have hq : quadForm nb (normalMat n w B P) δ = 0 := by
    rw [quadForm_eq_dot]
    apply Finset.sum_eq_zero
    intro k hk
    rw [hAδ k (mem_range.mp hk), mul_zero]
  have hsplit : quadForm nb (normalMat n w B P) δ
      = (∑ i ∈ range n, w i * (∑ k ∈ range nb, B k i * δ k) ^ 2) + quadForm nb P δ := by
    have : normalMat n w B P = fun k l => bwb n w B k l + P k l := rfl
    rw [this, quadForm_add, quadForm_bwb]
  have hterms : ∀ j ∈ range n, 0 ≤ w j * (∑ k ∈ range nb, B k j * δ k) ^ 2 :=
    fun j hj => mul_nonneg (hw j (mem_range.mp hj)) (sq_nonneg _)
  have hsum0 : ∑ j ∈ range n, w j * (∑ k ∈ range nb, B k j * δ k) ^ 2 = 0 := by
    have h1 := Finset.sum_nonneg hterms
    have h2 := hP δ
    linarith
  have hi0 := (Finset.sum_eq_zero_iff_of_nonneg hterms).mp hsum0 i (mem_range.mpr hi)
  have hd : ∑ k ∈ range nb, B k i * δ k = 0 := by
    rcases mul_eq_zero.mp hi0 with h0 | h0
    · exact absurd h0 hwi.ne'
    · exact pow_eq_zero_iff (two_ne_zero) |>.mp h0
  unfold fitted
  have : ∑ k ∈ range nb, B k i * β k - ∑ k ∈ range nb, B k i * β' k = 0 := by
    rw [← Finset.sum_sub_distrib, ← hd]; apply Finset.sum_congr rfl; intro k _; rw [hδ]; ring
  linarith

/-- Leverages lie in `[0, 1]`: for non-negative weights and a positive semi-definite penalty,
if `z` solves `A z = b_i` (column `i` of the basis) then `0 ≤ w_i·b_iᵀz ≤ 1`. -/
theorem leverage_bounds (nb n : ℕ) (w : ℕ → ℚ) (B P : ℕ → ℕ → ℚ)
    (hw : ∀ i < n, 0 ≤ w i) (hP : ∀ v, 0 ≤ quadForm nb P v)
    (i : ℕ) (hi : i < n) (z : ℕ → ℚ)
    (hz : IsFit nb (normalMat n w B P) (fun k => B k i) z) :
    0 ≤ w i * fitted nb B z i ∧ w i * fitted nb B z i ≤ 1 := by
  set t := fitted nb B z i with ht
  have hq : quadForm nb (normalMat n w B P) z = t := by
    rw [quadForm_eq_dot, ht]
    unfold fitted
    apply Finset.sum_congr rfl
    intro k hk
    rw [hz k (mem_range.mp hk)]; ring
  have hsplit : quadForm nb (normalMat n w B P) z
      = (∑ j ∈ range n, w j * (∑ k ∈ range nb, B k j * z k) ^ 2) + quadForm nb P z := by
    have : normalMat n w B P = fun k l => bwb n w B k l + P k l := rfl
    rw [this, quadForm_add, quadForm_bwb]
  have hterms : ∀ j ∈ range n, 0 ≤ w j * (∑ k ∈ range nb, B k j * z k) ^ 2 :=
    fun j hj => mul_nonneg (hw j (mem_range.mp hj)) (sq_nonneg _)
  have hone : w i * t ^ 2 ≤ ∑ j ∈ range n, w j * (∑ k ∈ range nb, B k j * z k) ^ 2 :=
    Finset.single_le_sum hterms (mem_range.mpr hi)
  have hPz := hP z
  have hwi := hw i hi
  have hle : w i * t ^ 2 ≤ t := by linarith
  have ht0 : 0 ≤ t := le_trans (mul_nonneg hwi (sq_nonneg t)) hle
  refine ⟨mul_nonneg hwi ht0, ?_⟩
  by_cases h0 : t = 0
  · rw [h0]; simp
  · have tpos : 0 < t := lt_of_le_of_ne ht0 (Ne.symm h0)
    have : w i * t * t ≤ 1 * t := by nlinarith
    exact le_of_mul_le_mul_right this tpos

/-- The coded hat-matrix diagonal `diag(Bᵀ A⁻¹ B W)` is the leverage `w_i·b_iᵀ z_i` with
`z_i = A⁻¹ b_i` … -/
theorem hat_is_leverage (nb : ℕ) (w : ℕ → ℚ) (B X : ℕ → ℕ → ℚ) (i : ℕ) :
    hatDiag nb w B X i = w i * fitted nb B (coefOf nb X (fun k => B k i)) i := by
  unfold hatDiag fitted coefOf
  rw [mul_comm]
  congr 1
  apply Finset.sum_congr rfl; intro k _
  rw [Finset.mul_sum]
  apply Finset.sum_congr rfl; intro l _
  ring

/-- … hence lies in `[0, 1]` (non-negative weights, PSD penalty, invertible normal matrix). -/
theorem hat_bounds (nb n : ℕ) (w : ℕ → ℚ) (B P X : ℕ → ℕ → ℚ)
    (hw : ∀ i < n, 0 ≤ w i) (hP : ∀ v, 0 ≤ quadForm nb P v)
    (hX : IsInverse nb (normalMat n w B P) X) (i : ℕ) (hi : i < n) :
    0 ≤ hatDiag nb w B X i ∧ hatDiag nb w B X i ≤ 1 := by
  rw [hat_is_leverage]
  exact leverage_bounds nb n w B P hw hP i hi _ (coefOf_isFit nb _ X _ hX)

/-- The 1-D difference penalty `λ·DᵀD` is positive semi-definite for `λ ≥ 0`. -/
theorem penalty_psd (nb ord : ℕ) (lam : ℚ) (hl : 0 ≤ lam) (v : ℕ → ℚ) :
    0 ≤ quadForm nb (pen1 nb ord lam) v :=
  quadForm_pen1_nonneg nb ord lam hl v

/-- Predicting at the fitting grid returns the fitted values (1-D): `predict` rebuilds the
basis from the domain stored by `fit`, so on the fitting grid it is the fitted-value formula. -/
theorem predict_at_fit_grid (dmin dmax : ℚ) (nseg p : ℕ) (β x : ℕ → ℚ) (i : ℕ) :
    predict1 dmin dmax nseg p β x i = fitted (nseg + p) (basisOn dmin dmax nseg p x) β i := rfl

/-- A predicted value depends only on its own location, not on the rest of the query grid. -/
theorem predict_pointwise (dmin dmax : ℚ) (nseg p : ℕ) (β x x' : ℕ → ℚ) (i j : ℕ)
    (h : x i = x' j) :
    predict1 dmin dmax nseg p β x i = predict1 dmin dmax nseg p β x' j := by
  unfold predict1 fitted basisOn; rw [h]

/-! ## Refinement of the array arithmetic (GLAM) to the Kronecker specification, 2-D,
every pair of basis sizes `m₁ ≠ m₂` and grid sizes `n₁ ≠ n₂` -/

/-- `bwb_mat` of `_fit_n_dimensional` is `(B₁⊗B₂) W (B₁⊗B₂)ᵀ`, entry-wise. -/
theorem glam_bwb_2d (d1 d2 : Dim) (W : Array ℚ) (hn1 : 0 < d1.n) (hn2 : 0 < d2.n)
    (k1 l1 k2 l2 : ℕ) (hk1 : k1 < d1.m) (hl1 : l1 < d1.m) (hk2 : k2 < d2.m) (hl2 : l2 < d2.m) :
    rd (glamBWB [d1, d2] W) ((k1 * d2.m + k2) * (d1.m * d2.m) + (l1 * d2.m + l2))
      = bwb (d1.n * d2.n) (rd W) (kronB d2.m d2.n d1.B d2.B) (k1 * d2.m + k2) (l1 * d2.m + l2) := by
  rw [FDA.GLAM.glam_bwb_2d d1 d2 W hn1 hn2 k1 l1 k2 l2 hk1 hl1 hk2 hl2]
  unfold bwb kronB
  rw [sum_range_mul]
  apply Finset.sum_congr rfl; intro i1 _
  apply Finset.sum_congr rfl; intro i2 hi2
  rw [Bases.kron_apply _ _ _ _ k1 k2 i1 i2 hk2 (mem_range.mp hi2),
    Bases.kron_apply _ _ _ _ l1 l2 i1 i2 hl2 (mem_range.mp hi2)]
  ring

/-- `bwy_mat` is `(B₁⊗B₂) W y`. -/
theorem glam_bwy_2d (d1 d2 : Dim) (Y W : Array ℚ) (hn1 : 0 < d1.n) (hn2 : 0 < d2.n)
    (k1 k2 : ℕ) (hk1 : k1 < d1.m) (hk2 : k2 < d2.m) :
    rd (glamBWY [d1, d2] (tabA (d1.n * d2.n) fun i => rd Y i * rd W i)) (k1 * d2.m + k2)
      = bwy (d1.n * d2.n) (rd W) (kronB d2.m d2.n d1.B d2.B) (rd Y) (k1 * d2.m + k2) := by
  rw [FDA.GLAM.glam_bwy_2d d1 d2 _ hn1 hn2 k1 k2 hk1 hk2]
  unfold bwy kronB
  rw [sum_range_mul]
  apply Finset.sum_congr rfl; intro i1 hi1
  apply Finset.sum_congr rfl; intro i2 hi2
  rw [Bases.kron_apply _ _ _ _ k1 k2 i1 i2 hk2 (mem_range.mp hi2),
    rd_tabA _ (lt_mul_of' d1.n d2.n i1 i2 (mem_range.mp hi1) (mem_range.mp hi2))]
  ring

/-- `y_hat` (and `predict` on a product grid) is `(B₁⊗B₂)ᵀ β`. -/
theorem glam_yhat_2d (d1 d2 : Dim) (β : Array ℚ) (hm1 : 0 < d1.m) (hm2 : 0 < d2.m)
    (i1 i2 : ℕ) (hi1 : i1 < d1.n) (hi2 : i2 < d2.n) :
    rd (glamYhat [d1, d2] β) (i1 * d2.n + i2)
      = fitted (d1.m * d2.m) (kronB d2.m d2.n d1.B d2.B) (rd β) (i1 * d2.n + i2) := by
  rw [FDA.GLAM.glam_yhat_2d d1 d2 β hm1 hm2 i1 i2 hi1 hi2]
  unfold fitted kronB
  rw [sum_range_mul]
  apply Finset.sum_congr rfl; intro k1 _
  apply Finset.sum_congr rfl; intro k2 hk2
  rw [Bases.kron_apply _ _ _ _ k1 k2 i1 i2 (mem_range.mp hk2) hi2]

/-- The hat-matrix diagonal of the (repaired) array arithmetic is the leverage
`w_I · b_Iᵀ X b_I` of the Kronecker basis, for the inverse `X` stored flat (`M × M`). -/
theorem glam_hat_2d (d1 d2 : Dim) (X W : Array ℚ) (hm1 : 0 < d1.m) (hm2 : 0 < d2.m)
    (i1 i2 : ℕ) (hi1 : i1 < d1.n) (hi2 : i2 < d2.n) :
    rd (glamHat [d1, d2] X W) (i1 * d2.n + i2)
      = hatDiag (d1.m * d2.m) (rd W) (kronB d2.m d2.n d1.B d2.B)
          (fun K L => rd X (K * (d1.m * d2.m) + L)) (i1 * d2.n + i2) := by
  rw [FDA.GLAM.glam_hat_2d d1 d2 X W hm1 hm2 i1 i2 hi1 hi2]
  unfold hatDiag kronB
  rw [mul_comm]
  congr 1
  rw [sum_range_mul]
  -- Σ_k1 Σ_l1 Σ_k2 Σ_l2  =  Σ_k1 Σ_k2 Σ_L
  apply Finset.sum_congr rfl; intro k1 _
  rw [Finset.sum_comm]
  apply Finset.sum_congr rfl; intro k2 hk2
  rw [sum_range_mul]
  apply Finset.sum_congr rfl; intro l1 _
  apply Finset.sum_congr rfl; intro l2 hl2
  rw [Bases.kron_apply _ _ _ _ k1 k2 i1 i2 (mem_range.mp hk2) hi2,
    Bases.kron_apply _ _ _ _ l1 l2 i1 i2 (mem_range.mp hl2) hi2]
  ring

/-- `_tensor_product_penalties` + the weighted sum give `λ₁·P₁⊗I + λ₂·I⊗P₂` (symmetric
marginal penalties, as `DᵀD` is). -/
theorem tensor_penalty_spec_2d (m1 m2 : ℕ) (l1 l2 : ℚ) (P1 P2 : ℕ → ℕ → ℚ)
    (h1 : ∀ a b, P1 a b = P1 b a) (h2 : ∀ a b, P2 a b = P2 b a) (K L : ℕ) :
    penaltyND [l1, l2] [(m1, P1), (m2, P2)] K L = penSpec2 m2 l1 l2 P1 P2 K L := by
  unfold penaltyND tensorPenalty penSpec2
  simp only [List.zipIdx_cons, List.zipIdx_nil, List.map_cons, List.map_nil, List.sum_cons,
    List.sum_nil, List.foldl_cons, List.foldl_nil, Bases.kron, eyeQ, zero_add, add_zero]
  simp only [show (1 : ℕ) ≠ 0 from by decide, show (0 : ℕ) ≠ 1 from by decide, if_true, if_false,
    eyeQ, eq_self_iff_true]
  rw [h1 (L / m2) (K / m2), h2 (L % m2) (K % m2)]
  have e1 : (if L % m2 = K % m2 then (1 : ℚ) else 0) = if K % m2 = L % m2 then 1 else 0 := by
    by_cases h : K % m2 = L % m2 <;> simp [h, eq_comm]
  have e2 : (if L / m2 = K / m2 then (1 : ℚ) else 0) = if K / m2 = L / m2 then 1 else 0 := by
    by_cases h : K / m2 = L / m2 <;> simp [h, eq_comm]
  rw [e1, e2]
  ring

/-- The difference penalty `DᵀD` is symmetric (hypothesis of `tensor_penalty_spec_2d`). -/
theorem penMat_symm (nb ord a b : ℕ) : penMat nb ord a b = penMat nb ord b a := by
  unfold penMat; apply Finset.sum_congr rfl; intro r _; ring

/-! ## Three dimensions -/

/-- 3-D: `bwb_mat` of the array arithmetic is `(B₁⊗B₂⊗B₃) W (B₁⊗B₂⊗B₃)ᵀ`, entry-wise, for all basis
and grid sizes. -/
theorem glam_bwb_3d (d1 d2 d3 : Dim) (W : Array ℚ) (hn1 : 0 < d1.n) (hn2 : 0 < d2.n) (hn3 : 0 < d3.n)
    (k1 l1 k2 l2 k3 l3 : ℕ) (hk1 : k1 < d1.m) (hl1 : l1 < d1.m) (hk2 : k2 < d2.m) (hl2 : l2 < d2.m)
    (hk3 : k3 < d3.m) (hl3 : l3 < d3.m) :
    rd (glamBWB [d1, d2, d3] W)
        (((k1 * d2.m + k2) * d3.m + k3) * (d1.m * d2.m * d3.m) + ((l1 * d2.m + l2) * d3.m + l3))
      = bwb (d1.n * d2.n * d3.n) (rd W) (kronB3 d2.m d2.n d3.m d3.n d1.B d2.B d3.B)
          ((k1 * d2.m + k2) * d3.m + k3) ((l1 * d2.m + l2) * d3.m + l3) := by
  rw [FDA.GLAM.glam_bwb_3d d1 d2 d3 W hn1 hn2 hn3 k1 l1 k2 l2 k3 l3 hk1 hl1 hk2 hl2 hk3 hl3]
  unfold bwb
  rw [sum_range_mul3]
  apply Finset.sum_congr rfl; intro i1 _
  apply Finset.sum_congr rfl; intro i2 hi2
  apply Finset.sum_congr rfl; intro i3 hi3
  rw [kronB3_apply d1 d2 d3 k1 k2 k3 i1 i2 i3 hk2 hk3 (mem_range.mp hi2) (mem_range.mp hi3),
    kronB3_apply d1 d2 d3 l1 l2 l3 i1 i2 i3 hl2 hl3 (mem_range.mp hi2) (mem_range.mp hi3)]
  ring

/-- 3-D: `bwy_mat` is `(B₁⊗B₂⊗B₃) W y`. -/
theorem glam_bwy_3d (d1 d2 d3 : Dim) (Y W : Array ℚ) (hn1 : 0 < d1.n) (hn2 : 0 < d2.n) (hn3 : 0 < d3.n)
    (k1 k2 k3 : ℕ) (hk1 : k1 < d1.m) (hk2 : k2 < d2.m) (hk3 : k3 < d3.m) :
    rd (glamBWY [d1, d2, d3] (tabA (d1.n * d2.n * d3.n) fun i => rd Y i * rd W i))
        ((k1 * d2.m + k2) * d3.m + k3)
      = bwy (d1.n * d2.n * d3.n) (rd W) (kronB3 d2.m d2.n d3.m d3.n d1.B d2.B d3.B) (rd Y) ((k1 * d2.m + k2) * d3.m + k3) := by
  rw [FDA.GLAM.glam_bwy_3d d1 d2 d3 _ hn1 hn2 hn3 k1 k2 k3 hk1 hk2 hk3]
  unfold bwy
  rw [sum_range_mul3]
  apply Finset.sum_congr rfl; intro i1 hi1
  apply Finset.sum_congr rfl; intro i2 hi2
  apply Finset.sum_congr rfl; intro i3 hi3
  rw [kronB3_apply d1 d2 d3 k1 k2 k3 i1 i2 i3 hk2 hk3 (mem_range.mp hi2) (mem_range.mp hi3),
    rd_tabA _ (lt_mul3 d1.n d2.n d3.n i1 i2 i3 (mem_range.mp hi1) (mem_range.mp hi2) (mem_range.mp hi3))]
  ring

/-- 3-D: `y_hat` / `predict` is `(B₁⊗B₂⊗B₃)ᵀ β`. -/
theorem glam_yhat_3d (d1 d2 d3 : Dim) (β : Array ℚ) (hm1 : 0 < d1.m) (hm2 : 0 < d2.m) (hm3 : 0 < d3.m)
    (i1 i2 i3 : ℕ) (hi1 : i1 < d1.n) (hi2 : i2 < d2.n) (hi3 : i3 < d3.n) :
    rd (glamYhat [d1, d2, d3] β) ((i1 * d2.n + i2) * d3.n + i3)
      = fitted (d1.m * d2.m * d3.m) (kronB3 d2.m d2.n d3.m d3.n d1.B d2.B d3.B) (rd β) ((i1 * d2.n + i2) * d3.n + i3) := by
  rw [FDA.GLAM.glam_yhat_3d d1 d2 d3 β hm1 hm2 hm3 i1 i2 i3 hi1 hi2 hi3]
  unfold fitted
  rw [sum_range_mul3]
  apply Finset.sum_congr rfl; intro k1 _
  apply Finset.sum_congr rfl; intro k2 hk2
  apply Finset.sum_congr rfl; intro k3 hk3
  rw [kronB3_apply d1 d2 d3 k1 k2 k3 i1 i2 i3 (mem_range.mp hk2) (mem_range.mp hk3) hi2 hi3]

/-- 3-D: the hat diagonal of the repaired array arithmetic is the leverage of the Kronecker basis. -/
theorem glam_hat_3d (d1 d2 d3 : Dim) (X W : Array ℚ) (hm1 : 0 < d1.m) (hm2 : 0 < d2.m) (hm3 : 0 < d3.m)
    (i1 i2 i3 : ℕ) (hi1 : i1 < d1.n) (hi2 : i2 < d2.n) (hi3 : i3 < d3.n) :
    rd (glamHat [d1, d2, d3] X W) ((i1 * d2.n + i2) * d3.n + i3)
      = hatDiag (d1.m * d2.m * d3.m) (rd W) (kronB3 d2.m d2.n d3.m d3.n d1.B d2.B d3.B)
          (fun K L => rd X (K * (d1.m * d2.m * d3.m) + L)) ((i1 * d2.n + i2) * d3.n + i3) := by
  rw [FDA.GLAM.glam_hat_3d d1 d2 d3 X W hm1 hm2 hm3 i1 i2 i3 hi1 hi2 hi3]
  unfold hatDiag
  rw [mul_comm]
  congr 1
  rw [interleave (d1.m * d2.m) d3.m]
  apply Finset.sum_congr rfl; intro k3 hk3
  apply Finset.sum_congr rfl; intro l3 hl3
  rw [interleave d1.m d2.m]
  apply Finset.sum_congr rfl; intro k2 hk2
  apply Finset.sum_congr rfl; intro l2 hl2
  apply Finset.sum_congr rfl; intro k1 _
  apply Finset.sum_congr rfl; intro l1 _
  rw [kronB3_apply d1 d2 d3 k1 k2 k3 i1 i2 i3 (mem_range.mp hk2) (mem_range.mp hk3) hi2 hi3,
    kronB3_apply d1 d2 d3 l1 l2 l3 i1 i2 i3 (mem_range.mp hl2) (mem_range.mp hl3) hi2 hi3]
  ring

/-- 3-D: `_tensor_product_penalties` + weighted sum give `λ₁P₁⊗I⊗I + λ₂I⊗P₂⊗I + λ₃I⊗I⊗P₃`. -/
theorem tensor_penalty_spec_3d (m1 m2 m3 : ℕ) (l1 l2 l3 : ℚ) (P1 P2 P3 : ℕ → ℕ → ℚ)
    (h1 : ∀ a b, P1 a b = P1 b a) (h2 : ∀ a b, P2 a b = P2 b a) (h3 : ∀ a b, P3 a b = P3 b a)
    (K L : ℕ) :
    penaltyND [l1, l2, l3] [(m1, P1), (m2, P2), (m3, P3)] K L = penSpec3 m2 m3 l1 l2 l3 P1 P2 P3 K L := by
  unfold penaltyND tensorPenalty penSpec3
  simp only [List.zipIdx_cons, List.zipIdx_nil, List.map_cons, List.map_nil, List.sum_cons,
    List.sum_nil, List.foldl_cons, List.foldl_nil, Bases.kron, zero_add, add_zero]
  simp only [show (1 : ℕ) ≠ 0 from by decide, show (0 : ℕ) ≠ 1 from by decide,
    show (2 : ℕ) ≠ 0 from by decide, show (0 : ℕ) ≠ 2 from by decide, show (1 + 1 : ℕ) = 2 from rfl,
    show (2 : ℕ) ≠ 1 from by decide, show (1 : ℕ) ≠ 2 from by decide, if_true, if_false, eyeQ]
  rw [h1 (L / m3 / m2) (K / m3 / m2), h2 (L / m3 % m2) (K / m3 % m2), h3 (L % m3) (K % m3)]
  rw [Nat.div_div_eq_div_mul K m3 m2, Nat.div_div_eq_div_mul L m3 m2, Nat.mul_comm m3 m2]
  have e : ∀ a b : ℕ, (if b = a then (1 : ℚ) else 0) = if a = b then 1 else 0 := by
    intro a b; by_cases h : a = b <;> simp [h, eq_comm]
  rw [e (K % m3) (L % m3), e (K / m3 % m2) (L / m3 % m2), e (K / (m2 * m3)) (L / (m2 * m3))]
  ring

/-- The 2-D tensor-product penalty is positive semi-definite (non-negative penalties, PSD
marginal penalties), so `C05.leverage_bounds` / `C05.hat_bounds` apply to 2-D fits. -/
theorem tensor_penalty_psd_2d (m1 m2 ord : ℕ) (la lb : ℚ) (ha : 0 ≤ la) (hb : 0 ≤ lb) (v : ℕ → ℚ) :
    0 ≤ quadForm (m1 * m2) (penSpec2 m2 la lb (penMat m1 ord) (penMat m2 ord)) v :=
  penSpec2_psd m1 m2 la lb _ _ ha hb
    (fun u => by rw [quadForm_penMat]; exact Finset.sum_nonneg fun r _ => sq_nonneg _)
    (fun u => by rw [quadForm_penMat]; exact Finset.sum_nonneg fun r _ => sq_nonneg _) v

/-- The 3-D tensor-product penalty is positive semi-definite, so `C05.leverage_bounds` /
`C05.hat_bounds` apply to 3-D fits as well. -/
theorem tensor_penalty_psd_3d (m1 m2 m3 ord : ℕ) (hm3 : 0 < m3) (la lb lc : ℚ)
    (ha : 0 ≤ la) (hb : 0 ≤ lb) (hc : 0 ≤ lc) (v : ℕ → ℚ) :
    0 ≤ quadForm (m1 * m2 * m3)
      (penSpec3 m2 m3 la lb lc (penMat m1 ord) (penMat m2 ord) (penMat m3 ord)) v :=
  penSpec3_psd m1 m2 m3 hm3 la lb lc _ _ _ ha hb hc
    (fun u => by rw [quadForm_penMat]; exact Finset.sum_nonneg fun r _ => sq_nonneg _)
    (fun u => by rw [quadForm_penMat]; exact Finset.sum_nonneg fun r _ => sq_nonneg _)
    (fun u => by rw [quadForm_penMat]; exact Finset.sum_nonneg fun r _ => sq_nonneg _) v

/-- Summary, 2-D: the matrix the code hands to `lstsq`/`pinv` (`bwb_mat + penalty_mat`, assembled by
the array arithmetic and `_tensor_product_penalties`) is, entry by entry, the normal matrix
`(B₁⊗B₂) W (B₁⊗B₂)ᵀ + λ₁·D₁ᵀD₁⊗I + λ₂·I⊗D₂ᵀD₂` of the explicit tensor-product penalised weighted
least-squares problem — all basis sizes, all grid sizes, every order. -/
theorem normal_equations_2d (d1 d2 : Dim) (W : Array ℚ) (ord : ℕ) (la lb : ℚ)
    (hn1 : 0 < d1.n) (hn2 : 0 < d2.n)
    (k1 l1 k2 l2 : ℕ) (hk1 : k1 < d1.m) (hl1 : l1 < d1.m) (hk2 : k2 < d2.m) (hl2 : l2 < d2.m) :
    rd (glamBWB [d1, d2] W) ((k1 * d2.m + k2) * (d1.m * d2.m) + (l1 * d2.m + l2))
        + penaltyND [la, lb] [(d1.m, penMat d1.m ord), (d2.m, penMat d2.m ord)] (k1 * d2.m + k2) (l1 * d2.m + l2)
      = normalMat (d1.n * d2.n) (rd W) (kronB d2.m d2.n d1.B d2.B)
          (penSpec2 d2.m la lb (penMat d1.m ord) (penMat d2.m ord)) (k1 * d2.m + k2) (l1 * d2.m + l2) := by
  rw [glam_bwb_2d d1 d2 W hn1 hn2 k1 l1 k2 l2 hk1 hl1 hk2 hl2,
    tensor_penalty_spec_2d d1.m d2.m la lb _ _ (penMat_symm d1.m ord) (penMat_symm d2.m ord)]
  rfl

/-- Summary, 3-D. -/
theorem normal_equations_3d (d1 d2 d3 : Dim) (W : Array ℚ) (ord : ℕ) (la lb lc : ℚ)
    (hn1 : 0 < d1.n) (hn2 : 0 < d2.n) (hn3 : 0 < d3.n)
    (k1 l1 k2 l2 k3 l3 : ℕ) (hk1 : k1 < d1.m) (hl1 : l1 < d1.m) (hk2 : k2 < d2.m) (hl2 : l2 < d2.m)
    (hk3 : k3 < d3.m) (hl3 : l3 < d3.m) :
    rd (glamBWB [d1, d2, d3] W)
          (((k1 * d2.m + k2) * d3.m + k3) * (d1.m * d2.m * d3.m) + ((l1 * d2.m + l2) * d3.m + l3))
        + penaltyND [la, lb, lc] [(d1.m, penMat d1.m ord), (d2.m, penMat d2.m ord), (d3.m, penMat d3.m ord)]
            ((k1 * d2.m + k2) * d3.m + k3) ((l1 * d2.m + l2) * d3.m + l3)
      = normalMat (d1.n * d2.n * d3.n) (rd W) (kronB3 d2.m d2.n d3.m d3.n d1.B d2.B d3.B)
          (penSpec3 d2.m d3.m la lb lc (penMat d1.m ord) (penMat d2.m ord) (penMat d3.m ord))
          ((k1 * d2.m + k2) * d3.m + k3) ((l1 * d2.m + l2) * d3.m + l3) := by
  rw [glam_bwb_3d d1 d2 d3 W hn1 hn2 hn3 k1 l1 k2 l2 k3 l3 hk1 hl1 hk2 hl2 hk3 hl3,
    tensor_penalty_spec_3d d1.m d2.m d3.m la lb lc _ _ _ (penMat_symm d1.m ord) (penMat_symm d2.m ord)
      (penMat_symm d3.m ord)]
  rfl

/-! ## The certifying solver of the driver -/

/-- What `certInverse` returns is an inverse. -/
theorem certInverse_sound (nb : ℕ) (A X : Mat) (h : certInverse nb A = some X) :
    IsInverse nb (mget A) (mget X) := by
  unfold certInverse at h
  simp only at h
  split at h
  · exact absurd h (by simp)
  · split at h
    · rename_i hchk
      have : X = _ := (Option.some.inj h).symm
      rw [this]
      exact isInverseB_sound nb _ _ hchk
    · exact absurd h (by simp)

/-- What `certSolve` returns solves the system. -/
theorem certSolve_sound (nb : ℕ) (A : Mat) (b β : Array ℚ) (r : ℕ)
    (h : certSolve nb A b = some (β, r)) : IsFit nb (mget A) (rd b) (rd β) := by
  unfold certSolve at h
  simp only at h
  split at h
  · rename_i hchk
    have h' := Option.some.inj h
    have : β = _ := (congrArg Prod.fst h').symm
    rw [this]
    exact isFitB_sound nb _ _ _ hchk
  · exact absurd h (by simp)

/-! ## Polynomial reproduction (1-D, order ≤ degree + 1) -/

/-- Polynomial reproduction in one dimension, in the range where the clause can hold
(`order ≤ 3`, `order ≤ degree + 1`): every polynomial `q₀ + q₁x + q₂x²` of degree below the
penalty order, sampled on any grid inside the domain, is the spline with coefficients
`c_l = Σ_{j<ord} a_j l^j`, and these coefficients solve the penalised normal equations for EVERY
penalty `λ` and EVERY weight vector.  (Moments of the cardinal B-spline:
`Σ_j j·N_p(u−j) = u−(p+1)/2`, `Σ_j j²·N_p(u−j) = (u−(p+1)/2)² + (p+1)/12`, all degrees.)
Partial: orders `> 3` and the n-D tensor version are sampled only; for `order > degree+1`
the clause is false (`C05.polynomial_counterexample`). -/
theorem reproduces_polynomials_partial (dmin dmax : ℚ) (nseg p ord n : ℕ) (x w : ℕ → ℚ)
    (lam q0 q1 q2 : ℚ) (hd : dmin < dmax) (hseg : 0 < nseg) (hp1 : 1 ≤ p)
    (hord : ord ≤ 3) (hop : ord ≤ p + 1)
    (hq2 : ord ≤ 2 → q2 = 0) (hq1 : ord ≤ 1 → q1 = 0) (hq0 : ord = 0 → q0 = 0)
    (hx : ∀ i < n, dmin ≤ x i ∧ x i ≤ dmax) :
    ∃ c : ℕ → ℚ,
      (∀ i < n, fitted (nseg + p) (basisOn dmin dmax nseg p x) c i = q0 + q1 * x i + q2 * x i ^ 2) ∧
      IsFit (nseg + p) (normalMat n w (basisOn dmin dmax nseg p x) (pen1 (nseg + p) ord lam))
        (bwy n w (basisOn dmin dmax nseg p x) (fun i => q0 + q1 * x i + q2 * x i ^ 2)) c := by
  have hp : p < nseg + p := by omega
  have hh := dx_pos dmin dmax (nseg + p) p hp hd
  set h := dx dmin dmax (nseg + p) p with hdef
  set t0 := uniformKnot dmin dmax (nseg + p) p 0 with ht0
  set s : ℚ := ((p : ℚ) + 1) / 2 with hs
  set e : ℚ := ((p : ℚ) + 1) / 12 with he
  set b2 : ℚ := q2 * h ^ 2 with hb2
  set b1 : ℚ := q1 * h + 2 * q2 * t0 * h with hb1
  set b0 : ℚ := q0 + q1 * t0 + q2 * t0 ^ 2 with hb0
  set a1 : ℚ := b1 + 2 * b2 * s with ha1
  set a0 : ℚ := b0 + a1 * s - b2 * s ^ 2 - b2 * e with ha0
  set a : ℕ → ℚ := fun j => if j = 0 then a0 else if j = 1 then a1 else if j = 2 then b2 else 0 with ha
  have hfitted : ∀ i < n, fitted (nseg + p) (basisOn dmin dmax nseg p x)
      (fun l => ∑ j ∈ range ord, a j * (l : ℚ) ^ j) i = q0 + q1 * x i + q2 * x i ^ 2 := by
    intro i hi
    have hc : ∀ l : ℕ, (∑ j ∈ range ord, a j * (l : ℚ) ^ j) = a0 + a1 * l + b2 * (l : ℚ) ^ 2 := by
      intro l
      rcases (by omega : ord = 0 ∨ ord = 1 ∨ ord = 2 ∨ ord = 3) with h0 | h0 | h0 | h0
      · have z2 := hq2 (by omega); have z1 := hq1 (by omega); have z0 := hq0 h0
        subst h0
        simp only [Finset.range_zero, Finset.sum_empty]
        rw [ha0, ha1, hb0, hb1, hb2, z0, z1, z2]; ring
      · have z2 := hq2 (by omega); have z1 := hq1 (by omega)
        subst h0
        simp only [Finset.sum_range_one, ha, if_true, pow_zero, mul_one]
        have : a1 = 0 := by rw [ha1, hb1, hb2, z1, z2]; ring
        rw [this, hb2, z2]; ring
      · have z2 := hq2 (by omega)
        subst h0
        have hb : b2 = 0 := by rw [hb2, z2]; ring
        rw [hb]
        simp [Finset.sum_range_succ, ha]
      · subst h0
        simp [Finset.sum_range_succ, ha]
    unfold fitted basisOn
    have hsum : ∑ k ∈ range (nseg + p), bsplineBasis dmin dmax (nseg + p) p (x i) k
          * (∑ j ∈ range ord, a j * (k : ℚ) ^ j)
        = ∑ k ∈ range (nseg + p), (a0 + a1 * k + b2 * (k : ℚ) ^ 2)
          * bsplineBasis dmin dmax (nseg + p) p (x i) k := by
      apply Finset.sum_congr rfl; intro k _; rw [hc k]; ring
    have hpb : b2 = 0 ∨ 2 ≤ p := by
      by_cases h3 : ord ≤ 2
      · left; rw [hb2, hq2 h3]; ring
      · right; omega
    rw [hsum, spline_moments dmin dmax (nseg + p) p hp1 hp hd (x i) (hx i hi).1 (hx i hi).2 a0 a1 b2 hpb]
    have hxu : x i = t0 + h * ucoord dmin dmax (nseg + p) p (x i) := by
      unfold ucoord; rw [← hdef, ← ht0]; field_simp; ring
    set u := ucoord dmin dmax (nseg + p) p (x i) with hu
    rw [hxu, ha0, ha1, hb0, hb1, hb2, ← hs, ← he]
    ring
  refine ⟨fun l => ∑ j ∈ range ord, a j * (l : ℚ) ^ j, hfitted, ?_⟩
  · have hfit := reproduces_polynomial_coefficients (nseg + p) n ord lam w (basisOn dmin dmax nseg p x) a
    intro k hk
    rw [hfit k hk]
    unfold bwy
    apply Finset.sum_congr rfl; intro i hi
    rw [hfitted i (mem_range.mp hi)]

/-- … hence ANY solution of the normal equations returns the polynomial at every observation
with positive weight, whatever the penalty (`w ≥ 0`, `λ ≥ 0`). -/
theorem polynomial_reproduced_on_support (dmin dmax : ℚ) (nseg p ord n : ℕ) (x w : ℕ → ℚ)
    (lam q0 q1 q2 : ℚ) (hd : dmin < dmax) (hseg : 0 < nseg) (hp1 : 1 ≤ p)
    (hord : ord ≤ 3) (hop : ord ≤ p + 1)
    (hq2 : ord ≤ 2 → q2 = 0) (hq1 : ord ≤ 1 → q1 = 0) (hq0 : ord = 0 → q0 = 0)
    (hx : ∀ i < n, dmin ≤ x i ∧ x i ≤ dmax) (hw : ∀ i < n, 0 ≤ w i) (hl : 0 ≤ lam) (β : ℕ → ℚ)
    (hβ : IsFit (nseg + p) (normalMat n w (basisOn dmin dmax nseg p x) (pen1 (nseg + p) ord lam))
      (bwy n w (basisOn dmin dmax nseg p x) (fun i => q0 + q1 * x i + q2 * x i ^ 2)) β)
    (i : ℕ) (hi : i < n) (hwi : 0 < w i) :
    fitted (nseg + p) (basisOn dmin dmax nseg p x) β i = q0 + q1 * x i + q2 * x i ^ 2 := by
  obtain ⟨c, hc1, hc2⟩ := reproduces_polynomials_partial dmin dmax nseg p ord n x w lam q0 q1 q2 hd hseg
    hp1 hord hop hq2 hq1 hq0 hx
  rw [← hc1 i hi]
  exact yhat_unique_on_support (nseg + p) n w _ _ _ β c hw
    (fun v => quadForm_pen1_nonneg (nseg + p) ord lam hl v) hβ hc2 i hi hwi

example : ∃ c : ℕ → ℚ, ∀ i < 3, fitted (2 + 2) (basisOn 0 2 2 2 (fun i => (i : ℚ))) c i
    = 1 + 2 * ((i : ℚ)) + 3 * ((i : ℚ)) ^ 2 := by
  obtain ⟨c, h, _⟩ := reproduces_polynomials_partial 0 2 2 2 3 3 (fun i => (i : ℚ)) (fun _ => 1) 5 1 2 3
    (by norm_num) (by norm_num) (by norm_num) (by norm_num) (by norm_num)
    (by norm_num) (by norm_num) (by norm_num)
    (by intro i hi; rcases (by omega : i = 0 ∨ i = 1 ∨ i = 2) with rfl | rfl | rfl <;> norm_num)
  exact ⟨c, h⟩

/-! ## Polynomial reproduction at full strength: every order ≤ degree + 1, 1-D and 2-D tensor -/

/-- Polynomial reproduction in one dimension at full strength: EVERY penalty order `≤ degree + 1`
(every degree `≥ 1`, every basis size, every grid inside the domain, every `λ`, every weights):
a polynomial `q` of degree below the penalty order is the spline of some coefficient vector `c`
which solves the penalised normal equations for the responses `q(x_i)`. -/
theorem reproduces_polynomials (dmin dmax : ℚ) (nseg p ord n : ℕ) (x w : ℕ → ℚ) (lam : ℚ) (q : ℚ[X])
    (hd : dmin < dmax) (hseg : 0 < nseg) (hp1 : 1 ≤ p) (hq : q.natDegree < ord) (hop : ord ≤ p + 1)
    (hx : ∀ i < n, dmin ≤ x i ∧ x i ≤ dmax) :
    ∃ c : ℕ → ℚ,
      (∀ i < n, fitted (nseg + p) (basisOn dmin dmax nseg p x) c i = q.eval (x i)) ∧
      IsFit (nseg + p) (normalMat n w (basisOn dmin dmax nseg p x) (pen1 (nseg + p) ord lam))
        (bwy n w (basisOn dmin dmax nseg p x) (fun i => q.eval (x i))) c := by
  have hp : p < nseg + p := by omega
  obtain ⟨c, hc0, hcs⟩ := poly_is_spline dmin dmax (nseg + p) p hp1 hp hd q ord hq hop
  have hfitted : ∀ i < n, fitted (nseg + p) (basisOn dmin dmax nseg p x) c i = q.eval (x i) := by
    intro i hi
    rw [← hcs (x i) (hx i hi).1 (hx i hi).2]
    unfold fitted basisOn
    apply Finset.sum_congr rfl; intro k _; ring
  refine ⟨c, hfitted, ?_⟩
  have hD : ∀ r < (nseg + p) - ord, ∑ l ∈ range (nseg + p), diffMat ord r l * c l = 0 := by
    intro r hr
    have := sum_mul_diffMat (nseg + p) c ord r (by omega)
    rw [hc0 r] at this
    rw [← this]
    apply Finset.sum_congr rfl; intro l _; ring
  have hfit := reproduces_null_space (nseg + p) n w (basisOn dmin dmax nseg p x) (pen1 (nseg + p) ord lam) c
    (fun k _ => difference_null_space (nseg + p) ord lam c hD k)
  intro k hk
  rw [hfit k hk]
  unfold bwy
  apply Finset.sum_congr rfl; intro i hi
  rw [hfitted i (mem_range.mp hi)]

/-- … hence any solution of the normal equations returns `q(x_i)` wherever `w_i > 0`, whatever the
penalty — every order `≤ degree + 1`. -/
theorem polynomials_reproduced_on_support (dmin dmax : ℚ) (nseg p ord n : ℕ) (x w : ℕ → ℚ) (lam : ℚ)
    (q : ℚ[X]) (hd : dmin < dmax) (hseg : 0 < nseg) (hp1 : 1 ≤ p) (hq : q.natDegree < ord)
    (hop : ord ≤ p + 1) (hx : ∀ i < n, dmin ≤ x i ∧ x i ≤ dmax) (hw : ∀ i < n, 0 ≤ w i) (hl : 0 ≤ lam)
    (β : ℕ → ℚ)
    (hβ : IsFit (nseg + p) (normalMat n w (basisOn dmin dmax nseg p x) (pen1 (nseg + p) ord lam))
      (bwy n w (basisOn dmin dmax nseg p x) (fun i => q.eval (x i))) β)
    (i : ℕ) (hi : i < n) (hwi : 0 < w i) :
    fitted (nseg + p) (basisOn dmin dmax nseg p x) β i = q.eval (x i) := by
  obtain ⟨c, hc1, hc2⟩ := reproduces_polynomials dmin dmax nseg p ord n x w lam q hd hseg hp1 hq hop hx
  rw [← hc1 i hi]
  exact yhat_unique_on_support (nseg + p) n w _ _ _ β c hw
    (fun v => quadForm_pen1_nonneg (nseg + p) ord lam hl v) hβ hc2 i hi hwi

/-- Degree 4, order 5 (beyond the property's orders), cubic polynomial. -/
example : ∃ c : ℕ → ℚ, ∀ i < 3, fitted (2 + 4) (basisOn 0 2 2 4 (fun i => (i : ℚ))) c i
    = (X ^ 4 - C 2 * X + 1 : ℚ[X]).eval ((i : ℚ)) := by
  obtain ⟨c, h, _⟩ := reproduces_polynomials 0 2 2 4 5 3 (fun i => (i : ℚ)) (fun _ => 1) 7
    (X ^ 4 - C 2 * X + 1 : ℚ[X]) (by norm_num) (by norm_num) (by norm_num)
    (by
      have : (X ^ 4 - C 2 * X + 1 : ℚ[X]).natDegree ≤ 4 := by
        refine le_trans (natDegree_add_le _ _) (max_le ?_ (by simp))
        refine le_trans (natDegree_sub_le _ _) (max_le (by simp) ?_)
        exact le_trans (natDegree_C_mul_le _ _) (by simp)
      omega)
    (by norm_num)
    (by intro i hi; rcases (by omega : i = 0 ∨ i = 1 ∨ i = 2) with rfl | rfl | rfl <;> norm_num)
  exact ⟨c, h⟩
/-- A coefficient sequence annihilated by the `ord`-th difference is in the null space of `DᵀD`. -/
theorem penMat_null (m ord : ℕ) (c : ℕ → ℚ) (hc : ∀ i, (Δ_[1]^[ord] c) i = 0) (k : ℕ) :
    ∑ l ∈ range m, penMat m ord k l * c l = 0 := by
  have hD : ∀ r < m - ord, ∑ l ∈ range m, diffMat ord r l * c l = 0 := by
    intro r hr
    have := sum_mul_diffMat m c ord r (by omega)
    rw [hc r] at this
    rw [← this]; apply Finset.sum_congr rfl; intro l _; ring
  have := difference_null_space m ord 1 c hD k
  simpa [pen1] using this

/-- Tensor-product polynomial reproduction in two dimensions: responses
`y(i₁,i₂) = Σ_{t<T} q₁ₜ(x₁[i₁])·q₂ₜ(x₂[i₂])` with every factor of degree below the penalty order
(`order ≤ degree_k + 1` in both directions) are the Kronecker spline of a coefficient vector that
solves the explicit tensor-product normal equations for EVERY pair of penalties and EVERY weights —
all basis sizes, all grids inside the domains, every order. -/
theorem reproduces_tensor_polynomials_2d (a1 b1 a2 b2 : ℚ) (s1 p1 s2 p2 ord n1 n2 : ℕ) (x1 x2 w : ℕ → ℚ)
    (la lb : ℚ) (T : ℕ) (q1 q2 : ℕ → ℚ[X])
    (hd1 : a1 < b1) (hd2 : a2 < b2) (hs1 : 0 < s1) (hs2 : 0 < s2) (hp1 : 1 ≤ p1) (hp2 : 1 ≤ p2)
    (hq1 : ∀ t < T, (q1 t).natDegree < ord) (hq2 : ∀ t < T, (q2 t).natDegree < ord)
    (ho1 : ord ≤ p1 + 1) (ho2 : ord ≤ p2 + 1) (hn2 : 0 < n2)
    (hx1 : ∀ i < n1, a1 ≤ x1 i ∧ x1 i ≤ b1) (hx2 : ∀ i < n2, a2 ≤ x2 i ∧ x2 i ≤ b2) :
    ∃ c : ℕ → ℚ,
      (∀ i1 < n1, ∀ i2 < n2,
        fitted ((s1 + p1) * (s2 + p2)) (kronB (s2 + p2) n2 (basisOn a1 b1 s1 p1 x1) (basisOn a2 b2 s2 p2 x2)) c
            (i1 * n2 + i2)
          = ∑ t ∈ range T, (q1 t).eval (x1 i1) * (q2 t).eval (x2 i2)) ∧
      IsFit ((s1 + p1) * (s2 + p2))
        (normalMat (n1 * n2) w (kronB (s2 + p2) n2 (basisOn a1 b1 s1 p1 x1) (basisOn a2 b2 s2 p2 x2))
          (penSpec2 (s2 + p2) la lb (penMat (s1 + p1) ord) (penMat (s2 + p2) ord)))
        (bwy (n1 * n2) w (kronB (s2 + p2) n2 (basisOn a1 b1 s1 p1 x1) (basisOn a2 b2 s2 p2 x2))
          (fun I => ∑ t ∈ range T, (q1 t).eval (x1 (I / n2)) * (q2 t).eval (x2 (I % n2)))) c := by
  set m1 := s1 + p1 with hm1
  set m2 := s2 + p2 with hm2
  set B1 := basisOn a1 b1 s1 p1 x1 with hB1
  set B2 := basisOn a2 b2 s2 p2 x2 with hB2
  set P := penSpec2 m2 la lb (penMat m1 ord) (penMat m2 ord) with hP
  have hm2pos : 0 < m2 := by omega
  -- coefficient vector in the null space of the penalty with the right fitted values, by induction on T
  have key : ∀ T' ≤ T, ∃ c : ℕ → ℚ,
      (∀ K < m1 * m2, ∑ L ∈ range (m1 * m2), P K L * c L = 0) ∧
      (∀ i1 < n1, ∀ i2 < n2, fitted (m1 * m2) (kronB m2 n2 B1 B2) c (i1 * n2 + i2)
          = ∑ t ∈ range T', (q1 t).eval (x1 i1) * (q2 t).eval (x2 i2)) := by
    intro T'
    induction T' with
    | zero =>
      intro _
      exact ⟨fun _ => 0, fun K _ => by simp, fun i1 _ i2 _ => by simp [fitted]⟩
    | succ T' ih =>
      intro hT
      obtain ⟨c, hc1, hc2⟩ := ih (by omega)
      obtain ⟨c1, h10, h1s⟩ := poly_is_spline a1 b1 m1 p1 hp1 (by omega) hd1 (q1 T') ord (hq1 T' (by omega)) ho1
      obtain ⟨c2, h20, h2s⟩ := poly_is_spline a2 b2 m2 p2 hp2 (by omega) hd2 (q2 T') ord (hq2 T' (by omega)) ho2
      refine ⟨fun K => c K + kronVec m2 c1 c2 K, ?_, ?_⟩
      · intro K hK
        simp_rw [mul_add]
        rw [Finset.sum_add_distrib, hc1 K hK,
          penSpec2_null m1 m2 la lb _ _ c1 c2 (fun k _ => penMat_null m1 ord c1 h10 k)
            (fun k _ => penMat_null m2 ord c2 h20 k) hm2pos K hK, add_zero]
      · intro i1 hi1 i2 hi2
        have hadd : fitted (m1 * m2) (kronB m2 n2 B1 B2) (fun K => c K + kronVec m2 c1 c2 K) (i1 * n2 + i2)
            = fitted (m1 * m2) (kronB m2 n2 B1 B2) c (i1 * n2 + i2)
              + fitted (m1 * m2) (kronB m2 n2 B1 B2) (kronVec m2 c1 c2) (i1 * n2 + i2) := by
          unfold fitted; rw [← Finset.sum_add_distrib]; apply Finset.sum_congr rfl; intro k _; ring
        rw [hadd, hc2 i1 hi1 i2 hi2, kron_fitted m1 m2 n2 B1 B2 c1 c2 i1 i2 hi2, Finset.sum_range_succ]
        congr 1
        have f1 : fitted m1 B1 c1 i1 = (q1 T').eval (x1 i1) := by
          rw [← h1s (x1 i1) (hx1 i1 hi1).1 (hx1 i1 hi1).2]
          unfold fitted; rw [hB1]; unfold basisOn
          apply Finset.sum_congr rfl; intro k _; ring
        have f2 : fitted m2 B2 c2 i2 = (q2 T').eval (x2 i2) := by
          rw [← h2s (x2 i2) (hx2 i2 hi2).1 (hx2 i2 hi2).2]
          unfold fitted; rw [hB2]; unfold basisOn
          apply Finset.sum_congr rfl; intro k _; ring
        rw [f1, f2]
  obtain ⟨c, hc1, hc2⟩ := key T (le_refl T)
  refine ⟨c, hc2, ?_⟩
  have hfit := reproduces_null_space (m1 * m2) (n1 * n2) w (kronB m2 n2 B1 B2) P c hc1
  intro K hK
  rw [hfit K hK]
  unfold bwy
  rw [sum_range_mul, sum_range_mul]
  apply Finset.sum_congr rfl; intro i1 hi1
  apply Finset.sum_congr rfl; intro i2 hi2
  obtain ⟨e1, e2⟩ := divmod_lin n2 i1 i2 (mem_range.mp hi2)
  rw [hc2 i1 (mem_range.mp hi1) i2 (mem_range.mp hi2)]
  simp only [e1, e2]

/-- Degrees 2 × 3, order 3, the tensor polynomial `x₁²·x₂ + 1·x₂²` on a 2 × 2 grid. -/
example : ∃ c : ℕ → ℚ, ∀ i1 < 2, ∀ i2 < 2,
    fitted ((1 + 2) * (2 + 3)) (kronB (2 + 3) 2 (basisOn 0 1 1 2 (fun i => (i : ℚ))) (basisOn 0 2 2 3 (fun i => (i : ℚ)))) c
        (i1 * 2 + i2)
      = ∑ t ∈ range 2, ((fun t => if t = 0 then (X ^ 2 : ℚ[X]) else 1) t).eval ((i1 : ℚ))
          * ((fun t => if t = 0 then (X : ℚ[X]) else X ^ 2) t).eval ((i2 : ℚ)) := by
  obtain ⟨c, h, _⟩ := reproduces_tensor_polynomials_2d 0 1 0 2 1 2 2 3 3 2 2 (fun i => (i : ℚ)) (fun i => (i : ℚ))
    (fun _ => 1) 1 4 2 (fun t => if t = 0 then (X ^ 2 : ℚ[X]) else 1) (fun t => if t = 0 then (X : ℚ[X]) else X ^ 2)
    (by norm_num) (by norm_num) (by norm_num) (by norm_num) (by norm_num) (by norm_num)
    (by intro t ht; rcases (by omega : t = 0 ∨ t = 1) with rfl | rfl <;> simp)
    (by intro t ht; rcases (by omega : t = 0 ∨ t = 1) with rfl | rfl <;> simp)
    (by norm_num) (by norm_num) (by norm_num)
    (by intro i hi; rcases (by omega : i = 0 ∨ i = 1) with rfl | rfl <;> norm_num)
    (by intro i hi; rcases (by omega : i = 0 ∨ i = 1) with rfl | rfl <;> norm_num)
  exact ⟨c, h⟩

/-! ## Hat-matrix trace, end-to-end leverage bounds of the array arithmetic -/

/-- Trace of the hat matrix: `Σ_i h_i = tr(A⁻¹ B W Bᵀ)`. -/
theorem hat_trace (nb n : ℕ) (w : ℕ → ℚ) (B X : ℕ → ℕ → ℚ) :
    ∑ i ∈ range n, hatDiag nb w B X i = ∑ k ∈ range nb, ∑ l ∈ range nb, X k l * bwb n w B l k := by
  unfold hatDiag bwb
  simp_rw [Finset.sum_mul, Finset.mul_sum]
  rw [Finset.sum_comm]
  apply Finset.sum_congr rfl; intro k _
  rw [Finset.sum_comm]
  apply Finset.sum_congr rfl; intro l _
  apply Finset.sum_congr rfl; intro i _
  ring

/-- Effective dimension: with the inverse `X` of `A = B W Bᵀ + P`, `Σ_i h_i = nb − tr(A⁻¹ P)`. -/
theorem hat_trace_eq (nb n : ℕ) (w : ℕ → ℚ) (B P X : ℕ → ℕ → ℚ)
    (hX : IsInverse nb (normalMat n w B P) X) :
    ∑ i ∈ range n, hatDiag nb w B X i = (nb : ℚ) - ∑ k ∈ range nb, ∑ l ∈ range nb, X k l * P l k := by
  have hXA := isInverse_comm nb _ X hX
  rw [hat_trace]
  have h1 : ∀ k ∈ range nb, ∑ l ∈ range nb, X k l * bwb n w B l k
      = 1 - ∑ l ∈ range nb, X k l * P l k := by
    intro k hk
    have := hXA k (mem_range.mp hk) k (mem_range.mp hk)
    simp only [if_true] at this
    unfold normalMat at this
    simp_rw [mul_add] at this
    rw [Finset.sum_add_distrib] at this
    linarith
  rw [Finset.sum_congr rfl h1, Finset.sum_sub_distrib]
  simp

/-- End to end, 2-D: the hat diagonal returned by the (repaired) array arithmetic lies in `[0, 1]`
whenever `X` (flat) inverts the matrix the code assembles (`bwb_mat + penalty_mat`), the weights are
non-negative and the penalties are non-negative — all basis sizes, all grid sizes, every order. -/
theorem glam_hat_bounds_2d (d1 d2 : Dim) (X W : Array ℚ) (ord : ℕ) (la lb : ℚ)
    (hn1 : 0 < d1.n) (hn2 : 0 < d2.n) (hm1 : 0 < d1.m) (hm2 : 0 < d2.m)
    (hw : ∀ i < d1.n * d2.n, 0 ≤ rd W i) (ha : 0 ≤ la) (hb : 0 ≤ lb)
    (hX : IsInverse (d1.m * d2.m)
      (fun K L => rd (glamBWB [d1, d2] W) (K * (d1.m * d2.m) + L)
        + penaltyND [la, lb] [(d1.m, penMat d1.m ord), (d2.m, penMat d2.m ord)] K L)
      (fun K L => rd X (K * (d1.m * d2.m) + L)))
    (i1 i2 : ℕ) (hi1 : i1 < d1.n) (hi2 : i2 < d2.n) :
    0 ≤ rd (glamHat [d1, d2] X W) (i1 * d2.n + i2) ∧ rd (glamHat [d1, d2] X W) (i1 * d2.n + i2) ≤ 1 := by
  rw [glam_hat_2d d1 d2 X W hm1 hm2 i1 i2 hi1 hi2]
  have hA : ∀ K < d1.m * d2.m, ∀ L < d1.m * d2.m,
      rd (glamBWB [d1, d2] W) (K * (d1.m * d2.m) + L)
        + penaltyND [la, lb] [(d1.m, penMat d1.m ord), (d2.m, penMat d2.m ord)] K L
      = normalMat (d1.n * d2.n) (rd W) (kronB d2.m d2.n d1.B d2.B)
          (penSpec2 d2.m la lb (penMat d1.m ord) (penMat d2.m ord)) K L := by
    intro K hK L hL
    have hk1 : K / d2.m < d1.m := Nat.div_lt_of_lt_mul (by rw [Nat.mul_comm]; exact hK)
    have hl1 : L / d2.m < d1.m := Nat.div_lt_of_lt_mul (by rw [Nat.mul_comm]; exact hL)
    have eK : K = K / d2.m * d2.m + K % d2.m := by rw [Nat.mul_comm]; exact (Nat.div_add_mod K d2.m).symm
    have eL : L = L / d2.m * d2.m + L % d2.m := by rw [Nat.mul_comm]; exact (Nat.div_add_mod L d2.m).symm
    have := normal_equations_2d d1 d2 W ord la lb hn1 hn2 (K / d2.m) (L / d2.m) (K % d2.m) (L % d2.m)
      hk1 hl1 (Nat.mod_lt _ hm2) (Nat.mod_lt _ hm2)
    rw [← eK, ← eL] at this
    exact this
  have hX' : IsInverse (d1.m * d2.m)
      (normalMat (d1.n * d2.n) (rd W) (kronB d2.m d2.n d1.B d2.B)
        (penSpec2 d2.m la lb (penMat d1.m ord) (penMat d2.m ord)))
      (fun K L => rd X (K * (d1.m * d2.m) + L)) := by
    intro k hk l hl
    rw [← hX k hk l hl]
    apply Finset.sum_congr rfl; intro m hm
    simp only []
    rw [hA k hk m (mem_range.mp hm)]
  exact hat_bounds (d1.m * d2.m) (d1.n * d2.n) (rd W) _ _ _ hw
    (fun v => tensor_penalty_psd_2d d1.m d2.m ord la lb ha hb v) hX' (i1 * d2.n + i2)
    (lt_mul_of' d1.n d2.n i1 i2 hi1 hi2)

example : ∑ i ∈ range 1, hatDiag 1 (fun _ => 1) (fun _ _ => 1) (fun _ _ => 1 / 3) i
    = ((1 : ℕ) : ℚ) - ∑ k ∈ range 1, ∑ l ∈ range 1, (fun _ _ => (1 : ℚ) / 3) k l * (fun _ _ => (2 : ℚ)) l k :=
  hat_trace_eq 1 1 (fun _ => 1) (fun _ _ => 1) (fun _ _ => 2) (fun _ _ => 1 / 3)
    (by
      intro k hk l hl
      obtain rfl : k = 0 := by omega
      obtain rfl : l = 0 := by omega
      simp [normalMat, bwb]; norm_num)

/-! ## Counterexamples -/

/-- The polynomial clause of the property read literally (every degree `≥ 1`, every order `≤ 3`):
every polynomial response of degree `< order` on a grid inside the domain is a spline of the
basis, i.e. *can* be returned by the smoother. -/
def polynomial_clause_statement : Prop :=
  ∀ (dmin dmax : ℚ) (nseg p ord n : ℕ) (x a : ℕ → ℚ), dmin < dmax → 0 < nseg → 1 ≤ p → ord ≤ 3 →
    (∀ i < n, dmin ≤ x i ∧ x i ≤ dmax) →
    ∃ β : ℕ → ℚ, ∀ i < n, fitted (nseg + p) (basisOn dmin dmax nseg p x) β i
      = ∑ j ∈ range ord, a j * x i ^ j

/-- The clause fails for `order_penalty > degree + 1`: with degree 1 (3 segments on `[0,3]`) the
quadratic `x²` sampled at `0, 1/2, 1` is not a spline of the basis, whatever the coefficients —
so no penalty can make the smoother return it (open finding `C05-poly-order-exceeds-degree`).
For `order ≤ degree + 1` the clause is `C05.reproduces_polynomial_coefficients` plus the
oracle's sampled check. -/
theorem polynomial_counterexample : ¬ polynomial_clause_statement := by
  intro hall
  obtain ⟨β, h⟩ := hall 0 3 3 1 3 3 (fun i => (i : ℚ) / 2) (fun j => if j = 2 then 1 else 0)
    (by norm_num) (by norm_num) (by norm_num) (by norm_num)
    (by
      intro i hi
      rcases (by omega : i = 0 ∨ i = 1 ∨ i = 2) with rfl | rfl | rfl <;> norm_num)
  have b00 : basisOn 0 3 3 1 (fun i => (i : ℚ) / 2) 0 0 = 1 := by decide +kernel
  have b10 : basisOn 0 3 3 1 (fun i => (i : ℚ) / 2) 1 0 = 0 := by decide +kernel
  have b20 : basisOn 0 3 3 1 (fun i => (i : ℚ) / 2) 2 0 = 0 := by decide +kernel
  have b30 : basisOn 0 3 3 1 (fun i => (i : ℚ) / 2) 3 0 = 0 := by decide +kernel
  have b01 : basisOn 0 3 3 1 (fun i => (i : ℚ) / 2) 0 1 = 1 / 2 := by decide +kernel
  have b11 : basisOn 0 3 3 1 (fun i => (i : ℚ) / 2) 1 1 = 1 / 2 := by decide +kernel
  have b21 : basisOn 0 3 3 1 (fun i => (i : ℚ) / 2) 2 1 = 0 := by decide +kernel
  have b31 : basisOn 0 3 3 1 (fun i => (i : ℚ) / 2) 3 1 = 0 := by decide +kernel
  have b02 : basisOn 0 3 3 1 (fun i => (i : ℚ) / 2) 0 2 = 0 := by decide +kernel
  have b12 : basisOn 0 3 3 1 (fun i => (i : ℚ) / 2) 1 2 = 1 := by decide +kernel
  have b22 : basisOn 0 3 3 1 (fun i => (i : ℚ) / 2) 2 2 = 0 := by decide +kernel
  have b32 : basisOn 0 3 3 1 (fun i => (i : ℚ) / 2) 3 2 = 0 := by decide +kernel
  have h0 := h 0 (by norm_num)
  have h1 := h 1 (by norm_num)
  have h2 := h 2 (by norm_num)
  simp only [fitted, Finset.sum_range_succ, Finset.sum_range_zero, b00, b10, b20, b30, b01, b11,
    b21, b31, b02, b12, b22, b32] at h0 h1 h2
  norm_num at h0 h1 h2
  linarith

/-- Witness of the defect repaired in `_fit_n_dimensional`: basis sizes 2 × 3, one observation. -/
def witnessDims : List Dim :=
  [{ m := 2, n := 1, B := fun k _ => (k : ℚ) + 1 }, { m := 3, n := 1, B := fun k _ => if k = 0 then 1 else 0 }]

/-- A symmetric `6 × 6` matrix standing for the inverse (flat, row-major): `diag(1,…,6)`. -/
def witnessX : Array ℚ := tabA 36 fun f => if f / 6 = f % 6 then ((f / 6 : ℕ) : ℚ) + 1 else 0

/-- The arrangement of the inverse used before the repair (`np.repeat` / `_create_permutation(2,d)`)
gives a different hat diagonal as soon as the basis sizes differ: on the witness the repaired
arithmetic returns the leverage `17`-form value of `C05.glam_hat_2d`, the pristine one `1`. -/
theorem pristine_hat_counterexample :
    rd (glamHatPristine witnessDims witnessX #[1]) 0 ≠ rd (glamHat witnessDims witnessX #[1]) 0 := by
  decide +kernel

/-! ## Non-vacuity: the hypotheses of the theorems above are satisfiable on concrete objects -/

/-- A 1 × 1 system: `B = (1)`, `w = 1`, `P = 0`: `A = 1`. -/
example : IsFit 1 (normalMat 1 (fun _ => 1) (fun _ _ => 1) (fun _ _ => 0)) (fun _ => 1) (fun _ => 1) := by
  intro k hk; simp [normalMat, bwb]

example : 0 ≤ (1 : ℚ) * fitted 1 (fun _ _ => 1) (fun _ => 1) 0 ∧ (1 : ℚ) * fitted 1 (fun _ _ => 1) (fun _ => 1) 0 ≤ 1 :=
  leverage_bounds 1 1 (fun _ => 1) (fun _ _ => 1) (fun _ _ => 0) (fun _ _ => by norm_num)
    (fun v => by simp [quadForm]) 0 (by norm_num) (fun _ => 1) (by intro k hk; simp [normalMat, bwb])

example : fitted 1 (fun _ _ => 1) (fun _ => 1) 0 = fitted 1 (fun _ _ => 1) (fun _ => 1) 0 :=
  yhat_unique_on_support 1 1 (fun _ => 1) (fun _ _ => 1) (fun _ _ => 0) (fun _ => 1) (fun _ => 1) (fun _ => 1)
    (fun _ _ => by norm_num) (fun v => by simp [quadForm])
    (by intro k hk; simp [normalMat, bwb]) (by intro k hk; simp [normalMat, bwb]) 0 (by norm_num) (by norm_num)

/-- Basis sizes 2 × 3 on a 1 × 1 grid (`witnessDims`): entry `((1,2),(0,1))` of `bwb_mat`. -/
example : rd (glamBWB witnessDims #[1]) ((1 * 3 + 2) * (2 * 3) + (0 * 3 + 1))
    = bwb (1 * 1) (rd #[1]) (kronB 3 1 (fun k _ => (k : ℚ) + 1) (fun k _ => if k = 0 then 1 else 0)) (1 * 3 + 2) (0 * 3 + 1) :=
  glam_bwb_2d _ _ #[1] (by decide) (by decide) 1 0 2 1 (by decide) (by decide) (by decide) (by decide)

example : rd (glamHat witnessDims witnessX #[1]) (0 * 1 + 0)
    = hatDiag (2 * 3) (rd #[1]) (kronB 3 1 (fun k _ => (k : ℚ) + 1) (fun k _ => if k = 0 then 1 else 0))
        (fun K L => rd witnessX (K * (2 * 3) + L)) (0 * 1 + 0) :=
  glam_hat_2d _ _ witnessX #[1] (by decide) (by decide) 0 0 (by decide) (by decide)

example : ∑ l ∈ range 5, diffMat 2 1 l * (∑ j ∈ range 2, (fun j => (j : ℚ) + 3) j * (l : ℚ) ^ j) = 0 :=
  poly_coeffs_annihilated 5 2 _ 1 (by norm_num)

/-! ## The formulas as the SOURCE has them (`Generated/PSplineFormulas.lean`, regenerated from
`FDApy/preprocessing/smoothing/psplines.py` on every run by `harness/c05_translate.py`) are the model's -/

section Source
open FDA.Generated.PSpline

/-- Closes what unfolding leaves of "source formula = model formula", so that harmless rewritings of the source re-prove. -/
macro "src_close" : tactic =>
  `(tactic| first | rfl | (simp; done) | (push_cast; ring_nf; done) | omega | (simp; omega) | (simp; ring_nf; done))

/-- The defaults of `PSplines.__init__` in the source are the model's. -/
theorem defaults_src_eq_model :
    defaultNSegments = defaultNSeg ∧ Generated.PSpline.defaultDegree = PSpline.defaultDegree ∧
      defaultOrderPenalty = defaultOrder ∧ defaultOrderDerivative = 0 := by
  refine ⟨?_, ?_, ?_, ?_⟩ <;> decide

/-- `fit` and `predict` ask `_basis_bsplines` for `n_segments + degree` functions of the given degree — the basis size
`nseg + p` of the model's `basisOn` / `predict1`. -/
theorem n_functions_src_eq_model (nseg p : ℕ) :
    nFunFit nseg p = nseg + p ∧ degFit nseg p = p ∧ nFunPredict nseg p = nseg + p ∧ degPredict nseg p = p := by
  refine ⟨?_, ?_, ?_, ?_⟩ <;> simp only [nFunFit, degFit, nFunPredict, degPredict] <;> src_close

/-- The difference penalty of the source (1-D and n-D) is the model's `penMat`: `np.diff` of the identity of the requested
order along axis 0 (= `diffMat ord`, rows `0 … nb − ord − 1`) and the Gram product `DᵀD`. -/
theorem penalty_src_eq_model (nb ord k l : ℕ) :
    penAxis1 = 0 ∧ penAxisN = 0 ∧ penGramDtD1 = true ∧ penGramDtDN = true ∧
    (∑ r ∈ Finset.range (nb - penOrder1 ord), diffMat (penOrder1 ord) r k * diffMat (penOrder1 ord) r l) = penMat nb ord k l ∧
    (∑ r ∈ Finset.range (nb - penOrderN ord), diffMat (penOrderN ord) r k * diffMat (penOrderN ord) r l) = penMat nb ord k l := by
  refine ⟨by decide, by decide, by decide, by decide, ?_, ?_⟩ <;> simp only [penOrder1, penOrderN, penMat] <;> src_close

theorem repeat2_eq (dims : List Dim) : repeat2 dims = repeatL 2 (dims.map (·.m)) := by
  unfold repeat2 repeatL
  induction dims with
  | nil => rfl
  | cons d ds ih => simp [List.flatMap_cons, List.replicate] at ih ⊢; exact ih

theorem tile2_eq (dims : List Dim) : tile2 dims = tileL 2 (dims.map (·.m)) := by
  unfold tile2 tileL; simp [List.replicate]

/-- The arrangement of `bwb_mat` (`np.repeat`, `_create_permutation(2, d)`) and of the inverse (`np.tile`,
`_create_permutation(d, 2)`) in the source are those of the model's `glamBWB` / `glamHat` — the site of the repaired
hat-matrix defect: the pristine arrangement makes this theorem fail. -/
theorem arrangement_src_eq_model (dims : List Dim) :
    bwbShape (dims.map (·.m)) = repeat2 dims ∧ bwbPerm dims.length = createPermutation 2 dims.length ∧
    hatShape (dims.map (·.m)) = tile2 dims ∧ hatPerm dims.length = createPermutation dims.length 2 := by
  refine ⟨?_, ?_, ?_, ?_⟩
  · rw [repeat2_eq]; rfl
  · rfl
  · rw [tile2_eq]; rfl
  · rfl

/-- `_create_permutation` as written (`np.arange`, `np.add.outer`, `flatten("F")`) is the model's `createPermutation`. -/
theorem create_permutation_src_eq_model (p k : ℕ) : createPermutationSrc p k = createPermutation p k := by
  unfold createPermutationSrc createPermutation
  first
    | (simp only [flattenF, outerAdd, arangeN, Nat.sub_zero, Nat.zero_add]; done)
    | (simp only [flattenF, outerAdd, arangeN, Nat.sub_zero, Nat.zero_add]; apply List.map_congr_left; intro t _; src_close)
    | (simp [flattenF, flattenC, outerAdd, arangeN]; done)

/-- `_row_tensor` as written (`np.kron(x, 1ᵀ) * np.kron(1ᵀ, y)`) is the model's `rowTensor`. -/
theorem row_tensor_src_eq_model (qx q : ℕ) (X Y : ℕ → ℕ → ℚ) (i c : ℕ) :
    rowTensorSrc qx q X Y i c = rowTensor q X Y i c := by
  unfold rowTensorSrc rowTensor
  first | rfl | (simp only [kronOnesRight, kronOnesLeft]; src_close)

/-- `_rotate` moves the FIRST axis to the LAST position (the convention `rotatedH` implements). -/
theorem rotate_src_eq_model : rotateSrcAxis = 0 ∧ rotateDstAxis = -1 := by
  constructor <;> decide

end Source

end C05
