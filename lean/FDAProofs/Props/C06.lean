/-
C06 — local polynomial regression is the kernel-weighted least-squares fit per point.
Only property theorems and non-vacuity examples; helper lemmas are in
`FDAProofs/Lemmas/LocalPoly.lean`, the real Gaussian in `FDAProofs/Lemmas/Gaussian.lean`.
All theorems are about the definitions `Drivers/C06.lean` evaluates (`ckernel`,
`weight1`, `weight2Sq`, `design1`, `design2`, `lpEstimate`, `lpEstimate1/2`, `lpPredict1/2`).
-/
import FDAModel.Generated.SmoothFormulas
import FDAModel.LocalPolyIO
import FDAProofs.Lemmas.LocalPoly
import FDAProofs.Lemmas.Gaussian
import FDAModel.Generated.Kernels
import Mathlib.Tactic.Positivity
import Mathlib.Tactic.NormNum
import Mathlib.Tactic.IntervalCases
import Mathlib.Analysis.SpecialFunctions.Gaussian.GaussianIntegral
import Mathlib.Algebra.Polynomial.Eval.Degree
import Mathlib.Algebra.Polynomial.Degree.Lemmas
import Mathlib.Algebra.Polynomial.BigOperators

namespace C06
open FDA FDA.LP Finset


/-- Clause *kernels are non-negative* (the three compactly supported kernels, every argument). -/
theorem kernel_nonneg (k : CKernel) (u : ℚ) : 0 ≤ ckernel k u := by
  cases k <;> simp only [ckernel]
  · unfold epanechnikov
    split_ifs with h
    · have h2 : u ^ 2 ≤ 1 := by
        have := abs_le.mp h
        nlinarith [this.1, this.2]
      nlinarith
    · exact le_refl 0
  · unfold tricube
    split_ifs with h
    · have h3 : |u| ^ 3 ≤ 1 := pow_le_one₀ (abs_nonneg u) h.le
      exact pow_nonneg (by linarith) 3
    · exact le_refl 0
  · unfold bisquare
    split_ifs with h
    · exact sq_nonneg _
    · exact le_refl 0

/-- Clause *kernels are even*. -/
theorem kernel_even (k : CKernel) (u : ℚ) : ckernel k (-u) = ckernel k u := by
  cases k <;> simp [ckernel, epanechnikov, tricube, bisquare, abs_neg]

/-- Clause *kernels vanish beyond one bandwidth* (`|u| ≥ 1`; at `|u| = 1` the `≤`/`<` conventions of the code coincide because the value is `0` there). -/
theorem kernel_support (k : CKernel) (u : ℚ) (hu : 1 ≤ |u|) : ckernel k u = 0 := by
  cases k <;> simp only [ckernel]
  · unfold epanechnikov
    split_ifs with h
    · have h1 : |u| = 1 := le_antisymm h hu
      have h2 : u ^ 2 = 1 := by rw [← sq_abs, h1]; norm_num
      rw [h2]; norm_num
    · rfl
  · unfold tricube
    rw [if_neg (not_lt.mpr hu)]
  · unfold bisquare
    rw [if_neg (not_lt.mpr hu)]

/-- Inside the window every point gets a strictly positive weight (so `local_window` is sharp). -/
theorem kernel_pos_inside (k : CKernel) (u : ℚ) (hu : |u| < 1) : 0 < ckernel k u := by
  cases k <;> simp only [ckernel]
  · unfold epanechnikov
    rw [if_pos hu.le]
    have h2 : u ^ 2 < 1 := by
      have := abs_lt.mp hu
      nlinarith [this.1, this.2]
    nlinarith
  · unfold tricube
    rw [if_pos hu]
    have h3 : |u| ^ 3 < 1 := pow_lt_one₀ (abs_nonneg u) hu (by norm_num)
    exact pow_pos (by linarith) 3
  · unfold bisquare
    rw [if_pos hu]
    have h2 : u ^ 2 < 1 := by
      have := abs_lt.mp hu
      nlinarith [this.1, this.2]
    exact pow_pos (by linarith) 2

/-- A kernel is largest at the query point itself. -/
theorem kernel_le_peak (k : CKernel) (u : ℚ) : ckernel k u ≤ ckernel k 0 := by
  cases k <;> simp only [ckernel]
  · unfold epanechnikov
    split_ifs with h h0 h0
    · nlinarith [sq_nonneg u]
    · exact absurd (by simp) h0
    · norm_num
    · exact absurd (by simp) h0
  · unfold tricube
    split_ifs with h h0 h0
    · have h3 : 0 ≤ |u| ^ 3 := pow_nonneg (abs_nonneg u) 3
      have h4 : |u| ^ 3 ≤ 1 := pow_le_one₀ (abs_nonneg u) h.le
      simp only [abs_zero]
      have : (1 - |u| ^ 3) ^ 3 ≤ 1 := pow_le_one₀ (by linarith) (by linarith)
      norm_num; exact this
    · exact absurd (by simp) h0
    · norm_num
    · exact absurd (by simp) h0
  · unfold bisquare
    split_ifs with h h0 h0
    · have h2 : u ^ 2 ≤ 1 := by
        have := abs_lt.mp h
        nlinarith [this.1, this.2]
      have : (1 - u ^ 2) ^ 2 ≤ 1 := pow_le_one₀ (by linarith) (by nlinarith [sq_nonneg u])
      have e : (1 - (0 : ℚ) ^ 2) ^ 2 = 1 := by norm_num
      rw [e]; exact this
    · exact absurd (by simp) h0
    · norm_num
    · exact absurd (by simp) h0

/-- The weights `_compute_kernel` produces are invariant under `t ↦ a t + b`, `h ↦ |a| h`. -/
theorem weight_shift_scale (k : CKernel) (h x x0 a b : ℚ) (ha : a ≠ 0) :
    weight1 k (|a| * h) (a * x + b) (a * x0 + b) = weight1 k h x x0 := by
  unfold weight1
  have : a * x + b - (a * x0 + b) = a * (x - x0) := by ring
  rw [this, abs_mul, mul_div_mul_left _ _ (abs_ne_zero.mpr ha)]



/-- Main clause: an estimate returned by the model's `lpEstimate` *is* the explicit kernel-weighted polynomial least-squares fit evaluated at the query: the query row applied to the unique solution of the weighted normal equations (any design, any weights, any size). -/
theorem estimate_is_wls (n p : ℕ) (hp : 0 < p) (w : ℕ → ℚ) (D : ℕ → ℕ → ℚ) (y : ℕ → ℚ) (v : ℚ)
    (h : lpEstimate n p w D y = some v) :
    ∃ β : ℕ → ℚ, IsSol p (normalMat n w D) (normalRhs n w D y) β ∧ v = est p unit0 β ∧
      ∀ β', IsSol p (normalMat n w D) (normalRhs n w D y) β' → ∀ a, a < p → β' a = β a := by
  obtain ⟨β, hs, hv, hu⟩ := lpEstimate_spec hp h
  exact ⟨β, hs, by rw [est_unit0 hp]; exact hv, hu⟩

/-- … and a solution of the normal equations minimises the kernel-weighted residual sum of squares over all coefficient vectors (non-negative weights). -/
theorem normal_equations_minimise (n p : ℕ) (w : ℕ → ℚ) (D : ℕ → ℕ → ℚ) (y β : ℕ → ℚ)
    (hw : ∀ i, i < n → 0 ≤ w i)
    (hs : IsSol p (normalMat n w D) (normalRhs n w D y) β) (γ : ℕ → ℚ) :
    wrss n p w D y β ≤ wrss n p w D y γ := by
  rw [isSol_iff] at hs
  -- the weighted residual is orthogonal to every combination of the columns
  have orth : ∑ i ∈ range n, w i * (y i - ∑ a ∈ range p, D i a * β a) *
      (∑ a ∈ range p, D i a * (β a - γ a)) = 0 := by
    have : ∀ i ∈ range n, w i * (y i - ∑ a ∈ range p, D i a * β a) * (∑ a ∈ range p, D i a * (β a - γ a))
        = ∑ a ∈ range p, (β a - γ a) * (D i a * w i * y i - D i a * w i * ∑ b ∈ range p, D i b * β b) := by
      intro i _
      rw [Finset.mul_sum]
      apply Finset.sum_congr rfl
      intro a _
      ring
    rw [Finset.sum_congr rfl this, Finset.sum_comm]
    apply Finset.sum_eq_zero
    intro a ha
    rw [← Finset.mul_sum, Finset.sum_sub_distrib, hs a (mem_range.mp ha), sub_self, mul_zero]
  have expand : wrss n p w D y γ = wrss n p w D y β +
      ∑ i ∈ range n, w i * (∑ a ∈ range p, D i a * (β a - γ a)) ^ 2 := by
    unfold wrss
    have e : ∀ i ∈ range n, w i * (y i - ∑ a ∈ range p, D i a * γ a) ^ 2 =
        w i * (y i - ∑ a ∈ range p, D i a * β a) ^ 2
        + w i * (∑ a ∈ range p, D i a * (β a - γ a)) ^ 2
        + 2 * (w i * (y i - ∑ a ∈ range p, D i a * β a) * (∑ a ∈ range p, D i a * (β a - γ a))) := by
      intro i _
      have : ∑ a ∈ range p, D i a * (β a - γ a) =
          (∑ a ∈ range p, D i a * β a) - ∑ a ∈ range p, D i a * γ a := by
        rw [← Finset.sum_sub_distrib]
        apply Finset.sum_congr rfl
        intro a _; ring
      rw [this]; ring
    rw [Finset.sum_congr rfl e, Finset.sum_add_distrib, Finset.sum_add_distrib, ← Finset.mul_sum, orth]
    ring
  rw [expand]
  have : 0 ≤ ∑ i ∈ range n, w i * (∑ a ∈ range p, D i a * (β a - γ a)) ^ 2 :=
    Finset.sum_nonneg fun i hi => mul_nonneg (hw i (mem_range.mp hi)) (sq_nonneg _)
  linarith

/-- Clause *linear in the responses* (every design, weights, size; success of the fit does not depend on the responses). -/
theorem linear (n p : ℕ) (hp : 0 < p) (w : ℕ → ℚ) (D : ℕ → ℕ → ℚ) (y₁ y₂ : ℕ → ℚ) (a b v₁ v₂ : ℚ)
    (h₁ : lpEstimate n p w D y₁ = some v₁) (h₂ : lpEstimate n p w D y₂ = some v₂) :
    lpEstimate n p w D (fun i => a * y₁ i + b * y₂ i) = some (a * v₁ + b * v₂) := by
  have hsome : (lpEstimate n p w D (fun i => a * y₁ i + b * y₂ i)).isSome = true := by
    rw [lpEstimate_isSome_resp n p w D _ y₁, h₁]; rfl
  obtain ⟨v, hv⟩ := Option.isSome_iff_exists.mp hsome
  obtain ⟨β₁, hs₁, hv₁, _⟩ := lpEstimate_spec hp h₁
  obtain ⟨β₂, hs₂, hv₂, _⟩ := lpEstimate_spec hp h₂
  have hs : IsSol p (normalMat n w D) (normalRhs n w D (fun i => a * y₁ i + b * y₂ i))
      (fun c => a * β₁ c + b * β₂ c) := by
    intro c hc
    rw [normalRhs_linear, ← hs₁ c hc, ← hs₂ c hc, Finset.mul_sum, Finset.mul_sum,
      ← Finset.sum_add_distrib]
    apply Finset.sum_congr rfl
    intro e _; ring
  rw [hv, lpEstimate_eq_of_sol hp hv hs, hv₁, hv₂]

/-- Clause *local*: responses carrying zero weight do not enter (also in the singular case: the two results are equal as `Option`s). -/
theorem local_zero_weight (n p : ℕ) (w : ℕ → ℚ) (D : ℕ → ℕ → ℚ) (y y' : ℕ → ℚ)
    (h : ∀ i, i < n → w i = 0 ∨ y i = y' i) :
    lpEstimate n p w D y = lpEstimate n p w D y' := by
  apply lpEstimate_congr (fun _ _ _ _ => rfl)
  intro a _
  unfold normalRhs
  apply Finset.sum_congr rfl
  intro i hi
  rcases h i (mem_range.mp hi) with h0 | h1
  · rw [h0]; ring
  · rw [h1]

/-- Responses in the column space of the design are reproduced: the estimate is the intercept coefficient. -/
theorem reproduces_column_space (n p : ℕ) (hp : 0 < p) (w : ℕ → ℚ) (D : ℕ → ℕ → ℚ) (y c : ℕ → ℚ)
    (v : ℚ) (hy : ∀ i, i < n → y i = ∑ a ∈ range p, D i a * c a)
    (h : lpEstimate n p w D y = some v) : v = c 0 := by
  apply lpEstimate_eq_of_sol hp h
  rw [isSol_iff]
  intro a _
  apply Finset.sum_congr rfl
  intro i hi
  rw [hy i (mem_range.mp hi)]

/-- The order of the sampling points is irrelevant (designs sorted or not). -/
theorem order_of_data (n p : ℕ) (w : ℕ → ℚ) (D : ℕ → ℕ → ℚ) (y : ℕ → ℚ) (σ : ℕ → ℕ)
    (hσ : Set.BijOn σ (range n : Set ℕ) (range n : Set ℕ)) :
    lpEstimate n p (fun i => w (σ i)) (fun i => D (σ i)) (fun i => y (σ i)) = lpEstimate n p w D y := by
  apply lpEstimate_congr
  · intro a _ b _
    unfold normalMat
    exact Finset.sum_nbij σ (fun i hi => hσ.mapsTo hi) (fun i hi j hj h => hσ.injOn hi hj h)
      (fun j hj => hσ.surjOn hj) (fun i _ => rfl)
  · intro a _
    unfold normalRhs
    exact Finset.sum_nbij σ (fun i hi => hσ.mapsTo hi) (fun i hi j hj h => hσ.injOn hi hj h)
      (fun j hj => hσ.surjOn hj) (fun i _ => rfl)


/-- Locality, 1-D, compact kernels: responses farther than one bandwidth from the query do not enter. -/
theorem local_window (k : CKernel) (h : ℚ) (hh : 0 < h) (d n : ℕ) (x y y' : ℕ → ℚ) (x0 : ℚ)
    (hy : ∀ i, i < n → |x i - x0| < h → y i = y' i) :
    lpEstimate1 k h d n x y x0 = lpEstimate1 k h d n x y' x0 := by
  unfold lpEstimate1
  apply local_zero_weight
  intro i hi
  by_cases hc : |x i - x0| < h
  · exact Or.inr (hy i hi hc)
  · left
    unfold weight1
    apply kernel_support
    rw [abs_div, abs_abs, abs_of_pos hh, le_div_iff₀ hh]
    linarith [not_lt.mp hc]

open Polynomial in
/-- Clause *reproduces polynomials up to the fitted degree* (1-D, every degree, polynomial given
in the raw coordinate): wherever the local problem is solvable, `y = P(x)` with `deg P ≤ d` is
estimated as `P(x₀)`. -/
theorem reproduces_polynomials (k : CKernel) (h : ℚ) (hh : h ≠ 0) (d n : ℕ) (x y : ℕ → ℚ) (x0 v : ℚ)
    (P : ℚ[X]) (hP : P.natDegree ≤ d) (hy : ∀ i, i < n → y i = P.eval (x i))
    (hv : lpEstimate1 k h d n x y x0 = some v) : v = P.eval x0 := by
  unfold lpEstimate1 at hv
  set Q : ℚ[X] := P.comp (C h * X + C x0) with hQ
  have hdeg : Q.natDegree < d + 1 := by
    have h1 : Q.natDegree ≤ P.natDegree * (C h * X + C x0 : ℚ[X]).natDegree := natDegree_comp_le
    have h2 : (C h * X + C x0 : ℚ[X]).natDegree ≤ 1 := natDegree_linear_le
    calc Q.natDegree ≤ P.natDegree * (C h * X + C x0 : ℚ[X]).natDegree := h1
      _ ≤ P.natDegree * 1 := Nat.mul_le_mul_left _ h2
      _ < d + 1 := by omega
  have key := reproduces_column_space n (d + 1) (Nat.succ_pos d) _ _ y (fun a => Q.coeff a) v ?_ hv
  · rw [key, coeff_zero_eq_eval_zero, hQ, eval_comp]
    simp
  · intro i hi
    rw [hy i hi]
    have : P.eval (x i) = Q.eval ((x i - x0) / h) := by
      rw [hQ, eval_comp]
      simp only [eval_add, eval_mul, eval_C, eval_X]
      congr 1
      field_simp
      ring
    rw [this, eval_eq_sum_range' hdeg]
    apply Finset.sum_congr rfl
    intro a _
    unfold design1
    ring

/-- Invariance under a common shift and rescaling `t ↦ a t + b` (`a ≠ 0`) of sampling points,
query point and bandwidth (`h ↦ |a| h`), 1-D. -/
theorem shift_scale_invariant (k : CKernel) (h : ℚ) (hh : 0 < h) (d n : ℕ) (x y : ℕ → ℚ) (x0 a b v v' : ℚ)
    (ha : a ≠ 0)
    (hv : lpEstimate1 k h d n x y x0 = some v)
    (hv' : lpEstimate1 k (|a| * h) d n (fun i => a * x i + b) y (a * x0 + b) = some v') :
    v' = v := by
  unfold lpEstimate1 at hv hv'
  obtain ⟨β, hs, hβ, _⟩ := lpEstimate_spec (Nat.succ_pos d) hv
  set s : ℚ := a / |a| with hs_def
  have habs : |a| ≠ 0 := abs_ne_zero.mpr ha
  have hs2 : s * s = 1 := by
    rw [hs_def, div_mul_div_comm, ← abs_mul_abs_self a]
    field_simp
  have hD : ∀ i c, design1 (|a| * h) (fun i => a * x i + b) (a * x0 + b) i c = s ^ c * design1 h x x0 i c := by
    intro i c
    unfold design1
    rw [← mul_pow]
    congr 1
    rw [hs_def]
    field_simp
    ring
  have hw : ∀ i, weight1 k (|a| * h) (a * x i + b) (a * x0 + b) = weight1 k h (x i) x0 :=
    fun i => weight_shift_scale k h (x i) x0 a b ha
  have hpow : ∀ c : ℕ, s ^ c * s ^ c = 1 := by
    intro c; rw [← mul_pow, hs2, one_pow]
  have hs' : IsSol (d + 1) (normalMat n (fun i => weight1 k (|a| * h) (a * x i + b) (a * x0 + b))
      (design1 (|a| * h) (fun i => a * x i + b) (a * x0 + b)))
      (normalRhs n (fun i => weight1 k (|a| * h) (a * x i + b) (a * x0 + b))
      (design1 (|a| * h) (fun i => a * x i + b) (a * x0 + b)) y) (fun c => s ^ c * β c) := by
    rw [isSol_iff]
    rw [isSol_iff] at hs
    intro c hc
    simp only [hD, hw]
    have e1 : ∀ i, ∑ b ∈ range (d + 1), s ^ b * design1 h x x0 i b * (s ^ b * β b) =
        ∑ b ∈ range (d + 1), design1 h x x0 i b * β b := by
      intro i
      apply Finset.sum_congr rfl
      intro e _
      have := hpow e
      calc s ^ e * design1 h x x0 i e * (s ^ e * β e) = (s ^ e * s ^ e) * (design1 h x x0 i e * β e) := by ring
        _ = design1 h x x0 i e * β e := by rw [this, one_mul]
    simp only [e1]
    have := hs c hc
    calc ∑ i ∈ range n, s ^ c * design1 h x x0 i c * weight1 k h (x i) x0 * ∑ b ∈ range (d + 1), design1 h x x0 i b * β b
        = s ^ c * ∑ i ∈ range n, design1 h x x0 i c * weight1 k h (x i) x0 * ∑ b ∈ range (d + 1), design1 h x x0 i b * β b := by
          rw [Finset.mul_sum]; apply Finset.sum_congr rfl; intro i _; ring
      _ = s ^ c * ∑ i ∈ range n, design1 h x x0 i c * weight1 k h (x i) x0 * y i := by rw [this]
      _ = ∑ i ∈ range n, s ^ c * design1 h x x0 i c * weight1 k h (x i) x0 * y i := by
          rw [Finset.mul_sum]; apply Finset.sum_congr rfl; intro i _; ring
  rw [lpEstimate_eq_of_sol (Nat.succ_pos d) hv' hs', hβ]
  simp

/-- For a positive rescaling the two local problems are literally the same (also in the singular case). -/
theorem shift_scale_invariant_pos (k : CKernel) (h : ℚ) (d n : ℕ) (x y : ℕ → ℚ) (x0 a b : ℚ)
    (ha : 0 < a) :
    lpEstimate1 k (a * h) d n (fun i => a * x i + b) y (a * x0 + b) = lpEstimate1 k h d n x y x0 := by
  unfold lpEstimate1
  apply lpEstimate_congr_pt
  · intro i _
    have := weight_shift_scale k h (x i) x0 a b ha.ne'
    rwa [abs_of_pos ha] at this
  · intro i _ c _
    unfold design1
    congr 1
    have : a * x i + b - (a * x0 + b) = a * (x i - x0) := by ring
    rw [this, mul_div_mul_left _ _ ha.ne']
  · intro i _; rfl



/-- Gaussian kernel: strictly positive everywhere (non-negative, no compact support). -/
theorem gaussian_pos (u : ℝ) : 0 < gaussian u :=
  div_pos (Real.exp_pos _) (Real.sqrt_pos.mpr (by positivity))

/-- Gaussian kernel: even. -/
theorem gaussian_even (u : ℝ) : gaussian (-u) = gaussian u := by
  unfold gaussian; rw [neg_sq]

/-- Gaussian kernel: largest at the query point. -/
theorem gaussian_le_peak (u : ℝ) : gaussian u ≤ gaussian 0 := by
  unfold gaussian
  apply div_le_div_of_nonneg_right _ (Real.sqrt_nonneg _)
  apply Real.exp_le_exp.mpr
  have := sq_nonneg u
  simp; linarith

/-- `LocalPolynomial.predict` is pointwise: the value at a query is the single-point estimate there, whatever the other queries (used by C07). -/
theorem pointwise (k : CKernel) (h : ℚ) (d n : ℕ) (x y : ℕ → ℚ) (Q : List ℚ) (j : ℕ) (hj : j < Q.length) :
    (lpPredict1 k h d n x y Q)[j]? = some (lpEstimate1 k h d n x y (Q[j])) := by
  unfold lpPredict1
  simp [hj]

/-- Same in two dimensions. -/
theorem pointwise_2d (bisq : Bool) (h : ℚ) (d n : ℕ) (x1 x2 y : ℕ → ℚ) (Q : List (ℚ × ℚ)) (j : ℕ)
    (hj : j < Q.length) :
    (lpPredict2 bisq h d n x1 x2 y Q)[j]? = some (lpEstimate2 bisq h d n x1 x2 y (Q[j]).1 (Q[j]).2) := by
  unfold lpPredict2
  simp [hj]

/-- Degree 0 is the Nadaraya–Watson estimator: `v · Σ wᵢ = Σ wᵢ yᵢ`. -/
theorem degree0_weighted_mean (n : ℕ) (w : ℕ → ℚ) (D : ℕ → ℕ → ℚ) (y : ℕ → ℚ) (v : ℚ)
    (hD : ∀ i, i < n → D i 0 = 1) (h : lpEstimate n 1 w D y = some v) :
    v * ∑ i ∈ range n, w i = ∑ i ∈ range n, w i * y i := by
  obtain ⟨β, hs, hv, _⟩ := lpEstimate_spec Nat.one_pos h
  have := hs 0 Nat.one_pos
  simp only [Finset.sum_range_one, normalMat, normalRhs] at this
  rw [hv, mul_comm]
  have e1 : ∑ i ∈ range n, D i 0 * w i * D i 0 = ∑ i ∈ range n, w i :=
    Finset.sum_congr rfl fun i hi => by rw [hD i (mem_range.mp hi)]; ring
  have e2 : ∑ i ∈ range n, D i 0 * w i * y i = ∑ i ∈ range n, w i * y i :=
    Finset.sum_congr rfl fun i hi => by rw [hD i (mem_range.mp hi)]; ring
  rw [e1, e2] at this
  exact this

/-- The bivariate design contains exactly the monomials of total degree `≤ d` (every degree). -/
theorem monos2_complete (d : ℕ) (e : ℕ × ℕ) : e ∈ monos2 d ↔ e.1 + e.2 ≤ d := by
  unfold monos2
  simp only [List.mem_flatMap, List.mem_range, List.mem_map]
  constructor
  · rintro ⟨t, ht, s, hs, rfl⟩
    simp only
    omega
  · intro h
    refine ⟨e.1 + e.2, by omega, e.2, by omega, ?_⟩
    ext <;> simp

/-- … each of them once. -/
theorem monos2_nodup (d : ℕ) : (monos2 d).Nodup := by
  unfold monos2
  rw [List.nodup_flatMap]
  constructor
  · intro t _
    apply List.Nodup.map_on _ List.nodup_range
    intro a ha b hb hab
    simp only [Prod.mk.injEq] at hab
    exact hab.2
  · apply List.Pairwise.imp_of_mem _ List.nodup_range
    intro a b _ _ hab
    simp only [Function.onFun, List.disjoint_left, List.mem_map, List.mem_range]
    rintro e ⟨s, hs, rfl⟩ ⟨s', hs', h'⟩
    simp only [Prod.mk.injEq] at h'
    omega

/-- Column 0 of the bivariate design is the constant (so the query row of the origin is `e₀`). -/
theorem design2_intercept (h : ℚ) (d : ℕ) (x1 x2 : ℕ → ℚ) (x01 x02 : ℚ) (i : ℕ) :
    design2 h d x1 x2 x01 x02 i 0 = 1 := by
  unfold design2 monos2
  simp [List.range_succ_eq_map, List.getD]

/-- The root-free two-dimensional weights the driver uses for Epanechnikov / bisquare are
`_compute_kernel`'s `K(‖x − x₀‖ / h)`: for the Euclidean distance `r` (`r ≥ 0`, `r² = ‖x − x₀‖²`). -/
theorem weight2_eq_sq (bisq : Bool) (h : ℚ) (hh : 0 < h) (x1 x2 x01 x02 r : ℚ) (hr0 : 0 ≤ r)
    (hr2 : r ^ 2 = sqDist2 x1 x2 x01 x02) :
    ckernel (if bisq then .bisquare else .epanechnikov) (r / h) = weight2Sq bisq h x1 x2 x01 x02 := by
  have hu0 : 0 ≤ r / h := div_nonneg hr0 hh.le
  have hu2 : (r / h) ^ 2 = sqDist2 x1 x2 x01 x02 / h ^ 2 := by rw [div_pow, hr2]
  have hle : |r / h| ≤ 1 ↔ sqDist2 x1 x2 x01 x02 / h ^ 2 ≤ 1 := by
    rw [abs_of_nonneg hu0, ← hu2]
    constructor
    · intro h1; exact pow_le_one₀ hu0 h1
    · intro h1; by_contra hc; rw [not_le] at hc
      have : 1 < (r / h) ^ 2 := by nlinarith
      linarith
  have hlt : |r / h| < 1 ↔ sqDist2 x1 x2 x01 x02 / h ^ 2 < 1 := by
    rw [abs_of_nonneg hu0, ← hu2]
    constructor
    · intro h1; exact pow_lt_one₀ hu0 h1 (by norm_num)
    · intro h1; by_contra hc; rw [not_lt] at hc
      have : 1 ≤ (r / h) ^ 2 := by nlinarith
      linarith
  unfold weight2Sq
  cases bisq
  · simp only [Bool.false_eq_true, if_false, ckernel, epanechnikov, epanechnikovSq]
    by_cases hc : |r / h| ≤ 1
    · rw [if_pos hc, if_pos (hle.mp hc), hu2]
    · rw [if_neg hc, if_neg (fun h' => hc (hle.mpr h'))]
  · simp only [if_true, ckernel, bisquare, bisquareSq]
    by_cases hc : |r / h| < 1
    · rw [if_pos hc, if_pos (hlt.mp hc), hu2]
    · rw [if_neg hc, if_neg (fun h' => hc (hlt.mpr h'))]

/-- Clause *shift/scale invariance* in two dimensions (common positive rescaling, a shift per coordinate), for the kernels that need no square root (Epanechnikov, bisquare; tricube and Gaussian are sampled only). -/
theorem shift_scale_invariant_2d_partial (bisq : Bool) (h : ℚ) (d n : ℕ) (x1 x2 y : ℕ → ℚ)
    (x01 x02 a b1 b2 : ℚ) (ha : 0 < a) :
    lpEstimate2 bisq (a * h) d n (fun i => a * x1 i + b1) (fun i => a * x2 i + b2) y (a * x01 + b1) (a * x02 + b2)
      = lpEstimate2 bisq h d n x1 x2 y x01 x02 := by
  unfold lpEstimate2 lpEstimate2W
  apply lpEstimate_congr_pt
  · intro i _
    unfold weight2Sq sqDist2
    have : ((a * x1 i + b1 - (a * x01 + b1)) ^ 2 + (a * x2 i + b2 - (a * x02 + b2)) ^ 2) / (a * h) ^ 2
        = ((x1 i - x01) ^ 2 + (x2 i - x02) ^ 2) / h ^ 2 := by
      have e : (a * x1 i + b1 - (a * x01 + b1)) ^ 2 + (a * x2 i + b2 - (a * x02 + b2)) ^ 2
          = a ^ 2 * ((x1 i - x01) ^ 2 + (x2 i - x02) ^ 2) := by ring
      rw [e, mul_pow, mul_div_mul_left _ _ (pow_ne_zero 2 ha.ne')]
    simp only [this]
  · intro i _ c _
    unfold design2
    have e1 : (a * x1 i + b1 - (a * x01 + b1)) / (a * h) = (x1 i - x01) / h := by
      have : a * x1 i + b1 - (a * x01 + b1) = a * (x1 i - x01) := by ring
      rw [this, mul_div_mul_left _ _ ha.ne']
    have e2 : (a * x2 i + b2 - (a * x02 + b2)) / (a * h) = (x2 i - x02) / h := by
      have : a * x2 i + b2 - (a * x02 + b2) = a * (x2 i - x02) := by ring
      rw [this, mul_div_mul_left _ _ ha.ne']
    simp only [e1, e2]
  · intro i _; rfl



/-- Reparametrisation: if the columns are recombined by `T` (design `D·T`, query row `d₀·T`)
and `β = T β'`, then `β'` solves the new normal equations and gives the same fitted value. -/
theorem reparam (n p : ℕ) (w : ℕ → ℚ) (D T : ℕ → ℕ → ℚ) (y d0 β β' : ℕ → ℚ)
    (hs : IsSol p (normalMat n w D) (normalRhs n w D y) β)
    (hβ : ∀ a, a < p → β a = ∑ b ∈ range p, T a b * β' b) :
    IsSol p (normalMat n w (fun i a => ∑ c ∈ range p, D i c * T c a))
        (normalRhs n w (fun i a => ∑ c ∈ range p, D i c * T c a) y) β' ∧
      est p (fun a => ∑ c ∈ range p, d0 c * T c a) β' = est p d0 β := by
  have fit : ∀ (g : ℕ → ℚ), ∑ b ∈ range p, (∑ c ∈ range p, g c * T c b) * β' b = ∑ c ∈ range p, g c * β c := by
    intro g
    simp_rw [Finset.sum_mul]
    rw [Finset.sum_comm]
    apply Finset.sum_congr rfl
    intro c hc
    rw [hβ c (mem_range.mp hc), Finset.mul_sum]
    apply Finset.sum_congr rfl
    intro b _; ring
  constructor
  · rw [isSol_iff] at hs ⊢
    intro a _
    simp only [fit]
    have e : ∀ (z : ℕ → ℚ), ∑ i ∈ range n, (∑ c ∈ range p, D i c * T c a) * w i * z i =
        ∑ c ∈ range p, T c a * ∑ i ∈ range n, D i c * w i * z i := by
      intro z
      simp_rw [Finset.sum_mul, Finset.mul_sum]
      rw [Finset.sum_comm]
      apply Finset.sum_congr rfl
      intro c _
      apply Finset.sum_congr rfl
      intro i _; ring
    rw [e (fun i => ∑ c ∈ range p, D i c * β c), e y]
    apply Finset.sum_congr rfl
    intro c hc
    rw [hs c (mem_range.mp hc)]
  · unfold est
    exact fit d0

open Polynomial in
/-- **Centred = uncentred.**  Whenever the normal equations of the *raw* monomial design
(`x_i^k`, query row `x₀^k`) have a solution `βr`, the estimate computed in centred,
bandwidth-scaled coordinates is `Σ_k x₀^k βr_k`, for every weight vector, every degree. -/
theorem centred_eq_raw (h : ℚ) (hh : h ≠ 0) (d n : ℕ) (w x y : ℕ → ℚ) (x0 v : ℚ) (βr : ℕ → ℚ)
    (hraw : IsSol (d + 1) (normalMat n w (rawDesign1 x)) (normalRhs n w (rawDesign1 x) y) βr)
    (hv : lpEstimate n (d + 1) w (design1 h x x0) y = some v) :
    v = est (d + 1) (rawQuery1 x0) βr := by
  rw [isSol_iff] at hraw
  set P : ℚ[X] := ∑ c ∈ range (d + 1), C (βr c) * X ^ c with hP
  have hPeval : ∀ t, P.eval t = ∑ c ∈ range (d + 1), t ^ c * βr c := by
    intro t
    rw [hP, eval_finsetSum]
    apply Finset.sum_congr rfl
    intro c _
    simp only [eval_mul, eval_C, eval_pow, eval_X]
    ring
  have hPdeg : P.natDegree ≤ d := by
    rw [hP]
    apply natDegree_sum_le_of_forall_le (range (d + 1))
    intro c hc
    exact (natDegree_C_mul_X_pow_le _ _).trans (by have := mem_range.mp hc; omega)
  set Q : ℚ[X] := P.comp (C h * X + C x0) with hQ
  have hQdeg : Q.natDegree < d + 1 := by
    have h1 : Q.natDegree ≤ P.natDegree * (C h * X + C x0 : ℚ[X]).natDegree := natDegree_comp_le
    have h2 : (C h * X + C x0 : ℚ[X]).natDegree ≤ 1 := natDegree_linear_le
    calc Q.natDegree ≤ P.natDegree * (C h * X + C x0 : ℚ[X]).natDegree := h1
      _ ≤ P.natDegree * 1 := Nat.mul_le_mul_left _ h2
      _ < d + 1 := by omega
  have hQeval : ∀ i, Q.eval ((x i - x0) / h) = P.eval (x i) := by
    intro i
    rw [hQ, eval_comp]
    simp only [eval_add, eval_mul, eval_C, eval_X]
    congr 1
    field_simp
    ring
  -- fitted values of the centred parametrisation
  have hfit : ∀ i, ∑ b ∈ range (d + 1), design1 h x x0 i b * Q.coeff b =
      ∑ b ∈ range (d + 1), rawDesign1 x i b * βr b := by
    intro i
    have := eval_eq_sum_range' hQdeg ((x i - x0) / h)
    rw [hQeval i, hPeval] at this
    unfold design1 rawDesign1
    rw [this]
    apply Finset.sum_congr rfl
    intro b _; ring
  have hsol : IsSol (d + 1) (normalMat n w (design1 h x x0)) (normalRhs n w (design1 h x x0) y)
      (fun b => Q.coeff b) := by
    rw [isSol_iff]
    intro j hj
    simp only [hfit]
    -- the centred column is a combination of the raw columns
    set R : ℚ[X] := (C (1 / h) * X + C (-x0 / h)) ^ j with hR
    have hRdeg : R.natDegree < d + 1 := by
      have h2 : (C (1 / h) * X + C (-x0 / h) : ℚ[X]).natDegree ≤ 1 := natDegree_linear_le
      calc R.natDegree ≤ j * (C (1 / h) * X + C (-x0 / h) : ℚ[X]).natDegree := natDegree_pow_le
        _ ≤ j * 1 := Nat.mul_le_mul_left _ h2
        _ < d + 1 := by omega
    have hcol : ∀ i, design1 h x x0 i j = ∑ c ∈ range (d + 1), R.coeff c * rawDesign1 x i c := by
      intro i
      have := eval_eq_sum_range' hRdeg (x i)
      unfold design1 rawDesign1
      rw [← this, hR]
      simp only [eval_pow, eval_add, eval_mul, eval_C, eval_X]
      congr 1
      field_simp
      ring
    have e : ∀ (z : ℕ → ℚ), ∑ i ∈ range n, design1 h x x0 i j * w i * z i =
        ∑ c ∈ range (d + 1), R.coeff c * ∑ i ∈ range n, rawDesign1 x i c * w i * z i := by
      intro z
      simp_rw [hcol, Finset.sum_mul, Finset.mul_sum]
      rw [Finset.sum_comm]
      apply Finset.sum_congr rfl
      intro c _
      apply Finset.sum_congr rfl
      intro i _; ring
    rw [e, e]
    apply Finset.sum_congr rfl
    intro c hc
    rw [hraw c (mem_range.mp hc)]
  rw [lpEstimate_eq_of_sol (Nat.succ_pos d) hv hsol]
  show Q.coeff 0 = _
  rw [coeff_zero_eq_eval_zero, hQ, eval_comp]
  simp only [eval_add, eval_mul, eval_C, eval_X, mul_zero, zero_add]
  rw [hPeval]
  unfold est rawQuery1
  rfl



/-- Clause *reproduces polynomials*, two dimensions, polynomials given in the raw coordinates,
total degree `≤ d ≤ 3` (the property's range): the estimate at `(x01, x02)` is the polynomial
there.  Partial only in the degree bound (the expansion about the query point is checked by
`ring` degree by degree); every design, bandwidth and size. -/
theorem reproduces_polynomials_2d_partial (bisq : Bool) (h : ℚ) (hh : h ≠ 0) (d : ℕ) (hd : d ≤ 3) (n : ℕ)
    (x1 x2 y : ℕ → ℚ) (x01 x02 v : ℚ) (c : ℕ → ℕ → ℚ)
    (hy : ∀ i, i < n → y i = ∑ k1 ∈ range (d + 1), ∑ k2 ∈ range (d + 1 - k1), c k1 k2 * x1 i ^ k1 * x2 i ^ k2)
    (hv : lpEstimate2 bisq h d n x1 x2 y x01 x02 = some v) :
    v = ∑ k1 ∈ range (d + 1), ∑ k2 ∈ range (d + 1 - k1), c k1 k2 * x01 ^ k1 * x02 ^ k2 := by
  unfold lpEstimate2 lpEstimate2W at hv
  have hp : 0 < (monos2 d).length := by
    interval_cases d <;> decide
  have key := reproduces_column_space n (monos2 d).length hp _ _ y (taylor2 d c h x01 x02) v ?_ hv
  · rw [key]
    interval_cases d <;>
      simp [taylor2, monos2, List.range_succ, Finset.sum_range_succ]
  · intro i hi
    rw [hy i hi]
    have e1 : x1 i = h * ((x1 i - x01) / h) + x01 := by field_simp; ring
    have e2 : x2 i = h * ((x2 i - x02) / h) + x02 := by field_simp; ring
    have hD : ∀ a, design2 h d x1 x2 x01 x02 i a =
        ((x1 i - x01) / h) ^ ((monos2 d).getD a (0, 0)).1 * ((x2 i - x02) / h) ^ ((monos2 d).getD a (0, 0)).2 :=
      fun a => rfl
    simp only [hD]
    generalize (x1 i - x01) / h = z1 at e1 ⊢
    generalize (x2 i - x02) / h = z2 at e2 ⊢
    rw [e1, e2]
    interval_cases d <;>
      simp [taylor2, monos2, List.range_succ, Finset.sum_range_succ, Nat.choose] <;> ring

/-- A common factor of the weights does not change the estimate —
why the normalising constants of the kernels are irrelevant for the fit, and why the driver
may normalise the Gaussian weights of a window by the largest one. -/
theorem weights_scale_invariant (n p : ℕ) (hp : 0 < p) (w : ℕ → ℚ) (D : ℕ → ℕ → ℚ) (y : ℕ → ℚ) (c v v' : ℚ)
    (hv : lpEstimate n p w D y = some v)
    (hv' : lpEstimate n p (fun i => c * w i) D y = some v') : v' = v := by
  obtain ⟨β, hs, hβ, _⟩ := lpEstimate_spec hp hv
  have hs' : IsSol p (normalMat n (fun i => c * w i) D) (normalRhs n (fun i => c * w i) D y) β := by
    rw [isSol_iff] at hs ⊢
    intro a ha
    have e : ∀ z : ℕ → ℚ, ∑ i ∈ range n, D i a * (c * w i) * z i = c * ∑ i ∈ range n, D i a * w i * z i := by
      intro z
      rw [Finset.mul_sum]
      apply Finset.sum_congr rfl
      intro i _; ring
    rw [e, e, hs a ha]
  rw [lpEstimate_eq_of_sol hp hv' hs', hβ]

/-! ### Tie of the kernels to the current source (translator, regenerated on every run) -/

set_option linter.unusedSimpArgs false in
set_option linter.unusedTactic false in
set_option linter.unreachableTactic false in
/-- **Tie to the source.**  The kernels generated on every run from the *current*
`local_polynomial.py` (support comparison, bound, polynomial expression, constants) are the model's
kernels.  The proof tolerates either support convention where the value at the boundary is the same;
any edit of a constant, an exponent, a sign or a bound that changes a value breaks it. -/
theorem kernel_gen_eq_model :
    FDA.Generated.epanechnikovGen = epanechnikov ∧ FDA.Generated.tricubeGen = tricube ∧ FDA.Generated.bisquareGen = bisquare := by
  refine ⟨?_, ?_, ?_⟩ <;> funext u <;>
    rcases lt_trichotomy |u| 1 with h | h | h
  · simp only [FDA.Generated.epanechnikovGen, epanechnikov, h, h.le, if_true] <;> ring
  · have hu : u ^ 2 = 1 := by rw [← sq_abs, h]; norm_num
    simp [FDA.Generated.epanechnikovGen, epanechnikov, h, hu]
  · simp [FDA.Generated.epanechnikovGen, epanechnikov, not_le.mpr h, not_lt.mpr h.le]
  · simp only [FDA.Generated.tricubeGen, tricube, h, h.le, if_true] <;> ring
  · simp [FDA.Generated.tricubeGen, tricube, h]
  · simp [FDA.Generated.tricubeGen, tricube, not_le.mpr h, not_lt.mpr h.le]
  · simp only [FDA.Generated.bisquareGen, bisquare, h, h.le, if_true] <;> ring
  · have hu : u ^ 2 = 1 := by rw [← sq_abs, h]; norm_num
    simp [FDA.Generated.bisquareGen, bisquare, h, hu]
  · simp [FDA.Generated.bisquareGen, bisquare, not_le.mpr h, not_lt.mpr h.le]

/-- The Gaussian of the source (its two constants) is the Gaussian the theorems are about. -/
theorem gaussian_gen_eq_model (u : ℝ) :
    Real.exp (-(u ^ 2) / (FDA.Generated.gaussExpDiv : ℝ)) / Real.sqrt ((FDA.Generated.gaussNormCoef : ℝ) * Real.pi) = gaussian u := by
  unfold gaussian FDA.Generated.gaussExpDiv FDA.Generated.gaussNormCoef
  norm_num

/-- Hence the kernels *as the source has them now* are non-negative, even, vanish beyond one bandwidth,
are positive inside and peak at the query point. -/
theorem source_kernels_have_the_properties (u : ℚ) :
    (0 ≤ FDA.Generated.epanechnikovGen u ∧ 0 ≤ FDA.Generated.tricubeGen u ∧ 0 ≤ FDA.Generated.bisquareGen u) ∧
    (FDA.Generated.epanechnikovGen (-u) = FDA.Generated.epanechnikovGen u ∧ FDA.Generated.tricubeGen (-u) = FDA.Generated.tricubeGen u ∧ FDA.Generated.bisquareGen (-u) = FDA.Generated.bisquareGen u) ∧
    (1 ≤ |u| → FDA.Generated.epanechnikovGen u = 0 ∧ FDA.Generated.tricubeGen u = 0 ∧ FDA.Generated.bisquareGen u = 0) ∧
    (|u| < 1 → 0 < FDA.Generated.epanechnikovGen u ∧ 0 < FDA.Generated.tricubeGen u ∧ 0 < FDA.Generated.bisquareGen u) ∧
    (FDA.Generated.epanechnikovGen u ≤ FDA.Generated.epanechnikovGen 0 ∧ FDA.Generated.tricubeGen u ≤ FDA.Generated.tricubeGen 0 ∧ FDA.Generated.bisquareGen u ≤ FDA.Generated.bisquareGen 0) := by
  obtain ⟨e1, e2, e3⟩ := kernel_gen_eq_model
  rw [e1, e2, e3]
  exact ⟨⟨kernel_nonneg .epanechnikov u, kernel_nonneg .tricube u, kernel_nonneg .bisquare u⟩,
    ⟨kernel_even .epanechnikov u, kernel_even .tricube u, kernel_even .bisquare u⟩,
    fun h => ⟨kernel_support .epanechnikov u h, kernel_support .tricube u h, kernel_support .bisquare u h⟩,
    fun h => ⟨kernel_pos_inside .epanechnikov u h, kernel_pos_inside .tricube u h, kernel_pos_inside .bisquare u h⟩,
    ⟨kernel_le_peak .epanechnikov u, kernel_le_peak .tricube u, kernel_le_peak .bisquare u⟩⟩

/-! ### Range preservation, 2-D invariance for every kernel, the n-D kernel branch on 1-D inputs -/

/-- A solvable degree-0 problem has positive total weight. -/
theorem degree0_weight_pos (n : ℕ) (w : ℕ → ℚ) (D : ℕ → ℕ → ℚ) (y : ℕ → ℚ) (v : ℚ)
    (hD : ∀ i, i < n → D i 0 = 1) (hw : ∀ i, i < n → 0 ≤ w i) (h : lpEstimate n 1 w D y = some v) :
    0 < ∑ i ∈ range n, w i := by
  obtain ⟨β, hs, _, hu⟩ := lpEstimate_spec Nat.one_pos h
  have hnn : 0 ≤ ∑ i ∈ range n, w i := Finset.sum_nonneg fun i hi => hw i (mem_range.mp hi)
  rcases hnn.lt_or_eq with hpos | hzero
  · exact hpos
  · exfalso
    have hN : normalMat n w D 0 0 = 0 := by
      unfold normalMat
      rw [hzero]
      apply Finset.sum_congr rfl
      intro i hi
      rw [hD i (mem_range.mp hi)]; ring
    have hs' : IsSol 1 (normalMat n w D) (normalRhs n w D y) (fun a => β a + 1) := by
      intro a ha
      have ha0 : a = 0 := by omega
      subst ha0
      have := hs 0 Nat.one_pos
      simp only [Finset.sum_range_one] at this ⊢
      rw [← this, hN]; ring
    have := hu _ hs' 0 Nat.one_pos
    simp at this

/-- Clause *range preservation* for degree 0 (Nadaraya–Watson): the estimate is a convex combination of
the responses carrying positive weight, so it lies between any bounds that hold for them — in particular
between the minimum and the maximum of the responses in the window. -/
theorem degree0_in_range (n : ℕ) (w : ℕ → ℚ) (D : ℕ → ℕ → ℚ) (y : ℕ → ℚ) (v lo hi : ℚ)
    (hD : ∀ i, i < n → D i 0 = 1) (hw : ∀ i, i < n → 0 ≤ w i)
    (hy : ∀ i, i < n → 0 < w i → lo ≤ y i ∧ y i ≤ hi)
    (h : lpEstimate n 1 w D y = some v) : lo ≤ v ∧ v ≤ hi := by
  have hpos := degree0_weight_pos n w D y v hD hw h
  have hmean := degree0_weighted_mean n w D y v hD h
  have hlo : lo * ∑ i ∈ range n, w i ≤ ∑ i ∈ range n, w i * y i := by
    rw [Finset.mul_sum]
    apply Finset.sum_le_sum
    intro i hi
    have hi := mem_range.mp hi
    rcases (hw i hi).lt_or_eq with hp | hz
    · nlinarith [(hy i hi hp).1]
    · rw [← hz]; simp
  have hhi : ∑ i ∈ range n, w i * y i ≤ hi * ∑ i ∈ range n, w i := by
    rw [Finset.mul_sum]
    apply Finset.sum_le_sum
    intro i hi
    have hi := mem_range.mp hi
    rcases (hw i hi).lt_or_eq with hp | hz
    · nlinarith [(hy i hi hp).2]
    · rw [← hz]; simp
  rw [← hmean] at hlo hhi
  constructor
  · by_contra hc
    have := not_le.mp hc
    nlinarith
  · by_contra hc
    have := not_le.mp hc
    nlinarith

/-- … for the 1-D estimator with a compact kernel: between the extreme responses *inside the window*. -/
theorem degree0_in_window_range (k : CKernel) (h : ℚ) (hh : 0 < h) (n : ℕ) (x y : ℕ → ℚ) (x0 v lo hi : ℚ)
    (hy : ∀ i, i < n → |x i - x0| < h → lo ≤ y i ∧ y i ≤ hi)
    (hv : lpEstimate1 k h 0 n x y x0 = some v) : lo ≤ v ∧ v ≤ hi := by
  unfold lpEstimate1 at hv
  apply degree0_in_range n _ _ y v lo hi _ _ _ hv
  · intro i _; unfold design1; simp
  · intro i _; exact kernel_nonneg k _
  · intro i hi hpos
    apply hy i hi
    by_contra hc
    have hc := not_lt.mp hc
    have : weight1 k h (x i) x0 = 0 := by
      unfold weight1
      apply kernel_support
      rw [abs_div, abs_abs, abs_of_pos hh, le_div_iff₀ hh]
      linarith
    rw [this] at hpos
    exact lt_irrefl _ hpos

/-- 2-D: the design in centred, bandwidth-scaled coordinates is invariant under a common positive rescaling
and a shift per coordinate — every degree. -/
theorem design2_shift_scale (h : ℚ) (d : ℕ) (x1 x2 : ℕ → ℚ) (x01 x02 a b1 b2 : ℚ) (ha : 0 < a) (i c : ℕ) :
    design2 (a * h) d (fun i => a * x1 i + b1) (fun i => a * x2 i + b2) (a * x01 + b1) (a * x02 + b2) i c =
      design2 h d x1 x2 x01 x02 i c := by
  unfold design2
  have e1 : (a * x1 i + b1 - (a * x01 + b1)) / (a * h) = (x1 i - x01) / h := by
    have : a * x1 i + b1 - (a * x01 + b1) = a * (x1 i - x01) := by ring
    rw [this, mul_div_mul_left _ _ ha.ne']
  have e2 : (a * x2 i + b2 - (a * x02 + b2)) / (a * h) = (x2 i - x02) / h := by
    have : a * x2 i + b2 - (a * x02 + b2) = a * (x2 i - x02) := by ring
    rw [this, mul_div_mul_left _ _ ha.ne']
  simp only [e1, e2]

/-- Clause *shift/scale invariance* in two dimensions for EVERY kernel: whenever the weights of the two
problems agree point by point (which they do as soon as the distance scales like the coordinates), the
estimates agree — this is the statement for the Gaussian and for the tricube kernel, whose weights are not
rational functions of the coordinates. -/
theorem shift_scale_invariant_2d_weights (w w' : ℕ → ℚ) (h : ℚ) (d n : ℕ) (x1 x2 y : ℕ → ℚ)
    (x01 x02 a b1 b2 : ℚ) (ha : 0 < a) (hw : ∀ i, i < n → w' i = w i) :
    lpEstimate2W w' (a * h) d n (fun i => a * x1 i + b1) (fun i => a * x2 i + b2) y (a * x01 + b1) (a * x02 + b2)
      = lpEstimate2W w h d n x1 x2 y x01 x02 := by
  unfold lpEstimate2W
  apply lpEstimate_congr_pt
  · exact hw
  · intro i _ c _; exact design2_shift_scale h d x1 x2 x01 x02 a b1 b2 ha i c
  · intro i _; rfl

/-- … and the weights `K(root(‖x − x₀‖²)/h)` of every compact kernel (tricube included) agree when `root` is
homogeneous on the distances that occur (`root(a² s) = a · root(s)`, as the square root is). -/
theorem shift_scale_invariant_2d (root : ℚ → ℚ) (k : CKernel) (h : ℚ) (d n : ℕ) (x1 x2 y : ℕ → ℚ)
    (x01 x02 a b1 b2 : ℚ) (ha : 0 < a)
    (hroot : ∀ i, i < n → root (a ^ 2 * sqDist2 (x1 i) (x2 i) x01 x02) = a * root (sqDist2 (x1 i) (x2 i) x01 x02)) :
    lpEstimate2W (fun i => weight2 root k (a * h) (a * x1 i + b1) (a * x2 i + b2) (a * x01 + b1) (a * x02 + b2))
        (a * h) d n (fun i => a * x1 i + b1) (fun i => a * x2 i + b2) y (a * x01 + b1) (a * x02 + b2)
      = lpEstimate2W (fun i => weight2 root k h (x1 i) (x2 i) x01 x02) h d n x1 x2 y x01 x02 := by
  apply shift_scale_invariant_2d_weights _ _ h d n x1 x2 y x01 x02 a b1 b2 ha
  intro i hi
  unfold weight2
  have e : sqDist2 (a * x1 i + b1) (a * x2 i + b2) (a * x01 + b1) (a * x02 + b2)
      = a ^ 2 * sqDist2 (x1 i) (x2 i) x01 x02 := by unfold sqDist2; ring
  rw [e, hroot i hi, mul_div_mul_left _ _ ha.ne']

/-- `_compute_kernel`: the n-dimensional branch (Euclidean norm) restricted to points on a line parallel to
the first axis is the one-dimensional branch (absolute value). -/
theorem weight2_on_a_line (root : ℚ → ℚ) (k : CKernel) (h x1 x01 c : ℚ)
    (hroot : root ((x1 - x01) ^ 2) = |x1 - x01|) :
    weight2 root k h x1 c x01 c = weight1 k h x1 x01 := by
  unfold weight2 weight1 sqDist2
  have : (x1 - x01) ^ 2 + (c - c) ^ 2 = (x1 - x01) ^ 2 := by ring
  rw [this, hroot]

/-- … and for the root-free kernels (Epanechnikov, bisquare) without any hypothesis. -/
theorem weight2Sq_on_a_line (bisq : Bool) (h : ℚ) (hh : 0 < h) (x1 x01 c : ℚ) :
    weight2Sq bisq h x1 c x01 c = weight1 (if bisq then .bisquare else .epanechnikov) h x1 x01 := by
  unfold weight1
  rw [weight2_eq_sq bisq h hh x1 c x01 c |x1 - x01| (abs_nonneg _)]
  unfold sqDist2
  rw [sq_abs]; ring

/-! ### The Gaussian of the current source -/

/-- The Gaussian *of the current source* is positive and even. -/
theorem gaussian_source_pos_even (u : ℝ) : 0 < gaussianSrc u ∧ gaussianSrc (-u) = gaussianSrc u := by
  have e : ∀ t, gaussianSrc t = gaussian t := fun t => gaussian_gen_eq_model t
  rw [e, e]
  exact ⟨gaussian_pos u, gaussian_even u⟩

/-- The Gaussian kernel is a probability density: it integrates to one over the real line. -/
theorem gaussian_integral_one : ∫ u : ℝ, gaussian u = 1 := by
  unfold gaussian
  have h := integral_gaussian (1 / 2 : ℝ)
  have e : (fun u : ℝ => Real.exp (-(u ^ 2) / 2) / Real.sqrt (2 * Real.pi))
      = fun u : ℝ => Real.exp (-(1 / 2 : ℝ) * u ^ 2) / Real.sqrt (2 * Real.pi) := by
    funext u; congr 2; ring
  rw [e, MeasureTheory.integral_div, h]
  have : Real.pi / (1 / 2) = 2 * Real.pi := by ring
  rw [this, div_self]
  exact (Real.sqrt_pos.mpr (by positivity)).ne'

/-- … also for the Gaussian of the current source (its constants `gaussExpDiv`, `gaussNormCoef` are the right ones). -/
theorem gaussian_source_integral_one : ∫ u : ℝ, gaussianSrc u = 1 := by
  have e : gaussianSrc = gaussian := funext fun t => gaussian_gen_eq_model t
  rw [e]; exact gaussian_integral_one

/-! ### Polynomial reproduction in two dimensions, every degree -/

/-- Binomial expansion of a raw monomial about the query point: `x₁^{k₁} x₂^{k₂}` (with `x = h z + x₀`) is a
combination of the centred monomials of total degree `≤ k₁ + k₂`, all of which are columns of the design. -/
theorem monomial_expansion (d : ℕ) (h x01 x02 z1 z2 : ℚ) (k : ℕ × ℕ) (hk : k.1 + k.2 ≤ d) :
    (h * z1 + x01) ^ k.1 * (h * z2 + x02) ^ k.2 =
      ∑ e ∈ (monos2 d).toFinset, taylorCoef h x01 x02 e k * (z1 ^ e.1 * z2 ^ e.2) := by
  rw [add_pow, add_pow, Finset.sum_mul_sum, ← Finset.sum_product']
  have hsub : range (k.1 + 1) ×ˢ range (k.2 + 1) ⊆ (monos2 d).toFinset := by
    intro e he
    rw [Finset.mem_product, mem_range, mem_range] at he
    rw [List.mem_toFinset, monos2_complete]
    omega
  rw [← Finset.sum_subset hsub]
  · apply Finset.sum_congr rfl
    intro e _
    unfold taylorCoef
    rw [mul_pow, mul_pow, pow_add]
    ring
  · intro e _ hne
    rw [Finset.mem_product, mem_range, mem_range] at hne
    unfold taylorCoef
    have : Nat.choose k.1 e.1 = 0 ∨ Nat.choose k.2 e.2 = 0 := by
      by_cases h1 : e.1 < k.1 + 1
      · right; apply Nat.choose_eq_zero_of_lt; by_contra hc; exact hne ⟨h1, by omega⟩
      · left; apply Nat.choose_eq_zero_of_lt; omega
    rcases this with h0 | h0 <;> simp [h0]

/-- Clause *reproduces polynomials*, two dimensions, EVERY degree, every weight vector (hence every kernel):
if the responses are a polynomial of total degree `≤ d` of the raw coordinates,
`y_i = Σ_{k₁+k₂≤d} c_{k₁k₂} x₁ᵢ^{k₁} x₂ᵢ^{k₂}`, a solvable local problem returns that polynomial at the query. -/
theorem reproduces_polynomials_2d (w : ℕ → ℚ) (h : ℚ) (hh : h ≠ 0) (d n : ℕ) (x1 x2 y : ℕ → ℚ) (x01 x02 v : ℚ)
    (c : ℕ × ℕ → ℚ)
    (hy : ∀ i, i < n → y i = ∑ k ∈ (monos2 d).toFinset, c k * (x1 i ^ k.1 * x2 i ^ k.2))
    (hv : lpEstimate2W w h d n x1 x2 y x01 x02 = some v) :
    v = ∑ k ∈ (monos2 d).toFinset, c k * (x01 ^ k.1 * x02 ^ k.2) := by
  unfold lpEstimate2W at hv
  have hnd := monos2_nodup d
  have h00 : (monos2 d).getD 0 (0, 0) = (0, 0) := by
    unfold monos2; simp [List.range_succ_eq_map, List.getD]
  have hp : 0 < (monos2 d).length := by
    have : ((0, 0) : ℕ × ℕ) ∈ monos2 d := by rw [monos2_complete]; simp
    exact List.length_pos_of_mem this
  set S := (monos2 d).toFinset with hS
  -- coefficients on the centred monomials
  set c' : ℕ × ℕ → ℚ := fun e => ∑ k ∈ S, c k * taylorCoef h x01 x02 e k with hc'
  have key := reproduces_column_space n (monos2 d).length hp w (design2 h d x1 x2 x01 x02) y
    (fun a => c' ((monos2 d).getD a (0, 0))) v ?_ hv
  · rw [key]
    simp only [h00, hc']
    apply Finset.sum_congr rfl
    intro k _
    unfold taylorCoef
    simp
  · intro i hi
    rw [hy i hi]
    have e1 : x1 i = h * ((x1 i - x01) / h) + x01 := by field_simp; ring
    have e2 : x2 i = h * ((x2 i - x02) / h) + x02 := by field_simp; ring
    have hlhs : ∑ a ∈ range (monos2 d).length, design2 h d x1 x2 x01 x02 i a * c' ((monos2 d).getD a (0, 0)) =
        ∑ e ∈ S, ((x1 i - x01) / h) ^ e.1 * ((x2 i - x02) / h) ^ e.2 * c' e :=
      sum_columns_eq_sum_monos d (fun e : ℕ × ℕ => ((x1 i - x01) / h) ^ e.1 * ((x2 i - x02) / h) ^ e.2 * c' e) hnd
    rw [hlhs]
    have hexp : ∀ k ∈ S, c k * (x1 i ^ k.1 * x2 i ^ k.2) =
        ∑ e ∈ S, c k * (taylorCoef h x01 x02 e k * (((x1 i - x01) / h) ^ e.1 * ((x2 i - x02) / h) ^ e.2)) := by
      intro k hk
      have hk' : k.1 + k.2 ≤ d := by
        rw [hS, List.mem_toFinset, monos2_complete] at hk; exact hk
      conv_lhs => rw [e1, e2]
      rw [monomial_expansion d h x01 x02 _ _ k hk', Finset.mul_sum]
    rw [Finset.sum_congr rfl hexp, Finset.sum_comm]
    apply Finset.sum_congr rfl
    intro e _
    simp only [hc']
    rw [Finset.mul_sum]
    apply Finset.sum_congr rfl
    intro k _
    ring

/-! ### The default bandwidth rule -/

/-- The default bandwidth is the positive number `h` with `h⁵ · n = 1`. -/
theorem default_bandwidth_spec (c : ℝ) (hc : 0 < c) : 0 < defaultBandwidth c ∧ defaultBandwidth c ^ 5 * c = 1 := by
  unfold defaultBandwidth
  refine ⟨Real.rpow_pos_of_pos hc _, ?_⟩
  rw [← Real.rpow_natCast, ← Real.rpow_mul hc.le]
  have : (-(1 / 5 : ℝ)) * ((5 : ℕ) : ℝ) = -1 := by norm_num
  rw [this, Real.rpow_neg_one, inv_mul_cancel₀ hc.ne']

/-- More sampling points, smaller default bandwidth. -/
theorem default_bandwidth_antitone (c c' : ℝ) (hc : 0 < c) (h : c ≤ c') : defaultBandwidth c' ≤ defaultBandwidth c := by
  unfold defaultBandwidth
  exact Real.rpow_le_rpow_of_nonpos hc h (by norm_num)

/-- The count behind the default bandwidth is positive for non-empty data (so the rule is defined). -/
theorem bandwidthCount_pos (e : LPEntry) (sizes : List ℕ) (hne : sizes ≠ []) (hpos : ∀ s ∈ sizes, 0 < s) :
    0 < bandwidthCount e sizes := by
  have hprod : 0 < sizes.prod := List.prod_pos hpos
  have hlen : 0 < sizes.length := List.length_pos_of_ne_nil hne
  have hsum : 0 < sizes.sum := by
    cases sizes with
    | nil => exact absurd rfl hne
    | cons a l =>
      have := hpos a (List.mem_cons_self)
      simp only [List.sum_cons]; omega
  cases e <;> simp only [bandwidthCount]
  · exact_mod_cast hprod
  · exact div_pos (by exact_mod_cast hsum) (by exact_mod_cast hlen)
  · exact mul_pos (by exact_mod_cast hprod) (by exact_mod_cast hprod)

/-- Irregular data whose observations all have `m` sampling points use `n = m`, like dense data on `m` points. -/
theorem bandwidthCount_balanced (N m : ℕ) (hN : 0 < N) :
    bandwidthCount .irregularSmooth (List.replicate N m) = bandwidthCount .denseSmooth [m] := by
  simp only [bandwidthCount, List.sum_replicate, List.length_replicate, List.prod_cons, List.prod_nil, smul_eq_mul, mul_one]
  have : (N : ℚ) ≠ 0 := by exact_mod_cast hN.ne'
  push_cast
  field_simp

/-- The covariance is smoothed over the squared sampling grid: its count is the square of the curves' count. -/
theorem bandwidthCount_covariance (sizes : List ℕ) :
    bandwidthCount .covariance sizes = bandwidthCount .denseSmooth sizes ^ 2 := by
  simp only [bandwidthCount]; ring

example : bandwidthCount .irregularSmooth [5, 7, 9] = 7 := by decide +kernel

/-! ### Open finding C06-multivariate-smooth-bandwidth -/

/-- Full statement for the wrappers: the value an entry point reports for data `(x, y)`, query `x₀` and the
REQUESTED bandwidth `h` is `lpEstimate1 k h d n x y x₀`, whatever other bandwidth the entry point might prefer. -/
def full_statement (reported : CKernel → ℚ → ℕ → ℕ → (ℕ → ℚ) → (ℕ → ℚ) → ℚ → Option ℚ) : Prop :=
  ∀ k h d n x y x0, reported k h d n x y x0 = lpEstimate1 k h d n x y x0

/-- `MultivariateFunctionalData.smooth` as it is: the requested bandwidth is dropped and a default `h₀` used. -/
def reportedIgnoringBandwidth (h0 : ℚ) : CKernel → ℚ → ℕ → ℕ → (ℕ → ℚ) → (ℕ → ℚ) → ℚ → Option ℚ :=
  fun k _ d n x y x0 => lpEstimate1 k h0 d n x y x0

/-- The code violates the full statement: on three points, requested bandwidth 2, default 1/2, the
requested fit is 23/10 while the reported one has an empty-window (singular) local problem. -/
theorem counterexample : ¬ full_statement (reportedIgnoringBandwidth (1 / 2)) := by
  intro h
  have := h .epanechnikov 2 1 3 (ofList [0, 1, 2]) (ofList [1, 2, 4]) 1
  revert this
  unfold reportedIgnoringBandwidth
  decide +kernel

/-- … and it holds wherever the requested bandwidth is the one used (the domain of the partial result):
all the theorems above then apply to the wrapper as to `LocalPolynomial.predict`. -/
theorem wrapper_partial (h0 : ℚ) (k : CKernel) (d n : ℕ) (x y : ℕ → ℚ) (x0 : ℚ) :
    reportedIgnoringBandwidth h0 k h0 d n x y x0 = lpEstimate1 k h0 d n x y x0 := rfl

/-! ### Tie of the code path to the current source (translator `harness/smooth_translate.py`, regenerated on every run) -/

section SourceTie
open FDA.NpLP FDA.Generated.Smooth
set_option linter.unusedSimpArgs false
set_option linter.unusedTactic false
set_option linter.unreachableTactic false
/-- Closes what unfolding leaves of a comparison between a translated formula and the model: written so that harmless
variants of the source (`kernel_values * dmat.T`, `A @ B` for `np.dot(A, B)`, `np.abs(x0 - x)`, `(x - pts) * (1 / h)`)
re-prove, while a changed power of the weights, a dropped weight, `x0 - x` in the design or another norm do not. -/
macro "lp_close" : tactic =>
  `(tactic| first | rfl | ring1 | (apply Finset.sum_congr rfl; intro _ _; ring1) | (congr 1; ring1) | (congr 2; ring1)
                  | (rw [abs_sub_comm]) | (rw [abs_sub_comm]; congr 1; ring1) | (field_simp; ring1))

/-- **`_local_regression` as the source has it is the model's weighted normal equations**: the matrix and the
right-hand side handed to `lstsq`, the returned value `dmat_x0 · β`, the kept component of `lstsq`'s result, and the
`rcond` literal — which is far below the reciprocal of the largest condition number the check compares at. -/
theorem local_regression_src_eq_model :
    (∀ n w D a b, lrMatSrc n w D a b = normalMat n w D a b) ∧
    (∀ n w D y a, lrRhsSrc n w D y a = normalRhs n w D y a) ∧
    (∀ p d0 β, lrValueSrc p d0 β = est p d0 β) ∧
    lrSolutionIndexSrc = 0 ∧ lrRcondSrc = lstsqRcond ∧ lstsqRcond * condCompared ≤ 1 / 10 ^ 5 := by
  refine ⟨?_, ?_, ?_, ?_, ?_, ?_⟩
  · intro n w D a b
    simp only [lrMatSrc, normalMat, dotMM, dotMV, dotVV, bcastRowMul, transpose, vmul, vscale, vpow] <;> lp_close
  · intro n w D y a
    simp only [lrRhsSrc, normalRhs, dotMM, dotMV, dotVV, bcastRowMul, transpose, vmul, vscale, vpow] <;> lp_close
  · intro p d0 β
    simp only [lrValueSrc, est, dotVV] <;> lp_close
  · rfl
  · norm_num [lrRcondSrc, lstsqRcond]
  · norm_num [lstsqRcond, condCompared]

/-- **`_compute_kernel` as the source has it**: 1-D `K(|x − x₀| / h)`, n-D `K(‖x − x₀‖₂ / h)`. -/
theorem compute_kernel_src_eq_model :
    (∀ k h x x0, weight1 k h x x0 = ckernel k (kernelArg1Src h x x0)) ∧
    (∀ root k h x1 x2 x01 x02, weight2 root k h x1 x2 x01 x02 = ckernel k (kernelArg2Src root h x1 x2 x01 x02)) := by
  constructor
  · intro k h x x0
    simp only [weight1, kernelArg1Src] <;> lp_close
  · intro root k h x1 x2 x01 x02
    simp only [weight2, kernelArg2Src, sqDist2] <;> lp_close

/-- **The design of `LocalPolynomial.predict` as the source has it**: features of `(x − x₀)/h` (centred at the query,
scaled by the bandwidth) — or of its negative `(x₀ − x)/h`, which is the model's design of the reflected data
`(−x, −x₀)` and gives the same estimate by `shift_scale_invariant` with `a = −1`; query row = features of the origin,
`PolynomialFeatures(degree)` with the constant column and all monomials, default query set = the unique sampling points. -/
theorem predict_design_src_eq_model :
    (∃ s : ℚ, (s = 1 ∨ s = -1) ∧
      (∀ (h : ℚ) (x : ℕ → ℚ) (x0 : ℚ) (i k : ℕ), design1 h (fun i => s * x i) (s * x0) i k = designArgSrc h (x i) x0 ^ k) ∧
      (∀ (h : ℚ) (d : ℕ) (x1 x2 : ℕ → ℚ) (x01 x02 : ℚ) (i a : ℕ), design2 h d (fun i => s * x1 i) (fun i => s * x2 i) (s * x01) (s * x02) i a =
        designArgSrc h (x1 i) x01 ^ ((monos2 d).getD a (0, 0)).1 * designArgSrc h (x2 i) x02 ^ ((monos2 d).getD a (0, 0)).2)) ∧
    (∀ a, unit0 a = queryPointSrc ^ a) ∧
    polyDegreeIsOptionSrc = true ∧ polyIncludeBiasSrc = polyIncludeBias ∧ polyInteractionOnlySrc = polyInteractionOnly ∧
    xnewDefaultUniqueSrc = true := by
  refine ⟨?_, ?_, rfl, rfl, rfl, rfl⟩
  · first
      | (refine ⟨1, Or.inl rfl, ?_, ?_⟩
         · intro h x x0 i k; simp only [design1, designArgSrc]; congr 1; ring1
         · intro h d x1 x2 x01 x02 i a; simp only [design2, designArgSrc]; congr 2 <;> ring1)
      | (refine ⟨-1, Or.inr rfl, ?_, ?_⟩
         · intro h x x0 i k; simp only [design1, designArgSrc]; congr 1; ring1
         · intro h d x1 x2 x01 x02 i a; simp only [design2, designArgSrc]; congr 2 <;> ring1)
  · intro a
    unfold unit0 queryPointSrc
    by_cases ha : a = 0
    · simp [ha]
    · simp [ha]

/-- **The kernel table and the default options as the source has them** are the model's; every tabulated name is one the
driver evaluates. -/
theorem kernel_table_src_eq_model :
    kernelTableSrc = kernelTable ∧ lpDefaultKernelSrc = initKernel ∧ lpDefaultBandwidthSrc = initBandwidth ∧
    lpDefaultDegreeSrc = initDegree ∧ lpDefaultRobustSrc = initRobust ∧
    (∀ e ∈ kernelTable, e.1 = "gaussian" ∨ (FDA.LP.IO.parseCK? e.1).isSome = true) := by
  refine ⟨by decide, by decide, ?_, rfl, rfl, by decide⟩
  norm_num [lpDefaultBandwidthSrc, initBandwidth]

end SourceTie

/-! ### Non-vacuity: the hypotheses of the theorems above are met by concrete data -/

/-- A well-posed local problem: three points, Epanechnikov, `h = 2`, degree 1, query `1`. -/
example : lpEstimate1 .epanechnikov 2 1 3 (ofList [0, 1, 2]) (ofList [1, 2, 4]) 1 = some (23 / 10) := by
  decide +kernel
/-- … a second response on the same design, and the combination (`linear`). -/
example : lpEstimate1 .epanechnikov 2 1 3 (ofList [0, 1, 2]) (ofList [3, 0, -1]) 1 = some (3 / 5) := by
  decide +kernel
/-- A window with too few points is reported singular, not defaulted. -/
example : lpEstimate1 .epanechnikov (1 / 2) 1 3 (ofList [0, 1, 2]) (ofList [1, 2, 4]) 1 = none := by
  decide +kernel
/-- `kernel_support`, `kernel_pos_inside`. -/
example : (1 : ℚ) ≤ |(-3 / 2 : ℚ)| ∧ |(1 / 2 : ℚ)| < 1 := by norm_num [abs_of_nonneg, abs_of_neg]
/-- `local_window`: with `h = 2`, `x₀ = 1` the point `5` is outside the window; the two response
vectors agree inside it. -/
example : ∀ i, i < 4 → |ofList [0, 1, 2, 5] i - 1| < 2 → ofList [1, 2, 4, 7] i = ofList [1, 2, 4, -100] i := by
  decide +kernel
/-- `reproduces_polynomials`: `y = 2 x + 1` on four points, degree 1, is reproduced at `x₀ = 1`. -/
example : lpEstimate1 .tricube 4 1 4 (ofList [0, 1, 2, 3]) (ofList [1, 3, 5, 7]) 1 = some 3 := by
  decide +kernel
/-- `shift_scale_invariant` with a reflection (`a = -2`, `b = 5`): both problems are solvable. -/
example : lpEstimate1 .epanechnikov (|(-2 : ℚ)| * 2) 1 3 (fun i => -2 * ofList [0, 1, 2] i + 5) (ofList [1, 2, 4])
    (-2 * 1 + 5) = some (23 / 10) := by
  decide +kernel
/-- `order_of_data`: reversing three points is a bijection of `range 3`. -/
example : Set.BijOn (fun i => 2 - i) (range 3 : Set ℕ) (range 3 : Set ℕ) := by
  refine ⟨?_, ?_, ?_⟩
  · intro i hi; simp only [coe_range, Set.mem_Iio] at hi ⊢; omega
  · intro a ha b hb h; simp only [coe_range, Set.mem_Iio] at ha hb; simp only at h; omega
  · intro b hb; simp only [coe_range, Set.mem_Iio] at hb
    exact ⟨2 - b, by simp only [coe_range, Set.mem_Iio]; omega, by simp only; omega⟩
/-- `weight2_eq_sq`: the 3-4-5 triangle has a rational distance. -/
example : (0 : ℚ) ≤ 5 ∧ (5 : ℚ) ^ 2 = sqDist2 3 4 0 0 := by norm_num [sqDist2]
/-- `centred_eq_raw`, `reparam`, `normal_equations_minimise`: the raw (uncentred) normal equations of
the first example are solved by `β = (4/5, 3/2)`, and indeed `4/5 + 3/2 · 1 = 23/10`. -/
example : IsSol 2 (normalMat 3 (fun i => weight1 .epanechnikov 2 (ofList [0, 1, 2] i) 1) (rawDesign1 (ofList [0, 1, 2])))
    (normalRhs 3 (fun i => weight1 .epanechnikov 2 (ofList [0, 1, 2] i) 1) (rawDesign1 (ofList [0, 1, 2])) (ofList [1, 2, 4]))
    (ofList [4 / 5, 3 / 2]) := by
  unfold IsSol
  decide +kernel
example : est 2 (rawQuery1 1) (ofList [4 / 5, 3 / 2]) = 23 / 10 := by decide +kernel
/-- `degree0_weighted_mean`: degree 0. -/
example : lpEstimate1 .bisquare 2 0 3 (ofList [0, 1, 2]) (ofList [1, 2, 4]) 1 = some (77 / 34) := by
  decide +kernel
/-- 2-D: five points, Epanechnikov, degree 1 (`shift_scale_invariant_2d_partial`, `pointwise_2d`). -/
example : lpEstimate2 false 2 1 5 (ofList [0, 1, 0, 1, 1 / 2]) (ofList [0, 0, 1, 1, 1 / 2]) (ofList [1, 2, 3, 4, 5])
    (1 / 2) (1 / 2) = some (55 / 18) := by
  decide +kernel
/-- `reproduces_polynomials_2d_partial`: `y = 1 + 2 x₁ + 3 x₂` on five points, degree 1. -/
example : lpEstimate2 false 2 1 5 (ofList [0, 1, 0, 1, 1 / 2]) (ofList [0, 0, 1, 1, 1 / 2]) (ofList [1, 3, 4, 6, 7 / 2])
    (1 / 2) (1 / 2) = some (7 / 2) := by
  decide +kernel
/-- `weights_scale_invariant`: the first example with all weights doubled. -/
example : lpEstimate 3 2 (fun i => 2 * weight1 .epanechnikov 2 (ofList [0, 1, 2] i) 1) (design1 2 (ofList [0, 1, 2]) 1)
    (ofList [1, 2, 4]) = some (23 / 10) := by
  decide +kernel
/-- `degree0_in_window_range`: the degree-0 example above, responses 1, 2, 4 all in the window: 1 ≤ 77/34 ≤ 4. -/
example : (1 : ℚ) ≤ 77 / 34 ∧ (77 : ℚ) / 34 ≤ 4 := by norm_num
/-- `shift_scale_invariant_2d`: a 3-4-5 configuration, `a = 2`: `root 25 = 5`, `root 100 = 10 = 2 · 5`. -/
example : (fun s : ℚ => if s = 25 then (5 : ℚ) else if s = 100 then 10 else 0) ((2 : ℚ) ^ 2 * sqDist2 3 4 0 0)
    = 2 * (fun s : ℚ => if s = 25 then (5 : ℚ) else if s = 100 then 10 else 0) (sqDist2 3 4 0 0) := by
  norm_num [sqDist2]
/-- `weight2_on_a_line`: `root 9 = 3 = |4 - 1|`. -/
example : (fun s : ℚ => if s = 9 then (3 : ℚ) else 0) (((4 : ℚ) - 1) ^ 2) = |(4 : ℚ) - 1| := by norm_num
/-- `reproduces_polynomials_2d`: the exponent pairs of total degree ≤ 1, and `y = 1 + 2 x₁ + 3 x₂` as such a sum. -/
example : (monos2 1).toFinset = {(0, 0), (1, 0), (0, 1)} := by decide
end C06
