/-
C01 — FPCA components are ordered, non-negative and the leading ones are kept.

`computeEigenSpec` (stable descending sort of the solver's pairs → clip → slice)
is what the property asks for; `computeEigenImpl` (clip → slice, no sort) is what
`FDApy/misc/utils.py:_compute_eigen` does with the solver's output and is the
function the correspondence runs.  The solver is a parameter: every theorem
quantifies over *every* list of pairs `raw`.

The code does not sort (`np.linalg.eig` returns unsorted spectra): the full
statement about `computeEigenImpl` is false (`counterexample`), the clauses that
do not depend on the order are proved for `computeEigenImpl` at full strength,
the order-dependent ones for `computeEigenSpec`, and `impl_eq_spec_of_sorted`
joins the two on exactly the domain where the defect is absent.
Only property theorems and non-vacuity examples live here.
-/
import FDAProofs.Lemmas.Eigen
import FDAModel.Generated.SelectNpc
import Mathlib.Algebra.BigOperators.Group.Finset.Basic
import Mathlib.Algebra.BigOperators.Ring.Finset
import Mathlib.Algebra.Order.BigOperators.Ring.Finset
import Mathlib.Tactic.NormNum

namespace C01
open FDA.Eigen

/-- The witness of the open finding: the solver's answer on `diag(1, 3, 2)`. -/
def witness : List Pair := [(1, [1, 0, 0]), (3, [0, 1, 0]), (2, [0, 0, 1])]

/-- The order clause of the property for the function the code implements. -/
def full_statement : Prop :=
  ∀ (raw : List Pair) (sel : Sel) (out : List Pair),
    computeEigenImpl raw sel = .ok out → (values out).Pairwise (fun a b => b ≤ a)

/-! ### Clauses about `computeEigenSpec` (what the property asks for) -/

/-- Reported eigenvalues are non-increasing — every spectrum, every selector. -/
theorem sorted (raw : List Pair) (sel : Sel) (out : List Pair)
    (h : computeEigenSpec raw sel = .ok out) : (values out).Pairwise (fun a b => b ≤ a) := by
  unfold computeEigenSpec at h
  rw [computeEigenImpl_def] at h
  split at h
  · rename_i npc _
    injection h with h
    subst h
    rw [values_pyTake, values_clipPairs]
    exact ((clip_sorted (values_sortDesc_sorted raw))).sublist (pyTake_prefix _ _).sublist
  · cases h

/-- Reported eigenvalues are non-negative (order-independent: holds for the code
as it is). -/
theorem nonneg (raw : List Pair) (sel : Sel) (out : List Pair)
    (h : computeEigenImpl raw sel = .ok out) : ∀ x ∈ values out, 0 ≤ x := by
  rw [computeEigenImpl_def] at h
  split at h
  · injection h with h
    subst h
    intro x hx
    rw [values_pyTake, values_clipPairs] at hx
    have := (pyTake_prefix _ _).subset hx
    obtain ⟨y, _, rfl⟩ := List.mem_map.1 this
    exact clip_nonneg y
  · cases h

/-- … hence also for the specification. -/
theorem spec_nonneg (raw : List Pair) (sel : Sel) (out : List Pair)
    (h : computeEigenSpec raw sel = .ok out) : ∀ x ∈ values out, 0 ≤ x :=
  nonneg (sortDesc raw) sel out h

/-- Pairing, as coded: the output is a *prefix of the clipped solver pairs* —
value `i` still sits next to vector `i`; nothing is reordered separately
(order-independent: holds for the code as it is). -/
theorem paired (raw : List Pair) (sel : Sel) (out : List Pair)
    (h : computeEigenImpl raw sel = .ok out) : out <+: clipPairs raw := by
  rw [computeEigenImpl_def] at h
  split at h
  · injection h with h; subst h; exact pyTake_prefix _ _
  · cases h

/-- Pairing for the specification: every reported pair `(v, e)` is a solver pair
`(x, e)` with `v = max(x, 0)`; with all components kept the output is a
permutation of the clipped solver pairs (nothing lost, nothing duplicated). -/
theorem spec_paired (raw : List Pair) (sel : Sel) (out : List Pair)
    (h : computeEigenSpec raw sel = .ok out) :
    ∀ p ∈ out, ∃ x, (x, p.2) ∈ raw ∧ p.1 = clip x := by
  intro p hp
  have hpre := paired (sortDesc raw) sel out h
  have hm : p ∈ clipPairs (sortDesc raw) := hpre.subset hp
  unfold clipPairs at hm
  obtain ⟨q, hq, rfl⟩ := List.mem_map.1 hm
  exact ⟨q.1, (sortDesc_perm raw).subset hq, rfl⟩

theorem spec_all_perm (raw : List Pair) (out : List Pair)
    (h : computeEigenSpec raw .all = .ok out) : out.Perm (clipPairs raw) := by
  unfold computeEigenSpec at h
  rw [computeEigenImpl_def] at h
  simp only [selectNpc] at h
  injection h with h
  subst h
  rw [pyTake_nonneg]
  have : (values (clipPairs (sortDesc raw))).length = (clipPairs (sortDesc raw)).length := by
    simp [values]
  rw [this, List.take_length]
  exact (sortDesc_perm raw).map _

/-- Asking for `k` components returns exactly the first `k` entries of the full
decomposition (order-independent: holds for the code as it is, any integer `k`
with Python's slice semantics). -/
theorem prefix_int (raw : List Pair) (k : Int) :
    ∃ full, computeEigenImpl raw .all = .ok full ∧ computeEigenImpl raw (.int k) = .ok (pyTake k full) := by
  refine ⟨clipPairs raw, ?_, ?_⟩
  · rw [computeEigenImpl_def]
    simp only [selectNpc]
    rw [pyTake_nonneg]
    have : (values (clipPairs raw)).length = (clipPairs raw).length := by simp [values]
    rw [this, List.take_length]
  · rw [computeEigenImpl_def]; simp only [selectNpc]

/-- The same for a fraction: the answer is a non-empty leading block
`full.take npc`, `npc ≥ 1`, of the full decomposition. -/
theorem prefix_frac (raw : List Pair) (p : ℚ) (out : List Pair)
    (h : computeEigenImpl raw (.frac p) = .ok out) :
    ∃ npc : ℕ, 1 ≤ npc ∧ out = (clipPairs raw).take npc ∧ computeEigenImpl raw .all = .ok (clipPairs raw) := by
  have hall : computeEigenImpl raw .all = .ok (clipPairs raw) := by
    rw [computeEigenImpl_def]
    simp only [selectNpc]
    rw [pyTake_nonneg]
    have : (values (clipPairs raw)).length = (clipPairs raw).length := by simp [values]
    rw [this, List.take_length]
  rw [computeEigenImpl_def] at h
  simp only [selectNpc] at h
  by_cases hp : p < 1
  · rw [if_pos hp] at h
    simp only at h
    injection h with h
    refine ⟨((cumsum (values (clipPairs raw))).filter (fun c => decide ((values (clipPairs raw)).sum ≠ 0)
      && decide (c / (values (clipPairs raw)).sum < p))).length + 1, Nat.le_add_left 1 _, ?_, hall⟩
    rw [← h]
    exact pyTake_nonneg (_ + 1) _
  · rw [if_neg hp] at h
    cases h

/-- Prefix clause for the specification with `0 ≤ k`: `take k` of the sorted full
decomposition, of length exactly `min k (number of pairs)`. -/
theorem spec_prefix (raw : List Pair) (k : ℕ) :
    ∃ full, computeEigenSpec raw .all = .ok full ∧
      computeEigenSpec raw (.int k) = .ok (full.take k) ∧ full.length = raw.length := by
  obtain ⟨full, h1, h2⟩ := prefix_int (sortDesc raw) (k : Int)
  refine ⟨full, h1, ?_, ?_⟩
  · rw [← pyTake_nonneg]; exact h2
  · have := (spec_all_perm raw full h1).length_eq
    rw [this, length_clipPairs]

/-- The `k` kept components are the `k` directions of largest variance: every
dropped value is ≤ every kept value. -/
theorem k_largest (raw : List Pair) (k : ℕ) (full : List Pair)
    (h : computeEigenSpec raw .all = .ok full) :
    computeEigenSpec raw (.int k) = .ok (full.take k) ∧
      ∀ x ∈ values (full.take k), ∀ y ∈ values (full.drop k), y ≤ x := by
  obtain ⟨full', h1, h2, _⟩ := spec_prefix raw k
  rw [h] at h1
  injection h1 with h1
  subst h1
  refine ⟨h2, ?_⟩
  have hs := sorted raw .all full h
  intro x hx y hy
  have hsplit : values full = values (full.take k) ++ values (full.drop k) := by
    unfold values; rw [← List.map_append, List.take_append_drop]
  rw [hsplit, List.pairwise_append] at hs
  exact hs.2.2 x hx y hy

/-- Fraction rule (`0 < p < 1`, non-negative spectrum with positive sum): the
number kept is between 1 and the number of values, the kept leading values reach
`p·total`, and no shorter non-empty leading set does. -/
theorem fraction_minimal (vals : List ℚ) (p : ℚ) (hnn : ∀ x ∈ vals, 0 ≤ x)
    (htot : 0 < vals.sum) (hp1 : p < 1) :
    ∃ npc : ℕ, selectNpc vals (.frac p) = .ok (npc : Int) ∧ 1 ≤ npc ∧ npc ≤ vals.length ∧
      p * vals.sum ≤ (vals.take npc).sum ∧
      ∀ k, 1 ≤ k → k < npc → (vals.take k).sum < p * vals.sum := by
  have hpos : 0 < vals.length := by
    rcases vals with _ | ⟨x, xs⟩
    · simp at htot
    · simp
  set total := vals.sum with htotal
  let P : ℚ → Bool := fun c => decide (total ≠ 0) && decide (c / total < p)
  have hPiff : ∀ c, P c = true ↔ c < p * total := by
    intro c
    simp only [P, Bool.and_eq_true, decide_eq_true_eq]
    constructor
    · intro ⟨_, h⟩; exact (div_lt_iff₀ htot).1 h
    · intro h; exact ⟨htot.ne', (div_lt_iff₀ htot).2 h⟩
  have hPdown : ∀ a b, a ≤ b → P b = true → P a = true := by
    intro a b hab hb
    rw [hPiff] at hb ⊢
    linarith
  have hsorted := (cumsumFrom_sorted 0 vals hnn).1
  have hlen : (cumsum vals).length = vals.length := length_cumsumFrom 0 vals
  have hkey := filter_prefix_of_sorted P hPdown (cumsum vals) hsorted
  have hget : ∀ i (h : i < (cumsum vals).length), (cumsum vals)[i] = (vals.take (i + 1)).sum := by
    intro i h
    have := getElem_cumsumFrom 0 vals i h
    unfold cumsum
    simpa using this
  set cnt := ((cumsum vals).filter P).length with hcnt
  -- the last cumulated value is the total and fails `P`
  have hlast : ¬ (vals.length - 1 < cnt) := by
    have hi : vals.length - 1 < (cumsum vals).length := by omega
    rw [hkey _ hi, hPiff, hget _ hi]
    have : vals.length - 1 + 1 = vals.length := by omega
    rw [this, List.take_length]
    nlinarith
  have hcntlt : cnt < vals.length := by omega
  refine ⟨cnt + 1, ?_, by omega, by omega, ?_, ?_⟩
  · simp only [selectNpc, if_pos hp1]
    rfl
  · have hi : cnt < (cumsum vals).length := by omega
    have h := (hkey cnt hi).not.1 (lt_irrefl _)
    rw [hPiff, hget _ hi] at h
    exact not_lt.1 h
  · intro k hk1 hk2
    have hi : k - 1 < (cumsum vals).length := by omega
    have h := (hkey (k - 1) hi).1 (by omega)
    rw [hPiff, hget _ hi] at h
    have : k - 1 + 1 = k := by omega
    rwa [this] at h

/-- The fraction clause for the specification, in one statement: for `p < 1` and a spectrum with
positive (clipped) total, the answer is the leading block `take npc` of the sorted clipped pairs,
`1 ≤ npc ≤ n`, whose cumulated variance reaches `p·total` while no shorter non-empty leading block
does — "the smallest leading set whose cumulated variance reaches the fraction". -/
theorem spec_fraction_minimal (raw : List Pair) (p : ℚ) (hp1 : p < 1)
    (htot : 0 < (values (clipPairs (sortDesc raw))).sum) :
    ∃ npc : ℕ, computeEigenSpec raw (.frac p) = .ok ((clipPairs (sortDesc raw)).take npc) ∧
      1 ≤ npc ∧ npc ≤ raw.length ∧
      p * (values (clipPairs (sortDesc raw))).sum ≤ ((values (clipPairs (sortDesc raw))).take npc).sum ∧
      ∀ k, 1 ≤ k → k < npc →
        ((values (clipPairs (sortDesc raw))).take k).sum < p * (values (clipPairs (sortDesc raw))).sum := by
  have hnn : ∀ x ∈ values (clipPairs (sortDesc raw)), 0 ≤ x := by
    intro x hx
    rw [values_clipPairs] at hx
    obtain ⟨y, _, rfl⟩ := List.mem_map.1 hx
    exact clip_nonneg y
  obtain ⟨npc, hsel, h1, hlen, hreach, hmin⟩ := fraction_minimal _ p hnn htot hp1
  refine ⟨npc, ?_, h1, ?_, hreach, hmin⟩
  · unfold computeEigenSpec
    rw [computeEigenImpl_def, hsel]
    simp only
    rw [pyTake_nonneg]
  · have : (values (clipPairs (sortDesc raw))).length = raw.length := by
      simp [values, length_clipPairs, length_sortDesc]
    rw [← this]; exact hlen

/-- The answer depends on the *multiset* of solver values only: every ordering of
a spectrum (in particular every arrangement of it on a diagonal) gives the same
reported eigenvalues. -/
theorem perm_invariant (raw₁ raw₂ : List Pair) (sel : Sel)
    (hp : (values raw₁).Perm (values raw₂)) :
    (computeEigenSpec raw₁ sel).map values = (computeEigenSpec raw₂ sel).map values := by
  unfold computeEigenSpec
  rw [impl_values, impl_values]
  congr 1
  apply eq_of_perm_of_sorted _ (values_sortDesc_sorted raw₁) (values_sortDesc_sorted raw₂)
  have h1 : (values (sortDesc raw₁)).Perm (values raw₁) := (sortDesc_perm raw₁).map _
  have h2 : (values (sortDesc raw₂)).Perm (values raw₂) := (sortDesc_perm raw₂).map _
  exact h1.trans (hp.trans h2.symm)

/-- Gram route (`eigenvalues / n_obs`, `n_obs > 0`): order and sign survive the scaling. -/
theorem gram_scaling (n : ℕ) (hn : 0 < n) (out : List Pair)
    (hs : (values out).Pairwise (fun a b => b ≤ a)) (hnn : ∀ x ∈ values out, 0 ≤ x) :
    (eigenvaluesGram n out).Pairwise (fun a b => b ≤ a) ∧ ∀ x ∈ eigenvaluesGram n out, 0 ≤ x := by
  have hn' : (0 : ℚ) < n := by exact_mod_cast hn
  unfold eigenvaluesGram
  constructor
  · rw [List.pairwise_map]
    exact hs.imp (fun hab => div_le_div_of_nonneg_right hab hn'.le)
  · intro x hx
    obtain ⟨y, hy, rfl⟩ := List.mem_map.1 hx
    exact div_nonneg (hnn y hy) hn'.le

/-! ### Refinement, partial theorem and counterexample -/

/-- Refinement: when the solver's values already are non-increasing the code
computes the specification.  (After a repair that sorts, `computeEigenImpl :=
computeEigenSpec` and the hypothesis disappears.) -/
theorem impl_eq_spec_of_sorted (raw : List Pair) (sel : Sel)
    (h : (values raw).Pairwise (fun a b => b ≤ a)) :
    computeEigenImpl raw sel = computeEigenSpec raw sel := by
  unfold computeEigenSpec
  rw [sortDesc_of_sorted h]

/-- The proved part of the order clause for the code as it is. -/
theorem sorted_partial (raw : List Pair) (sel : Sel) (out : List Pair)
    (hsolver : (values raw).Pairwise (fun a b => b ≤ a))
    (h : computeEigenImpl raw sel = .ok out) : (values out).Pairwise (fun a b => b ≤ a) := by
  rw [impl_eq_spec_of_sorted raw sel hsolver] at h
  exact sorted raw sel out h

/-- … and of the leading-components clause. -/
theorem k_largest_partial (raw : List Pair) (k : ℕ) (full : List Pair)
    (hsolver : (values raw).Pairwise (fun a b => b ≤ a))
    (h : computeEigenImpl raw .all = .ok full) :
    computeEigenImpl raw (.int k) = .ok (full.take k) ∧
      ∀ x ∈ values (full.take k), ∀ y ∈ values (full.drop k), y ≤ x := by
  rw [impl_eq_spec_of_sorted raw _ hsolver] at h ⊢
  exact k_largest raw k full h

theorem witness_impl_all :
    computeEigenImpl witness .all = .ok [(1, [1, 0, 0]), (3, [0, 1, 0]), (2, [0, 0, 1])] := by
  simp [witness, computeEigenImpl, clipPairs, clip, selectNpc, values, pyTake]

theorem witness_spec_all :
    computeEigenSpec witness .all = .ok [(3, [0, 1, 0]), (2, [0, 0, 1]), (1, [1, 0, 0])] := by
  have : sortDesc witness = [(3, [0, 1, 0]), (2, [0, 0, 1]), (1, [1, 0, 0])] := by
    unfold sortDesc witness
    simp [List.mergeSort, List.MergeSort.Internal.splitInTwo, List.merge]
    norm_num
  unfold computeEigenSpec
  rw [this]
  simp [computeEigenImpl, clipPairs, clip, selectNpc, values, pyTake]

/-- The code violates the order clause: on the solver output of `diag(1,3,2)` it
reports `1, 3, 2`. -/
theorem counterexample : ¬ full_statement := by
  intro h
  have := h witness .all _ witness_impl_all
  simp [values] at this

/-- It also violates the leading-components clause: asked for one component it
keeps the value `1` although `3` is in the spectrum. -/
theorem counterexample_leading :
    ¬ (∀ (raw : List Pair) (k : ℕ) (kept : List Pair), computeEigenImpl raw (.int k) = .ok kept →
        ∀ x ∈ values kept, ∀ y ∈ values (raw.drop k), clip y ≤ x) := by
  intro h
  have h1 : computeEigenImpl witness (.int (1 : ℕ)) = .ok [(1, [1, 0, 0])] := by
    simp [witness, computeEigenImpl, clipPairs, clip, selectNpc, pyTake]
  have := h witness 1 _ h1 1 (by simp [values]) 3 (by simp [values, witness])
  simp [clip] at this
  norm_num at this

/-! ### The selector as written in the source (translator) -/

/-- The parametrised selector at `<`, `+ 1`, `percentage < 1` is the model's `selectNpc`. -/
theorem selectNpc_eq_param (vals : List ℚ) (sel : Sel) :
    selectNpcParam true 1 true 1 vals sel = selectNpc vals sel := by
  cases sel <;> simp [selectNpcParam, selectNpc]

/-- What `harness/c01.py:translate()` extracted with `ast` from `_select_number_eigencomponents`
(strictness of the comparison, the added constant, the guard of the float branch —
`Generated/SelectNpc.lean`, regenerated on every run) **is** the model's `selectNpc`: `fraction_minimal`
and every other theorem about `selectNpc` is thereby re-checked against the source text. An edit of
`<` into `<=`, of the `+ 1` or of the bound breaks this proof. -/
theorem source_selectNpc : FDA.Generated.selectNpcSrc = selectNpc := by
  funext vals sel
  have hb : FDA.Generated.floatBound = 1 := by unfold FDA.Generated.floatBound; norm_num
  unfold FDA.Generated.selectNpcSrc FDA.Generated.fracStrict FDA.Generated.fracOffset
    FDA.Generated.floatBoundStrict
  rw [hb]
  exact selectNpc_eq_param vals sel

/-! ### Gram route: the noise shift `G − σ²I` -/

open Finset in
/-- Eigenpairs of `G − σ²I` are those of `G` with the value shifted by `σ²`, same vector. -/
theorem gram_shift_eigen (n : ℕ) (G : ℕ → ℕ → ℚ) (v : ℕ → ℚ) (l σ2 : ℚ) :
    (∀ i ∈ range n, ∑ j ∈ range n, G i j * v j = l * v i) ↔
    (∀ i ∈ range n, ∑ j ∈ range n, (G i j - if i = j then σ2 else 0) * v j = (l - σ2) * v i) := by
  have key : ∀ i ∈ range n, ∑ j ∈ range n, (G i j - if i = j then σ2 else 0) * v j
      = ∑ j ∈ range n, G i j * v j - σ2 * v i := by
    intro i hi
    simp_rw [sub_mul, Finset.sum_sub_distrib, ite_mul, zero_mul]
    rw [Finset.sum_ite_eq, if_pos hi]
  constructor
  · intro h i hi; rw [key i hi, h i hi]; ring
  · intro h i hi
    have := h i hi
    rw [key i hi] at this
    linarith

/-- The shift preserves the order of the spectrum … -/
theorem gram_shift_order (σ2 : ℚ) (raw : List Pair)
    (h : (values raw).Pairwise (fun a b => b ≤ a)) :
    (values (shiftPairs σ2 raw)).Pairwise (fun a b => b ≤ a) := by
  unfold values shiftPairs at *
  rw [List.map_map, List.pairwise_map]
  rw [List.pairwise_map] at h
  exact h.imp (fun hab => by simpa using hab)

/-- … and commutes with the (stable, descending) sort of the pairs. -/
theorem gram_shift_sort (σ2 : ℚ) (raw : List Pair) :
    sortDesc (shiftPairs σ2 raw) = shiftPairs σ2 (sortDesc raw) := by
  unfold sortDesc shiftPairs
  symm
  apply List.map_mergeSort
  intro a _ b _
  simp

/-- Hence, for the specification, asking for `k` components selects **the same `k` solver vectors**
whatever noise variance was subtracted: the integer rule commutes with the shift (the reported values
are the shifted ones, clipped at 0). -/
theorem gram_shift_selection_int (σ2 : ℚ) (raw : List Pair) (k : ℕ) :
    ∃ out out', computeEigenSpec raw (.int k) = .ok out ∧
      computeEigenSpec (shiftPairs σ2 raw) (.int k) = .ok out' ∧ vectors out' = vectors out := by
  refine ⟨(clipPairs (sortDesc raw)).take k, (clipPairs (sortDesc (shiftPairs σ2 raw))).take k, ?_, ?_, ?_⟩
  · unfold computeEigenSpec; rw [computeEigenImpl_def]; simp only [selectNpc]; rw [pyTake_nonneg]
  · unfold computeEigenSpec; rw [computeEigenImpl_def]; simp only [selectNpc]; rw [pyTake_nonneg]
  · rw [gram_shift_sort]
    have hv : ∀ l : List Pair, vectors (l.take k) = (vectors l).take k := fun l => by
      unfold vectors; rw [List.map_take]
    rw [hv, hv, vectors_clipPairs, vectors_clipPairs]
    congr 1
    unfold vectors shiftPairs
    rw [List.map_map]
    rfl

/-- The fraction rule is **not** invariant under the shift: spectrum `(4, 3)`, `p = 3/5` keeps two
components (`4/7 < 3/5`), after subtracting `σ² = 2` — spectrum `(2, 1)` — only one (`2/3 ≥ 3/5`).
What holds exactly is `gram_shift_selection_int` (same leading vectors for a given count) and
`gram_shift_order`; the *count* chosen by a fraction refers to the shifted, clipped spectrum. -/
theorem gram_shift_fraction_not_invariant :
    selectNpc [4, 3] (.frac (3 / 5)) = .ok 2 ∧ selectNpc [4 - 2, 3 - 2] (.frac (3 / 5)) = .ok 1 := by
  constructor <;> (simp [selectNpc, cumsum, cumsumFrom]; norm_num)

/-! ### Rejected selectors, contract lemmas -/

/-- The code and the specification reject exactly the same selectors (a float
`≥ 1` and everything that is neither `int`, `float` nor `None`), whatever the spectrum. -/
theorem rejects (raw : List Pair) (sel : Sel) :
    (computeEigenImpl raw sel = .error "ValueError" ↔ (sel = .bad ∨ ∃ p, sel = .frac p ∧ 1 ≤ p)) ∧
    ((∃ out, computeEigenImpl raw sel = .ok out) ↔ ¬ (sel = .bad ∨ ∃ p, sel = .frac p ∧ 1 ≤ p)) := by
  rw [computeEigenImpl_def]
  cases sel with
  | int k => simp [selectNpc]
  | all => simp [selectNpc]
  | bad => simp [selectNpc]
  | frac p =>
    by_cases hp : p < 1
    · simp [selectNpc, hp]
    · simp [selectNpc, hp, not_lt.1 hp]

/-- Contract lemma: on a non-negative spectrum clipping is the identity, so the
specification with all components kept is just the sorted solver output. -/
theorem clip_id_of_nonneg (raw : List Pair) (h : ∀ x ∈ values raw, 0 ≤ x) :
    computeEigenSpec raw .all = .ok (sortDesc raw) := by
  obtain ⟨full, h1, _, _⟩ := spec_prefix raw 0
  have hfull := h1
  unfold computeEigenSpec at h1
  rw [computeEigenImpl_def] at h1
  simp only [selectNpc] at h1
  rw [hfull]
  injection h1 with h1
  rw [← h1, pyTake_nonneg]
  have hl : (values (clipPairs (sortDesc raw))).length = (clipPairs (sortDesc raw)).length := by
    simp [values]
  rw [hl, List.take_length]
  unfold clipPairs
  have : ∀ q ∈ sortDesc raw, (fun p : Pair => (clip p.1, p.2)) q = q := by
    intro q hq
    have hq' : q ∈ raw := (sortDesc_perm raw).subset hq
    have : 0 ≤ q.1 := h q.1 (List.mem_map.2 ⟨q, hq', rfl⟩)
    simp [clip_of_nonneg this]
  rw [List.map_congr_left this, List.map_id']

open Finset in
/-- Contract lemma: an eigenvalue of a positive semi-definite quadratic form is
non-negative (so for the covariance / Gram matrices of C08/C09 clipping only
removes rounding noise). -/
theorem eig_psd_nonneg (n : ℕ) (A : ℕ → ℕ → ℚ) (u : ℕ → ℚ) (lam : ℚ)
    (hpsd : ∀ x : ℕ → ℚ, 0 ≤ ∑ i ∈ range n, ∑ j ∈ range n, x i * A i j * x j)
    (heig : ∀ i ∈ range n, ∑ j ∈ range n, A i j * u j = lam * u i)
    (hu : 0 < ∑ i ∈ range n, u i * u i) : 0 ≤ lam := by
  have h := hpsd u
  have : ∑ i ∈ range n, ∑ j ∈ range n, u i * A i j * u j = lam * ∑ i ∈ range n, u i * u i := by
    rw [Finset.mul_sum]
    apply Finset.sum_congr rfl
    intro i hi
    have := heig i hi
    calc ∑ j ∈ range n, u i * A i j * u j = u i * ∑ j ∈ range n, A i j * u j := by
          rw [Finset.mul_sum]; apply Finset.sum_congr rfl; intro j _; ring
      _ = lam * (u i * u i) := by rw [this]; ring
  rw [this] at h
  by_contra hneg
  have hneg := not_le.1 hneg
  nlinarith

/-! ### Non-vacuity -/

example : computeEigenSpec witness (.int 2) = .ok [(3, [0, 1, 0]), (2, [0, 0, 1])] := by
  obtain ⟨h, _⟩ := k_largest witness 2 _ witness_spec_all
  simpa using h

example : ∃ npc : ℕ, selectNpc [3, 2, 1] (.frac (3 / 5)) = .ok (npc : Int) ∧ npc = 2 := by
  refine ⟨2, ?_, rfl⟩
  simp [selectNpc, cumsum, cumsumFrom]
  norm_num

example : (∀ x ∈ ([3, 2, 1] : List ℚ), 0 ≤ x) ∧ (0 : ℚ) < ([3, 2, 1] : List ℚ).sum ∧ (3 / 5 : ℚ) < 1 := by
  refine ⟨?_, ?_, ?_⟩ <;> norm_num

example : (values [((3 : ℚ), ([0, 1] : List ℚ)), (2, [1, 0])]).Pairwise (fun a b => b ≤ a) := by
  simp [values]; norm_num

/-- `gram_shift_order`: a non-increasing spectrum. -/
example : (values [((5 : ℚ), ([1] : List ℚ)), (2, [0])]).Pairwise (fun a b => b ≤ a) := by
  simp [values]; norm_num

example : (values witness).Perm (values [((3 : ℚ), ([] : List ℚ)), (1, []), (2, [])]) := by
  simp only [values, witness, List.map]
  exact (List.Perm.swap _ _ _)

end C01
