/-
C19 — simulations are reproducible and have the advertised structure.

Theorems about the definitions of `FDAModel/SimulationRng.lean` executed by
`Drivers/C19.lean`.  Generators are arbitrary deterministic streams
(`next : G → D × G`, any state and value types); histories are arbitrary
interleavings of operations of any number of simulators with unrelated
activity on the global generator.
-/
import FDAProofs.Lemmas.SimulationRng
import FDAModel.Generated.Eigenvalues
import Mathlib.Analysis.SpecialFunctions.Pow.Real
import Mathlib.Analysis.SpecialFunctions.Trigonometric.Basic

namespace C19
open FDA.Rng

variable {G D O : Type}

/-! ### reproducibility -/

/-- Non-interference.  If every operation of simulator `a` draws only from its own generator,
then in ANY interleaved history the outputs of `a` are exactly what its own call sequence
produces from its own seed state alone: they do not depend on the global generator, on the
unrelated global draws, nor on what other simulators do in between. -/
theorem noninterference (next : G → D × G) (a : Nat) (tr : List (Ev D O)) (w : World G)
    (h : ∀ p ∈ opsOf a tr, AllOwn p) :
    outputsOf a (runTrace next tr w).1 = (runSeq next (opsOf a tr) (w.own a)).1 :=
  (trace_invariant next a tr w h).1

/-- Clause "two simulators built with the same seed and driven by the same calls produce
identical data, noisy data and sparse data": twins agree, whatever is interleaved. -/
theorem twins_agree (next : G → D × G) (a b : Nat) (tr : List (Ev D O)) (w : World G)
    (hseed : w.own a = w.own b) (hcalls : opsOf a tr = opsOf b tr)
    (h : ∀ p ∈ opsOf a tr, AllOwn p) :
    outputsOf a (runTrace next tr w).1 = outputsOf b (runTrace next tr w).1 := by
  rw [noninterference next a tr w h, noninterference next b tr w (by rw [← hcalls]; exact h), hseed, hcalls]

/-- … and the result does not depend on the state of the global generator at all. -/
theorem independent_of_global (next : G → D × G) (a : Nat) (tr : List (Ev D O)) (w : World G) (g : G)
    (h : ∀ p ∈ opsOf a tr, AllOwn p) :
    outputsOf a (runTrace next tr w).1 = outputsOf a (runTrace next tr { w with glob := g }).1 := by
  rw [noninterference next a tr w h, noninterference next a tr { w with glob := g } h]

/-- A seeded simulator whose operations are all-own leaves the global generator untouched. -/
theorem global_untouched (next : G → D × G) (a : Nat) (p : Prog D O) (w : World G) (h : AllOwn p) :
    (p.run next a w).2.glob = w.glob := by
  rw [run_allOwn next a h w]; rfl

/-- Every operation {new, add_noise, sparsify, add_noise_and_sparsify} of every simulator kind
of the target tree, built with a seed, draws only from the simulator's own generator — for all
sizes, and whatever the data-dependent fallback decisions (`needs`) are. -/
theorem target_ops_all_own (needs : D → Bool) (k : SimKind) (op : Op) :
    AllOwn (opProg needs (cfgTarget true k) op) := by
  cases op with
  | new k' n kc m => exact allOwn_drawN _
  | addNoise nc => exact allOwn_drawN _
  | sparsify cs => exact allOwn_sparsifyProg needs cs
  | combined cs => exact allOwn_bind (allOwn_drawN _) fun _ => allOwn_map _ (allOwn_sparsifyProg needs cs)

/-- Hence: twin simulators of the target tree agree on every call sequence. -/
theorem target_twins_agree (next : G → D × G) (needs : D → Bool) (k : SimKind) (a b : Nat)
    (tr : List (Ev D (List D))) (w : World G) (hseed : w.own a = w.own b) (hcalls : opsOf a tr = opsOf b tr)
    (hops : ∀ p ∈ opsOf a tr, ∃ op, p = opProg needs (cfgTarget true k) op) :
    outputsOf a (runTrace next tr w).1 = outputsOf b (runTrace next tr w).1 :=
  twins_agree next a b tr w hseed hcalls fun p hp => by
    obtain ⟨op, rfl⟩ := hops p hp
    exact target_ops_all_own needs k op

example : ∃ p ∈ opsOf 0 [Ev.op 0 (opProg (fun _ : Nat => false) (cfgTarget true .kl) (.new .kl 3 2 5))],
    ∃ op, p = opProg (fun _ : Nat => false) (cfgTarget true .kl) op :=
  ⟨_, by simp [opsOf], .new .kl 3 2 5, rfl⟩

/-- Before the repair `Datasets.new` did not thread the generator: two Datasets simulators with
the same seed, same calls, disagree (counter stream `next n = (n, n+1)`).  This is what the check
reports on the unrepaired tree. -/
theorem unthreaded_counterexample :
    ∃ (tr : List (Ev Nat (List Nat))) (w : World Nat), w.own 0 = w.own 1 ∧ opsOf 0 tr = opsOf 1 tr ∧
      outputsOf 0 (runTrace (fun n => (n, n + 1)) tr w).1 ≠ outputsOf 1 (runTrace (fun n => (n, n + 1)) tr w).1 := by
  refine ⟨[.op 0 (opProg (fun _ => false) (cfgBefore true .datasets) (.new .datasets 1 1 3)),
           .op 1 (opProg (fun _ => false) (cfgBefore true .datasets) (.new .datasets 1 1 3))],
          ⟨0, fun _ => 0⟩, rfl, rfl, ?_⟩
  decide

/-! ### Karhunen–Loève structure -/

/-- Clause "data equal the drawn coefficients times the basis functions": entry `(i, j)` of the
data is the dot product of the `i`-th coefficient vector with column `j` of the basis. -/
theorem kl_structure (coef B : List (List Rat)) (m i j : Nat) (c : List Rat)
    (hi : coef[i]? = some c) (hj : j < m) :
    ((klData coef B m)[i]?.bind (·[j]?)) = some (dot c (col B j)) := by
  unfold klData
  simp [hi, hj]

example : ((klData [[1, 2], [0, -1]] [[1, 0, 1], [0, 1/2, 1]] 3)[0]?.bind (·[2]?)) = some (dot [1, 2] [1, 1]) :=
  kl_structure _ _ 3 0 2 [1, 2] rfl (by omega)

/-- `dot` is the sum of the products -/
theorem dot_cons (a b : Rat) (as bs : List Rat) : dot (a :: as) (b :: bs) = a * b + dot as bs := rfl

/-- Clause "the same coefficients in every component of a multivariate simulation". -/
theorem kl_same_coefficients (coef : List (List Rat)) (Bs : List (List (List Rat) × Nat)) (p : Nat) :
    (klMulti coef Bs)[p]? = (Bs[p]?).map fun b => klData coef b.1 b.2 := by
  unfold klMulti
  simp

/-! ### cluster labels -/

/-- Clause "cluster labels split the observations … into near-equal groups": `n` labels. -/
theorem labels_length (n k : Nat) (hk : 0 < k) : (labels n k).length = n := by
  unfold labels
  rw [List.length_flatMap]
  simp only [List.length_replicate, clusterSize]
  have := sum_map_range_sizes (n / k) (n % k) k
  rw [this, Nat.min_eq_left (Nat.le_of_lt (Nat.mod_lt n hk))]
  exact Nat.div_add_mod n k

/-- … "in order": the labels are non-decreasing. -/
theorem labels_sorted (n k : Nat) : (labels n k).Pairwise (· ≤ ·) := by
  unfold labels
  have key : ∀ (l : List Nat), l.Pairwise (· < ·) →
      (l.flatMap fun g => List.replicate (clusterSize n k g) g).Pairwise (· ≤ ·) := by
    intro l
    induction l with
    | nil => intro _; simp
    | cons g l ih =>
      intro hl
      rw [List.pairwise_cons] at hl
      rw [List.flatMap_cons, List.pairwise_append]
      refine ⟨?_, ih hl.2, ?_⟩
      · rw [List.pairwise_replicate]
        exact Or.inr (Nat.le_refl g)
      · intro x hx y hy
        rw [List.mem_replicate] at hx
        rw [List.mem_flatMap] at hy
        obtain ⟨g', hg', hy⟩ := hy
        rw [List.mem_replicate] at hy
        rw [hx.2, hy.2]
        exact Nat.le_of_lt (hl.1 g' hg')
  exact key _ List.pairwise_lt_range

/-- … each group `g < k` has exactly `⌊n/k⌋ + [g < n mod k]` members -/
theorem labels_count (n k g : Nat) (hg : g < k) : (labels n k).count g = clusterSize n k g := by
  unfold labels
  rw [List.count_flatMap]
  have : (List.map (List.count g ∘ fun g' => List.replicate (clusterSize n k g') g') (List.range k))
      = (List.range k).map fun g' => if g' = g then clusterSize n k g' else 0 := by
    apply List.map_congr_left
    intro g' _
    simp only [Function.comp, List.count_replicate]
    by_cases h : g' = g
    · simp [h]
    · simp [h]
  rw [this, sum_map_range_indicator (clusterSize n k) g k]
  simp [hg]

/-- … "near-equal": sizes differ by at most one and do not increase with the label -/
theorem labels_near_equal (n k g g' : Nat) (h : g ≤ g') :
    clusterSize n k g' ≤ clusterSize n k g ∧ clusterSize n k g ≤ clusterSize n k g' + 1 := by
  unfold clusterSize
  by_cases h1 : g < n % k <;> by_cases h2 : g' < n % k <;> simp [h1, h2] <;> omega

example : labels 7 3 = [0, 0, 0, 1, 1, 2, 2] := by decide

/-! ### named eigenvalue sequences (exact part: linear, quadratic, inverse) -/

/-- Clause "named eigenvalue sequences are positive and non-increasing", linear decay. -/
theorem eigenvalues_linear_pos_noninc (n i : Nat) (hi : i + 1 < n) :
    0 < eigLinear n i ∧ 0 < eigLinear n (i + 1) ∧ eigLinear n (i + 1) ≤ eigLinear n i := by
  unfold eigLinear
  have hn : (0 : ℚ) < (n : ℚ) := by exact_mod_cast (by omega : 0 < n)
  have h1 : ((i : ℚ)) + 1 < (n : ℚ) := by exact_mod_cast hi
  push_cast
  refine ⟨div_pos (by linarith) hn, div_pos (by linarith) hn, ?_⟩
  exact div_le_div_of_nonneg_right (by linarith) (le_of_lt hn)

/-- the first eigenvalue of a one-term linear sequence (`n = 1`) is positive as well -/
theorem eigenvalues_linear_first_pos (n : Nat) (hn : 0 < n) : 0 < eigLinear n 0 := by
  unfold eigLinear
  have : (0 : ℚ) < (n : ℚ) := by exact_mod_cast hn
  simp only [Nat.cast_zero, sub_zero]
  exact div_pos this this

/-- quadratic decay -/
theorem eigenvalues_quadratic_pos_noninc (n i : Nat) :
    0 < eigQuadratic n i ∧ eigQuadratic n (i + 1) ≤ eigQuadratic n i := by
  unfold eigQuadratic
  have hi : (0 : ℚ) ≤ (i : ℚ) := Nat.cast_nonneg i
  push_cast
  refine ⟨by positivity, ?_⟩
  apply one_div_le_one_div_of_le (by positivity)
  nlinarith

/-- inverse decay -/
theorem eigenvalues_inverse_pos_noninc (n i : Nat) :
    0 < eigInverse n i ∧ eigInverse n (i + 1) ≤ eigInverse n i := by
  unfold eigInverse
  have hi : (0 : ℚ) ≤ (i : ℚ) := Nat.cast_nonneg i
  push_cast
  refine ⟨by positivity, ?_⟩
  apply one_div_le_one_div_of_le (by positivity)
  linarith

/-! ### named eigenvalue sequences, real-valued closed forms (exponential, sqrt, Wiener)

These three sequences involve `exp`, a real power and `π`; the driver cannot execute them, so
the statements are about the real-valued closed forms and the floating-point sequences of the
implementation are validated by the oracle only (listed as partial in the evidence). -/

/-- `_eigenvalues_exponential(n)[i] = exp(-i/2)` -/
noncomputable def eigExponentialR (i : ℕ) : ℝ := Real.exp (-(i : ℝ) / 2)
/-- `_eigenvalues_sqrt(n)[i] = (i+1)^(-1/2)` -/
noncomputable def eigSqrtR (i : ℕ) : ℝ := ((i : ℝ) + 1) ^ (-(1 / 2) : ℝ)
/-- `_eigenvalues_wiener(n)[i] = ((π/2)(2(i+1) - 1))^(-2)` -/
noncomputable def eigWienerR (i : ℕ) : ℝ := 1 / ((Real.pi / 2) * (2 * ((i : ℝ) + 1) - 1)) ^ 2

theorem eigenvalues_exponential_pos_noninc_real (i : ℕ) :
    0 < eigExponentialR i ∧ eigExponentialR (i + 1) ≤ eigExponentialR i := by
  unfold eigExponentialR
  refine ⟨Real.exp_pos _, Real.exp_le_exp.mpr ?_⟩
  push_cast
  linarith

theorem eigenvalues_sqrt_pos_noninc_real (i : ℕ) : 0 < eigSqrtR i ∧ eigSqrtR (i + 1) ≤ eigSqrtR i := by
  unfold eigSqrtR
  have hi : (0 : ℝ) ≤ (i : ℝ) := Nat.cast_nonneg i
  refine ⟨Real.rpow_pos_of_pos (by linarith) _, ?_⟩
  apply Real.rpow_le_rpow_of_nonpos (by linarith) (by push_cast; linarith) (by norm_num)

theorem eigenvalues_wiener_pos_noninc_real (i : ℕ) : 0 < eigWienerR i ∧ eigWienerR (i + 1) ≤ eigWienerR i := by
  unfold eigWienerR
  have hi : (0 : ℝ) ≤ (i : ℝ) := Nat.cast_nonneg i
  have hpi := Real.pi_pos
  have h1 : 0 < (Real.pi / 2) * (2 * ((i : ℝ) + 1) - 1) := mul_pos (by positivity) (by linarith)
  refine ⟨by positivity, ?_⟩
  apply one_div_le_one_div_of_le (by positivity)
  apply pow_le_pow_left₀ (le_of_lt h1)
  push_cast
  nlinarith

/-- with `exp` positive, a geometric path over the reals is positive as well: the factors of
`_geometric_brownian` are `exp(…)` values -/
theorem geometric_factors_positive_real (x : ℝ) : 0 < Real.exp x := Real.exp_pos x

/-! ### the model is what the source says NOW

`FDAModel/Generated/Eigenvalues.lean` is re-generated on every run from
`FDApy/simulation/karhunen.py` (harness/c19.py `translate()`): element `i` (0-based) of each named
sequence exactly as the source computes it, the length of the sequence, the argument of `exp`,
base and exponent of the real power, `π` as a parameter, and the cluster sizes of `_make_coef`.
The theorems below tie those generated definitions to the model's; an edit of a formula in the
Python breaks them. -/

open FDA.Generated in
/-- linear: the source formula is the model's, `n` elements -/
theorem generated_linear (n i : ℕ) : eigLinearSrc n i = eigLinear n i ∧ eigLinearLenSrc n = n := by
  refine ⟨?_, by unfold eigLinearLenSrc; omega⟩
  unfold eigLinearSrc eigLinear
  ring

open FDA.Generated in
theorem generated_quadratic (n i : ℕ) : eigQuadraticSrc n i = eigQuadratic n i ∧ eigQuadraticLenSrc n = n := by
  refine ⟨?_, by unfold eigQuadraticLenSrc; omega⟩
  unfold eigQuadraticSrc eigQuadratic
  ring

open FDA.Generated in
theorem generated_inverse (n i : ℕ) : eigInverseSrc n i = eigInverse n i ∧ eigInverseLenSrc n = n := by
  refine ⟨?_, by unfold eigInverseLenSrc; omega⟩
  unfold eigInverseSrc eigInverse
  ring

open FDA.Generated in
/-- hence the sequences *as the source computes them* are positive and non-increasing -/
theorem source_sequences_pos_noninc (n i : ℕ) :
    (i + 1 < n → 0 < eigLinearSrc n i ∧ 0 < eigLinearSrc n (i + 1) ∧ eigLinearSrc n (i + 1) ≤ eigLinearSrc n i) ∧
    (0 < n → 0 < eigLinearSrc n 0) ∧
    (0 < eigQuadraticSrc n i ∧ eigQuadraticSrc n (i + 1) ≤ eigQuadraticSrc n i) ∧
    (0 < eigInverseSrc n i ∧ eigInverseSrc n (i + 1) ≤ eigInverseSrc n i) := by
  simp only [(generated_linear _ _).1, (generated_quadratic _ _).1, (generated_inverse _ _).1]
  exact ⟨eigenvalues_linear_pos_noninc n i, eigenvalues_linear_first_pos n,
    eigenvalues_quadratic_pos_noninc n i, eigenvalues_inverse_pos_noninc n i⟩

open FDA.Generated in
/-- exponential: the source takes `exp` of `-i/2` (0-based `i`), `n` elements — the closed form of
`eigExponentialR` -/
theorem generated_exponential_skeleton (n i : ℕ) :
    eigExponentialArgSrc n i = -(i : ℚ) / 2 ∧ eigExponentialLenSrc n = n ∧
    eigExponentialR i = Real.exp ((eigExponentialArgSrc n i : ℚ) : ℝ) := by
  have h : eigExponentialArgSrc n i = -(i : ℚ) / 2 := by unfold eigExponentialArgSrc; ring
  refine ⟨h, by unfold eigExponentialLenSrc; omega, ?_⟩
  rw [h]; unfold eigExponentialR; push_cast; rfl

open FDA.Generated in
/-- sqrt: base `i + 1`, exponent `-1/2` — the closed form of `eigSqrtR` -/
theorem generated_sqrt_skeleton (n i : ℕ) :
    eigSqrtBaseSrc n i = (i : ℚ) + 1 ∧ eigSqrtExpSrc = -(1 / 2) ∧ eigSqrtLenSrc n = n ∧
    eigSqrtR i = ((eigSqrtBaseSrc n i : ℚ) : ℝ) ^ ((eigSqrtExpSrc : ℚ) : ℝ) := by
  have hb : eigSqrtBaseSrc n i = (i : ℚ) + 1 := by unfold eigSqrtBaseSrc; ring
  have he : eigSqrtExpSrc = -(1 / 2) := by unfold eigSqrtExpSrc; norm_num
  refine ⟨hb, he, by unfold eigSqrtLenSrc; omega, ?_⟩
  rw [hb, he]; unfold eigSqrtR; push_cast; rfl

open FDA.Generated in
/-- Wiener: with `π` as a parameter the source computes `1 / ((π/2)(2(i+1) − 1))²`, `n` elements;
positive and non-increasing for every positive value of the parameter -/
theorem generated_wiener (pi : ℚ) (n i : ℕ) (hpi : 0 < pi) :
    eigWienerSrc pi n i = 1 / ((pi / 2) * (2 * ((i : ℚ) + 1) - 1)) ^ 2 ∧ eigWienerLenSrc n = n ∧
    0 < eigWienerSrc pi n i ∧ eigWienerSrc pi n (i + 1) ≤ eigWienerSrc pi n i := by
  have h : ∀ j : ℕ, eigWienerSrc pi n j = 1 / ((pi / 2) * (2 * ((j : ℚ) + 1) - 1)) ^ 2 := by
    intro j; unfold eigWienerSrc; ring
  have hi : (0 : ℚ) ≤ (i : ℚ) := Nat.cast_nonneg i
  have h1 : 0 < (pi / 2) * (2 * ((i : ℚ) + 1) - 1) := mul_pos (by positivity) (by linarith)
  refine ⟨h i, by unfold eigWienerLenSrc; omega, ?_, ?_⟩
  · rw [h i]; positivity
  · rw [h i, h (i + 1)]
    apply one_div_le_one_div_of_le (by positivity)
    apply pow_le_pow_left₀ (le_of_lt h1)
    push_cast
    nlinarith

open FDA.Generated in
/-- `KarhunenLoeve.new` as written stores column 0 of `clusters_std` in `eigenvalues`, nothing added: for a
named sequence (every column is that sequence) the stored eigenvalues are the sequence — whatever the
`centers` and the number of clusters are -/
theorem generated_eigenvalues_stored :
    eigenvaluesColumnSrc = 0 ∧ eigenvaluesExtraTermSrc = false ∧
    ∀ (ev : List Rat) (k : Nat), 0 < k →
      storedEigenvalues (ev.map fun x => List.replicate k x) eigenvaluesColumnSrc = ev := by
  refine ⟨rfl, rfl, ?_⟩
  intro ev k hk
  unfold storedEigenvalues col eigenvaluesColumnSrc
  induction ev with
  | nil => rfl
  | cons x xs ih =>
    simp only [List.map_cons, List.map_map] at ih ⊢
    congr 1
    · cases k with
      | zero => omega
      | succ k => simp [List.replicate]

open FDA.Generated in
/-- `BasisFunctionalData.to_grid` as written (`einsum("ij,j...->i...", coefficients, basis.values)`) contracts
the second axis of the coefficients with the first axis of the basis values: it is the model's `klData`;
the multivariate branch of `new` uses the same coefficient array for every component and does not
rescale the gridded components -/
theorem generated_kl_contraction (coef B : List (List Rat)) (m i j : Nat) (c : List Rat)
    (hi : coef[i]? = some c) (hj : j < m) :
    klCoefContractAxisSrc = 1 ∧ klBasisContractAxisSrc = 0 ∧ klSameCoefEveryComponentSrc = true ∧ klGridRescaledSrc = false ∧
    ((klData coef B m)[i]?.bind (·[j]?)) = some (contractEntry klCoefContractAxisSrc klBasisContractAxisSrc coef B i j) := by
  refine ⟨rfl, rfl, rfl, rfl, ?_⟩
  rw [kl_structure coef B m i j c hi hj]
  unfold contractEntry klCoefContractAxisSrc klBasisContractAxisSrc
  simp [List.getD, hi]

open FDA.Generated in
/-- the cluster sizes of `_make_coef` as the source computes them are the model's `clusterSize` -/
theorem generated_cluster_size (n k g : ℕ) : clusterSizeSrc n k g = clusterSize n k g := by
  unfold clusterSizeSrc clusterSize; rfl

/-! ### Brownian paths and the grid guard -/

/-- Clause "standard Brownian paths start at the requested value". -/
theorem brownian_start (init sd : Rat) (zs : List Rat) : (standardPath init sd zs).head? = some init := by
  cases zs <;> rfl

/-- … one value per sampling point, and each increment is `sqrt(delta)` times a draw -/
theorem brownian_increments (sd : Rat) : ∀ (init : Rat) (zs : List Rat),
    (standardPath init sd zs).length = zs.length + 1 ∧
    ∀ i a z, (standardPath init sd zs)[i]? = some a → zs[i]? = some z →
      (standardPath init sd zs)[i + 1]? = some (a + sd * z)
  | init, [] => by simp [standardPath]
  | init, z0 :: zs => by
    obtain ⟨hl, hi⟩ := brownian_increments sd (init + sd * z0) zs
    refine ⟨by simp [standardPath, hl], ?_⟩
    intro i a z ha hz
    cases i with
    | zero =>
      simp [standardPath] at ha hz
      subst ha; subst hz
      have := brownian_start (init + sd * z0) sd zs
      cases hzs : zs <;> simp [standardPath]
    | succ i =>
      simp only [standardPath, List.getElem?_cons_succ] at ha hz ⊢
      exact hi i a z ha hz

/-- Clause "geometric paths stay positive": positive start, positive factors (the `exp(…)`
values) ⇒ every value of the path is positive. -/
theorem geometric_positive : ∀ (init : Rat) (fs : List Rat), 0 < init → (∀ f ∈ fs, 0 < f) →
    ∀ v ∈ geomPath init fs, 0 < v
  | _, [], _, _, v, hv => by simp [geomPath] at hv
  | init, f :: fs, hi, hf, v, hv => by
    have hf0 : 0 < f := hf f (by simp)
    have h1 : 0 < init * f := mul_pos hi hf0
    simp only [geomPath, List.mem_cons] at hv
    rcases hv with rfl | hv
    · exact h1
    · exact geometric_positive (init * f) fs h1 (fun g hg => hf g (by simp [hg])) v hv

example : ∀ v ∈ geomPath 2 [1/2, 3, 1], 0 < v :=
  geometric_positive 2 _ (by norm_num) (by intro f hf; simp at hf; rcases hf with rfl | rfl | rfl <;> norm_num)

/-- the geometric path starts at `init · exp(first increment)`, not at `init` (observed, A.6) -/
theorem geometric_first (init f : Rat) (fs : List Rat) : (geomPath init (f :: fs)).head? = some (init * f) := rfl

/-- Clause "irregularly spaced grids are rejected": `Brownian.new` fails exactly on the grids
whose successive differences are not all `isclose` to the first one. -/
theorem irregular_grid_rejected (t : List Rat) :
    (gridRegular t = false → brownianGrid t = .error .irregular) ∧
    (gridRegular t = true → brownianGrid t = .ok t) := by
  unfold brownianGrid
  constructor <;> intro h <;> simp [h]

/-- a grid with two different steps (beyond the `isclose` tolerance) is irregular … -/
theorem irregular_example : gridRegular [0, 1/4, 1/2, 1] = false := by decide +kernel

/-- the grid `a, a+h, a+2h, …` (`n` points) -/
def uniformGrid (a h : Rat) : Nat → List Rat
  | 0 => []
  | n + 1 => a :: uniformGrid (a + h) h n

/-- … and every grid with exactly equal steps is accepted -/
theorem equal_steps_accepted (a h : Rat) (n : Nat) : gridRegular (uniformGrid a h n) = true := by
  have hd : ∀ (n : Nat) (a : Rat), ∀ d ∈ diffs (uniformGrid a h n), d = h := by
    intro n
    induction n with
    | zero => intro a d hd; simp [uniformGrid, diffs] at hd
    | succ n ih =>
      intro a d hd
      cases n with
      | zero => simp [uniformGrid, diffs] at hd
      | succ n =>
        simp only [uniformGrid, diffs, List.mem_cons] at hd
        rcases hd with rfl | hd
        · ring
        · exact ih (a + h) d (by simpa [uniformGrid] using hd)
  unfold gridRegular
  split
  · rfl
  · rename_i d0 ds heq
    have hall := hd n a
    rw [heq] at hall
    rw [List.all_eq_true]
    intro d hdm
    have e1 := hall d hdm
    have e2 := hall d0 (by simp)
    rw [e1, e2]
    unfold isclose ratAbs
    simp only [sub_self, lt_self_iff_false, if_false, decide_eq_true_eq]
    split <;> nlinarith

example : uniformGrid 0 (1/4) 4 = [0, 1/4, 1/2, 3/4] := by norm_num [uniformGrid]

/-! ### draw skeletons of the path simulators, Zhang–Chen structure -/

/-- running a composed program on one generator: first part, then the continuation on the
advanced generator -/
theorem runOwn_bind {O' : Type} (next : G → D × G) (p : Prog D O) (f : O → Prog D O') :
    ∀ g, (p.bind f).runOwn next g = ((f (p.runOwn next g).1).runOwn next (p.runOwn next g).2) := by
  induction p with
  | ret o => intro g; rfl
  | draw s k ih => intro g; simp only [Prog.bind, Prog.runOwn]; exact ih _ _

/-- `n` draws are the next `n` values of the stream, in order, each position used once -/
theorem drawN_runOwn (next : G → D × G) (s : Src) : ∀ (k : Nat) (g : G),
    (drawN s k).runOwn next g = (streamTake next k g, streamDrop next k g)
  | 0, g => rfl
  | k + 1, g => by
    simp only [drawN, Prog.runOwn, Prog.map, runOwn_bind, drawN_runOwn next s k, streamTake, streamDrop]

/-- the `i`-th of them is the value at stream position `i`: distinct steps use distinct draws -/
theorem streamTake_get (next : G → D × G) : ∀ (k i : Nat) (g : G), i < k →
    (streamTake next k g)[i]? = some (next (streamDrop next i g)).1
  | 0, i, g, h => by omega
  | k + 1, 0, g, _ => by simp [streamTake, streamDrop]
  | k + 1, i + 1, g, h => by
    simp only [streamTake, List.getElem?_cons_succ, streamDrop]
    exact streamTake_get next k i _ (by omega)

/-- "Increment structure" of a standard Brownian curve as a statement about the SKELETON: the
curve on `m` points consumes exactly the next `m - 1` values of the simulator's stream, and the
`i`-th increment is `sqrt(delta)` times the value at stream position `i` — one draw per step, no
draw shared between two steps. -/
theorem brownian_one_draw_per_step (next : G → D × G) (val : D → Rat) (init sd : Rat) (m : Nat) (g : G) :
    ((drawN (D := D) .own (m - 1)).runOwn next g).1.length = m - 1 ∧
    ∀ i a, i < m - 1 →
      (standardPath init sd (((drawN (D := D) .own (m - 1)).runOwn next g).1.map val))[i]? = some a →
      (standardPath init sd (((drawN (D := D) .own (m - 1)).runOwn next g).1.map val))[i + 1]? =
        some (a + sd * val (next (streamDrop next i g)).1) := by
  rw [drawN_runOwn]
  have hlen : ∀ k g', (streamTake next k g').length = k := by
    intro k; induction k with
    | zero => intro g'; rfl
    | succ k ih => intro g'; simp [streamTake, ih]
  refine ⟨hlen _ _, ?_⟩
  intro i a hi ha
  have hz : ((streamTake next (m - 1) g).map val)[i]? = some (val (next (streamDrop next i g)).1) := by
    rw [List.getElem?_map, streamTake_get next (m - 1) i g hi]; rfl
  exact (brownian_increments sd init _).2 i a _ ha hz

/-- numbers of generator calls per `new`: one per grid step and curve (standard), one per curve
(geometric), two per curve (fractional: real and imaginary part of the spectral noise), two per
curve (Zhang–Chen: the three coefficients, then the noise) -/
theorem path_draw_counts (n k m : Nat) :
    newDraws .brownianStandard n k m = n * (m - 1) ∧ newDraws .brownianGeometric n k m = n ∧
    newDraws .brownianFractional n k m = 2 * n ∧ newDraws .datasets n k m = 2 * n := ⟨rfl, rfl, rfl, rfl⟩

/-- a geometric path over the reals: `init · cumprod(exp(x))` -/
noncomputable def geomPathExp (init : ℝ) : List ℝ → List ℝ
  | [] => []
  | x :: xs => (init * Real.exp x) :: geomPathExp (init * Real.exp x) xs

/-- Clause "geometric paths stay positive", over ℝ with the genuine exponential: for a positive
start and ANY real increments every value of the path is positive (no hypothesis on the factors). -/
theorem geometric_positive_real : ∀ (init : ℝ) (xs : List ℝ), 0 < init → ∀ v ∈ geomPathExp init xs, 0 < v
  | _, [], _, v, hv => by simp [geomPathExp] at hv
  | init, x :: xs, hi, v, hv => by
    have h1 : 0 < init * Real.exp x := mul_pos hi (Real.exp_pos x)
    simp only [geomPathExp, List.mem_cons] at hv
    rcases hv with rfl | hv
    · exact h1
    · exact geometric_positive_real (init * Real.exp x) xs h1 v hv

/-- Zhang–Chen structure: sample `j` of a curve is `mu(t_j) + vi(t_j) + eps_j` with
`mu = 1.2 + 2.3 cos + 4.2 sin` and `vi = c0 + c1 cos + c2 sin` -/
theorem zhang_chen_structure (cosv sinv eps : List Rat) (c0 c1 c2 : Rat) (j : Nat) (c s e : Rat)
    (hc : cosv[j]? = some c) (hs : sinv[j]? = some s) (he : eps[j]? = some e) :
    (zhangChenRow cosv sinv c0 c1 c2 eps)[j]? =
      some ((6 / 5 + 23 / 10 * c + 21 / 5 * s) + (c0 + c1 * c + c2 * s) + e) := by
  unfold zhangChenRow
  have hz : (cosv.zip sinv)[j]? = some (c, s) := List.getElem?_zip_eq_some.mpr ⟨hc, hs⟩
  simp [List.getElem?_zipWith, hz, he]

example : (zhangChenRow [1, 0] [0, 1] 1 2 3 [0, 1/2])[1]? = some ((6 / 5 + 23 / 10 * 0 + 21 / 5 * 1) + (1 + 2 * 0 + 3 * 1) + 1 / 2) :=
  zhang_chen_structure _ _ _ 1 2 3 1 0 1 (1/2) rfl rfl rfl

end C19
