/-
C07 — a smoothed value depends only on the data and on its own location.
Only property theorems and non-vacuity examples; helpers in `FDAProofs/Lemmas/Predict.lean`
and `FDAProofs/Lemmas/LocalPoly.lean`.  The theorems are about the definitions
`Drivers/C07.lean` evaluates (`predict`, `predict2Tab`, `covAtTab`, `lpPredict1/2`).
They are short *because* the model stores the fit domain; that the implementation behaves
like this model (its value at a location is the model's value with its own coefficients and
the FIT domain, whatever else is requested) is what the correspondence checks.
-/
import FDAModel.Generated.SmoothFormulas
import FDAProofs.Lemmas.Predict
import FDAProofs.Lemmas.PredictBSpline
import FDAProofs.Lemmas.LocalPoly
import Mathlib.Tactic.NormNum
import Mathlib.Tactic.Linarith

namespace C07
open FDA FDA.PS FDA.LP Finset

/-! ### P-splines, one dimension -/

/-- The value listed for a query depends on that query only: entry `j` of the prediction is
the spline evaluated at `Q[j]`. -/
theorem value_at_location (f : Fit1) (Q : List ℚ) (j : ℕ) :
    (predict f Q)[j]? = Q[j]?.map (evalSpline f) := by
  unfold predict
  exact List.getElem?_map

/-- Clause *whichever other locations are requested*: if the same location occurs in two query
sets (in particular `Q' ⊆ Q`), both calls report the same value there. -/
theorem subquery (f : Fit1) (Q Q' : List ℚ) (i j : ℕ) (q : ℚ) (hi : Q'[i]? = some q) (hj : Q[j]? = some q) :
    (predict f Q')[i]? = (predict f Q)[j]? := by
  rw [value_at_location, value_at_location, hi, hj]

/-- A thinned grid / sub-range (any sub-list) yields the corresponding sub-list of values. -/
theorem sublist (f : Fit1) (Q Q' : List ℚ) (h : Q'.Sublist Q) : (predict f Q').Sublist (predict f Q) :=
  h.map _

/-- Clause *in whatever order*: permuting the query set permutes the values. -/
theorem permutation (f : Fit1) (Q Q' : List ℚ) (h : Q'.Perm Q) : (predict f Q').Perm (predict f Q) :=
  h.map _

/-- … with the same permutation: re-indexing the queries by `σ` re-indexes the values by `σ`. -/
theorem permutation_index (f : Fit1) (Q : List ℚ) (σ : List ℕ) (hσ : ∀ i ∈ σ, i < Q.length) :
    predict f (σ.map fun i => Q.getD i 0) = σ.map fun i => (predict f Q).getD i 0 := by
  unfold predict
  rw [List.map_map]
  apply List.map_congr_left
  intro i hi
  have h := hσ i hi
  simp [List.getD, h]

/-- A single query point. -/
theorem single_point (f : Fit1) (q : ℚ) : predict f [q] = [evalSpline f q] := rfl

/-- Concatenating query sets concatenates the answers (no interaction between the parts). -/
theorem append (f : Fit1) (A B : List ℚ) : predict f (A ++ B) = predict f A ++ predict f B := by
  unfold predict; exact List.map_append

/-- One value per requested location. -/
theorem length (f : Fit1) (Q : List ℚ) : (predict f Q).length = Q.length := by
  unfold predict; exact List.length_map _

/-- Clause *evaluating at the original sampling points returns the fitted curve*:
`predict(x) = y_hat = basisᵀ β`. -/
theorem at_sampling_points (f : Fit1) (x : List ℚ) : predict f x = fittedValues f x := by
  unfold predict fittedValues evalSpline
  apply List.map_congr_left
  intro t _
  apply Finset.sum_congr rfl
  intro j _
  ring

/-- The prediction is linear in the coefficients (so "smooth the mean" = "mean of the
coefficients, then evaluate", at every location separately). -/
theorem linear_in_coefficients (f : Fit1) (β₁ β₂ : ℕ → ℚ) (a b q : ℚ) :
    evalSpline { f with beta := fun j => a * β₁ j + b * β₂ j } q =
      a * evalSpline { f with beta := β₁ } q + b * evalSpline { f with beta := β₂ } q := by
  unfold evalSpline
  simp only
  rw [Finset.mul_sum, Finset.mul_sum, ← Finset.sum_add_distrib]
  apply Finset.sum_congr rfl
  intro j _
  ring

/-! ### Which coefficients a value depends on -/

/-- Local support, right side: at and beyond its end knot a basis function is exactly zero
(the code's mask). -/
theorem bspline_zero_right (dmin dmax : ℚ) (nseg deg j : ℕ) (q : ℚ)
    (h : knot dmin dmax nseg deg (j + deg + 1) ≤ q) : bspline dmin dmax nseg deg j q = 0 := by
  unfold bspline
  rw [if_neg (not_lt.mpr h)]

/-- Local support, left side: before its first knot every truncated power vanishes. -/
theorem bspline_zero_left (dmin dmax : ℚ) (nseg deg j : ℕ) (q : ℚ) (hdx : 0 ≤ dx dmin dmax nseg)
    (h : q < knot dmin dmax nseg deg j) : bspline dmin dmax nseg deg j q = 0 := by
  unfold bspline
  have hz : ∀ r, tpower q (knot dmin dmax nseg deg (j + r)) deg = 0 := by
    intro r
    unfold tpower
    have : knot dmin dmax nseg deg j ≤ knot dmin dmax nseg deg (j + r) := by
      unfold knot
      have : (0 : ℚ) ≤ (r : ℚ) * dx dmin dmax nseg := mul_nonneg (Nat.cast_nonneg r) hdx
      push_cast
      nlinarith
    rw [if_neg (by linarith)]
  simp [hz]

/-- Hence the value at `q` involves only the coefficients of the `deg + 1` basis functions
whose support contains `q`: changing any other coefficient changes nothing at `q`. -/
theorem value_uses_local_coefficients (f : Fit1) (β' : ℕ → ℚ) (q : ℚ) (hdx : 0 ≤ dx f.dmin f.dmax f.nseg)
    (h : ∀ j, j < nFun f.nseg f.deg → knot f.dmin f.dmax f.nseg f.deg j ≤ q →
      q < knot f.dmin f.dmax f.nseg f.deg (j + f.deg + 1) → f.beta j = β' j) :
    evalSpline f q = evalSpline { f with beta := β' } q := by
  unfold evalSpline
  apply Finset.sum_congr rfl
  intro j hj
  by_cases h1 : knot f.dmin f.dmax f.nseg f.deg j ≤ q
  · by_cases h2 : q < knot f.dmin f.dmax f.nseg f.deg (j + f.deg + 1)
    · simp only [h j (mem_range.mp hj) h1 h2]
    · rw [bspline_zero_right _ _ _ _ _ _ (not_lt.mp h2)]; simp
  · rw [bspline_zero_left _ _ _ _ _ _ hdx (not_le.mp h1)]; simp


/-! ### Tie to the shared B-spline model (`FDAModel/BSpline.lean`) and its consequences for predictions -/

/-- **Tie to the shared B-spline model.**  The basis functions `Predict.lean` evaluates are the ones of
`FDAModel/BSpline.lean` (`FDA.BSpline.bsplineBasis`, the step-by-step mirror of `_basis_bsplines` used by
C05/C18), for every degree, size and location. -/
theorem predict_basis_eq_bspline (f : Fit1) (hn : 0 < f.nseg) (hd : f.dmin < f.dmax) (j : ℕ)
    (hj : j < nFun f.nseg f.deg) (q : ℚ) :
    bspline f.dmin f.dmax f.nseg f.deg j q = FDA.BSpline.bsplineBasis f.dmin f.dmax (f.nseg + f.deg) f.deg q j :=
  bspline_eq_shared f.dmin f.dmax f.nseg f.deg hn hd j hj q

/-- Hence a prediction is the shared basis contracted with the coefficients. -/
theorem evalSpline_eq_shared (f : Fit1) (hn : 0 < f.nseg) (hd : f.dmin < f.dmax) (q : ℚ) :
    evalSpline f q = ∑ j ∈ range (f.nseg + f.deg),
      f.beta j * FDA.BSpline.bsplineBasis f.dmin f.dmax (f.nseg + f.deg) f.deg q j := by
  unfold evalSpline
  apply Finset.sum_congr rfl
  intro j hj
  rw [predict_basis_eq_bspline f hn hd j (mem_range.mp hj) q]

/-- Partition of unity ⇒ a fit with constant coefficients predicts that constant at every location of the
fit domain (both end points included), whatever else is requested — every degree `≥ 1`. -/
theorem predict_const (f : Fit1) (c : ℚ) (hn : 0 < f.nseg) (hd : f.dmin < f.dmax) (hdeg : 1 ≤ f.deg)
    (hβ : ∀ j, j < nFun f.nseg f.deg → f.beta j = c) (Q : List ℚ) (hQ : ∀ q ∈ Q, f.dmin ≤ q ∧ q ≤ f.dmax) :
    predict f Q = Q.map fun _ => c := by
  unfold predict
  apply List.map_congr_left
  intro q hq
  unfold evalSpline
  have : ∀ j ∈ range (nFun f.nseg f.deg), f.beta j * bspline f.dmin f.dmax f.nseg f.deg j q
      = c * bspline f.dmin f.dmax f.nseg f.deg j q := fun j hj => by rw [hβ j (mem_range.mp hj)]
  rw [Finset.sum_congr rfl this, ← Finset.mul_sum,
    bspline_sum_one f.dmin f.dmax f.nseg f.deg hn hd hdeg q (hQ q hq).1 (hQ q hq).2, mul_one]

/-- Non-negativity + partition of unity ⇒ a prediction inside the fit domain lies in the convex hull of the
locally active coefficients: if every coefficient whose basis function has `q` in its support
`[t_j, t_{j+deg+1})` lies in `[lo, hi]`, so does the predicted value. -/
theorem predict_in_hull_of_active (f : Fit1) (lo hi q : ℚ) (hn : 0 < f.nseg) (hd : f.dmin < f.dmax)
    (hdeg : 1 ≤ f.deg) (hq : f.dmin ≤ q ∧ q ≤ f.dmax)
    (hβ : ∀ j, j < nFun f.nseg f.deg → knot f.dmin f.dmax f.nseg f.deg j ≤ q →
      q < knot f.dmin f.dmax f.nseg f.deg (j + f.deg + 1) → lo ≤ f.beta j ∧ f.beta j ≤ hi) :
    lo ≤ evalSpline f q ∧ evalSpline f q ≤ hi := by
  have hsum := bspline_sum_one f.dmin f.dmax f.nseg f.deg hn hd hdeg q hq.1 hq.2
  have hdx : 0 ≤ dx f.dmin f.dmax f.nseg := (dx_pos' f.dmin f.dmax f.nseg hn hd).le
  have key : ∀ j ∈ range (nFun f.nseg f.deg),
      lo * bspline f.dmin f.dmax f.nseg f.deg j q ≤ f.beta j * bspline f.dmin f.dmax f.nseg f.deg j q ∧
      f.beta j * bspline f.dmin f.dmax f.nseg f.deg j q ≤ hi * bspline f.dmin f.dmax f.nseg f.deg j q := by
    intro j hj
    have hB := bspline_nonneg f.dmin f.dmax f.nseg f.deg hn hd j q
    by_cases h1 : knot f.dmin f.dmax f.nseg f.deg j ≤ q
    · by_cases h2 : q < knot f.dmin f.dmax f.nseg f.deg (j + f.deg + 1)
      · obtain ⟨a, b⟩ := hβ j (mem_range.mp hj) h1 h2
        exact ⟨mul_le_mul_of_nonneg_right a hB, mul_le_mul_of_nonneg_right b hB⟩
      · rw [bspline_zero_right _ _ _ _ _ _ (not_lt.mp h2)]; simp
    · rw [bspline_zero_left _ _ _ _ _ _ hdx (not_le.mp h1)]; simp
  unfold evalSpline
  constructor
  · calc lo = lo * ∑ j ∈ range (nFun f.nseg f.deg), bspline f.dmin f.dmax f.nseg f.deg j q := by rw [hsum, mul_one]
      _ = ∑ j ∈ range (nFun f.nseg f.deg), lo * bspline f.dmin f.dmax f.nseg f.deg j q := Finset.mul_sum _ _ _
      _ ≤ _ := Finset.sum_le_sum fun j hj => (key j hj).1
  · calc ∑ j ∈ range (nFun f.nseg f.deg), f.beta j * bspline f.dmin f.dmax f.nseg f.deg j q
        ≤ ∑ j ∈ range (nFun f.nseg f.deg), hi * bspline f.dmin f.dmax f.nseg f.deg j q :=
          Finset.sum_le_sum fun j hj => (key j hj).2
      _ = hi * ∑ j ∈ range (nFun f.nseg f.deg), bspline f.dmin f.dmax f.nseg f.deg j q := (Finset.mul_sum _ _ _).symm
      _ = hi := by rw [hsum, mul_one]

/-- In particular a prediction inside the domain never leaves the range of all the coefficients. -/
theorem predict_between_min_max (f : Fit1) (lo hi q : ℚ) (hn : 0 < f.nseg) (hd : f.dmin < f.dmax)
    (hdeg : 1 ≤ f.deg) (hq : f.dmin ≤ q ∧ q ≤ f.dmax)
    (hβ : ∀ j, j < nFun f.nseg f.deg → lo ≤ f.beta j ∧ f.beta j ≤ hi) :
    lo ≤ evalSpline f q ∧ evalSpline f q ≤ hi :=
  predict_in_hull_of_active f lo hi q hn hd hdeg hq fun j hj _ _ => hβ j hj

/-- The value at `q` depends on at most `degree + 1` coefficients: at most that many basis functions are
non-zero at any location. -/
theorem at_most_degree_plus_one_active (f : Fit1) (hn : 0 < f.nseg) (hd : f.dmin < f.dmax) (q : ℚ) :
    ((range (nFun f.nseg f.deg)).filter fun j => bspline f.dmin f.dmax f.nseg f.deg j q ≠ 0).card ≤ f.deg + 1 := by
  have hh := dx_pos' f.dmin f.dmax f.nseg hn hd
  set S := (range (nFun f.nseg f.deg)).filter fun j => bspline f.dmin f.dmax f.nseg f.deg j q ≠ 0 with hS
  by_cases hne : S.Nonempty
  · set j0 := S.min' hne with hj0
    have hsub : S ⊆ Finset.Icc j0 (j0 + f.deg) := by
      intro j hjS
      have hj0S : j0 ∈ S := Finset.min'_mem S hne
      have hjne := (Finset.mem_filter.mp hjS).2
      have hj0ne := (Finset.mem_filter.mp hj0S).2
      have h1 : knot f.dmin f.dmax f.nseg f.deg j ≤ q := by
        by_contra hc
        exact hjne (bspline_zero_left _ _ _ _ _ _ hh.le (not_le.mp hc))
      have h2 : q < knot f.dmin f.dmax f.nseg f.deg (j0 + f.deg + 1) := by
        by_contra hc
        exact hj0ne (bspline_zero_right _ _ _ _ _ _ (not_lt.mp hc))
      have hlt : knot f.dmin f.dmax f.nseg f.deg j < knot f.dmin f.dmax f.nseg f.deg (j0 + f.deg + 1) :=
        lt_of_le_of_lt h1 h2
      unfold knot at hlt
      have : (j : ℚ) < ((j0 + f.deg + 1 : ℕ) : ℚ) := by
        by_contra hc
        have hc := not_lt.mp hc
        nlinarith
      have hjlt : j < j0 + f.deg + 1 := by exact_mod_cast this
      rw [Finset.mem_Icc]
      exact ⟨Finset.min'_le S j hjS, by omega⟩
    calc S.card ≤ (Finset.Icc j0 (j0 + f.deg)).card := Finset.card_le_card hsub
      _ = f.deg + 1 := by simp; omega
  · rw [Finset.not_nonempty_iff_eq_empty.mp hne]; simp

/-! ### The repaired defect: a basis rebuilt on the range of the query points -/

/-- When the query set happens to span exactly the fit domain, rebuilding the basis on the
query range is harmless (why predicting on the fitting grid never showed the defect). -/
theorem rebuilt_eq_of_same_range (f : Fit1) (Q : List ℚ) (hlo : Q.min? = some f.dmin)
    (hhi : Q.max? = some f.dmax) : predictRebuilt f Q = predict f Q := by
  unfold predictRebuilt predict
  rw [hlo, hhi]

/-- … but in general it violates the property: the same location gets different values in
`Q' ⊂ Q` (a concrete spline on `[0,1]`, `Q = [0, 1/4, 1/2, 1]`, `Q' = [1/4, 1/2]`). -/
theorem rebuilt_counterexample :
    ∃ (f : Fit1) (Q Q' : List ℚ), Q'.Sublist Q ∧
      (predictRebuilt f Q)[1]? ≠ (predictRebuilt f Q')[0]? ∧ Q[1]? = Q'[0]? := by
  refine ⟨{ dmin := 0, dmax := 1, nseg := 2, deg := 1, beta := fun j => (j : ℚ) * j },
    [0, 1 / 4, 1 / 2, 1], [1 / 4, 1 / 2], ?_, ?_, rfl⟩
  · decide +kernel
  · decide +kernel

/-! ### P-splines, product query sets -/

/-- Clause *product grid*: the value at `(q₁, q₂)` is the tensor spline there, independent of
the other rows and columns requested. -/
theorem product_grid (f : Fit2) (Q1 Q2 : List ℚ) (i j : ℕ) (hi : i < Q1.length) (hj : j < Q2.length) :
    ((predict2 f Q1 Q2).getD i []).getD j 0 = evalSpline2 f (Q1.getD i 0) (Q2.getD j 0) := by
  unfold predict2
  simp [List.getD, hi, hj]

/-- Rows do not interact … -/
theorem product_grid_rows (f : Fit2) (A B Q2 : List ℚ) :
    predict2 f (A ++ B) Q2 = predict2 f A Q2 ++ predict2 f B Q2 := by
  unfold predict2; exact List.map_append

/-- … nor do columns. -/
theorem product_grid_cols (f : Fit2) (Q1 A B : List ℚ) :
    predict2 f Q1 (A ++ B) = List.zipWith (· ++ ·) (predict2 f Q1 A) (predict2 f Q1 B) := by
  unfold predict2
  induction Q1 with
  | nil => rfl
  | cons q Q ih => simp [List.map_append]

/-- Sub-grids: sub-lists of rows and of columns give the sub-matrix. -/
theorem product_subgrid (f : Fit2) (Q1 Q1' Q2 : List ℚ) (h1 : Q1'.Sublist Q1) :
    (predict2 f Q1' Q2).Sublist (predict2 f Q1 Q2) :=
  h1.map _

/-- The array arithmetic of the code (two rotated H-transforms) computes the tensor spline. -/
theorem glam_refinement (f : Fit2) (Q1 Q2 : List ℚ) : predict2Glam f Q1 Q2 = predict2 f Q1 Q2 :=
  predict2Glam_eq f Q1 Q2

/-- What the driver evaluates (basis values tabulated once per query point) is `predict2`. -/
theorem driver_refinement (f : Fit2) (Q1 Q2 : List ℚ) : predict2Tab f Q1 Q2 = predict2 f Q1 Q2 :=
  predict2Tab_eq f Q1 Q2

/-! ### Entry points of the data classes -/

/-- `smooth(points)`: observation `k` of the result is the prediction of the fit of observation
`k`, hence `subquery`, `permutation`, … hold per observation. -/
theorem smooth_entry (fits : List Fit1) (P : List ℚ) (k : ℕ) :
    (smoothAt fits P)[k]? = fits[k]?.map fun f => predict f P := by
  unfold smoothAt
  exact List.getElem?_map

/-- … in particular the value of observation `k` at a location is the same in both calls. -/
theorem smooth_entry_subquery (fits : List Fit1) (P P' : List ℚ) (k i j : ℕ) (q : ℚ)
    (hi : P'[i]? = some q) (hj : P[j]? = some q) :
    ((smoothAt fits P')[k]?.bind (·[i]?)) = ((smoothAt fits P)[k]?.bind (·[j]?)) := by
  rw [smooth_entry, smooth_entry]
  cases fits[k]? with
  | none => rfl
  | some f => exact subquery f P P' i j q hi hj

/-- `covariance(points)`: the entry for `(p_i, p_j)` is the symmetrised surface at that pair
only — the transposition over the query grid does not make it depend on the other points. -/
theorem cov_entry (f : Fit2) (P : List ℚ) (i j : ℕ) (hi : i < P.length) (hj : j < P.length) :
    ((covAt f P).getD i []).getD j 0 =
      (evalSpline2 f (P.getD i 0) (P.getD j 0) + evalSpline2 f (P.getD j 0) (P.getD i 0)) / 2 := by
  unfold covAt
  simp [List.getD, hi, hj]

/-- The reported covariance is symmetric. -/
theorem cov_symmetric (f : Fit2) (P : List ℚ) (i j : ℕ) (hi : i < P.length) (hj : j < P.length) :
    ((covAt f P).getD i []).getD j 0 = ((covAt f P).getD j []).getD i 0 := by
  rw [cov_entry f P i j hi hj, cov_entry f P j i hj hi, add_comm]

/-- What the driver evaluates for the covariance is `covAt`. -/
theorem cov_driver_refinement (f : Fit2) (P : List ℚ) : covAtTab f P = covAt f P := covAtTab_eq f P

/-! ### Local polynomials -/

/-- The value at a query is the single-point local estimate, whatever the other queries. -/
theorem lp_value_at_location (k : CKernel) (h : ℚ) (d n : ℕ) (x y : ℕ → ℚ) (Q : List ℚ) (j : ℕ) :
    (lpPredict1 k h d n x y Q)[j]? = Q[j]?.map (lpEstimate1 k h d n x y) := by
  unfold lpPredict1
  exact List.getElem?_map

/-- Local polynomials: the same location gets the same value in `Q' ⊆ Q` and in `Q`. -/
theorem lp_subquery (k : CKernel) (h : ℚ) (d n : ℕ) (x y : ℕ → ℚ) (Q Q' : List ℚ) (i j : ℕ) (q : ℚ)
    (hi : Q'[i]? = some q) (hj : Q[j]? = some q) :
    (lpPredict1 k h d n x y Q')[i]? = (lpPredict1 k h d n x y Q)[j]? := by
  rw [lp_value_at_location, lp_value_at_location, hi, hj]

/-- Local polynomials: permuting the queries permutes the values. -/
theorem lp_permutation (k : CKernel) (h : ℚ) (d n : ℕ) (x y : ℕ → ℚ) (Q Q' : List ℚ) (hp : Q'.Perm Q) :
    (lpPredict1 k h d n x y Q').Perm (lpPredict1 k h d n x y Q) :=
  hp.map _

/-- Local polynomials: a single query point. -/
theorem lp_single_point (k : CKernel) (h : ℚ) (d n : ℕ) (x y : ℕ → ℚ) (q : ℚ) :
    lpPredict1 k h d n x y [q] = [lpEstimate1 k h d n x y q] := rfl

/-- Two-dimensional scattered queries. -/
theorem lp_subquery_2d (bisq : Bool) (h : ℚ) (d n : ℕ) (x1 x2 y : ℕ → ℚ) (Q Q' : List (ℚ × ℚ)) (i j : ℕ)
    (q : ℚ × ℚ) (hi : Q'[i]? = some q) (hj : Q[j]? = some q) :
    (lpPredict2 bisq h d n x1 x2 y Q')[i]? = (lpPredict2 bisq h d n x1 x2 y Q)[j]? := by
  unfold lpPredict2
  rw [List.getElem?_map, List.getElem?_map, hi, hj]

/-- Evaluating the local polynomial smoother at the sampling points is the fit there: the
data enter the estimate at a sampling point exactly as at any other location (no special case). -/
theorem lp_at_sampling_points (k : CKernel) (h : ℚ) (d n : ℕ) (x y : ℕ → ℚ) (i : ℕ) (Q : List ℚ) (j : ℕ)
    (hj : Q[j]? = some (x i)) :
    (lpPredict1 k h d n x y Q)[j]? = some (lpEstimate1 k h d n x y (x i)) := by
  rw [lp_value_at_location, hj]; rfl

/-! ### Tie of the code path to the current source (translator `harness/smooth_translate.py`, regenerated on every run) -/

section SourceTie
open FDA.NpLP FDA.Generated.Smooth
set_option linter.unusedSimpArgs false
set_option linter.unusedTactic false
set_option linter.unreachableTactic false
/-- **The request-independence logic as the source has it.**  Whether `IrregularFunctionalData.mean` uses its large-sample
approximation depends on `approx` and on the number of pooled observations only — NOT on the number of requested points
(the generated switch takes that number as an argument; the theorem says it ignores it); the pooled observations are
grouped by their coordinates; `points=None` stands for the data's own sampling points in every entry point. -/
theorem request_logic_src_eq_model :
    (∀ approx nPooled nRequested, approxSwitchSrc approx nPooled nRequested = approxSwitch approx nPooled) ∧
    approxGroupedBySrc = "coordinates" ∧ pointsDefaultSrc = pointsDefault := by
  refine ⟨?_, by decide, by decide⟩
  intro a n r
  cases a <;> simp [approxSwitchSrc, approxSwitch] <;> omega

/-- **The symmetrisation of the covariance as the source has it** is the one `covAt` applies: entry `(i, j)` is
`symmetriseSrc` of the surface at `(p_i, p_j)` and at `(p_j, p_i)`. -/
theorem symmetrise_src_eq_model (f : Fit2) (P : List ℚ) (i j : ℕ) (hi : i < P.length) (hj : j < P.length) :
    (∀ c ct, symmetriseSrc c ct = symmetrise c ct) ∧
    ((covAt f P).getD i []).getD j 0 =
      symmetriseSrc (evalSpline2 f (P.getD i 0) (P.getD j 0)) (evalSpline2 f (P.getD j 0) (P.getD i 0)) := by
  have h : ∀ c ct, symmetriseSrc c ct = symmetrise c ct := by
    intro c ct
    simp only [symmetriseSrc, symmetrise] <;> first | rfl | ring1 | (field_simp; ring1)
  refine ⟨h, ?_⟩
  rw [cov_entry f P i j hi hj, h]; rfl

/-- **`PSplines.predict` (1-D) as the source has it**: coefficients contracted with the basis values at the location,
the basis laid on the domain stored by `fit`. -/
theorem ps_predict_src_eq_model (f : Fit1) (q : ℚ) :
    evalSpline f q = psPredict1Src (nFun f.nseg f.deg) f.beta (fun j => bspline f.dmin f.dmax f.nseg f.deg j q) ∧
    psPredictUsesStoredDomainSrc = true := by
  refine ⟨?_, rfl⟩
  simp only [evalSpline, psPredict1Src, dotVV] <;>
    first | rfl | (apply Finset.sum_congr rfl; intro _ _; ring1)

end SourceTie

/-! ### Non-vacuity -/

example : ([1 / 4, 1 / 2] : List ℚ)[0]? = some (1 / 4) ∧ ([0, 1 / 4, 1 / 2, 1] : List ℚ)[1]? = some (1 / 4) := by
  constructor <;> rfl
example : ([1 / 4, 1 / 2] : List ℚ).Sublist [0, 1 / 4, 1 / 2, 1] := by decide +kernel
example : ([1 / 2, 0, 1 / 4] : List ℚ).Perm [0, 1 / 4, 1 / 2] := by decide +kernel
/-- A concrete spline on `[0,1]` (2 segments, degree 1, β = (0,1,4)) and its values. -/
example : predict { dmin := 0, dmax := 1, nseg := 2, deg := 1, beta := fun j => (j : ℚ) * j } [0, 1 / 4, 1 / 2, 1]
    = [0, 1 / 2, 1, 4] := by decide +kernel
example : ([0, 1 / 4, 1 / 2, 1] : List ℚ).min? = some 0 ∧ ([0, 1 / 4, 1 / 2, 1] : List ℚ).max? = some 1 := by
  constructor <;> decide +kernel
/-- `bspline_zero_left`, `value_uses_local_coefficients`: a regular fit domain has `dx > 0`. -/
example : (0 : ℚ) ≤ dx 0 1 4 := by norm_num [dx]
/-- `predict_const`, `predict_in_hull_of_active`, `predict_basis_eq_bspline`: a regular fit (4 segments, cubic,
`[0,1]`) with constant coefficients, evaluated at both end points and inside. -/
example : predict { dmin := 0, dmax := 1, nseg := 4, deg := 3, beta := fun _ => 5 / 2 } [0, 1 / 3, 1] = [5 / 2, 5 / 2, 5 / 2] := by
  decide +kernel
example : (0 : ℕ) < 4 ∧ (0 : ℚ) < 1 ∧ 1 ≤ 3 := by norm_num
example : ∀ i ∈ [2, 0, 1], i < ([0, 1 / 4, 1 / 2] : List ℚ).length := by decide

end C07
