/-
C13 — sub-selection and concatenation are inverse; subsets are first-class datasets.

Only property theorems and non-vacuity examples; helper lemmas are in
`FDAProofs/Lemmas/{Slice,Select,Dict}.lean`.  The model is `FDA.Slice` (Python index
semantics) and `FDA.Select` (selection / iteration / concatenation over lists of rows and
label-keyed dictionaries), the functions `Drivers/C13.lean` evaluates.
-/
import FDAProofs.Lemmas.Select
import FDAModel.Generated.ConcatLabels

namespace C13
open FDA.Dict FDA.Slice FDA.Select

variable {α β : Type}

/-! ## Index semantics -/

/-- `slice_indices`: every position selected by `[start:stop:step]` on `n` observations exists. -/
theorem slice_in_range {n : Nat} {a b c : Option Int} {ps : List Nat} (h : slicePos n a b c = some ps) :
    ∀ p ∈ ps, p < n := slicePos_lt h

example : slicePos 5 (some (-2)) none (some (-2)) = some [3, 1] := by decide

/-- `slice_indices`: the selection is Python's `range(s, e, st)`: the arithmetic progression from
`s` with step `st`, exactly as long as it stays before `e` (positive step). -/
theorem slice_range_semantics_pos {s e st : Int} (hst : 0 < st) (x : Int) :
    x ∈ rangeList s e st ↔ ∃ i : Nat, x = s + (i : Int) * st ∧ x < e := by
  rw [mem_rangeList]
  constructor
  · rintro ⟨i, hi, rfl⟩; exact ⟨i, rfl, (lt_rangeLen_pos hst i).1 hi⟩
  · rintro ⟨i, rfl, hlt⟩; exact ⟨i, (lt_rangeLen_pos hst i).2 hlt, rfl⟩

/-- The same for a negative step (stays after `e`). -/
theorem slice_range_semantics_neg {s e st : Int} (hst : st < 0) (x : Int) :
    x ∈ rangeList s e st ↔ ∃ i : Nat, x = s + (i : Int) * st ∧ e < x := by
  rw [mem_rangeList]
  constructor
  · rintro ⟨i, hi, rfl⟩; exact ⟨i, rfl, (lt_rangeLen_neg hst i).1 hi⟩
  · rintro ⟨i, rfl, hlt⟩; exact ⟨i, (lt_rangeLen_neg hst i).2 hlt, rfl⟩

/-- … in order: the `i`-th selected element is `s + i·st`. -/
theorem slice_range_order {s e st : Int} {i : Nat} (h : i < (rangeList s e st).length) :
    (rangeList s e st)[i] = s + (i : Int) * st := getElem_rangeList h

/-- A zero step is rejected (`ValueError`), nothing else is. -/
theorem slice_step_zero (n : Nat) (a b c : Option Int) : slicePos n a b c = none ↔ c = some 0 := by
  unfold slicePos
  rw [Option.map_eq_none_iff]
  exact sliceIndices_none_iff n a b c

/-- `[:]` selects every observation, in order. -/
theorem slice_all (n : Nat) : slicePos n none none none = some (List.range n) := by
  have h : sliceIndices n none none none = some (0, (n : Int), 1) := by
    simp [sliceIndices]
  unfold slicePos
  rw [h]
  simp only [Option.map_some, rangeList, rangeLen_all, List.map_map]
  congr 1
  conv_rhs => rw [← List.map_id (List.range n)]
  apply List.map_congr_left
  intro i _
  simp

/-- `[::-1]` selects every observation, in reverse order. -/
theorem slice_reversed (n : Nat) : slicePos n none none (some (-1)) = some (List.range n).reverse := by
  have h : sliceIndices n none none (some (-1)) = some ((n : Int) - 1, -1, -1) := by
    simp [sliceIndices]
  unfold slicePos
  rw [h]
  simp only [Option.map_some, rangeList, rangeLen_rev, List.map_map]
  congr 1
  apply List.ext_getElem
  · simp
  · intro i h1 h2
    simp only [List.getElem_map, List.getElem_range, Function.comp, List.getElem_reverse, List.length_range]
    simp at h1
    omega

/-- A slice selects no observation twice. -/
theorem slice_no_repeat {n : Nat} {a b c : Option Int} {ps : List Nat} (h : slicePos n a b c = some ps) :
    ps.Nodup := slicePos_nodup h

/-- Integer, slice and array indices only ever resolve to positions that exist (negative
integers count from the end; out of range is an `IndexError`, never a wrap-around). -/
theorem index_in_range {n : Nat} {ix : Index} {ps : List Nat} (h : (resolve n ix).positions = some ps) :
    ∀ p ∈ ps, p < n := resolve_positions_lt h

example : resolve 4 (.int (-1)) = .one 3 ∧ resolve 4 (.int 4) = .indexError ∧ resolve 4 (.arr [0, -4, 2]) = .many [0, 0, 2] := by
  decide

/-! ## Selection holds exactly the selected observations -/

/-- `select_content` (dense / basis data): the result lists, in order and without loss, the
rows at the selected positions. -/
theorem select_content_dense {rows r : List α} {ix : Index} (h : denseGet rows ix = .ok r) :
    ∃ ps, (resolve rows.length ix).positions = some ps ∧ r = pick rows ps ∧
      r.map some = ps.map (fun p => rows[p]?) ∧ r.length = ps.length := by
  unfold denseGet at h
  cases hr : resolve rows.length ix with
  | one p =>
    rw [hr] at h; cases h
    have hp : ∀ q ∈ [p], q < rows.length := resolve_positions_lt (by rw [hr]; rfl)
    exact ⟨[p], rfl, rfl, pick_map_some hp, length_pick hp⟩
  | many ps =>
    rw [hr] at h; cases h
    have hp : ∀ q ∈ ps, q < rows.length := resolve_positions_lt (by rw [hr]; rfl)
    exact ⟨ps, rfl, rfl, pick_map_some hp, length_pick hp⟩
  | indexError => rw [hr] at h; cases h
  | valueError => rw [hr] at h; cases h

/-- Irregular data: whenever the index resolves, selection succeeds and is the dictionary built
from the entries at the selected positions — *positions*, whatever the labels are, so that
chained selection (`fdata[1:3][0]`) works; labels are retained. -/
theorem select_irreg_ok {d : D α} (hd : NodupKeys d) {ix : Index} {ps : List Nat}
    (h : (resolve d.length ix).positions = some ps) : irregGet d ix = .ok (ofList (pick d ps)) := by
  have hlt : ∀ p ∈ ps, p < d.length := resolve_positions_lt h
  have hk : (keys d).length = d.length := by simp [keys]
  unfold irregGet selectLabels
  cases hr : resolve d.length ix with
  | one p =>
    rw [hr] at h; simp only [Sel.positions, Option.some.injEq] at h; subst h
    simp only [restrict, lookupAll_pick hd hlt]
  | many qs =>
    rw [hr] at h; simp only [Sel.positions, Option.some.injEq] at h; subst h
    simp only [restrict, lookupAll_pick hd hlt]
  | indexError => rw [hr] at h; cases h
  | valueError => rw [hr] at h; cases h

/-- `select_content` (irregular data): for an index without repeated positions (every integer,
every slice, every array of distinct entries) the result holds exactly the selected
observations, in order, each under its own label and with its own sampling points. -/
theorem select_content_irreg {d : D α} (hd : NodupKeys d) {ix : Index} {ps : List Nat}
    (h : (resolve d.length ix).positions = some ps) (hn : ps.Nodup) :
    irregGet d ix = .ok (pick d ps) ∧ (pick d ps).map some = ps.map (fun p => d[p]?) := by
  have hlt : ∀ p ∈ ps, p < d.length := resolve_positions_lt h
  have hk : NodupKeys (pick d ps) := by
    unfold NodupKeys
    rw [keys_pick]
    exact nodup_pick hd hn (by simpa [keys] using hlt)
  rw [select_irreg_ok hd h, ofList_of_nodup hk]
  exact ⟨rfl, pick_map_some hlt⟩

example : irregGet [((4 : Int), "a"), (7, "b"), (9, "c")] (.slice (some 1) none none) = .ok [(7, "b"), (9, "c")] := by
  decide

/-- An index that does not resolve is rejected with the class NumPy / `list` use. -/
theorem select_rejects {d : D α} {ix : Index} (h : (resolve d.length ix).positions = none) :
    irregGet d ix = .error .indexError ∨ irregGet d ix = .error .valueError := by
  unfold irregGet selectLabels
  cases hr : resolve d.length ix with
  | one p => rw [hr] at h; cases h
  | many ps => rw [hr] at h; cases h
  | indexError => exact Or.inl rfl
  | valueError => exact Or.inr rfl

/-- REFINEMENT of the Python-level slice model to plain `List` operations: selecting
`rows[start:stop:step]` is `filterMap` of the rows over the arithmetic progression `s + i·st`,
`i < len(range(s, e, st))`, where `(s, e, st) = slice.indices(n)`. -/
theorem slice_refines_list {rows r : List α} {a b c : Option Int} (h : denseGet rows (.slice a b c) = .ok r) :
    ∃ s e st, sliceIndices rows.length a b c = some (s, e, st) ∧
      r = (List.range (rangeLen s e st)).filterMap fun (i : Nat) => rows[(s + (i : Int) * st).toNat]? := by
  simp only [denseGet, resolve] at h
  cases hs : slicePos rows.length a b c with
  | none => rw [hs] at h; cases h
  | some ps =>
    rw [hs] at h
    cases h
    unfold slicePos at hs
    cases hi : sliceIndices rows.length a b c with
    | none => rw [hi] at hs; cases hs
    | some t =>
      obtain ⟨s, e, st⟩ := t
      rw [hi] at hs
      simp only [Option.map_some, Option.some.injEq] at hs
      subst hs
      refine ⟨s, e, st, rfl, ?_⟩
      unfold rangeList
      rw [List.map_map]
      exact pick_eq_filterMap_range rows _ _

/-- … and for a unit step it is `drop` / `take`: `rows[s:e] = (rows.drop s).take (e − s)` for
`0 ≤ s ≤ e ≤ n`. -/
theorem slice_unit_step_drop_take (rows : List α) (s e : Nat) (hse : s ≤ e) (he : e ≤ rows.length) :
    denseGet rows (.slice (some s) (some e) none) = .ok ((rows.drop s).take (e - s)) := by
  have hi : sliceIndices rows.length (some (s : Int)) (some (e : Int)) none = some ((s : Int), (e : Int), 1) := by
    unfold sliceIndices
    simp only [Option.getD_none]
    have h1 : ¬ ((s : Int) < 0) := by omega
    have h2 : ¬ ((e : Int) < 0) := by omega
    by_cases hs : (s : Int) ≥ (rows.length : Int)
    · have : s = rows.length := by omega
      have : e = rows.length := by omega
      subst_vars
      simp
    · by_cases he' : (e : Int) ≥ (rows.length : Int)
      · have : e = rows.length := by omega
        subst this
        simp [h1, hs]
      · simp [h1, h2, hs, he']
  have hlen : rangeLen (s : Int) (e : Int) 1 = e - s := by
    unfold rangeLen
    simp only [show (1 : Int) > 0 by decide, if_true, Int.ediv_one]
    split <;> omega
  simp only [denseGet, resolve, slicePos, hi, Option.map_some, rangeList, hlen, List.map_map]
  have : ((List.range (e - s)).map (Int.toNat ∘ fun (i : Nat) => (s : Int) + (i : Int) * 1)) = (List.range (e - s)).map (s + ·) := by
    apply List.map_congr_left
    intro i _
    simp only [Function.comp]
    omega
  rw [this, pick_consecutive rows s (e - s) (by omega)]

example : denseGet [10, 11, 12, 13, 14] (.slice (some 1) (some 4) none) = .ok [11, 12, 13] := by decide

/-- `rows[::-1]` is the reversed list (dense / basis data; every component of a multivariate object). -/
theorem dense_get_reversed (rows : List α) :
    denseGet rows (.slice none none (some (-1))) = .ok rows.reverse := by
  simp only [denseGet, resolve, slice_reversed, pick_reverse, pick_range]

/-- Boolean masks (NumPy semantics on the first axis): the mask needs one entry per observation
(`IndexError` otherwise, except that NumPy lets an empty mask through) and keeps exactly the rows whose entry is `True`, in order — the same
rows as the integer index array of the `True` positions. -/
theorem mask_select {rows : List α} {mask : List Bool} :
    (mask ≠ [] → mask.length ≠ rows.length → denseGetMask rows mask = .error .indexError) ∧
    (mask.length = rows.length →
      denseGetMask rows mask = .ok ((rows.zip mask).filterMap fun p => if p.2 then some p.1 else none) ∧
      denseGetMask rows mask = denseGet rows (.arr ((maskPos mask).map fun (p : Nat) => (p : Int)))) := by
  constructor
  · intro hm h
    have : mask.isEmpty = false := by cases mask <;> simp_all
    simp [denseGetMask, h, this]
  · intro h
    have h1 : denseGetMask rows mask = .ok (pick rows (maskPos mask)) := by
      cases mask with
      | nil => simp [denseGetMask, maskPos, maskPosFrom, pick]
      | cons b t => simp [denseGetMask, h]
    refine ⟨?_, ?_⟩
    · rw [h1]
      have := maskPosFrom_pick 0 [] rows mask rfl h
      simp only [List.nil_append] at this
      unfold maskPos; rw [this]
    · rw [h1]
      have hlt : ∀ p ∈ maskPos mask, p < rows.length := by
        intro p hp
        have := maskPosFrom_lt 0 mask p hp
        omega
      have harr : arrPos rows.length ((maskPos mask).map fun (p : Nat) => (p : Int)) = some (maskPos mask) := by
        unfold arrPos
        generalize maskPos mask = ps at hlt
        induction ps with
        | nil => rfl
        | cons p ps ih =>
          rw [List.map_cons, List.mapM_cons, ih (fun q hq => hlt q (List.mem_cons_of_mem _ hq))]
          have hp := hlt p List.mem_cons_self
          have : intPos rows.length (p : Int) = some p := by
            unfold intPos
            have h0 : (0 : Int) ≤ (p : Int) := Int.natCast_nonneg p
            have h1 : (p : Int) < (rows.length : Int) := by exact_mod_cast hp
            simp [h0, h1]
          rw [this]; rfl
      simp only [denseGet, resolve, harr]

example : denseGetMask [10, 11, 12] [true, false, true] = .ok [10, 12] := by decide

/-- Multivariate data: the index is applied to every component (same positions everywhere) and the
result is only returned when all components still have the same number of observations. -/
theorem multi_get_components {cs gs : List (Comp α)} {ix : Index} (h : multiGet cs ix = .ok gs) :
    gs.length = cs.length ∧
      (∀ i (h1 : i < cs.length) (h2 : i < gs.length), (cs[i]).get ix = .ok gs[i]) ∧
      allEqNat (gs.map Comp.nObs) = true := by
  unfold multiGet at h
  cases hg : getComps ix cs with
  | error e => rw [hg] at h; cases h
  | ok gs' =>
    rw [hg] at h
    simp only at h
    split at h
    · rename_i hn
      cases h
      refine ⟨?_, ?_, hn⟩
      · clear hn
        induction cs generalizing gs with
        | nil => simp only [getComps] at hg; cases hg; rfl
        | cons c cs ih =>
          simp only [getComps] at hg
          cases hc : c.get ix with
          | error e => rw [hc] at hg; cases hg
          | ok g =>
            rw [hc] at hg
            cases hr : getComps ix cs with
            | error e => rw [hr] at hg; cases hg
            | ok r => rw [hr] at hg; cases hg; simp [ih hr]
      · clear hn
        induction cs generalizing gs with
        | nil => intro i h1; simp at h1
        | cons c cs ih =>
          simp only [getComps] at hg
          cases hc : c.get ix with
          | error e => rw [hc] at hg; cases hg
          | ok g =>
            rw [hc] at hg
            cases hr : getComps ix cs with
            | error e => rw [hr] at hg; cases hg
            | ok r =>
              rw [hr] at hg; cases hg
              intro i h1 h2
              cases i with
              | zero => simpa using hc
              | succ i => simpa using ih hr i (by simpa using h1) (by simpa using h2)
    · cases h

/-! ## Iteration -/

/-- Iterating yields the observations one by one, in order (irregular data). -/
theorem iter_content (d : D α) : ((iterIrreg d).map vals).flatten = vals d := iterIrregFrom_vals 0 d

/-- … as many pieces as observations. -/
theorem iter_length (d : D α) : (iterIrreg d).length = d.length := iterIrregFrom_length 0 d

/-- The piece at position `i` is keyed by `i`: the look-up `obs.values[idx]` that every
analysis method performs inside `for idx, obs in enumerate(self)` always succeeds. -/
theorem iter_lookup_total (d : D α) (i : Nat) (hi : i < d.length) :
    ∃ h : i < (iterIrreg d).length, get? ((iterIrreg d)[i]) (i : Int) = some (d[i]).2 := by
  have h : i < (iterIrreg d).length := by rw [iter_length]; exact hi
  refine ⟨h, ?_⟩
  unfold iterIrreg at h ⊢
  rw [iterIrregFrom_getElem 0 d i h hi]
  simp [get?_cons]

/-- Iteration is a function of the dataset alone (no cursor shared with the dataset): two
overlapping iterations — `zip(fd, fd)`, nested loops, two live iterators — see the same pieces. -/
theorem iter_overlapping (d : D α) (rows : List α) :
    (iterIrreg d).zip (iterIrreg d) = (iterIrreg d).map (fun p => (p, p)) ∧
      (iterDense rows).zip (iterDense rows) = (iterDense rows).map (fun p => (p, p)) := by
  have zip_self : ∀ {γ : Type} (l : List γ), l.zip l = l.map fun p => (p, p) := by
    intro γ l
    induction l with
    | nil => rfl
    | cons a t ih => simp [ih]
  exact ⟨zip_self _, zip_self _⟩

/-- Dense data: iteration followed by concatenation is the identity. -/
theorem iter_concat_dense (rows : List α) : concatDense (iterDense rows) = rows := by
  unfold concatDense iterDense
  induction rows with
  | nil => rfl
  | cons r t ih => simp only [List.map_cons, List.flatten_cons, ih]; rfl

/-! ## Concatenation (what the property asks for: `concatSpec`) -/

/-- `concat_pieces`: consecutive pieces of any partition of a dataset, concatenated in order, give
back the observations in order labelled `0 … n-1` — i.e. the original, whenever that was labelled
like a freshly built dataset. -/
theorem concat_pieces (d : D α) (pieces : List (D α)) (h : pieces.flatten = d) :
    concatSpec pieces = relabel d ∧ (Canonical d → concatSpec pieces = d) := by
  have h1 : concatSpec pieces = relabel d := by
    unfold concatSpec relabel
    congr 1
    subst h
    show (pieces.map vals).flatten = vals pieces.flatten
    unfold vals
    rw [List.map_flatten]
  exact ⟨h1, fun hc => by rw [h1]; exact (canonical_eq_fresh hc).symm⟩

example : concatSpec [[((0 : Int), "a")], [(1, "b"), (2, "c")]] = [(0, "a"), (1, "b"), (2, "c")] := by decide

/-- The result of a concatenation is labelled like a freshly built dataset. -/
theorem concat_canonical (pieces : List (D α)) : Canonical (concatSpec pieces) := canonical_fresh _

/-- The content of a concatenation is the contents of the pieces, in order. -/
theorem concat_content (pieces : List (D α)) : vals (concatSpec pieces) = (pieces.map vals).flatten :=
  vals_fresh _

/-- `concat_assoc`: every grouping gives the same dataset — concatenating groups first and then
the results equals concatenating everything at once. -/
theorem concat_assoc (groups : List (List (D α))) :
    concatSpec (groups.map concatSpec) = concatSpec groups.flatten := by
  unfold concatSpec
  congr 1
  induction groups with
  | nil => rfl
  | cons g gs ih =>
    simp only [List.map_cons, List.flatten_cons, List.map_append, List.flatten_append]
    rw [← ih]
    simp only [List.map_map, Function.comp_def, vals_fresh]

/-- `iter_concat`: iterating and concatenating the pieces gives back the dataset (relabelled
`0 … n-1`; identical when it was labelled that way). -/
theorem iter_concat (d : D α) : concatSpec (iterIrreg d) = relabel d := by
  unfold concatSpec relabel
  rw [iter_content]

/-- Dense pieces: concatenating the pieces of a partition gives back the rows. -/
theorem concat_pieces_dense (rows : List α) (pieces : List (List α)) (h : pieces.flatten = rows) :
    concatDense pieces = rows := h

/-! ## Concatenation as coded (`concatImpl`): partial result, refinement, counterexamples -/

/-- What the property demands of the code: its concatenation is the one above. -/
def full_statement : Prop := ∀ pieces : List (D Nat), concatImpl pieces = concatSpec pieces

/-- Refinement: on pieces that are each labelled `0 … k-1` the coded label arithmetic
(shift by the current length) produces exactly the labelling of a fresh dataset. -/
theorem concat_pieces_partial (pieces : List (D α)) (h : ∀ d ∈ pieces, Canonical d) :
    concatImpl pieces = concatSpec pieces := by
  have := concatImpl_fold_canonical ([] : List α) pieces h
  simpa [concatImpl, concatSpec, fresh, freshFrom] using this

example : concatImpl [[((0 : Int), "a"), (1, "b")], [(0, "c")]] = [(0, "a"), (1, "b"), (2, "c")] := by decide

/-- On canonically labelled pieces — any number of them — the coded concatenation loses nothing:
the number of observations of the result is the sum over the pieces. -/
theorem concat_nobs_partial (pieces : List (D α)) (h : ∀ d ∈ pieces, Canonical d) :
    (concatImpl pieces).length = (pieces.map List.length).sum := by
  rw [concat_pieces_partial pieces h]
  unfold concatSpec fresh
  rw [freshFrom_length, List.length_flatten, List.map_map]
  congr 1
  apply List.map_congr_left
  intro d _
  simp [vals]

example : (concatImpl [[((0 : Int), "a")], [(0, "b"), (1, "c")], [(0, "d")], [(0, "e")]]).length = 5 := by decide

/-- The label arithmetic read from the source by the translator (`Generated/ConcatLabels.lean`,
re-generated from `argvals.py` / `values.py` on every run) is the hand-written `concatImpl`: the
model of the open finding `C13-concat-labels` is re-checked against what the source says now. -/
theorem concat_source_tie (pieces : List (D α)) :
    FDA.Generated.ConcatLabels.concatArgvals pieces = concatImpl pieces ∧
      FDA.Generated.ConcatLabels.concatValues pieces = concatImpl pieces :=
  ⟨rfl, rfl⟩

/-- … hence, on such pieces, every grouping agrees for the code as well. -/
theorem concat_assoc_partial (groups : List (List (D α))) (h : ∀ g ∈ groups, ∀ d ∈ g, Canonical d) :
    concatImpl (groups.map concatImpl) = concatImpl groups.flatten := by
  have h1 : groups.map concatImpl = groups.map concatSpec := by
    apply List.map_congr_left
    intro g hg
    exact concat_pieces_partial g (h g hg)
  rw [h1, concat_pieces_partial _ (by
    intro d hd
    obtain ⟨g, _, rfl⟩ := List.mem_map.1 hd
    exact concat_canonical g)]
  rw [concat_assoc, concat_pieces_partial _ (by
    intro d hd
    obtain ⟨g, hg, hdg⟩ := List.mem_flatten.1 hd
    exact h g hg d hdg)]

/-- The code violates the clause: two single observations labelled `0` and `1` (what iteration,
or `fdata[0]` and `fdata[1]`, produce) come out labelled `0` and `2`. -/
theorem counterexample : ¬ full_statement := by
  intro h
  have := h [[(0, 10)], [(1, 11)]]
  revert this
  decide

/-- Worse: with pieces labelled `3, 1` (e.g. `fdata[np.array([3, 1])]`) the shifted labels
collide and an observation is lost: 4 observations in, 3 out. -/
theorem counterexample_loss :
    (concatImpl [[((3 : Int), 10), (1, 11)], [(3, 12), (1, 13)]]).length = 3 ∧
      concatImpl [[((3 : Int), 10), (1, 11)], [(3, 12), (1, 13)]] = [(3, 13), (1, 11), (5, 12)] := by
  decide

/-! ## Subsets are first-class -/

/-- `first_class`: a per-observation computation done through the iteration protocol
(`for idx, obs in enumerate(self): … obs.values[idx] …` — `smooth`, `center`, `noise_variance`,
`normalize`, `standardize`, `to_basis`, `to_long`) never fails and is a function of the contents
in order only, whatever the labels. -/
theorem first_class_per_obs (f : Nat → α → β) (d : D α) :
    perObs f d = some ((vals d).zipIdx.map fun p => f p.2 p.1) := by
  unfold perObs enumLookup iterIrreg
  suffices ∀ o, ((iterIrregFrom o d).zipIdx o).mapM (fun p => (get? p.1 (p.2 : Int)).map (f p.2))
      = some (((vals d).zipIdx o).map fun p => f p.2 p.1) from this 0
  induction d with
  | nil => intro o; rfl
  | cons p t ih =>
    intro o
    obtain ⟨k, e⟩ := p
    simp only [iterIrregFrom, List.zipIdx_cons, List.mapM_cons, get?_cons, if_true, Option.map_some, vals,
      List.map_cons]
    have := ih (o + 1)
    simp only [vals] at this
    rw [this]
    rfl

/-- … hence equal on a subset and on a freshly built twin with the same content. -/
theorem first_class_twin (f : Nat → α → β) (d : D α) : perObs f d = perObs f (relabel d) := by
  rw [first_class_per_obs, first_class_per_obs]
  unfold relabel
  rw [vals_fresh]

/-- Results that are datasets again (`center`, `normalize`, `standardize`) are keyed by the
labels of the dataset they were computed on, and hold the per-observation results in order. -/
theorem first_class_keyed (f : Nat → α → β) (d : D α) :
    ∃ r, perObsKeyed f d = some r ∧ keys r = keys d ∧ vals r = (vals d).zipIdx.map fun p => f p.2 p.1 := by
  unfold perObsKeyed
  rw [first_class_per_obs]
  refine ⟨_, rfl, ?_, ?_⟩
  · unfold keys
    rw [List.map_fst_zip]
    simp [vals]
  · unfold vals
    rw [List.map_snd_zip]
    simp [keys]

/-- Selecting from a subset and from its twin gives the same observations: indexing is by
position, not by label. -/
theorem first_class_getitem {d : D α} (hd : NodupKeys d) {ix : Index} {ps : List Nat}
    (h : (resolve d.length ix).positions = some ps) (hn : ps.Nodup) :
    ∃ r r', irregGet d ix = .ok r ∧ irregGet (relabel d) ix = .ok r' ∧ vals r = vals r' ∧
      vals r = pick (vals d) ps := by
  have hlen : (relabel d).length = d.length := by
    unfold relabel fresh; rw [freshFrom_length]; simp [vals]
  have hd' : NodupKeys (relabel d) := nodupKeys_freshFrom 0 _
  have h' : (resolve (relabel d).length ix).positions = some ps := by rw [hlen]; exact h
  refine ⟨pick d ps, pick (relabel d) ps, (select_content_irreg hd h hn).1, (select_content_irreg hd' h' hn).1, ?_, ?_⟩
  · unfold vals
    rw [← pick_map, ← pick_map]
    show pick (vals d) ps = pick (vals (relabel d)) ps
    unfold relabel; rw [vals_fresh]
  · unfold vals; rw [← pick_map]

/-- Concatenation depends on the contents of the pieces only (labels of the pieces are irrelevant). -/
theorem first_class_concat (pieces : List (D α)) : concatSpec pieces = concatSpec (pieces.map relabel) := by
  unfold concatSpec
  congr 2
  rw [List.map_map]
  apply List.map_congr_left
  intro d _
  simp only [Function.comp, relabel, vals_fresh]

/-- `first_class` for concatenations: a concatenation of freshly built pieces (as coded) *is* the
freshly built dataset of the contents in order, so every per-observation analysis gives on it what
it gives on that fresh dataset, and selecting from it selects by position from the contents. -/
theorem first_class_concat_impl (f : Nat → α → β) (pieces : List (D α)) (h : ∀ d ∈ pieces, Canonical d) :
    concatImpl pieces = fresh (pieces.map vals).flatten ∧
      Canonical (concatImpl pieces) ∧
      perObs f (concatImpl pieces) = some (((pieces.map vals).flatten).zipIdx.map fun p => f p.2 p.1) := by
  have h1 : concatImpl pieces = fresh (pieces.map vals).flatten := concat_pieces_partial pieces h
  refine ⟨h1, by rw [h1]; exact canonical_fresh _, ?_⟩
  rw [first_class_per_obs, h1, vals_fresh]

/-! ## The pristine tree (documentation of the defects the repair `c13b` removes) -/

/-- Before the repair the iterator keyed each piece by its *label*: on a subset labelled `1, 2`
the look-up `obs.values[idx]` of every analysis method missed (`KeyError`). -/
theorem old_iteration_keyerror :
    enumLookup (fun _ (x : Nat) => x) (iterIrregOld [((1 : Int), 10), (2, 11)]) = none ∧
      enumLookup (fun _ (x : Nat) => x) (iterIrreg [((1 : Int), 10), (2, 11)]) = some [10, 11] := by
  decide

/-- Before the repair chained selection looked labels up by position: `fdata[1:3][0]` was a `KeyError`. -/
theorem old_chained_selection :
    irregGetOld [((1 : Int), 10), (2, 11)] (.int 0) = .error .keyError ∧
      irregGet [((1 : Int), 10), (2, 11)] (.int 0) = .ok [(1, 10)] := by
  decide

end C13
