/-
C03 — scores decorrelate the data and `inverse_transform` undoes `transform`.

About the definitions of `FDAModel/FPCA.lean` the driver executes (`transformImpl`,
`scoresW`/`scoresTrapz`/`scoresTrapz2`, `scoresInnPro`, `inverseTransform`), for
every number of curves / grid points / components and over every field (`ℝ` included,
where `r = √weight` exists).  2-D data are stored row-major with the product
quadrature weights: the flat-weights theorems apply verbatim
(`scores_2d_eq_weights` joins the nested-`np.trapz` procedure to them).

Open finding: with `normalize=True`, `UFPCA.transform(data)` rescales the *uncentred*
data (`transformImpl`); the property asks for centre-then-rescale (`transformSpec`).
`transform_defect` gives the exact difference, `transform_training_partial` the domain
where they agree, `counterexample` a concrete witness.
Only property theorems and non-vacuity examples live here.
-/
import FDAProofs.Props.C02

namespace C03
open FDA FDA.FPCA Finset

section field
variable {F : Type} [Field F]

/-- Training scores of the covariance route are uncorrelated with variance the matching
eigenvalue: `(1/(N−1)) Σ_i s_ik s_il = λ_l·δ_kl` (`δ` = Euclidean product of the solver
vectors `k`, `l`: `1` if `k = l`, `0` otherwise). -/
theorem scores_cov (N m : ℕ) (s w : ℕ → F) (Xc U : ℕ → ℕ → F) (k l : ℕ) (lam δ : F)
    (hN : (N : F) - 1 ≠ 0)
    (hs : ∀ j < m, s j * s j = w j) (hpos : ∀ j < m, s j ≠ 0)
    (hu : ∀ i < m, ∑ j ∈ range m, symMat s (covMat N Xc) i j * U l j = lam * U l i)
    (hU : ∑ j ∈ range m, U k j * U l j = δ) :
    (∑ i ∈ range N, scoresW m w Xc (backTransform s U) i k * scoresW m w Xc (backTransform s U) i l)
      / ((N : F) - 1) = lam * δ := by
  set Phi := backTransform s U with hPhi
  have heq := C02.eigen_equation m s w (covMat N Xc) U l lam hs hpos hu
  have horth := C02.orthonormal_w m s w U hs hpos k l δ hU
  -- Σ_i s_ik s_il = (N−1) Σ_j w_j φ_k(j) ⟨C_j, φ_l⟩_w
  have h1 : ∑ i ∈ range N, scoresW m w Xc Phi i k * scoresW m w Xc Phi i l
      = ((N : F) - 1) * ∑ j ∈ range m, w j * (Phi k j * innerWF m w (covMat N Xc j) (Phi l)) := by
    unfold scoresW innerWF covMat
    simp_rw [Finset.sum_mul_sum]
    rw [Finset.sum_comm, Finset.mul_sum]
    apply Finset.sum_congr rfl; intro j _
    rw [Finset.sum_comm]
    simp_rw [Finset.mul_sum]
    apply Finset.sum_congr rfl; intro j' _
    rw [Finset.sum_div, Finset.sum_mul, Finset.mul_sum, Finset.mul_sum, Finset.mul_sum, Finset.mul_sum]
    apply Finset.sum_congr rfl; intro i _
    field_simp
  rw [h1]
  have h2 : ∑ j ∈ range m, w j * (Phi k j * innerWF m w (covMat N Xc j) (Phi l))
      = lam * innerWF m w (Phi k) (Phi l) := by
    unfold innerWF at horth ⊢
    rw [Finset.mul_sum]
    apply Finset.sum_congr rfl; intro j hj
    have := heq j (mem_range.1 hj)
    unfold innerWF at this
    rw [this]; ring
  rw [h2, horth]
  field_simp

/-- Scores of column-centred data sum to zero over the observations. -/
theorem scores_mean_zero (N m : ℕ) (w : ℕ → F) (Xc Phi : ℕ → ℕ → F) (k : ℕ)
    (hc : ∀ j < m, ∑ i ∈ range N, Xc i j = 0) :
    ∑ i ∈ range N, scoresW m w Xc Phi i k = 0 := by
  unfold scoresW innerWF
  rw [Finset.sum_comm]
  apply Finset.sum_eq_zero
  intro j hj
  rw [← Finset.mul_sum, ← Finset.sum_mul, hc j (mem_range.1 hj)]
  ring

/-- Gram-based scores (`InnPro`): `(1/N) Σ_i s_ik s_il = (q_k q_l / N)·(v_k·v_l)`; with
orthonormal Gram eigenvectors and `q_k² = N λ_k` this is `λ_k` for `k = l` and `0` otherwise. -/
theorem scores_gram (N : ℕ) (q : ℕ → F) (V : ℕ → ℕ → F) (k l : ℕ) (δ : F)
    (hV : ∑ i ∈ range N, V k i * V l i = δ) :
    (∑ i ∈ range N, scoresInnPro q V i k * scoresInnPro q V i l) / (N : F) = q k * q l / (N : F) * δ := by
  unfold scoresInnPro
  rw [← hV, Finset.mul_sum, Finset.sum_div]
  apply Finset.sum_congr rfl; intro i _; ring

theorem scores_gram_variance (N : ℕ) (hN : (N : F) ≠ 0) (q : ℕ → F) (V : ℕ → ℕ → F) (lam : ℕ → F) (k : ℕ)
    (hV : ∑ i ∈ range N, V k i * V k i = 1) (hq : q k * q k = (N : F) * lam k) :
    (∑ i ∈ range N, scoresInnPro q V i k * scoresInnPro q V i k) / (N : F) = lam k := by
  rw [scores_gram N q V k k 1 hV, hq]
  field_simp

/-- On the Gram route the two natural scores coincide when no noise variance is
subtracted: `⟨Xc_i, φ_k⟩_w = √l_k · v_k(i)` (and `√(N λ_k) = √l_k`). -/
theorem innpro_eq_numint (m N : ℕ) (w : ℕ → F) (Xc V : ℕ → ℕ → F) (r l' : ℕ → F) (k : ℕ)
    (hr : r k * r k = l' k) (hrk : r k ≠ 0)
    (heig : ∀ i < N, ∑ i' ∈ range N, gramShift (gramW m w Xc) 0 i i' * V k i' = l' k * V k i) :
    ∀ i < N, scoresW m w Xc (gramEigfun N Xc V r) i k = scoresInnPro r V i k := by
  intro i hi
  unfold scoresW scoresInnPro
  rw [gram_proj m N w Xc V r l' 0 k heig i hi, add_zero, ← hr]
  field_simp

/-- The order-independent half of "explicit training data = stored training data":
without normalisation `transform(data)` projects exactly what `fit` stored. -/
theorem transform_training_partial (mean : ℕ → F) (r : F) (X : ℕ → ℕ → F) :
    transformImpl false mean r X = transformSpec false mean r X := rfl

/-- The exact defect of the coded `transform` under normalisation: its scores exceed the
scores of the stored training data by `⟨mean, φ_k⟩_w / √weight`. -/
theorem transform_defect (m : ℕ) (w mean : ℕ → F) (r : F) (X Phi : ℕ → ℕ → F) (i k : ℕ) :
    scoresW m w (transformImpl true mean r X) Phi i k - scoresW m w (transformSpec true mean r X) Phi i k
      = innerWF m w mean (Phi k) / r := by
  unfold scoresW transformImpl transformSpec innerWF rescaleBy centerBy
  simp only [if_true]
  rw [← Finset.sum_sub_distrib, Finset.sum_div]
  apply Finset.sum_congr rfl; intro j _
  ring

/-- Hence with normalisation the coded `transform` agrees with the stored training scores
exactly when the mean is `w`-orthogonal to the retained eigenfunctions (e.g. centred input). -/
theorem transform_training_of_mean_orthogonal (m : ℕ) (w mean : ℕ → F) (r : F) (X Phi : ℕ → ℕ → F) (i k : ℕ)
    (h : innerWF m w mean (Phi k) = 0) :
    scoresW m w (transformImpl true mean r X) Phi i k = scoresW m w (transformSpec true mean r X) Phi i k := by
  have := transform_defect m w mean r X Phi i k
  rw [h, zero_div] at this
  exact sub_eq_zero.1 this

/-- `inverse_transform` is affine in the scores: mean plus score-weighted eigenfunctions. -/
theorem affine (K : ℕ) (mean : ℕ → F) (r a b : F) (S S' Phi : ℕ → ℕ → F) (i j : ℕ) :
    inverseTransform K mean r (fun i k => a * S i k + b * S' i k) Phi i j
      = a * inverseTransform K mean r S Phi i j + b * inverseTransform K mean r S' Phi i j
        + (1 - a - b) * mean j := by
  unfold inverseTransform
  have : ∑ k ∈ range K, (a * S i k + b * S' i k) * Phi k j
      = a * ∑ k ∈ range K, S i k * Phi k j + b * ∑ k ∈ range K, S' i k * Phi k j := by
    rw [Finset.mul_sum, Finset.mul_sum, ← Finset.sum_add_distrib]
    apply Finset.sum_congr rfl; intro k _; ring
  rw [this]; ring

/-- Zero scores are mapped to the mean. -/
theorem inverse_zero (K : ℕ) (mean : ℕ → F) (r : F) (Phi : ℕ → ℕ → F) (i j : ℕ) :
    inverseTransform K mean r (fun _ _ => 0) Phi i j = mean j := by
  unfold inverseTransform; simp

/-- Scores of a curve lying in the span of `w`-orthonormal eigenfunctions are its coordinates. -/
theorem scores_of_span (m K : ℕ) (w : ℕ → F) (Z Phi : ℕ → ℕ → F) (c : ℕ → F) (i : ℕ)
    (horth : ∀ k < K, ∀ l < K, innerWF m w (Phi k) (Phi l) = if k = l then 1 else 0)
    (hspan : ∀ j < m, Z i j = ∑ k ∈ range K, c k * Phi k j) :
    ∀ l < K, scoresW m w Z Phi i l = c l := by
  classical
  intro l hl
  unfold scoresW
  have : innerWF m w (Z i) (Phi l) = ∑ k ∈ range K, c k * innerWF m w (Phi k) (Phi l) := by
    unfold innerWF
    simp_rw [Finset.mul_sum]
    rw [Finset.sum_comm]
    apply Finset.sum_congr rfl; intro j hj
    rw [hspan j (mem_range.1 hj), Finset.sum_mul, Finset.mul_sum]
    apply Finset.sum_congr rfl; intro k _; ring
  rw [this]
  have : ∀ k ∈ range K, c k * innerWF m w (Phi k) (Phi l) = if k = l then c k else 0 := by
    intro k hk
    rw [horth k (mem_range.1 hk) l hl]
    split <;> simp
  rw [Finset.sum_congr rfl this, Finset.sum_ite_eq', if_pos (mem_range.2 hl)]

/-- Round trip, either setting of `normalize`: if the retained eigenfunctions are
`w`-orthonormal and the centred (and, with normalisation, rescaled) curve lies in their span,
`inverse_transform(transform(X)) = X` on the grid.  (`r = √weight ≠ 0`; without
normalisation the code uses `weights = 1`.) -/
theorem roundtrip (normalize : Bool) (m K : ℕ) (w mean : ℕ → F) (r : F) (X Phi : ℕ → ℕ → F) (c : ℕ → F) (i : ℕ)
    (hr : r ≠ 0) (hr1 : normalize = false → r = 1)
    (horth : ∀ k < K, ∀ l < K, innerWF m w (Phi k) (Phi l) = if k = l then 1 else 0)
    (hspan : ∀ j < m, transformSpec normalize mean r X i j = ∑ k ∈ range K, c k * Phi k j) :
    ∀ j < m, inverseTransform K mean r (scoresW m w (transformSpec normalize mean r X) Phi) Phi i j = X i j := by
  intro j hj
  have hsc := scores_of_span m K w (transformSpec normalize mean r X) Phi c i horth hspan
  unfold inverseTransform
  rw [Finset.sum_congr rfl (fun k hk => by rw [hsc k (mem_range.1 hk)]), ← hspan j hj]
  cases normalize with
  | true =>
    simp only [transformSpec, if_true, rescaleBy, centerBy]
    field_simp
    ring
  | false =>
    rw [hr1 rfl]
    simp [transformSpec, centerBy]

/-- In general the reconstruction is the `w`-orthogonal projection on the retained
components: the residual of the centred curve is `w`-orthogonal to every retained eigenfunction. -/
theorem projection (m K : ℕ) (w : ℕ → F) (Z Phi : ℕ → ℕ → F) (i : ℕ)
    (horth : ∀ k < K, ∀ l < K, innerWF m w (Phi k) (Phi l) = if k = l then 1 else 0) :
    ∀ l < K, innerWF m w (fun j => Z i j - ∑ k ∈ range K, scoresW m w Z Phi i k * Phi k j) (Phi l) = 0 := by
  classical
  intro l hl
  have h1 : innerWF m w (fun j => Z i j - ∑ k ∈ range K, scoresW m w Z Phi i k * Phi k j) (Phi l)
      = innerWF m w (Z i) (Phi l) - ∑ k ∈ range K, scoresW m w Z Phi i k * innerWF m w (Phi k) (Phi l) := by
    unfold innerWF
    simp_rw [Finset.mul_sum]
    rw [Finset.sum_comm, ← Finset.sum_sub_distrib]
    apply Finset.sum_congr rfl; intro j _
    rw [sub_mul, mul_sub, Finset.sum_mul, Finset.mul_sum]
    congr 1
    apply Finset.sum_congr rfl; intro k _; ring
  rw [h1]
  have : ∀ k ∈ range K, scoresW m w Z Phi i k * innerWF m w (Phi k) (Phi l)
      = if k = l then scoresW m w Z Phi i k else 0 := by
    intro k hk
    rw [horth k (mem_range.1 hk) l hl]
    split <;> simp
  rw [Finset.sum_congr rfl this, Finset.sum_ite_eq', if_pos (mem_range.2 hl)]
  unfold scoresW
  ring

/-- Round trip for the Gram-based scores (the natural scores of the inner-product method): if the
Gram eigenvectors form a complete orthonormal system and the dropped ones carry nothing
(`Xcᵀ v_k = 0` for `k ≥ K`, i.e. the retained components span the centred curves), then
`inverse_transform(InnPro scores) = ρ·Xc + mean` — the training curves — whatever noise variance
was subtracted and although the eigenfunctions need not have unit norm. -/
theorem roundtrip_innpro (m N K : ℕ) (hK : K ≤ N) (mean : ℕ → F) (ρ : F) (Xc V : ℕ → ℕ → F) (r : ℕ → F)
    (hrows : ∀ a < N, ∀ b < N, ∑ i ∈ range N, V a i * V b i = if a = b then 1 else 0)
    (hr : ∀ k < K, r k ≠ 0)
    (hdrop : ∀ k, K ≤ k → k < N → ∀ j < m, ∑ i ∈ range N, Xc i j * V k i = 0) :
    ∀ i < N, ∀ j < m,
      inverseTransform K mean ρ (scoresInnPro r V) (gramEigfun N Xc V r) i j = ρ * Xc i j + mean j := by
  classical
  intro i hi j hj
  have hcols := cols_orthonormal_of_rows N V hrows
  unfold inverseTransform
  congr 2
  have hterm : ∀ k ∈ range K, scoresInnPro r V i k * gramEigfun N Xc V r k j
      = V k i * ∑ i' ∈ range N, Xc i' j * V k i' := by
    intro k hk
    unfold scoresInnPro gramEigfun
    have := hr k (mem_range.1 hk)
    field_simp
  rw [Finset.sum_congr rfl hterm]
  have hext : ∑ k ∈ range K, V k i * ∑ i' ∈ range N, Xc i' j * V k i'
      = ∑ k ∈ range N, V k i * ∑ i' ∈ range N, Xc i' j * V k i' := by
    rw [← Finset.sum_range_add_sum_Ico _ hK]
    have : ∑ k ∈ Ico K N, V k i * ∑ i' ∈ range N, Xc i' j * V k i' = 0 := by
      apply Finset.sum_eq_zero
      intro k hk
      rw [Finset.mem_Ico] at hk
      rw [hdrop k hk.1 hk.2 j hj, mul_zero]
    rw [this, add_zero]
  rw [hext]
  calc ∑ k ∈ range N, V k i * ∑ i' ∈ range N, Xc i' j * V k i'
      = ∑ i' ∈ range N, Xc i' j * ∑ k ∈ range N, V k i * V k i' := by
        simp_rw [Finset.mul_sum]
        rw [Finset.sum_comm]
        apply Finset.sum_congr rfl; intro i' _
        apply Finset.sum_congr rfl; intro k _
        ring
    _ = ∑ i' ∈ range N, Xc i' j * (if i = i' then 1 else 0) := by
        apply Finset.sum_congr rfl; intro i' hi'
        rw [hcols i hi i' (mem_range.1 hi')]
    _ = Xc i j := by
        simp [Finset.sum_ite_eq, hi]

/-- PACE scores are linear in the projected data: so (without normalisation, where `transform(data)`
projects exactly the stored training data) they agree on explicit and stored training curves, and
under normalisation they inherit the defect of `transform_defect`. -/
theorem pace_linear (m : ℕ) (lam : ℕ → F) (Y Y' Phi : ℕ → ℕ → F) (a b : F) (i k : ℕ) :
    scoresPace m lam (fun i j => a * Y i j + b * Y' i j) Phi i k
      = a * scoresPace m lam Y Phi i k + b * scoresPace m lam Y' Phi i k := by
  unfold scoresPace
  have : ∑ j ∈ range m, (a * Y i j + b * Y' i j) * Phi k j
      = a * ∑ j ∈ range m, Y i j * Phi k j + b * ∑ j ∈ range m, Y' i j * Phi k j := by
    rw [Finset.mul_sum, Finset.mul_sum, ← Finset.sum_add_distrib]
    apply Finset.sum_congr rfl; intro j _; ring
  rw [this]; ring

/-- PACE, shrinkage: if `φ_k` is an eigenvector of `Σ = C + σ²I` for `μ ≠ 0` and `Y` is the certified
solution of `Y Σ = Z` (what the driver re-checks), the PACE score is the plain projection of the data on
`φ_k` shrunk by `λ_k/μ`. -/
theorem pace_shrinkage (m : ℕ) (lam : ℕ → F) (C Y Z Phi : ℕ → ℕ → F) (σ2 μ : F) (i k : ℕ) (hμ : μ ≠ 0)
    (hcert : ∀ j < m, ∑ a ∈ range m, Y i a * paceSigma C σ2 a j = Z i j)
    (heig : ∀ a < m, ∑ j ∈ range m, paceSigma C σ2 a j * Phi k j = μ * Phi k a) :
    scoresPace m lam Y Phi i k = lam k / μ * ∑ j ∈ range m, Z i j * Phi k j := by
  have h : ∑ j ∈ range m, Z i j * Phi k j = μ * ∑ a ∈ range m, Y i a * Phi k a := by
    calc ∑ j ∈ range m, Z i j * Phi k j
        = ∑ j ∈ range m, ∑ a ∈ range m, Y i a * paceSigma C σ2 a j * Phi k j := by
          apply Finset.sum_congr rfl; intro j hj
          rw [← hcert j (mem_range.1 hj), Finset.sum_mul]
      _ = ∑ a ∈ range m, Y i a * ∑ j ∈ range m, paceSigma C σ2 a j * Phi k j := by
          rw [Finset.sum_comm]
          apply Finset.sum_congr rfl; intro a _
          rw [Finset.mul_sum]
          apply Finset.sum_congr rfl; intro j _; ring
      _ = μ * ∑ a ∈ range m, Y i a * Phi k a := by
          rw [Finset.mul_sum]
          apply Finset.sum_congr rfl; intro a ha
          rw [heig a (mem_range.1 ha)]; ring
  unfold scoresPace
  rw [h]
  field_simp

/-- With the reported (Mercer) covariance and components that are orthonormal for the plain dot product
PACE uses, `φ_l` is an eigenvector of `Σ` for `λ_l + σ²`: the classical shrinkage factor
`λ_l/(λ_l + σ²)` (→ 1 as `σ² → 0`: PACE then is the projection). -/
theorem pace_shrinkage_orthonormal (m K : ℕ) (lam : ℕ → F) (Y Z Phi : ℕ → ℕ → F) (σ2 : F) (i l : ℕ)
    (hl : l < K) (hμ : lam l + σ2 ≠ 0)
    (horth : ∀ k < K, ∑ j ∈ range m, Phi k j * Phi l j = if k = l then 1 else 0)
    (hcert : ∀ j < m, ∑ a ∈ range m, Y i a * paceSigma (mercer K lam Phi) σ2 a j = Z i j) :
    scoresPace m lam Y Phi i l = lam l / (lam l + σ2) * ∑ j ∈ range m, Z i j * Phi l j := by
  classical
  apply pace_shrinkage m lam (mercer K lam Phi) Y Z Phi σ2 (lam l + σ2) i l hμ hcert
  intro a ha
  unfold paceSigma mercer
  simp_rw [add_mul, Finset.sum_add_distrib, ite_mul, zero_mul]
  rw [Finset.sum_ite_eq, if_pos (mem_range.2 ha)]
  have : ∑ j ∈ range m, (∑ k ∈ range K, Phi k a * lam k * Phi k j) * Phi l j = lam l * Phi l a := by
    simp_rw [Finset.sum_mul]
    rw [Finset.sum_comm]
    have : ∀ k ∈ range K, ∑ j ∈ range m, Phi k a * lam k * Phi k j * Phi l j
        = if k = l then Phi k a * lam k else 0 := by
      intro k hk
      have := horth k (mem_range.1 hk)
      calc ∑ j ∈ range m, Phi k a * lam k * Phi k j * Phi l j
          = Phi k a * lam k * ∑ j ∈ range m, Phi k j * Phi l j := by
            rw [Finset.mul_sum]; apply Finset.sum_congr rfl; intro j _; ring
        _ = if k = l then Phi k a * lam k else 0 := by rw [this]; split <;> simp
    rw [Finset.sum_congr rfl this, Finset.sum_ite_eq', if_pos (mem_range.2 hl)]
    ring
  rw [this]

/-- PACE under normalisation inherits exactly the defect of `transform_defect`: if `Y_S` is the certified
solution for the specified projected data and `Y_m` the one for `mean/√weight`, then `Y_S + Y_m` is the
certified solution for the data the code projects — so (by `pace_linear`) the PACE scores of
`transform(data)` exceed those of `transform(None)` by the PACE scores of `mean/√weight`. -/
theorem pace_defect (m : ℕ) (mean : ℕ → F) (r : F) (X Sg YS : ℕ → ℕ → F) (Ym : ℕ → F) (i : ℕ)
    (hS : ∀ j < m, ∑ a ∈ range m, YS i a * Sg a j = transformSpec true mean r X i j)
    (hm : ∀ j < m, ∑ a ∈ range m, Ym a * Sg a j = mean j / r) :
    ∀ j < m, ∑ a ∈ range m, (YS i a + Ym a) * Sg a j = transformImpl true mean r X i j := by
  intro j hj
  simp_rw [add_mul, Finset.sum_add_distrib]
  rw [hS j hj, hm j hj]
  unfold transformImpl transformSpec rescaleBy centerBy
  simp only [if_true]
  ring

/-- MFPCA (`MFPCA.transform(method="NumInt")` = sum of the univariate scores): if the multivariate
eigenfunctions are orthonormal in the product space and the multivariate projected curve lies in their span
(same coefficients `c_k` in every component), its multivariate scores are those coefficients. -/
theorem mfpca_scores_of_span (P K : ℕ) (m : ℕ → ℕ) (w : ℕ → ℕ → F) (Z Psi : ℕ → ℕ → ℕ → F) (c : ℕ → F) (i : ℕ)
    (horth : ∀ k < K, ∀ l < K,
      innerMultiW P m w (fun p => Psi p k) (fun p => Psi p l) = if k = l then 1 else 0)
    (hspan : ∀ p < P, ∀ j < m p, Z p i j = ∑ k ∈ range K, c k * Psi p k j) :
    ∀ l < K, scoresMulti P m w Z Psi i l = c l := by
  classical
  intro l hl
  unfold scoresMulti scoresW
  have h1 : ∀ p ∈ range P, innerWF (m p) (w p) (Z p i) (Psi p l)
      = ∑ k ∈ range K, c k * innerWF (m p) (w p) (Psi p k) (Psi p l) := by
    intro p hp
    unfold innerWF
    simp_rw [Finset.mul_sum]
    rw [Finset.sum_comm]
    apply Finset.sum_congr rfl; intro j hj
    rw [hspan p (mem_range.1 hp) j (mem_range.1 hj), Finset.sum_mul, Finset.mul_sum]
    apply Finset.sum_congr rfl; intro k _; ring
  rw [Finset.sum_congr rfl h1, Finset.sum_comm]
  have h2 : ∀ k ∈ range K, ∑ p ∈ range P, c k * innerWF (m p) (w p) (Psi p k) (Psi p l)
      = if k = l then c k else 0 := by
    intro k hk
    rw [← Finset.mul_sum]
    have := horth k (mem_range.1 hk) l hl
    unfold innerMultiW at this
    rw [this]; split <;> simp
  rw [Finset.sum_congr rfl h2, Finset.sum_ite_eq', if_pos (mem_range.2 hl)]

/-- … and `MFPCA.inverse_transform` (componentwise `√weight_p·(scores Ψ_p) + mean_p`) then reproduces every
component of the training curve: the multivariate round trip, any number of components, any weights. -/
theorem mfpca_roundtrip (P K : ℕ) (m : ℕ → ℕ) (w : ℕ → ℕ → F) (Z Psi : ℕ → ℕ → ℕ → F) (mean : ℕ → ℕ → F)
    (ρ : ℕ → F) (c : ℕ → F) (i : ℕ)
    (horth : ∀ k < K, ∀ l < K,
      innerMultiW P m w (fun p => Psi p k) (fun p => Psi p l) = if k = l then 1 else 0)
    (hspan : ∀ p < P, ∀ j < m p, Z p i j = ∑ k ∈ range K, c k * Psi p k j) :
    ∀ p < P, ∀ j < m p,
      inverseTransform K (mean p) (ρ p) (scoresMulti P m w Z Psi) (Psi p) i j = ρ p * Z p i j + mean p j := by
  intro p hp j hj
  have hsc := mfpca_scores_of_span P K m w Z Psi c i horth hspan
  unfold inverseTransform
  rw [Finset.sum_congr rfl (fun k hk => by rw [hsc k (mem_range.1 hk)]), ← hspan p hp j hj]

/-- Why the multiplier of `inverse_transform` must be `√weight` (the repaired line): a
multiplier `ρ` reproduces a non-zero rescaled value `z` only if `ρ = √weight`. -/
theorem inverse_multiplier_unique (ρ r z μ : F) (hz : z ≠ 0) (h : ρ * z + μ = r * z + μ) : ρ = r := by
  have : (ρ - r) * z = 0 := by linear_combination h
  rcases mul_eq_zero.1 this with h0 | h0
  · exact sub_eq_zero.1 h0
  · exact absurd h0 hz

/-- The property's clause for the code as it is (both settings of `normalize`). -/
def full_statement : Prop :=
  ∀ (normalize : Bool) (m : ℕ) (w mean : ℕ → ℚ) (r : ℚ) (X Phi : ℕ → ℕ → ℚ) (i k : ℕ), r ≠ 0 →
    scoresW m w (transformImpl normalize mean r X) Phi i k = scoresW m w (transformSpec normalize mean r X) Phi i k

/-- The code violates it with `normalize=True`: one curve `(1,0)` on two points with unit
weights, mean `(1,0)`, weight `1`, eigenfunction `(1,0)`: stored score `0`, recomputed score `1`. -/
theorem counterexample : ¬ full_statement := by
  intro h
  have := h true 2 (fun _ => 1) (fun j => if j = 0 then 1 else 0) 1
    (fun _ j => if j = 0 then 1 else 0) (fun _ j => if j = 0 then 1 else 0) 0 0 one_ne_zero
  simp [scoresW, innerWF, transformImpl, transformSpec, rescaleBy, centerBy] at this

end field

/-! ### The procedures the code runs (`np.trapz`, nested for 2-D) in weights form -/

/-- 1-D numerical-integration scores are the weighted sums the theorems are about. -/
theorem scores_1d_eq_weights (m : ℕ) (hm : 2 ≤ m) (t : ℕ → ℚ) (Z Phi : ℕ → ℕ → ℚ) (i k : ℕ) :
    scoresTrapz m t Z Phi i k = scoresW m (trapzW m t) Z Phi i k :=
  scoresTrapz_eq_scoresW m hm t Z Phi i k

/-- 2-D (row-major data, product quadrature): same statement with the product weights. -/
theorem scores_2d_eq_weights (m₁ m₂ : ℕ) (h₁ : 2 ≤ m₁) (h₂ : 2 ≤ m₂) (t₁ t₂ : ℕ → ℚ)
    (Z Phi : ℕ → ℕ → ℚ) (i k : ℕ) :
    scoresTrapz2 m₁ m₂ t₁ t₂ Z Phi i k = scoresW (m₁ * m₂) (trapzW2 m₁ m₂ t₁ t₂) Z Phi i k :=
  scoresTrapz2_eq_scoresW m₁ m₂ h₁ h₂ t₁ t₂ Z Phi i k

/-- The learnt rescaling weight is non-negative on a sorted grid with distinct end points
(so `√weight` exists; it is positive unless every variance vanishes). -/
theorem rescaleWeight_nonneg (N m : ℕ) (hm : 2 ≤ m) (t : ℕ → ℚ) (X : ℕ → ℕ → ℚ)
    (hmono : ∀ i j, i ≤ j → t i ≤ t j) (hspan : t 0 < t (m - 1)) : 0 ≤ rescaleWeight N m t X := by
  unfold rescaleWeight
  rw [FDA.trapz_eq_weights m _ _ hm]
  apply Finset.sum_nonneg
  intro j hj
  have hd : 0 < t (m - 1) - t 0 := by linarith
  have hmono' : ∀ i j, i ≤ j → standGrid m t i ≤ standGrid m t j := by
    intro i j hij
    unfold standGrid
    exact div_le_div_of_nonneg_right (by linarith [hmono i j hij]) hd.le
  apply mul_nonneg (FDA.trapzW_nonneg hmono' j (mem_range.1 hj))
  unfold varPop
  apply div_nonneg (Finset.sum_nonneg fun i _ => sq_nonneg _)
  exact Nat.cast_nonneg N

/-! ### The formulas as written in the source (translator `harness/c02_translate.py`)

`FDA.Generated.ufpcaTransform` is re-extracted with `ast` from `UFPCA.transform`, `DenseFunctionalData.rescale`,
`_transform_numerical_integration_dense`, `_transform_innpro` and `UFPCA.inverse_transform` on every run. -/

section source
open FDA.Generated

/-- What `UFPCA.transform(data)` projects, as written (which object is centred with which mean, which one is rescaled),
is the model's `transformImpl` — in particular the source still rescales the *uncentred* data (open finding
`C03-normalize-uncentred`); when that is repaired this proof breaks and `transformImpl := transformSpec`. -/
theorem transform_src_eq_model {F : Type} [Field F] (normalize : Bool) (mean : ℕ → F) (r : F) (X : ℕ → ℕ → F) :
    transformP ufpcaTransform normalize mean r X = transformImpl normalize mean r X := by
  cases normalize <;> simp [transformP, transformImpl, ufpcaTransform]

/-- `rescale` divides by `weights ^ (1/2)` with the learnt weights; the integrand of the numerical-integration scores is
the product observation × eigenfunction over the axes in their order, with the integration method forwarded; the
`einsum` of `inverse_transform` contracts the component index. -/
theorem transform_flags_src :
    ufpcaTransform.rescaleDivPow = 1 / 2 ∧ ufpcaTransform.rescaleWeights = true ∧ ufpcaTransform.numintProduct = true
      ∧ ufpcaTransform.numintAxesReversed = false ∧ ufpcaTransform.numintMethodForwarded = true
      ∧ ufpcaTransform.innproPow = 1 / 2 ∧ ufpcaTransform.einsum = "ij,j...->i..." := by
  refine ⟨?_, ?_, ?_, ?_, ?_, ?_, ?_⟩ <;> norm_num [ufpcaTransform]

/-- The radicand of `_transform_innpro` as written is `n_obs · λ_k` — the `q_k² = N λ_k` of `scores_gram_variance`. -/
theorem innpro_src_eq_model {F : Type} [Field F] (N : ℕ) (lam : ℕ → F) (k : ℕ) :
    innproRadicandP ufpcaTransform N lam k = (N : F) * lam k := by
  norm_num [innproRadicandP, ufpcaTransform]

/-- `inverse_transform` as written — `(weights ^ (1/2) if normalize else 1) * values + mean` — is the model's
`inverseTransform` with `r = √weight` after a normalised fit and `1` otherwise (`w` = the weight itself). -/
theorem inverse_src_eq_model {F : Type} [Field F] (normalize : Bool) (K : ℕ) (mean : ℕ → F) (r w : F)
    (S Phi : ℕ → ℕ → F) (i j : ℕ) :
    inverseTransformP ufpcaTransform normalize K mean r w S Phi i j
      = inverseTransform K mean (if normalize then r else 1) S Phi i j := by
  cases normalize <;> norm_num [inverseTransformP, inverseTransform, ufpcaTransform]

end source

/-! ### Non-vacuity -/

/-- `roundtrip` / `scores_of_span` / `projection`: two `w`-orthonormal eigenfunctions on three
points (`w = (1,1,1)`, `φ₀ = e₀`, `φ₁ = e₁`), a curve in their span. -/
example :
    let Phi : ℕ → ℕ → ℚ := fun k j => if k = j then 1 else 0
    (∀ k < 2, ∀ l < 2, innerWF 3 (fun _ => (1 : ℚ)) (Phi k) (Phi l) = if k = l then 1 else 0) := by
  intro Phi k hk l hl
  obtain rfl | rfl : k = 0 ∨ k = 1 := by omega
  all_goals obtain rfl | rfl : l = 0 ∨ l = 1 := by omega
  all_goals simp [innerWF, Phi]

/-- `scores_cov`: the eigen-system of the C02 non-vacuity example with two centred curves
`±(1, 1/2)·…` — here the instance `N = 2`, `Xc = ((1,0),(−1,0))`, `C = diag(2,0)`, `s = (1,1)`, `u = e₀`, `λ = 2`. -/
example :
    let Xc : ℕ → ℕ → ℚ := fun i j => if j = 0 then (if i = 0 then 1 else -1) else 0
    let U : ℕ → ℕ → ℚ := fun k j => if k = j then 1 else 0
    ∀ i < 2, ∑ j ∈ range 2, symMat (fun _ => (1 : ℚ)) (covMat 2 Xc) i j * U 0 j = 2 * U 0 i := by
  intro Xc U i hi
  obtain rfl | rfl : i = 0 ∨ i = 1 := by omega
  all_goals simp [symMat, covMat, Xc, U, Finset.sum_range_succ]
  all_goals norm_num

/-- `roundtrip_innpro`: the identity as complete orthonormal system (`N = K = 2`) meets the hypotheses. -/
example :
    let V : ℕ → ℕ → ℚ := fun k i => if k = i then 1 else 0
    (∀ a < 2, ∀ b < 2, ∑ i ∈ range 2, V a i * V b i = if a = b then 1 else 0) ∧
      (∀ k < 2, (fun _ : ℕ => (1 : ℚ)) k ≠ 0) := by
  refine ⟨?_, fun _ _ => one_ne_zero⟩
  intro a ha b hb
  obtain rfl | rfl : a = 0 ∨ a = 1 := by omega
  all_goals obtain rfl | rfl : b = 0 ∨ b = 1 := by omega
  all_goals simp

/-- `pace_shrinkage_orthonormal`: `Σ = diag(2,1) + ½I`, `φ = e₀, e₁` (plain-orthonormal), data `(1,2)`:
the certified solution is `Y = (2/5, 4/3)` and the scores `2·2/5 = 4/5`, `1·4/3 = 4/3` (the driver's
answer on `pace 2,1 2,0;0,1 1/2 1,2 1,0;0,1`). -/
example :
    let Phi : ℕ → ℕ → ℚ := fun k j => if k = j then 1 else 0
    let lam : ℕ → ℚ := fun k => if k = 0 then 2 else 1
    let Y : ℕ → ℕ → ℚ := fun _ a => if a = 0 then 2 / 5 else 4 / 3
    let Z : ℕ → ℕ → ℚ := fun _ j => if j = 0 then 1 else 2
    (∀ k < 2, ∑ j ∈ range 2, Phi k j * Phi 0 j = if k = 0 then 1 else 0) ∧
    (∀ j < 2, ∑ a ∈ range 2, Y 0 a * paceSigma (mercer 2 lam Phi) (1 / 2) a j = Z 0 j) := by
  refine ⟨?_, ?_⟩
  · intro k hk; obtain rfl | rfl : k = 0 ∨ k = 1 := by omega
    all_goals simp
  · intro j hj; obtain rfl | rfl : j = 0 ∨ j = 1 := by omega
    all_goals simp [Finset.sum_range_succ, paceSigma, mercer]
    all_goals norm_num

/-- `mfpca_scores_of_span` / `mfpca_roundtrip`: two components on one point each with weights 1,
one multivariate eigenfunction `(3/5, 4/5)` of product norm 1. -/
example :
    let Psi : ℕ → ℕ → ℕ → ℚ := fun p _ _ => if p = 0 then 3 / 5 else 4 / 5
    ∀ k < 1, ∀ l < 1, innerMultiW 2 (fun _ => 1) (fun _ _ => (1 : ℚ)) (fun p => Psi p k) (fun p => Psi p l)
      = if k = l then 1 else 0 := by
  intro Psi k hk l hl
  obtain rfl : k = 0 := by omega
  obtain rfl : l = 0 := by omega
  simp [innerMultiW, innerWF, Psi, Finset.sum_range_succ]
  norm_num

end C03
