/-
C12 — arithmetic is pointwise and guarded; equality is a sound total comparison; `remove` / `in`
on multivariate objects work.

Only property theorems and non-vacuity examples; helper lemmas are in
`FDAProofs/Lemmas/Arith.lean` (and `Lemmas/Dict.lean`).  The model is `lean/FDAModel/Arith.lean`;
the driver `Drivers/C12.lean` evaluates `binop`, `binopImpl`, `scalarop`, `rscalarop`, `eq`,
`contains`, `removeFirst` — the functions the theorems below are about (`binop = combine true`,
`ringop = combine true` on exact entry operations, joined by `binop_ring`).

All functions are pure, so "operands are left untouched" holds by construction in the model; on
the implementation it is sampled by the harness (bit-identical operands after every call).  What
is proved instead: the result is a function of the operands' grids and values only, lives on the
left operand's grid, keeps its class and labels.
-/
import FDAModel.Generated.Dispatch
import FDAProofs.Lemmas.Arith

namespace C12
open FDA.Dict FDA.Select FDA.Arith

/-! ## Pointwise -/

/-- **pointwise / dense.**  An accepted `a op b` on dense data is a dense dataset on the grid of
the left operand (which is also the grid of the right one) with as many rows, and entry `(i, j)`
is `op` applied to the two entries `(i, j)` — nothing else. -/
theorem pointwise_dense (op : Op) {g g' : Grid} {r r' : List (List ℚ)} {d : Data Val}
    (h : binop op (.dense g r) (.dense g' r') = .ok d) :
    ∃ s, d = .dense g s ∧ g' = g ∧ s.length = r.length ∧ r'.length = r.length ∧
      ∀ i j, entry s i j =
        match entry r i j, entry r' i j with
        | some x, some y => some (op.ap x y)
        | _, _ => none := by
  unfold binop at h
  rw [combine_dense] at h
  by_cases hc : r.length = r'.length ∧ g = g'
  · obtain ⟨hl, rfl⟩ := hc
    simp only [hl, and_self, if_true, Except.ok.injEq] at h
    refine ⟨_, h.symm, rfl, ?_, hl.symm, fun i j => ?_⟩
    · rw [zipRows_length, hl, min_self]
    · rw [entry_zipRows]; cases entry r i j <;> cases entry r' i j <;> rfl
  · simp [hc] at h

example : binop .add (.dense [[0, 1, 2]] [[1, 2, 3]]) (.dense [[0, 1, 2]] [[10, 20, 30]])
    = .ok (.dense [[0, 1, 2]] [[some 11, some 22, some 33]]) := by
  norm_num [binop, combine, zipRows, Op.ap]

/-- **pointwise / irregular.**  An accepted `a op b` on irregular data keeps the labels of the
left operand in their order, and the observation labelled `l` has the left operand's grid and the
values `op` applied entry by entry to the observations labelled `l` of both operands. -/
theorem pointwise_irreg (op : Op) {x y : D (Grid × List ℚ)} {d : Data Val}
    (h : binop op (.irreg x) (.irreg y) = .ok d) :
    ∃ s, d = .irreg s ∧ keys s = keys x ∧
      ∀ l, get? s l = (get? x l).bind fun p => (get? y l).map fun q => (p.1, List.zipWith op.ap p.2 q.2) := by
  unfold binop at h
  rw [combine_irreg_of_ok _ _ (combine_irreg_ok_iff _ _ h)] at h
  simp only [if_true] at h
  cases hp : pairLabel op.ap x y with
  | none => simp [hp] at h
  | some s =>
    simp only [hp, Except.ok.injEq] at h
    exact ⟨s, h.symm, keys_pairLabel _ hp, get?_pairLabel _ hp⟩

example : binop .mul (.irreg [(0, ([[0, 1]], [1, 2])), (4, ([[0, 2, 3]], [3, 4, 5]))])
      (.irreg [(4, ([[0, 2, 3]], [1, 0, 2])), (0, ([[0, 1]], [10, 20]))])
    = .ok (.irreg [(0, ([[0, 1]], [some 10, some 40])), (4, ([[0, 2, 3]], [some 3, some 0, some 10]))]) := by
  norm_num [binop, combine, dimOf, sameGrids, eqBy, get?, pairLabel, Op.ap]

/-- **pointwise / class and size kept.**  The result has the class and the number of
observations of the left operand. -/
theorem kind_kept (op : Op) {a b : Data ℚ} {d : Data Val} (h : binop op a b = .ok d) :
    d.isDense = a.isDense ∧ d.nObs = a.nObs := by
  cases a with
  | dense g r =>
    cases b with
    | dense g' r' =>
      obtain ⟨s, rfl, -, hl, -, -⟩ := pointwise_dense op h
      exact ⟨rfl, hl⟩
    | irreg y => simp [binop, combine_mixed] at h
  | irreg x =>
    cases b with
    | dense g' r' => simp [binop, combine_mixed'] at h
    | irreg y =>
      obtain ⟨s, rfl, hk, -⟩ := pointwise_irreg op h
      refine ⟨rfl, ?_⟩
      have := congrArg List.length hk
      simpa [keys, Data.nObs] using this

example : (Data.dense [[0, 1]] [[some (3 : ℚ), some 5]]).isDense = true ∧ (Data.dense [[0, 1]] [[some (3 : ℚ), some 5]]).nObs = 1 :=
  kind_kept .add (a := .dense [[0, 1]] [[1, 2]]) (b := .dense [[0, 1]] [[2, 3]]) (by norm_num [binop, combine, zipRows, Op.ap])

/-- **pointwise / `+ − *` never leave the finite numbers**: the three ring operators are the
exact entry-wise operation followed by the embedding of the finite floats. -/
theorem binop_ring (a b : Data ℚ) :
    binop .add a b = (ringop (· + ·) a b).map (mapData some) ∧
    binop .sub a b = (ringop (· - ·) a b).map (mapData some) ∧
    binop .mul a b = (ringop (· * ·) a b).map (mapData some) := by
  unfold binop ringop
  exact ⟨(combine_map _ _ a b).symm, (combine_map _ _ a b).symm, (combine_map _ _ a b).symm⟩

/-- **pointwise / division is guarded.**  An entry of a quotient is a number exactly when the
divisor is not zero — then it is the exact quotient, resp. its floor `n ≤ x/y < n+1` — and
"not finite" (`inf`/`nan`) exactly when the divisor is zero.  No other operator produces a
non-finite entry from finite operands. -/
theorem division_guarded (x y : ℚ) :
    (y ≠ 0 → Op.ap .div x y = some (x / y)) ∧
    (y ≠ 0 → ∃ n : ℤ, Op.ap .floordiv x y = some (n : ℚ) ∧ (n : ℚ) ≤ x / y ∧ x / y < n + 1) ∧
    (∀ op, Op.ap op x y = none ↔ (op = .div ∨ op = .floordiv) ∧ y = 0) := by
  refine ⟨fun h => by simp [Op.ap, h], fun h => ?_, fun op => ?_⟩
  · refine ⟨(x / y).floor, by simp [Op.ap, h], Rat.floor_le _, ?_⟩
    have := Rat.lt_floor_add_one (x / y)
    push_cast at this
    exact this
  · cases op <;> by_cases h : y = 0 <;> simp [Op.ap, h]

example : Op.ap .div 1 0 = none ∧ Op.ap .floordiv 0 0 = none ∧ Op.ap .floordiv 2 (-3 / 4) = some (-3) := by
  refine ⟨by simp [Op.ap], by simp [Op.ap], ?_⟩
  have : ((2 : ℚ) / (-3 / 4)).floor = -3 := by
    show ⌊(2 : ℚ) / (-3 / 4)⌋ = -3
    rw [Int.floor_eq_iff]; norm_num
  simp [Op.ap, this]

/-- **pointwise / zero divisors.**  In an accepted dense quotient every entry whose divisor is
zero is "not finite" — never a number. -/
theorem div_zero_nonfinite {g g' : Grid} {r r' : List (List ℚ)} {sv : List (List Val)} {i j : ℕ} {x : ℚ}
    (h : binop .div (.dense g r) (.dense g' r') = .ok (.dense g sv))
    (hx : entry r i j = some x) (hz : entry r' i j = some 0) : entry sv i j = some none := by
  obtain ⟨s', hs, -, -, -, he⟩ := pointwise_dense .div h
  cases hs
  rw [he i j, hx, hz]
  simp [Op.ap]

example : entry [[(none : Val), none]] 0 1 = some none :=
  div_zero_nonfinite (g := [[0, 1]]) (g' := [[0, 1]]) (r := [[1, 0]]) (r' := [[0, 0]]) (x := 0)
    (by norm_num [binop, combine, zipRows, Op.ap]) rfl rfl

/-- **pointwise / by label is total.**  After the guard the by-label pairing always finds its
partner: `binop` never fails with the model's internal `KeyError`. -/
theorem by_label_total (op : Op) (a b : Data ℚ) : binop op a b ≠ .error .keyError := by
  intro h
  cases a with
  | dense g r =>
    cases b with
    | dense g' r' =>
      unfold binop at h; rw [combine_dense] at h
      split at h <;> simp at h
    | irreg y => simp [binop, combine_mixed] at h
  | irreg x =>
    cases b with
    | dense g' r' => simp [binop, combine_mixed'] at h
    | irreg y =>
      unfold binop at h
      rw [combine_irreg] at h
      split at h
      · simp at h
      · split at h
        · split at h
          · simp at h
          · split at h
            · simp at h
            · next hg =>
              simp only [Bool.not_eq_false] at hg
              obtain ⟨r, hr⟩ := pairLabel_of_sameGrids op.ap hg
              simp [hr] at h
        · simp at h

/-! ## The code's pairing of irregular observations (open finding `C12-irregular-value-order`) -/

/-- **pointwise / refinement.**  `_perform_computation` as coded (value dictionaries zipped in
their insertion orders) computes the by-label result whenever the two operands hold their
labels in the same order (always for dense data). -/
theorem impl_refines (op : Op) {a b : Data ℚ} (ha : a.WF) (hb : b.WF)
    (hord : ∀ x y, a = .irreg x → b = .irreg y → keys x = keys y) :
    binopImpl op a b = binop op a b := by
  cases a with
  | dense g r =>
    cases b with
    | dense g' r' => unfold binopImpl binop; rw [combine_dense, combine_dense]
    | irreg y => rfl
  | irreg x =>
    cases b with
    | dense g' r' => rfl
    | irreg y =>
      unfold binopImpl binop
      rw [combine_irreg, combine_irreg]
      split
      · rfl
      · split
        · split
          · rfl
          · split
            · rfl
            · next hg =>
              simp only [Bool.not_eq_false] at hg
              have := pairZip_eq_pairLabel op.ap (hord x y rfl rfl) hb.1
                (fun p hp q hq => length_eq_of_sameGrids ha hb hg hp hq)
              obtain ⟨r, hr⟩ := pairLabel_of_sameGrids op.ap hg
              simp only [Bool.false_eq_true, if_false, if_true, this, hr]
        · rfl

/-- The two operands of the witness: same labels, same grids, other insertion order. -/
def witnessA : Data ℚ := .irreg [(0, ([[0, 1]], [1, 2])), (1, ([[0, 2]], [3, 4]))]
def witnessB : Data ℚ := .irreg [(1, ([[0, 2]], [30, 40])), (0, ([[0, 1]], [10, 20]))]

/-- **counterexample (open finding).**  On two compatible irregular operands whose value
dictionaries are in different orders the code adds observation `0` to observation `1`:
`{0: [31, 42], 1: [13, 24]}` instead of the pointwise `{0: [11, 22], 1: [33, 44]}`. -/
theorem counterexample_order :
    binopImpl .add witnessA witnessB
        = .ok (.irreg [(0, ([[0, 1]], [some 31, some 42])), (1, ([[0, 2]], [some 13, some 24]))]) ∧
      binop .add witnessA witnessB
        = .ok (.irreg [(0, ([[0, 1]], [some 11, some 22])), (1, ([[0, 2]], [some 33, some 44]))]) := by
  constructor <;>
    norm_num [binopImpl, binop, witnessA, witnessB, combine, dimOf, sameGrids, eqBy, get?, pairLabel, pairZip, Op.ap]

example : witnessA.WF ∧ witnessB.WF := by decide

example : binopImpl .mul witnessA witnessA = binop .mul witnessA witnessA :=
  impl_refines .mul (by decide) (by decide) (fun x y h1 h2 => by cases h1; cases h2; rfl)

/-- **pointwise / order of the right dictionary is irrelevant** for the by-label pairing: it
reads the right operand only through look-ups by label. -/
theorem pairing_order_irrelevant (f : ℚ → ℚ → Val) (x : D (Grid × List ℚ)) {y y' : D (Grid × List ℚ)}
    (hn : NodupKeys y) (hperm : y.Perm y') : pairLabel f x y = pairLabel f x y' := by
  apply pairLabel_congr
  intro p _
  have hn' : NodupKeys y' := by
    unfold NodupKeys keys at *; exact (hperm.map _).nodup_iff.1 hn
  cases hg : get? y p.1 with
  | some e => exact (get?_of_mem hn' (hperm.subset (mem_of_get? hg))).symm
  | none =>
    symm
    rw [get?_eq_none_iff] at hg ⊢
    intro hk
    exact hg ((hperm.map Prod.fst).symm.subset hk)

example : pairLabel Op.add.ap [(0, ([[0, 1]], [1, 2]))] [(0, ([[0, 1]], [5, 6])), (1, ([[0, 2]], [3, 4]))]
    = pairLabel Op.add.ap [(0, ([[0, 1]], [1, 2]))] [(1, ([[0, 2]], [3, 4])), (0, ([[0, 1]], [5, 6]))] :=
  pairing_order_irrelevant _ _ (by simp [NodupKeys, keys]) (List.Perm.swap _ _ _)

/-! ## Identities -/

/-- **identities / `(a + b) − b = a`** (exactly: class, grid, labels, order and values), for
well-formed operands; also `(a − b) + b = a`. -/
theorem add_sub_cancel {a b s : Data ℚ} (ha : a.WF) (hb : b.WF) (h : ringop (· + ·) a b = .ok s) :
    ringop (· - ·) s b = .ok a := by
  unfold ringop at *
  cases a with
  | dense g r =>
    cases b with
    | dense g' r' =>
      rw [combine_dense] at h
      by_cases hc : r.length = r'.length ∧ g = g'
      · obtain ⟨hl, rfl⟩ := hc
        simp only [hl, and_self, if_true, Except.ok.injEq] at h
        subst h
        have hsh : SameShape r r' := sameShape_of_length (g := gridSize g) hl ha hb
        rw [combine_dense, zipRows_length, hl, min_self]
        simp only [and_self, if_true]
        rw [zipRows_zipRows_left _ _ hsh, zipRows_fst _ (by intro x y; ring) hsh]
      · simp [hc] at h
    | irreg y => simp [combine_mixed] at h
  | irreg x =>
    cases b with
    | dense g' r' => simp [combine_mixed'] at h
    | irreg y =>
      have hok := combine_irreg_ok_iff _ _ h
      rw [combine_irreg_of_ok _ _ hok] at h
      simp only [if_true] at h
      cases hp : pairLabel (fun x1 x2 : ℚ => x1 + x2) x y with
      | none => simp [hp] at h
      | some s' =>
        simp only [hp, Except.ok.injEq] at h
        subst h
        obtain ⟨hl, ⟨d, hdx, hdy⟩, hg⟩ := hok
        have hlen : ∀ p ∈ x, ∀ q, get? y p.1 = some q → p.2.2.length = q.2.length :=
          fun p hp' q hq => length_eq_of_sameGrids ha hb hg hp' hq
        have hok' : IrregOK s' y :=
          ⟨(length_pairLabel _ hp).trans hl, ⟨d, (dimOf_pairLabel _ hp).trans hdx, hdy⟩, sameGrids_pairLabel _ hp hg⟩
        rw [combine_irreg_of_ok _ _ hok']
        simp only [if_true]
        rw [pairLabel_pairLabel_left _ _ hlen hp,
          pairLabel_fst _ (by intro u v; ring) hlen
            (fun p hp' => by obtain ⟨q, hq, _⟩ := sameGrids_get hg hp'; simp [hq])]

example : ringop (· - ·) (.dense [[0, 1]] [[11, 22]]) (.dense [[0, 1]] [[10, 20]]) = .ok (.dense [[0, 1]] [[1, 2]]) :=
  add_sub_cancel (a := .dense [[0, 1]] [[1, 2]]) (b := .dense [[0, 1]] [[10, 20]]) (by decide) (by decide)
    (by norm_num [ringop, combine, zipRows])

/-- **identities / `a * 1 = a`, `a + 0 = a`, `a − 0 = a`, `a / 1 = a`** with a scalar of any accepted kind. -/
theorem scalar_neutral (a : Data ℚ) (k : SKind) (hk : k.accepted = true) :
    scalarop .mul a k 1 = .ok (mapData some a) ∧ scalarop .add a k 0 = .ok (mapData some a) ∧
      scalarop .sub a k 0 = .ok (mapData some a) ∧ scalarop .div a k 1 = .ok (mapData some a) := by
  refine ⟨?_, ?_, ?_, ?_⟩ <;>
  · simp only [scalarop, hk, if_true, Except.ok.injEq]
    apply mapData_congr
    intro x
    simp [Op.ap]

example : scalarop .mul (.dense [[0, 1]] [[3, 4]]) .pyBool 1 = .ok (.dense [[0, 1]] [[some 3, some 4]]) := by
  simpa [mapData] using (scalar_neutral (.dense [[0, 1]] [[3, 4]]) .pyBool rfl).1

/-- **identities / commutativity of `+` and `*`, dense**: `a + b = b + a` and `a * b = b * a`
as datasets (both live on the common grid). -/
theorem comm_dense (g g' : Grid) (r r' : List (List ℚ)) :
    ringop (· + ·) (.dense g r) (.dense g' r') = ringop (· + ·) (.dense g' r') (.dense g r) ∧
      ringop (· * ·) (.dense g r) (.dense g' r') = ringop (· * ·) (.dense g' r') (.dense g r) := by
  unfold ringop
  rw [combine_dense, combine_dense, combine_dense, combine_dense]
  by_cases hc : r.length = r'.length ∧ g = g'
  · obtain ⟨hl, rfl⟩ := hc
    simp only [hl, and_self, if_true]
    rw [zipRows_comm _ (fun x y => add_comm x y) r r', zipRows_comm _ (fun x y => mul_comm x y) r r']
    exact ⟨rfl, rfl⟩
  · have hc' : ¬ (r'.length = r.length ∧ g' = g) := fun h => hc ⟨h.1.symm, h.2.symm⟩
    simp [hc, hc']

/-- **identities / commutativity, irregular**: `a ∘ b` and `b ∘ a` (for a commutative entry
operation such as `+`, `*`) are both accepted and agree label by label — they are equal as
Python dictionaries; only the insertion order (that of the respective left operand) may differ. -/
theorem comm_irreg (f : ℚ → ℚ → ℚ) (hf : ∀ u v, f u v = f v u) {x y s : D (Grid × List ℚ)}
    (hx : (Data.irreg x).WF) (hy : (Data.irreg y).WF) (h : ringop f (.irreg x) (.irreg y) = .ok (.irreg s)) :
    ∃ s', ringop f (.irreg y) (.irreg x) = .ok (.irreg s') ∧ s'.length = s.length ∧ ∀ l, get? s' l = get? s l := by
  unfold ringop at *
  have hok := combine_irreg_ok_iff _ _ h
  rw [combine_irreg_of_ok _ _ hok] at h
  simp only [if_true] at h
  obtain ⟨hl, ⟨d, hdx, hdy⟩, hg⟩ := hok
  cases hp : pairLabel f x y with
  | none => simp [hp] at h
  | some s0 =>
    simp only [hp, Except.ok.injEq, Data.irreg.injEq] at h
    subst h
    -- the guard is symmetric
    have hlook := fun k => eqBy_lookup (f := fun p : Grid × List ℚ => p.1) (g := fun p : Grid × List ℚ => p.1) hx.1 hg k
    have hg' : sameGrids y x = true := by
      rw [sameGrids_iff]
      refine ⟨hl.symm, fun q hq => ?_⟩
      have := hlook q.1
      rw [get?_of_mem hy.1 (show (q.1, q.2) ∈ y from hq)] at this
      simpa using this
    have hok' : IrregOK y x := ⟨hl.symm, ⟨d, hdy, hdx⟩, hg'⟩
    obtain ⟨s', hs'⟩ := pairLabel_of_sameGrids f hg'
    refine ⟨s', by rw [combine_irreg_of_ok _ _ hok']; simp [hs'], ?_, fun l => ?_⟩
    · rw [length_pairLabel f hs', length_pairLabel f hp, hl]
    · rw [get?_pairLabel f hs' l, get?_pairLabel f hp l]
      have := hlook l
      cases hgx : get? x l with
      | none =>
        cases hgy : get? y l with
        | none => rfl
        | some q => simp [hgx, hgy] at this
      | some p =>
        cases hgy : get? y l with
        | none => simp [hgx, hgy] at this
        | some q =>
          simp only [hgx, hgy, Option.map_some, Option.some.injEq] at this
          simp only [Option.bind_some, Option.map_some, Option.some.injEq, Prod.mk.injEq]
          exact ⟨this.symm, zipWith_comm' f hf _ _⟩

example : ringop (· + ·) (.irreg [(0, ([[0, 1]], [1, 2])), (1, ([[0, 2]], [3, 4]))])
      (.irreg [(1, ([[0, 2]], [30, 40])), (0, ([[0, 1]], [10, 20]))])
    = .ok (.irreg [(0, ([[0, 1]], [11, 22])), (1, ([[0, 2]], [33, 44]))]) := by
  norm_num [ringop, combine, dimOf, sameGrids, eqBy, get?, pairLabel]

example : ∃ s', ringop (· + ·) (.irreg [(1, ([[0, 2]], [30, 40])), (0, ([[0, 1]], [10, 20]))])
      (.irreg [(0, ([[0, 1]], [1, 2])), (1, ([[0, 2]], [3, 4]))]) = .ok (.irreg s') ∧
    s'.length = [(0, ([[0, 1]], [(11 : ℚ), 22])), (1, ([[0, 2]], [(33 : ℚ), 44]))].length ∧
    ∀ l, get? s' l = get? [(0, ([[0, 1]], [(11 : ℚ), 22])), (1, ([[0, 2]], [33, 44]))] l :=
  comm_irreg (· + ·) add_comm (x := [(0, ([[0, 1]], [1, 2])), (1, ([[0, 2]], [3, 4]))])
    (y := [(1, ([[0, 2]], [30, 40])), (0, ([[0, 1]], [10, 20]))])
    (s := [(0, ([[0, 1]], [11, 22])), (1, ([[0, 2]], [33, 44]))]) (by decide) (by decide)
    (by norm_num [ringop, combine, dimOf, sameGrids, eqBy, get?, pairLabel])

/-- **identities / scalar distributivity** `c * (a + b) = c * a + c * b` (and on the right),
for every scalar and all operands: whenever `a + b` is accepted so is `c*a + c*b`, with the
scaled result; when it is rejected, so is the other side, with the same error. -/
theorem scalar_distrib (c : ℚ) (a b : Data ℚ) :
    ringop (· + ·) (mapData (c * ·) a) (mapData (c * ·) b) = (ringop (· + ·) a b).map (mapData (c * ·)) ∧
      ringop (· + ·) (mapData (· * c) a) (mapData (· * c) b) = (ringop (· + ·) a b).map (mapData (· * c)) := by
  unfold ringop
  rw [combine_map_args, combine_map, combine_map_args, combine_map]
  exact ⟨combine_congr_fun _ (fun x y => (mul_add c x y).symm) a b,
    combine_congr_fun _ (fun x y => (add_mul x y c).symm) a b⟩

/-- **identities / `(a / b) * b = a` only under the explicit guard** that no entry of `b` is
zero: then every entry of the quotient is a number, and multiplying back gives `a` exactly. -/
theorem div_mul_cancel {a b : Data ℚ} {qd : Data Val} (ha : a.WF) (hb : b.WF) (hnz : b.noZero = true)
    (h : binop .div a b = .ok qd) :
    ∃ q : Data ℚ, qd = mapData some q ∧ ringop (· * ·) q b = .ok a := by
  -- under the guard, `/` is the exact quotient on every pair that is actually combined
  have key : ∀ (a b : Data ℚ), b.noZero = true → a.WF → b.WF →
      binop .div a b = (ringop (· / ·) a b).map (mapData some) := by
    intro a b hnz ha hb
    unfold binop ringop
    rw [combine_map]
    cases a with
    | dense g r =>
      cases b with
      | dense g' r' =>
        rw [combine_dense, combine_dense]
        by_cases hc : r.length = r'.length ∧ g = g'
        · simp only [hc, and_self, if_true, Except.ok.injEq, Data.dense.injEq, true_and]
          simp only [Data.noZero, List.all_eq_true, decide_eq_true_eq] at hnz
          unfold zipRows
          apply List.ext_getElem?
          intro i
          rw [List.getElem?_zipWith, List.getElem?_zipWith]
          cases hr : r[i]? with
          | none => rfl
          | some v =>
            cases hr' : r'[i]? with
            | none => rfl
            | some w =>
              simp only [Option.some.injEq]
              apply List.ext_getElem?
              intro j
              rw [List.getElem?_zipWith, List.getElem?_zipWith]
              cases hv : v[j]? with
              | none => rfl
              | some u =>
                cases hw : w[j]? with
                | none => rfl
                | some z =>
                  have hz : z ≠ 0 := hnz w (List.mem_of_getElem? hr') z (List.mem_of_getElem? hw)
                  simp [Op.ap, hz]
        · simp [hc]
      | irreg y => rfl
    | irreg x =>
      cases b with
      | dense g' r' => rfl
      | irreg y =>
        rw [combine_irreg, combine_irreg]
        simp only [Data.noZero, List.all_eq_true, decide_eq_true_eq] at hnz
        have hpl : pairLabel Op.div.ap x y = pairLabel (fun u v => some (u / v)) x y := by
          clear ha
          induction x with
          | nil => rfl
          | cons p t ih =>
            rw [pairLabel_cons, pairLabel_cons, ih]
            cases hgy : get? y p.1 with
            | none => rfl
            | some q =>
              have hq : ∀ z ∈ q.2, z ≠ 0 := hnz (p.1, q) (mem_of_get? hgy)
              have : List.zipWith Op.div.ap p.2.2 q.2 = List.zipWith (fun u v => some (u / v)) p.2.2 q.2 := by
                apply List.ext_getElem?
                intro j
                rw [List.getElem?_zipWith, List.getElem?_zipWith]
                cases hv : p.2.2[j]? with
                | none => rfl
                | some u =>
                  cases hw : q.2[j]? with
                  | none => rfl
                  | some z => simp [Op.ap, hq z (List.mem_of_getElem? hw)]
              cases pairLabel (fun u v : ℚ => some (u / v)) t y with
              | none => rfl
              | some r => simp only [this]
        simp only [if_true, hpl]
  rw [key a b hnz ha hb] at h
  cases hq : ringop (· / ·) a b with
  | error e => simp [hq, Except.map] at h
  | ok q =>
    simp only [hq, Except.map, Except.ok.injEq] at h
    refine ⟨q, h.symm, ?_⟩
    -- `(a / b) * b = a` entry by entry, as for `(a + b) − b`
    unfold ringop at *
    cases a with
    | dense g r =>
      cases b with
      | dense g' r' =>
        rw [combine_dense] at hq
        by_cases hc : r.length = r'.length ∧ g = g'
        · obtain ⟨hl, rfl⟩ := hc
          simp only [hl, and_self, if_true, Except.ok.injEq] at hq
          subst hq
          have hsh : SameShape r r' := sameShape_of_length (g := gridSize g) hl ha hb
          rw [combine_dense, zipRows_length, hl, min_self]
          simp only [and_self, if_true]
          rw [zipRows_zipRows_left _ _ hsh]
          -- entries of b are non-zero
          simp only [Data.noZero, List.all_eq_true, decide_eq_true_eq] at hnz
          congr 2
          unfold zipRows
          apply List.ext_getElem?
          intro i
          rw [List.getElem?_zipWith]
          have hli := List.forall₂_iff_get.1 hsh
          cases hr : r[i]? with
          | none => rfl
          | some v =>
            cases hr' : r'[i]? with
            | none =>
              exfalso
              have h1 := (List.getElem?_eq_some_iff.1 hr).1
              have h2 := List.getElem?_eq_none_iff.1 hr'
              omega
            | some w =>
              simp only [Option.some.injEq]
              have hvw : v.length = w.length := by
                obtain ⟨h1, e1⟩ := List.getElem?_eq_some_iff.1 hr
                obtain ⟨h2, e2⟩ := List.getElem?_eq_some_iff.1 hr'
                have := hli.2 i h1 h2
                simpa [e1, e2] using this
              apply List.ext_getElem?
              intro j
              rw [List.getElem?_zipWith]
              cases hv : v[j]? with
              | none => rfl
              | some u =>
                cases hw : w[j]? with
                | none =>
                  exfalso
                  have h1 := (List.getElem?_eq_some_iff.1 hv).1
                  have h2 := List.getElem?_eq_none_iff.1 hw
                  omega
                | some z =>
                  have hz : z ≠ 0 := hnz w (List.mem_of_getElem? hr') z (List.mem_of_getElem? hw)
                  simp only [Option.some.injEq]
                  field_simp
        · simp [hc] at hq
      | irreg y => simp [combine_mixed] at hq
    | irreg x =>
      cases b with
      | dense g' r' => simp [combine_mixed'] at hq
      | irreg y =>
        have hok := combine_irreg_ok_iff _ _ hq
        rw [combine_irreg_of_ok _ _ hok] at hq
        simp only [if_true] at hq
        cases hp : pairLabel (fun x1 x2 : ℚ => x1 / x2) x y with
        | none => simp [hp] at hq
        | some s' =>
          simp only [hp, Except.ok.injEq] at hq
          subst hq
          obtain ⟨hl, ⟨d, hdx, hdy⟩, hg⟩ := hok
          have hlen : ∀ p ∈ x, ∀ q, get? y p.1 = some q → p.2.2.length = q.2.length :=
            fun p hp' q hq => length_eq_of_sameGrids ha hb hg hp' hq
          have hok' : IrregOK s' y :=
            ⟨(length_pairLabel _ hp).trans hl, ⟨d, (dimOf_pairLabel _ hp).trans hdx, hdy⟩, sameGrids_pairLabel _ hp hg⟩
          rw [combine_irreg_of_ok _ _ hok']
          simp only [if_true]
          rw [pairLabel_pairLabel_left _ _ hlen hp]
          simp only [Data.noZero, List.all_eq_true, decide_eq_true_eq] at hnz
          -- by induction on the left dictionary
          have : pairLabel (fun a b : ℚ => a / b * b) x y = some x := by
            clear hp hok' hdx hl ha
            have hsome : ∀ p ∈ x, (get? y p.1).isSome := fun p hp' => by
              obtain ⟨q, hq, _⟩ := sameGrids_get hg hp'; simp [hq]
            clear hg
            induction x with
            | nil => rfl
            | cons p t ih =>
              rw [pairLabel_cons, ih (fun p' hp' => hlen p' (List.mem_cons_of_mem _ hp'))
                (fun p' hp' => hsome p' (List.mem_cons_of_mem _ hp'))]
              have hp1 := hsome p List.mem_cons_self
              cases hgy : get? y p.1 with
              | none => simp [hgy] at hp1
              | some q =>
                have hq : ∀ z ∈ q.2, z ≠ 0 := hnz (p.1, q) (mem_of_get? hgy)
                have hl' := hlen p List.mem_cons_self q hgy
                have : List.zipWith (fun a b : ℚ => a / b * b) p.2.2 q.2 = p.2.2 := by
                  apply List.ext_getElem?
                  intro j
                  rw [List.getElem?_zipWith]
                  cases hv : p.2.2[j]? with
                  | none => rfl
                  | some u =>
                    cases hw : q.2[j]? with
                    | none =>
                      exfalso
                      have h1 := (List.getElem?_eq_some_iff.1 hv).1
                      have h2 := List.getElem?_eq_none_iff.1 hw
                      omega
                    | some z =>
                      have hz := hq z (List.mem_of_getElem? hw)
                      simp only [Option.some.injEq]
                      field_simp
                simp [this]
          rw [this]

example : ∃ q, binop .div (.dense [[0, 1]] [[1, 3]]) (.dense [[0, 1]] [[2, 4]]) = .ok (mapData some q) ∧
    ringop (· * ·) q (.dense [[0, 1]] [[2, 4]]) = .ok (.dense [[0, 1]] [[1, 3]]) := by
  obtain ⟨q, h1, h2⟩ := div_mul_cancel (a := .dense [[0, 1]] [[1, 3]]) (b := .dense [[0, 1]] [[2, 4]])
    (qd := .dense [[0, 1]] [[some (1 / 2), some (3 / 4)]]) (by decide) (by decide) (by decide)
    (by norm_num [binop, combine, zipRows, Op.ap])
  exact ⟨q, by rw [← h1]; norm_num [binop, combine, zipRows, Op.ap], h2⟩

/-! ## Incompatible operands are rejected, never broadcast -/

/-- **rejects / class.**  Dense against irregular (either way): `TypeError`, under every operator. -/
theorem rejects_class (op : Op) (g : Grid) (r : List (List ℚ)) (x : D (Grid × List ℚ)) :
    binop op (.dense g r) (.irreg x) = .error .typeError ∧ binop op (.irreg x) (.dense g r) = .error .typeError ∧
    binopImpl op (.dense g r) (.irreg x) = .error .typeError ∧ binopImpl op (.irreg x) (.dense g r) = .error .typeError :=
  ⟨rfl, rfl, rfl, rfl⟩

/-- **rejects / number of observations.**  Same class, different `n_obs`: `ValueError` —
including one observation against many, which NumPy alone would broadcast. -/
theorem rejects_nobs (op : Op) {a b : Data ℚ} (hk : a.isDense = b.isDense) (hn : a.nObs ≠ b.nObs) :
    binop op a b = .error .valueError ∧ binopImpl op a b = .error .valueError := by
  cases a with
  | dense g r =>
    cases b with
    | dense g' r' =>
      have : ¬ (r.length = r'.length ∧ g = g') := fun h => hn h.1
      unfold binop binopImpl; rw [combine_dense, combine_dense]; simp [this]
    | irreg y => simp [Data.isDense] at hk
  | irreg x =>
    cases b with
    | dense g' r' => simp [Data.isDense] at hk
    | irreg y =>
      have : x.length ≠ y.length := hn
      unfold binop binopImpl; rw [combine_irreg, combine_irreg]; simp [this]

example : binop .add (.dense [[0, 1]] [[1, 2], [3, 4]]) (.dense [[0, 1]] [[1, 1]]) = .error .valueError :=
  (rejects_nobs .add (a := .dense [[0, 1]] [[1, 2], [3, 4]]) (b := .dense [[0, 1]] [[1, 1]]) rfl (by decide)).1

/-- **rejects / dimension and sampling points, dense.**  Equal `n_obs` but another grid — another
dimension, another number of points (also one point against many), or one moved point —:
`ValueError`. -/
theorem rejects_grid_dense (op : Op) {g g' : Grid} (r r' : List (List ℚ)) (hg : g ≠ g') :
    binop op (.dense g r) (.dense g' r') = .error .valueError ∧
      binopImpl op (.dense g r) (.dense g' r') = .error .valueError := by
  have : ¬ (r.length = r'.length ∧ g = g') := fun h => hg h.2
  unfold binop binopImpl; rw [combine_dense, combine_dense]; simp [this]

example : binop .mul (.dense [[0, 1, 2]] [[1, 2, 3]]) (.dense [[0]] [[5]]) = .error .valueError :=
  (rejects_grid_dense .mul _ _ (by decide)).1

/-- **rejects / dimension, sampling points and labels, irregular.**  Non-empty irregular operands
with equally many observations whose sampling points differ (a label missing on the right, or a
label with another grid — other dimension, other size, one moved point): `ValueError`. -/
theorem rejects_grid_irreg (op : Op) {x y : D (Grid × List ℚ)} (hx : x ≠ []) (hy : y ≠ [])
    (hg : sameGrids x y = false) :
    binop op (.irreg x) (.irreg y) = .error .valueError ∧ binopImpl op (.irreg x) (.irreg y) = .error .valueError := by
  unfold binop binopImpl
  rw [combine_irreg, combine_irreg]
  cases x with
  | nil => exact absurd rfl hx
  | cons p t =>
    cases y with
    | nil => exact absurd rfl hy
    | cons q u =>
      simp only [dimOf, hg, if_true]
      constructor <;> (split <;> [rfl; (split <;> rfl)])

example : binop .add (.irreg [(0, ([[0, 1]], [1, 2]))]) (.irreg [(7, ([[0, 1]], [1, 2]))]) = .error .valueError :=
  (rejects_grid_irreg .add (by decide) (by decide) (by decide)).1

/-- **rejects / never a broadcast.**  Whatever is accepted is compatible: same class, same
number of observations, same sampling points (dense: equal grids; irregular: label-wise equal
grids).  Conversely the only failures are `TypeError`, `ValueError`, and the `StopIteration` of
an empty irregular dataset (`Err.other`). -/
theorem accepted_only_if_compatible (op : Op) {a b : Data ℚ} {d : Data Val} (h : binop op a b = .ok d) :
    a.isDense = b.isDense ∧ a.nObs = b.nObs ∧
      (∀ g r g' r', a = .dense g r → b = .dense g' r' → g = g') ∧
      (∀ x y, a = .irreg x → b = .irreg y → sameGrids x y = true) := by
  cases a with
  | dense g r =>
    cases b with
    | dense g' r' =>
      obtain ⟨s, -, hg, -, hl, -⟩ := pointwise_dense op h
      refine ⟨rfl, hl.symm, ?_, ?_⟩
      · intro g1 r1 g2 r2 h1 h2; cases h1; cases h2; exact hg.symm
      · intro x y h1; cases h1
    | irreg y => simp [binop, combine_mixed] at h
  | irreg x =>
    cases b with
    | dense g' r' => simp [binop, combine_mixed'] at h
    | irreg y =>
      obtain ⟨hl, -, hg⟩ := combine_irreg_ok_iff _ _ h
      refine ⟨rfl, hl, ?_, ?_⟩
      · intro g1 r1 g2 r2 h1; cases h1
      · intro x' y' h1 h2; cases h1; cases h2; exact hg

example : (Data.dense [[0, 1]] [[(1 : ℚ), 2]]).nObs = (Data.dense [[0, 1]] [[(5 : ℚ), 6]]).nObs :=
  (accepted_only_if_compatible .sub (a := .dense [[0, 1]] [[1, 2]]) (b := .dense [[0, 1]] [[5, 6]])
    (d := .dense [[0, 1]] [[some (-4), some (-4)]]) (by norm_num [binop, combine, zipRows, Op.ap])).2.1

/-! ## Scalars -/

/-- **scalar_kinds.**  `int`, `float`, `bool`, `np.float64` operands are accepted and act entry by
entry on every value (grid, class, labels kept); `np.int64`, `np.float32`, strings, arrays and
anything else are rejected with `TypeError`. -/
theorem scalar_kinds (op : Op) (a : Data ℚ) (c : ℚ) :
    (∀ k ∈ [SKind.pyInt, .pyFloat, .pyBool, .npFloat64], scalarop op a k c = .ok (mapData (fun x => op.ap x c) a)) ∧
    (∀ k ∈ [SKind.npInt64, .npFloat32, .str, .array, .other], scalarop op a k c = .error .typeError) := by
  constructor <;> intro k hk <;> simp only [List.mem_cons, List.not_mem_nil, or_false] at hk <;>
    rcases hk with rfl | rfl | rfl | rfl | rfl <;> rfl

/-- **Foreign operands, both orders.**  An operand that is neither functional data nor a Python `int` /
`float` (subclass) — list, tuple, `Fraction`, `Decimal`, complex, `None`, dict, string, array, NumPy scalar of
another kind — is rejected with `TypeError` by every operator, on the right (`fd op x`) and, where Python hands
it to the reflected method, on the left (`x op fd`): never broadcast. -/
theorem foreign_rejected_both_orders (op : Op) (a : Data ℚ) (k : SKind) (c : ℚ) (hk : k.accepted = false) :
    scalarop op a k c = .error .typeError ∧ rscalarop op a k c = .error .typeError := by
  have h1 : scalarop op a k c = .error .typeError := by simp [scalarop, hk]
  refine ⟨h1, ?_⟩
  unfold rscalarop
  split
  · simp [scalarop, hk]
  · rfl

example : SKind.accepted .fraction = false ∧ SKind.accepted .pyList = false ∧ SKind.accepted .complex = false := by decide

/-- **scalar_kinds / reflected side.**  Only `__rmul__` exists: `c * a = a * c`; every other
reflected operator is a `TypeError`. -/
theorem reflected_only_mul (op : Op) (a : Data ℚ) (k : SKind) (c : ℚ) :
    rscalarop .mul a k c = scalarop .mul a k c ∧ (op ≠ .mul → rscalarop op a k c = .error .typeError) := by
  refine ⟨by simp [rscalarop], fun h => by simp [rscalarop, h]⟩

/-- **scalar / zero divisor.**  `a / 0` and `a // 0` are accepted and every entry is "not finite". -/
theorem scalar_div_zero (a : Data ℚ) (k : SKind) (hk : k.accepted = true) :
    scalarop .div a k 0 = .ok (mapData (fun _ => none) a) ∧ scalarop .floordiv a k 0 = .ok (mapData (fun _ => none) a) := by
  constructor <;>
  · simp only [scalarop, hk, if_true, Except.ok.injEq]
    apply mapData_congr
    intro x
    simp [Op.ap]

example : scalarop .div (.dense [[0, 1]] [[3, 0]]) .pyFloat 0 = .ok (.dense [[0, 1]] [[none, none]]) := by
  simpa [mapData] using (scalar_div_zero (.dense [[0, 1]] [[3, 0]]) .pyFloat rfl).1

/-! ## Equality -/

/-- **eq_total.**  `a == b` is a Boolean for every pair of grid datasets — of the same class or
not, of any shapes (by construction: `eq` is a total function into `Bool`; the pristine `eqOld`
is not, see `counterexample_old`). -/
theorem eq_total (a b : Data ℚ) : eq a b = true ∨ eq a b = false := by
  cases eq a b <;> simp

/-- **eq_spec.**  `a == b` is true exactly when the operands have the same class, their
sampling points coincide, their arrays have the same shapes and all values are close. -/
theorem eq_spec (a b : Data ℚ) : eq a b = true ↔ eqSpec a b := eq_iff_eqSpec a b

/-- **eq_spec / closeness is NumPy's documented predicate** `|a − b| ≤ 10⁻⁸ + 10⁻⁵·|b|`
(with Mathlib's absolute value). -/
theorem close_spec (a b : ℚ) : close a b = true ↔ |a - b| ≤ 1 / 100000000 + 1 / 100000 * |b| := by
  rw [close_iff_Close, Close_iff]

/-- **eq_spec / different classes** are never equal. -/
theorem eq_class_mismatch (g : Grid) (r : List (List ℚ)) (x : D (Grid × List ℚ)) :
    eq (.dense g r) (.irreg x) = false ∧ eq (.irreg x) (.dense g r) = false := ⟨rfl, rfl⟩

/-- **eq_spec / different shapes** give `False` (not an error): another number of observations,
a row of another length, another grid; irregular: another number of labels. -/
theorem eq_shape_mismatch :
    (∀ g g' (r r' : List (List ℚ)), r.length ≠ r'.length → eq (.dense g r) (.dense g' r') = false) ∧
    (∀ g g' (r r' : List (List ℚ)), g ≠ g' → eq (.dense g r) (.dense g' r') = false) ∧
    (∀ g (r r' : List (List ℚ)) (i : ℕ) (h : i < r.length) (h' : i < r'.length),
        r[i].length ≠ r'[i].length → eq (.dense g r) (.dense g r') = false) ∧
    (∀ x y : D (Grid × List ℚ), x.length ≠ y.length → eq (.irreg x) (.irreg y) = false) := by
  refine ⟨fun g g' r r' h => ?_, fun g g' r r' h => ?_, fun g r r' i h h' hne => ?_, fun x y h => ?_⟩
  · rw [← Bool.not_eq_true, eq_spec]; exact fun hs => h hs.2.1
  · rw [← Bool.not_eq_true, eq_spec]; exact fun hs => h hs.1
  · rw [← Bool.not_eq_true, eq_spec]; exact fun hs => hne (hs.2.2 i h h').1
  · rw [← Bool.not_eq_true, eq_spec]; exact fun hs => h hs.1

/-- **eq_spec / values matter for irregular data** (the repaired defect): if some observation's
values are not close to those of the observation with the same label, the datasets are not equal. -/
theorem eq_irreg_values_matter {x y : D (Grid × List ℚ)} {p : ℤ × Grid × List ℚ} {q : Grid × List ℚ}
    (hp : p ∈ x) (hq : get? y p.1 = some q) (hne : ¬ CloseList p.2.2 q.2) : eq (.irreg x) (.irreg y) = false := by
  rw [← Bool.not_eq_true, eq_spec]
  intro hs
  obtain ⟨q', hq', -, hc⟩ := hs.2 p hp
  rw [hq] at hq'; cases hq'
  exact hne hc

example : eq (.irreg [(0, ([[0, 1]], [1, 2]))]) (.irreg [(0, ([[0, 1]], [1, 5]))]) = false := by
  apply eq_irreg_values_matter (p := (0, ([[0, 1]], [1, 2]))) (q := ([[0, 1]], [1, 5])) (by simp) rfl
  intro h
  have := h.2 1 (by simp) (by simp)
  rw [Close_iff] at this
  norm_num [abs_of_nonneg, abs_of_neg] at this

/-- **eq_refl.**  Every well-formed dataset equals itself (so a component is always found by
`in` / `remove`, with or without Python's identity shortcut). -/
theorem eq_refl {a : Data ℚ} (ha : a.WF) : eq a a = true := (eq_spec a a).2 (eqSpec_refl ha)

example : eq witnessA witnessA = true := eq_refl (by decide)

/-- **eq / insertion order is irrelevant**: the two witnesses' grids, relabelled consistently,
compare equal whatever the order of the dictionaries (concrete instance; the general statement is
`eq_spec`, whose right-hand side only uses look-ups by label). -/
theorem eq_order_free :
    eq (.irreg [(0, ([[0, 1]], [1, 2])), (1, ([[0, 2]], [3, 4]))])
       (.irreg [(1, ([[0, 2]], [3, 4])), (0, ([[0, 1]], [1, 2]))]) = true := by
  rw [eq_spec]
  refine ⟨rfl, ?_⟩
  intro p hp
  simp only [List.mem_cons, List.not_mem_nil, or_false] at hp
  rcases hp with rfl | rfl
  · exact ⟨_, rfl, rfl, CloseList_refl _⟩
  · exact ⟨_, rfl, rfl, CloseList_refl _⟩

/-- **closeness is reflexive** … -/
theorem close_refl (a : ℚ) : close a a = true := (close_iff_Close a a).2 (Close_refl a)

/-- … **but not symmetric**: the tolerance is relative to the *right* operand, so
`close 1000 (1000 + d)` holds while `close (1000 + d) 1000` fails for `d = 0.0100001`.
Hence `a == b` may hold while `b == a` does not. -/
theorem close_not_symm : ∃ a b : ℚ, close a b = true ∧ close b a = false := by
  refine ⟨1000, 1000 + 100001 / 10000000, ?_, ?_⟩
  · rw [close_spec]; norm_num [abs_of_nonneg, abs_of_neg]
  · rw [← Bool.not_eq_true, close_spec]; norm_num [abs_of_nonneg, abs_of_neg]

/-- … **and not transitive**: `2·10⁻⁸` is close to `10⁻⁸`, `10⁻⁸` is close to `0`, but `2·10⁻⁸` is
not close to `0`.  So `==` is not an equivalence relation and nobody may assume it is;
`remove` / `in` only use it one pair (component, item) at a time. -/
theorem close_not_trans : ∃ a b c : ℚ, close a b = true ∧ close b c = true ∧ close a c = false := by
  refine ⟨2 / 100000000, 1 / 100000000, 0, ?_, ?_, ?_⟩
  · rw [close_spec]; norm_num [abs_of_nonneg]
  · rw [close_spec]; norm_num [abs_of_nonneg]
  · rw [← Bool.not_eq_true, close_spec]; norm_num [abs_of_nonneg]

/-- **counterexample (repaired defect, documentation only).**  The pristine `==`
(`(argvals == argvals) & np.allclose(values, values)`, modelled by `eqOld`) calls two irregular
datasets on the same sampling points with *different values* equal, and raises on dense data of
different shapes; the repaired `eq` answers `false` to both. -/
theorem counterexample_old :
    eqOld (.irreg [(0, ([[0, 1]], [1, 2]))]) (.irreg [(0, ([[0, 1]], [100, -7]))]) = .ok true ∧
    eq (.irreg [(0, ([[0, 1]], [1, 2]))]) (.irreg [(0, ([[0, 1]], [100, -7]))]) = false ∧
    eqOld (.dense [[0, 1, 2]] [[1, 2, 3]]) (.dense [[0, 1]] [[1, 2]]) = .error .valueError ∧
    eq (.dense [[0, 1, 2]] [[1, 2, 3]]) (.dense [[0, 1]] [[1, 2]]) = false := by
  refine ⟨by decide, ?_, by decide, ?_⟩
  · apply eq_irreg_values_matter (p := (0, ([[0, 1]], [1, 2]))) (q := ([[0, 1]], [100, -7])) (by simp) rfl
    intro h
    have := h.2 0 (by simp) (by simp)
    rw [Close_iff] at this
    norm_num [abs_of_nonneg, abs_of_neg] at this
  · exact eq_shape_mismatch.2.1 _ _ _ _ (by decide)

/-! ## Membership: `in` and `remove` on a multivariate object -/

/-- **membership / `in`.**  `x in mfd` is true exactly when some component `c` has `c == x`;
it is a Boolean for every list of components, on whatever grids they live. -/
theorem contains_spec (cs : List (Data ℚ)) (x : Data ℚ) : contains cs x = true ↔ ∃ c ∈ cs, eq c x = true :=
  contains_iff cs x

/-- **membership / `remove` removes the first equal component** and nothing else: it succeeds
with `r` exactly when `cs = pre ++ c :: post`, no component of `pre` equals `x`, `c == x`, and
`r = pre ++ post`. -/
theorem remove_spec (cs : List (Data ℚ)) (x : Data ℚ) (r : List (Data ℚ)) :
    removeFirst cs x = .ok r ↔
      ∃ pre c post, cs = pre ++ c :: post ∧ (∀ d ∈ pre, eq d x = false) ∧ eq c x = true ∧ r = pre ++ post :=
  removeFirst_ok_iff cs x r

/-- **membership / one component fewer.** -/
theorem remove_length {cs r : List (Data ℚ)} {x : Data ℚ} (h : removeFirst cs x = .ok r) :
    r.length + 1 = cs.length := by
  obtain ⟨pre, c, post, rfl, -, -, rfl⟩ := (remove_spec cs x r).1 h
  simp; omega

example : ([] : List (Data ℚ)).length + 1 = [Data.dense [[0, 1]] [[(1 : ℚ), 2]]].length :=
  remove_length (x := .dense [[0, 1]] [[1, 2]]) (by
    rw [remove_spec]; exact ⟨[], _, [], rfl, by simp, eq_refl (by decide), rfl⟩)

/-- **membership / absent item.**  `remove` fails exactly when no component equals the item, and
then with `ValueError` (as `list.remove`); being a pure function, the list is what it was — on
the implementation "unchanged after the error" is sampled by the harness. -/
theorem remove_absent (cs : List (Data ℚ)) (x : Data ℚ) (e : Err) :
    removeFirst cs x = .error e ↔ e = .valueError ∧ contains cs x = false :=
  removeFirst_error_iff cs x e

/-- **membership / works on any mixture of components**: `remove` either removes or raises
`ValueError`, and removes exactly when `in` says the item is there. -/
theorem remove_iff_contains (cs : List (Data ℚ)) (x : Data ℚ) :
    (∃ r, removeFirst cs x = .ok r) ↔ contains cs x = true := by
  cases h : removeFirst cs x with
  | ok r =>
    simp only [Except.ok.injEq, exists_eq', true_iff]
    by_contra hc
    have := (remove_absent cs x .valueError).2 ⟨rfl, by simpa using hc⟩
    rw [h] at this; cases this
  | error e =>
    have := ((remove_absent cs x e).1 h).2
    simp [this]

/-- **membership / a component is always found**: a well-formed component of the object is `in`
it and can be removed. -/
theorem remove_present {cs : List (Data ℚ)} {c : Data ℚ} (hc : c ∈ cs) (hwf : c.WF) :
    contains cs c = true ∧ ∃ r, removeFirst cs c = .ok r := by
  have h : contains cs c = true := (contains_spec cs c).2 ⟨c, hc, eq_refl hwf⟩
  exact ⟨h, (remove_iff_contains cs c).2 h⟩

example : contains [witnessB, witnessA] witnessA = true ∧ ∃ r, removeFirst [witnessB, witnessA] witnessA = .ok r :=
  remove_present (by simp) (by decide)

example : removeFirst [.dense [[0, 1, 2]] [[1, 2, 3]], .dense [[0, 1]] [[1, 2]]] (.dense [[0, 1]] [[1, 2]])
    = .ok [.dense [[0, 1, 2]] [[1, 2, 3]]] := by
  rw [remove_spec]
  refine ⟨[_], _, [], rfl, ?_, eq_refl (by decide), rfl⟩
  intro d hd
  simp only [List.mem_cons, List.not_mem_nil, or_false] at hd
  subst hd
  exact eq_shape_mismatch.2.1 _ _ _ _ (by decide)


/-- `index` returns the first position whose component equals the item; `remove` erases exactly that
position and keeps every other component — also later ones equal to the item — in order. -/
theorem index_first_and_remove : ∀ (cs : List (Data ℚ)) (x : Data ℚ) (k : Nat), indexOf cs x = some k →
    (∃ h : k < cs.length, eq cs[k] x = true ∧ ∀ j (hj : j < k), eq (cs[j]'(by omega)) x = false) ∧
      removeFirst cs x = .ok (cs.eraseIdx k)
  | [], x, k, h => by simp [indexOf] at h
  | c :: cs, x, k, h => by
    unfold indexOf at h
    by_cases hc : eq c x = true
    · simp only [hc, if_true, Option.some.injEq] at h
      subst h
      exact ⟨⟨by simp, by simpa using hc, by intro j hj; omega⟩, by simp [removeFirst, hc]⟩
    · simp only [hc, Bool.false_eq_true, if_false] at h
      cases hi : indexOf cs x with
      | none => simp [hi] at h
      | some k' =>
        simp only [hi, Option.map_some, Option.some.injEq] at h
        subst h
        obtain ⟨⟨hk, h1, h2⟩, hr⟩ := index_first_and_remove cs x k' hi
        refine ⟨⟨by simp; omega, by simpa using h1, ?_⟩, ?_⟩
        · intro j hj
          cases j with
          | zero => simpa using hc
          | succ j => simpa using h2 j (by omega)
        · simp [removeFirst, hc, hr]

/-- `index` fails (`ValueError`) exactly when `in` is `False`, and then `count` is 0. -/
theorem index_none_iff (cs : List (Data ℚ)) (x : Data ℚ) :
    (indexOf cs x = none ↔ contains cs x = false) ∧ (contains cs x = false ↔ countEq cs x = 0) := by
  induction cs with
  | nil => simp [indexOf, contains, countEq]
  | cons c cs ih =>
    by_cases hc : eq c x = true
    · simp [indexOf, contains, countEq, hc]
    · have hc' : eq c x = false := by simpa using hc
      simp only [indexOf, hc', Bool.false_eq_true, if_false, Option.map_eq_none_iff, contains, List.any_cons,
        Bool.false_or, countEq, List.filter_cons] at ih ⊢
      simpa [contains, countEq] using ih

example : indexOf [.dense [[0, 1]] [[3, 4]], .dense [[0, 1]] [[1, 2]], .dense [[0, 1]] [[1, 2]]] (.dense [[0, 1]] [[1, 2]]) = some 1 := by
  simp [indexOf, eq, closeRows, closeList, close, absQ, atol, rtol]; norm_num

/-! ## Non-finite values under `==` -/

/-- What `==` does on non-finite entries (pinned: `np.allclose(…, equal_nan=True)`): NaN equals NaN and
nothing else — a NaN on one side only is a difference; +∞ equals +∞, −∞ equals −∞, infinities of opposite
sign or an infinity against a finite value differ; finite entries compare by the tolerance predicate. -/
theorem close_nonfinite (a b : ℚ) :
    closeX .nan .nan = true ∧ closeX .pinf .pinf = true ∧ closeX .ninf .ninf = true ∧
    closeX .pinf .ninf = false ∧ closeX .ninf .pinf = false ∧
    closeX .nan (.fin a) = false ∧ closeX (.fin a) .nan = false ∧
    closeX .nan .pinf = false ∧ closeX .pinf .nan = false ∧ closeX .nan .ninf = false ∧ closeX .ninf .nan = false ∧
    closeX .pinf (.fin a) = false ∧ closeX (.fin a) .pinf = false ∧
    closeX .ninf (.fin a) = false ∧ closeX (.fin a) .ninf = false ∧
    closeX (.fin a) (.fin b) = close a b := by
  simp [closeX]

/-- Arrays are close iff they have the same length and are close entry by entry: one entry that is NaN
on one side only, or holds infinities of opposite sign, makes the datasets different. -/
theorem close_list_nonfinite : ∀ v w : List XVal, closeListX v w = true ↔
    v.length = w.length ∧ ∀ (i : Nat) (h : i < v.length) (h' : i < w.length), closeX v[i] w[i] = true
  | [], [] => by simp [closeListX]
  | [], b :: w => by simp [closeListX]
  | a :: v, [] => by simp [closeListX]
  | a :: v, b :: w => by
    simp only [closeListX, Bool.and_eq_true, close_list_nonfinite v w, List.length_cons, Nat.add_right_cancel_iff]
    constructor
    · rintro ⟨h0, hl, hall⟩
      refine ⟨hl, fun i h h' => ?_⟩
      cases i with
      | zero => simpa using h0
      | succ i =>
        have := hall i (by simpa using h) (by simpa using h')
        simpa using this
    · rintro ⟨hl, hall⟩
      refine ⟨by simpa using hall 0 (by simp) (by simp), hl, fun i h h' => ?_⟩
      have := hall (i + 1) (by simpa using h) (by simpa using h')
      simp only [List.getElem_cons_succ] at this
      exact this

example : closeListX [.nan, .pinf] [.nan, .pinf] = true ∧ closeListX [.nan] [.fin 0] = false ∧
    closeListX [.pinf] [.ninf] = false := by decide

/-! ## Exact equality: where `==` *is* an equivalence -/

/-- `==` is not transitive in general (`close_not_trans`); restricted to *exactly equal* values it
is an equivalence relation on well-formed datasets: reflexive, … -/
theorem exact_refl {a : Data ℚ} (ha : a.WF) : exactEq a a = true := by
  cases a with
  | dense g r => simp [exactEq]
  | irreg x => exact eqBy_self id ha.1

/-- … symmetric (irregular data: whatever the orders of the two dictionaries; a pigeonhole argument), … -/
theorem exact_symm {a b : Data ℚ} (ha : a.WF) (hb : b.WF) (h : exactEq a b = true) : exactEq b a = true := by
  cases a with
  | dense g r =>
    cases b with
    | dense g' r' =>
      simp only [exactEq, Bool.and_eq_true, decide_eq_true_eq] at h ⊢
      exact ⟨h.1.symm, h.2.symm⟩
    | irreg y => simp [exactEq] at h
  | irreg x =>
    cases b with
    | dense g' r' => simp [exactEq] at h
    | irreg y =>
      simp only [exactEq] at h ⊢
      have hl := ((eqBy_iff id id x y).1 h).1
      rw [eqBy_iff]
      refine ⟨hl.symm, fun p hp => ?_⟩
      have := eqBy_lookup ha.1 h p.1
      simp only [omap_id] at this ⊢
      rw [this, get?_of_mem hb.1 (show (p.1, p.2) ∈ y from hp)]
      rfl

/-- … and transitive. -/
theorem exact_trans {a b c : Data ℚ} (ha : a.WF) (hb : b.WF) (h1 : exactEq a b = true) (h2 : exactEq b c = true) :
    exactEq a c = true := by
  cases a with
  | dense g r =>
    cases b with
    | dense g' r' =>
      cases c with
      | dense g'' r'' =>
        simp only [exactEq, Bool.and_eq_true, decide_eq_true_eq] at h1 h2 ⊢
        exact ⟨h1.1.trans h2.1, h1.2.trans h2.2⟩
      | irreg z => simp [exactEq] at h2
    | irreg y => simp [exactEq] at h1
  | irreg x =>
    cases b with
    | dense g' r' => simp [exactEq] at h1
    | irreg y =>
      cases c with
      | dense g'' r'' => simp [exactEq] at h2
      | irreg z =>
        simp only [exactEq] at h1 h2 ⊢
        have l1 := ((eqBy_iff id id x y).1 h1).1
        have l2 := ((eqBy_iff id id y z).1 h2).1
        rw [eqBy_iff]
        refine ⟨l1.trans l2, fun p hp => ?_⟩
        have e1 := eqBy_lookup ha.1 h1 p.1
        have e2 := eqBy_lookup hb.1 h2 p.1
        simp only [omap_id] at e1 e2 ⊢
        rw [← e2, ← e1, get?_of_mem ha.1 (show (p.1, p.2) ∈ x from hp)]
        rfl

/-- Exactly equal datasets compare equal with `==` (the converse fails: `==` tolerates 10⁻⁸ + 10⁻⁵·|b|). -/
theorem exact_imp_eq {a b : Data ℚ} (ha : a.WF) (h : exactEq a b = true) : eq a b = true := by
  rw [eq_spec]
  cases a with
  | dense g r =>
    cases b with
    | dense g' r' =>
      simp only [exactEq, Bool.and_eq_true, decide_eq_true_eq] at h
      obtain ⟨rfl, rfl⟩ := h
      exact ⟨rfl, CloseRows_refl _⟩
    | irreg y => simp [exactEq] at h
  | irreg x =>
    cases b with
    | dense g' r' => simp [exactEq] at h
    | irreg y =>
      simp only [exactEq] at h
      obtain ⟨hl, hall⟩ := (eqBy_iff id id x y).1 h
      refine ⟨hl, fun p hp => ?_⟩
      have := hall p hp
      simp only [omap_id] at this
      exact ⟨p.2, this, rfl, CloseList_refl _⟩

example : exactEq (.irreg [(0, ([[0, 1]], [1, 2])), (1, ([[0, 2]], [3, 4]))]) (.irreg [(1, ([[0, 2]], [3, 4])), (0, ([[0, 1]], [1, 2]))]) = true := by
  decide

/-! ## Multivariate objects: inherited list operators, not arithmetic -/

/-- `mfd + other` is the *concatenation of the component lists* (through the constructor, hence the
number-of-observations check), never a pointwise sum: the components of the left operand come out
unchanged, followed by those of the right operand. -/
theorem mv_add_is_concatenation {cs ds r : List (Data ℚ)} (h : mvAdd cs ds = .ok r) :
    r = cs ++ ds ∧ r.length = cs.length + ds.length := by
  unfold mvAdd at h
  split at h
  · cases h; exact ⟨rfl, List.length_append⟩
  · cases h

/-- … rejected (`ValueError`) exactly when the numbers of observations do not all agree. -/
theorem mv_add_rejects (cs ds : List (Data ℚ)) :
    mvAdd cs ds = .error .valueError ↔ allSameNobs (cs ++ ds) = false := by
  unfold mvAdd
  split <;> simp_all

/-- `mfd * k` repeats the list of components `k` times (`k ≤ 0`: no component) and always succeeds on
an object whose components agree on the number of observations. -/
theorem mv_mul_is_repetition (cs : List (Data ℚ)) (k : Int) (h : allSameNobs cs = true) :
    mvMul cs k = .ok (List.replicate k.toNat cs).flatten ∧
      ((List.replicate k.toNat cs).flatten).length = k.toNat * cs.length := by
  have hall : allSameNobs (List.replicate k.toNat cs).flatten = true := by
    cases cs with
    | nil =>
      have : (List.replicate k.toNat ([] : List (Data ℚ))).flatten = [] := by
        induction k.toNat with
        | zero => rfl
        | succ n ih => simp [List.replicate_succ, ih]
      rw [this]; rfl
    | cons c t =>
      simp only [allSameNobs, List.all_eq_true, beq_iff_eq] at h
      have hmem : ∀ d ∈ (List.replicate k.toNat (c :: t)).flatten, d.nObs = c.nObs := by
        intro d hd
        obtain ⟨l, hl, hdl⟩ := List.mem_flatten.1 hd
        rw [List.eq_of_mem_replicate hl] at hdl
        rcases List.mem_cons.1 hdl with rfl | hdt
        · rfl
        · exact h d hdt
      cases hr : (List.replicate k.toNat (c :: t)).flatten with
      | nil => rfl
      | cons e es =>
        rw [hr] at hmem
        simp only [allSameNobs, List.all_eq_true, beq_iff_eq]
        intro d hd
        rw [hmem d (List.mem_cons_of_mem _ hd), hmem e List.mem_cons_self]
  refine ⟨by simp [mvMul, hall], ?_⟩
  simp [List.length_flatten]

/-- `mfd == other` is list equality: equal iff the same number of components and pairwise `==`. -/
theorem mv_eq_spec : ∀ cs ds : List (Data ℚ), mvEq cs ds = true ↔
    cs.length = ds.length ∧ ∀ (i : Nat) (h : i < cs.length) (h' : i < ds.length), eq cs[i] ds[i] = true
  | [], [] => by simp [mvEq]
  | [], d :: ds => by simp [mvEq]
  | c :: cs, [] => by simp [mvEq]
  | c :: cs, d :: ds => by
    simp only [mvEq, Bool.and_eq_true, mv_eq_spec cs ds, List.length_cons, Nat.add_right_cancel_iff]
    constructor
    · rintro ⟨h0, hl, hall⟩
      refine ⟨hl, fun i h h' => ?_⟩
      cases i with
      | zero => simpa using h0
      | succ i => simpa using hall i (by simpa using h) (by simpa using h')
    · rintro ⟨hl, hall⟩
      refine ⟨by simpa using hall 0 (by simp) (by simp), hl, fun i h h' => ?_⟩
      have := hall (i + 1) (by simpa using h) (by simpa using h')
      simp only [List.getElem_cons_succ] at this
      exact this

example : mvAdd [.dense [[0, 1]] [[1, 2]]] [.dense [[0, 1]] [[3, 4]]] = .ok [.dense [[0, 1]] [[1, 2]], .dense [[0, 1]] [[3, 4]]] := by
  decide


/-! ## The dispatch read from the source is the guard of the model -/

/-- For every operator method of `GridFunctionalData` (`__add__ … __floordiv__`, and the reflected ones) and every
operand kind of the zoo, the routing the translator read from the source (`Generated/Dispatch.lean`, re-generated on
every run: which `isinstance` branch applies, which of `_perform_computation` / `_perform_computation_number` is
called with which NumPy function, what is raised otherwise, which reflected methods exist and where they delegate)
is the guard of the model. -/
theorem dispatch_src_eq_model (name : FDA.PyDispatch.OpName) (o : FDA.PyDispatch.Operand) :
    FDA.PyDispatch.resolve FDA.Generated.Dispatch.srcMethod name o = FDA.PyDispatch.modelRoute name o := by
  cases name <;> cases o <;> first
    | rfl
    | (rename_i k; cases k <;> rfl)

/-- … and that guard is the one `scalarop` / `rscalarop` / `binop` apply: a scalar operand reaches the scalar
computation iff its kind is accepted, otherwise the operation is a `TypeError`; functional data always reach the
compatibility-checked computation; of the reflected methods only `__rmul__` exists. -/
theorem model_route_is_guard (op : Op) (a : Data ℚ) (k : SKind) (c : ℚ) :
    (FDA.PyDispatch.modelRoute (match op with | .add => .add | .sub => .sub | .mul => .mul | .div => .truediv | .floordiv => .floordiv)
        (.scalar k) = some (.number (FDA.PyDispatch.ufuncOf op)) ↔ scalarop op a k c = .ok (mapData (fun x => op.ap x c) a)) ∧
    (FDA.PyDispatch.modelRoute (match op with | .add => .add | .sub => .sub | .mul => .mul | .div => .truediv | .floordiv => .floordiv)
        (.scalar k) = some (.raise .typeError) ↔ scalarop op a k c = .error .typeError) ∧
    (∀ name : FDA.PyDispatch.OpName, name.isReflected = true → name ≠ .rmul → FDA.PyDispatch.modelRoute name (.scalar k) = none) := by
  refine ⟨?_, ?_, ?_⟩
  · cases op <;> cases hk : k.accepted <;> simp [FDA.PyDispatch.modelRoute, FDA.PyDispatch.OpName.isReflected, FDA.PyDispatch.OpName.op, scalarop, hk]
  · cases op <;> cases hk : k.accepted <;> simp [FDA.PyDispatch.modelRoute, FDA.PyDispatch.OpName.isReflected, FDA.PyDispatch.OpName.op, scalarop, hk]
  · intro name h1 h2
    cases name <;> simp_all [FDA.PyDispatch.modelRoute, FDA.PyDispatch.OpName.isReflected]

end C12
