/-
C18 — basis families have their defining analytic properties.
Only property theorems and non-vacuity examples live here; helper lemmas are in
`FDAProofs/Lemmas/BSpline.lean` and `FDAProofs/Lemmas/Bases.lean`.

All B-spline theorems are about `FDA.BSpline.bsplineBasis`, the step-by-step model of
`_basis_bsplines` that `Drivers/C18.lean` evaluates, for EVERY degree, EVERY number of
functions, EVERY domain and EVERY evaluation point (no bounds).
-/
import FDAProofs.Lemmas.BSpline
import FDAProofs.Lemmas.Bases
import FDAProofs.Lemmas.LegendreReal
import FDAProofs.Lemmas.TrigBases
import FDAProofs.Lemmas.TrigDiscrete
import FDAModel.Generated.BasisFormulas

namespace C18
open FDA FDA.BSpline FDA.Bases Finset intervalIntegral

/-! ## B-splines -/

/-- In exact arithmetic `np.linspace` produces the equally spaced extended knot sequence
`t_j = domain_min + (j − degree)·dx`. -/
theorem knots_uniform (dmin dmax : ℚ) (nfun p : ℕ) (hp : p < nfun) (j : ℕ) :
    knots dmin dmax nfun p j = dmin + ((j : ℚ) - p) * ((dmax - dmin) / ((nfun - p : ℕ) : ℚ)) :=
  knots_eq dmin dmax nfun p hp j

/-- The coded matrix product `(−1)^(p+1)·p_mat @ d_mat.T` is the cardinal B-spline
`N_p((x − t_j)/dx)`, `N_p(u) = (1/p!) Σ_i (−1)^i C(p+1,i) (u−i)₊^p`. -/
theorem truncated_power_is_cardinal (dmin dmax : ℚ) (nfun p : ℕ) (hp : p < nfun) (hd : dmin < dmax)
    (x : ℚ) (j : ℕ) (hj : j < nfun) :
    basisRaw dmin dmax nfun p x j
      = cardinal p ((x - uniformKnot dmin dmax nfun p j) / dx dmin dmax nfun p) :=
  basisRaw_eq_cardinal dmin dmax nfun p hp hd x j hj

example : basisRaw 0 1 4 3 (1 / 2) 1 = cardinal 3 ((1 / 2 - uniformKnot 0 1 4 3 1) / dx 0 1 4 3) :=
  truncated_power_is_cardinal 0 1 4 3 (by norm_num) (by norm_num) _ 1 (by norm_num)

/-- The end-knot mask is the identity in exact arithmetic: the unmasked product already
vanishes at and beyond the end knot of each function. -/
theorem mask_is_identity (dmin dmax : ℚ) (nfun p : ℕ) (hp : p < nfun) (hd : dmin < dmax)
    (x : ℚ) (j : ℕ) (hj : j < nfun) :
    bsplineBasis dmin dmax nfun p x j = basisRaw dmin dmax nfun p x j :=
  FDA.BSpline.mask_is_identity dmin dmax nfun p hp hd x j hj

/-- The coded basis coincides with the cardinal B-spline on the equally spaced knots. -/
theorem bspline_eq_cardinal (dmin dmax : ℚ) (nfun p : ℕ) (hp : p < nfun) (hd : dmin < dmax)
    (x : ℚ) (j : ℕ) (hj : j < nfun) :
    bsplineBasis dmin dmax nfun p x j
      = cardinal p ((x - uniformKnot dmin dmax nfun p j) / dx dmin dmax nfun p) := by
  rw [mask_is_identity dmin dmax nfun p hp hd x j hj,
    truncated_power_is_cardinal dmin dmax nfun p hp hd x j hj]

/-- B-splines are non-negative: every degree, every point (inside or outside the domain). -/
theorem nonneg (dmin dmax : ℚ) (nfun p : ℕ) (hp : p < nfun) (hd : dmin < dmax)
    (x : ℚ) (j : ℕ) (hj : j < nfun) :
    0 ≤ bsplineBasis dmin dmax nfun p x j := by
  rw [bspline_eq_cardinal dmin dmax nfun p hp hd x j hj]
  exact cardinal_nonneg p _

example : 0 ≤ bsplineBasis (-1) 3 7 2 (5 / 3) 4 :=
  nonneg (-1) 3 7 2 (by norm_num) (by norm_num) _ 4 (by norm_num)

/-- Partition of unity on the whole closed domain `[domain_min, domain_max]` (both end
points included), for every degree `≥ 1` and every number of functions. -/
theorem partition_of_unity (dmin dmax : ℚ) (nfun p : ℕ) (hp1 : 1 ≤ p) (hp : p < nfun)
    (hd : dmin < dmax) (x : ℚ) (hlo : dmin ≤ x) (hhi : x ≤ dmax) :
    ∑ j ∈ range nfun, bsplineBasis dmin dmax nfun p x j = 1 := by
  have hh := dx_pos dmin dmax nfun p hp hd
  have hs := nSeg_pos nfun p hp
  set h := dx dmin dmax nfun p with hdef
  set u0 := (x - uniformKnot dmin dmax nfun p 0) / h with hu0
  have hterm : ∀ j ∈ range nfun, bsplineBasis dmin dmax nfun p x j = cardinal p (u0 - j) := by
    intro j hj
    rw [bspline_eq_cardinal dmin dmax nfun p hp hd x j (mem_range.mp hj)]
    congr 1
    rw [uniformKnot_eq dmin dmax nfun p j, ← hdef, hu0]; field_simp; ring
  rw [Finset.sum_congr rfl hterm]
  have hwidth : dmax - dmin = (nSeg nfun p : ℚ) * h := by
    rw [hdef]; unfold dx; field_simp
  have hu0' : u0 = (x - dmin) / h + p := by
    rw [hu0]; unfold uniformKnot; rw [← hdef]; field_simp; push_cast; ring
  apply sum_cardinal p nfun u0 hp1
  · rw [hu0']
    have : 0 ≤ (x - dmin) / h := div_nonneg (by linarith) hh.le
    linarith
  · rw [hu0']
    have h1 : (x - dmin) / h ≤ (nSeg nfun p : ℚ) := by
      rw [div_le_iff₀ hh]; linarith
    have h2 : ((nSeg nfun p + p : ℕ) : ℚ) = (nfun : ℚ) := by rw [nSeg_add nfun p hp]
    push_cast at h2
    linarith

example : ∑ j ∈ range 9, bsplineBasis (-2) 5 9 4 5 j = 1 :=
  partition_of_unity (-2) 5 9 4 (by norm_num) (by norm_num) (by norm_num) 5 (by norm_num) (by norm_num)

/-- Local support: function `j` vanishes outside `[t_j, t_{j+p+1})`. -/
theorem local_support (dmin dmax : ℚ) (nfun p : ℕ) (hp : p < nfun) (hd : dmin < dmax)
    (x : ℚ) (j : ℕ) (hj : j < nfun)
    (hx : x < knots dmin dmax nfun p j ∨ knots dmin dmax nfun p (j + p + 1) ≤ x) :
    bsplineBasis dmin dmax nfun p x j = 0 := by
  have hh := dx_pos dmin dmax nfun p hp hd
  rcases hx with hx | hx
  · rw [bspline_eq_cardinal dmin dmax nfun p hp hd x j hj, cardinal_eq_zero_of_neg]
    rw [knots_eq dmin dmax nfun p hp] at hx
    exact div_neg_of_neg_of_pos (by linarith) hh
  · unfold bsplineBasis basisWith maskWith
    rw [if_neg (not_lt.mpr hx)]; simp

/-- A non-zero value localises the point: `t_j ≤ x < t_{j+p+1}`. -/
theorem support_interval (dmin dmax : ℚ) (nfun p : ℕ) (hp : p < nfun) (hd : dmin < dmax)
    (x : ℚ) (j : ℕ) (hj : j < nfun) (hne : bsplineBasis dmin dmax nfun p x j ≠ 0) :
    knots dmin dmax nfun p j ≤ x ∧ x < knots dmin dmax nfun p (j + p + 1) := by
  by_contra hcon
  apply hne
  apply local_support dmin dmax nfun p hp hd x j hj
  by_cases h1 : knots dmin dmax nfun p j ≤ x
  · right
    by_contra h2
    exact hcon ⟨h1, not_le.mp h2⟩
  · left; exact not_le.mp h1

/-- At most `degree + 1` functions are non-zero at any point. -/
theorem at_most_degree_plus_one (dmin dmax : ℚ) (nfun p : ℕ) (hp : p < nfun) (hd : dmin < dmax)
    (x : ℚ) :
    ((range nfun).filter fun j => bsplineBasis dmin dmax nfun p x j ≠ 0).card ≤ p + 1 := by
  have hh := dx_pos dmin dmax nfun p hp hd
  set S := (range nfun).filter fun j => bsplineBasis dmin dmax nfun p x j ≠ 0 with hS
  by_cases hne : S.Nonempty
  · set j0 := S.min' hne with hj0
    have hsub : S ⊆ Finset.Icc j0 (j0 + p) := by
      intro j hjS
      have hj0S : j0 ∈ S := Finset.min'_mem S hne
      have hjmem := Finset.mem_filter.mp hjS
      have hj0mem := Finset.mem_filter.mp hj0S
      have h1 := support_interval dmin dmax nfun p hp hd x j (mem_range.mp hjmem.1) hjmem.2
      have h2 := support_interval dmin dmax nfun p hp hd x j0 (mem_range.mp hj0mem.1) hj0mem.2
      rw [knots_eq dmin dmax nfun p hp, knots_eq dmin dmax nfun p hp] at h1 h2
      rw [Finset.mem_Icc]
      refine ⟨Finset.min'_le S j hjS, ?_⟩
      -- t_j ≤ x < t_{j0+p+1}  ⇒  j < j0 + p + 1
      have hlt : uniformKnot dmin dmax nfun p j < uniformKnot dmin dmax nfun p (j0 + p + 1) :=
        lt_of_le_of_lt h1.1 h2.2
      unfold uniformKnot at hlt
      have : ((j : ℚ) - p) < (((j0 + p + 1 : ℕ) : ℚ) - p) := by
        by_contra hc
        have hc := not_lt.mp hc
        have := mul_le_mul_of_nonneg_right hc hh.le
        linarith
      have : (j : ℚ) < ((j0 + p + 1 : ℕ) : ℚ) := by linarith
      have : j < j0 + p + 1 := by exact_mod_cast this
      omega
    calc S.card ≤ (Finset.Icc j0 (j0 + p)).card := Finset.card_le_card hsub
      _ = p + 1 := by rw [Nat.card_Icc]; omega
  · rw [Finset.not_nonempty_iff_eq_empty.mp hne]; simp

/-- The coded basis coincides with the Cox–de Boor B-splines on the coded (equally spaced,
extended) knot sequence — every degree, every function, every point. -/
theorem cox_de_boor (dmin dmax : ℚ) (nfun p : ℕ) (hp : p < nfun) (hd : dmin < dmax)
    (x : ℚ) (j : ℕ) (hj : j < nfun) :
    bsplineBasis dmin dmax nfun p x j = coxDeBoor (knots dmin dmax nfun p) p j x := by
  have hh := dx_pos dmin dmax nfun p hp hd
  rw [bspline_eq_cardinal dmin dmax nfun p hp hd x j hj]
  have ht : ∀ k : ℕ, knots dmin dmax nfun p k
      = uniformKnot dmin dmax nfun p 0 + k * dx dmin dmax nfun p := by
    intro k; rw [knots_eq dmin dmax nfun p hp, uniformKnot_eq]
  rw [coxDeBoor_uniform _ _ hh _ ht p j x, knots_eq dmin dmax nfun p hp]

example : bsplineBasis 0 2 6 3 (3 / 4) 2 = coxDeBoor (knots 0 2 6 3) 3 2 (3 / 4) :=
  cox_de_boor 0 2 6 3 (by norm_num) (by norm_num) _ 2 (by norm_num)

/-- What the driver runs (`basisWith` on tabulated copies of the knot vector and of the
difference matrix) is `bsplineBasis`. -/
theorem driver_refinement (dmin dmax : ℚ) (nfun p : ℕ) (kn : ℕ → ℚ) (D : ℕ → ℕ → ℚ)
    (hkn : ∀ k < nKnots nfun p, kn k = knots dmin dmax nfun p k)
    (hD : ∀ j < nfun, ∀ k < nKnots nfun p, D j k = dMat dmin dmax nfun p j k)
    (hp : p < nfun) (x : ℚ) (j : ℕ) (hj : j < nfun) :
    basisWith (nKnots nfun p) p kn D x j = bsplineBasis dmin dmax nfun p x j := by
  have hK : j + p + 1 < nKnots nfun p := by
    have := nSeg_add nfun p hp; unfold nKnots; omega
  unfold bsplineBasis basisWith basisRawWith maskWith
  rw [hkn _ hK]
  congr 2
  apply Finset.sum_congr rfl
  intro k hk
  rw [hkn k (mem_range.mp hk), hD j hj k (mem_range.mp hk)]

/-! ## Legendre polynomials -/

/-- Bonnet's recursion `(n+2)·P_{n+2}(x) = (2n+3)·x·P_{n+1}(x) − (n+1)·P_n(x)`,
`P_0 = 1`, `P_1 = x` — every degree. -/
theorem legendre_recurrence (n : ℕ) (x : ℚ) :
    legendre 0 x = 1 ∧ legendre 1 x = x ∧
    ((n : ℚ) + 2) * legendre (n + 2) x
      = (2 * (n : ℚ) + 3) * x * legendre (n + 1) x - ((n : ℚ) + 1) * legendre n x :=
  ⟨rfl, rfl, FDA.Bases.legendre_bonnet n x⟩

/-- The coefficient lists used for the orthogonality statement evaluate to the Legendre
values the driver computes — every degree, every point. -/
theorem legendre_coeffs_eval (n : ℕ) (x : ℚ) :
    polyEval (legendreCoeffs n) x = legendre n x :=
  FDA.Bases.polyEval_legendreCoeffs n x

/-- Orthogonality on `[-1, 1]` with the exact polynomial integral, degrees `< 16`
(sizes 1..15 of the property, one more for the no-intercept variant):
`∫ P_m P_n = 0` for `m ≠ n` and `2/(2n+1)` for `m = n`.
Partial: the general-degree statement is `C18.legendre_orthogonal_statement`. -/
theorem legendre_orthogonal_partial (m n : ℕ) (hm : m < 16) (hn : n < 16) :
    legendreInner m n = if m = n then 2 / (2 * (n : ℚ) + 1) else 0 :=
  FDA.Bases.legendreInner_of_check 16 (by decide +kernel) m n hm hn

/-- The full statement (all degrees); proved for degrees `< 16` above. -/
def legendre_orthogonal_statement : Prop :=
  ∀ m n : ℕ, legendreInner m n = if m = n then 2 / (2 * (n : ℚ) + 1) else 0

/-- `polyIntSym` is the integral: it is additive, homogeneous and integrates monomials to
`(1 − (−1)^(k+1))/(k+1)`, i.e. it is the term-by-term antiderivative difference on `[-1,1]`. -/
theorem polyIntSym_monomial (k : ℕ) :
    polyIntSym (List.replicate k 0 ++ [1]) = (1 - (-1) ^ (k + 1)) / ((k : ℚ) + 1) :=
  FDA.Bases.polyIntSym_monomial k

/-- Orthogonality of the Legendre polynomials as a statement about integrals over `ℝ`:
`∫_{-1}^{1} P_m(x) P_n(x) dx = 0` (`m ≠ n`), `2/(2n+1)` (`m = n`), degrees `< 16`; `P_n` is the
real polynomial with the coefficient list whose rational values are the model's `legendre n`
(`C18.legendre_coeffs_eval`). -/
theorem legendre_orthogonal_real_partial (m n : ℕ) (hm : m < 16) (hn : n < 16) :
    ∫ x in (-1:ℝ)..1, polyEvalR (legendreCoeffs m) x * polyEvalR (legendreCoeffs n) x
      = if m = n then 2 / (2 * (n : ℝ) + 1) else 0 := by
  simp_rw [← polyEvalR_mul]
  rw [integral_polyEvalR]
  have h := legendre_orthogonal_partial m n hm hn
  unfold legendreInner at h
  rw [h]
  by_cases hmn : m = n
  · rw [if_pos hmn, if_pos hmn]; push_cast; ring
  · rw [if_neg hmn, if_neg hmn]; simp

/-- The real Legendre polynomial takes the model's rational values at rational points. -/
theorem legendre_real_eval (n : ℕ) (x : ℚ) :
    polyEvalR (legendreCoeffs n) (x : ℝ) = ((legendre n x : ℚ) : ℝ) := by
  rw [polyEvalR_cast, legendre_coeffs_eval]

/-! ## Fourier and Wiener functions (continuous statements over `ℝ`)

The driver evaluates the same formulas with `Float`; the quadrature error of a discrete
grid is not part of these statements (partial clause). -/

/-- The Wiener functions `√2·sin((k−½)πt)`, `k ≥ 1`, are orthonormal on `[0, 1]`. -/
theorem wiener_orthonormal (j k : ℕ) (hj : 1 ≤ j) (hk : 1 ≤ k) :
    ∫ t in (0:ℝ)..1, BasesReal.wiener j t * BasesReal.wiener k t = if j = k then 1 else 0 :=
  BasesReal.wiener_orthonormal j k hj hk

/-- The Fourier functions of `_basis_fourier` (constant, then `cos`/`sin` pairs in the angle
`2π(t−a)/(b−a) − π`) are orthonormal on the interval `[a, b]` spanned by the grid, every size. -/
theorem fourier_orthonormal (a b : ℝ) (hab : a < b) (j k : ℕ) :
    ∫ t in a..b, BasesReal.fourier a b j t * BasesReal.fourier a b k t = if j = k then 1 else 0 :=
  BasesReal.fourier_orthonormal a b hab j k

example : ∫ t in (0:ℝ)..2, BasesReal.fourier 0 2 1 t * BasesReal.fourier 0 2 2 t = 0 := by
  rw [fourier_orthonormal 0 2 (by norm_num)]; simp

/-- Discrete version (no quadrature error): on the uniform grid `0, 1/N, …, 1` the trapezoid rule
(`np.trapz`) applied to `φ_j·φ_k` returns exactly `δ_jk`, for all `j + k ≤ 2N`. -/
theorem wiener_discrete_orthonormal (N j k : ℕ) (hN : 0 < N) (hj : 1 ≤ j) (hk : 1 ≤ k) (hjk : j + k ≤ 2 * N) :
    BasesReal.trapzU 0 1 N (fun t => BasesReal.wiener j t * BasesReal.wiener k t) = if j = k then 1 else 0 :=
  BasesReal.wiener_discrete_orthonormal N j k hN hj hk hjk

example : BasesReal.trapzU 0 1 8 (fun t => BasesReal.wiener 3 t * BasesReal.wiener 5 t) = 0 := by
  rw [wiener_discrete_orthonormal 8 3 5 (by norm_num) (by norm_num) (by norm_num) (by norm_num)]; simp

/-- Discrete version for the Fourier functions: on the uniform grid with `N` intervals spanning `[a, b]`
(the interval spanned by the grid) the trapezoid rule applied to `f_j·f_k` returns exactly `δ_jk`
whenever the two frequencies `⌈j/2⌉ + ⌈k/2⌉` add up to less than `N` — every interval, every `N`. -/
theorem fourier_discrete_orthonormal (a b : ℝ) (hab : a < b) (N : ℕ) (hN : 0 < N) (j k : ℕ)
    (hfreq : (j + 1) / 2 + (k + 1) / 2 < N) :
    BasesReal.trapzU a b N (fun t => BasesReal.fourier a b j t * BasesReal.fourier a b k t)
      = if j = k then 1 else 0 :=
  BasesReal.fourier_discrete_orthonormal a b hab N hN j k hfreq

example : BasesReal.trapzU 1 3 16 (fun t => BasesReal.fourier 1 3 4 t * BasesReal.fourier 1 3 4 t) = 1 := by
  rw [fourier_discrete_orthonormal 1 3 (by norm_num) 16 (by norm_num) 4 4 (by norm_num)]; simp

/-! ## Normalisation, intercept, tensor products -/

/-- The normalisation option yields unit norms with respect to the quadrature used
(any weight-based rule `Q(f) = Σ w_j f_j`, in particular Simpson's): if `r_k² = Q(V_k²)`
and `r_k ≠ 0` then `Q((V_k / r_k)²) = 1`. -/
theorem normalized_unit (m : ℕ) (w : ℕ → ℚ) (V : ℕ → ℕ → ℚ) (r : ℕ → ℚ) (k : ℕ)
    (hr : r k ^ 2 = quad m w (fun j => V k j ^ 2)) (hr0 : r k ≠ 0) :
    quad m w (fun j => normalizeWith r V k j ^ 2) = 1 := by
  unfold normalizeWith
  have : ∀ j, (V k j / r k) ^ 2 = (1 / r k ^ 2) * V k j ^ 2 := by
    intro j; field_simp
  simp_rw [this]
  unfold quad at hr ⊢
  have h2 : ∑ j ∈ range m, w j * (1 / r k ^ 2 * V k j ^ 2)
      = (1 / r k ^ 2) * ∑ j ∈ range m, w j * V k j ^ 2 := by
    rw [Finset.mul_sum]; apply Finset.sum_congr rfl; intro j _; ring
  rw [h2, ← hr]
  field_simp

example : quad 2 (fun _ => 1 / 4) (fun j => normalizeWith (fun _ => 5) (fun _ j => if j = 0 then 6 else 8) 0 j ^ 2) = 1 :=
  normalized_unit 2 _ _ _ 0 (by norm_num [quad, Finset.sum_range_succ]) (by norm_num)

/-- Square-root-free form compared by the driver: the squares of the normalised values
integrate to one whenever the squared norm is non-zero. -/
theorem normalizedSq_unit (m : ℕ) (w : ℕ → ℚ) (V : ℕ → ℕ → ℚ) (k : ℕ)
    (h0 : quad m w (fun j => V k j ^ 2) ≠ 0) :
    quad m w (normalizedSq m w V k) = 1 := by
  unfold normalizedSq normalizedSqQ
  set q := quad m w (fun j => V k j ^ 2) with hq
  have : quad m w (fun j => V k j ^ 2 / q) = (1 / q) * quad m w (fun j => V k j ^ 2) := by
    unfold quad; rw [Finset.mul_sum]; apply Finset.sum_congr rfl; intro j _; ring
  rw [this, ← hq]; field_simp

/-- Dropping the intercept removes exactly the first function: without intercept the
result is rows `1, 2, …` of the family with one more function. -/
theorem no_intercept (F : ℕ → ℕ → ℕ → ℚ) (n k j : ℕ) :
    simulate F n false k j = simulate F (n + 1) true (k + 1) j := by
  simp [simulate]

/-- With intercept the family is returned unchanged. -/
theorem with_intercept (F : ℕ → ℕ → ℕ → ℚ) (n : ℕ) : simulate F n true = F n := by
  simp [simulate]

/-- `np.kron` index law: `kron(A,B)[i·r₂+j, a·c₂+b] = A[i,a]·B[j,b]`. -/
theorem kron_index (r₂ c₂ : ℕ) (A B : ℕ → ℕ → ℚ) (i j a b : ℕ) (hj : j < r₂) (hb : b < c₂) :
    kron r₂ c₂ A B (i * r₂ + j) (a * c₂ + b) = A i a * B j b :=
  FDA.Bases.kron_apply r₂ c₂ A B i j a b hj hb

example : kron 2 3 (fun i a => (i + 2 * a : ℚ)) (fun j b => (j * b + 1 : ℚ)) (1 * 2 + 1) (2 * 3 + 2)
    = ((1 + 2 * 2 : ℕ) : ℚ) * ((1 * 2 + 1 : ℕ) : ℚ) := by
  rw [kron_index 2 3 _ _ 1 1 2 2 (by norm_num) (by norm_num)]; norm_num

/-- Multi-dimensional bases are the tensor products of the marginal bases in row-major
order: function `i·K₂ + j` at grid point `(a, b)` is `V₁[i,a]·V₂[j,b]`. -/
theorem tensor_row_major (K₂ m₂ : ℕ) (V₁ V₂ : ℕ → ℕ → ℚ) (i j a b : ℕ) (hj : j < K₂) (hb : b < m₂) :
    basis2 K₂ m₂ V₁ V₂ (i * K₂ + j) a b = V₁ i a * V₂ j b := by
  unfold basis2; exact kron_index K₂ m₂ V₁ V₂ i j a b hj hb

/-- Three input dimensions: function `(i·K₂ + j)·K₃ + k` at grid point `(a, b, c)` is
`V₁[i,a]·V₂[j,b]·V₃[k,c]` — the row-major triple tensor product (`kron_index` iterated). -/
theorem tensor_row_major_3d (K₂ m₂ K₃ m₃ : ℕ) (V₁ V₂ V₃ : ℕ → ℕ → ℚ) (i j k a b c : ℕ)
    (hj : j < K₂) (hb : b < m₂) (hk : k < K₃) (hc : c < m₃) :
    basis3 K₂ m₂ K₃ m₃ V₁ V₂ V₃ ((i * K₂ + j) * K₃ + k) a b c = V₁ i a * V₂ j b * V₃ k c := by
  unfold basis3
  rw [kron_index K₃ m₃ _ V₃ (i * K₂ + j) k (a * m₂ + b) c hk hc, kron_index K₂ m₂ V₁ V₂ i j a b hj hb]

example : basis3 2 2 3 2 (fun i a => (i + a + 1 : ℚ)) (fun j b => (2 * j + b : ℚ)) (fun k c => (k * c + 1 : ℚ))
    ((1 * 2 + 1) * 3 + 2) 1 0 1 = ((1 + 1 + 1 : ℕ) : ℚ) * ((2 * 1 + 0 : ℕ) : ℚ) * ((2 * 1 + 1 : ℕ) : ℚ) := by
  rw [tensor_row_major_3d 2 2 3 2 _ _ _ 1 1 2 1 0 1 (by norm_num) (by norm_num) (by norm_num) (by norm_num)]
  norm_num

/-! ## The formulas as the SOURCE has them (`Generated/BasisFormulas.lean`, regenerated from `FDApy/misc/basis.py` on every
run by `harness/c18_translate.py`) are the model's -/

section Source
open FDA.Generated.Basis

/-- Closes what unfolding leaves of "source formula = model formula": nothing, or an identity that `ring_nf` settles
(also inside the arguments of `sin`, `cos`, `√`), so that harmless rewritings of the source re-prove. -/
macro "src_close" : tactic =>
  `(tactic| first | rfl | (push_cast; ring_nf; done) | (simp; done) | (push_cast; simp; ring_nf; done) | (push_cast; field_simp; ring_nf; done) | omega)

/-- `_basis_wiener` as written in the source fills row `r` (for every `r < n`) with the model's `√2·sin((r+1−½)πt)`. -/
theorem wiener_src_eq_model (n r : ℕ) (hr : r < n) :
    wienerLo n ≤ r + 1 ∧ r + 1 < wienerHi n ∧ wienerRow (r + 1) = r ∧
      ∀ t : ℝ, wienerRhs (r + 1) t = BasesReal.wiener (r + 1) t := by
  refine ⟨?_, ?_, ?_, ?_⟩
  · unfold wienerLo; omega
  · unfold wienerHi; omega
  · unfold wienerRow; omega
  · intro t; unfold wienerRhs BasesReal.wiener; src_close

/-- `_basis_fourier` as written in the source: the constant row is the model's function 0 and, for every `k ≥ 1`
inside the loop range, row `k` is the model's function `k` (which parity gets `cos`, which `sin`, the frequency
`(k+1)//2`, the phase map and the two constants), with `a = min`, `L = ptp = b − a`. -/
theorem fourier_src_eq_model (a b : ℝ) (n k : ℕ) (t : ℝ) :
    fourierConst a (b - a) = BasesReal.fourier a b 0 t ∧
    (1 ≤ k → k < n → fourierLo n ≤ k ∧ k < fourierHi n ∧ fourierRow a (b - a) k t = BasesReal.fourier a b k t) := by
  constructor
  · unfold fourierConst BasesReal.fourier; simp
  · intro hk hkn
    refine ⟨by unfold fourierLo; omega, by unfold fourierHi; omega, ?_⟩
    have hk0 : k ≠ 0 := by omega
    unfold fourierRow BasesReal.fourier BasesReal.fourierAngle
    rcases Nat.mod_two_eq_zero_or_one k with h | h <;> split_ifs <;>
      first
        | omega
        | rfl
        | (congr 2; push_cast; ring_nf; done)
        | (congr 1; push_cast; ring_nf; done)
        | src_close

/-- `_basis_legendre`: row `r` is `eval_legendre(r, ·)` for every `r < n`. -/
theorem legendre_src_eq_model (n r : ℕ) (hr : r < n) :
    legendreLo n ≤ r ∧ r < legendreHi n ∧ legendreRow r = r ∧ legendreDeg r = r := by
  refine ⟨?_, ?_, ?_, ?_⟩ <;> simp [legendreLo, legendreHi, legendreRow, legendreDeg] <;> omega

/-- The scalar expressions of `_basis_bsplines` are the model's: number of segments, `dx`, the `linspace` knots,
the difference matrix scaled by `Γ(p+1)·dx^p`, the sign and the end-knot offset of the mask. -/
theorem bspline_scalars_src_eq_model (dmin dmax : ℚ) (nfun p : ℕ) (i j k : ℕ) :
    bsNSeg nfun p = nSeg nfun p ∧
    bsDx dmin dmax (bsNSeg nfun p) = dx dmin dmax nfun p ∧
    linspace (bsStart dmin dmax p (dx dmin dmax nfun p)) (bsStop dmin dmax p (dx dmin dmax nfun p)) (bsNum (nSeg nfun p) p) i
      = knots dmin dmax nfun p i ∧
    diffMat (bsDiffOrder p) j k / ((((bsGammaArg p - 1).factorial : ℕ) : ℚ) * bsDen2 p (dx dmin dmax nfun p)) = dMat dmin dmax nfun p j k ∧
    bsSign p = (-1) ^ (p + 1) ∧ bsMaskOffset p = p + 1 := by
  refine ⟨?_, ?_, ?_, ?_, ?_, ?_⟩
  · unfold bsNSeg nSeg; src_close
  · unfold bsDx bsNSeg dx nSeg; src_close
  · have hnum : bsNum (nSeg nfun p) p = nKnots nfun p := by unfold bsNum nKnots; src_close
    rw [hnum]
    unfold knots bsStart bsStop
    first | rfl | (congr 1 <;> src_close)
  · unfold dMat bsDiffOrder bsGammaArg bsDen2
    have h1 : p + 1 - 1 = p := by omega
    first | (simp only [h1]; rfl) | (simp [h1]; done) | (simp [h1]; ring_nf; done)
  · unfold bsSign; src_close
  · unfold bsMaskOffset; src_close

/-- Whether `_tpower` keeps (`>=`) or drops (`>`) a point lying exactly on a knot is irrelevant for degree ≥ 1. -/
theorem tpower_src_eq_model (x kn : ℚ) (p : ℕ) (hp : 1 ≤ p) :
    (x - kn) ^ p * (if (if bsTpowerClosed then decide (kn ≤ x) else decide (kn < x)) = true then 1 else 0) = tpower x kn p := by
  unfold tpower
  rcases Bool.eq_false_or_eq_true bsTpowerClosed with h | h
  · simp [h]
  · simp only [h, Bool.false_eq_true, if_false, decide_eq_true_eq]
    rcases lt_trichotomy kn x with hlt | heq | hgt
    · simp [hlt, hlt.le]
    · subst heq; simp [zero_pow (by omega : p ≠ 0)]
    · simp [not_lt.mpr hgt.le, not_le.mpr hgt]

end Source

end C18
