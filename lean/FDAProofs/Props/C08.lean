/-
C08 — integration, norms and Gram matrices form a consistent L² geometry.
Only property theorems and non-vacuity examples live here; helper lemmas are in
`FDAProofs/Lemmas/Quadrature.lean`.
-/
import FDAProofs.Lemmas.Quadrature
import FDAProofs.Lemmas.Simpson
import FDAModel.Geometry
import FDAModel.Generated.QuadWeights
import Mathlib.Algebra.Order.BigOperators.Group.Finset

namespace C08
open FDA Finset

/-- Numerical integration agrees with the package's own quadrature weights
(every grid size ≥ 2, every grid, every integrand). -/
theorem trapz_eq_weights (n : ℕ) (t y : ℕ → ℚ) (hn : 2 ≤ n) :
    trapz n t y = ∑ j ∈ range n, trapzW n t j * y j :=
  FDA.trapz_eq_weights n t y hn

/-- Integration is linear. -/
theorem trapz_linear (n : ℕ) (t x y : ℕ → ℚ) (a b : ℚ) :
    trapz n t (fun j => a * x j + b * y j) = a * trapz n t x + b * trapz n t y := by
  unfold trapz
  rw [Finset.mul_sum, Finset.mul_sum, ← Finset.sum_add_distrib]
  apply Finset.sum_congr rfl
  intro j _
  ring

/-- The trapezoid rule is exact for affine integrands on any grid:
`∫ (a t + b) = a (t_last² − t_0²)/2 + b (t_last − t_0)`. -/
theorem trapz_affine_exact (n : ℕ) (t : ℕ → ℚ) (a b : ℚ) :
    trapz (n + 1) t (fun j => a * t j + b) =
      a * (t n ^ 2 - t 0 ^ 2) / 2 + b * (t n - t 0) := by
  induction n with
  | zero => simp [trapz]
  | succ n ih =>
    rw [FDA.trapz_succ, ih]
    ring

/-- Additivity at a shared node: integrating up to node `k` and from node `k`
on gives the whole integral; with `trapz_affine_exact` the rule is therefore
exact for piecewise-linear integrands whose break points are grid nodes. -/
theorem trapz_split (k m : ℕ) (t y : ℕ → ℚ) :
    trapz (k + m + 1) t y =
      trapz (k + 1) t y + trapz (m + 1) (fun j => t (j + k)) (fun j => y (j + k)) := by
  unfold trapz
  simp only [Nat.add_sub_cancel]
  rw [Finset.sum_range_add]
  congr 1
  apply Finset.sum_congr rfl
  intro j _
  simp only [Nat.add_comm k j, Nat.add_right_comm j k 1]

/-- Integration over a product grid is the double weighted sum. -/
theorem integrate2_eq_weights (n₁ n₂ : ℕ) (t₁ t₂ : ℕ → ℚ) (Y : ℕ → ℕ → ℚ)
    (h₁ : 2 ≤ n₁) (h₂ : 2 ≤ n₂) :
    integrate2 n₁ n₂ t₁ t₂ Y =
      ∑ a ∈ range n₁, ∑ b ∈ range n₂, trapzW n₁ t₁ a * trapzW n₂ t₂ b * Y a b := by
  unfold integrate2
  rw [FDA.trapz_eq_weights n₂ t₂ _ h₂]
  simp_rw [FDA.trapz_eq_weights n₁ t₁ _ h₁, Finset.mul_sum]
  rw [Finset.sum_comm]
  apply Finset.sum_congr rfl; intro a _
  apply Finset.sum_congr rfl; intro b _
  ring

/-- The order in which the axes are integrated is irrelevant. -/
theorem integrate2_swap (n₁ n₂ : ℕ) (t₁ t₂ : ℕ → ℚ) (Y : ℕ → ℕ → ℚ)
    (h₁ : 2 ≤ n₁) (h₂ : 2 ≤ n₂) :
    integrate2 n₁ n₂ t₁ t₂ Y = integrate2 n₂ n₁ t₂ t₁ (fun b a => Y a b) := by
  rw [integrate2_eq_weights _ _ _ _ _ h₁ h₂, integrate2_eq_weights _ _ _ _ _ h₂ h₁, Finset.sum_comm]
  apply Finset.sum_congr rfl; intro a _
  apply Finset.sum_congr rfl; intro b _
  ring

/-- Integration factorises over product grids. -/
theorem integrate2_product (n₁ n₂ : ℕ) (t₁ t₂ g h : ℕ → ℚ) :
    integrate2 n₁ n₂ t₁ t₂ (fun a b => g a * h b) = trapz n₁ t₁ g * trapz n₂ t₂ h := by
  unfold integrate2
  have : ∀ b, trapz n₁ t₁ (fun a => g a * h b) = h b * trapz n₁ t₁ g := by
    intro b
    have := trapz_linear n₁ t₁ g g (h b) 0
    simp only [zero_mul, add_zero] at this
    rw [← this]; congr 1; funext a; ring
  simp_rw [this]
  have := trapz_linear n₂ t₂ h h (trapz n₁ t₁ g) 0
  simp only [zero_mul, add_zero] at this
  rw [← this]; congr 1; funext b; ring

/-- Squared norms are homogeneous of degree two (norms absolutely homogeneous). -/
theorem normSq_smul (n : ℕ) (t x : ℕ → ℚ) (a : ℚ) :
    normSq n t (fun j => a * x j) = a ^ 2 * normSq n t x := by
  unfold normSq inner
  have := trapz_linear n t (fun j => x j * x j) (fun j => x j * x j) (a ^ 2) 0
  simp only [zero_mul, add_zero] at this
  rw [← this]; congr 1; funext j; ring

theorem inner_eq_weights (n : ℕ) (t x y : ℕ → ℚ) (hn : 2 ≤ n) :
    inner n t x y = innerW n (trapzW n t) x y := by
  unfold inner innerW
  rw [FDA.trapz_eq_weights n t _ hn]

/-- Squared norms are non-negative on a sorted grid. -/
theorem normSq_nonneg (n : ℕ) (t x : ℕ → ℚ) (hn : 2 ≤ n) (hmono : ∀ i j, i ≤ j → t i ≤ t j) :
    0 ≤ normSq n t x := by
  unfold normSq
  rw [inner_eq_weights n t x x hn]
  unfold innerW
  apply Finset.sum_nonneg
  intro j hj
  exact mul_nonneg (FDA.trapzW_nonneg hmono j (mem_range.mp hj)) (mul_self_nonneg _)

/-- Cauchy–Schwarz for the trapezoid inner product on any sorted grid. -/
theorem cauchy_schwarz (n : ℕ) (t x y : ℕ → ℚ) (hn : 2 ≤ n)
    (hmono : ∀ i j, i ≤ j → t i ≤ t j) :
    inner n t x y ^ 2 ≤ normSq n t x * normSq n t y := by
  unfold normSq
  rw [inner_eq_weights n t x y hn, inner_eq_weights n t x x hn, inner_eq_weights n t y y hn]
  unfold innerW
  have key := Finset.sum_sq_le_sum_mul_sum_of_sq_le_mul (range n)
    (r := fun j => trapzW n t j * (x j * y j))
    (f := fun j => trapzW n t j * (x j * x j))
    (g := fun j => trapzW n t j * (y j * y j))
    (fun j hj => mul_nonneg (FDA.trapzW_nonneg hmono j (mem_range.mp hj)) (mul_self_nonneg _))
    (fun j hj => mul_nonneg (FDA.trapzW_nonneg hmono j (mem_range.mp hj)) (mul_self_nonneg _))
    (fun j _ => le_of_eq (by ring))
  exact key

/-- Triangle inequality in square-root-free form: with `r² = ‖x‖²`, `s² = ‖y‖²`,
`r, s ≥ 0`, one has `‖x+y‖² ≤ (r+s)²`. -/
theorem triangle (n : ℕ) (t x y : ℕ → ℚ) (r s : ℚ) (hn : 2 ≤ n)
    (hmono : ∀ i j, i ≤ j → t i ≤ t j) (hr : 0 ≤ r) (hs : 0 ≤ s)
    (hr2 : r ^ 2 = normSq n t x) (hs2 : s ^ 2 = normSq n t y) :
    normSq n t (fun j => x j + y j) ≤ (r + s) ^ 2 := by
  have hcs := cauchy_schwarz n t x y hn hmono
  have hexp : normSq n t (fun j => x j + y j) = normSq n t x + 2 * inner n t x y + normSq n t y := by
    unfold normSq inner trapz
    rw [Finset.mul_sum, ← Finset.sum_add_distrib, ← Finset.sum_add_distrib]
    apply Finset.sum_congr rfl; intro j _; ring
  rw [hexp, ← hr2, ← hs2]
  have hle : inner n t x y ≤ r * s := by
    by_contra hcon
    have hcon := not_le.mp hcon
    have h0 : 0 ≤ r * s := mul_nonneg hr hs
    have : (r * s) ^ 2 < inner n t x y ^ 2 := by nlinarith
    rw [← hr2, ← hs2] at hcs
    nlinarith
  nlinarith

/-- The Gram matrix is symmetric. -/
theorem gram_symm (N n : ℕ) (t : ℕ → ℚ) (X : ℕ → ℕ → ℚ) (i k : ℕ) :
    gram N n t X i k = gram N n t X k i := by
  unfold gram inner; congr 1; funext j; ring

/-- Its diagonal holds the squared norms of the centred curves. -/
theorem gram_diag (N n : ℕ) (t : ℕ → ℚ) (X : ℕ → ℕ → ℚ) (i : ℕ) :
    gram N n t X i i = normSq n t (center N X i) := rfl

theorem center_sum_zero (N : ℕ) (X : ℕ → ℕ → ℚ) (hN : 0 < N) (j : ℕ) :
    ∑ i ∈ range N, center N X i j = 0 := by
  unfold center colMean
  rw [Finset.sum_sub_distrib, Finset.sum_const, card_range, nsmul_eq_mul]
  have : (N : ℚ) ≠ 0 := by exact_mod_cast hN.ne'
  field_simp
  ring

theorem trapz_sum (n N : ℕ) (t : ℕ → ℚ) (f : ℕ → ℕ → ℚ) :
    trapz n t (fun j => ∑ i ∈ range N, f i j) = ∑ i ∈ range N, trapz n t (f i) := by
  unfold trapz
  rw [Finset.sum_comm]
  apply Finset.sum_congr rfl; intro j _
  rw [← Finset.sum_add_distrib, Finset.mul_sum, Finset.sum_div]

/-- Rows (and columns) of the Gram matrix sum to zero. -/
theorem gram_rows_sum_zero (N n : ℕ) (t : ℕ → ℚ) (X : ℕ → ℕ → ℚ) (hN : 0 < N) (i : ℕ) :
    ∑ k ∈ range N, gram N n t X i k = 0 := by
  unfold gram inner
  rw [← trapz_sum]
  have : (fun j => ∑ k ∈ range N, center N X i j * center N X k j) = fun _ => 0 := by
    funext j
    rw [← Finset.mul_sum, center_sum_zero N X hN, mul_zero]
  rw [this]
  simp [trapz]

/-- Positive semi-definiteness: the quadratic form of the Gram matrix is the
squared norm of the corresponding combination of centred curves. -/
theorem gram_quadratic_form (N n : ℕ) (t : ℕ → ℚ) (X : ℕ → ℕ → ℚ) (a : ℕ → ℚ) :
    ∑ i ∈ range N, ∑ k ∈ range N, a i * a k * gram N n t X i k =
      normSq n t (fun j => ∑ i ∈ range N, a i * center N X i j) := by
  unfold gram normSq inner
  have : (fun j => (∑ i ∈ range N, a i * center N X i j) * (∑ i ∈ range N, a i * center N X i j))
       = fun j => ∑ i ∈ range N, ∑ k ∈ range N, a i * a k * (center N X i j * center N X k j) := by
    funext j
    rw [Finset.sum_mul_sum]
    apply Finset.sum_congr rfl; intro i _
    apply Finset.sum_congr rfl; intro k _
    ring
  rw [this, trapz_sum]
  apply Finset.sum_congr rfl; intro i _
  rw [trapz_sum]
  apply Finset.sum_congr rfl; intro k _
  have := trapz_linear n t (fun j => center N X i j * center N X k j)
    (fun j => center N X i j * center N X k j) (a i * a k) 0
  simp only [zero_mul, add_zero] at this
  rw [← this]

theorem gram_psd (N n : ℕ) (t : ℕ → ℚ) (X : ℕ → ℕ → ℚ) (a : ℕ → ℚ) (hn : 2 ≤ n)
    (hmono : ∀ i j, i ≤ j → t i ≤ t j) :
    0 ≤ ∑ i ∈ range N, ∑ k ∈ range N, a i * a k * gram N n t X i k := by
  rw [gram_quadratic_form]
  exact normSq_nonneg n _ _ hn hmono

/-- Equivariance: permuting the observations permutes rows and columns. -/
theorem gram_perm (N n : ℕ) (t : ℕ → ℚ) (X : ℕ → ℕ → ℚ) (σ : ℕ → ℕ)
    (hσ : Set.BijOn σ (range N : Set ℕ) (range N : Set ℕ)) (i k : ℕ) :
    gram N n t (fun a => X (σ a)) i k = gram N n t X (σ i) (σ k) := by
  have hm : ∀ j, colMean N (fun a => X (σ a)) j = colMean N X j := by
    intro j
    unfold colMean
    congr 1
    exact Finset.sum_nbij σ (fun a ha => hσ.mapsTo ha) (fun a ha b hb h => hσ.injOn ha hb h)
      (fun b hb => hσ.surjOn hb) (fun a _ => rfl)
  unfold gram center
  simp only [hm]

/-- The code's procedure (upper triangle, minus `σ²` on the diagonal, plus the
transpose, diagonal halved) computes the closed form `G − σ² I`. -/
theorem gramImpl_eq (N n : ℕ) (t : ℕ → ℚ) (X : ℕ → ℕ → ℚ) (σ2 : ℚ) (i k : ℕ) :
    gramImpl N n t X σ2 i k = gram N n t X i k - (if i = k then σ2 else 0) := by
  unfold gramImpl
  by_cases h : i = k
  · subst h; simp [gram]
  · rcases Nat.lt_or_gt_of_ne h with hlt | hgt
    · have h1 : i ≤ k := hlt.le
      have h2 : ¬ k ≤ i := by omega
      have h3 : ¬ k = i := fun e => h e.symm
      simp [h, h1, h2, h3, gram]
    · have h1 : ¬ i ≤ k := by omega
      have h2 : k ≤ i := hgt.le
      have h3 : ¬ k = i := fun e => h e.symm
      simp [h, h1, h2, h3]
      exact gram_symm N n t X k i

/-- Non-vacuity: a concrete sorted non-uniform grid meets the hypotheses, and the
weights/trapz identity is checked on it by evaluation. -/
example : (2 ≤ 4) ∧ (∀ i j : ℕ, i ≤ j → (fun k : ℕ => ((k * k : ℕ) : ℚ)) i ≤ (fun k : ℕ => ((k * k : ℕ) : ℚ)) j) := by
  refine ⟨by norm_num, ?_⟩
  intro i j h
  show ((i * i : ℕ) : ℚ) ≤ ((j * j : ℕ) : ℚ)
  exact_mod_cast Nat.mul_le_mul h h

example : trapz 4 (fun k => (k : ℚ) ^ 2) (fun k => (k : ℚ) + 1) = 53 / 2 := by
  norm_num [trapz, Finset.sum_range_succ]

/-! ### 3-D integrals -/

/-- 3-D integration is the triple weighted sum (any non-cubic grid). -/
theorem integrate3_eq_weights (n₁ n₂ n₃ : ℕ) (t₁ t₂ t₃ : ℕ → ℚ) (Y : ℕ → ℕ → ℕ → ℚ)
    (h₁ : 2 ≤ n₁) (h₂ : 2 ≤ n₂) (h₃ : 2 ≤ n₃) :
    integrate3 n₁ n₂ n₃ t₁ t₂ t₃ Y =
      ∑ c ∈ range n₃, ∑ a ∈ range n₁, ∑ b ∈ range n₂,
        trapzW n₃ t₃ c * (trapzW n₁ t₁ a * trapzW n₂ t₂ b * Y a b c) := by
  unfold integrate3
  rw [FDA.trapz_eq_weights n₃ t₃ _ h₃]
  apply Finset.sum_congr rfl; intro c _
  have h2 := integrate2_eq_weights n₁ n₂ t₁ t₂ (fun a b => Y a b c) h₁ h₂
  unfold integrate2 at h2
  rw [h2, Finset.mul_sum]
  apply Finset.sum_congr rfl; intro a _
  rw [Finset.mul_sum]

/-- 3-D integration factorises over product grids. -/
theorem integrate3_product (n₁ n₂ n₃ : ℕ) (t₁ t₂ t₃ f g h : ℕ → ℚ) :
    integrate3 n₁ n₂ n₃ t₁ t₂ t₃ (fun a b c => f a * g b * h c) =
      trapz n₁ t₁ f * trapz n₂ t₂ g * trapz n₃ t₃ h := by
  unfold integrate3
  have e : ∀ c, trapz n₂ t₂ (fun b => trapz n₁ t₁ fun a => f a * g b * h c)
      = (trapz n₁ t₁ f * trapz n₂ t₂ g) * h c := by
    intro c
    have h2 := integrate2_product n₁ n₂ t₁ t₂ f (fun b => g b * h c)
    unfold integrate2 at h2
    have h3 : trapz n₂ t₂ (fun b => g b * h c) = h c * trapz n₂ t₂ g := by
      have := trapz_linear n₂ t₂ g g (h c) 0
      simp only [zero_mul, add_zero] at this
      rw [← this]; congr 1; funext b; ring
    calc trapz n₂ t₂ (fun b => trapz n₁ t₁ fun a => f a * g b * h c)
        = trapz n₂ t₂ (fun b => trapz n₁ t₁ fun a => f a * (g b * h c)) := by
          congr 1; funext b; congr 1; funext a; ring
      _ = trapz n₁ t₁ f * trapz n₂ t₂ (fun b => g b * h c) := h2
      _ = (trapz n₁ t₁ f * trapz n₂ t₂ g) * h c := by rw [h3]; ring
  simp_rw [e]
  have := trapz_linear n₃ t₃ h h (trapz n₁ t₁ f * trapz n₂ t₂ g) 0
  simp only [zero_mul, add_zero] at this
  exact this

/-! ### multivariate data -/

/-- The multivariate Gram matrix (sum of the component Gram matrices) is symmetric. -/
theorem gramMulti_symm (P N : ℕ) (n : ℕ → ℕ) (t : ℕ → ℕ → ℚ) (X : ℕ → ℕ → ℕ → ℚ) (i k : ℕ) :
    gramMulti P N n t X i k = gramMulti P N n t X k i := by
  unfold gramMulti
  exact Finset.sum_congr rfl fun p _ => gram_symm N (n p) (t p) (X p) i k

theorem gramMulti_rows_sum_zero (P N : ℕ) (n : ℕ → ℕ) (t : ℕ → ℕ → ℚ) (X : ℕ → ℕ → ℕ → ℚ)
    (hN : 0 < N) (i : ℕ) : ∑ k ∈ range N, gramMulti P N n t X i k = 0 := by
  unfold gramMulti
  rw [Finset.sum_comm]
  exact Finset.sum_eq_zero fun p _ => gram_rows_sum_zero N (n p) (t p) (X p) hN i

theorem gramMulti_quadratic_form (P N : ℕ) (n : ℕ → ℕ) (t : ℕ → ℕ → ℚ) (X : ℕ → ℕ → ℕ → ℚ)
    (a : ℕ → ℚ) :
    ∑ i ∈ range N, ∑ k ∈ range N, a i * a k * gramMulti P N n t X i k =
      ∑ p ∈ range P, normSq (n p) (t p) (fun j => ∑ i ∈ range N, a i * center N (X p) i j) := by
  unfold gramMulti
  simp_rw [Finset.mul_sum]
  calc ∑ i ∈ range N, ∑ k ∈ range N, ∑ p ∈ range P, a i * a k * gram N (n p) (t p) (X p) i k
      = ∑ i ∈ range N, ∑ p ∈ range P, ∑ k ∈ range N, a i * a k * gram N (n p) (t p) (X p) i k := by
        apply Finset.sum_congr rfl; intro i _; exact Finset.sum_comm
    _ = ∑ p ∈ range P, ∑ i ∈ range N, ∑ k ∈ range N, a i * a k * gram N (n p) (t p) (X p) i k :=
        Finset.sum_comm
    _ = _ := by
        apply Finset.sum_congr rfl; intro p _
        exact gram_quadratic_form N (n p) (t p) (X p) a

/-- The multivariate Gram matrix is positive semi-definite. -/
theorem gramMulti_psd (P N : ℕ) (n : ℕ → ℕ) (t : ℕ → ℕ → ℚ) (X : ℕ → ℕ → ℕ → ℚ) (a : ℕ → ℚ)
    (hn : ∀ p, p < P → 2 ≤ n p) (hmono : ∀ p, p < P → ∀ i j, i ≤ j → t p i ≤ t p j) :
    0 ≤ ∑ i ∈ range N, ∑ k ∈ range N, a i * a k * gramMulti P N n t X i k := by
  rw [gramMulti_quadratic_form]
  apply Finset.sum_nonneg
  intro p hp
  exact normSq_nonneg _ _ _ (hn p (mem_range.mp hp)) (hmono p (mem_range.mp hp))

/-- Squared multivariate norms are homogeneous of degree two. -/
theorem normSqMulti_smul (P : ℕ) (n : ℕ → ℕ) (t : ℕ → ℕ → ℚ) (x : ℕ → ℕ → ℚ) (a : ℚ) :
    normSqMulti P n t (fun p j => a * x p j) = a ^ 2 * normSqMulti P n t x := by
  unfold normSqMulti
  rw [Finset.mul_sum]
  exact Finset.sum_congr rfl fun p _ => normSq_smul (n p) (t p) (x p) a

/-- Cauchy–Schwarz for the multivariate norm *as coded* (`Σ_p ‖x_p‖`): with
`r_p = ‖x_p‖`, `s_p = ‖y_p‖` one has `|Σ_p ⟨x_p,y_p⟩| ≤ (Σ_p r_p)(Σ_p s_p)`. -/
theorem multi_cauchy_schwarz (P : ℕ) (n : ℕ → ℕ) (t : ℕ → ℕ → ℚ) (x y : ℕ → ℕ → ℚ) (r s : ℕ → ℚ)
    (hn : ∀ p, p < P → 2 ≤ n p) (hmono : ∀ p, p < P → ∀ i j, i ≤ j → t p i ≤ t p j)
    (hr : ∀ p, 0 ≤ r p) (hs : ∀ p, 0 ≤ s p)
    (hr2 : ∀ p, p < P → r p ^ 2 = normSq (n p) (t p) (x p))
    (hs2 : ∀ p, p < P → s p ^ 2 = normSq (n p) (t p) (y p)) :
    |innerMulti P n t x y| ≤ (∑ p ∈ range P, r p) * (∑ p ∈ range P, s p) := by
  unfold innerMulti
  have h1 : ∀ p ∈ range P, |inner (n p) (t p) (x p) (y p)| ≤ r p * s p := by
    intro p hp
    have hp' := mem_range.mp hp
    have hcs := cauchy_schwarz (n p) (t p) (x p) (y p) (hn p hp') (hmono p hp')
    rw [← hr2 p hp', ← hs2 p hp'] at hcs
    have h0 : 0 ≤ r p * s p := mul_nonneg (hr p) (hs p)
    rw [abs_le]
    constructor <;> nlinarith [sq_nonneg (inner (n p) (t p) (x p) (y p) + r p * s p),
      sq_nonneg (inner (n p) (t p) (x p) (y p) - r p * s p)]
  calc |∑ p ∈ range P, inner (n p) (t p) (x p) (y p)|
      ≤ ∑ p ∈ range P, |inner (n p) (t p) (x p) (y p)| := Finset.abs_sum_le_sum_abs _ _
    _ ≤ ∑ p ∈ range P, r p * s p := Finset.sum_le_sum h1
    _ ≤ (∑ p ∈ range P, r p) * (∑ p ∈ range P, s p) := by
        rw [Finset.sum_mul_sum]
        apply Finset.sum_le_sum
        intro p hp
        exact Finset.single_le_sum (f := fun q => r p * s q)
          (fun q _ => mul_nonneg (hr p) (hs q)) hp

/-! ### basis-expansion data -/

/-- The coefficient-space Gram matrix `C G Cᵀ` of basis-expansion data equals the
(uncentred) inner products of the curves evaluated on the grid. -/
theorem coefGram_eq_inner_toGrid (K n : ℕ) (t : ℕ → ℚ) (Φ C : ℕ → ℕ → ℚ) (i j : ℕ) :
    coefGram K n t Φ C i j = inner n t (toGrid K C Φ i) (toGrid K C Φ j) := by
  unfold coefGram basisGram toGrid inner
  have : (fun m => (∑ k ∈ range K, C i k * Φ k m) * (∑ k ∈ range K, C j k * Φ k m))
       = fun m => ∑ k ∈ range K, ∑ l ∈ range K, (C i k * C j l) * (Φ k m * Φ l m) := by
    funext m
    rw [Finset.sum_mul_sum]
    apply Finset.sum_congr rfl; intro k _
    apply Finset.sum_congr rfl; intro l _
    ring
  rw [this, trapz_sum]
  apply Finset.sum_congr rfl; intro k _
  rw [trapz_sum]
  apply Finset.sum_congr rfl; intro l _
  have := trapz_linear n t (fun m => Φ k m * Φ l m) (fun m => Φ k m * Φ l m) (C i k * C j l) 0
  simp only [zero_mul, add_zero] at this
  rw [this]; ring

/-- Squared norms of basis-expansion data (diagonal of `C G Cᵀ`) are the squared
norms of the evaluated curves. -/
theorem coefGram_diag (K n : ℕ) (t : ℕ → ℚ) (Φ C : ℕ → ℕ → ℚ) (i : ℕ) :
    coefGram K n t Φ C i i = normSq n t (toGrid K C Φ i) :=
  coefGram_eq_inner_toGrid K n t Φ C i i

/-! ### standardised sampling points -/

/-- Integrating on the standardised grid divides the integral by the length of the
domain (`use_argvals_stand=True`). -/
theorem trapz_standGrid (n : ℕ) (t y : ℕ → ℚ) :
    trapz n (standGrid n t) y = trapz n t y / (t (n - 1) - t 0) := by
  unfold trapz standGrid
  rw [Finset.sum_div]
  apply Finset.sum_congr rfl; intro j _
  by_cases h : t (n - 1) - t 0 = 0
  · simp [h]
  · field_simp
    ring


/-! ### the package's own Simpson weights -/

/-- On a uniform grid with `2k+1` points the coded Simpson weights are the composite pattern
`h/3 · (1, 4, 2, 4, …, 2, 4, 1)`. -/
theorem simpsonW_uniform (a h : ℚ) (k j : ℕ) (hk : 1 ≤ k) (hj : j < 2 * k + 1) :
    simpsonW (2 * k + 1) (fun i => a + i * h) j =
      if j = 0 ∨ j = 2 * k then h / 3 else if j % 2 = 1 then 4 * h / 3 else 2 * h / 3 :=
  FDA.simpsonW_uniform a h k j hk hj

/-- **Simpson exactness of the package's own weights.**  On a uniform grid with an odd
number `2k+1 ≥ 3` of points, `Σ_j simpsonW_j · f(t_j)` is the exact integral of every cubic
polynomial `f(x) = c₀ + c₁x + c₂x² + c₃x³` (written with its antiderivative). -/
theorem simpsonW_exact_cubic (a h c0 c1 c2 c3 : ℚ) (k : ℕ) (hk : 1 ≤ k) :
    let t : ℕ → ℚ := fun i => a + i * h
    let f : ℚ → ℚ := fun x => c0 + c1 * x + c2 * x ^ 2 + c3 * x ^ 3
    let F : ℚ → ℚ := fun x => c0 * x + c1 * x ^ 2 / 2 + c2 * x ^ 3 / 3 + c3 * x ^ 4 / 4
    ∑ j ∈ range (2 * k + 1), simpsonW (2 * k + 1) t j * f (t j) = F (t (2 * k)) - F (t 0) := by
  intro t f F
  have hw : ∀ j ∈ range (2 * k + 1), simpsonW (2 * k + 1) t j * f (t j) = FDA.simpsonPat h k j * f (t j) := by
    intro j hj
    rw [FDA.simpsonW_uniform a h k j hk (mem_range.mp hj)]
    rfl
  rw [Finset.sum_congr rfl hw, FDA.simpsonPat_sum_panels h (fun j => f (t j)) k hk]
  have hpanel : ∀ i, h / 3 * (f (t (2 * i)) + 4 * f (t (2 * i + 1)) + f (t (2 * i + 2)))
      = F (t (2 * (i + 1))) - F (t (2 * i)) := by
    intro i
    simp only [t, f, F]
    push_cast
    ring
  simp_rw [hpanel]
  rw [Finset.sum_range_sub (fun i => F (t (2 * i)))]

/-- Non-vacuity / sanity: ∫₀² x³ dx = 4 with three nodes. -/
example : ∑ j ∈ range 3, simpsonW 3 (fun i => (i : ℚ)) j * ((j : ℚ) ^ 3) = 4 := by
  norm_num [Finset.sum_range_succ, simpsonW]

/-- **The Gram matrix of a tensor-product basis is the Kronecker product of the marginal Gram matrices, in the order
of the functions**: the 2-D inner product of `φ_a ⊗ ψ_b` and `φ_c ⊗ ψ_d` on a product grid is
`⟨φ_a, φ_c⟩ · ⟨ψ_b, ψ_d⟩` (what `Basis.inner_product` must return at row `a·K₂+b`, column `c·K₂+d` for a generated
2-D basis; checked on the implementation by the `factorises` clause). -/
theorem inner2_tensor (n₁ n₂ : ℕ) (t₁ t₂ φa φc ψb ψd : ℕ → ℚ) :
    inner2 n₁ n₂ t₁ t₂ (fun p q => φa p * ψb q) (fun p q => φc p * ψd q)
      = inner n₁ t₁ φa φc * inner n₂ t₂ ψb ψd := by
  unfold inner2 inner
  rw [← integrate2_product]
  congr 1
  funext p q
  ring

/-- Coefficient-space Gram entry of basis-expansion data on a tensor-product basis: `⟨Σ c_k B_k, Σ d_l B_l⟩` is
bilinear in the coefficients with the pairwise 2-D inner products of the basis surfaces (any `K`, any product grid). -/
theorem inner2_bilinear (n₁ n₂ K : ℕ) (t₁ t₂ : ℕ → ℚ) (B : ℕ → ℕ → ℕ → ℚ) (c d : ℕ → ℚ) :
    inner2 n₁ n₂ t₁ t₂ (fun p q => ∑ k ∈ range K, c k * B k p q) (fun p q => ∑ l ∈ range K, d l * B l p q)
      = ∑ k ∈ range K, ∑ l ∈ range K, c k * d l * inner2 n₁ n₂ t₁ t₂ (B k) (B l) := by
  unfold inner2
  have hlin : ∀ (Y : ℕ → ℕ → ℕ → ℚ) (w : ℕ → ℚ) (M : ℕ),
      integrate2 n₁ n₂ t₁ t₂ (fun p q => ∑ m ∈ range M, w m * Y m p q)
        = ∑ m ∈ range M, w m * integrate2 n₁ n₂ t₁ t₂ (Y m) := by
    intro Y w M
    induction M with
    | zero =>
      simp only [Finset.range_zero, Finset.sum_empty]
      unfold integrate2 trapz
      simp
    | succ M ih =>
      simp only [Finset.sum_range_succ]
      rw [← ih]
      unfold integrate2
      have h1 : ∀ b, trapz n₁ t₁ (fun a => ∑ m ∈ range M, w m * Y m a b + w M * Y M a b)
          = 1 * trapz n₁ t₁ (fun a => ∑ m ∈ range M, w m * Y m a b) + w M * trapz n₁ t₁ (fun a => Y M a b) := by
        intro b
        rw [← trapz_linear]
        congr 1; funext a; ring
      simp_rw [h1]
      have h2 := trapz_linear n₂ t₂ (fun b => trapz n₁ t₁ (fun a => ∑ m ∈ range M, w m * Y m a b))
        (fun b => trapz n₁ t₁ (fun a => Y M a b)) 1 (w M)
      rw [h2]; ring
  have hprod : ∀ p q, (∑ k ∈ range K, c k * B k p q) * (∑ l ∈ range K, d l * B l p q)
      = ∑ k ∈ range K, c k * (∑ l ∈ range K, d l * (B k p q * B l p q)) := by
    intro p q
    rw [Finset.sum_mul]
    apply Finset.sum_congr rfl
    intro k _
    rw [Finset.mul_sum, Finset.mul_sum]
    apply Finset.sum_congr rfl
    intro l _
    ring
  simp_rw [hprod]
  rw [hlin (fun k p q => ∑ l ∈ range K, d l * (B k p q * B l p q)) c K]
  apply Finset.sum_congr rfl
  intro k _
  rw [hlin (fun l p q => B k p q * B l p q) d K, Finset.mul_sum]
  apply Finset.sum_congr rfl
  intro l _
  ring

/-! ### The quadrature weights *as the source has them now*

`FDAModel/Generated/QuadWeights.lean` is regenerated from `FDApy/misc/utils.py` `_integration_weights` on every run
(syntax mapped one to one onto the NumPy combinators of `FDAModel/Core/NpVec.lean`).  The next two theorems tie the
source to the definitions every theorem above is about; the corollaries restate the headline facts for the source's
own arrays. -/

/-- Closes what `simp` leaves of an entry-wise comparison (nothing, or a ring identity over ℚ): written so that
harmless variants of the source (`/ 2` for `0.5 *`, `x[2:]` for `x[2:len(x)]`, `x[-1]` for `x[len(x)-1]`) re-prove. -/
macro "np_close" : tactic => `(tactic| first | done | ring | (ring_nf; done) | (field_simp; ring))

set_option linter.unusedSimpArgs false in
set_option linter.unnecessarySeqFocus false in
set_option linter.unusedTactic false in
open FDA.Np FDA.Generated in
/-- For every grid with `n ≥ 2` points the `"trapz"` branch of the source builds, without any shape error, an array
of `n` entries which are the model's `trapzW`. -/
theorem trapzW_src_eq_model (n : ℕ) (x : ℕ → ℚ) (hn : 2 ≤ n) :
    (trapzWSrc n x).ok = true ∧ (trapzWSrc n x).len = n ∧
      ∀ j, j < n → (trapzWSrc n x).get j = trapzW n x j := by
  obtain ⟨m, rfl⟩ : ∃ m, n = m + 2 := ⟨n - 2, by omega⟩
  refine ⟨?_, ?_, ?_⟩
  · simp [trapzWSrc, smul, divc, concat, append, single, sub, slice]
  · simp [trapzWSrc, smul, divc, concat, append, single, sub, slice] <;> omega
  · intro j hj
    rcases j with _ | k
    · rw [FDA.trapzW_first]
      simp [trapzWSrc, smul, divc, concat, append, single, sub, slice] <;> np_close
    · rcases Nat.lt_or_ge k m with hk | hk
      · have h4 : 2 + k = k + 2 := by omega
        rw [FDA.trapzW_mid m k x hk]
        simp [trapzWSrc, smul, divc, concat, append, single, sub, slice, hk, h4] <;> np_close
      · obtain rfl : k = m := by omega
        rw [FDA.trapzW_last]
        simp [trapzWSrc, smul, divc, concat, append, single, sub, slice] <;> np_close

set_option linter.unusedSimpArgs false in
set_option linter.unnecessarySeqFocus false in
set_option linter.unusedTactic false in
open FDA.Np FDA.Generated in
/-- Same for the `"simpson"` branch and the model's `simpsonW`. -/
theorem simpsonW_src_eq_model (n : ℕ) (x : ℕ → ℚ) (hn : 2 ≤ n) :
    (simpsonWSrc n x).ok = true ∧ (simpsonWSrc n x).len = n ∧
      ∀ j, j < n → (simpsonWSrc n x).get j = simpsonW n x j := by
  obtain ⟨m, rfl⟩ : ∃ m, n = m + 2 := ⟨n - 2, by omega⟩
  refine ⟨?_, ?_, ?_⟩
  · simp [simpsonWSrc, smul, divc, concat, append, single, sub, slice, enumMap]
  · simp [simpsonWSrc, smul, divc, concat, append, single, sub, slice, enumMap] <;> omega
  · intro j hj
    simp only [simpsonWSrc, smul, divc, concat, append, single, sub, slice, enumMap, simpsonW]
    rcases j with _ | k
    · simp <;> np_close
    · rcases Nat.lt_or_ge k m with hk | hk
      · have h1 : ¬ (k + 1 = m + 2 - 1) := by omega
        have h4 : 1 + k = k + 1 := by omega
        have h5 : k ≠ m := by omega
        by_cases hp : k % 2 = 0 <;> simp [hk, h1, h4, h5, hp] <;> np_close
      · obtain rfl : k = m := by omega
        simp <;> np_close

/-- **`np.trapz` agrees with the source's own weights**: `Σ_j w_j y_j` with the array the `"trapz"` branch builds
is the trapezoid integral, on every grid with at least two points. -/
theorem trapz_eq_source_weights (n : ℕ) (t y : ℕ → ℚ) (hn : 2 ≤ n) :
    trapz n t y = ∑ j ∈ range (FDA.Generated.trapzWSrc n t).len, (FDA.Generated.trapzWSrc n t).get j * y j := by
  obtain ⟨_, hl, hg⟩ := trapzW_src_eq_model n t hn
  rw [hl, trapz_eq_weights n t y hn]
  exact Finset.sum_congr rfl fun j hj => by rw [hg j (mem_range.mp hj)]

/-- **The source's Simpson weights integrate cubics exactly** on a uniform grid with an odd number of points. -/
theorem source_simpson_exact_cubic (a h c0 c1 c2 c3 : ℚ) (k : ℕ) (hk : 1 ≤ k) :
    let t : ℕ → ℚ := fun i => a + i * h
    let f : ℚ → ℚ := fun x => c0 + c1 * x + c2 * x ^ 2 + c3 * x ^ 3
    let F : ℚ → ℚ := fun x => c0 * x + c1 * x ^ 2 / 2 + c2 * x ^ 3 / 3 + c3 * x ^ 4 / 4
    ∑ j ∈ range (2 * k + 1), (FDA.Generated.simpsonWSrc (2 * k + 1) t).get j * f (t j) = F (t (2 * k)) - F (t 0) := by
  intro t f F
  obtain ⟨_, _, hg⟩ := simpsonW_src_eq_model (2 * k + 1) t (by omega)
  rw [← simpsonW_exact_cubic a h c0 c1 c2 c3 k hk]
  exact Finset.sum_congr rfl fun j hj => by rw [hg j (mem_range.mp hj)]

/-- Non-vacuity: the doc-string example of the source, `_integration_weights([1,2,3,4,5])`, both rules. -/
example : (List.range 5).map (FDA.Generated.trapzWSrc 5 (fun i => (i : ℚ) + 1)).get = [1/2, 1, 1, 1, 1/2] ∧
    (List.range 5).map (FDA.Generated.simpsonWSrc 5 (fun i => (i : ℚ) + 1)).get = [1/3, 4/3, 2/3, 4/3, 1/3] := by
  constructor <;>
    norm_num [List.range, List.range.loop, FDA.Generated.trapzWSrc, FDA.Generated.simpsonWSrc, FDA.Np.smul, FDA.Np.divc,
      FDA.Np.concat, FDA.Np.append, FDA.Np.single, FDA.Np.sub, FDA.Np.slice, FDA.Np.enumMap]

end C08
